(* C09, hand-over progress, response side (unconditional: every cb, g, state):
     res_data_other_idle     a response call answering DATA_OTHER leaves out_state = RES_IDLE, out_status = DATA_OTHER
     res_idle_not_stuck      a response call on a non-empty chunk that starts in RES_IDLE on a stream that is not CLOSED
                             never answers (DATA_OTHER, consumed 0)
   The inner code ST_DATA_OTHER has ONE source on the response side: the yield of htp_tx_state_response_complete_ex,
   reached from RES_FINALIZE only (and from the gap path). The consumed count is tied to the CONSUME offset, which never
   goes back (PTermRes.ts_inv / ts_phi): from RES_IDLE the call reads the status line first, and a completed line moves
   the consume offset past it; the un-read of RES_FINALIZE cannot go below the consume offset once out_buf is empty. *)
Require Import Htp.Model.MConnTypes Htp.Model.MTxCommon Htp.Model.MBstr Htp.Model.MResLine Htp.Model.MTxRes Htp.Model.MRes.
Require Import Htp.Proof.PReq Htp.Proof.PRes Htp.Proof.PTermRes Htp.Proof.PSafeRes.
Require Import Lia.
Local Open Scope Z_scope.

Definition ndo (r : st * connp) : Prop := fst r <> ST_DATA_OTHER.
Lemma ndo_hookrc rc c : rq_hookrc rc -> ndo (rc, c).
Proof. unfold ndo, rq_hookrc. cbn [fst]. intros [->|[->| ->]]; discriminate. Qed.
Lemma ndo_hook (r : st * connp) : rq_hookrc (fst r) -> ndo r.
Proof. destruct r. apply ndo_hookrc. Qed.
Lemma ndo_lit rc c : rc <> ST_DATA_OTHER -> ndo (rc, c).
Proof. intros H. exact H. Qed.
Ltac lit := apply ndo_lit; discriminate.
(* head-position case analysis *)
Ltac hd := repeat match goal with
  | |- ndo (_, _) => lit
  | |- ndo (if ?b then _ else _) => destruct b
  | |- ndo (match ?x with _ => _ end) => destruct x
  end.

Section Ndo.
Variable cb : cb_oracle.
Variable g : cfg.

Lemma ndo_process_body d n c : ndo (rs_process_body cb d n c).
Proof. unfold ndo. destruct (rs_process_body_rc cb d n c) as [H|H]; rewrite H; discriminate. Qed.
Lemma ndo_response_headers c : ndo (rs_response_headers cb c).
Proof. unfold rs_response_headers. destruct (c_out_tx c); [apply ndo_hook, response_headers_rc|lit]. Qed.
Lemma ndo_receiver_clear c : ndo (res_receiver_finalize_clear cb c).
Proof. apply ndo_hook, res_receiver_finalize_clear_rc. Qed.
Lemma ndo_receiver_set h c : ndo (res_receiver_set cb h c).
Proof.
  unfold res_receiver_set. pose proof (ndo_receiver_clear c) as H. destruct (res_receiver_finalize_clear cb c) as [rc c1]. exact H.
Qed.
Lemma ndo_run_hook h i c : ndo (run_hook cb h i c).
Proof. apply ndo_hook. apply run_hook_ex_rc. Qed.
Lemma ndo_response_line i c : ndo (tx_state_response_line cb i c).
Proof. unfold tx_state_response_line. apply ndo_run_hook. Qed.
Lemma ndo_response_start i c : ndo (tx_state_response_start cb i c).
Proof. apply ndo_hook, tx_state_response_start_rc. Qed.

Lemma ndo_handle_state_change c : ndo (rs_handle_state_change cb c).
Proof.
  unfold rs_handle_state_change. destruct (match c_out_state_previous c with Some p => _ | None => false end); [lit|].
  match goal with |- ndo (let '(rc, c0) := ?p in _) => assert (H : ndo p); [|destruct p as [rc c1]] end.
  { hd; apply ndo_receiver_set. }
  unfold ndo in *. cbn [fst] in *. destruct rc; cbn [fst]; congruence.
Qed.

Lemma ndo_chunked_data_end_loop fuel : forall c, ndo (rs_chunked_data_end_loop fuel c).
Proof. induction fuel as [|f IH]; intros c; cbn [rs_chunked_data_end_loop]; [lit|]. destruct (rs_next_byte c); [|lit]. destruct (rs_nb_is _ LF); [lit|apply IH]. Qed.

Lemma ndo_CHUNKED_DATA c : ndo (rs_RES_BODY_CHUNKED_DATA cb c).
Proof.
  unfold rs_RES_BODY_CHUNKED_DATA. destruct (_ =? _)%nat; [lit|]. destruct (rs_body_slice c _) as [data c1].
  pose proof (ndo_process_body data (rs_bytes_to_consume c (c_out_chunked_length c)) c1) as H.
  destruct (rs_process_body cb data _ c1) as [rc c2]. destruct rc; try exact H. cbv zeta. hd.
Qed.

Lemma ndo_chunked_length_loop fuel : forall c, ndo (rs_chunked_length_loop g fuel c).
Proof.
  induction fuel as [|f IH]; intros c; cbn [rs_chunked_length_loop]; [lit|].
  destruct (rs_copy_byte c) as [c1|]; [|lit]. cbv zeta.
  destruct (_ || _); [|apply IH]. destruct (rs_consolidate g c1) as [[data|] c2]; [|lit].
  destruct (_ =? -1004); [apply IH|]. destruct (_ <? 0); [lit|]. destruct (0 <? _); lit.
Qed.

Lemma ndo_CL_KNOWN c : ndo (rs_RES_BODY_IDENTITY_CL_KNOWN cb c).
Proof.
  unfold rs_RES_BODY_IDENTITY_CL_KNOWN. destruct (rs_closed c); [apply ndo_process_body|]. destruct (_ =? _)%nat; [lit|].
  destruct (rs_body_slice c _) as [data c1].
  pose proof (ndo_process_body data (rs_bytes_to_consume c (c_out_body_data_left c)) c1) as H.
  destruct (rs_process_body cb data _ c1) as [rc c2]. destruct rc; try exact H. cbv zeta.
  destruct (_ =? 0); [apply ndo_process_body|lit].
Qed.

Lemma ndo_STREAM_CLOSE c : ndo (rs_RES_BODY_IDENTITY_STREAM_CLOSE cb c).
Proof.
  unfold rs_RES_BODY_IDENTITY_STREAM_CLOSE. cbv zeta.
  match goal with |- ndo (let '(rc, c0) := ?p in _) => assert (H : ndo p); [|destruct p as [rc c1]] end.
  { destruct (_ =? _)%nat; [lit|]. destruct (rs_body_slice _ _) as [data c1].
    pose proof (ndo_process_body data (k_len (c_out c) - k_read (c_out c)) c1) as H.
    destruct (rs_process_body cb data _ c1) as [rc c2]. destruct rc; first [exact H|lit]. }
  destruct rc; try exact H. destruct (rs_closed c1); lit.
Qed.

Lemma ndo_trailer_end c : ndo (rs_trailer_end cb c).
Proof.
  unfold rs_trailer_end. pose proof (ndo_receiver_clear c) as H. destruct (res_receiver_finalize_clear cb c) as [rc c1].
  destruct rc; try exact H. pose proof (ndo_run_hook H_RESPONSE_TRAILER (out_txi c1) c1) as H2.
  destruct (run_hook cb H_RESPONSE_TRAILER (out_txi c1) c1) as [rc2 c2]. destruct rc2; first [exact H2|lit].
Qed.

Lemma ndo_headers_line d c r c2 : rs_headers_line cb g d c = (Some r, c2) -> ndo r.
Proof.
  unfold rs_headers_line. cbv zeta. destruct (rs_is_line_terminator _ _ _); [|discriminate].
  destruct (_ =? c_HTP_RESPONSE_HEADERS); intros H; injection H as <- _; [lit|apply ndo_trailer_end].
Qed.

Lemma ndo_headers_loop fuel : forall lf c, ndo (rs_headers_loop cb g fuel lf c).
Proof.
  induction fuel as [|f IH]; intros lf c; cbn [rs_headers_loop]; [lit|].
  destruct (rs_closed c); [apply ndo_trailer_end|]. destruct (rs_copy_byte c) as [c1|]; [|lit].
  destruct (_ && _); [apply IH|].
  match goal with |- ndo (let '(scan, c0) := ?p in _) => destruct p as [scan c2] end.
  destruct scan as [|[|scan]]; [lit|apply IH|]. cbv zeta.
  destruct (rs_consolidate g c2) as [[data|] c3]; [|lit].
  destruct (_ && _); [apply IH|].
  destruct (rs_headers_line cb g (rs_dbytes data) c3) as [[r|] c4] eqn:E; [exact (ndo_headers_line _ _ _ _ E)|apply IH].
Qed.
Lemma ndo_HEADERS c : ndo (rs_RES_HEADERS cb g c).
Proof. apply ndo_headers_loop. Qed.

Lemma ndo_line_complete c : ndo (rs_line_complete cb g c).
Proof.
  unfold rs_line_complete. destruct (rs_consolidate g c) as [[data|] c1]; [|lit]. cbv zeta.
  destruct (rs_is_line_ignorable _ _); [lit|].
  destruct (rs_chomp (rs_dbytes data)) as [dc chomp_result].
  destruct (rs_treat_response_line_as_body _).
  - destruct (_ && _); [lit|].
    match goal with |- ndo (let '(rc, c0) := rs_process_body cb ?a ?b ?x in _) =>
      pose proof (ndo_process_body a b x) as H; destruct (rs_process_body cb a b x) as [rc c2] end.
    destruct rc; try exact H. destruct (_ <=? _)%nat; lit.
  - match goal with |- ndo (match tx_state_response_line cb ?a ?x with _ => _ end) =>
      pose proof (ndo_response_line a x) as H; destruct (tx_state_response_line cb a x) as [rc c2] end.
    destruct rc; first [exact H|lit].
Qed.

Lemma ndo_line_loop fuel : forall c, ndo (rs_line_loop cb g fuel c).
Proof.
  induction fuel as [|f IH]; intros c; cbn [rs_line_loop]; [lit|].
  destruct (if negb (rs_closed c) then rs_copy_byte c else Some c) as [c1|]; [|lit].
  match goal with |- ndo (let '(act, c0) := ?p in _) => destruct p as [act c2] end.
  destruct act as [|[|act]]; [lit|apply IH|]. destruct (_ || _); [apply ndo_line_complete|apply IH].
Qed.
Lemma ndo_LINE c : ndo (rs_RES_LINE cb g c).
Proof. apply ndo_line_loop. Qed.

Lemma ndo_BODY_DETERMINE c : ndo (rs_RES_BODY_DETERMINE cb c).
Proof.
  unfold rs_RES_BODY_DETERMINE. cbv zeta. destruct (_ && _ && _); [apply ndo_response_headers|].
  destruct (_ && _ && _); [apply ndo_response_headers|]. destruct (_ && _ && _); [lit|].
  match goal with |- ndo (let '(rc, c0) := ?p in _) => assert (H : ndo p); [|destruct p as [rc c1]] end.
  { destruct (negb _); [|lit]. destruct (match rs_hdr_get_c _ rs_str_transfer_encoding with Some _ => _ | None => false end); [lit|].
    destruct (rs_hdr_get_c _ rs_str_content_length); [|hd]. destruct (_ <? 0); [lit|]. destruct (negb _); lit. }
  destruct rc; try exact H. apply ndo_response_headers.
Qed.

Lemma ndo_IDLE c : ndo (rs_RES_IDLE cb g c).
Proof.
  unfold rs_RES_IDLE. destruct (negb _); [lit|].
  match goal with |- ndo (let '(ok, c0) := ?p in _) => destruct p as [ok c1] end.
  destruct ok; [apply ndo_response_start|lit].
Qed.
End Ndo.

(* ---- the yield: htp_tx_state_response_complete_ex answering OK or DATA_OTHER ---- *)
Definition okish (rc : st) : Prop := rc = ST_OK \/ rc = ST_DATA_OTHER.
#[local] Arguments Nat.ltb : simpl never.
#[local] Arguments Nat.leb : simpl never.

Section Yield.
Variable cb : cb_oracle.
Variable g : cfg.

Lemma hr_complete c rc c' : rs_response_complete cb g c = (rc, c') -> okish rc ->
  ts_w c' = ts_w c /\ c_out_state c' = RES_IDLE /\ c_out_tx c' = None.
Proof.
  unfold rs_response_complete. destruct (c_out_tx c) as [i|]; [|intros H [->| ->]; discriminate].
  unfold tx_state_response_complete_ex, run_hook.
  set (first := if negb (t_response_progress (tx_get c i) =? c_HTP_RESPONSE_COMPLETE) then _ else (ST_OK, c)).
  assert (H0 : ts_v (snd first) = ts_v c /\ rq_hookrc (fst first)).
  { subst first. destruct (negb _); [|split; [reflexivity|apply rq_hookrc_ok]].
    match goal with |- context [run_hook_ex cb ?a ?b ?x ?y ?z ?w] =>
      pose proof (tsv_run_hook_ex cb a b x y z w) as H2; pose proof (run_hook_ex_rc cb a b x y z w) as R2;
      destruct (run_hook_ex cb a b x y z w) as [rc1 c1] end.
    cbn [snd fst] in *.
    assert (H3 : ts_v c1 = ts_v c).
    { rewrite H2. destruct (negb _); [rewrite tsv_process_body_ex|]; apply tsv_tx_upd. }
    destruct rc1; try (split; [exact H3|exact R2]).
    split; [rewrite tsv_receiver_clear; exact H3|apply res_receiver_finalize_clear_rc]. }
  destruct first as [rc1 c1]. cbn [snd fst] in H0. destruct H0 as [H0 R0].
  destruct rc1; try (intros H [->| ->]; discriminate).
  2:{ exfalso. destruct R0 as [R|[R|R]]; discriminate. }
  cbv zeta.
  assert (W : forall ret cx, ts_v cx = ts_v c1 ->
            match tx_finalize cb g i cx with
            | (ST_OK, c2) => (ret, c2 <| c_out_tx := None |> <| c_out_state := RES_IDLE |>)
            | r => r end = (rc, c') -> okish rc -> ts_w c' = ts_w c /\ c_out_state c' = RES_IDLE /\ c_out_tx c' = None).
  { intros ret cx Vx.
    pose proof (tsv_tx_finalize cb g i cx) as F. pose proof (tx_finalize_rc cb g i cx) as RF.
    destruct (tx_finalize cb g i cx) as [rc2 c2]. cbn [snd fst] in F, RF.
    destruct rc2; try (intros H [->| ->]; discriminate).
    2:{ exfalso. destruct RF as [R|[R|R]]; discriminate. }
    intros H _. injection H as _ <-.
    assert (V : ts_v c2 = ts_v c) by congruence. apply tsv_w in V. destruct V as [V _]. split; [exact V|split; reflexivity]. }
  destruct (negb false && _)%bool; [apply W; reflexivity|]. destruct (negb false && _)%bool; [apply W; reflexivity|].
  apply W; reflexivity.
Qed.

(* the tail of RES_FINALIZE answering DATA_OTHER: the un-read stops at the consume offset when out_buf was empty *)
Lemma hr_finalize_tail c c' : rs_finalize_tail cb g c = (ST_DATA_OTHER, c') ->
  c_out_state c' = RES_IDLE /\ c_out_tx c' = None /\ c_out_status c' = c_out_status c /\ ts_ln c' = ts_ln c /\
  ((ts_cs c <= ts_rd c)%nat -> (ts_bl c = 0%nat \/ ts_cs c = 0%nat) -> (ts_cs c <= ts_rd c')%nat).
Proof.
  unfold rs_finalize_tail. destruct (rs_consolidate g c) as [[data|] c2] eqn:Eco; [|discriminate].
  destruct (ts_consolidate g _ _ _ Eco) as (K & R & Cases). unfold ts_k in K. injection K as K1 K2 K3 K4.
  set (bl := length (rs_dbytes data)) in *.
  destruct (bl =? 0)%nat eqn:E0.
  { intros H. destruct (hr_complete _ _ _ H (or_intror eq_refl)) as (W & S & T). apply tsw_proj in W. destruct W as (W1 & W2 & W3 & W4 & W5 & W6).
    unfold ts_ln in *. split; [exact S|]. split; [exact T|]. split; [congruence|]. split; [congruence|]. intros A1 A3. lia. }
  apply Nat.eqb_neq in E0.
  destruct (rs_treat_response_line_as_body data).
  { pose proof (ndo_process_body cb data bl c2) as N. destruct (rs_process_body cb data bl c2) as [rc c3].
    intros H. injection H as -> _. exfalso. apply N. reflexivity. }
  match goal with |- rs_response_complete cb g (rs_set_out ?f3 (rs_set_out ?f2 (rs_set_out ?f1 c2))) = _ -> _ =>
    set (c3 := rs_set_out f1 c2); set (c4 := rs_set_out f2 c3); set (c5 := rs_set_out f3 c4) end.
  intros H. destruct (hr_complete _ _ _ H (or_intror eq_refl)) as (W & S & T). apply tsw_proj in W. destruct W as (W1 & W2 & W3 & W4 & W5 & W6).
  assert (F5 : c_out_status c5 = c_out_status c2 /\ ts_ln c5 = ts_ln c2 /\
               ts_rd c5 = (if (ts_rd c2 <? bl)%nat then 0%nat else (ts_rd c2 - bl)%nat)).
  { assert (X3 : ts_rd c3 = (if (ts_rd c2 <? bl)%nat then 0%nat else (ts_rd c2 - bl)%nat) /\
                 c_out_status c3 = c_out_status c2 /\ ts_ln c3 = ts_ln c2) by (repeat split; reflexivity).
    clearbody c3.
    assert (X4 : ts_rd c4 = ts_rd c3 /\ c_out_status c4 = c_out_status c3 /\ ts_ln c4 = ts_ln c3).
    { subst c4. unfold ts_rd, ts_cs, ts_ln, rs_set_out. cbn. destruct (k_read (c_out c3) <? k_consume (c_out c3))%nat; repeat split; reflexivity. }
    clearbody c4.
    assert (X5 : ts_rd c5 = ts_rd c4 /\ c_out_status c5 = c_out_status c4 /\ ts_ln c5 = ts_ln c4).
    { subst c5. unfold ts_rd, ts_cs, ts_ln, rs_set_out. cbn. destruct (k_buf (c_out c4)); repeat split; reflexivity. }
    destruct X3 as (X31 & X33 & X34). destruct X4 as (X41 & X43 & X44). destruct X5 as (X51 & X53 & X54).
    split; [congruence|]. split; [congruence|]. congruence. }
  clearbody c5.
  destruct F5 as (F1 & F2 & F3). unfold ts_ln in *.
  split; [exact S|]. split; [exact T|]. split; [congruence|]. split; [congruence|]. intros A1 A3.
  rewrite ts_sub_if in F3. rewrite W2, F3. unfold ts_bl in A3.
  destruct Cases as [(B1 & B2 & B3 & B4)|(b & B1 & [(B2 & B3 & B4)|(ch & B2 & B3 & B4 & B5)])].
  - fold bl in B4. rewrite R. lia.
  - rewrite B1 in A3. assert (Hb : bl = length b) by (unfold bl; rewrite B4; reflexivity).
    destruct A3 as [A3|A3]; [lia|]. rewrite A3. lia.
  - rewrite B1 in A3. assert (Hb : bl = (length b + length ch)%nat) by (unfold bl; rewrite B4, app_length; reflexivity).
    rewrite R. destruct A3 as [A3|A3]; lia.
Qed.

Lemma hr_FINALIZE c c' : rs_RES_FINALIZE cb g c = (ST_DATA_OTHER, c') ->
  c_out_state c' = RES_IDLE /\ c_out_tx c' = None /\ c_out_status c' = c_out_status c /\ ts_ln c' = ts_ln c /\
  ((ts_cs c <= ts_rd c)%nat -> (ts_bl c = 0%nat \/ ts_cs c = 0%nat) -> (ts_cs c <= ts_rd c')%nat).
Proof.
  intros H. unfold rs_RES_FINALIZE in H.
  destruct (rs_closed c) eqn:Hc; cbn [negb] in H; [exact (hr_finalize_tail _ _ H)|].
  pose proof (tsv_peek c) as P. remember (rs_peek_next c) as c0 eqn:E0. clear E0.
  apply tsv_proj in P. destruct P as (P1 & P2 & P3 & P4 & P5 & P6 & P7).
  assert (Bl : ts_bl c0 = ts_bl c) by (unfold ts_bl; rewrite P5; reflexivity).
  destruct (rs_nb c0) as [b|].
  - match type of H with (if ?bb then _ else _) = _ => destruct bb eqn:Eb end.
    + destruct (rs_finalize_scan (rs_bytes_fuel c0) c0) as [[|] c1] eqn:Es; [|discriminate].
      destruct (ts_finalize_scan _ _ _ Es) as (S1 & S2 & S3 & S4 & S5). unfold ts_k in S1. injection S1 as _ S12 S13 S14.
      destruct (hr_finalize_tail _ _ H) as (T1 & T2 & T3 & T4 & T5).
      assert (Bl1 : ts_bl c1 = ts_bl c) by (unfold ts_bl in *; rewrite S5; exact Bl).
      unfold ts_ln in *. repeat split; try congruence. intros A1 A3. rewrite <- P4, <- S4. apply T5; [lia|rewrite Bl1, S4, P4; exact A3].
    + destruct (hr_finalize_tail _ _ H) as (T1 & T2 & T3 & T4 & T5).
      unfold ts_ln in *. repeat split; try congruence. intros A1 A3. rewrite <- P4. apply T5; [lia|rewrite Bl, P4; exact A3].
  - destruct (hr_complete _ _ _ H (or_intror eq_refl)) as (W & S & T). apply tsw_proj in W. destruct W as (W1 & W2 & W3 & W4 & W5 & W6).
    unfold ts_ln in *. repeat split; try congruence.
Qed.

(* ST_DATA_OTHER comes out of RES_FINALIZE only *)
Lemma hr_state_fn_do s c c' : rs_state_fn cb g s c = (ST_DATA_OTHER, c') -> s = RES_FINALIZE.
Proof.
  intros H.
  assert (N : forall r : st * connp, ndo r -> r = (ST_DATA_OTHER, c') -> False) by (intros r Hn ->; apply Hn; reflexivity).
  destruct s; cbn [rs_state_fn] in H; try reflexivity; exfalso.
  - exact (N _ (ndo_IDLE cb g c) H).
  - exact (N _ (ndo_LINE cb g c) H).
  - exact (N _ (ndo_HEADERS cb g c) H).
  - exact (N _ (ndo_BODY_DETERMINE cb c) H).
  - exact (N _ (ndo_CL_KNOWN cb c) H).
  - exact (N _ (ndo_STREAM_CLOSE cb c) H).
  - exact (N _ (ndo_chunked_length_loop g _ c) H).
  - exact (N _ (ndo_CHUNKED_DATA cb c) H).
  - exact (N _ (ndo_chunked_data_end_loop _ c) H).
Qed.

(* the exit: the stream code DATA_OTHER is the inner code ST_DATA_OTHER with bytes left in the chunk *)
Lemma hr_exit rc c c' : rs_res_exit cb g rc c = (c', c_HTP_STREAM_DATA_OTHER) ->
  rc = ST_DATA_OTHER /\ c' = rs_set_out_status c_HTP_STREAM_DATA_OTHER c.
Proof.
  assert (N1 : c_HTP_STREAM_DATA <> c_HTP_STREAM_DATA_OTHER) by (vm_compute; discriminate).
  assert (N2 : c_HTP_STREAM_ERROR <> c_HTP_STREAM_DATA_OTHER) by (vm_compute; discriminate).
  assert (N3 : c_HTP_STREAM_STOP <> c_HTP_STREAM_DATA_OTHER) by (vm_compute; discriminate).
  unfold rs_res_exit. destruct rc; cbv beta iota zeta; try (intros H; injection H as _ H; congruence).
  - destruct (_ <=? _)%nat; intros H; [injection H as _ H; congruence|]. injection H as H. split; [reflexivity|congruence].
  - destruct (rs_res_buffer g _) as [brc c1]. destruct brc; intros H; injection H as _ H; congruence.
Qed.
End Yield.

(* ---- the loop ---- *)
Lemma hr_inl_inj {A B} (a b : A) : @inl A B a = inl b -> a = b.
Proof. intros H. injection H as H. exact H. Qed.

Section Loop.
Variable cb : cb_oracle.
Variable g : cfg.

Lemma hr_neq_do : c_HTP_STREAM_CLOSED <> c_HTP_STREAM_DATA_OTHER /\ c_HTP_STREAM_TUNNEL <> c_HTP_STREAM_DATA_OTHER /\
                  c_HTP_STREAM_ERROR <> c_HTP_STREAM_DATA_OTHER /\ c_HTP_STREAM_STOP <> c_HTP_STREAM_DATA_OTHER.
Proof. repeat split; vm_compute; discriminate. Qed.

(* a pass that returns DATA_OTHER: it ran the yield (RES_FINALIZE, or the gap path) *)
Lemma hr_iter_inl gap c c' : rs_iter cb g gap c = inl (c', c_HTP_STREAM_DATA_OTHER) ->
  c_out_state c' = RES_IDLE /\ c_out_tx c' = None /\ c_out_status c' = c_HTP_STREAM_DATA_OTHER /\
  (gap = false -> c_out_state c = RES_FINALIZE /\
     ((ts_cs c <= ts_rd c)%nat -> (ts_bl c = 0%nat \/ ts_cs c = 0%nat) -> (ts_cs c <= ts_rd c')%nat)).
Proof.
  destruct hr_neq_do as (N1 & N2 & N3 & N4).
  unfold rs_iter. destruct (gap && negb _ && negb _)%bool eqn:E1; [intros H; injection H as _ H; congruence|].
  set (p := if (gap && negb _)%bool then _ else _).
  assert (D : fst p = ST_DATA_OTHER ->
              c_out_state (snd p) = RES_IDLE /\ c_out_tx (snd p) = None /\
              (gap = false -> c_out_state c = RES_FINALIZE /\
                 ((ts_cs c <= ts_rd c)%nat -> (ts_bl c = 0%nat \/ ts_cs c = 0%nat) -> (ts_cs c <= ts_rd (snd p))%nat))).
  { subst p. destruct gap; cbn [andb] in *.
    - destruct (negb _) eqn:E2.
      + destruct (rs_response_complete cb g c) as [rc c0] eqn:E. cbn [fst snd]. intros ->.
        destruct (hr_complete _ _ _ _ _ E (or_intror eq_refl)) as (_ & S & T). split; [exact S|split; [exact T|discriminate]].
      + destruct (rs_state_fn cb g (c_out_state c) c) as [rc c0] eqn:E. cbn [fst snd]. intros ->.
        pose proof (hr_state_fn_do _ _ _ _ _ E) as Hs. rewrite Hs in E. cbn [rs_state_fn] in E.
        destruct (hr_FINALIZE _ _ _ _ E) as (S & T & _). split; [exact S|split; [exact T|discriminate]].
    - destruct (rs_state_fn cb g (c_out_state c) c) as [rc c0] eqn:E. cbn [fst snd]. intros ->.
      pose proof (hr_state_fn_do _ _ _ _ _ E) as Hs. rewrite Hs in E. cbn [rs_state_fn] in E.
      destruct (hr_FINALIZE _ _ _ _ E) as (S & T & _ & _ & R). split; [exact S|split; [exact T|]]. intros _. split; [exact Hs|exact R]. }
  destruct p as [rc c0]. cbn [fst snd] in D.
  assert (X : forall rcx cx, rs_res_exit cb g rcx cx = (c', c_HTP_STREAM_DATA_OTHER) -> rcx = ST_DATA_OTHER /\
              c_out_state c' = c_out_state cx /\ c_out_tx c' = c_out_tx cx /\ c_out_status c' = c_HTP_STREAM_DATA_OTHER /\ ts_rd c' = ts_rd cx).
  { intros rcx cx Hx. destruct (hr_exit _ _ _ _ _ Hx) as [-> ->]. repeat split. }
  destruct rc.
  - destruct (c_out_status c0 =? c_HTP_STREAM_TUNNEL); [intros H; injection H as _ H; congruence|].
    pose proof (ndo_handle_state_change cb c0) as Nh. destruct (rs_handle_state_change cb c0) as [rc2 c2].
    destruct rc2; try discriminate; intros H; apply hr_inl_inj in H; destruct (X _ _ H) as [Q _]; exfalso; apply Nh; try exact Q; discriminate Q.
  - intros H. apply hr_inl_inj in H. destruct (X _ _ H) as [Q _]. discriminate Q.
  - intros H. apply hr_inl_inj in H. destruct (X _ _ H) as [Q _]. discriminate Q.
  - intros H. apply hr_inl_inj in H. destruct (X _ _ H) as [Q _]. discriminate Q.
  - intros H. apply hr_inl_inj in H. destruct (X _ _ H) as (_ & X1 & X2 & X3 & X4). destruct (D eq_refl) as (D1 & D2 & D3).
    split; [congruence|]. split; [congruence|]. split; [exact X3|]. intros Hg. destruct (D3 Hg) as [D4 D5]. split; [exact D4|]. rewrite X4. exact D5.
  - intros H. apply hr_inl_inj in H. destruct (X _ _ H) as [Q _]. discriminate Q.
  - intros H. apply hr_inl_inj in H. destruct (X _ _ H) as [Q _]. discriminate Q.
Qed.

(* L1: whatever the start state, a DATA_OTHER answer leaves the response side idle and detached *)
Lemma hr_loop_idle fuel gap : forall c c', rs_res_loop cb g fuel gap c = (c', c_HTP_STREAM_DATA_OTHER) ->
  c_out_state c' = RES_IDLE /\ c_out_tx c' = None /\ c_out_status c' = c_HTP_STREAM_DATA_OTHER.
Proof.
  destruct hr_neq_do as (N1 & N2 & N3 & N4).
  induction fuel as [|f IH]; intros c c' H; [cbn [rs_res_loop] in H; injection H as _ H; congruence|].
  rewrite rs_res_loop_step in H. destruct (rs_iter cb g gap c) as [r|c1] eqn:E; [|exact (IH _ _ H)].
  subst r. destruct (hr_iter_inl _ _ _ E) as (A & B & C & _). repeat split; assumption.
Qed.

Theorem res_data_other_idle data len c c' :
  connp_res_data cb g data len c = (c', c_HTP_STREAM_DATA_OTHER) ->
  c_out_state c' = RES_IDLE /\ c_out_tx c' = None /\ c_out_status c' = c_HTP_STREAM_DATA_OTHER.
Proof.
  destruct hr_neq_do as (N1 & N2 & N3 & N4).
  unfold connp_res_data.
  destruct (c_out_status c =? c_HTP_STREAM_STOP); [intros H; injection H as _ H; congruence|].
  destruct (c_out_status c =? c_HTP_STREAM_ERROR); [intros H; injection H as _ H; congruence|].
  destruct (match c_out_tx c with None => _ | Some _ => false end); [intros H; injection H as _ H; congruence|].
  destruct ((len =? 0)%nat && negb (rs_closed c))%bool; [intros H; injection H as _ H; congruence|].
  cbv zeta. match goal with |- (if ?b then _ else _) = _ -> _ => destruct b end; [intros H; injection H as _ H; congruence|].
  apply hr_loop_idle.
Qed.

(* L3: the invariant of a call that started in RES_IDLE with at least one byte: either the consume offset has passed the
   first byte, or the call is still in the states that come before the first completed line *)
Definition hr_J (c : connp) : Prop :=
  ts_inv c /\ rs_closed c = false /\ (0 < ts_ln c)%nat /\
  ((1 <= ts_cs c)%nat \/ c_out_state c = RES_IDLE \/ c_out_state c = RES_LINE \/ c_out_state c = RES_BODY_IDENTITY_STREAM_CLOSE).

(* the state after an OK pass from the three early states *)
Lemma hr_early_state c c0 : rs_state_fn cb g (c_out_state c) c = (ST_OK, c0) ->
  (c_out_state c = RES_IDLE -> c_out_state c0 = RES_IDLE \/ c_out_state c0 = RES_LINE \/ c_out_state c0 = RES_BODY_IDENTITY_STREAM_CLOSE) /\
  (c_out_state c = RES_LINE -> c_out_state c0 = RES_LINE \/ c_out_state c0 = RES_FINALIZE \/ c_out_state c0 = RES_HEADERS) /\
  (c_out_state c = RES_BODY_IDENTITY_STREAM_CLOSE -> c_out_state c0 = RES_BODY_IDENTITY_STREAM_CLOSE \/ c_out_state c0 = RES_FINALIZE).
Proof.
  intros H. repeat split; intros Hs; rewrite Hs in H; cbn [rs_state_fn] in H.
  - destruct (ts_IDLE_any _ _ _ _ _ H) as [Q|[Q|[Q|[]]]]; [left; congruence|right; left; congruence|right; right; congruence].
  - unfold rs_RES_LINE in H. destruct (ts_line_loop_any _ _ _ _ _ _ H) as [Q|[Q|[Q|[]]]]; [left; congruence|right; left; congruence|right; right; congruence].
  - destruct (ts_STREAM_CLOSE_any _ _ _ _ H) as [Q|[Q|[]]]; [left; congruence|right; congruence].
Qed.

Lemma hr_pass c c1 : hr_J c -> rs_iter cb g false c = inr c1 -> hr_J c1.
Proof.
  intros (Hi & Hc & Hl & Hj) H.
  destruct (ts_pass_decreases cb g false c c1 Hi H) as (I1 & L1 & P1).
  (* status and state of the next pass *)
  assert (F : exists c0, rs_state_fn cb g (c_out_state c) c = (ST_OK, c0) /\ c_out_status c1 = c_out_status c /\ c_out_state c1 = c_out_state c0).
  { unfold rs_iter in H. cbn [andb] in H.
    destruct (rs_state_fn cb g (c_out_state c) c) as [rc c0] eqn:E. destruct rc; try discriminate.
    destruct (c_out_status c0 =? c_HTP_STREAM_TUNNEL) eqn:Et; [discriminate|]. apply Z.eqb_neq in Et.
    pose proof (tsv_handle_state_change cb c0) as V. destruct (rs_handle_state_change cb c0) as [rc2 c2]. cbn [snd] in V.
    destruct rc2; try discriminate. injection H as <-. apply tsv_proj in V. destruct V as (_ & _ & _ & _ & _ & V6 & V7).
    exists c0. split; [reflexivity|]. split; [|exact V6].
    destruct (ts_state_fn cb g _ _ Hi E) as [D|(D1 & _)]; [contradiction|congruence]. }
  destruct F as (c0 & E & St & Ss).
  assert (Hc1 : rs_closed c1 = false) by (unfold rs_closed in *; rewrite St; exact Hc).
  split; [exact I1|]. split; [exact Hc1|]. split; [lia|].
  pose proof (ts_rank_le c1) as R1. pose proof (ts_rank_le c) as R0. unfold ts_phi in P1. rewrite L1 in P1.
  destruct (hr_early_state _ _ E) as (Ea & Eb & Ec). rewrite <- Ss in Ea, Eb, Ec.
  destruct Hj as [Hj|[Hj|[Hj|Hj]]].
  - left. lia.
  - right. exact (Ea Hj).
  - destruct (Eb Hj) as [Q|[Q|Q]]; [right; right; left; exact Q| |]; left;
      (assert (Rk : ts_rank c = 1%nat) by (unfold ts_rank; rewrite Hc, Hj; reflexivity));
      (assert (Rk1 : (1 <= ts_rank c1)%nat) by (unfold ts_rank; rewrite Hc1, Q; lia)); lia.
  - destruct (Ec Hj) as [Q|Q]; [right; right; right; exact Q|]. left.
    assert (Rk : ts_rank c = 0%nat) by (unfold ts_rank; rewrite Hc, Hj; reflexivity).
    assert (Rk1 : (1 <= ts_rank c1)%nat) by (unfold ts_rank; rewrite Hc1, Q; lia). lia.
Qed.

Lemma hr_final c c' : hr_J c -> rs_iter cb g false c = inl (c', c_HTP_STREAM_DATA_OTHER) -> (1 <= k_read (c_out c'))%nat.
Proof.
  intros (Hi & Hc & Hl & Hj) H. destruct (hr_iter_inl _ _ _ H) as (_ & _ & _ & G). destruct (G eq_refl) as [Hs R].
  destruct Hj as [Hj|[Hj|[Hj|Hj]]]; try congruence.
  destruct Hi as [_ Io]. destruct (Io Hc ltac:(rewrite Hs; discriminate)) as (A & B & J & _). specialize (J Hs).
  specialize (R B J). unfold ts_rd, ts_cs in *. lia.
Qed.

Lemma hr_loop fuel : forall c c', hr_J c -> rs_res_loop cb g fuel false c = (c', c_HTP_STREAM_DATA_OTHER) -> (1 <= k_read (c_out c'))%nat.
Proof.
  destruct hr_neq_do as (N1 & N2 & N3 & N4).
  induction fuel as [|f IH]; intros c c' J H; [cbn [rs_res_loop] in H; injection H as _ H; congruence|].
  rewrite rs_res_loop_step in H. destruct (rs_iter cb g false c) as [r|c1] eqn:E.
  - subst r. exact (hr_final _ _ J E).
  - exact (IH _ _ (hr_pass _ _ J E) H).
Qed.

Theorem res_idle_not_stuck d c c' :
  c_out_state c = RES_IDLE -> c_out_status c <> c_HTP_STREAM_CLOSED -> d <> [] ->
  connp_res_data cb g (Some d) (length d) c = (c', c_HTP_STREAM_DATA_OTHER) -> (1 <= k_read (c_out c'))%nat.
Proof.
  destruct hr_neq_do as (N1 & N2 & N3 & N4).
  intros Hs Hn Hd. assert (Hl : (0 < length d)%nat) by (destruct d; [congruence|cbn; lia]).
  unfold connp_res_data.
  destruct (c_out_status c =? c_HTP_STREAM_STOP); [intros H; injection H as _ H; congruence|].
  destruct (c_out_status c =? c_HTP_STREAM_ERROR); [intros H; injection H as _ H; congruence|].
  destruct (match c_out_tx c with None => _ | Some _ => false end); [intros H; injection H as _ H; congruence|].
  destruct ((length d =? 0)%nat && negb (rs_closed c))%bool; [intros H; injection H as _ H; congruence|].
  cbv zeta. match goal with |- (if ?b then _ else _) = _ -> _ => destruct b end; [intros H; injection H as _ H; congruence|].
  apply hr_loop.
  assert (Hc : rs_closed c = false) by (unfold rs_closed; apply Z.eqb_neq; exact Hn).
  unfold hr_J, ts_inv, ts_open_ok, ts_ln, ts_rd, ts_cs, ts_bl, rs_closed, rs_set_out in *. cbn. rewrite Hs.
  split; [split; [intros Q; rewrite Q in Hc; discriminate|]|].
  - intros _ _. split; [lia|]. split; [lia|]. split; [discriminate|]. intros [Q|Q]; discriminate.
  - split; [exact Hc|]. split; [exact Hl|]. right. left. reflexivity.
Qed.

End Loop.

(* ==== FINAL THEOREMS ==== *)
Print Assumptions res_data_other_idle.
Print Assumptions res_idle_not_stuck.
