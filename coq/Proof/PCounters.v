(* C09, part A -- the per-connection byte counters equal the bytes offered.
   connp.in_data_counter / out_data_counter are written in exactly two places: htp_connp_req_data and
   htp_connp_res_data, after their entry guards. Everything else (state functions, the hook / transaction layer, the
   two for(;;) loops, tx_freed, tx_destroy, open, close) is shown NOT to touch them: one small frame lemma per model
   function, bottom-up, for every callback oracle, configuration and parser state.
   Shape: a property of a state that only depends on the KEY fk = (counters, out_state, out_status) is preserved
   (fp P); the request side keeps every such property that is closed under "out_status := TUNNEL"
   (REQ_CONNECT_PROBE_DATA is the only request-side writer of out_status); the response side keeps the properties that
   only read the counters (cp Q). The automation is the head-driven peeling of PLimits / PLimitsRes. *)
Require Import Htp.Model.MConnTypes Htp.Model.MTxCommon Htp.Model.MBstr Htp.Model.MReqLine Htp.Model.MReqUri
               Htp.Model.MTxReq Htp.Model.MReq Htp.Model.MResLine Htp.Model.MTxRes Htp.Model.MRes Htp.Model.MConnp.
Require Import Lia.
Local Open Scope Z_scope.

(* ---- the definitions other proofs import ---- *)
Definition cnt (c : connp) := (c_in_data_counter c, c_out_data_counter c).
(* what request-side code leaves of the response direction, plus the counters *)
Definition qk (c c' : connp) : Prop :=
  cnt c' = cnt c /\ c_out_state c' = c_out_state c /\
  (c_out_status c' = c_out_status c \/ c_out_status c' = c_HTP_STREAM_TUNNEL).
Definition fkT := (Z * Z * res_state * Z)%type.
Definition fk (c : connp) : fkT := (cnt c, c_out_state c, c_out_status c).

Lemma qk_refl c : qk c c.
Proof. unfold qk. auto. Qed.
Lemma qk_trans a b c : qk a b -> qk b c -> qk a c.
Proof.
  unfold qk. intros (A1 & A2 & A3) (B1 & B2 & B3). repeat split; try congruence.
  destruct B3 as [B3|B3]; [rewrite B3; exact A3|right; exact B3].
Qed.
Lemma fk_qk c c' : fk c' = fk c -> qk c c'.
Proof.
  unfold fk, qk. intros H.
  pose proof (f_equal (fun k : fkT => fst (fst k)) H) as H1. pose proof (f_equal (fun k : fkT => snd (fst k)) H) as H2.
  pose proof (f_equal (fun k : fkT => snd k) H) as H3. cbn [fst snd] in *. auto.
Qed.
Lemma fk_cnt c c' : fk c' = fk c -> cnt c' = cnt c.
Proof. unfold fk. intros H. exact (f_equal (fun k : fkT => fst (fst k)) H). Qed.
Lemma qk_cnt c c' : qk c c' -> cnt c' = cnt c.
Proof. intros (H & _). exact H. Qed.

(* ---- properties of the key ---- *)
Definition fp (P : fkT -> Prop) (c : connp) : Prop := P (fk c).
Definition ofp (P : fkT -> Prop) (o : option connp) : Prop := match o with Some c => fp P c | None => True end.
(* properties that only read the counters *)
Definition cntP (Q : Z * Z -> Prop) : fkT -> Prop := fun k => Q (fst (fst k)).
Notation cp Q := (fp (cntP Q)).
(* properties closed under out_status := TUNNEL *)
Definition tunc (P : fkT -> Prop) : Prop := forall a s x, P (a, s, x) -> P (a, s, c_HTP_STREAM_TUNNEL).

Lemma fp_eq P c c' : fk c' = fk c -> fp P c -> fp P c'.
Proof. unfold fp. intros ->. auto. Qed.
Lemma fp_fk f c : (forall P, fp P c -> fp P (f c)) -> fk (f c) = fk c.
Proof. intros H. apply (H (fun k => k = fk c)). reflexivity. Qed.

(* ---- automation: peel the matches of a state expression, remembering the property for every intermediate state ---- *)
Create HintDb fp discriminated.
#[export] Hint Extern 1 (fp ?P (set ?fld ?f ?c0)) => change (fp P c0) : fp.
#[export] Hint Extern 1 (fp ?P (rq_set_in ?f ?c0)) => change (fp P c0) : fp.
#[export] Hint Extern 1 (fp ?P (rq_fault ?c0)) => change (fp P c0) : fp.
#[export] Hint Extern 1 (fp ?P (emit ?c0 ?e)) => change (fp P c0) : fp.
#[export] Hint Extern 1 (fp ?P (bump_hook ?c0 ?e)) => change (fp P c0) : fp.
#[export] Hint Extern 1 (fp ?P (rs_set_out ?f ?c0)) => change (fp P c0) : fp.
#[export] Hint Extern 1 (fp ?P (rs_fault ?c0)) => change (fp P c0) : fp.
#[export] Hint Extern 1 (fp ?P (rs_set_state ?s ?c0)) => change (fp P c0) : fp.
#[export] Hint Extern 1 (fp ?P (rs_set_out_status ?s ?c0)) => change (fp P c0) : fp.

Ltac fp_solve := solve [eauto 14 with fp].

Ltac fp_case P x :=
  let T := type of x in
  let T' := eval cbv beta in T in
  lazymatch T' with
  | prod (prod _ connp) _ =>
    let H := fresh "Hk" in assert (H : fp P (snd (fst x))) by fp_solve;
    let E := fresh "E" in destruct x as [[? ?] ?] eqn:E; cbn [fst snd] in H
  | prod connp _ =>
    let H := fresh "Hk" in assert (H : fp P (fst x)) by fp_solve;
    let E := fresh "E" in destruct x as [? ?] eqn:E; cbn [fst snd] in H
  | prod _ connp =>
    let H := fresh "Hk" in assert (H : fp P (snd x)) by fp_solve;
    let E := fresh "E" in destruct x as [? ?] eqn:E; cbn [fst snd] in H
  | option connp =>
    let H := fresh "Hk" in assert (H : ofp P x) by fp_solve;
    let E := fresh "E" in destruct x eqn:E; cbn [ofp] in H
  | _ => let E := fresh "E" in destruct x eqn:E
  end.

Ltac fp_peel :=
  lazymatch goal with
  | |- fp ?P ?X =>
    match X with
    | context [match ?x with _ => _ end] =>
      lazymatch x with context [match _ with _ => _ end] => fail | _ => idtac end;
      fp_case P x
    end
  end.
Ltac fp_go := cbn [fst snd]; repeat (first [fp_solve | fp_peel]; cbn [fst snd]).

(* head-driven variant without zeta-expansion: a let-bound intermediate state is proved to satisfy the property once
   and then abstracted, so that long `let c := if .. in` chains stay linear *)
Ltac fp_red :=
  cbv beta iota;
  repeat match goal with
         | |- context [snd (?a, ?b)] => change (snd (a, b)) with b
         | |- context [fst (?a, ?b)] => change (fst (a, b)) with a
         end.
Ltac fp_case2 P x k :=
  let T := type of x in
  let T' := eval cbv beta in T in
  lazymatch T' with
  | prod (prod _ connp) _ =>
    let H := fresh "Hk" in assert (H : fp P (snd (fst x))) by k;
    let E := fresh "E" in destruct x as [[? ?] ?] eqn:E; cbn [fst snd] in H
  | prod connp _ =>
    let H := fresh "Hk" in assert (H : fp P (fst x)) by k;
    let E := fresh "E" in destruct x as [? ?] eqn:E; cbn [fst snd] in H
  | prod _ connp =>
    let H := fresh "Hk" in assert (H : fp P (snd x)) by k;
    let E := fresh "E" in destruct x as [? ?] eqn:E; cbn [fst snd] in H
  | option connp =>
    let H := fresh "Hk" in assert (H : ofp P x) by fp_solve;
    let E := fresh "E" in destruct x eqn:E; cbn [ofp] in H
  | _ => destruct x
  end.
Ltac fp_abstract P X k :=
  let T := type of X in
  let v := fresh "v" in
  set (v := X);
  lazymatch T with
  | connp => let Hv := fresh "Hv" in assert (Hv : fp P v) by (subst v; k); clearbody v
  | _ => clearbody v
  end.
Ltac fp_zeta_head :=
  lazymatch goal with
  | |- fp ?P (snd (let x := ?v in @?b x)) => let g' := eval cbv beta in (fp P (snd (b v))) in change g'
  | |- fp ?P (fst (let x := ?v in @?b x)) => let g' := eval cbv beta in (fp P (fst (b v))) in change g'
  | |- fp ?P (let x := ?v in @?b x) => let g' := eval cbv beta in (fp P (b v)) in change g'
  end.
Ltac fp_go2 :=
  fp_red;
  lazymatch goal with
  | |- fp ?P (snd (let x := ?X in @?b x)) => fp_abstract P X fp_go2; fp_zeta_head; fp_go2
  | |- fp ?P (fst (let x := ?X in @?b x)) => fp_abstract P X fp_go2; fp_zeta_head; fp_go2
  | |- fp ?P (let x := ?X in @?b x) => fp_abstract P X fp_go2; fp_zeta_head; fp_go2
  | |- fp ?P (snd (match ?x with _ => _ end)) => first [fp_case2 P x fp_go2; fp_go2 | idtac]
  | |- fp ?P (fst (match ?x with _ => _ end)) => first [fp_case2 P x fp_go2; fp_go2 | idtac]
  | |- fp ?P (snd (fst (match ?x with _ => _ end))) => first [fp_case2 P x fp_go2; fp_go2 | idtac]
  | |- fp ?P (match ?x with _ => _ end) => first [fp_case2 P x fp_go2; fp_go2 | idtac]
  | |- _ => first [ fp_solve | fp_peel; fp_go2 | idtac ]
  end.

(* ---- MConnTypes / MTxCommon: the layer both directions use keeps the whole key ---- *)
Section Common.
Variable cb : cb_oracle.
Variable g : cfg.
Variable P : fkT -> Prop.

Lemma tx_put_fp c i t : fp P c -> fp P (tx_put c i t).
Proof. intros H. unfold tx_put. fp_go. Qed.
Hint Resolve tx_put_fp : fp.
Lemma tx_upd_fp c i f : fp P c -> fp P (tx_upd c i f).
Proof. intros H. unfold tx_upd. fp_go. Qed.
Hint Resolve tx_upd_fp : fp.
Lemma tx_destroy_incomplete_fp c i : fp P c -> fp P (tx_destroy_incomplete c i).
Proof. intros H. cbv beta delta [tx_destroy_incomplete]. fp_go2. Qed.
Hint Resolve tx_destroy_incomplete_fp : fp.
Lemma tx_destroy_fp c i : fp P c -> fp P (tx_destroy c i).
Proof. intros H. unfold tx_destroy. fp_go. Qed.
Hint Resolve tx_destroy_fp : fp.
Lemma run_hook_ex_fp h i d l s c : fp P c -> fp P (snd (run_hook_ex cb h i d l s c)).
Proof. intros H. unfold run_hook_ex. fp_go. Qed.
Hint Resolve run_hook_ex_fp : fp.
Lemma run_hook_fp h i c : fp P c -> fp P (snd (run_hook cb h i c)).
Proof. apply run_hook_ex_fp. Qed.
Lemma run_data_hook_fp h i d l c : fp P c -> fp P (snd (run_data_hook cb h i d l c)).
Proof. apply run_hook_ex_fp. Qed.
Hint Resolve run_hook_fp run_data_hook_fp : fp.
Lemma run_tx_hooks_fp k h i d l c : fp P c -> fp P (run_tx_hooks k h i d l c).
Proof. revert c. induction k as [|k IH]; intros c H; cbn [run_tx_hooks]; [exact H|]. apply IH. fp_go. Qed.
Hint Resolve run_tx_hooks_fp : fp.
Lemma req_run_hook_body_data_fp d l c : fp P c -> fp P (snd (req_run_hook_body_data cb d l c)).
Proof. intros H. unfold req_run_hook_body_data. fp_go. Qed.
Hint Resolve req_run_hook_body_data_fp : fp.
Lemma tx_req_process_body_data_ex_fp i d n c : fp P c -> fp P (snd (tx_req_process_body_data_ex cb i d n c)).
Proof. intros H. unfold tx_req_process_body_data_ex. fp_go. Qed.
Hint Resolve tx_req_process_body_data_ex_fp : fp.
Lemma req_receiver_send_data_fp l c : fp P c -> fp P (snd (req_receiver_send_data cb l c)).
Proof. intros H. unfold req_receiver_send_data. fp_go. Qed.
Hint Resolve req_receiver_send_data_fp : fp.
Lemma req_receiver_finalize_clear_fp c : fp P c -> fp P (snd (req_receiver_finalize_clear cb c)).
Proof. intros H. unfold req_receiver_finalize_clear. fp_go. Qed.
Hint Resolve req_receiver_finalize_clear_fp : fp.
Lemma tx_finalize_fp i c : fp P c -> fp P (snd (tx_finalize cb g i c)).
Proof. intros H. unfold tx_finalize. fp_go. Qed.
Hint Resolve tx_finalize_fp : fp.
Lemma tx_state_request_complete_partial_fp i c : fp P c -> fp P (snd (tx_state_request_complete_partial cb i c)).
Proof. intros H. unfold tx_state_request_complete_partial. fp_go. Qed.
Hint Resolve tx_state_request_complete_partial_fp : fp.
Lemma tx_state_request_complete_fp i c : fp P c -> fp P (snd (tx_state_request_complete cb g i c)).
Proof. intros H. unfold tx_state_request_complete. fp_go. Qed.
Hint Resolve tx_state_request_complete_fp : fp.
Lemma connp_tx_create_fp c : fp P c -> fp P (snd (connp_tx_create g c)).
Proof. intros H. cbv beta delta [connp_tx_create]. fp_go2. Qed.
Hint Resolve connp_tx_create_fp : fp.
Lemma tx_freed_loop_fp fuel : forall c r, fp P c -> fp P (fst (tx_freed_loop fuel c r)).
Proof. induction fuel as [|f IH]; intros c r H; cbn [tx_freed_loop]; fp_go. Qed.
Lemma connp_tx_freed_fp c : fp P c -> fp P (fst (connp_tx_freed c)).
Proof. apply tx_freed_loop_fp. Qed.
End Common.
#[export] Hint Resolve tx_put_fp tx_upd_fp tx_destroy_incomplete_fp tx_destroy_fp run_hook_ex_fp run_hook_fp run_data_hook_fp
  run_tx_hooks_fp req_run_hook_body_data_fp tx_req_process_body_data_ex_fp req_receiver_send_data_fp
  req_receiver_finalize_clear_fp tx_finalize_fp tx_state_request_complete_partial_fp tx_state_request_complete_fp
  connp_tx_create_fp connp_tx_freed_fp : fp.

(* ---- MTxReq: the request-side transaction states ---- *)
Section TxReq.
Variable cb : cb_oracle.
Variable g : cfg.
Variable P : fkT -> Prop.

Lemma tx_state_request_start_fp i c : fp P c -> fp P (snd (tx_state_request_start cb i c)).
Proof. intros H. unfold tx_state_request_start. fp_go. Qed.
Lemma tx_state_request_line_fp i c : fp P c -> fp P (snd (tx_state_request_line cb g i c)).
Proof. intros H. unfold tx_state_request_line. fp_go. Qed.
Lemma tx_process_request_headers_fp i c : fp P c -> fp P (snd (tx_process_request_headers cb i c)).
Proof. intros H. unfold tx_process_request_headers. fp_go. Qed.
Hint Resolve tx_process_request_headers_fp : fp.
Lemma tx_state_request_headers_fp i c : fp P c -> fp P (snd (tx_state_request_headers cb i c)).
Proof. intros H. unfold tx_state_request_headers. fp_go. Qed.
End TxReq.
#[export] Hint Resolve tx_state_request_start_fp tx_state_request_line_fp tx_process_request_headers_fp
  tx_state_request_headers_fp : fp.

(* ---- MReq ---- *)
#[export] Hint Extern 2 (fp _ (snd (rq_with_tx _ ?c))) => unfold rq_with_tx; destruct (c_in_tx c); cbn [snd] : fp.

Section ReqFrame.
Variable cb : cb_oracle.
Variable g : cfg.
Variable P : fkT -> Prop.

Lemma rq_read_byte_fp c : fp P c -> fp P (fst (rq_read_byte c)).
Proof. intros H. unfold rq_read_byte. fp_go. Qed.
Hint Resolve rq_read_byte_fp : fp.
Lemma rq_slice_fp c a b : fp P c -> fp P (fst (rq_slice c a b)).
Proof. intros H. unfold rq_slice. fp_go. Qed.
Hint Resolve rq_slice_fp : fp.
Lemma rq_peek_next_fp c : fp P c -> fp P (rq_peek_next c).
Proof. intros H. unfold rq_peek_next. fp_go. Qed.
Hint Resolve rq_peek_next_fp : fp.
Lemma rq_copy_byte_fp c : fp P c -> ofp P (rq_copy_byte c).
Proof.
  intros H. unfold rq_copy_byte. destruct (rq_at_end c); [exact I|].
  pose proof (rq_read_byte_fp c H) as H1. destruct (rq_read_byte c) as [c1 b]. cbn [ofp fst] in *. fp_go.
Qed.
Lemma rq_next_byte_fp c : fp P c -> ofp P (rq_next_byte c).
Proof.
  intros H. unfold rq_next_byte. destruct (rq_at_end c); [exact I|].
  pose proof (rq_read_byte_fp c H) as H1. destruct (rq_read_byte c) as [c1 b]. cbn [ofp fst] in *. fp_go.
Qed.
Hint Resolve rq_copy_byte_fp rq_next_byte_fp : fp.
Lemma rq_tx_upd_fp f c : fp P c -> fp P (rq_tx_upd f c).
Proof. intros H. unfold rq_tx_upd. fp_go. Qed.
Hint Resolve rq_tx_upd_fp : fp.
Lemma rq_process_header_fp l c : fp P c -> fp P (rq_process_header l c).
Proof. apply rq_tx_upd_fp. Qed.
Hint Resolve rq_process_header_fp : fp.
Lemma rq_flush_header_fp c : fp P c -> fp P (rq_flush_header c).
Proof. intros H. unfold rq_flush_header. fp_go. Qed.
Hint Resolve rq_flush_header_fp : fp.
Lemma req_buffer_fp c : fp P c -> fp P (snd (req_buffer g c)).
Proof. intros H. cbv beta delta [req_buffer]. fp_go2. Qed.
Hint Resolve req_buffer_fp : fp.
Lemma req_consolidate_data_fp c : fp P c -> fp P (snd (fst (req_consolidate_data g c))).
Proof. intros H. unfold req_consolidate_data. fp_go. Qed.
Hint Resolve req_consolidate_data_fp : fp.
Lemma req_clear_buffer_fp c : fp P c -> fp P (req_clear_buffer c).
Proof. intros H. exact H. Qed.
Hint Resolve req_clear_buffer_fp : fp.
Lemma req_receiver_set_fp h c : fp P c -> fp P (snd (req_receiver_set cb h c)).
Proof. intros H. unfold req_receiver_set. fp_go. Qed.
Hint Resolve req_receiver_set_fp : fp.
Lemma req_handle_state_change_fp c : fp P c -> fp P (snd (req_handle_state_change cb c)).
Proof. intros H. unfold req_handle_state_change. fp_go. Qed.
Lemma rq_request_complete_fp c : fp P c -> fp P (snd (rq_request_complete cb g c)).
Proof. intros H. unfold rq_request_complete. fp_go. Qed.
Hint Resolve rq_request_complete_fp : fp.
Lemma rq_to_headers_fp c : fp P c -> fp P (rq_to_headers c).
Proof. intros H. unfold rq_to_headers. fp_go. Qed.
Hint Resolve rq_to_headers_fp : fp.
Lemma REQ_IDLE_fn_fp c : fp P c -> fp P (snd (REQ_IDLE_fn cb g c)).
Proof. intros H. unfold REQ_IDLE_fn. fp_go. Qed.
Lemma REQ_LINE_complete_fp c : fp P c -> fp P (snd (REQ_LINE_complete cb g c)).
Proof. intros H. unfold REQ_LINE_complete. fp_go. Qed.
Hint Resolve REQ_LINE_complete_fp : fp.
Lemma REQ_LINE_loop_fp n : forall c, fp P c -> fp P (snd (REQ_LINE_loop cb g n c)).
Proof. induction n as [|n IH]; intros c H; cbn [REQ_LINE_loop]; fp_go. Qed.
Lemma REQ_LINE_fn_fp c : fp P c -> fp P (snd (REQ_LINE_fn cb g c)).
Proof. apply REQ_LINE_loop_fp. Qed.
Lemma REQ_PROTOCOL_fn_fp c : fp P c -> fp P (snd (REQ_PROTOCOL_fn c)).
Proof. intros H. unfold REQ_PROTOCOL_fn. fp_go. Qed.
Lemma rq_header_line_fp c : fp P c ->
  fp P (snd (rq_header_line cb g c)) /\
  match fst (rq_header_line cb g c) with Some r => fp P (snd r) | None => True end.
Proof.
  intros H. unfold rq_header_line.
  pose proof (req_consolidate_data_fp c H) as Hk.
  destruct (req_consolidate_data g c) as [[rc c0] l]. cbn [fst snd] in Hk.
  destruct rc; cbn [fst snd]; try (split; assumption).
  destruct (htp_is_line_terminator (g_personality g) l false); cbn [fst snd].
  - split; fp_solve.
  - split; [|exact I]. apply req_clear_buffer_fp. cbv zeta. fp_go.
Qed.
Lemma REQ_HEADERS_loop_fp n : forall c, fp P c -> fp P (snd (REQ_HEADERS_loop cb g n c)).
Proof.
  induction n as [|n IH]; intros c H; cbn [REQ_HEADERS_loop].
  - destruct (c_in_status c =? c_HTP_STREAM_CLOSED)%Z; [fp_go|].
    pose proof (rq_copy_byte_fp c H) as Hk. destruct (rq_copy_byte c) as [c0|]; cbn [ofp] in Hk; [|exact H].
    destruct (rq_next_is c0 LF).
    + pose proof (rq_header_line_fp c0 Hk) as [H1 H2]. destruct (rq_header_line cb g c0) as [[r|] c2]; cbn [fst snd] in *; [exact H2|fp_go].
    + fp_go.
  - destruct (c_in_status c =? c_HTP_STREAM_CLOSED)%Z; [fp_go|].
    pose proof (rq_copy_byte_fp c H) as Hk. destruct (rq_copy_byte c) as [c0|]; cbn [ofp] in Hk; [|exact H].
    destruct (rq_next_is c0 LF).
    + pose proof (rq_header_line_fp c0 Hk) as [H1 H2]. destruct (rq_header_line cb g c0) as [[r|] c2]; cbn [fst snd] in *; [exact H2|apply IH; exact H1].
    + apply IH. exact Hk.
Qed.
Lemma REQ_HEADERS_fn_fp c : fp P c -> fp P (snd (REQ_HEADERS_fn cb g c)).
Proof. apply REQ_HEADERS_loop_fp. Qed.
Lemma REQ_CONNECT_CHECK_fn_fp c : fp P c -> fp P (snd (REQ_CONNECT_CHECK_fn c)).
Proof. intros H. unfold REQ_CONNECT_CHECK_fn. fp_go. Qed.
Lemma REQ_CONNECT_WAIT_RESPONSE_fn_fp c : fp P c -> fp P (snd (REQ_CONNECT_WAIT_RESPONSE_fn c)).
Proof. intros H. unfold REQ_CONNECT_WAIT_RESPONSE_fn. fp_go. Qed.
Lemma rq_peek_copy_until_fp stop n : forall c, fp P c -> fp P (snd (rq_peek_copy_until stop n c)).
Proof. induction n as [|n IH]; intros c H; cbn [rq_peek_copy_until]; fp_go. Qed.
Hint Resolve rq_peek_copy_until_fp : fp.
Lemma REQ_BODY_DETERMINE_fn_fp c : fp P c -> fp P (snd (REQ_BODY_DETERMINE_fn c)).
Proof. intros H. unfold REQ_BODY_DETERMINE_fn. fp_go. Qed.
Lemma rq_consume_body_fp n c : fp P c -> fp P (snd (rq_consume_body cb n c)).
Proof. intros H. unfold rq_consume_body. fp_go. Qed.
Hint Resolve rq_consume_body_fp : fp.
Lemma REQ_BODY_IDENTITY_fn_fp c : fp P c -> fp P (snd (REQ_BODY_IDENTITY_fn cb c)).
Proof. intros H. unfold REQ_BODY_IDENTITY_fn. fp_go. Qed.
Lemma REQ_BODY_CHUNKED_DATA_fn_fp c : fp P c -> fp P (snd (REQ_BODY_CHUNKED_DATA_fn cb c)).
Proof. intros H. unfold REQ_BODY_CHUNKED_DATA_fn. fp_go. Qed.
Lemma REQ_BODY_CHUNKED_DATA_END_loop_fp n : forall c, fp P c -> fp P (snd (REQ_BODY_CHUNKED_DATA_END_loop n c)).
Proof. induction n as [|n IH]; intros c H; cbn [REQ_BODY_CHUNKED_DATA_END_loop]; fp_go. Qed.
Lemma REQ_BODY_CHUNKED_DATA_END_fn_fp c : fp P c -> fp P (snd (REQ_BODY_CHUNKED_DATA_END_fn c)).
Proof. intros H. apply REQ_BODY_CHUNKED_DATA_END_loop_fp. exact H. Qed.
Lemma REQ_BODY_CHUNKED_LENGTH_loop_fp n : forall c, fp P c -> fp P (snd (REQ_BODY_CHUNKED_LENGTH_loop g n c)).
Proof. induction n as [|n IH]; intros c H; cbn [REQ_BODY_CHUNKED_LENGTH_loop]; fp_go. Qed.
Lemma REQ_BODY_CHUNKED_LENGTH_fn_fp c : fp P c -> fp P (snd (REQ_BODY_CHUNKED_LENGTH_fn g c)).
Proof. apply REQ_BODY_CHUNKED_LENGTH_loop_fp. Qed.
Lemma REQ_IGNORE_fn_fp c : fp P c -> fp P (snd (REQ_IGNORE_DATA_AFTER_HTTP_0_9_fn c)).
Proof. intros H. unfold REQ_IGNORE_DATA_AFTER_HTTP_0_9_fn. fp_go. Qed.

(* htp_connp_REQ_FINALIZE *)
Definition ffp (r : rq_fin_scan) : Prop :=
  match r with RF_complete c | RF_buffer c | RF_probe c => fp P c end.
Lemma rq_finalize_scan_fp c : fp P c -> ffp (rq_finalize_scan c).
Proof.
  intros H. unfold rq_finalize_scan.
  destruct (c_in_status c =? c_HTP_STREAM_CLOSED)%Z; [exact H|]. cbv zeta.
  assert (H1 : fp P (rq_peek_next c)) by fp_solve.
  destruct (k_next_byte (c_in (rq_peek_next c))) as [b|]; [|exact H1].
  destruct (negb (b =? LF)%N || (k_read (c_in (rq_peek_next c)) <=? k_consume (c_in (rq_peek_next c)))%nat); [|exact H1].
  match goal with |- context [rq_peek_copy_until ?s ?n ?x] =>
    pose proof (rq_peek_copy_until_fp s n x H1) as H2; destruct (rq_peek_copy_until s n x) as [[|] c2] end; exact H2.
Qed.
Lemma REQ_FINALIZE_fn_fp c : fp P c -> fp P (snd (REQ_FINALIZE_fn cb g c)).
Proof.
  intros H. unfold REQ_FINALIZE_fn.
  pose proof (rq_finalize_scan_fp c H) as H1.
  destruct (rq_finalize_scan c) as [c1|c1|c1]; cbn [ffp] in H1; fp_go.
Qed.

(* htp_connp_REQ_CONNECT_PROBE_DATA: the one request-side writer of out_status *)
Hypothesis HT : tunc P.
Lemma fp_set_tunnel c : fp P c -> fp P (c <| c_out_status := c_HTP_STREAM_TUNNEL |>).
Proof. unfold fp, fk. intros H. exact (HT _ _ _ H). Qed.
Hint Resolve fp_set_tunnel : fp.
Lemma REQ_CONNECT_PROBE_DATA_fn_fp c : fp P c -> fp P (snd (REQ_CONNECT_PROBE_DATA_fn cb g c)).
Proof. intros H. unfold REQ_CONNECT_PROBE_DATA_fn. fp_go. Qed.

(* connp->in_state(connp) *)
Lemma rq_state_fn_fp s c : fp P c -> fp P (snd (rq_state_fn cb g s c)).
Proof.
  intros H. destruct s; cbn [rq_state_fn];
    auto using REQ_IDLE_fn_fp, REQ_LINE_fn_fp, REQ_PROTOCOL_fn_fp, REQ_HEADERS_fn_fp, REQ_CONNECT_CHECK_fn_fp,
               REQ_CONNECT_WAIT_RESPONSE_fn_fp, REQ_CONNECT_PROBE_DATA_fn_fp, REQ_BODY_DETERMINE_fn_fp,
               REQ_BODY_IDENTITY_fn_fp, REQ_BODY_CHUNKED_LENGTH_fn_fp, REQ_BODY_CHUNKED_DATA_fn_fp,
               REQ_BODY_CHUNKED_DATA_END_fn_fp, REQ_FINALIZE_fn_fp, REQ_IGNORE_fn_fp.
Qed.
Hint Resolve rq_state_fn_fp : fp.

(* ---- the for(;;) of htp_connp_req_data ---- *)
Lemma rq_exit_fp rc c : fp P c -> fp P (fst (rq_exit cb g rc c)).
Proof. intros H. unfold rq_exit. fp_go. Qed.
Hint Resolve rq_exit_fp : fp.

Lemma rq_iter_fp gap c : fp P c ->
  match rq_iter cb g gap c with inl r => fp P (fst r) | inr c' => fp P c' end.
Proof.
  intros H. unfold rq_iter.
  set (d := if gap then _ else _).
  assert (Hd : match d with Some r => fp P (snd r) | None => True end).
  { subst d. destruct gap; [|fp_solve].
    destruct (_ || _)%bool; [fp_solve|]. destruct (req_state_eqb _ _); [fp_solve|exact I]. }
  destruct d as [[rc c1]|]; cbn [snd] in Hd; [|exact H].
  destruct rc; try (apply rq_exit_fp; exact Hd).
  destruct (c_in_status c1 =? c_HTP_STREAM_TUNNEL)%Z; [exact Hd|].
  pose proof (req_handle_state_change_fp c1 Hd) as H2.
  destruct (req_handle_state_change cb c1) as [rc2 c2]. cbn [snd] in H2.
  destruct rc2; try (apply rq_exit_fp; exact H2). exact H2.
Qed.

Lemma rq_loop_fp fuel gap : forall c, fp P c -> fp P (fst (rq_loop cb g fuel gap c)).
Proof.
  induction fuel as [|f IH]; intros c H; cbn [rq_loop].
  - fp_go.
  - pose proof (rq_iter_fp gap c H) as H1. destruct (rq_iter cb g gap c) as [r|c1]; [exact H1|apply IH; exact H1].
Qed.
End ReqFrame.
#[export] Hint Resolve rq_read_byte_fp rq_slice_fp rq_peek_next_fp rq_copy_byte_fp rq_next_byte_fp rq_tx_upd_fp rq_process_header_fp
  rq_flush_header_fp req_buffer_fp req_consolidate_data_fp req_clear_buffer_fp req_receiver_set_fp req_handle_state_change_fp
  rq_request_complete_fp rq_to_headers_fp rq_peek_copy_until_fp rq_consume_body_fp : fp.

(* ---- MTxRes: the response side writes out_state / out_status freely; the counters stay ---- *)
Section TxRes.
Variable cb : cb_oracle.
Variable g : cfg.
Variable Q : Z * Z -> Prop.

Lemma res_receiver_send_data_cp l c : cp Q c -> cp Q (snd (res_receiver_send_data cb l c)).
Proof. intros H. unfold res_receiver_send_data. fp_go. Qed.
Hint Resolve res_receiver_send_data_cp : fp.
Lemma res_receiver_finalize_clear_cp c : cp Q c -> cp Q (snd (res_receiver_finalize_clear cb c)).
Proof. intros H. unfold res_receiver_finalize_clear. fp_go. Qed.
Hint Resolve res_receiver_finalize_clear_cp : fp.
Lemma res_receiver_set_cp h c : cp Q c -> cp Q (snd (res_receiver_set cb h c)).
Proof. intros H. unfold res_receiver_set. fp_go. Qed.
Lemma res_run_hook_body_data_cp i d n c : cp Q c -> cp Q (snd (res_run_hook_body_data cb i d n c)).
Proof. intros H. unfold res_run_hook_body_data. fp_go. Qed.
Hint Resolve res_run_hook_body_data_cp : fp.
Lemma tx_res_process_body_data_ex_cp i d n c : cp Q c -> cp Q (snd (tx_res_process_body_data_ex cb i d n c)).
Proof. intros H. unfold tx_res_process_body_data_ex. fp_go. Qed.
Hint Resolve tx_res_process_body_data_ex_cp : fp.
Lemma tx_state_response_start_cp i c : cp Q c -> cp Q (snd (tx_state_response_start cb i c)).
Proof. intros H. unfold tx_state_response_start. fp_go. Qed.
Lemma tx_state_response_line_cp i c : cp Q c -> cp Q (snd (tx_state_response_line cb i c)).
Proof. intros H. unfold tx_state_response_line. fp_go. Qed.
Lemma tx_state_response_headers_cp i c : cp Q c -> cp Q (snd (tx_state_response_headers cb i c)).
Proof. intros H. unfold tx_state_response_headers. fp_go. Qed.
Lemma tx_state_response_complete_ex_cp i h c : cp Q c -> cp Q (snd (tx_state_response_complete_ex cb g i h c)).
Proof. intros H. unfold tx_state_response_complete_ex. fp_go. Qed.
End TxRes.
#[export] Hint Resolve res_receiver_send_data_cp res_receiver_finalize_clear_cp res_receiver_set_cp res_run_hook_body_data_cp
  tx_res_process_body_data_ex_cp tx_state_response_start_cp tx_state_response_line_cp tx_state_response_headers_cp
  tx_state_response_complete_ex_cp : fp.

(* ---- MRes ---- *)
Section ResFrame.
Variable cb : cb_oracle.
Variable g : cfg.
Variable Q : Z * Z -> Prop.

Lemma rs_otx_cp f c : cp Q c -> cp Q (rs_otx f c).
Proof. intros H. unfold rs_otx. fp_go. Qed.
Hint Resolve rs_otx_cp : fp.
Lemma rs_load_next_cp c : cp Q c -> cp Q (rs_load_next c).
Proof. intros H. unfold rs_load_next. fp_go. Qed.
Hint Resolve rs_load_next_cp : fp.
Lemma rs_peek_next_cp c : cp Q c -> cp Q (rs_peek_next c).
Proof. intros H. unfold rs_peek_next. fp_go. Qed.
Hint Resolve rs_peek_next_cp : fp.
Lemma rs_copy_byte_cp c : cp Q c -> ofp (cntP Q) (rs_copy_byte c).
Proof. intros H. unfold rs_copy_byte. destruct (rs_has_byte c); [|exact I]. cbn [ofp]. fp_go. Qed.
Lemma rs_next_byte_cp c : cp Q c -> ofp (cntP Q) (rs_next_byte c).
Proof. intros H. unfold rs_next_byte. destruct (rs_has_byte c); [|exact I]. cbn [ofp]. fp_go. Qed.
Hint Resolve rs_copy_byte_cp rs_next_byte_cp : fp.
(* `match rs_copy_byte c with Some c => c | None => rs_fault c end` *)
Lemma rs_copy_byte_or_fault_cp c : cp Q c -> cp Q (match rs_copy_byte c with Some c1 => c1 | None => rs_fault c end).
Proof. intros H. pose proof (rs_copy_byte_cp c H) as H1. destruct (rs_copy_byte c); [exact H1|exact H]. Qed.
Hint Resolve rs_copy_byte_or_fault_cp : fp.
Lemma rs_body_slice_cp c n : cp Q c -> cp Q (snd (rs_body_slice c n)).
Proof. intros H. unfold rs_body_slice. fp_go. Qed.
Hint Resolve rs_body_slice_cp : fp.
Lemma rs_advance_cp n c : cp Q c -> cp Q (rs_advance n c).
Proof. intros H. exact H. Qed.
Hint Resolve rs_advance_cp : fp.
Lemma rs_clear_buffer_cp c : cp Q c -> cp Q (rs_clear_buffer c).
Proof. intros H. exact H. Qed.
Hint Resolve rs_clear_buffer_cp : fp.
Lemma rs_set_header_cp h c : cp Q c -> cp Q (rs_set_header h c).
Proof. intros H. exact H. Qed.
Hint Resolve rs_set_header_cp : fp.
Lemma rs_process_body_cp d n c : cp Q c -> cp Q (snd (rs_process_body cb d n c)).
Proof. intros H. unfold rs_process_body. fp_go. Qed.
Hint Resolve rs_process_body_cp : fp.
Lemma rs_res_buffer_cp c : cp Q c -> cp Q (snd (rs_res_buffer g c)).
Proof. intros H. cbv beta delta [rs_res_buffer]. fp_go2. Qed.
Hint Resolve rs_res_buffer_cp : fp.
Lemma rs_consolidate_cp c : cp Q c -> cp Q (snd (rs_consolidate g c)).
Proof. intros H. cbv beta delta [rs_consolidate]. fp_go2. Qed.
Hint Resolve rs_consolidate_cp : fp.
Lemma rs_chunked_data_end_loop_cp fuel : forall c, cp Q c -> cp Q (snd (rs_chunked_data_end_loop fuel c)).
Proof. induction fuel as [|f IH]; intros c H; cbn [rs_chunked_data_end_loop]; fp_go. Qed.
Lemma rs_RES_BODY_CHUNKED_DATA_END_cp c : cp Q c -> cp Q (snd (rs_RES_BODY_CHUNKED_DATA_END c)).
Proof. apply rs_chunked_data_end_loop_cp. Qed.
Lemma rs_RES_BODY_CHUNKED_DATA_cp c : cp Q c -> cp Q (snd (rs_RES_BODY_CHUNKED_DATA cb c)).
Proof. intros H. unfold rs_RES_BODY_CHUNKED_DATA. fp_go. Qed.
Lemma rs_RES_BODY_IDENTITY_CL_KNOWN_cp c : cp Q c -> cp Q (snd (rs_RES_BODY_IDENTITY_CL_KNOWN cb c)).
Proof. intros H. unfold rs_RES_BODY_IDENTITY_CL_KNOWN. fp_go. Qed.
Lemma rs_RES_BODY_IDENTITY_STREAM_CLOSE_cp c : cp Q c -> cp Q (snd (rs_RES_BODY_IDENTITY_STREAM_CLOSE cb c)).
Proof. intros H. unfold rs_RES_BODY_IDENTITY_STREAM_CLOSE. fp_go. Qed.
Lemma rs_unblock_request_cp s c : cp Q c -> cp Q (rs_unblock_request s c).
Proof. intros H. unfold rs_unblock_request. fp_go. Qed.
Hint Resolve rs_unblock_request_cp : fp.
Lemma rs_response_headers_cp c : cp Q c -> cp Q (snd (rs_response_headers cb c)).
Proof. intros H. unfold rs_response_headers. fp_go. Qed.
Hint Resolve rs_response_headers_cp : fp.
Lemma rs_process_header_cp l c : cp Q c -> cp Q (rs_process_header l c).
Proof. apply rs_otx_cp. Qed.
Lemma rs_flag_invalid_folding_cp c : cp Q c -> cp Q (rs_flag_invalid_folding c).
Proof. apply rs_otx_cp. Qed.
Hint Resolve rs_process_header_cp rs_flag_invalid_folding_cp : fp.
Lemma rs_flush_header_cp c : cp Q c -> cp Q (rs_flush_header c).
Proof. intros H. unfold rs_flush_header. fp_go. Qed.
Hint Resolve rs_flush_header_cp : fp.
Lemma rs_trailer_end_cp c : cp Q c -> cp Q (snd (rs_trailer_end cb c)).
Proof. intros H. unfold rs_trailer_end. fp_go. Qed.
Hint Resolve rs_trailer_end_cp : fp.
Lemma rs_response_complete_cp c : cp Q c -> cp Q (snd (rs_response_complete cb g c)).
Proof. intros H. unfold rs_response_complete. fp_go. Qed.
Hint Resolve rs_response_complete_cp : fp.
Lemma rs_finalize_scan_cp fuel : forall c, cp Q c -> cp Q (snd (rs_finalize_scan fuel c)).
Proof. induction fuel as [|f IH]; intros c H; cbn [rs_finalize_scan]; fp_go. Qed.
Hint Resolve rs_finalize_scan_cp : fp.
Lemma rs_handle_state_change_cp c : cp Q c -> cp Q (snd (rs_handle_state_change cb c)).
Proof. intros H. unfold rs_handle_state_change. fp_go. Qed.
Lemma rs_RES_BODY_DETERMINE_cp c : cp Q c -> cp Q (snd (rs_RES_BODY_DETERMINE cb c)).
Proof. intros H. cbv beta delta [rs_RES_BODY_DETERMINE]. fp_go2. Qed.

(* one consolidated header line *)
Lemma rs_headers_line_cp d c : cp Q c ->
  cp Q (snd (rs_headers_line cb g d c)) /\
  match fst (rs_headers_line cb g d c) with Some r => cp Q (snd r) | None => True end.
Proof.
  intros H. cbv beta delta [rs_headers_line].
  match goal with |- context [let next_no_lf := ?X in _] => generalize X; intros nn; cbv zeta end.
  set (c0 := if rs_has_byte c then match rs_cur_byte c (k_read (c_out c)) with Some _ => c | None => rs_fault c end else c).
  assert (H0 : cp Q c0) by (subst c0; fp_go).
  clearbody c0.
  destruct (rs_is_line_terminator (g_personality g) d nn).
  - destruct (_ =? _)%Z; cbn [fst snd]; split; fp_solve.
  - cbn [fst snd]. split; [|exact I]. apply rs_clear_buffer_cp. fp_go2.
Qed.
Lemma rs_headers_line_cont_cp d c (K : connp -> st * connp) :
  (forall c', cp Q c' -> cp Q (snd (K c'))) -> cp Q c ->
  cp Q (snd (match rs_headers_line cb g d c with (Some r, _) => r | (None, c') => K c' end)).
Proof.
  intros HK H. pose proof (rs_headers_line_cp d c H) as [H1 H2].
  destruct (rs_headers_line cb g d c) as [[r|] c2]; cbn [fst snd] in *; [exact H2|apply HK; exact H1].
Qed.

(* htp_connp_RES_HEADERS *)
Lemma rs_headers_loop_cp fuel : forall lf c, cp Q c -> cp Q (snd (rs_headers_loop cb g fuel lf c)).
Proof.
  induction fuel as [|f IH]; intros lf c H; cbn [rs_headers_loop]; [fp_go|].
  destruct (rs_closed c); [fp_solve|].
  pose proof (rs_copy_byte_cp c H) as H1. destruct (rs_copy_byte c) as [c1|]; cbn [ofp] in H1; [|exact H].
  destruct (negb (rs_nb_is c1 LF) && negb (rs_nb_is c1 CR))%bool; [apply IH; exact H1|].
  match goal with |- context [let '(_, _) := ?X in _] =>
    assert (H2 : cp Q (snd X)) by fp_go2; destruct X as [scan c2] end.
  cbn [snd] in H2.
  destruct scan as [|[|scan]]; [exact H2|apply IH; exact H2|].
  pose proof (rs_consolidate_cp c2 H2) as H3. destruct (rs_consolidate g c2) as [[data|] c3]; cbn [snd] in H3; [|exact H3].
  match goal with |- context [if ?b then _ else _] => destruct b end; [apply IH; exact H3|].
  apply rs_headers_line_cont_cp; [intros c' Hc'; apply IH; exact Hc'|exact H3].
Qed.
Lemma rs_RES_HEADERS_cp c : cp Q c -> cp Q (snd (rs_RES_HEADERS cb g c)).
Proof. apply rs_headers_loop_cp. Qed.

(* htp_connp_RES_BODY_CHUNKED_LENGTH *)
Lemma rs_chunked_length_loop_cp fuel : forall c, cp Q c -> cp Q (snd (rs_chunked_length_loop g fuel c)).
Proof.
  induction fuel as [|f IH]; intros c H; cbn [rs_chunked_length_loop]; [fp_go|].
  pose proof (rs_copy_byte_cp c H) as H1. destruct (rs_copy_byte c) as [c1|]; cbn [ofp] in H1; [|exact H].
  match goal with |- context [if ?b then _ else rs_chunked_length_loop g f c1] => destruct b end; [|apply IH; exact H1].
  pose proof (rs_consolidate_cp c1 H1) as H3. destruct (rs_consolidate g c1) as [[data|] c3]; cbn [snd] in H3; [|exact H3].
  cbv zeta.
  match goal with |- context [if ?b then rs_chunked_length_loop g f ?X else _] => destruct b; [apply IH; fp_go2|] end.
  fp_go2.
Qed.
Lemma rs_RES_BODY_CHUNKED_LENGTH_cp c : cp Q c -> cp Q (snd (rs_RES_BODY_CHUNKED_LENGTH g c)).
Proof. apply rs_chunked_length_loop_cp. Qed.

(* htp_connp_RES_LINE *)
Lemma rs_line_complete_cp c : cp Q c -> cp Q (snd (rs_line_complete cb g c)).
Proof. intros H. cbv beta delta [rs_line_complete]. fp_go2. Qed.
Hint Resolve rs_line_complete_cp : fp.
Lemma rs_line_loop_cp fuel : forall c, cp Q c -> cp Q (snd (rs_line_loop cb g fuel c)).
Proof.
  induction fuel as [|f IH]; intros c H; cbn [rs_line_loop]; [fp_go|].
  match goal with |- context [match ?X with Some _ => _ | None => (ST_DATA_BUFFER, c) end] =>
    assert (H1 : ofp (cntP Q) X) by (destruct (negb (rs_closed c)); [fp_solve|exact H]); destruct X as [c1|] end;
    cbn [ofp] in H1; [|exact H].
  match goal with |- context [let '(_, _) := ?X in _] =>
    assert (H2 : cp Q (snd X)) by fp_go2; destruct X as [act c2] end.
  cbn [snd] in H2.
  destruct act as [|[|act]]; [exact H2|apply IH; exact H2|].
  destruct (rs_nb_is c2 LF || rs_closed c2)%bool; [fp_solve|apply IH; exact H2].
Qed.
Lemma rs_RES_LINE_cp c : cp Q c -> cp Q (snd (rs_RES_LINE cb g c)).
Proof. apply rs_line_loop_cp. Qed.

(* htp_connp_RES_FINALIZE *)
Lemma rs_finalize_tail_cp c : cp Q c -> cp Q (snd (rs_finalize_tail cb g c)).
Proof.
  intros H. unfold rs_finalize_tail. cbv zeta.
  pose proof (rs_consolidate_cp c H) as H3. destruct (rs_consolidate g c) as [[data|] c3]; cbn [snd] in H3; [|exact H3].
  destruct (length (rs_dbytes data) =? 0)%nat; [fp_solve|].
  destruct (rs_treat_response_line_as_body data); [fp_go|].
  apply rs_response_complete_cp. exact H3.
Qed.
Hint Resolve rs_finalize_tail_cp : fp.
Lemma rs_RES_FINALIZE_cp c : cp Q c -> cp Q (snd (rs_RES_FINALIZE cb g c)).
Proof. intros H. cbv beta delta [rs_RES_FINALIZE]. fp_go2. Qed.

(* htp_connp_RES_IDLE: may create a transaction and may complete the pending request *)
Lemma rs_RES_IDLE_cp c : cp Q c -> cp Q (snd (rs_RES_IDLE cb g c)).
Proof. intros H. cbv beta delta [rs_RES_IDLE]. fp_go2. Qed.

Lemma rs_state_fn_cp s c : cp Q c -> cp Q (snd (rs_state_fn cb g s c)).
Proof.
  intros H. destruct s; cbn [rs_state_fn];
    auto using rs_RES_IDLE_cp, rs_RES_LINE_cp, rs_RES_HEADERS_cp, rs_RES_BODY_DETERMINE_cp, rs_RES_BODY_IDENTITY_CL_KNOWN_cp,
               rs_RES_BODY_IDENTITY_STREAM_CLOSE_cp, rs_RES_BODY_CHUNKED_LENGTH_cp, rs_RES_BODY_CHUNKED_DATA_cp,
               rs_RES_BODY_CHUNKED_DATA_END_cp, rs_RES_FINALIZE_cp.
Qed.
Hint Resolve rs_state_fn_cp : fp.

(* ---- the for(;;) of htp_connp_res_data ---- *)
Lemma rs_res_exit_cp rc c : cp Q c -> cp Q (fst (rs_res_exit cb g rc c)).
Proof. intros H. unfold rs_res_exit. fp_go. Qed.
Hint Resolve rs_res_exit_cp : fp.

Lemma rs_res_loop_cp fuel gap : forall c, cp Q c -> cp Q (fst (rs_res_loop cb g fuel gap c)).
Proof.
  induction fuel as [|f IH]; intros c H; cbn [rs_res_loop]; [fp_go|].
  match goal with |- context [if ?b then (c, c_HTP_STREAM_CLOSED) else _] => destruct b end; [exact H|].
  match goal with |- context [let '(_, _) := ?X in _] =>
    assert (H1 : cp Q (snd X)) by (destruct (_ && _)%bool; fp_solve); destruct X as [rc c1] end.
  cbn [snd] in H1.
  destruct rc; try (apply rs_res_exit_cp; exact H1).
  destruct (c_out_status c1 =? c_HTP_STREAM_TUNNEL)%Z; [exact H1|].
  pose proof (rs_handle_state_change_cp c1 H1) as H2.
  destruct (rs_handle_state_change cb c1) as [rc2 c2]. cbn [snd] in H2.
  destruct rc2; try (apply rs_res_exit_cp; exact H2). apply IH. exact H2.
Qed.
End ResFrame.

(* ======================================================================
   The statements
   ====================================================================== *)
Ltac stream_ne := vm_compute; discriminate.

Section P.
Variable cb : cb_oracle.
Variable g : cfg.

(* the whole request-side loop leaves the counters and out_state alone, and out_status is kept or becomes TUNNEL *)
Lemma rq_loop_qk fuel gap c : qk c (fst (rq_loop cb g fuel gap c)).
Proof.
  set (P := fun k : fkT => fst (fst k) = cnt c /\ snd (fst k) = c_out_state c /\
                           (snd k = c_out_status c \/ snd k = c_HTP_STREAM_TUNNEL)).
  assert (HT : tunc P).
  { unfold tunc, P. cbn [fst snd]. intros a s x (H1 & H2 & _). auto. }
  assert (H0 : fp P c) by (unfold fp, P, fk; cbn [fst snd]; auto).
  pose proof (rq_loop_fp cb g P HT fuel gap c H0) as H. unfold fp, P, fk in H. cbn [fst snd] in H. exact H.
Qed.

Lemma rs_res_loop_cnt fuel gap c : cnt (fst (rs_res_loop cb g fuel gap c)) = cnt c.
Proof. apply (rs_res_loop_cp cb g (fun k => k = cnt c) fuel gap c). reflexivity. Qed.

(* frame facts in equational form, for the callers of this file *)
Lemma rq_state_fn_qk s c : qk c (snd (rq_state_fn cb g s c)).
Proof.
  set (P := fun k : fkT => fst (fst k) = cnt c /\ snd (fst k) = c_out_state c /\
                           (snd k = c_out_status c \/ snd k = c_HTP_STREAM_TUNNEL)).
  assert (HT : tunc P).
  { unfold tunc, P. cbn [fst snd]. intros a s0 x (H1 & H2 & _). auto. }
  assert (H0 : fp P c) by (unfold fp, P, fk; cbn [fst snd]; auto).
  pose proof (rq_state_fn_fp cb g P HT s c H0) as H. unfold fp, P, fk in H. cbn [fst snd] in H. exact H.
Qed.
Lemma rs_state_fn_cnt s c : cnt (snd (rs_state_fn cb g s c)) = cnt c.
Proof. apply (rs_state_fn_cp cb g (fun k => k = cnt c) s c). reflexivity. Qed.
Lemma tx_state_request_complete_fk i c : fk (snd (tx_state_request_complete cb g i c)) = fk c.
Proof. apply (fp_fk (fun x => snd (tx_state_request_complete cb g i x))). intros P. apply tx_state_request_complete_fp. Qed.
Lemma connp_tx_freed_fk c : fk (fst (connp_tx_freed c)) = fk c.
Proof. apply (fp_fk (fun x => fst (connp_tx_freed x))). intros P. apply connp_tx_freed_fp. Qed.
Lemma tx_destroy_incomplete_fk c i : fk (tx_destroy_incomplete c i) = fk c.
Proof. apply (fp_fk (fun x => tx_destroy_incomplete x i)). intros P. apply tx_destroy_incomplete_fp. Qed.
Lemma api_destroy_tx_fk k c : fk (fst (api_destroy_tx k c)) = fk c.
Proof.
  unfold api_destroy_tx. destruct (tx_slot c k); [|reflexivity].
  destruct (tx_is_complete t); cbn [fst]; [apply tx_destroy_incomplete_fk|reflexivity].
Qed.
Lemma connp_open_cnt c : cnt (connp_open c) = cnt c.
Proof. unfold connp_open. destruct (_ || _)%bool; reflexivity. Qed.
Lemma finish_call_cnt c rc n ev : cnt (fst (finish_call c rc n ev)) = cnt c.
Proof. reflexivity. Qed.

(* ---- the two doors ---- *)
(* the counter is bumped iff the first three guards pass (the zero-length guard adds 0 anyway) *)
Definition req_door (c : connp) : bool :=
  negb (c_in_status c =? c_HTP_STREAM_STOP) && negb (c_in_status c =? c_HTP_STREAM_ERROR) &&
  negb (match c_in_tx c with None => negb (req_state_eqb (c_in_state c) REQ_IDLE) && negb (c_in_status c =? c_HTP_STREAM_TUNNEL) | Some _ => false end).
Definition res_door (c : connp) : bool :=
  negb (c_out_status c =? c_HTP_STREAM_STOP) && negb (c_out_status c =? c_HTP_STREAM_ERROR) &&
  negb (match c_out_tx c with None => negb (res_state_eqb (c_out_state c) RES_IDLE) | Some _ => false end).

(* everything about one request call in one statement *)
Lemma req_data_main data len c :
  let c' := fst (connp_req_data cb g data len c) in
  cnt c' = (c_in_data_counter c + (if req_door c then Z.of_nat len else 0), c_out_data_counter c) /\
  c_out_state c' = c_out_state c /\
  (c_out_status c' = c_out_status c \/
   (c_out_status c = c_HTP_STREAM_DATA_OTHER /\ c_out_status c' = c_HTP_STREAM_DATA) \/
   c_out_status c' = c_HTP_STREAM_TUNNEL).
Proof.
  cbv zeta. unfold connp_req_data, req_door.
  destruct (c_in_status c =? c_HTP_STREAM_STOP) eqn:E1; cbn [negb andb fst].
  { unfold cnt. rewrite Z.add_0_r. auto. }
  destruct (c_in_status c =? c_HTP_STREAM_ERROR) eqn:E2; cbn [negb andb fst].
  { unfold cnt. rewrite Z.add_0_r. auto. }
  destruct (match c_in_tx c with None => negb (req_state_eqb (c_in_state c) REQ_IDLE) && negb (c_in_status c =? c_HTP_STREAM_TUNNEL) | Some _ => false end) eqn:E3;
    cbn [negb andb fst].
  { unfold cnt. cbn. rewrite Z.add_0_r. auto. }
  destruct ((len =? 0)%nat && negb (c_in_status c =? c_HTP_STREAM_CLOSED))%bool eqn:E4; cbn [fst].
  { apply andb_true_iff in E4. destruct E4 as [E4 _]. apply Nat.eqb_eq in E4. subst len.
    unfold cnt. cbn. rewrite Z.add_0_r. auto. }
  cbv zeta.
  match goal with |- context [if _ then (?x, c_HTP_STREAM_TUNNEL) else _] => set (c2 := x) end.
  destruct (c_in_status c2 =? c_HTP_STREAM_TUNNEL); cbn [fst].
  { unfold cnt. subst c2. cbn. rewrite (Z.add_comm (Z.of_nat len)). auto. }
  assert (K2 : cnt c2 = (c_in_data_counter c + Z.of_nat len, c_out_data_counter c) /\
               c_out_state c2 = c_out_state c /\ c_out_status c2 = c_out_status c).
  { subst c2. unfold cnt, rq_set_in. cbn. rewrite (Z.add_comm (Z.of_nat len)). auto. }
  destruct K2 as (K2a & K2b & K2c). clearbody c2.
  match goal with |- context [rq_loop cb g ?f ?gp ?x] =>
    pose proof (rq_loop_qk f gp x) as (L1 & L2 & L3); set (c3 := x) in * end.
  assert (K3 : cnt c3 = cnt c2 /\ c_out_state c3 = c_out_state c2 /\
               (c_out_status c3 = c_out_status c2 \/
                (c_out_status c2 = c_HTP_STREAM_DATA_OTHER /\ c_out_status c3 = c_HTP_STREAM_DATA))).
  { subst c3. destruct (c_out_status c2 =? c_HTP_STREAM_DATA_OTHER) eqn:E5; [|auto].
    apply Z.eqb_eq in E5. repeat split; try reflexivity. right. split; [exact E5|reflexivity]. }
  destruct K3 as (K3a & K3b & K3c). clearbody c3.
  rewrite L1, L2, K3a, K3b, K2a, K2b. repeat split.
  destruct L3 as [L3|L3]; [|right; right; exact L3].
  rewrite L3. destruct K3c as [K3c|[K3c K3d]]; [left; congruence|right; left; split; congruence].
Qed.

Lemma res_data_main data len c :
  let c' := fst (connp_res_data cb g data len c) in
  cnt c' = (c_in_data_counter c, c_out_data_counter c + (if res_door c then Z.of_nat len else 0)).
Proof.
  cbv zeta. unfold connp_res_data, res_door.
  destruct (c_out_status c =? c_HTP_STREAM_STOP) eqn:E1; cbn [negb andb fst].
  { unfold cnt. rewrite Z.add_0_r. auto. }
  destruct (c_out_status c =? c_HTP_STREAM_ERROR) eqn:E2; cbn [negb andb fst].
  { unfold cnt. rewrite Z.add_0_r. auto. }
  destruct (match c_out_tx c with None => negb (res_state_eqb (c_out_state c) RES_IDLE) | Some _ => false end) eqn:E3;
    cbn [negb andb fst].
  { unfold cnt. cbn. rewrite Z.add_0_r. auto. }
  destruct ((len =? 0)%nat && negb (rs_closed c))%bool eqn:E4; cbn [fst].
  { apply andb_true_iff in E4. destruct E4 as [E4 _]. apply Nat.eqb_eq in E4. subst len.
    unfold cnt. cbn. rewrite Z.add_0_r. auto. }
  cbv zeta.
  match goal with |- context [if _ then (?x, c_HTP_STREAM_TUNNEL) else _] => set (c2 := x) end.
  destruct (c_out_status c2 =? c_HTP_STREAM_TUNNEL); cbn [fst].
  { unfold cnt. subst c2. cbn. rewrite (Z.add_comm (Z.of_nat len)). auto. }
  rewrite rs_res_loop_cnt. subst c2. unfold cnt, rs_set_out. cbn. rewrite (Z.add_comm (Z.of_nat len)). reflexivity.
Qed.

Theorem req_data_counters data len c :
  let c' := fst (connp_req_data cb g data len c) in
  c_in_data_counter c' = c_in_data_counter c + (if req_door c then Z.of_nat len else 0) /\
  c_out_data_counter c' = c_out_data_counter c.
Proof.
  cbv zeta. pose proof (req_data_main data len c) as (H & _). cbv zeta in H. unfold cnt in H.
  injection H as H1 H2. auto.
Qed.

Theorem res_data_counters data len c :
  let c' := fst (connp_res_data cb g data len c) in
  c_out_data_counter c' = c_out_data_counter c + (if res_door c then Z.of_nat len else 0) /\
  c_in_data_counter c' = c_in_data_counter c.
Proof.
  cbv zeta. pose proof (res_data_main data len c) as H. cbv zeta in H. unfold cnt in H.
  injection H as H1 H2. auto.
Qed.

(* what a request call leaves of the response direction *)
Theorem req_data_out_kept data len c :
  let c' := fst (connp_req_data cb g data len c) in
  c_out_state c' = c_out_state c /\
  (c_out_status c' = c_out_status c \/
   (c_out_status c = c_HTP_STREAM_DATA_OTHER /\ c_out_status c' = c_HTP_STREAM_DATA) \/
   c_out_status c' = c_HTP_STREAM_TUNNEL).
Proof. cbv zeta. pose proof (req_data_main data len c) as (_ & H). exact H. Qed.

(* a call that answers DATA / DATA_OTHER / TUNNEL went through the door *)
Theorem req_data_accepted data len c :
  let rc := snd (connp_req_data cb g data len c) in
  rc = c_HTP_STREAM_DATA \/ rc = c_HTP_STREAM_DATA_OTHER \/ rc = c_HTP_STREAM_TUNNEL -> req_door c = true.
Proof.
  cbv zeta. unfold connp_req_data, req_door.
  destruct (c_in_status c =? c_HTP_STREAM_STOP) eqn:E1; cbn [snd].
  { intros [H|[H|H]]; revert H; stream_ne. }
  destruct (c_in_status c =? c_HTP_STREAM_ERROR) eqn:E2; cbn [snd].
  { intros [H|[H|H]]; revert H; stream_ne. }
  destruct (match c_in_tx c with None => negb (req_state_eqb (c_in_state c) REQ_IDLE) && negb (c_in_status c =? c_HTP_STREAM_TUNNEL) | Some _ => false end) eqn:E3;
    cbn [snd].
  { intros [H|[H|H]]; revert H; stream_ne. }
  intros _. reflexivity.
Qed.

Theorem res_data_accepted data len c :
  let rc := snd (connp_res_data cb g data len c) in
  rc = c_HTP_STREAM_DATA \/ rc = c_HTP_STREAM_DATA_OTHER \/ rc = c_HTP_STREAM_TUNNEL -> res_door c = true.
Proof.
  cbv zeta. unfold connp_res_data, res_door.
  destruct (c_out_status c =? c_HTP_STREAM_STOP) eqn:E1; cbn [snd].
  { intros [H|[H|H]]; revert H; stream_ne. }
  destruct (c_out_status c =? c_HTP_STREAM_ERROR) eqn:E2; cbn [snd].
  { intros [H|[H|H]]; revert H; stream_ne. }
  destruct (match c_out_tx c with None => negb (res_state_eqb (c_out_state c) RES_IDLE) | Some _ => false end) eqn:E3;
    cbn [snd].
  { intros [H|[H|H]]; revert H; stream_ne. }
  intros _. reflexivity.
Qed.

(* ---- runs: MConnp.cp_step / cp_run ---- *)
(* bytes a step adds to each counter *)
Definition op_in_bytes (c : connp) (o : cp_op) : Z :=
  match o with
  | OpReqData d => if req_door c then Z.of_nat (length d) else 0
  | OpReqGap n => if req_door c then Z.of_nat n else 0
  | _ => 0
  end.
Definition op_out_bytes (c : connp) (o : cp_op) : Z :=
  match o with
  | OpResData d => if res_door c then Z.of_nat (length d) else 0
  | OpResGap n => if res_door c then Z.of_nat n else 0
  | _ => 0
  end.

Lemma if_same_0 (b : bool) : (if b then Z.of_nat 0 else 0) = 0.
Proof. destruct b; reflexivity. Qed.

Lemma connp_req_close_cnt c : cnt (connp_req_close cb g c) = cnt c.
Proof.
  unfold connp_req_close.
  match goal with |- context [connp_req_data cb g None 0%nat ?x] =>
    pose proof (req_data_main None 0%nat x) as (H & _); set (c1 := x) in * end.
  cbv zeta in H. rewrite H, if_same_0, Z.add_0_r. subst c1. destruct (negb _); reflexivity.
Qed.
Lemma connp_close_cnt c : cnt (connp_close cb g c) = cnt c.
Proof.
  unfold connp_close.
  match goal with |- context [connp_res_data cb g None 0%nat ?x] =>
    pose proof (res_data_main None 0%nat x) as H; set (c3 := x) in * end.
  cbv zeta in H. rewrite H, if_same_0, Z.add_0_r. change (cnt c3 = cnt c). subst c3.
  match goal with |- context [connp_req_data cb g None 0%nat ?x] =>
    pose proof (req_data_main None 0%nat x) as (H1 & _); set (c2 := x) in * end.
  cbv zeta in H1. rewrite H1, if_same_0, Z.add_0_r. change (cnt c2 = cnt c). subst c2.
  destruct (negb (c_in_status c =? c_HTP_STREAM_ERROR)); cbv zeta;
    match goal with |- context [if ?b then _ else _] => destruct b end; reflexivity.
Qed.

Lemma cnt_pair c a b : cnt c = (a, b) -> c_in_data_counter c = a /\ c_out_data_counter c = b.
Proof. unfold cnt. intros H. injection H as H1 H2. auto. Qed.

Theorem cp_step_counters c o :
  let c' := fst (cp_step cb g c o) in
  c_in_data_counter c' = c_in_data_counter c + op_in_bytes c o /\
  c_out_data_counter c' = c_out_data_counter c + op_out_bytes c o.
Proof.
  cbv zeta. apply cnt_pair.
  destruct o as [|d|d|n|n| | | |k]; cbn [cp_step op_in_bytes op_out_bytes]; rewrite ?Z.add_0_r.
  - rewrite finish_call_cnt. apply connp_open_cnt.
  - pose proof (req_data_main (Some d) (length d) c) as (H & _). cbv zeta in H.
    destruct (connp_req_data cb g (Some d) (length d) c) as [c1 rc]. cbn [fst] in H. rewrite finish_call_cnt. exact H.
  - pose proof (res_data_main (Some d) (length d) c) as H. cbv zeta in H.
    destruct (connp_res_data cb g (Some d) (length d) c) as [c1 rc]. cbn [fst] in H. rewrite finish_call_cnt. exact H.
  - pose proof (req_data_main None n c) as (H & _). cbv zeta in H.
    destruct (connp_req_data cb g None n c) as [c1 rc]. cbn [fst] in H. rewrite finish_call_cnt. exact H.
  - pose proof (res_data_main None n c) as H. cbv zeta in H.
    destruct (connp_res_data cb g None n c) as [c1 rc]. cbn [fst] in H. rewrite finish_call_cnt. exact H.
  - rewrite finish_call_cnt. apply connp_req_close_cnt.
  - rewrite finish_call_cnt. apply connp_close_cnt.
  - pose proof (fk_cnt _ _ (connp_tx_freed_fk c)) as H.
    destruct (connp_tx_freed c) as [c1 r]. cbn [fst] in H. rewrite finish_call_cnt. exact H.
  - pose proof (fk_cnt _ _ (api_destroy_tx_fk k c)) as H.
    destruct (api_destroy_tx k c) as [c1 rc]. cbn [fst] in H. rewrite finish_call_cnt. exact H.
Qed.

Fixpoint run_in_bytes (c : connp) (ops : list cp_op) : Z :=
  match ops with [] => 0 | o :: r => op_in_bytes c o + run_in_bytes (fst (cp_step cb g c o)) r end.
Fixpoint run_out_bytes (c : connp) (ops : list cp_op) : Z :=
  match ops with [] => 0 | o :: r => op_out_bytes c o + run_out_bytes (fst (cp_step cb g c o)) r end.

Lemma cp_run_cons c o r : fst (cp_run cb g c (o :: r)) = fst (cp_run cb g (fst (cp_step cb g c o)) r).
Proof. cbn [cp_run]. destruct (cp_step cb g c o) as [c1 x]. cbn [fst]. destruct (cp_run cb g c1 r) as [c2 xs]. reflexivity. Qed.

Theorem cp_run_counters ops : forall c,
  c_in_data_counter (fst (cp_run cb g c ops)) = c_in_data_counter c + run_in_bytes c ops /\
  c_out_data_counter (fst (cp_run cb g c ops)) = c_out_data_counter c + run_out_bytes c ops.
Proof.
  induction ops as [|o r IH]; intros c.
  - cbn [cp_run fst run_in_bytes run_out_bytes]. lia.
  - rewrite cp_run_cons. cbn [run_in_bytes run_out_bytes].
    destruct (IH (fst (cp_step cb g c o))) as [H1 H2]. destruct (cp_step_counters c o) as [S1 S2]. cbv zeta in S1, S2. lia.
Qed.

(* the bytes offered to each direction by a script *)
Definition op_in_offered (o : cp_op) : Z :=
  match o with OpReqData d => Z.of_nat (length d) | OpReqGap n => Z.of_nat n | _ => 0 end.
Definition op_out_offered (o : cp_op) : Z :=
  match o with OpResData d => Z.of_nat (length d) | OpResGap n => Z.of_nat n | _ => 0 end.
Fixpoint ops_in_offered (ops : list cp_op) : Z :=
  match ops with [] => 0 | o :: r => op_in_offered o + ops_in_offered r end.
Fixpoint ops_out_offered (ops : list cp_op) : Z :=
  match ops with [] => 0 | o :: r => op_out_offered o + ops_out_offered r end.

Lemma op_in_bytes_bounds c o : 0 <= op_in_bytes c o <= op_in_offered o.
Proof. destruct o; cbn [op_in_bytes op_in_offered]; try lia; destruct (req_door c); lia. Qed.
Lemma op_out_bytes_bounds c o : 0 <= op_out_bytes c o <= op_out_offered o.
Proof. destruct o; cbn [op_out_bytes op_out_offered]; try lia; destruct (res_door c); lia. Qed.

Theorem cp_run_counters_bounds ops : forall c,
  0 <= run_in_bytes c ops <= ops_in_offered ops /\ 0 <= run_out_bytes c ops <= ops_out_offered ops.
Proof.
  induction ops as [|o r IH]; intros c; cbn [run_in_bytes run_out_bytes ops_in_offered ops_out_offered]; [lia|].
  pose proof (IH (fst (cp_step cb g c o))) as [H1 H2].
  pose proof (op_in_bytes_bounds c o). pose proof (op_out_bytes_bounds c o). lia.
Qed.

End P.

(* ==== FINAL THEOREMS (re-exported in Props/Properties_C09.v) ==== *)
Print Assumptions qk_refl.
Print Assumptions qk_trans.
Print Assumptions fk_qk.
Print Assumptions rq_loop_qk.
Print Assumptions rs_res_loop_cnt.
Print Assumptions req_data_counters.
Print Assumptions res_data_counters.
Print Assumptions req_data_out_kept.
Print Assumptions req_data_accepted.
Print Assumptions res_data_accepted.
Print Assumptions cp_step_counters.
Print Assumptions cp_run_counters.
Print Assumptions cp_run_counters_bounds.
