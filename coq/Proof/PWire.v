(* C02, line level: the request line, the status line and one header line of the wire grammar (Spec/SWire.v)
   are reported exactly by the code-shaped parsers of MReqLine / MResLine. *)
Require Import Htp.Model.Base Htp.Model.MBstr Htp.Model.MConnTypes Htp.Model.MReqLine Htp.Model.MResLine Htp.Spec.SWire.

(* ---------------------------------------------------------------- byte strings *)
Lemma wr_eqb_eq a : forall b, wr_eqb a b = true <-> a = b.
Proof.
  induction a as [|x a IH]; intros [|y b]; cbn; split; intros H; try reflexivity; try discriminate.
  - apply andb_prop in H. destruct H as [H1 H2]. apply N.eqb_eq in H1. apply IH in H2. subst. reflexivity.
  - inversion H; subst. rewrite N.eqb_refl. apply IH. reflexivity.
Qed.
Lemma wr_eqb_refl a : wr_eqb a a = true.
Proof. apply wr_eqb_eq. reflexivity. Qed.

Lemma skipn_app_exact {A} (pre x : list A) : skipn (length pre) (pre ++ x) = x.
Proof. induction pre; cbn; auto. Qed.
Lemma firstn_app_exact {A} (a x : list A) : firstn (length a) (a ++ x) = a.
Proof. induction a; cbn; [destruct x; reflexivity|]. f_equal. assumption. Qed.
Lemma nth_app_exact {A} (pre : list A) x r d : nth (length pre) (pre ++ x :: r) d = x.
Proof. induction pre; cbn; auto. Qed.

(* ---------------------------------------------------------------- character classes: finite sweeps over the regenerated tables *)
Lemma wr_tbool_big t b : length t = 256%nat -> (256 <= b)%N -> tbool t b = false.
Proof. intros Hl Hb. unfold tbool. rewrite tget_overflow; [reflexivity|]. rewrite Hl. exact Hb. Qed.

Ltac wr_big := apply wr_tbool_big; [reflexivity|assumption].

Lemma wr_token_big b : (256 <= b)%N -> htp_is_token b = false. Proof. intros. unfold htp_is_token. wr_big. Qed.
Lemma wr_space_big b : (256 <= b)%N -> htp_is_space b = false. Proof. intros. unfold htp_is_space. wr_big. Qed.
Lemma wr_lws_big b : (256 <= b)%N -> htp_is_lws b = false. Proof. intros. unfold htp_is_lws. wr_big. Qed.
Lemma wr_isspace_big b : (256 <= b)%N -> c_isspace b = false. Proof. intros. unfold c_isspace. wr_big. Qed.
Lemma wr_folding_big b : (256 <= b)%N -> htp_is_folding_char b = false. Proof. intros. unfold htp_is_folding_char. wr_big. Qed.

Definition wr_token_fact (b : N) : bool :=
  implb (htp_is_token b)
        (negb (htp_is_space b) && negb (c_isspace b) && negb (b =? 0)%N && negb (b =? 58)%N && negb (htp_is_lws b) && negb (b =? 32)%N
         && negb (b =? CR)%N && negb (b =? LF)%N).
Lemma wr_token_sweep : forallb wr_token_fact all_bytes = true. Proof. vm_compute. reflexivity. Qed.
Lemma wr_token_facts b : htp_is_token b = true ->
  htp_is_space b = false /\ c_isspace b = false /\ (b =? 0)%N = false /\ (b =? 58)%N = false /\ htp_is_lws b = false /\ (b =? 32)%N = false
  /\ (b =? CR)%N = false /\ (b =? LF)%N = false.
Proof.
  intros H. destruct (b <? 256)%N eqn:E.
  - apply N.ltb_lt in E. pose proof (byte_sweep _ wr_token_sweep b E) as F. unfold wr_token_fact in F. rewrite H in F. cbn [implb] in F.
    repeat (apply andb_prop in F; destruct F as [F ?]). repeat split; apply negb_true_iff; assumption.
  - apply N.ltb_ge in E. rewrite wr_token_big in H by assumption. discriminate.
Qed.

Definition wr_space_fact (b : N) : bool :=
  Bool.eqb (c_isspace b) (htp_is_space b) && implb (htp_is_lws b) (htp_is_space b && negb (b =? CR)%N && negb (b =? LF)%N && negb (b =? 0)%N && negb (b =? 58)%N)
  && Bool.eqb (htp_is_lws b) ((b =? SP)%N || (b =? HT)%N) && implb (htp_is_lws b) (htp_is_folding_char b).
Lemma wr_space_sweep : forallb wr_space_fact all_bytes = true. Proof. vm_compute. reflexivity. Qed.
Lemma wr_space_facts b :
  c_isspace b = htp_is_space b /\
  (htp_is_lws b = true -> htp_is_space b = true /\ (b =? CR)%N = false /\ (b =? LF)%N = false /\ (b =? 0)%N = false /\ (b =? 58)%N = false /\ htp_is_folding_char b = true) /\
  htp_is_lws b = ((b =? SP)%N || (b =? HT)%N).
Proof.
  destruct (b <? 256)%N eqn:E.
  - apply N.ltb_lt in E. pose proof (byte_sweep _ wr_space_sweep b E) as F. unfold wr_space_fact in F.
    apply andb_prop in F. destruct F as [F F4]. apply andb_prop in F. destruct F as [F F3]. apply andb_prop in F. destruct F as [F1 F2].
    apply Bool.eqb_prop in F1. apply Bool.eqb_prop in F3. split; [exact F1|]. split; [|exact F3].
    intros L. rewrite L in F2, F4. cbn [implb] in F2, F4.
    repeat (apply andb_prop in F2; destruct F2 as [F2 ?]). repeat split; try (apply negb_true_iff; assumption); assumption.
  - apply N.ltb_ge in E. rewrite wr_isspace_big, wr_space_big, wr_lws_big by assumption. split; [reflexivity|]. split; [discriminate|].
    symmetry. apply orb_false_iff. unfold SP, HT. split; apply N.eqb_neq; lia.
Qed.
Lemma wr_isspace_eq b : c_isspace b = htp_is_space b. Proof. apply wr_space_facts. Qed.
Lemma wr_sp_space : htp_is_space SP = true. Proof. reflexivity. Qed.
Lemma wr_sp_lws : htp_is_lws SP = true. Proof. reflexivity. Qed.

Lemma wr_uri_byte_facts b : wr_uri_byte b = true ->
  htp_is_space b = false /\ c_isspace b = false /\ (b =? 0)%N = false /\ (b =? SP)%N = false.
Proof.
  unfold wr_uri_byte. intros H. apply andb_prop in H. destruct H as [H1 H2]. apply negb_true_iff in H1. apply negb_true_iff in H2.
  split; [exact H1|]. split; [rewrite wr_isspace_eq; exact H1|]. split; [exact H2|].
  destruct (b =? SP)%N eqn:E; [|reflexivity]. apply N.eqb_eq in E. subst. rewrite wr_sp_space in H1. discriminate.
Qed.

(* forallb transfer *)
Lemma wr_forallb_impl {A} (p q : A -> bool) l : (forall x, p x = true -> q x = true) -> forallb p l = true -> forallb q l = true.
Proof. intros H. induction l as [|x l IH]; cbn; [reflexivity|]. intros F. apply andb_prop in F. destruct F as [F1 F2]. rewrite (H _ F1), (IH F2). reflexivity. Qed.

Lemma wr_token_split s : wr_token s = true -> exists x r, s = x :: r /\ forallb htp_is_token s = true.
Proof. unfold wr_token. destruct s as [|x r]; cbn [wr_nonempty andb]; [discriminate|]. intros H. exists x, r. split; [reflexivity|exact H]. Qed.

(* ---------------------------------------------------------------- the suffix scans of MReqLine *)
Lemma rq_fwd_all p a : forall r n pos, forallb p a = true -> (length a <= n)%nat ->
  rq_fwd p (a ++ r) n pos = rq_fwd p r (n - length a) (pos + length a).
Proof.
  induction a as [|x a IH]; intros r n pos F L; cbn [app length].
  - rewrite Nat.sub_0_r, Nat.add_0_r. reflexivity.
  - cbn [forallb] in F. apply andb_prop in F. destruct F as [F1 F2]. destruct n as [|n]; [cbn in L; lia|].
    cbn [rq_fwd]. rewrite F1. rewrite IH by (try assumption; cbn in L; lia). f_equal; cbn; lia.
Qed.
Lemma rq_fwd_stop p x r n pos : p x = false -> rq_fwd p (x :: r) n pos = pos.
Proof. intros H. destruct n; cbn; [reflexivity|]. rewrite H. reflexivity. Qed.
Lemma rq_fwd_nil p n pos : rq_fwd p [] n pos = pos.
Proof. destruct n; reflexivity. Qed.

Definition wr_stops (p : N -> bool) (r : bytes) : Prop := match r with [] => True | x :: _ => p x = false end.

(* a scan started at the beginning of segment a of d = pre ++ a ++ r runs over a and stops *)
Lemma rq_fwd_while_seg p pre a r : forallb p a = true -> wr_stops p r ->
  rq_fwd_while p (pre ++ a ++ r) (length pre) (length (pre ++ a ++ r)) = (length pre + length a)%nat.
Proof.
  intros F S. unfold rq_fwd_while. rewrite skipn_app_exact. rewrite rq_fwd_all; [|assumption|rewrite !app_length; lia].
  destruct r as [|x r]; [apply rq_fwd_nil|]. apply rq_fwd_stop. exact S.
Qed.
Lemma rq_sub_seg pre a r : rq_sub (pre ++ a ++ r) (length pre) (length pre + length a) = a.
Proof.
  unfold rq_sub. rewrite skipn_app_exact. replace (length pre + length a - length pre)%nat with (length a) by lia. apply firstn_app_exact.
Qed.
Lemma rq_sub_tail pre a : rq_sub (pre ++ a) (length pre) (length (pre ++ a)) = a.
Proof.
  unfold rq_sub. rewrite skipn_app_exact, app_length. replace (length pre + length a - length pre)%nat with (length a) by lia. apply firstn_all.
Qed.

(* the index scan of the URI (allow_space_uri off) *)
Lemma rq_fwd_uri_seg : forall a pre r n bad, forallb (fun b => negb (rq_is_sp b)) a = true -> (length a <= n)%nat ->
  rq_fwd_uri (pre ++ a ++ r) n (length pre) bad =
  rq_fwd_uri (pre ++ a ++ r) (n - length a) (length pre + length a) (bad || existsb htp_is_space a).
Proof.
  induction a as [|x a IH]; intros pre r n bad F L.
  - cbn [length existsb]. rewrite Nat.sub_0_r, Nat.add_0_r, orb_false_r. reflexivity.
  - cbn [forallb] in F. apply andb_prop in F. destruct F as [F1 F2]. apply negb_true_iff in F1.
    destruct n as [|n]; [cbn in L; lia|]. cbn [rq_fwd_uri]. unfold rq_at at 1 2. cbn [app]. rewrite nth_app_exact. rewrite F1.
    replace (pre ++ x :: a ++ r) with ((pre ++ [x]) ++ a ++ r) by (rewrite <- app_assoc; reflexivity).
    replace (S (length pre)) with (length (pre ++ [x])) by (rewrite app_length; cbn; lia).
    rewrite IH by (try assumption; cbn in L; lia). cbn [length existsb]. rewrite app_length. cbn [length].
    rewrite orb_assoc. f_equal; lia.
Qed.

(* ---------------------------------------------------------------- (1) the request line *)
Lemma wr_token_scan m : forallb htp_is_token m = true ->
  forallb (rq_not htp_is_space) m = true /\ forallb (fun b => negb (b =? 0)%N) m = true.
Proof.
  intros H. split; eapply wr_forallb_impl; try exact H; intros b Hb; destruct (wr_token_facts b Hb) as (A & B & C & _).
  - unfold rq_not. rewrite A. reflexivity.
  - rewrite C. reflexivity.
Qed.
Lemma wr_uri_scan u : forallb wr_uri_byte u = true ->
  forallb (fun b => negb (rq_is_sp b)) u = true /\ existsb htp_is_space u = false /\ forallb (fun b => negb (b =? 0)%N) u = true.
Proof.
  intros H. split; [|split].
  - eapply wr_forallb_impl; [|exact H]. intros b Hb. destruct (wr_uri_byte_facts b Hb) as (_ & _ & _ & D). unfold rq_is_sp. rewrite D. reflexivity.
  - induction u as [|x u IH]; [reflexivity|]. cbn in *. apply andb_prop in H. destruct H as [H1 H2].
    destruct (wr_uri_byte_facts x H1) as (A & _). rewrite A. apply IH. exact H2.
  - eapply wr_forallb_impl; [|exact H]. intros b Hb. destruct (wr_uri_byte_facts b Hb) as (_ & _ & C & _). rewrite C. reflexivity.
Qed.

Lemma wr_protocol_cases p : wr_protocol_ok p = true -> p = wr_http10 \/ p = wr_http11.
Proof. unfold wr_protocol_ok. intros H. apply orb_prop in H. destruct H as [H|H]; apply wr_eqb_eq in H; auto. Qed.
Lemma wr_protocol_number_ok p : wr_protocol_ok p = true -> parse_protocol p = wr_protocol_number p.
Proof. intros H. destruct (wr_protocol_cases p H); subst; reflexivity. Qed.
Lemma wr_protocol_shape p : wr_protocol_ok p = true ->
  exists r, p = 72%N :: r /\ forallb (fun b => negb (b =? 0)%N) p = true /\ forallb (rq_not htp_is_space) p = true.
Proof. intros H. destruct (wr_protocol_cases p H); subst; eexists; repeat split; reflexivity. Qed.

(* nul_terminates: without a NUL byte the line is not shortened *)
Lemma wr_nul_len (nul : bool) (d : bytes) : forallb (fun b => negb (b =? 0)%N) d = true ->
  (if nul then rq_fwd_while (fun b => negb (b =? 0)%N) d 0 (length d) else length d) = length d.
Proof.
  intros H. destruct nul; [|reflexivity].
  pose proof (rq_fwd_while_seg (fun b => negb (b =? 0)%N) [] d [] H I) as E. cbn [app length] in E. rewrite app_nil_r in E. exact E.
Qed.

Lemma wr_forallb_app {A} (p : A -> bool) a b : forallb p (a ++ b) = forallb p a && forallb p b.
Proof. apply forallb_app. Qed.

Theorem wr_reqline_roundtrip : forall nul wsu m u p, wr_wf_request_line m u p = true ->
  rq_parse_request_line nul false wsu (wr_ser_request_line m u p) =
  mk_rq_line m (htp_convert_method_to_number m) (Some u) (Some p) (Some (wr_protocol_number p)) false false.
Proof.
  intros nul wsu m u p W. unfold wr_wf_request_line in W.
  apply andb_prop in W. destruct W as [W Wp]. apply andb_prop in W. destruct W as [Wm Wu].
  destruct (wr_token_split m Wm) as (m0 & mr & Em & Tm). destruct (wr_token_scan m Tm) as [Tm1 Tm2].
  unfold wr_uri_ok in Wu. apply andb_prop in Wu. destruct Wu as [Wu0 Wu]. destruct (wr_uri_scan u Wu) as (Tu1 & Tu2 & Tu3).
  destruct u as [|u0 ur]; [discriminate|]. destruct (wr_protocol_shape p Wp) as (pr & Ep & Tp1 & Tp2).
  assert (Hm0 : htp_is_space m0 = false).
  { subst m. cbn in Tm. apply andb_prop in Tm. destruct Tm as [T _]. apply (wr_token_facts m0 T). }
  assert (Hu0 : htp_is_space u0 = false /\ c_isspace u0 = false).
  { cbn in Wu. apply andb_prop in Wu. destruct Wu as [T _]. destruct (wr_uri_byte_facts u0 T) as (A & B & _). split; assumption. }
  set (U := u0 :: ur) in *.
  unfold wr_ser_request_line, rq_parse_request_line.
  set (d := m ++ [SP] ++ U ++ [SP] ++ p).
  assert (Hnz : forallb (fun b => negb (b =? 0)%N) d = true).
  { unfold d. rewrite !wr_forallb_app, Tm2, Tu3, Tp1. reflexivity. }
  rewrite (wr_nul_len nul d Hnz).
  (* leading white space: none *)
  assert (E0 : rq_fwd_while htp_is_space d 0 (length d) = 0%nat).
  { unfold rq_fwd_while, d. rewrite Em. cbn [skipn app]. apply rq_fwd_stop. exact Hm0. }
  rewrite E0. cbn [Nat.eqb negb].
  (* the method *)
  assert (E1 : rq_fwd_while (rq_not htp_is_space) d 0 (length d) = length m).
  { pose proof (rq_fwd_while_seg (rq_not htp_is_space) [] m ([SP] ++ U ++ [SP] ++ p) Tm1) as E. cbn [app length] in E. apply E. reflexivity. }
  rewrite E1.
  assert (E2 : rq_sub d 0 (length m) = m).
  { pose proof (rq_sub_seg [] m ([SP] ++ U ++ [SP] ++ p)) as E. cbn [app length] in E. exact E. }
  rewrite E2.
  (* the white space after the method *)
  assert (E3 : rq_fwd_while c_isspace d (length m) (length d) = S (length m)).
  { pose proof (rq_fwd_while_seg c_isspace m [SP] (U ++ [SP] ++ p)) as E. cbn [length] in E. rewrite Nat.add_1_r in E. apply E; [reflexivity|].
    unfold U. cbn. apply Hu0. }
  rewrite E3.
  assert (Ld : length d = (length m + 1 + length U + 1 + length p)%nat) by (unfold d; rewrite !app_length; cbn [length]; lia).
  assert (N1 : (S (length m) =? length d)%nat = false) by (apply Nat.eqb_neq; unfold U in Ld; cbn [length] in Ld; lia).
  rewrite N1.
  (* the URI *)
  assert (E4 : rq_uri_end false d (S (length m)) (length d) = (S (length m) + length U)%nat).
  { unfold rq_uri_end.
    assert (D : d = (m ++ [SP]) ++ U ++ ([SP] ++ p)) by (unfold d; rewrite <- app_assoc; reflexivity).
    assert (Lp : S (length m) = length (m ++ [SP])) by (rewrite app_length; cbn; lia).
    rewrite D at 1. rewrite Lp at 2.
    rewrite rq_fwd_uri_seg; [|exact Tu1|rewrite Ld; lia].
    rewrite Tu2. cbn [orb].
    replace (length d - S (length m) - length U)%nat with (S (length p)) by lia.
    cbn [rq_fwd_uri]. unfold rq_at. rewrite <- Lp.
    replace ((m ++ [SP]) ++ U ++ [SP] ++ p) with ((m ++ [SP] ++ U) ++ SP :: p) by (rewrite <- !app_assoc; reflexivity).
    replace (S (length m) + length U)%nat with (length (m ++ [SP] ++ U)) by (rewrite !app_length; cbn [length]; lia).
    rewrite nth_app_exact. cbn [rq_is_sp]. unfold rq_is_sp. rewrite N.eqb_refl. cbn [andb]. reflexivity. }
  rewrite E4.
  assert (E5 : rq_sub d (S (length m)) (S (length m) + length U) = U).
  { pose proof (rq_sub_seg (m ++ [SP]) U ([SP] ++ p)) as E. rewrite app_length in E. cbn [length] in E. rewrite Nat.add_1_r in E.
    replace d with ((m ++ [SP]) ++ U ++ [SP] ++ p) by (unfold d; rewrite <- app_assoc; reflexivity). exact E. }
  rewrite E5.
  (* the white space after the URI *)
  assert (E6 : rq_fwd_while htp_is_space d (S (length m) + length U) (length d) = (S (length m) + length U + 1)%nat).
  { pose proof (rq_fwd_while_seg htp_is_space (m ++ [SP] ++ U) [SP] p) as E.
    replace (length (m ++ [SP] ++ U)) with (S (length m) + length U)%nat in E by (rewrite !app_length; cbn [length]; lia).
    replace ((m ++ [SP] ++ U) ++ [SP] ++ p) with d in E by (unfold d; rewrite <- !app_assoc; reflexivity).
    apply E; [reflexivity|]. rewrite Ep. cbn. reflexivity. }
  rewrite E6.
  assert (N2 : (S (length m) + length U + 1 =? length d)%nat = false).
  { apply Nat.eqb_neq. rewrite Ld, Ep. cbn [length]. lia. }
  rewrite N2.
  assert (E7 : rq_sub d (S (length m) + length U + 1) (length d) = p).
  { pose proof (rq_sub_tail (m ++ [SP] ++ U ++ [SP]) p) as E.
    replace (length (m ++ [SP] ++ U ++ [SP])) with (S (length m) + length U + 1)%nat in E by (rewrite !app_length; cbn [length]; lia).
    replace ((m ++ [SP] ++ U ++ [SP]) ++ p) with d in E by (unfold d; rewrite <- !app_assoc; reflexivity).
    exact E. }
  rewrite E7. rewrite (wr_protocol_number_ok p Wp). reflexivity.
Qed.

(* the HTTP/0.9 form: no protocol on the line *)
Theorem wr_reqline09_roundtrip : forall nul wsu m u, wr_wf_request_line_09 m u = true ->
  rq_parse_request_line nul false wsu (wr_ser_request_line_09 m u) =
  mk_rq_line m (htp_convert_method_to_number m) (Some u) None (Some c_HTP_PROTOCOL_0_9) true false.
Proof.
  intros nul wsu m u W. unfold wr_wf_request_line_09 in W. apply andb_prop in W. destruct W as [Wm Wu].
  destruct (wr_token_split m Wm) as (m0 & mr & Em & Tm). destruct (wr_token_scan m Tm) as [Tm1 Tm2].
  unfold wr_uri_ok in Wu. apply andb_prop in Wu. destruct Wu as [Wu0 Wu]. destruct (wr_uri_scan u Wu) as (Tu1 & Tu2 & Tu3).
  destruct u as [|u0 ur]; [discriminate|].
  assert (Hm0 : htp_is_space m0 = false).
  { subst m. cbn in Tm. apply andb_prop in Tm. destruct Tm as [T _]. apply (wr_token_facts m0 T). }
  assert (Hu0 : htp_is_space u0 = false /\ c_isspace u0 = false).
  { cbn in Wu. apply andb_prop in Wu. destruct Wu as [T _]. destruct (wr_uri_byte_facts u0 T) as (A & B & _). split; assumption. }
  set (U := u0 :: ur) in *.
  unfold wr_ser_request_line_09, rq_parse_request_line.
  set (d := m ++ [SP] ++ U).
  assert (Hnz : forallb (fun b => negb (b =? 0)%N) d = true).
  { unfold d. rewrite !wr_forallb_app, Tm2, Tu3. reflexivity. }
  rewrite (wr_nul_len nul d Hnz).
  assert (E0 : rq_fwd_while htp_is_space d 0 (length d) = 0%nat).
  { unfold rq_fwd_while, d. rewrite Em. cbn [skipn app]. apply rq_fwd_stop. exact Hm0. }
  rewrite E0. cbn [Nat.eqb negb].
  assert (E1 : rq_fwd_while (rq_not htp_is_space) d 0 (length d) = length m).
  { pose proof (rq_fwd_while_seg (rq_not htp_is_space) [] m ([SP] ++ U) Tm1) as E. cbn [app length] in E. apply E. reflexivity. }
  rewrite E1.
  assert (E2 : rq_sub d 0 (length m) = m).
  { pose proof (rq_sub_seg [] m ([SP] ++ U)) as E. cbn [app length] in E. exact E. }
  rewrite E2.
  assert (E3 : rq_fwd_while c_isspace d (length m) (length d) = S (length m)).
  { pose proof (rq_fwd_while_seg c_isspace m [SP] U) as E. cbn [length] in E. rewrite Nat.add_1_r in E. apply E; [reflexivity|].
    unfold U. cbn. apply Hu0. }
  rewrite E3.
  assert (Ld : length d = (length m + 1 + length U)%nat) by (unfold d; rewrite !app_length; cbn [length]; lia).
  assert (N1 : (S (length m) =? length d)%nat = false) by (apply Nat.eqb_neq; unfold U in Ld; cbn [length] in Ld; lia).
  rewrite N1.
  assert (E4 : rq_uri_end false d (S (length m)) (length d) = length d).
  { unfold rq_uri_end.
    assert (D : d = (m ++ [SP]) ++ U ++ []) by (unfold d; rewrite app_nil_r, <- app_assoc; reflexivity).
    assert (Lp : S (length m) = length (m ++ [SP])) by (rewrite app_length; cbn; lia).
    rewrite D at 1. rewrite Lp at 2.
    rewrite rq_fwd_uri_seg; [|exact Tu1|rewrite Ld; lia].
    rewrite Tu2. cbn [orb].
    replace (length d - S (length m) - length U)%nat with 0%nat by lia.
    cbn [rq_fwd_uri andb]. rewrite <- Lp. lia. }
  rewrite E4.
  assert (E5 : rq_sub d (S (length m)) (length d) = U).
  { pose proof (rq_sub_tail (m ++ [SP]) U) as E. rewrite app_length in E at 1. cbn [length] in E. rewrite Nat.add_1_r in E.
    replace d with ((m ++ [SP]) ++ U) by (unfold d; rewrite <- app_assoc; reflexivity).
    replace (length ((m ++ [SP]) ++ U)) with (length (m ++ [SP] ++ U)) in * by (rewrite <- app_assoc; reflexivity). exact E. }
  rewrite E5.
  assert (E6 : rq_fwd_while htp_is_space d (length d) (length d) = length d).
  { unfold rq_fwd_while. rewrite Nat.sub_diag. destruct (skipn (length d) d); reflexivity. }
  rewrite E6, Nat.eqb_refl. reflexivity.
Qed.

(* applied to the transaction (connp->cfg->parse_request_line), either line mode (generic / Apache NUL-terminated) *)
Theorem wr_reqline_tx : forall g t m u p, g_allow_space_uri g = false -> wr_wf_request_line m u p = true ->
  t_request_line t = Some (wr_ser_request_line m u p) ->
  htp_parse_request_line g t =
  t <| t_request_method := Some m |> <| t_request_method_number := htp_convert_method_to_number m |>
    <| t_request_uri := Some u |> <| t_request_protocol := Some p |> <| t_request_protocol_number := wr_protocol_number p |>.
Proof.
  intros g t m u p Hs W Hl. unfold htp_parse_request_line. rewrite Hl, Hs, wr_reqline_roundtrip by exact W. reflexivity.
Qed.
Theorem wr_reqline09_tx : forall g t m u, g_allow_space_uri g = false -> wr_wf_request_line_09 m u = true ->
  t_request_line t = Some (wr_ser_request_line_09 m u) ->
  htp_parse_request_line g t =
  t <| t_request_method := Some m |> <| t_request_method_number := htp_convert_method_to_number m |>
    <| t_request_uri := Some u |> <| t_request_protocol_number := c_HTP_PROTOCOL_0_9 |> <| t_is_protocol_0_9 := true |>.
Proof.
  intros g t m u Hs W Hl. unfold htp_parse_request_line. rewrite Hl, Hs, wr_reqline09_roundtrip by exact W. reflexivity.
Qed.

(* ---------------------------------------------------------------- the index scans of MResLine are the suffix scans *)
Lemma wr_skipn_nth (d : bytes) pos : (pos < length d)%nat -> skipn pos d = nth pos d 0%N :: skipn (S pos) d.
Proof.
  revert pos. induction d as [|x d IH]; intros pos H; [cbn in H; lia|].
  destruct pos as [|pos]; [reflexivity|]. cbn [skipn nth]. rewrite IH by (cbn in H; lia). reflexivity.
Qed.
Lemma rs_fwd_rq p d : forall n pos, rs_fwd p d n pos = rq_fwd p (skipn pos d) n pos.
Proof.
  induction n as [|n IH]; intros pos; [destruct (skipn pos d); reflexivity|].
  cbn [rs_fwd]. destruct (pos <? length d)%nat eqn:E.
  - apply Nat.ltb_lt in E. rewrite wr_skipn_nth by exact E. cbn [rq_fwd andb]. unfold rs_at. destruct (p (nth pos d 0%N)); [apply IH|reflexivity].
  - apply Nat.ltb_ge in E. rewrite skipn_all2 by exact E. reflexivity.
Qed.
Lemma rs_fwd_while_rq p d pos : rs_fwd_while p d pos = rq_fwd_while p d pos (length d).
Proof. unfold rs_fwd_while, rq_fwd_while. apply rs_fwd_rq. Qed.
Lemma rs_sub_rq d a b : rs_sub d a b = rq_sub d a b. Proof. reflexivity. Qed.
Lemma rs_value_end_rq d : forall f ve vs, rs_value_end d f ve vs = rq_value_end d f ve vs.
Proof. induction f as [|f IH]; intros ve vs; [reflexivity|]. cbn [rs_value_end rq_value_end]. unfold rs_at, rq_at. rewrite IH. reflexivity. Qed.

(* ---------------------------------------------------------------- (2) the status line *)
Definition wr_digits : list N := map N.of_nat (seq 48 10).
Lemma wr_digit_in b : wr_digit b = true -> In b wr_digits.
Proof.
  unfold wr_digit. intros H. apply andb_prop in H. destruct H as [H1 H2]. apply N.leb_le in H1. apply N.leb_le in H2.
  unfold wr_digits. apply in_map_iff. exists (N.to_nat b). split; [apply N2Nat.id|]. apply in_seq. lia.
Qed.
Lemma wr_digit_sweep : forallb (fun b => negb (htp_is_space b) && negb (c_isspace b)) wr_digits = true.
Proof. vm_compute. reflexivity. Qed.
Lemma wr_digit_facts b : wr_digit b = true -> htp_is_space b = false /\ c_isspace b = false.
Proof.
  intros H. pose proof wr_digit_sweep as S. rewrite forallb_forall in S. specialize (S b (wr_digit_in b H)).
  apply andb_prop in S. destruct S as [S1 S2]. split; apply negb_true_iff; assumption.
Qed.
Lemma wr_status_sweep :
  forallb (fun a => forallb (fun b => forallb (fun c =>
     if (49 <=? a)%N then (parse_status [a; b; c] =? wr_status_value [a; b; c])%Z else true) wr_digits) wr_digits) wr_digits = true.
Proof. vm_compute. reflexivity. Qed.
Lemma wr_status_number s : wr_status_ok s = true -> parse_status s = wr_status_value s.
Proof.
  destruct s as [|a [|b [|c [|? ?]]]]; try discriminate. cbn [wr_status_ok]. intros H.
  apply andb_prop in H. destruct H as [H Hc]. apply andb_prop in H. destruct H as [H Hb]. apply andb_prop in H. destruct H as [Ha1 Ha2].
  assert (Ha : wr_digit a = true).
  { unfold wr_digit. rewrite Ha2, andb_true_r. apply N.leb_le. apply N.leb_le in Ha1. lia. }
  pose proof wr_status_sweep as S. rewrite forallb_forall in S. specialize (S a (wr_digit_in a Ha)).
  rewrite forallb_forall in S. specialize (S b (wr_digit_in b Hb)). rewrite forallb_forall in S. specialize (S c (wr_digit_in c Hc)).
  rewrite Ha1 in S. apply Z.eqb_eq in S. exact S.
Qed.
Lemma wr_status_shape s : wr_status_ok s = true ->
  exists a r, s = a :: r /\ htp_is_space a = false /\ length s = 3%nat /\ forallb (fun b => negb (htp_is_space b)) s = true.
Proof.
  destruct s as [|a [|b [|c [|? ?]]]]; try discriminate. cbn [wr_status_ok]. intros H.
  apply andb_prop in H. destruct H as [H Hc]. apply andb_prop in H. destruct H as [H Hb]. apply andb_prop in H. destruct H as [Ha1 Ha2].
  assert (Ha : wr_digit a = true).
  { unfold wr_digit. rewrite Ha2, andb_true_r. apply N.leb_le. apply N.leb_le in Ha1. lia. }
  destruct (wr_digit_facts a Ha) as [A _]. destruct (wr_digit_facts b Hb) as [B _]. destruct (wr_digit_facts c Hc) as [C _].
  exists a, [b; c]. repeat split; try assumption. cbn. rewrite A, B, C. reflexivity.
Qed.

Theorem wr_statusline_roundtrip : forall p s r, wr_wf_status_line p s r = true ->
  rs_parse_response_line (wr_ser_status_line p s r) =
  mk_rs_line (Some p) (wr_protocol_number p) (Some s) (wr_status_value s) (Some r).
Proof.
  intros p s r W. unfold wr_wf_status_line in W. apply andb_prop in W. destruct W as [W Wr]. apply andb_prop in W. destruct W as [Wp Ws].
  destruct (wr_protocol_shape p Wp) as (pr & Ep & _ & Tp). destruct (wr_status_shape s Ws) as (s0 & sr & Es & Hs0 & Ls & Ts).
  destruct r as [|r0 rr]; [discriminate|]. cbn [wr_reason_ok] in Wr. apply negb_true_iff in Wr. set (R := r0 :: rr) in *.
  assert (Lp : length p = 8%nat) by (destruct (wr_protocol_cases p Wp) as [Hc|Hc]; rewrite Hc; reflexivity).
  unfold wr_ser_status_line, rs_parse_response_line. rewrite !rs_fwd_while_rq.
  set (d := p ++ [SP] ++ s ++ [SP] ++ R).
  assert (Ld : length d = (8 + 1 + 3 + 1 + length R)%nat) by (unfold d; rewrite !app_length, Lp, Ls; cbn [length]; lia).
  assert (E0 : rq_fwd_while htp_is_space d 0 (length d) = 0%nat).
  { unfold rq_fwd_while, d. rewrite Ep. cbn [skipn app]. apply rq_fwd_stop. reflexivity. }
  rewrite E0.
  assert (E1 : rq_fwd_while (fun b => negb (htp_is_space b)) d 0 (length d) = 8%nat).
  { pose proof (rq_fwd_while_seg (fun b => negb (htp_is_space b)) [] p ([SP] ++ s ++ [SP] ++ R) Tp) as E. cbn [app length] in E.
    rewrite Lp in E. apply E. reflexivity. }
  rewrite E1. cbn [Nat.sub Nat.eqb].
  assert (E2 : rs_sub d 0 8 = p).
  { pose proof (rq_sub_seg [] p ([SP] ++ s ++ [SP] ++ R)) as E. cbn [app length] in E. rewrite Lp in E. exact E. }
  rewrite E2.
  assert (E3 : rq_fwd_while htp_is_space d 8 (length d) = 9%nat).
  { pose proof (rq_fwd_while_seg htp_is_space p [SP] (s ++ [SP] ++ R)) as E. rewrite Lp in E. apply E; [reflexivity|]. rewrite Es. cbn. exact Hs0. }
  rewrite E3.
  assert (N1 : (9 =? length d)%nat = false) by (apply Nat.eqb_neq; lia).
  rewrite N1.
  assert (E4 : rq_fwd_while (fun b => negb (htp_is_space b)) d 9 (length d) = 12%nat).
  { pose proof (rq_fwd_while_seg (fun b => negb (htp_is_space b)) (p ++ [SP]) s ([SP] ++ R) Ts) as E.
    rewrite app_length, Lp, Ls in E. cbn [length Nat.add] in E.
    replace ((p ++ [SP]) ++ s ++ [SP] ++ R) with d in E by (unfold d; rewrite <- app_assoc; reflexivity). apply E. reflexivity. }
  rewrite E4. cbn [Nat.sub Nat.eqb].
  assert (E5 : rs_sub d 9 12 = s).
  { pose proof (rq_sub_seg (p ++ [SP]) s ([SP] ++ R)) as E. rewrite app_length, Lp, Ls in E. cbn [length Nat.add] in E.
    replace ((p ++ [SP]) ++ s ++ [SP] ++ R) with d in E by (unfold d; rewrite <- app_assoc; reflexivity). exact E. }
  rewrite E5.
  assert (E6 : rq_fwd_while c_isspace d 12 (length d) = 13%nat).
  { pose proof (rq_fwd_while_seg c_isspace (p ++ [SP] ++ s) [SP] R) as E. rewrite !app_length, Lp, Ls in E. cbn [length Nat.add] in E.
    replace ((p ++ [SP] ++ s) ++ [SP] ++ R) with d in E by (unfold d; rewrite <- !app_assoc; reflexivity). rewrite Ld. apply E; [reflexivity|exact Wr]. }
  rewrite E6.
  assert (N2 : (13 =? length d)%nat = false) by (apply Nat.eqb_neq; unfold R in Ld; cbn [length] in Ld; lia).
  rewrite N2.
  assert (E7 : rs_sub d 13 (length d) = R).
  { pose proof (rq_sub_tail (p ++ [SP] ++ s ++ [SP]) R) as E. rewrite !app_length, Lp, Ls in E. cbn [length Nat.add] in E.
    replace ((p ++ [SP] ++ s ++ [SP]) ++ R) with d in E by (unfold d; rewrite <- !app_assoc; reflexivity).
    rewrite Ld. exact E. }
  rewrite E7, (wr_protocol_number_ok p Wp), (wr_status_number s Ws). reflexivity.
Qed.

(* no reason phrase: "p SP ddd" *)
Theorem wr_statusline_noreason : forall p s, wr_protocol_ok p = true -> wr_status_ok s = true ->
  rs_parse_response_line (p ++ [SP] ++ s) = mk_rs_line (Some p) (wr_protocol_number p) (Some s) (wr_status_value s) None.
Proof.
  intros p s Wp Ws.
  destruct (wr_protocol_shape p Wp) as (pr & Ep & _ & Tp). destruct (wr_status_shape s Ws) as (s0 & sr & Es & Hs0 & Ls & Ts).
  assert (Lp : length p = 8%nat) by (destruct (wr_protocol_cases p Wp) as [Hc|Hc]; rewrite Hc; reflexivity).
  unfold rs_parse_response_line. rewrite !rs_fwd_while_rq.
  set (d := p ++ [SP] ++ s).
  assert (Ld : length d = 12%nat) by (unfold d; rewrite !app_length, Lp, Ls; reflexivity).
  assert (E0 : rq_fwd_while htp_is_space d 0 (length d) = 0%nat).
  { unfold rq_fwd_while, d. rewrite Ep. cbn [skipn app]. apply rq_fwd_stop. reflexivity. }
  rewrite E0.
  assert (E1 : rq_fwd_while (fun b => negb (htp_is_space b)) d 0 (length d) = 8%nat).
  { pose proof (rq_fwd_while_seg (fun b => negb (htp_is_space b)) [] p ([SP] ++ s) Tp) as E. cbn [app length] in E.
    rewrite Lp in E. apply E. reflexivity. }
  rewrite E1. cbn [Nat.sub Nat.eqb].
  assert (E2 : rs_sub d 0 8 = p).
  { pose proof (rq_sub_seg [] p ([SP] ++ s)) as E. cbn [app length] in E. rewrite Lp in E. exact E. }
  rewrite E2.
  assert (E3 : rq_fwd_while htp_is_space d 8 (length d) = 9%nat).
  { pose proof (rq_fwd_while_seg htp_is_space p [SP] s) as E. rewrite Lp in E. apply E; [reflexivity|]. rewrite Es. cbn. exact Hs0. }
  rewrite E3, Ld. cbn [Nat.eqb].
  assert (E4 : rq_fwd_while (fun b => negb (htp_is_space b)) d 9 12 = 12%nat).
  { pose proof (rq_fwd_while_seg (fun b => negb (htp_is_space b)) (p ++ [SP]) s [] Ts I) as E.
    rewrite app_length, Lp, Ls in E. cbn [length Nat.add] in E. rewrite app_nil_r in E.
    replace ((p ++ [SP]) ++ s) with d in E by (unfold d; rewrite <- app_assoc; reflexivity). rewrite Ld in E. exact E. }
  rewrite E4. cbn [Nat.sub Nat.eqb].
  assert (E5 : rs_sub d 9 12 = s).
  { pose proof (rq_sub_tail (p ++ [SP]) s) as E. rewrite !app_length, Lp, Ls in E. cbn [length Nat.add] in E.
    replace ((p ++ [SP]) ++ s) with d in E by (unfold d; rewrite <- app_assoc; reflexivity). exact E. }
  rewrite E5.
  assert (E6 : rq_fwd_while c_isspace d 12 12 = 12%nat).
  { unfold rq_fwd_while. rewrite Nat.sub_diag. destruct (skipn 12 d); reflexivity. }
  rewrite E6. cbn [Nat.eqb]. rewrite (wr_protocol_number_ok p Wp), (wr_status_number s Ws). reflexivity.
Qed.
