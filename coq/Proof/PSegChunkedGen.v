(* C03, request direction, chunked request bodies: the driver of PSegGen with the fuel of the for(;;) made explicit.
   PSegGen.sg_all_chunks asks the header phase (and what follows it in the same call) to finish with ANY fuel 6 + f; a
   chunk-coded body needs one pass per size line / data block / line end that lies in the TCP chunk, i.e. a number of
   passes that grows with the chunk.  Here the phase gets the bound  (length d - rd) + 12 <= F  (htp_connp_req_data
   starts with rq_fuel (length d) = 16 * length d + 16).  Definitions (sg_between, sg_post) and the fuel-independent
   lemmas are those of PSegGen; the header phase of PSegFold (folded header fields) is re-stated for the bound. *)
Require Import Htp.Model.Base Htp.Model.MBstr Htp.Model.MConnTypes Htp.Model.MTxCommon Htp.Model.MReqLine Htp.Model.MReqUri Htp.Model.MTxReq.
Require Import Htp.Model.MReq Htp.Model.MRes Htp.Model.MConnp.
Require Import Htp.Spec.SWire Htp.Proof.PWire Htp.Proof.PWireHdr Htp.Proof.PWireBlock Htp.Proof.PWireConn Htp.Proof.PWireExch.
Require Import Htp.Proof.PWireRun Htp.Proof.PWirePres Htp.Proof.PWireGlue Htp.Proof.PSeg Htp.Proof.PSegLine Htp.Proof.PSegHdr Htp.Proof.PSegGen Htp.Proof.PSegRun.
Require Import Htp.Proof.PSegFold.

(* the passes a call may still need when rd bytes of the chunk d have been read *)
Definition sg_need (d : bytes) (rd : nat) : nat := (length d - rd + 12)%nat.

Lemma sg_fuel_need (x : bytes) : x <> [] -> (sg_need x 0 + 4 <= rq_fuel (length x))%nat.
Proof. intros H. unfold sg_need, rq_fuel. destruct x; [contradiction|]. cbn [length]. lia. Qed.

Section GenF.
Variable cb : cb_oracle.
Variable g : cfg.
Hypothesis Hcb : wr_all_ok cb.
Hypothesis Hspace : g_allow_space_uri g = false.
Variables m u pr : bytes.
Hypothesis Wl : wr_wf_request_line m u pr = true.
Hypothesis Hlim0 : (length (wr_ser_request_line m u pr) + 2 <= g_field_limit_hard g)%nat.
Variable bwt : bytes.
Variable hlog : option bytes -> tx -> bytes -> bytes -> Prop.
Variable fin : list (option tx) -> Prop.
Variable ext : connp -> bytes -> Prop.

Let line0 := wr_ser_request_line m u pr.
Let th0 := sg_th0 g 0 m u pr.
Notation sg_cin := (sg_cinw sg_w0).
Notation sg_mid := (sg_midw sg_w0).
Let between := sg_between m u pr bwt hlog ext.
Let post := sg_post m u pr bwt hlog fin ext.

Hypothesis Hstart : hlog None th0 [] bwt.
Hypothesis Hext_finish : forall c rw, ext c rw -> ext (forget_chunks c <| c_events := [] |>) rw.
Hypothesis Hext_step : forall c (rw x rw' : bytes), ext c rw -> x <> [] -> rw = x ++ rw' ->
  exists c' rc, connp_req_data cb g (Some x) (length x) c = (c', rc) /\ post c' rw'.
Hypothesis Hcall : forall c d rd p hdr t rw' F,
  sg_cin c d rd p hdr REQ_HEADERS (Some REQ_HEADERS) (Some H_REQUEST_HEADER_DATA) t -> hlog hdr t p (skipn rd d ++ rw') ->
  (sg_need d rd <= F)%nat ->
  exists cF rc, rq_loop cb g F false c = (cF, rc) /\ post cF rw'.

(* ---- a call that starts (or continues) in REQ_LINE ---- *)
Lemma sg_call_lineF c d p q rw' F :
  sg_cin c d 0 p None REQ_LINE (Some REQ_LINE) None (sg_t1 0) ->
  p ++ q = line0 ++ [CR; LF] -> q <> [] -> d ++ rw' = q ++ bwt -> (sg_need d 0 + 2 <= F)%nat ->
  exists cF rc, rq_loop cb g F false c = (cF, rc) /\ post cF rw'.
Proof.
  intros H Hpq Hq Hw HF.
  destruct (wr_reqline_bytes m u pr Wl) as (Hnolf & _). fold line0 in Hnolf.
  assert (Eb : line0 ++ [CR; LF] = (line0 ++ [CR]) ++ [LF]) by (rewrite <- app_assoc; reflexivity).
  destruct (sg_app_cases d rw' q _ Hw) as [Clt Cge].
  assert (Es : c_in_state c = REQ_LINE) by apply (ci_state _ _ _ _ _ _ _ _ _ H).
  destruct F as [|F1]; [unfold sg_need in HF; lia|]. destruct F1 as [|F2]; [unfold sg_need in HF; lia|].
  destruct (Nat.lt_ge_cases (length d) (length q)) as [Llt|Lge].
  - (* the chunk ends inside the request line *)
    destruct (Clt Llt) as (q2 & Eq & Hq2 & Erw).
    assert (Nu : sg_no_lf d = true).
    { rewrite Eq, Eb, app_assoc in Hpq. destruct (sg_app_last _ _ _ _ Hpq Hq2) as (q3 & _ & E3). unfold sg_no_lf. rewrite <- E3, <- app_assoc, !forallb_app in Hnolf.
      apply andb_prop in Hnolf. destruct Hnolf as [_ Nb]. apply andb_prop in Nb. apply Nb. }
    destruct (sg_line_scan_nolf cb g d None _ _ (sg_t1 0) d c 0 p (length d) H eq_refl Nu (le_n _)) as (c' & E & H').
    assert (Lim : (length (p ++ d) + length (sg_olist None) <= g_field_limit_hard g)%nat).
    { assert (L : length (p ++ q) = (length line0 + 2)%nat) by (rewrite Hpq, app_length; reflexivity). rewrite app_length in L. rewrite app_length.
      cbn [sg_olist length]. unfold line0 in L. lia. }
    destruct (sg_exit_buffer cb g Hcb c' d _ None _ _ (sg_t1 0) H' Lim) as (cF & EF & HF').
    exists cF, c_HTP_STREAM_DATA. split.
    + apply sg_rq_loop_inl. unfold rq_iter. rewrite Es. cbn [rq_state_fn]. unfold REQ_LINE_fn.
      rewrite (ci_len _ _ _ _ _ _ _ _ _ H), (ci_read _ _ _ _ _ _ _ _ _ H), Nat.sub_0_r, E, EF. reflexivity.
    + left. split; [rewrite Erw; destruct q2; [contradiction|discriminate]|]. left. exists (p ++ d), q2.
      split; [exact HF'|]. split; [rewrite <- app_assoc, <- Eq; exact Hpq|]. split; [exact Hq2|exact Erw].
  - (* the request line is complete in this chunk *)
    destruct (Cge Lge) as (d2 & Ed & Eaft).
    rewrite Eb in Hpq. destruct (sg_app_last _ _ _ _ Hpq Hq) as (q1 & Eq1 & Ep1).
    assert (Nq1 : sg_no_lf q1 = true) by (unfold sg_no_lf in *; rewrite <- Ep1, forallb_app in Hnolf; apply andb_prop in Hnolf; apply Hnolf).
    assert (Ed' : d = q1 ++ LF :: d2) by (rewrite Ed, Eq1, <- app_assoc; reflexivity).
    assert (Ep : p ++ q1 ++ [LF] = wr_ser_request_line m u pr ++ [CR; LF]) by (rewrite app_assoc, Ep1; symmetry; exact Eb).
    destruct (sg_pass_line cb g Hcb Hspace c d p q1 d2 (sg_t1 0) m u pr Wl eq_refl H Ed' Nq1 Ep Hlim0) as (c2 & E2 & H2 & Hr2).
    rewrite (sg_rq_loop_inr cb g _ _ _ E2).
    assert (Z9 : t_is_protocol_0_9 (sg_tx_line g (sg_t1 0) (wr_ser_request_line m u pr)) = false).
    { destruct (sg_tx_line_facts g Hspace (sg_t1 0) m u pr Wl eq_refl) as (_ & F' & _). cbv zeta in F'. unfold wr_line_fields in F'. decompose [and] F'. assumption. }
    destruct (sg_pass_protocol cb g c2 d _ _ H2 Z9) as (c3 & E3 & H3). rewrite (sg_rq_loop_inr cb g _ _ _ E3).
    apply (Hcall c3 d _ [] None th0 rw' F2 H3); [rewrite Hr2, <- Eaft; exact Hstart|]. unfold sg_need in *. lia.
Qed.

(* ---- one call of htp_connp_req_data ---- *)
Lemma sg_stepF c (rw x rw' : bytes) : between c rw -> x <> [] -> rw = x ++ rw' ->
  exists c' rc, connp_req_data cb g (Some x) (length x) c = (c', rc) /\ post c' rw'.
Proof.
  intros [(p & q & Hm & Hpq & Hq & Erw)|[(p & hdr & t & Hm & Hl)|He]] Hne Ex.
  - destruct (sg_enter cb g c p None _ _ (sg_t1 0) x Hm Hne) as (c1 & E1 & H1). unfold bytes in *. rewrite E1.
    pose proof (sg_fuel_need x Hne) as Fx.
    apply (sg_call_lineF c1 x p q rw' _ H1 Hpq Hq); [rewrite <- Ex; exact Erw|lia].
  - destruct (sg_enter cb g c p hdr _ _ t x Hm Hne) as (c1 & E1 & H1). unfold bytes in *. rewrite E1.
    pose proof (sg_fuel_need x Hne) as Fx.
    apply (Hcall c1 x 0 p hdr t rw' _ H1); [cbn [skipn]; rewrite <- Ex; exact Hl|lia].
  - apply (Hext_step c rw x rw' He Hne Ex).
Qed.

(* the first call: the parser as htp_connp_open leaves it *)
Lemma sg_firstF c0 (x rw' : bytes) :
  c_in_status c0 = c_HTP_STREAM_OPEN -> c_out_status c0 = c_HTP_STREAM_OPEN -> c_in_state c0 = REQ_IDLE -> c_in_state_previous c0 = None ->
  c_in_tx c0 = None -> c_txs c0 = [] -> c_txs_shifted c0 = 0%nat ->
  k_buf (c_in c0) = None -> k_header (c_in c0) = None -> k_receiver_hook (c_in c0) = None ->
  c_conn_flags c0 = 0%N -> c_out_next_tx_index c0 = 0%nat ->
  x <> [] -> x ++ rw' = line0 ++ [CR; LF] ++ bwt ->
  exists c' rc, connp_req_data cb g (Some x) (length x) c0 = (c', rc) /\ post c' rw'.
Proof.
  intros Hst Host Hs Hp Ht Htxs Hshift Hb Hh Hrh Hfl Hon Hne Ex.
  assert (Hlen0 : (length x =? 0)%nat = false) by (destruct x; [contradiction|reflexivity]).
  unfold connp_req_data. rewrite Hst.
  change ((c_HTP_STREAM_OPEN =? c_HTP_STREAM_STOP)%Z) with false. change ((c_HTP_STREAM_OPEN =? c_HTP_STREAM_ERROR)%Z) with false. cbv iota.
  rewrite Ht, Hs. cbn [req_state_eqb negb]. rewrite Hlen0. cbn [andb].
  match goal with |- context [rq_loop cb g _ _ ?y] => set (c1 := y) end.
  assert (St1 : (c_in_status (rq_set_in (fun k => k <| k_data := Some x |> <| k_len := length x |> <| k_read := 0%nat |> <| k_consume := 0%nat |> <| k_receiver := 0%nat |>) c0
                   <| c_in_chunk_count ::= S |> <| c_in_data_counter ::= Z.add (Z.of_nat (length x)) |>) =? c_HTP_STREAM_TUNNEL)%Z = false).
  { change (c_in_status _) with (c_in_status c0). rewrite Hst. reflexivity. }
  rewrite St1 in *. clear St1.
  assert (Idle1 : sg_idl c1 x 0 [] [] 0%N None).
  { unfold c1. match goal with |- context [(c_out_status ?y =? _)%Z] => change (c_out_status y) with (c_out_status c0) end. rewrite Host. change ((c_HTP_STREAM_OPEN =? c_HTP_STREAM_DATA_OTHER)%Z) with false. cbv iota.
    constructor; try assumption; try reflexivity; try (cbn; lia).
    - left. exact Hst.
    - cbn. rewrite Hb. reflexivity. }
  clearbody c1.
  assert (Lx : (0 < length x)%nat) by (destruct x; [contradiction|cbn; lia]).
  destruct (sg_pass_idle cb g Hcb c1 x 0 [] [] 0%N None Idle1 Lx ltac:(right; cbn; lia)) as (c2 & E2 & H2).
  pose proof (sg_fuel_need x Hne) as Fx.
  destruct (rq_fuel (length x)) as [|F1] eqn:EF; [unfold sg_need in Fx; lia|].
  rewrite (sg_rq_loop_inr cb g _ _ _ E2).
  apply (sg_call_lineF c2 x [] (line0 ++ [CR; LF]) rw' _ H2 eq_refl).
  - intro E. apply app_eq_nil in E. destruct E as [_ E]. discriminate.
  - rewrite Ex, <- !app_assoc. reflexivity.
  - lia.
Qed.

(* ---- every later chunk ---- *)
Lemma sg_chunksF : forall (chunks : list bytes) c rw, between c rw -> rw <> [] -> Forall (fun x => x <> []) chunks -> concat chunks = rw ->
  fin (c_txs (fst (cp_run cb g c (map OpReqData chunks)))).
Proof.
  induction chunks as [|x rest IH]; intros c rw Hb Hne Hall Hc.
  - cbn [concat] in Hc. congruence.
  - cbn [concat] in Hc. cbn [map]. rewrite sg_cp_run_cons.
    destruct (sg_stepF c rw x (concat rest) Hb (Forall_inv Hall) (eq_sym Hc)) as (c' & rc & E & [[Hn Hb']|[Hn T]]); unfold bytes in *; rewrite E; cbn [fst].
    + apply (IH _ (concat rest) (sg_between_finish m u pr bwt hlog ext Hext_finish _ _ Hb') Hn (Forall_inv_tail Hall) eq_refl).
    + rewrite (sg_concat_nil rest (Forall_inv_tail Hall) Hn). cbn [map cp_run fst]. exact T.
Qed.

(* ---- every chunking of the request, from htp_connp_open on ---- *)
Lemma sg_all_chunksF (chunks : list bytes) : Forall (fun x => x <> []) chunks -> concat chunks = line0 ++ [CR; LF] ++ bwt ->
  fin (c_txs (fst (cp_run cb g connp_new (OpOpen :: map OpReqData chunks)))).
Proof.
  intros Hall Hc.
  set (c0 := forget_chunks (connp_open connp_new) <| c_events := [] |>).
  assert (E0 : fst (cp_run cb g connp_new (OpOpen :: map OpReqData chunks)) = fst (cp_run cb g c0 (map OpReqData chunks))).
  { cbn [cp_run cp_step]. unfold finish_call. fold c0. destruct (cp_run cb g c0 (map OpReqData chunks)). reflexivity. }
  rewrite E0. destruct chunks as [|x rest].
  - cbn [concat] in Hc. symmetry in Hc. apply app_eq_nil in Hc. destruct Hc as [_ Hc]. discriminate.
  - cbn [concat] in Hc. cbn [map]. rewrite sg_cp_run_cons.
    destruct (sg_firstF c0 x (concat rest) eq_refl eq_refl eq_refl eq_refl eq_refl eq_refl eq_refl eq_refl eq_refl eq_refl eq_refl eq_refl (Forall_inv Hall) Hc)
      as (c' & rc & E & [[Hn Hb']|[Hn T]]); unfold bytes in *; rewrite E; cbn [fst].
    + apply (sg_chunksF rest _ (concat rest) (sg_between_finish m u pr bwt hlog ext Hext_finish _ _ Hb') Hn (Forall_inv_tail Hall) eq_refl).
    + rewrite (sg_concat_nil rest (Forall_inv_tail Hall) Hn). cbn [map cp_run fst]. exact T.
Qed.
End GenF.

(* ---- the header phase of PSegFold (folded header fields), what follows the empty line being a parameter with a fuel bound ---- *)
Section Fold0F.
Variable cb : cb_oracle.
Variable g : cfg.
Hypothesis Hcb : wr_all_ok cb.
Notation sg_cin := (sg_cinw sg_w0).
Variables m u pr : bytes.
Variables bwt tailw : bytes.
Variable Tend : tx.
Variable fin : list (option tx) -> Prop.
Variable ext : connp -> bytes -> Prop.
Hypothesis Htail : forall c c1 d rd1 rw' F, c_in_state c = REQ_HEADERS ->
  rq_state_fn cb g REQ_HEADERS c = rq_with_tx (tx_state_request_headers cb) c1 ->
  sg_cin c1 d rd1 [] None REQ_HEADERS (Some REQ_HEADERS) (Some H_REQUEST_HEADER_DATA) Tend -> skipn rd1 d ++ rw' = tailw ->
  (sg_need d rd1 <= F)%nat ->
  exists cF rc, rq_loop cb g F false c = (cF, rc) /\ sg_post m u pr bwt (sg_fhlog g Tend tailw) fin ext cF rw'.

Lemma sg_fcall_hdrsF c d rd p hdr t rw' F :
  sg_cin c d rd p hdr REQ_HEADERS (Some REQ_HEADERS) (Some H_REQUEST_HEADER_DATA) t ->
  sg_fhlog g Tend tailw hdr t p (skipn rd d ++ rw') -> (sg_need d rd <= F)%nat ->
  exists cF rc, rq_loop cb g F false c = (cF, rc) /\ sg_post m u pr bwt (sg_fhlog g Tend tailw) fin ext cF rw'.
Proof.
  intros H (pend & tl & rem & q & Hrel & Ok & Hnp & Hrun & Hpq & Hq & Hw & Hfit) HF.
  assert (Es : c_in_state c = REQ_HEADERS) by apply (ci_state _ _ _ _ _ _ _ _ _ H).
  assert (Ef : rq_state_fn cb g REQ_HEADERS c = REQ_HEADERS_loop cb g (length d - rd) c).
  { cbn [rq_state_fn]. unfold REQ_HEADERS_fn. rewrite (ci_len _ _ _ _ _ _ _ _ _ H), (ci_read _ _ _ _ _ _ _ _ _ H). reflexivity. }
  destruct (sg_fhdrs_loop cb g d rw' Tend tailw rem c rd p q hdr t pend tl (length d - rd) H Hrel Ok Hnp Hrun Hpq Hq Hw Hfit (le_n _)) as [HA|HB].
  - destruct HA as (c' & p' & hdr' & t' & EA & HA1 & HA2 & HA3).
    assert (Lim : (length p' + length (sg_olist hdr') <= g_field_limit_hard g)%nat).
    { destruct HA2 as (pe & te & re & q' & Hr' & _ & _ & _ & Epq & _ & _ & Fit). pose proof (sg_ffit_next _ _ _ Fit) as L. rewrite <- Epq, app_length in L.
      pose proof (sg_rel_len _ _ _ _ _ Hr'). lia. }
    destruct (sg_exit_buffer cb g Hcb c' d p' hdr' _ _ t' HA1 Lim) as (cF & EF & HF').
    exists cF, c_HTP_STREAM_DATA. split.
    + destruct F as [|F1]; [unfold sg_need in HF; lia|]. apply sg_rq_loop_inl. unfold rq_iter. rewrite Es, Ef, EA, EF. reflexivity.
    + left. split; [exact HA3|]. right. left. exists p', hdr', t'. split; [exact HF'|exact HA2].
  - destruct HB as (c' & rd1 & EB & HB1 & HB2). rewrite <- Ef in EB.
    apply (Htail c c' d rd1 rw' F Es EB HB1 HB2).
    pose proof (ci_rd _ _ _ _ _ _ _ _ _ H). pose proof (ci_rd _ _ _ _ _ _ _ _ _ HB1).
    (* rd <= rd1: the empty line was read in this pass *)
    assert (Lr : (length d - rd1 <= length d - rd)%nat).
    { assert (L1 : length (skipn rd1 d ++ rw') = length tailw) by (rewrite HB2; reflexivity).
      assert (L2 : length (skipn rd d ++ rw') = length (q ++ sg_fafter tailw rem)) by (rewrite Hw; reflexivity).
      rewrite app_length, skipn_length in L1. rewrite !app_length, skipn_length in L2.
      assert (L3 : (length tailw <= length (sg_fafter tailw rem))%nat).
      { destruct rem as [|x r]; cbn [sg_fafter]; [lia|]. rewrite !app_length. lia. }
      lia. }
    unfold sg_need in *. lia.
Qed.
End Fold0F.
