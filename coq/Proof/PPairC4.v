(* C04, response direction for transaction number k: what follows the empty line -- RES_BODY_DETERMINE with a Content-Length
   framing, the identity body, htp_tx_state_response_complete_ex (the slot is finalised, out_tx is detached, out_state = RES_IDLE).
   PSegResRun.v (Section Tail) over the world of PPair.v. *)
Require Import Htp.Model.Base Htp.Model.MBstr Htp.Model.MConnTypes Htp.Model.MTxCommon Htp.Model.MResLine Htp.Model.MTxRes.
Require Import Htp.Model.MReq Htp.Model.MRes Htp.Model.MConnp.
Require Import Htp.Spec.SWire Htp.Proof.PWire Htp.Proof.PWireHdr Htp.Proof.PWireBlock Htp.Proof.PWireConn Htp.Proof.PWireExch.
Require Import Htp.Proof.PWireRun Htp.Proof.PWirePres Htp.Proof.PWireGlue Htp.Proof.PSeg Htp.Proof.PSegLine Htp.Proof.PSegHdr Htp.Proof.PSegGen Htp.Proof.PSegRun.
Require Import Htp.Proof.PSegFold Htp.Proof.PSegRes Htp.Proof.PSegResLine Htp.Proof.PSegResHdr Htp.Proof.PSegResGen Htp.Proof.PSegResRun.
Require Import Htp.Proof.PPairC1 Htp.Proof.PPairC2 Htp.Proof.PPairC3.

Lemma pj_cin_nil {w} c d rd hdr st prev rh t : pj_cinw w c d rd [] hdr st prev rh t -> k_consume (c_out c) = rd /\ sg_olist (k_buf (c_out c)) = [].
Proof.
  intros [A1 A2 A3 A4 A5 A6 A7 A8 A9 A10 A11 A12 A13 A14 A15 A16 A17 A18 A19]. apply app_eq_nil in A9. destruct A9 as [B1 B2]. split; [|exact B1].
  assert (L : length (firstn (rd - k_consume (c_out c)) (skipn (k_consume (c_out c)) d)) = 0%nat) by (rewrite B2; reflexivity).
  rewrite (sg_slice_length d _ rd A8 A7) in L. lia.
Qed.

Section Tail.
Variable cb : cb_oracle.
Variable g : cfg.
Hypothesis Hcb : wr_all_ok cb.
Context {w : pj_world}.
Notation pj_cin := (pj_cinw w).
Notation pj_mid := (pj_midw w).

(* htp_tx_state_response_headers: the raw-header receiver is finalised, the RESPONSE_HEADERS hook runs *)
Lemma pj_response_headers c d rd st prev t : pj_cin c d rd [] None st prev (Some H_RESPONSE_HEADER_DATA) t ->
  exists c', rs_response_headers cb c = (ST_OK, c') /\ pj_cin c' d rd [] None st prev None (t <| t_res_cep := c_HTP_COMPRESSION_NONE |>) /\
             c_out_body_data_left c' = c_out_body_data_left c.
Proof.
  intros H. unfold rs_response_headers. rewrite (ji_tx _ _ _ _ _ _ _ _ _ H). unfold tx_state_response_headers.
  rewrite (pj_tx_upd0 c d rd _ _ _ _ _ t _ H).
  set (c1 := c <| c_txs := (pj_txs w (t <| t_res_cep := c_HTP_COMPRESSION_NONE |>)) |>).
  assert (H1 : pj_cin c1 d rd [] None st prev (Some H_RESPONSE_HEADER_DATA) (t <| t_res_cep := c_HTP_COMPRESSION_NONE |>)) by (eapply pj_cin_txs; exact H).
  unfold res_receiver_finalize_clear. rewrite (ji_rh _ _ _ _ _ _ _ _ _ H1).
  destruct (pj_send_data cb Hcb c1 d rd _ _ _ _ _ _ true H1) as (c2 & E2 & H2 & L2). rewrite E2.
  rewrite (wr_run_hook cb Hcb).
  eexists. split; [reflexivity|]. split; [|exact L2].
  destruct H2 as [B1 B2 B3 B4 B5 B6 B7 B8 B9 B10 B11 B12 B13 B14 B15 B16 B17 B18 B19].
  constructor; try assumption; try reflexivity.
Qed.

Lemma pj_pass_determine c d rd t n : pj_cin c d rd [] None RES_BODY_DETERMINE (Some RES_BODY_DETERMINE) (Some H_RESPONSE_HEADER_DATA) t ->
  sr_frame_ok t n = true -> rs_hdr_get_c (t_request_headers t) rs_str_expect = None ->
  exists c', sr_iter cb g c = inr c' /\
    match n with
    | O => pj_cin c' d rd [] None RES_FINALIZE (Some RES_FINALIZE) None (sr_hdrs_tx t)
    | S _ => pj_cin c' d rd [] None RES_BODY_IDENTITY_CL_KNOWN (Some RES_BODY_IDENTITY_CL_KNOWN) None (sr_hdrs_tx t) /\
             c_out_body_data_left c' = Z.of_nat n
    end.
Proof.
  intros H Hf Hexp. unfold sr_frame_ok in Hf. apply andb_prop in Hf. destruct Hf as [Hf Hcl]. apply andb_prop in Hf. destruct Hf as [Hf Hte].
  apply andb_prop in Hf. destruct Hf as [Hm Hhd]. apply negb_true_iff in Hm. apply negb_true_iff in Hhd.
  assert (Ef : rs_state_fn cb g (c_out_state c) c = rs_RES_BODY_DETERMINE cb c) by (rewrite (ji_state _ _ _ _ _ _ _ _ _ H); reflexivity).
  destruct (rs_hdr_get_c (t_response_headers t) rs_str_transfer_encoding) as [hte|] eqn:Ete; [discriminate|].
  destruct (rs_hdr_get_c (t_response_headers t) rs_str_content_length) as [h|] eqn:Ecl; [|discriminate].
  apply andb_prop in Hcl. destruct Hcl as [Hv H100]. apply Z.eqb_eq in Hv. apply negb_true_iff in H100.
  unfold rs_RES_BODY_DETERMINE in Ef. rewrite (pj_rs_tx c d rd _ _ _ _ _ t H) in Ef. cbv zeta in Ef. rewrite Hm, Hhd, Ete, Ecl, Hv, Hexp in Ef. cbn [andb] in Ef.
  rewrite !andb_false_r in Ef. cbn [negb] in Ef.
  set (cE := if (400 <=? t_response_status_number t)%Z && (t_response_status_number t <=? 499)%Z && (0 <? c_in_content_length c)%Z &&
                (c_in_body_data_left c =? c_in_content_length c)%Z
             then c else c) in Ef.
  assert (HE : pj_cin cE d rd [] None RES_BODY_DETERMINE (Some RES_BODY_DETERMINE) (Some H_RESPONSE_HEADER_DATA) t).
  { unfold cE. match goal with |- pj_cinw _ (if ?b then _ else _) _ _ _ _ _ _ _ _ => destruct b end; exact H. }
  clearbody cE.
  assert (Eif : (if (100 <=? t_response_status_number t)%Z && (t_response_status_number t <=? 199)%Z || (t_response_status_number t =? 204)%Z
                     || (t_response_status_number t =? 304)%Z then cE else cE) = cE) by (destruct (_ || _ || _); reflexivity).
  rewrite Eif in Ef. clear Eif.
  assert (E100 : (t_response_status_number t =? 100)%Z && true && negb (0 <? Z.of_nat n)%Z = false).
  { rewrite andb_true_r. destruct (t_response_status_number t =? 100)%Z; [|reflexivity]. cbn [andb] in *. destruct n; [discriminate|].
    apply negb_false_iff. apply Z.ltb_lt. lia. }
  rewrite E100 in Ef. rewrite (ji_state _ _ _ _ _ _ _ _ _ HE) in Ef. cbn [res_state_eqb negb] in Ef.
  assert (Ev : (Z.of_nat n <? 0)%Z = false) by (apply Z.ltb_ge; lia). rewrite Ev in Ef.
  (* Content-Type *)
  set (t1 := match rs_hdr_get_c (t_response_headers t) rs_str_content_type with
             | Some hc => t <| t_response_content_type := Some (rs_content_type (h_value hc)) |>
             | None => t
             end).
  assert (HT : exists cT, match rs_hdr_get_c (t_response_headers t) rs_str_content_type with
                          | Some h0 => rs_otx (fun t => t <| t_response_content_type := Some (rs_content_type (h_value h0)) |>) cE
                          | None => cE
                          end = cT /\ pj_cin cT d rd [] None RES_BODY_DETERMINE (Some RES_BODY_DETERMINE) (Some H_RESPONSE_HEADER_DATA) t1).
  { unfold t1. destruct (rs_hdr_get_c (t_response_headers t) rs_str_content_type) as [hc|].
    - rewrite (pj_otx cE d rd _ _ _ _ _ t _ HE). eexists. split; [reflexivity|]. eapply pj_cin_txs. exact HE.
    - exists cE. split; [reflexivity|exact HE]. }
  destruct HT as (cT & ET & HT). rewrite ET in Ef. clear ET.
  rewrite (pj_otx cT d rd _ _ _ _ _ t1 _ HT) in Ef.
  set (t2 := (if flag_has (h_flags h) c_HTP_FIELD_REPEATED
              then t1 <| t_response_transfer_coding := c_HTP_CODING_IDENTITY |> <| t_flags :=
                     flag_set (t_flags (t1 <| t_response_transfer_coding := c_HTP_CODING_IDENTITY |>)) c_HTP_REQUEST_SMUGGLING |>
              else t1 <| t_response_transfer_coding := c_HTP_CODING_IDENTITY |>) <| t_response_content_length := Z.of_nat n |>) in *.
  set (c2 := cT <| c_txs := (pj_txs w t2) |>) in *.
  assert (H2 : pj_cin c2 d rd [] None RES_BODY_DETERMINE (Some RES_BODY_DETERMINE) (Some H_RESPONSE_HEADER_DATA) t2) by (eapply pj_cin_txs; exact HT).
  set (c3 := c2 <| c_out_content_length := Z.of_nat n |> <| c_out_body_data_left := Z.of_nat n |>) in *.
  assert (H3 : pj_cin c3 d rd [] None RES_BODY_DETERMINE (Some RES_BODY_DETERMINE) (Some H_RESPONSE_HEADER_DATA) t2) by (apply (pj_cin_ext c2); try reflexivity; exact H2).
  destruct n as [|n'].
  - change ((Z.of_nat 0 =? 0)%Z) with true in Ef. cbn [negb] in Ef.
    assert (H4 : pj_cin (rs_set_state RES_FINALIZE c3) d rd [] None RES_FINALIZE (Some RES_BODY_DETERMINE) (Some H_RESPONSE_HEADER_DATA) t2) by (eapply pj_cin_state; exact H3).
    destruct (pj_response_headers _ d rd _ _ t2 H4) as (c5 & E5 & H5 & _). rewrite E5 in Ef.
    destruct (pj_iter_ok cb g c c5 d rd _ _ _ _ _ _ Ef H5) as (c6 & E6 & H6); [discriminate|].
    exists c6. split; [exact E6|].
    assert (Et : sr_hdrs_tx t = t2 <| t_res_cep := c_HTP_COMPRESSION_NONE |>).
    { unfold sr_hdrs_tx, sr_det_tx. rewrite Ecl. cbv zeta. fold t1. rewrite Hv. reflexivity. }
    rewrite Et. exact H6.
  - assert (Nz : (Z.of_nat (S n') =? 0)%Z = false) by (apply Z.eqb_neq; lia). rewrite Nz in Ef. cbn [negb] in Ef.
    rewrite (pj_otx c3 d rd _ _ _ _ _ t2 _ H3) in Ef.
    set (t3 := t2 <| t_response_progress := c_HTP_RESPONSE_BODY |>) in *.
    assert (H4 : pj_cin (rs_set_state RES_BODY_IDENTITY_CL_KNOWN (c3 <| c_txs := (pj_txs w t3) |>)) d rd [] None RES_BODY_IDENTITY_CL_KNOWN (Some RES_BODY_DETERMINE) (Some H_RESPONSE_HEADER_DATA) t3).
    { eapply pj_cin_state. eapply pj_cin_txs. exact H3. }
    destruct (pj_response_headers _ d rd _ _ t3 H4) as (c5 & E5 & H5 & L5). rewrite E5 in Ef.
    destruct (pj_iter_ok_left cb g c c5 d rd _ _ _ _ _ _ Ef H5) as (c6 & E6 & H6 & L6); [discriminate|].
    exists c6. split; [exact E6|].
    assert (Et : sr_hdrs_tx t = t3 <| t_res_cep := c_HTP_COMPRESSION_NONE |>).
    { unfold sr_hdrs_tx, sr_det_tx. rewrite Ecl. cbv zeta. fold t1. rewrite Hv, Nz. reflexivity. }
    rewrite Et. split; [exact H6|]. rewrite L6, L5. reflexivity.
Qed.

(* ---- htp_tx_res_process_body_data_ex: lengths, the transaction's own hooks (however many), the RESPONSE_BODY_DATA hook ---- *)
Lemma pj_cin_tx_hooks k h i data last c d rd p hdr st prev rh t : pj_cin c d rd p hdr st prev rh t ->
  pj_cin (run_tx_hooks k h i data last c) d rd p hdr st prev rh t /\
  c_out_body_data_left (run_tx_hooks k h i data last c) = c_out_body_data_left c.
Proof.
  revert c. induction k as [|k IH]; intros c H; [split; [exact H|reflexivity]|].
  cbn [run_tx_hooks]. destruct (IH (emit (bump_hook c h) (mkev h i data last None))) as [A B]; [apply (pj_cin_hook c d rd p hdr st prev rh t h i data last H)|].
  split; [exact A|rewrite B; reflexivity].
Qed.
Lemma pj_process_body c d rd p hdr st prev rh t data len : pj_cin c d rd p hdr st prev rh t -> t_res_cep t = c_HTP_COMPRESSION_NONE ->
  match data with Some _ => len <> 0%nat | None => True end ->
  exists c', rs_process_body cb data len c = (ST_OK, c') /\ pj_cin c' d rd p hdr st prev rh (sr_body_add len t) /\
             c_out_body_data_left c' = c_out_body_data_left c.
Proof.
  intros H Hcep Hne. unfold rs_process_body. rewrite (ji_tx _ _ _ _ _ _ _ _ _ H). unfold tx_res_process_body_data_ex.
  rewrite (pj_tx_upd0 c d rd _ _ _ _ _ t _ H).
  set (t1 := t <| t_response_message_len ::= Z.add (Z.of_nat len) |>). set (c1 := c <| c_txs := (pj_txs w t1) |>).
  assert (H1 : pj_cin c1 d rd p hdr st prev rh t1) by (eapply pj_cin_txs; exact H).
  rewrite (pj_tx_get c1 d rd _ _ _ _ _ _ H1). change (t_res_cep t1) with (t_res_cep t). rewrite Hcep, Z.eqb_refl.
  rewrite (pj_tx_upd0 c1 d rd _ _ _ _ _ t1 _ H1).
  set (c2 := c1 <| c_txs := (pj_txs w ((t1 <| t_response_entity_len ::= Z.add (Z.of_nat len) |>))) |>).
  assert (H2 : pj_cin c2 d rd p hdr st prev rh (sr_body_add len t)) by (eapply pj_cin_txs; exact H1).
  assert (Er : res_run_hook_body_data cb (pj_k w) data len c2 =
               run_data_hook cb H_RESPONSE_BODY_DATA (pj_k w) data false
                 (run_tx_hooks (t_hook_response_body (tx_get c2 (pj_k w))) H_TX_RESPONSE_BODY_DATA (pj_k w) data false c2)).
  { unfold res_run_hook_body_data. rewrite (ji_tx _ _ _ _ _ _ _ _ _ H2). destruct data as [x|]; [destruct len; [contradiction|reflexivity]|reflexivity]. }
  rewrite Er. destruct (pj_cin_tx_hooks (t_hook_response_body (tx_get c2 (pj_k w))) H_TX_RESPONSE_BODY_DATA (pj_k w) data false c2 d rd p hdr st prev rh _ H2) as [H3 L3].
  unfold run_data_hook. rewrite (wr_run_hook_ex cb Hcb).
  eexists. split; [reflexivity|]. split; [apply pj_cin_hook; exact H3|]. exact L3.
Qed.

(* ---- one pass of RES_BODY_IDENTITY_CL_KNOWN over what the chunk still has (all of it belongs to the body) ---- *)
Lemma pj_cin_advance c d rd hdr st prev rh t k : pj_cin c d rd [] hdr st prev rh t -> (rd + k <= length d)%nat ->
  pj_cin (rs_advance k c) d (rd + k) [] hdr st prev rh t.
Proof.
  intros H Hk. destruct (pj_cin_nil _ _ _ _ _ _ _ _ H) as [Ecs Ebuf]. destruct H as [A1 A2 A3 A4 A5 A6 A7 A8 A9 A10 A11 A12 A13 A14 A15 A16 A17 A18 A19].
  constructor; try assumption; try reflexivity.
  - cbn. rewrite A6. reflexivity.
  - cbn. rewrite Ecs. lia.
  - cbn [rs_advance rs_set_out c_out set k_buf k_consume k_read]. cbn. rewrite Ebuf, Ecs, Nat.sub_diag. reflexivity.
  - cbn. lia.
Qed.
Lemma pj_exit_data c d rd hdr st t : pj_cin c d rd [] hdr st (Some st) None t ->
  rs_res_exit cb g ST_DATA c = (rs_set_out_status c_HTP_STREAM_DATA c, c_HTP_STREAM_DATA) /\
  pj_mid (rs_set_out_status c_HTP_STREAM_DATA c) [] hdr st None t.
Proof.
  intros H. destruct (pj_cin_nil _ _ _ _ _ _ _ _ H) as [_ Ebuf]. destruct H as [A1 A2 A3 A4 A5 A6 A7 A8 A9 A10 A11 A12 A13 A14 A15 A16 A17 A18 A19].
  split; [unfold rs_res_exit, res_receiver_send_data; rewrite A11; reflexivity|].
  constructor; try assumption; try reflexivity. right. reflexivity.
Qed.

Lemma pj_body_pass c d rd t (left : nat) : pj_cin c d rd [] None RES_BODY_IDENTITY_CL_KNOWN (Some RES_BODY_IDENTITY_CL_KNOWN) None t ->
  t_res_cep t = c_HTP_COMPRESSION_NONE -> c_out_body_data_left c = Z.of_nat left -> (0 < left)%nat -> (length d - rd <= left)%nat ->
  let k := (length d - rd)%nat in
  match k with
  | O => sr_iter cb g c = inl (rs_set_out_status c_HTP_STREAM_DATA c, c_HTP_STREAM_DATA)
  | S _ =>
    if (k <? left)%nat then
      exists c', sr_iter cb g c = inl (rs_set_out_status c_HTP_STREAM_DATA c', c_HTP_STREAM_DATA) /\
                 pj_cin c' d (length d) [] None RES_BODY_IDENTITY_CL_KNOWN (Some RES_BODY_IDENTITY_CL_KNOWN) None (sr_body_add k t) /\
                 c_out_body_data_left c' = Z.of_nat (left - k)
    else
      exists c', sr_iter cb g c = inr c' /\
                 pj_cin c' d (length d) [] None RES_FINALIZE (Some RES_FINALIZE) None (sr_body_add 0 (sr_body_add k t))
  end.
Proof.
  intros H Hcep Hl Hpos Hle k. pose proof H as [A1 A2 A3 A4 A5 A6 A7 A8 A9 A10 A11 A12 A13 A14 A15 A16 A17 A18 A19].
  assert (Ef : rs_state_fn cb g (c_out_state c) c = rs_RES_BODY_IDENTITY_CL_KNOWN cb c) by (rewrite A2; reflexivity).
  assert (Ebtc : rs_bytes_to_consume c (c_out_body_data_left c) = k).
  { unfold rs_bytes_to_consume. rewrite A5, A6, Hl. fold k.
    assert (E1 : (Z.of_nat left <? 0)%Z = false) by (apply Z.ltb_ge; lia). rewrite E1.
    destruct (Z.of_nat left <=? Z.of_nat k)%Z eqn:E2; [|reflexivity]. apply Z.leb_le in E2. rewrite Nat2Z.id. unfold k in *. lia. }
  unfold rs_RES_BODY_IDENTITY_CL_KNOWN in Ef. rewrite Ebtc in Ef. unfold rs_closed in Ef. rewrite (sg_live_closed _ A1) in Ef.
  destruct k as [|k'] eqn:Ek.
  - cbn [Nat.eqb] in Ef. unfold sr_iter. rewrite Ef. destruct (pj_exit_data c d rd None _ t H) as [E _]. rewrite E. reflexivity.
  - cbn [Nat.eqb] in Ef. rewrite <- Ek in *.
    unfold rs_body_slice in Ef. rewrite A4 in Ef.
    destruct (pj_process_body c d rd [] None _ _ None t (Some (firstn k (skipn (k_read (c_out c)) d))) k H Hcep ltac:(cbv beta iota; lia)) as (c1 & E1 & H1 & L1).
    rewrite E1 in Ef.
    assert (Hadv : pj_cin (rs_advance k c1) d (length d) [] None RES_BODY_IDENTITY_CL_KNOWN (Some RES_BODY_IDENTITY_CL_KNOWN) None (sr_body_add k t)).
    { replace (length d) with (rd + k)%nat by (unfold k; lia). apply pj_cin_advance; [exact H1|unfold k; lia]. }
    set (c2 := rs_advance k c1 <| c_out_body_data_left := (c_out_body_data_left (rs_advance k c1) - Z.of_nat k)%Z |>) in *.
    assert (H2 : pj_cin c2 d (length d) [] None RES_BODY_IDENTITY_CL_KNOWN (Some RES_BODY_IDENTITY_CL_KNOWN) None (sr_body_add k t)) by (apply (pj_cin_ext (rs_advance k c1)); try reflexivity; exact Hadv).
    assert (L2 : c_out_body_data_left c2 = (Z.of_nat left - Z.of_nat k)%Z).
    { unfold c2. cbn [c_out_body_data_left set]. change (c_out_body_data_left (rs_advance k c1)) with (c_out_body_data_left c1). rewrite L1, Hl. reflexivity. }
    rewrite L2 in Ef.
    destruct (k <? left)%nat eqn:Elt.
    + apply Nat.ltb_lt in Elt. assert (Nz : (Z.of_nat left - Z.of_nat k =? 0)%Z = false) by (apply Z.eqb_neq; lia). rewrite Nz in Ef.
      exists c2. split; [|split; [exact H2|rewrite L2; lia]].
      unfold sr_iter. rewrite Ef. destruct (pj_exit_data c2 d _ None _ _ H2) as [E _]. rewrite E. reflexivity.
    + apply Nat.ltb_ge in Elt. assert (Ez : (Z.of_nat left - Z.of_nat k =? 0)%Z = true) by (apply Z.eqb_eq; lia). rewrite Ez in Ef.
      assert (H3 : pj_cin (rs_set_state RES_FINALIZE c2) d (length d) [] None RES_FINALIZE (Some RES_BODY_IDENTITY_CL_KNOWN) None (sr_body_add k t)) by (eapply pj_cin_state; exact H2).
      destruct (pj_process_body _ d _ [] None _ _ None _ None 0 H3 Hcep I) as (c4 & E4 & H4 & _). rewrite E4 in Ef.
      apply (pj_iter_ok cb g c c4 d (length d) [] None RES_FINALIZE _ None _ Ef H4). discriminate.
Qed.

(* the body ends inside the chunk: exactly `left` bytes are taken, the rest of the chunk stays for RES_FINALIZE *)
Lemma pj_body_pass_end c d rd t (left : nat) : pj_cin c d rd [] None RES_BODY_IDENTITY_CL_KNOWN (Some RES_BODY_IDENTITY_CL_KNOWN) None t ->
  t_res_cep t = c_HTP_COMPRESSION_NONE -> c_out_body_data_left c = Z.of_nat left -> (0 < left)%nat -> (left <= length d - rd)%nat ->
  exists c', sr_iter cb g c = inr c' /\
             pj_cin c' d (rd + left) [] None RES_FINALIZE (Some RES_FINALIZE) None (sr_body_add 0 (sr_body_add left t)).
Proof.
  intros H Hcep Hl Hpos Hle. pose proof H as [A1 A2 A3 A4 A5 A6 A7 A8 A9 A10 A11 A12 A13 A14 A15 A16 A17 A18 A19].
  assert (Ef : rs_state_fn cb g (c_out_state c) c = rs_RES_BODY_IDENTITY_CL_KNOWN cb c) by (rewrite A2; reflexivity).
  assert (Ebtc : rs_bytes_to_consume c (c_out_body_data_left c) = left).
  { unfold rs_bytes_to_consume. rewrite A5, A6, Hl.
    assert (E1 : (Z.of_nat left <? 0)%Z = false) by (apply Z.ltb_ge; lia). rewrite E1.
    assert (E2 : (Z.of_nat left <=? Z.of_nat (length d - rd))%Z = true) by (apply Z.leb_le; lia). rewrite E2. apply Nat2Z.id. }
  unfold rs_RES_BODY_IDENTITY_CL_KNOWN in Ef. rewrite Ebtc in Ef. unfold rs_closed in Ef. rewrite (sg_live_closed _ A1) in Ef.
  assert (E0 : (left =? 0)%nat = false) by (apply Nat.eqb_neq; lia). rewrite E0 in Ef.
  unfold rs_body_slice in Ef. rewrite A4 in Ef.
  destruct (pj_process_body c d rd [] None _ _ None t (Some (firstn left (skipn (k_read (c_out c)) d))) left H Hcep ltac:(cbv beta iota; lia)) as (c1 & E1 & H1 & L1).
  rewrite E1 in Ef.
  assert (Hadv : pj_cin (rs_advance left c1) d (rd + left) [] None RES_BODY_IDENTITY_CL_KNOWN (Some RES_BODY_IDENTITY_CL_KNOWN) None (sr_body_add left t)).
  { apply pj_cin_advance; [exact H1|lia]. }
  set (c2 := rs_advance left c1 <| c_out_body_data_left := (c_out_body_data_left (rs_advance left c1) - Z.of_nat left)%Z |>) in *.
  assert (H2 : pj_cin c2 d (rd + left) [] None RES_BODY_IDENTITY_CL_KNOWN (Some RES_BODY_IDENTITY_CL_KNOWN) None (sr_body_add left t)) by (apply (pj_cin_ext (rs_advance left c1)); try reflexivity; exact Hadv).
  assert (L2 : c_out_body_data_left c2 = (Z.of_nat left - Z.of_nat left)%Z).
  { unfold c2. cbn [c_out_body_data_left set]. change (c_out_body_data_left (rs_advance left c1)) with (c_out_body_data_left c1). rewrite L1, Hl. reflexivity. }
  rewrite L2 in Ef.
  assert (Ez : (Z.of_nat left - Z.of_nat left =? 0)%Z = true) by (apply Z.eqb_eq; lia). rewrite Ez in Ef.
  assert (H3 : pj_cin (rs_set_state RES_FINALIZE c2) d (rd + left) [] None RES_FINALIZE (Some RES_BODY_IDENTITY_CL_KNOWN) None (sr_body_add left t)) by (eapply pj_cin_state; exact H2).
  destruct (pj_process_body _ d _ [] None _ _ None _ None 0 H3 Hcep I) as (c4 & E4 & H4 & _). rewrite E4 in Ef.
  apply (pj_iter_ok cb g c c4 d (rd + left) [] None RES_FINALIZE _ None _ Ef H4). discriminate.
Qed.

(* ---- htp_tx_state_response_complete_ex (tx_auto_destroy off): the slot is complete, out_tx detached, the request side untouched ---- *)
Hypothesis Had : g_tx_auto_destroy g = false.
Record pj_comp (c c' : connp) (s : option tx) : Prop := mk_pj_comp {
  jc_txs : c_txs c' = jw_pre w ++ s :: jw_post w;
  jc_out : c_out c' = c_out c;
  jc_status : c_out_status c' = c_out_status c;
  jc_prev : c_out_state_previous c' = c_out_state_previous c;
  jc_state : c_out_state c' = RES_IDLE;
  jc_otx : c_out_tx c' = None;
  jc_next : c_out_next_tx_index c' = S (pj_k w);
  jc_shift : c_txs_shifted c' = 0%nat;
  jc_in : pj_qin c' = pj_qin c;
  jc_other : c_out_data_other_at_tx_end c' = false }.

Lemma pj_response_complete c d rd p prev t : pj_cin c d rd p None RES_FINALIZE prev None t ->
  t_res_cep t = c_HTP_COMPRESSION_NONE -> (t_response_transfer_coding t =? c_HTP_CODING_NO_BODY)%Z = false ->
  (t_response_progress t =? c_HTP_RESPONSE_COMPLETE)%Z = false ->
  exists c', rs_response_complete cb g c = (ST_OK, c') /\ pj_comp c c' (Some (sr_tcomplete t)).
Proof.
  intros H0 Hcep Hcod Hprog. rename c into c0.
  unfold rs_response_complete. rewrite (ji_tx _ _ _ _ _ _ _ _ _ H0). unfold tx_state_response_complete_ex.
  rewrite (pj_tx_get c0 d _ _ _ _ _ _ _ H0), Hprog. cbn [negb].
  rewrite (pj_tx_upd0 c0 d _ _ _ _ _ _ t _ H0).
  set (t1 := t <| t_response_progress := c_HTP_RESPONSE_COMPLETE |>). set (c1 := c0 <| c_txs := pj_txs w t1 |>).
  assert (H1 : pj_cin c1 d rd p None RES_FINALIZE prev None t1) by (eapply pj_cin_txs; exact H0).
  rewrite (pj_tx_get c1 d _ _ _ _ _ _ _ H1). change (t_response_transfer_coding t1) with (t_response_transfer_coding t). rewrite Hcod. cbn [negb].
  assert (Epb : tx_res_process_body_data_ex cb (pj_k w) None 0 c1 = rs_process_body cb None 0 c1) by (unfold rs_process_body; rewrite (ji_tx _ _ _ _ _ _ _ _ _ H1); reflexivity).
  rewrite Epb. destruct (pj_process_body c1 d _ p None _ _ None t1 None 0 H1 Hcep I) as (c2 & E2 & H2 & _). rewrite E2. cbn [snd].
  fold (sr_tcomplete t) in H2.
  rewrite (wr_run_hook cb Hcb). unfold res_receiver_finalize_clear.
  set (c3 := wr_hook_ev H_RESPONSE_COMPLETE (pj_k w) None false c2).
  assert (H3 : pj_cin c3 d rd p None RES_FINALIZE prev None (sr_tcomplete t)) by (apply pj_cin_hook; exact H2).
  rewrite (ji_rh _ _ _ _ _ _ _ _ _ H3).
  (* the request side is not waiting *)
  assert (Ew : (c_in_status c3 =? c_HTP_STREAM_DATA_OTHER)%Z &&
               match c_in_tx c3, c_out_tx c3 with Some a, Some b => (a =? b)%nat | None, None => true | _, _ => false end = false).
  { rewrite (ji_intx _ _ _ _ _ _ _ _ _ H3). reflexivity. }
  rewrite Ew. cbn [negb andb].
  rewrite (ji_other _ _ _ _ _ _ _ _ _ H3).
  (* c3 differs from c0 in the transaction list, the event log and the call counters only *)
  assert (F3 : c_out c3 = c_out c0 /\ c_out_status c3 = c_out_status c0 /\ c_out_state_previous c3 = c_out_state_previous c0).
  { assert (F2 : c_out c2 = c_out c1 /\ c_out_status c2 = c_out_status c1 /\ c_out_state_previous c2 = c_out_state_previous c1).
    { revert E2. unfold rs_process_body. rewrite (ji_tx _ _ _ _ _ _ _ _ _ H1). unfold tx_res_process_body_data_ex.
      rewrite (pj_tx_upd0 c1 d _ _ _ _ _ _ t1 _ H1).
      match goal with |- context [tx_get ?x (pj_k w)] => set (cA := x) end.
      assert (HA : pj_cin cA d rd p None RES_FINALIZE prev None (t1 <| t_response_message_len ::= Z.add (Z.of_nat 0) |>)) by (eapply pj_cin_txs; exact H1).
      rewrite (pj_tx_get cA d _ _ _ _ _ _ _ HA). change (t_res_cep (t1 <| t_response_message_len ::= Z.add (Z.of_nat 0) |>)) with (t_res_cep t). rewrite Hcep, Z.eqb_refl.
      rewrite (pj_tx_upd0 cA d _ _ _ _ _ _ _ _ HA).
      match goal with |- context [res_run_hook_body_data cb (pj_k w) None 0 ?x] => set (cB := x) end.
      unfold res_run_hook_body_data. change (c_out_tx cB) with (c_out_tx c1). rewrite (ji_tx _ _ _ _ _ _ _ _ _ H1).
      unfold run_data_hook. rewrite (wr_run_hook_ex cb Hcb). intros E. inversion E.
      assert (G : forall k x, c_out (run_tx_hooks k H_TX_RESPONSE_BODY_DATA (pj_k w) None false x) = c_out x /\
                              c_out_status (run_tx_hooks k H_TX_RESPONSE_BODY_DATA (pj_k w) None false x) = c_out_status x /\
                              c_out_state_previous (run_tx_hooks k H_TX_RESPONSE_BODY_DATA (pj_k w) None false x) = c_out_state_previous x).
      { induction k as [|k IH]; intros x; [repeat split|]. cbn [run_tx_hooks]. destruct (IH (emit (bump_hook x H_TX_RESPONSE_BODY_DATA) (mkev H_TX_RESPONSE_BODY_DATA (pj_k w) None false None))) as (G1 & G2 & G3).
        rewrite G1, G2, G3. repeat split. }
      cbn [wr_hook_ev emit bump_hook c_out c_out_status c_out_state_previous set].
      destruct (G (t_hook_response_body (tx_get cB (pj_k w))) cB) as (G1 & G2 & G3). cbn. rewrite G1, G2, G3. repeat split. }
    destruct F2 as (G1 & G2 & G3). unfold c3. cbn [wr_hook_ev emit bump_hook c_out c_out_status c_out_state_previous set]. cbn. rewrite G1, G2, G3. repeat split. }
  (* what is left once htp_tx_finalize is through *)
  assert (Fin : forall cX, pj_cin cX d rd p None RES_FINALIZE prev None (sr_tcomplete t) ->
                  c_out cX = c_out c0 -> c_out_status cX = c_out_status c0 -> c_out_state_previous cX = c_out_state_previous c0 ->
                  pj_comp c0 (cX <| c_out_tx := None |> <| c_out_state := RES_IDLE |>) (Some (sr_tcomplete t))).
  { intros cX HX O4 S4 P4.
    constructor; cbn [c_txs c_out c_out_status c_out_state_previous c_out_state c_out_tx c_out_next_tx_index c_txs_shifted c_in_tx c_out_data_other_at_tx_end set]; try assumption; try reflexivity.
    - exact (ji_txs _ _ _ _ _ _ _ _ _ HX).
    - exact (ji_next _ _ _ _ _ _ _ _ _ HX).
    - exact (ji_shift _ _ _ _ _ _ _ _ _ HX).
    - change (pj_qin cX = pj_qin c0). rewrite (ji_in _ _ _ _ _ _ _ _ _ HX), (ji_in _ _ _ _ _ _ _ _ _ H0). reflexivity.
    - exact (ji_other _ _ _ _ _ _ _ _ _ HX). }
  destruct F3 as (O3 & S3 & P3).
  unfold tx_finalize. rewrite (pj_cin_slot _ _ _ _ _ _ _ _ _ H3).
  destruct (tx_is_complete (sr_tcomplete t)) eqn:Ec; cbn [negb].
  - (* the request is complete as well: the transaction is *)
    unfold run_hook_ex. rewrite Hcb.
    set (c4 := emit (bump_hook c3 H_TRANSACTION_COMPLETE) (mkev H_TRANSACTION_COMPLETE (pj_k w) None false (Some (sr_tcomplete t)))).
    assert (H4 : pj_cin c4 d rd p None RES_FINALIZE prev None (sr_tcomplete t)) by (apply (pj_cin_ext c3); try reflexivity; exact H3).
    rewrite (pj_cin_slot _ _ _ _ _ _ _ _ _ H4), Had.
    eexists. split; [reflexivity|]. apply (Fin c4 H4); [exact O3|exact S3|exact P3].
  - (* the request is still in htp_connp_REQ_FINALIZE: htp_tx_finalize does nothing *)
    eexists. split; [reflexivity|]. apply (Fin c3 H3); [exact O3|exact S3|exact P3].
Qed.
End Tail.
