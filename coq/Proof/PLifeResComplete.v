(* C05, history level: htp_tx_state_response_complete_ex (the version that wraps the response up -- finalize, detach --
   in the two yield situations too and returns DATA_OTHER afterwards; /repo 6d6bb7e). Everything that unfolds this
   function is in this file. *)
Require Import Htp.Model.MConnTypes Htp.Model.MBstr Htp.Model.MTxCommon Htp.Model.MResLine Htp.Model.MTxRes
               Htp.Spec.SConnp Htp.Spec.SLife Htp.Proof.PLife Htp.Proof.PLifeTx Htp.Proof.PLifeTxRes.
Local Open Scope nat_scope.

Section RC.
Variable cb : cb_oracle.
Variable g : cfg.
Variable H : list evp.

Lemma RS_idle v m : lv_otx v = None -> lv_oh v = None -> lv_ost v = RES_IDLE -> RS v m.
Proof. intros A B C. constructor; [intros j Hj; congruence|intros h Hh; congruence|intros _; exact C]. Qed.
Lemma Core_otx_none xq xs v m : Core xq xs v m -> Core xq xs (v <| lv_otx := None |>) m.
Proof. intros [H1 H2 H3 H4 H5 H6 H7 H8 H9]. constructor; try assumption. intros j Hj. discriminate Hj. Qed.

Lemma Core_setps_complete v m i x :
  Core None None v m -> vslot v i = Some x -> Core None (Some i) (v_map i (xsetps c_HTP_RESPONSE_COMPLETE) v) m.
Proof.
  intros C Hs. unfold v_map. rewrite Hs. destruct x as [[p ps] ce].
  apply (Core_put None None None (Some i) v m i (p, ps, ce)); try assumption; cbn.
  - exact (co_q6 _ _ _ _ C i p ps ce Hs).
  - exact (co_qc _ _ _ _ C i p ps ce Hs).
  - reflexivity.
  - intros X. congruence.
  - tauto.
  - intros j _ _. discriminate.
Qed.

(* the slot of i is gone, or its response progress is COMPLETE *)
Definition sdone (v : lv) (i : nat) : Prop := forall p ps ce, vslot v i = Some (p, ps, ce) -> ps = c_HTP_RESPONSE_COMPLETE.
Lemma sdone_moved i v v' : vmoved i v v' -> sdone v i -> sdone v' i.
Proof.
  intros [->|(x & Hx & _ & ->)] D; [exact D|]. intros p ps ce Hs. rewrite vslot_destroy in Hs by congruence. rewrite Nat.eqb_refl in Hs. discriminate.
Qed.

(* the wrap-up shared by the three exits *)
Lemma wrap_spec i ret c rc c' m c0 m0 :
  (match tx_finalize cb g i c with
   | (ST_OK, c) => (ret, c <| c_out_tx := None |> <| c_out_state := RES_IDLE |>)
   | r => r
   end) = (rc, c') ->
  okrc ret ->
  MS (levs c ++ H) m -> Core None None (lview c) m -> lc_fin (m i) = false -> lv_oh (lview c) = None ->
  lv_is (lview c) = lv_is (lview c0) -> (RQ (lview c0) m0 -> RQ (lview c) m) ->
  SPost H c0 m0 rc c'.
Proof.
  intros E Hret HM HC Hf Hu Is RQf.
  destruct (tx_finalize cb g i c) as [rc1 c1] eqn:E1.
  destruct (tx_finalize_spec cb g H i c rc1 c1 m E1 HM HC Hf) as (m1 & A1 & B1 & R1 & V1 & M1).
  assert (RQ1 : RQ (lview c0) m0 -> RQ (lview c1) m1).
  { intros Rq. apply (RQ_moved i _ _ m1 V1). specialize (RQf Rq).
    destruct M1 as [M1|(X1 & X2 & ->)]; [exact (RQ_meq _ m m1 M1 RQf)|exact (RQ_fupd _ m i X1 RQf)]. }
  destruct (vmoved_fields i _ _ V1) as (F1 & _ & _ & _ & _ & F6 & _).
  exists m1. destruct R1 as [-> | [-> | ->]]; injection E as <- <-.
  - split; [exact A1|]. split; [apply (Core_ext None None ((lview c1) <| lv_otx := None |>)); try reflexivity; apply Core_otx_none; exact B1|].
    split; [intros Rq; apply (RQ_same_in (lview c1)); try reflexivity; exact (RQ1 Rq)|].
    split; [change (alive (lv_is (lview c0)) -> alive (lv_is (lview c1))); rewrite F1, Is; tauto|].
    intros _. apply RS_idle; [reflexivity| |reflexivity]. change (lv_oh (lview c1) = None). rewrite F6. exact Hu.
  - split; [exact A1|]. split; [exact B1|]. split; [exact RQ1|].
    split; [change (alive (lv_is (lview c0)) -> alive (lv_is (lview c1))); rewrite F1, Is; tauto|]. intros [X|[X|[X|X]]]; discriminate X.
  - split; [exact A1|]. split; [exact B1|]. split; [exact RQ1|].
    split; [change (alive (lv_is (lview c0)) -> alive (lv_is (lview c1))); rewrite F1, Is; tauto|]. intros [X|[X|[X|X]]]; discriminate X.
Qed.

Lemma wrap_fault i ret c : c_fault c = true ->
  c_fault (snd (match tx_finalize cb g i c with
                | (ST_OK, c) => (ret, c <| c_out_tx := None |> <| c_out_state := RES_IDLE |>)
                | r => r
                end)) = true.
Proof.
  intros F. pose proof (fault_finalize cb g i c F) as F1. destruct (tx_finalize cb g i c) as [rc1 c1]. cbn [snd] in F1.
  destruct rc1; exact F1.
Qed.

(* htp_tx_state_response_complete_ex on connp->out_tx (hybrid_mode = 0) *)
Lemma response_complete_spec i c rc c' m :
  tx_state_response_complete_ex cb g i false c = (rc, c') -> SJ H c m -> c_out_tx c = Some i -> 1 <= lc_rs (m i) <= 5 ->
  SPostF H c m rc c'.
Proof.
  intros E (HM & HC & HR) Hi Hq. unfold tx_state_response_complete_ex in E.
  destruct (rs_txc _ _ HR i Hi) as (p & ps & ce & Hs & Hp & _).
  destruct (co_otx _ _ _ _ HC i Hi) as [_ Ho]. destruct (vslot_lt _ _ _ Hs) as [_ Hn].
  destruct (vslot_tx c i _ Hs) as (t0 & Ht0 & Hv0). rewrite (tx_get_live c i t0 Ht0) in E.
  assert (Ep : t_response_progress t0 = ps) by (unfold txv in Hv0; congruence). rewrite Ep in E.
  assert (Hne : Z.eqb ps c_HTP_RESPONSE_COMPLETE = false) by (apply Z.eqb_neq; exact Hp). rewrite Hne in E. cbn [negb] in E.
  (* progress := COMPLETE *)
  match type of E with context [tx_upd c i ?f] =>
    destruct (lview_tx_upd_map c i f (xsetps c_HTP_RESPONSE_COMPLETE) (fun t => eq_refl)) as [A1 B1]; set (c1 := tx_upd c i f) in * end.
  set (v1 := v_map i (xsetps c_HTP_RESPONSE_COMPLETE) (lview c)) in *.
  destruct (v_map_fields i (xsetps c_HTP_RESPONSE_COMPLETE) (lview c)) as (F1 & _ & _ & _ & _ & F6' & _ & F6 & _ & F10 & F11 & F12). fold v1 in F1, F6', F6, F10, F11, F12.
  assert (HC1 : Core None (Some i) (lview c1) m) by (rewrite A1; exact (Core_setps_complete _ m i _ HC Hs)).
  assert (HM1 : MS (levs c1 ++ H) m) by (rewrite B1; exact HM).
  assert (D1 : sdone (lview c1) i).
  { rewrite A1. intros p0 ps0 ce0 X. unfold v1 in X. rewrite vslot_map, Nat.eqb_refl, Hs in X. cbn [option_map xsetps fst snd] in X. injection X as _ <- _. reflexivity. }
  assert (RQ1 : RQ (lview c) m -> RQ (lview c1) m) by (intros Rq; rewrite A1; apply RQ_sp; [intros y; reflexivity|exact Rq]).
  assert (N1 : i < vnid (lview c1) /\ i < lv_sh (lview c1) + lv_on (lview c1)) by (rewrite A1, F10, F11, F12; split; assumption).
  destruct (nofin_s _ _ _ _ _ _ _ _ HC Hs Hp) as [Hf _].
  (* the last RESPONSE_BODY_DATA call *)
  match type of E with context [if ?b then snd ?x else c1] => set (c2 := if b then snd x else c1) in E;
    assert (Body : exists m2, MS (levs c2 ++ H) m2 /\ Core None (Some i) (lview c2) m2 /\ vmoved i (lview c1) (lview c2) /\ smv i m m2 /\
                              lc_fin (m2 i) = false /\ lc_rs (m2 i) <= 5) end.
  { subst c2. match goal with |- context [if ?b then _ else _] => destruct b end.
    - destruct (tx_res_process_body_data_ex cb i None 0 c1) as [rcb cb1] eqn:Eb. cbn [snd].
      destruct (res_body_ex cb H (Some i) i None 0 c1 rcb cb1 m Eb HM1 HC1 (proj1 N1) (proj2 N1) Hf Hq) as (m2 & X1 & X2 & _ & X4 & X5 & X6 & X7).
      { intros p0 ps0 ce0 _ X. congruence. }
      exists m2. split; [exact X1|]. split; [exact X2|]. split; [exact X4|]. split; [exact X5|]. split; [exact X6|lia].
    - exists m. split; [exact HM1|]. split; [exact HC1|]. split; [left; reflexivity|]. split; [apply smv_refl|]. split; [exact Hf|lia]. }
  destruct Body as (m2 & HM2 & HC2 & V2 & S2 & Hf2 & Hq2).
  pose proof (sdone_moved i _ _ V2 D1) as D2.
  destruct (vmoved_fields i _ _ V2) as (G1 & _ & _ & _ & _ & G6 & _ & G8 & G9 & G10).
  (* RESPONSE_COMPLETE *)
  unfold run_hook in E. destruct (run_hook_ex cb H_RESPONSE_COMPLETE i None false None c2) as [rc3' c3] eqn:E3.
  pose proof (lc_h17 (m2 i) Hf2 ltac:(lia)) as Hst.
  assert (HC2' : Core None None (lview c2) (mupd m2 i (lcs (m2 i) 6))).
  { apply (Core_sstep None (Some i) None); try assumption; [rewrite G10; exact (proj1 N1)|rewrite G8, G9; exact (proj2 N1)|lia| |intros j Hj _; congruence].
    intros p0 ps0 ce0 X. split; [intros _; exact (D2 p0 ps0 ce0 X)|intros _ _; reflexivity]. }
  destruct (hook_step cb H None None H_RESPONSE_COMPLETE i None false None c2 rc3' c3 m2 _ E3 HM2 Hst HC2') as (HM3 & HC3 & R3 & V3).
  set (m3 := mupd m2 i (lcs (m2 i) 6)) in *.
  assert (Hf3 : lc_fin (m3 i) = false /\ lc_rs (m3 i) = 6) by (subst m3; rewrite mupd_same; split; reflexivity).
  assert (S3 : smv i m m3) by (apply (smv_trans i m m2); [exact S2|apply smv_upd]).
  destruct (vmoved_fields i _ _ V3) as (K1 & _ & _ & _ & _ & K6 & _ & K8 & K9 & K10).
  assert (Is3 : lv_is (lview c3) = lv_is (lview c)) by (rewrite K1, G1, A1; exact F1).
  assert (RQ3 : RQ (lview c) m -> RQ (lview c3) m3).
  { intros Rq. apply (RQ_moved i _ _ m3 V3). apply (RQ_smv i _ m m3 S3). exact (RQ_moved i _ _ m V2 (RQ1 Rq)). }
  assert (Oh3 : lv_oh (lview c3) = lv_oh (lview c)) by (rewrite K6, G6, A1; exact F6).
  assert (N3 : i < vnid (lview c3)) by (rewrite K10, G10; exact (proj1 N1)).
  destruct R3 as [-> | [-> | ->]].
  2,3: injection E as <- <-; right; exists m3; split; [exact HM3|]; split; [exact HC3|]; split; [exact RQ3|]; split;
       [change (alive (lv_is (lview c)) -> alive (lv_is (lview c3))); rewrite Is3; tauto|intros [X|[X|[X|X]]]; discriminate X].
  (* the receiver's last flush *)
  destruct (res_receiver_finalize_clear cb c3) as [rc4 c4] eqn:E4.
  assert (Flush : c_fault c4 = true \/
            (MS (levs c4 ++ H) m3 /\ Core None None (lview c4) m3 /\ rc3 rc4 /\ lv_is (lview c4) = lv_is (lview c) /\
             (RQ (lview c) m -> RQ (lview c4) m3) /\ lv_oh (lview c4) = None)).
  { unfold res_receiver_finalize_clear in E4. destruct (k_receiver_hook (c_out c3)) as [h|] eqn:Eh.
    2:{ injection E4 as <- <-. right. split; [exact HM3|]. split; [exact HC3|]. split; [left; reflexivity|]. split; [exact Is3|]. split; [exact RQ3|exact Eh]. }
    destruct (res_receiver_send_data cb true c3) as [rc5 c5] eqn:E5. injection E4 as <- <-.
    assert (Eh0 : lv_oh (lview c) = Some h) by (rewrite <- Oh3; exact Eh).
    destruct (rs_arm _ _ HR h Eh0) as (Hh & j & Hj & Hnd). assert (j = i) by (change (lv_otx (lview c)) with (c_out_tx c) in Hj; congruence). subst j.
    destruct (c_out_tx c3) as [o|] eqn:Eo3.
    - (* still attached *)
      assert (o = i).
      { change (lv_otx (lview c3) = Some o) in Eo3.
        assert (X : forall a b, vmoved i a b -> forall k, lv_otx b = Some k -> lv_otx a = Some k).
        { intros a b [->|(x & _ & _ & ->)] k Hk; [exact Hk|]. unfold v_destroy in Hk. cbn in Hk. apply clr_some in Hk. tauto. }
        pose proof (X _ _ V2 o (X _ _ V3 o Eo3)) as Y. rewrite A1, F6' in Y. change (lv_otx (lview c)) with (c_out_tx c) in Y. congruence. }
      subst o. right.
      assert (Hn3 : need_s h <= lc_rs (m3 i)) by (rewrite (proj2 Hf3); unfold need_s; destruct (h =? 15); lia).
      destruct (res_send_gen cb H None true c3 rc5 c5 m3 h i E5 HM3 HC3 Eh Hh Eo3 N3 (proj1 Hf3) Hn3) as (A5 & B5 & R5 & V5).
      destruct (vmoved_fields i _ _ V5) as (L1 & _).
      split; [exact A5|]. split; [apply (Core_ext None None (lview c5)); try reflexivity; exact B5|]. split; [exact R5|].
      split; [change (lv_is (lview c5) = lv_is (lview c)); rewrite L1; exact Is3|]. split; [|reflexivity].
      intros Rq. apply (RQ_same_in (lview c5)); try reflexivity. exact (RQ_moved i _ _ m3 V5 (RQ3 Rq)).
    - (* a callback destroyed the transaction: the receiver runs with out_tx NULL *)
      left. exact (res_send_fault cb true c3 rc5 c5 h E5 Eh Eo3). }
  destruct Flush as [F|(HM4 & HC4 & R4 & Is4 & RQ4 & Oh4)].
  { left. destruct rc4; try (injection E as <- <-; exact F).
    match type of E with ?X = _ => assert (FF : c_fault (snd X) = true) end; [|rewrite E in FF; exact FF].
    repeat match goal with |- context [if ?b then _ else _] => destruct b end; apply wrap_fault; exact F. }
  destruct R4 as [-> | [-> | ->]].
  2,3: injection E as <- <-; right; exists m3; split; [exact HM4|]; split; [exact HC4|]; split; [exact RQ4|]; split;
       [change (alive (lv_is (lview c)) -> alive (lv_is (lview c4))); rewrite Is4; tauto|intros [X|[X|[X|X]]]; discriminate X].
  (* wrap up *)
  right. cbn [negb andb] in E.
  match type of E with (if ?b1 then _ else if ?b2 then _ else _) = _ => destruct b1; [|destruct b2] end.
  - exact (wrap_spec i ST_DATA_OTHER c4 rc c' m3 c m E ltac:(unfold okrc; tauto) HM4 HC4 (proj1 Hf3) Oh4 Is4 RQ4).
  - exact (wrap_spec i ST_DATA_OTHER _ rc c' m3 c m E ltac:(unfold okrc; tauto) HM4 HC4 (proj1 Hf3) Oh4 Is4 RQ4).
  - exact (wrap_spec i ST_OK c4 rc c' m3 c m E ltac:(unfold okrc; tauto) HM4 HC4 (proj1 Hf3) Oh4 Is4 RQ4).
Qed.
End RC.
