(* C07, faithfulness across htp_gzip_decompressor_restart: the body is coded in the OTHER of the two zlib formats than the one
   announced (Content-Encoding: deflate with a zlib-wrapped body as RFC 9110 has it, gzip announced and raw deflate sent, ...).
   The decoder for the announced window bits fails in the first inflate call of the layer's FIRST data call, restart #1 retries
   with the same window bits (nothing probed: the data does not start with a gzip header with flags), restart #2 switches the
   window bits; from there on the one-layer simulation of PDecomp.v applies. Same inflate contract, no axiom.
   The premise "the failing call is the first data call" is what known finding F12 is about (see the end of this file). *)
Require Import Htp.Model.Base Htp.Model.MBstr Htp.Model.MDecomp Htp.Proof.PDecomp Htp.Proof.PDecompLayers.
Require Htp.Proof.PDecompLayersLzma.   (* only for the listing at the end of this file *)
Local Open Scope Z_scope.

Section Restart.
Variable zst : Type.
Variable zinit : Z -> zst.
Variable zinflate : zst -> bytes -> nat -> zst * nat * bytes * Z.
Variable zvalid : zst -> bytes -> bytes -> Prop.
Hypothesis Hz2 : forall z s pp offered rest ao,
  zvalid z s pp -> s = offered ++ rest -> offered <> [] -> (0 < ao)%nat ->
  let '(z', cn, out, rc) := zinflate z offered ao in
  (cn <= length offered)%nat /\ (length out <= ao)%nat /\ exists p', pp = out ++ p' /\
  ((rc = c_dz_Z_OK /\ zvalid z' (skipn cn s) p' /\ (0 < cn + length out)%nat /\ skipn cn s <> []) \/
   (rc = c_dz_Z_STREAM_END /\ skipn cn s = [] /\ p' = [])).

Variable c : dz_cfg.
Variable t0 : Z * Z.
Hypothesis Hclock : forall k, dc_clock c k = t0.
Hypothesis Htlimit : 0 <= dc_tlimit c.
Hypothesis Hhook : forall k, dc_hook c k = c_HTP_OK.
Variable p : bytes.
Hypothesis Hbomb : Z.of_nat (length p) <= dc_bomb c.

(* A = the announced format, B = the format the body is really in *)
Variables fmtA fmtB wbA wbB : Z.
Hypothesis Hsel : (fmtA = c_dz_COMPRESSION_DEFLATE /\ fmtB = c_dz_COMPRESSION_GZIP /\ wbA = -15 /\ wbB = 15 + 32) \/
                  (fmtA = c_dz_COMPRESSION_GZIP /\ fmtB = c_dz_COMPRESSION_DEFLATE /\ wbA = 15 + 32 /\ wbB = -15).

Notation ask := (zask zst zinit zinflate).
Notation world := (dz_world zst).

Ltac wsimpl := cbn [w_o w_entity w_message w_events w_nhook w_nclock w_nbcb w_tbefore w_tspent w_tpass w_trace w_late
                    w_set_o w_set_entity w_set_message w_push_event w_tick_clock w_set_nbcb w_set_tbefore w_set_tspent
                    w_set_tpass w_set_trace w_set_late
                    dz_pass dz_restart dz_zinit dz_obuf dz_hlen dz_fed
                    dz_set_pass dz_set_restart dz_set_zinit dz_set_obuf dz_set_hlen dz_set_fed fst snd] in *.
Ltac csplit := repeat match goal with |- _ /\ _ => split end.

Lemma dzr_fmtB_gd : fmtB = c_dz_COMPRESSION_GZIP \/ fmtB = c_dz_COMPRESSION_DEFLATE.
Proof. destruct Hsel as [(_ & H & _)|(_ & H & _)]; auto. Qed.
Lemma dzr_fmtA_facts : (fmtA =? c_dz_COMPRESSION_LZMA) = false /\ (fmtA =? 0) = false /\ dz_is_coded fmtA = true.
Proof. destruct Hsel as [(H & _)|(H & _)]; subst fmtA; csplit; reflexivity. Qed.
Lemma dzr_fmtB_coded : (fmtB =? c_dz_COMPRESSION_LZMA) = false /\ (fmtB =? 0) = false.
Proof. destruct Hsel as [(_ & H & _)|(_ & H & _)]; subst fmtB; csplit; reflexivity. Qed.

Lemma dzr_avail_empty : (dz_BUF - 0 =? 0)%nat = false.
Proof. reflexivity. Qed.
Lemma dzr_avail_lt : (dz_BUF - 0 <? dz_BUF)%nat = false.
Proof. rewrite Nat.sub_0_r. apply Nat.ltb_irrefl. Qed.

(* one failing iteration: the decoder in state z rejects the offered input without output *)
Definition dzr_fails (z : zst) (input : bytes) : Prop :=
  let '(_, _, out, rc) := zinflate z input dz_BUF in
  firstn dz_BUF out = [] /\ rc <> c_dz_Z_OK /\ rc <> c_dz_Z_STREAM_END.

Lemma dzr_iter_fail next d l (w : world) b input' rc0 :
  dz_obuf l = [] -> dz_zinit l = fmtA \/ dz_zinit l = fmtB -> dz_fed l = false -> dzr_fails (w_o zst w) (b :: input') ->
  exists zF rcF,
    dz_iter zst ask c next d l [] w (b :: input') rc0 =
    match dz_restart_dec zst ask (dz_set_obuf l []) (dd_bytes d) (w_set_o zst (w_set_o zst w zF) zF) with
    | (l', w', Some consumed) => DzRestart zst l' [] (w_set_trace zst w' true) consumed rcF
    | (l', w', None) =>
      let '(w'', crc) := dz_callback zst c d w' in
      if negb (crc =? c_HTP_OK) then DzRet zst (dz_set_zinit l' 0) [] w'' c_HTP_ERROR
      else DzRet zst (dz_set_pass (dz_set_obuf (dz_set_zinit l' 0) []) true) [] w'' c_HTP_OK
    end.
Proof.
  intros Hob Hz Hfed Hf. unfold dzr_fails in Hf.
  assert (Hzf : (dz_zinit l =? c_dz_COMPRESSION_LZMA) = false /\ (dz_zinit l =? 0) = false).
  { destruct Hz as [Hz|Hz]; rewrite Hz; [destruct dzr_fmtA_facts as (H1 & H2 & _); auto|apply dzr_fmtB_coded]. }
  destruct Hzf as [Hnl Hn0].
  unfold dz_iter, dz_flush_full, dz_avail_out. rewrite Hob. cbn [length]. rewrite dzr_avail_empty.
  unfold dz_decode. rewrite Hnl, Hn0. cbn [negb]. unfold dz_avail_out. rewrite Hob. cbn [length]. rewrite Nat.sub_0_r.
  unfold dz_ask at 1. cbn [zask].
  destruct (zinflate (w_o zst w) (b :: input') dz_BUF) as [[[zF cnF] outF] rcF]. destruct Hf as (Hout & Hr1 & Hr2).
  exists zF, rcF. cbn [da_consumed da_out da_rc]. rewrite Hout. wsimpl. cbn [app].
  unfold dz_after, dz_avail_out. wsimpl. cbn [length]. rewrite dzr_avail_lt. cbn [andb].
  replace (rcF =? c_dz_Z_STREAM_END) with false by (symmetry; apply Z.eqb_neq; exact Hr2).
  replace (rcF =? c_dz_Z_OK) with false by (symmetry; apply Z.eqb_neq; exact Hr1). cbn [negb].
  unfold dz_fail_end. wsimpl. rewrite Hnl. unfold dz_ask at 1. cbn [zask]. wsimpl. rewrite Hfed.
  reflexivity.
Qed.

Lemma dzr_enter0 d : Z.of_nat (length (dd_bytes d)) <= c_dz_UINT32_MAX -> dz_enter d 0 = Some (dd_bytes d).
Proof.
  intros H. unfold dz_enter. cbn [skipn]. unfold dz_len.
  replace (length (dd_bytes d) <? 0)%nat with false by (symmetry; apply Nat.ltb_ge; lia).
  replace (Z.of_nat (length (dd_bytes d)) >? c_dz_UINT32_MAX) with false by (symmetry; rewrite Z.gtb_ltb; apply Z.ltb_ge; lia). reflexivity.
Qed.

(* the first data call: two failing iterations, then the decoder for the other window bits sees the chunk from its start *)
Lemma dzr_loop_first next d f b ch' (w : world) :
  dd_bytes d = b :: ch' -> dz_probe (b :: ch') = O -> Z.of_nat (length (b :: ch')) <= c_dz_UINT32_MAX ->
  w_o zst w = zinit wbA -> dzr_fails (zinit wbA) (b :: ch') ->
  exists w2 rc2,
    dz_loop zst ask c next (S (S f)) d (mk_dz_layer false 0 fmtA [] 0 false) [] w (b :: ch') 0 =
    dz_loop zst ask c next f d (mk_dz_layer false 2 fmtB [] 0 false) [] w2 (b :: ch') rc2 /\
    w_o zst w2 = zinit wbB /\ dz_sim zst w w2 /\ w_trace zst w2 = true.
Proof.
  intros Hd Hprobe Hu32 Ho Hf.
  assert (Hent : dz_enter d 0 = Some (b :: ch')) by (rewrite dzr_enter0; rewrite Hd; auto).
  set (l0 := mk_dz_layer false 0 fmtA [] 0 false).
  cbn [dz_loop].
  destruct (dzr_iter_fail next d l0 w b ch' 0) as (zF & rcF & Hit); auto.
  { rewrite Ho. exact Hf. }
  rewrite Hit. clear Hit.
  unfold dz_restart_dec at 1. subst l0. wsimpl. cbn [Nat.ltb Nat.leb Nat.eqb]. rewrite Hd, Hprobe.
  assert (HwA : (if fmtA =? c_dz_COMPRESSION_GZIP then 15 + 32 else -15) = wbA).
  { destruct Hsel as [(H1 & _ & H3 & _)|(H1 & _ & H3 & _)]; subst fmtA wbA; reflexivity. }
  rewrite HwA. unfold dz_ask at 1. cbn [zask da_rc]. rewrite Z.eqb_refl. cbn [negb]. wsimpl. rewrite Hent.
  set (w1 := w_set_trace zst (w_set_o zst (w_set_o zst (w_set_o zst w zF) zF) (zinit wbA)) true).
  set (l1 := dz_set_restart _ 1).
  destruct (dzr_iter_fail next d l1 w1 b ch' rcF) as (zF' & rcF' & Hit); [reflexivity|left; reflexivity|reflexivity|exact Hf|].
  rewrite Hit. clear Hit.
  unfold dz_restart_dec at 1. subst l1. wsimpl. cbn [Nat.ltb Nat.leb Nat.eqb]. rewrite Hd, Hprobe.
  destruct Hsel as [(H1 & H2 & H3 & H4)|(H1 & H2 & H3 & H4)]; subst fmtA fmtB wbA wbB.
  - replace (c_dz_COMPRESSION_DEFLATE =? c_dz_COMPRESSION_DEFLATE) with true by reflexivity.
    unfold dz_ask at 1. cbn [zask da_rc]. rewrite Z.eqb_refl. cbn [negb]. wsimpl. rewrite Hent.
    eexists. exists rcF'. split; [reflexivity|]. wsimpl. split; [reflexivity|]. split; [|reflexivity].
    unfold dz_sim. wsimpl. csplit; reflexivity.
  - replace (c_dz_COMPRESSION_GZIP =? c_dz_COMPRESSION_DEFLATE) with false by reflexivity.
    replace (c_dz_COMPRESSION_GZIP =? c_dz_COMPRESSION_GZIP) with true by reflexivity.
    unfold dz_ask at 1. cbn [zask da_rc]. rewrite Z.eqb_refl. cbn [negb]. wsimpl. rewrite Hent.
    eexists. exists rcF'. split; [reflexivity|]. wsimpl. split; [reflexivity|]. split; [|reflexivity].
    unfold dz_sim. wsimpl. csplit; reflexivity.
Qed.

(* between two body calls, after the restart: the layer runs format B whatever was announced *)
Definition dzr_TI (z : zst) (s_rem p_rem : bytes) (t : dz_tx zst) : Prop :=
  exists l, tx_chain zst t = [l] /\ dz_is_coded (tx_cep zst t) = true /\ dz_FI zst zvalid t0 fmtB p z s_rem p_rem l (w_set_tbefore zst (tx_w zst t) t0) /\
            dz_BW0 zst (tx_w zst t).
Definition dzr_TD (t : dz_tx zst) : Prop :=
  exists l, tx_chain zst t = [l] /\ dz_is_coded (tx_cep zst t) = true /\ dz_FD zst t0 fmtB p l (w_set_tbefore zst (tx_w zst t) t0) /\
            dz_BW0 zst (tx_w zst t).

(* the common part of a data call: from the outcome of the layer's loop to the transaction *)
Lemma dzr_wrap (t : dz_tx zst) l ch rest :
  tx_chain zst t = [l] -> dz_is_coded (tx_cep zst t) = true -> dz_pass l = false -> dz_BW0 zst (tx_w zst t) ->
  ch <> [] -> Z.of_nat (length ch) <= c_dz_UINT32_MAX ->
  (forall w2, dz_BW zst t0 w2 -> w_o zst w2 = w_o zst (tx_w zst t) -> w_events zst w2 = w_events zst (tx_w zst t) ->
              w_entity zst w2 = w_entity zst (tx_w zst t) ->
     exists l3 w3 r3, dz_loop zst ask c (fun (ls : list dz_layer) (_ : dz_data) (w : world) => (ls, w, c_HTP_ERROR)) (dc_fuel c) (dz_some ch) l [] w2 ch 0 = (l3, [], w3, r3) /\
       ((rest <> [] /\ exists z' p', dz_FI zst zvalid t0 fmtB p z' rest p' l3 w3) \/ (rest = [] /\ dz_FD zst t0 fmtB p l3 w3))) ->
  let t' := fst (dz_process_body_data zst ask c t 0 (Some ch)) in
  (rest <> [] /\ exists z' p', dzr_TI z' rest p' t') \/ (rest = [] /\ dzr_TD t').
Proof.
  intros Hch Hcep Hp HBW0 Hne Hu32 Hloop t'.
  assert (Ht' : t' = fst (dz_process_body_data zst ask c t 0 (Some ch))) by reflexivity. clearbody t'.
  unfold dz_process_body_data in Ht'. cbv zeta in Ht'. rewrite Hcep, Hch in Ht'.
  cbn [dz_data_of] in Ht'. unfold dz_gettimeofday at 1 in Ht'.
  set (w1 := w_set_message zst (tx_w zst t) (w_message zst (tx_w zst t) + 0 + dz_len (dz_some ch))) in *.
  set (w2 := w_set_nbcb zst (w_set_tbefore zst (w_tick_clock zst w1) (dc_clock c (w_nclock zst w1))) 0) in *.
  assert (HBW2 : dz_BW zst t0 w2) by (apply dz_BW_enter; [exact Hclock|exact HBW0]).
  cbn [length dz_decompress] in Ht'. unfold dz_layer_run in Ht'. rewrite Hp in Ht'. cbn [dd_null dz_some] in Ht'.
  assert (Henter : dz_enter (dz_some ch) 0 = Some ch) by (apply (dzr_enter0 (dz_some ch)); exact Hu32).
  rewrite Henter in Ht'.
  destruct (Hloop w2 HBW2 eq_refl eq_refl eq_refl) as (l3 & w3 & r3 & Hl & Hres).
  rewrite Hl in Ht'. cbn [dd_bytes dz_some] in Ht'. destruct ch as [|b ch']; [congruence|].
  unfold dz_gettimeofday in Ht'. cbn [fst] in Ht'.
  assert (HBW3 : dz_BW zst t0 w3) by (destruct Hres as [(_ & z' & p' & HF)|(_ & HF)]; [apply HF|apply HF]).
  rewrite (dz_after_call_benign zst c t0 Hclock Htlimit [] w3 HBW3) in Ht'. wsimpl.
  pose proof HBW3 as ((Hsp3 & Htp3) & Htb3). rewrite Htp3 in Ht'.
  subst t'.
  destruct Hres as [(Hr & z' & p' & HF)|(Hr & HF)]; [left|right]; split; auto.
  - exists z', p'. destruct HF as (Hv' & Ho' & Hp' & Hz' & Hpay' & Hlen' & _ & Hent').
    exists (dz_set_fed l3 true). cbn [tx_chain tx_cep tx_w]. csplit; auto.
    + unfold dz_FI. wsimpl. csplit; auto. unfold dz_BW, dz_BW0. wsimpl. auto.
    + unfold dz_BW0. wsimpl. split; reflexivity.
  - destruct HF as (Hp' & Hz' & Hob' & Hd' & _ & Hent').
    exists (dz_set_fed l3 true). cbn [tx_chain tx_cep tx_w]. csplit; auto.
    + unfold dz_FD. wsimpl. csplit; auto. unfold dz_BW, dz_BW0. wsimpl. auto.
    + unfold dz_BW0. wsimpl. split; reflexivity.
Qed.

Lemma dzr_devs_ext (w w' : world) : w_events zst w' = w_events zst w -> dz_devs w' = dz_devs w.
Proof. intros H. unfold dz_devs. rewrite H. reflexivity. Qed.

Lemma dzr_process_data (t : dz_tx zst) z ch rest p_rem :
  dzr_TI z (ch ++ rest) p_rem t -> ch <> [] -> Z.of_nat (length ch) <= c_dz_UINT32_MAX -> (length ch + length p < dc_fuel c)%nat ->
  let t' := fst (dz_process_body_data zst ask c t 0 (Some ch)) in
  (rest <> [] /\ exists z' p', dzr_TI z' rest p' t') \/ (rest = [] /\ dzr_TD t').
Proof.
  intros (l & Hch & Hcep & HFI & HBW0) Hne Hu32 Hfuel.
  destruct HFI as (Hv & Ho & Hp & Hz & Hpay & Hlen & _ & Hent). wsimpl.
  apply (dzr_wrap t l ch rest Hch Hcep Hp HBW0 Hne Hu32).
  intros w2 HBW2 Ho2 Hev2 He2.
  assert (HFI : dz_FI zst zvalid t0 fmtB p z (ch ++ rest) p_rem l w2).
  { assert (Hd2 : dz_devs w2 = dz_devs (w_set_tbefore zst (tx_w zst t) t0)) by (apply dzr_devs_ext; exact Hev2).
    unfold dz_FI. rewrite Hd2. split; [exact Hv|]. split; [rewrite Ho2; exact Ho|]. split; [exact Hp|]. split; [exact Hz|].
    split; [exact Hpay|]. split; [exact Hlen|]. split; [exact HBW2|]. rewrite He2. exact Hent. }
  assert (Hne2 : ch ++ rest <> []) by (destruct ch; [congruence|discriminate]).
  assert (Hf2 : (length ch + length p_rem < dc_fuel c)%nat).
  { rewrite <- Hpay in Hfuel. rewrite !app_length in Hfuel. lia. }
  destruct (dz_loop_faithful zst zinit zinflate zvalid Hz2 c t0 Hclock Htlimit Hhook fmtB dzr_fmtB_gd p Hbomb
              (fun (ls : list dz_layer) (_ : dz_data) (w : world) => (ls, w, c_HTP_ERROR)) (dz_some ch) (dc_fuel c) ch rest z p_rem l w2 0 HFI Hne2 Hf2)
    as (l3 & w3 & r3 & Hloop & _ & Hres).
  exists l3, w3, r3. split; [exact Hloop|exact Hres].
Qed.

(* the first data call: the restart *)
Lemma dzr_process_first (t : dz_tx zst) ch rest :
  tx_chain zst t = [mk_dz_layer false 0 fmtA [] 0 false] -> tx_cep zst t = fmtA -> w_o zst (tx_w zst t) = zinit wbA ->
  w_events zst (tx_w zst t) = [] -> w_entity zst (tx_w zst t) = 0 -> dz_BW0 zst (tx_w zst t) ->
  ch <> [] -> Z.of_nat (length ch) <= c_dz_UINT32_MAX -> dz_probe ch = O -> dzr_fails (zinit wbA) ch ->
  zvalid (zinit wbB) (ch ++ rest) p -> (length ch + length p + 2 < dc_fuel c)%nat ->
  let t' := fst (dz_process_body_data zst ask c t 0 (Some ch)) in
  (rest <> [] /\ exists z' p', dzr_TI z' rest p' t') \/ (rest = [] /\ dzr_TD t').
Proof.
  intros Hch Hcep Ho Hev Hent HBW0 Hne Hu32 Hprobe Hfail Hv Hfuel.
  assert (Hcoded : dz_is_coded (tx_cep zst t) = true) by (rewrite Hcep; apply dzr_fmtA_facts).
  apply (dzr_wrap t _ ch rest Hch Hcoded eq_refl HBW0 Hne Hu32).
  intros w2 HBW2 Ho2 Hev2 He2.
  destruct (dc_fuel c) as [|[|f]] eqn:Hf; [lia|lia|].
  destruct ch as [|b ch']; [congruence|].
  destruct (dzr_loop_first (fun (ls : list dz_layer) (_ : dz_data) (w : world) => (ls, w, c_HTP_ERROR)) (dz_some (b :: ch')) f b ch' w2 eq_refl Hprobe Hu32)
    as (w2' & rc2 & Hl & Ho2' & Hsim & _).
  { rewrite Ho2. exact Ho. }
  { exact Hfail. }
  rewrite Hl.
  assert (HFI : dz_FI zst zvalid t0 fmtB p (zinit wbB) ((b :: ch') ++ rest) p (mk_dz_layer false 2 fmtB [] 0 false) w2').
  { assert (Hd : dz_devs w2' = []).
    { rewrite (dz_sim_devs zst _ _ Hsim). unfold dz_devs. rewrite Hev2, Hev. reflexivity. }
    unfold dz_FI. wsimpl. rewrite Hd. cbn [app length]. csplit; auto.
    - pose proof dzl_BUF_pos. lia.
    - apply (dz_sim_BW zst t0 w2 w2' Hsim HBW2).
    - destruct Hsim as (He & _). rewrite He, He2, Hent. reflexivity. }
  destruct (dz_loop_faithful zst zinit zinflate zvalid Hz2 c t0 Hclock Htlimit Hhook fmtB dzr_fmtB_gd p Hbomb
              (fun (ls : list dz_layer) (_ : dz_data) (w : world) => (ls, w, c_HTP_ERROR)) (dz_some (b :: ch')) f (b :: ch') rest (zinit wbB) p _ w2' rc2 HFI)
    as (l3 & w3 & r3 & Hloop & _ & Hres).
  { discriminate. }
  { lia. }
  exists l3, w3, r3. split; [exact Hloop|exact Hres].
Qed.

Lemma dzr_process_null (t : dz_tx zst) :
  dzr_TD t ->
  let t' := fst (dz_process_body_data zst ask c t 0 None) in
  dz_devs (tx_w zst t') = p /\ tx_chain zst t' = [].
Proof.
  intros (l & Hch & Hcep & HFD & HBW0) t'. destruct HFD as (Hp & Hz & Hob & Hd & _ & Hent). wsimpl.
  assert (Ht' : t' = fst (dz_process_body_data zst ask c t 0 None)) by reflexivity. clearbody t'.
  unfold dz_process_body_data in Ht'. cbv zeta in Ht'. rewrite Hcep, Hch in Ht'.
  cbn [dz_data_of] in Ht'. unfold dz_gettimeofday at 1 in Ht'.
  set (w1 := w_set_message zst (tx_w zst t) (w_message zst (tx_w zst t) + 0 + dz_len dz_null)) in *.
  set (w2 := w_set_nbcb zst (w_set_tbefore zst (w_tick_clock zst w1) (dc_clock c (w_nclock zst w1))) 0) in *.
  assert (HBW2 : dz_BW zst t0 w2) by (apply dz_BW_enter; [exact Hclock|exact HBW0]).
  cbn [length dz_decompress] in Ht'. unfold dz_layer_run in Ht'. rewrite Hp, Hob in Ht'. cbn [dd_null dz_null] in Ht'.
  assert (Hent2 : w_entity zst w2 = Z.of_nat (length (dz_devs w2))) by exact Hent.
  destruct (dz_callback_benign zst c t0 Hclock Htlimit Hhook [] dz_null w2 HBW2 Hent2) as (w3 & Hcb & HBW3 & Ho3 & Hd3 & He3 & Hm3).
  { left. replace (dz_devs w2) with (dz_devs (w_set_tbefore zst (tx_w zst t) t0)) by reflexivity. rewrite Hd. unfold dz_len. cbn. lia. }
  rewrite Hcb, Z.eqb_refl in Ht'. cbn [negb] in Ht'.
  unfold dz_gettimeofday in Ht'. rewrite (dz_after_call_benign zst c t0 Hclock Htlimit [] w3 HBW3) in Ht'. cbn [fst] in Ht'.
  pose proof HBW3 as ((Hsp3 & Htp3) & Htb3). wsimpl. rewrite Htp3 in Ht'.
  subst t'. cbn [tx_w tx_chain]. split; [|reflexivity].
  rewrite (dz_sim_devs zst _ _ (dz_destroy_sim zst ask _ _)).
  unfold dz_devs in *. wsimpl. rewrite Hd3. cbn [dd_bytes dz_null]. rewrite app_nil_r. exact Hd.
Qed.

Lemma dzr_calls chunks : forall (t : dz_tx zst) z p_rem,
  dzr_TI z (concat chunks) p_rem t -> concat chunks <> [] ->
  Forall (fun ch => ch <> [] /\ Z.of_nat (length ch) <= c_dz_UINT32_MAX /\ (length ch + length p + 2 < dc_fuel c)%nat) chunks ->
  dzr_TD (dz_calls zst ask c t (map (fun ch => (0, Some ch)) chunks)).
Proof.
  induction chunks as [|ch r IH]; intros t z p_rem HTI Hne Hall; [cbn in Hne; congruence|].
  inversion Hall as [|? ? (Hc1 & Hc2 & Hc3) Hall']; subst. cbn [map dz_calls concat] in *.
  destruct (dzr_process_data t z ch (concat r) p_rem HTI Hc1 Hc2 ltac:(lia)) as [(Hr & z' & p' & HTI')|(Hr & HTD)].
  - eapply IH; eauto.
  - destruct r as [|ch2 r2]; [exact HTD|].
    inversion Hall' as [|? ? (Hd1 & _) _]; subst. cbn [concat] in Hr. destruct ch2; [congruence|discriminate].
Qed.

Hypothesis Henabled : dc_enabled c = true.

(* L2: the body is in format B, format A was announced; every chunking whose FIRST piece makes the decoder for A fail at once *)
Theorem dzr_restart_faithful ce ch1 chunks (o : zst) :
  (fmtA = c_dz_COMPRESSION_GZIP /\ ce = s_gzip) \/ (fmtA = c_dz_COMPRESSION_DEFLATE /\ ce = s_deflate) ->
  zvalid (zinit wbB) (concat (ch1 :: chunks)) p ->
  dz_probe ch1 = O -> dzr_fails (zinit wbA) ch1 ->
  Forall (fun ch => ch <> [] /\ Z.of_nat (length ch) <= c_dz_UINT32_MAX /\ (length ch + length p + 2 < dc_fuel c)%nat) (ch1 :: chunks) ->
  dz_devs (tx_w zst (fst (dz_run zst ask c (Some ce) (map (fun ch => (0, Some ch)) (ch1 :: chunks) ++ [(0, None)]) o))) = p.
Proof.
  intros Hce Hv Hprobe Hfail Hall. unfold dz_run.
  assert (Hsingle : (fmtA = c_dz_COMPRESSION_GZIP /\ ce = s_gzip /\ wbA = 15 + 32) \/ (fmtA = c_dz_COMPRESSION_DEFLATE /\ ce = s_deflate /\ wbA = -15)).
  { destruct Hsel as [(H1 & _ & H3 & _)|(H1 & _ & H3 & _)]; destruct Hce as [(H5 & H6)|(H5 & H6)]; subst; try discriminate; auto. }
  rewrite (dz_headers_single zst zinit zinflate c fmtA Henabled ce wbA o Hsingle). cbn [fst tx_w tx_chain tx_cep].
  set (tx0 := mk_dz_tx zst [mk_dz_layer false 0 fmtA [] 0 false] fmtA (w_set_o zst (dz_world0 zst o) (zinit wbA)) false).
  inversion Hall as [|? ? (Hc1 & Hc2 & Hc3) Hall']; subst.
  cbn [map app dz_calls]. cbn [concat] in Hv.
  assert (HBW0 : dz_BW0 zst (tx_w zst tx0)) by (unfold dz_BW0; subst tx0; cbn; auto).
  pose proof (dzr_process_first tx0 ch1 (concat chunks) eq_refl eq_refl eq_refl eq_refl eq_refl HBW0 Hc1 Hc2 Hprobe Hfail Hv Hc3) as H1.
  cbv zeta in H1. set (t1 := fst (dz_process_body_data zst ask c tx0 0 (Some ch1))) in *.
  rewrite dz_calls_app.
  assert (HTD : dzr_TD (dz_calls zst ask c t1 (map (fun ch => (0, Some ch)) chunks))).
  { destruct H1 as [(Hr & z' & p' & HTI)|(Hr & HTD)].
    - apply (dzr_calls chunks t1 z' p' HTI Hr Hall').
    - destruct chunks as [|ch2 r2]; [exact HTD|].
      inversion Hall' as [|? ? (Hd1 & _) _]; subst. cbn [concat] in Hr. destruct ch2; [congruence|discriminate]. }
  set (t2 := dz_calls zst ask c t1 (map (fun ch => (0, Some ch)) chunks)) in *.
  pose proof (dzr_process_null t2 HTD) as [Hd Hc]. cbv zeta in Hd, Hc.
  change (dz_calls zst ask c t2 [(0, None)]) with (fst (dz_process_body_data zst ask c t2 0 None)).
  rewrite Hc. cbn [dz_destroy]. exact Hd.
Qed.
End Restart.

(* ------------------------------------------------------------------ a toy pair of formats with a restart (non-vacuity, and F12) *)
(* both formats: two magic bytes [9; m] (m = 1 for window bits -15, m = 2 for 15+32), then the run-length records of
   PDecompLayers.v. Offered both magic bytes at once the decoder checks them in one call; offered only the first it
   accepts it (Z_OK, "need more input") and checks the second in the next call -- as zlib does with a zlib header offered
   to a raw-deflate decoder in small pieces. *)
Inductive dzr_toy := DM (m : N) | DM' (m : N) | DBody (z : dzl_toy).
Definition dzr_toy_init (wb : Z) : dzr_toy := DM (if wb =? 15 + 32 then 2%N else 1%N).
Definition dzr_toy_inflate (z : dzr_toy) (offered : bytes) (ao : nat) : dzr_toy * nat * bytes * Z :=
  match z with
  | DM m => match offered with
            | [] => (z, O, [], c_dz_Z_OK)
            | [x] => if (x =? 9)%N then (DM' m, 1%nat, [], c_dz_Z_OK) else (z, O, [], c_dz_Z_DATA_ERROR)
            | x :: y :: _ => if (x =? 9)%N && (y =? m)%N then (DBody TyH, 2%nat, [], c_dz_Z_OK) else (z, O, [], c_dz_Z_DATA_ERROR)
            end
  | DM' m => match offered with
             | [] => (z, O, [], c_dz_Z_OK)
             | y :: _ => if (y =? m)%N then (DBody TyH, 1%nat, [], c_dz_Z_OK) else (z, O, [], c_dz_Z_DATA_ERROR)
             end
  | DBody b => let '(b', cn, out, rc) := dzl_toy_inflate b offered ao in (DBody b', cn, out, rc)
  end.
Definition dzr_toy_valid (z : dzr_toy) (s pp : bytes) : Prop :=
  match z with
  | DM m => exists r, s = 9%N :: m :: r /\ dzl_toy_dec None r = Some pp
  | DM' m => exists r, s = m :: r /\ dzl_toy_dec None r = Some pp
  | DBody b => dzl_toy_valid b s pp
  end.

Lemma dzr_toy_contract : forall z s pp offered rest ao,
  dzr_toy_valid z s pp -> s = offered ++ rest -> offered <> [] -> (0 < ao)%nat ->
  let '(z', cn, out, rc) := dzr_toy_inflate z offered ao in
  (cn <= length offered)%nat /\ (length out <= ao)%nat /\ exists p', pp = out ++ p' /\
  ((rc = c_dz_Z_OK /\ dzr_toy_valid z' (skipn cn s) p' /\ (0 < cn + length out)%nat /\ skipn cn s <> []) \/
   (rc = c_dz_Z_STREAM_END /\ skipn cn s = [] /\ p' = [])).
Proof.
  intros z s pp offered rest ao Hv Hs Hne Hao. destruct z as [m|m|b]; cbn [dzr_toy_valid] in Hv.
  - destruct Hv as (r & Hsr & Hd). destruct offered as [|x [|y o']]; [congruence| |]; cbn [dzr_toy_inflate app] in *.
    + rewrite Hsr in Hs. injection Hs as Hx Hrest. subst x. rewrite !N.eqb_refl. cbn [length skipn]. split; [lia|]. split; [lia|]. exists pp. split; [reflexivity|].
      left. split; [reflexivity|]. rewrite Hsr. cbn [skipn]. split; [|split; [lia|discriminate]]. cbn [dzr_toy_valid]. exists r. auto.
    + rewrite Hsr in Hs. injection Hs as Hx Hy Hrest. subst x y. rewrite !N.eqb_refl. cbn [andb length skipn]. split; [lia|]. split; [lia|].
      exists pp. split; [reflexivity|]. left. split; [reflexivity|]. rewrite Hsr. cbn [skipn]. split; [exact Hd|]. split; [lia|].
      intros Hn. rewrite Hn in Hd. discriminate.
  - destruct Hv as (r & Hsr & Hd). destruct offered as [|y o']; [congruence|]. cbn [dzr_toy_inflate app] in *.
    rewrite Hsr in Hs. injection Hs as Hy Hrest. subst y. rewrite !N.eqb_refl. cbn [length skipn]. split; [lia|]. split; [lia|].
    exists pp. split; [reflexivity|]. left. split; [reflexivity|]. rewrite Hsr. cbn [skipn]. split; [exact Hd|]. split; [lia|].
    intros Hn. rewrite Hn in Hd. discriminate.
  - cbn [dzr_toy_inflate]. pose proof (dzl_toy_contract b s pp offered rest ao Hv Hs Hne Hao) as H.
    destruct (dzl_toy_inflate b offered ao) as [[[b' cn] out] rc]. exact H.
Qed.

Definition dzr_ex_cfg : dz_cfg := mk_dz_cfg true 100000000 2 1 1048576 100000 200 (fun _ => (0, 0)) (fun _ => c_HTP_OK).
Definition dzr_ex_p : bytes := [1;1;1;2;3;3;7]%N.
Definition dzr_ex_sB : bytes := [9; 2]%N ++ dzl_toy_enc dzr_ex_p.    (* the body, in the format of window bits 15+32 *)
Definition dzr_ex_sA : bytes := [9; 1]%N ++ dzl_toy_enc dzr_ex_p.    (* the body, in the format of window bits -15 *)
Definition dzr_ex_run (ce : bytes) (chunks : list bytes) : dz_tx dzr_toy :=
  fst (dz_run dzr_toy (zask dzr_toy dzr_toy_init dzr_toy_inflate) dzr_ex_cfg (Some ce) (map (fun ch => (0, Some ch)) chunks ++ [(0, None)]) (DM 0)).

(* the theorem applies: "deflate" announced, body in the other format, three pieces, the first of two bytes *)
Example dzr_restart_example :
  dz_devs (tx_w _ (dzr_ex_run s_deflate [firstn 2 dzr_ex_sB; firstn 5 (skipn 2 dzr_ex_sB); skipn 7 dzr_ex_sB])) = dzr_ex_p.
Proof.
  unfold dzr_ex_run.
  apply (dzr_restart_faithful dzr_toy dzr_toy_init dzr_toy_inflate dzr_toy_valid dzr_toy_contract dzr_ex_cfg (0, 0))
    with (fmtA := c_dz_COMPRESSION_DEFLATE) (fmtB := c_dz_COMPRESSION_GZIP) (wbA := -15) (wbB := 15 + 32); try reflexivity.
  - cbn [dc_tlimit dzr_ex_cfg]. lia.
  - apply Z.leb_le. reflexivity.
  - left. repeat split; reflexivity.
  - right. split; reflexivity.
  - cbn [dzr_toy_valid dzr_toy_init]. eexists. split; reflexivity.
  - vm_compute. repeat split; discriminate.
  - repeat (apply Forall_cons; [split; [discriminate|split; [apply Z.leb_le; vm_compute; reflexivity|apply Nat.ltb_lt; vm_compute; reflexivity]]|]).
    apply Forall_nil.
Qed.

(* both directions, whole, every single cut and every pair of cuts in which the first piece has at least two bytes *)
Example dzr_restart_all_cuts :
  forallb (fun cs : bytes * bytes =>
    forallb (fun chunks => dzl_beq (dz_devs (tx_w _ (dzr_ex_run (fst cs) chunks))) dzr_ex_p)
            ([snd cs] :: filter (fun chunks => match chunks with ch1 :: _ => (2 <=? length ch1)%nat | [] => false end)
                                (dzl_cuts1 (snd cs) ++ dzl_cuts2 (snd cs))))
    [(s_deflate, dzr_ex_sB); (s_gzip, dzr_ex_sA)] = true.
Proof. vm_cast_no_check (eq_refl true). Qed.

(* F12: the premise "the decoder for the announced format fails in the FIRST call" is needed. Cut after the first byte: the
   decoder for the announced format accepts the first piece (Z_OK), fails on the second, the restarted decoders see the
   second piece only: the payload is lost (the second piece comes out raw), and the model's late flag is set. *)
Example dzr_F12_premise_needed :
  let split := dzr_ex_run s_deflate [firstn 1 dzr_ex_sB; skipn 1 dzr_ex_sB] in
  let whole := dzr_ex_run s_deflate [dzr_ex_sB] in
  dz_devs (tx_w _ whole) = dzr_ex_p /\ w_late _ (tx_w _ whole) = false /\ w_trace _ (tx_w _ whole) = true /\
  dz_devs (tx_w _ split) = skipn 1 dzr_ex_sB /\ dz_devs (tx_w _ split) <> dzr_ex_p /\ w_late _ (tx_w _ split) = true /\
  ~ dzr_fails dzr_toy dzr_toy_inflate (dzr_toy_init (-15)) (firstn 1 dzr_ex_sB) /\
  dzr_fails dzr_toy dzr_toy_inflate (dzr_toy_init (-15)) dzr_ex_sB.
Proof. vm_compute. repeat split; try reflexivity; try discriminate. intros (_ & H & _). apply H. reflexivity. Qed.

(* ================================================================== FINAL THEOREMS of PDecompLayers*.v (for re-export in Props/Properties_C07.v)
   L1  dzl_layers_faithful      n layers from the Content-Encoding header on, every chunking (PDecompLayers.v)
       dzl_two_layers_faithful  its two-layer instance with the two contract instances written out
       dzl_chain_faithful       n layers from the chain as built (dz_calls + dz_destroy)
       dzl_headers_n            "f1, ..., fn" builds one fresh layer and one decoder per format, in order (n <= limit or limit = 0)
       dzl_toy_contract         the nestable toy decoder satisfies the inflate contract
   L2  dzr_restart_faithful     body in the other zlib format than announced, every chunking whose first piece fails at once
       dzr_toy_contract         the toy pair of formats satisfies the inflate contract
   L3  dzz_lzma_faithful        one LZMA layer (PDecompLayersLzma.v): 13 header bytes buffered across calls, every chunking
       dzz_toy_contract, dzz_toy_contract0   the toy LZMA decoder satisfies the two contract clauses
   Examples: dzz_lzma_example, dzz_lzma_all_cuts, dzz_lzma_memlimit_needed,
             dzl_two_layers_example, dzl_two_layers_all_cuts, dzl_two_layers_buffer_crossing, dzl_three_layers_all_cuts,
             dzl_four_layers_limit_four, dzr_restart_example, dzr_restart_all_cuts, dzr_F12_premise_needed *)
Print Assumptions dzl_layers_faithful.
Print Assumptions dzl_two_layers_faithful.
Print Assumptions dzl_chain_faithful.
Print Assumptions dzl_headers_n.
Print Assumptions dzl_toy_contract.
Print Assumptions dzr_restart_faithful.
Print Assumptions dzr_toy_contract.
Print Assumptions dzr_F12_premise_needed.
Print Assumptions PDecompLayersLzma.dzz_lzma_faithful.
Print Assumptions PDecompLayersLzma.dzz_toy_contract.
Print Assumptions PDecompLayersLzma.dzz_toy_contract0.
