(* C06, part K (response side): size line / last-chunk line as segments, chunk data, end-of-data line, and the
   chunked decode(encode) theorem for the response direction. *)
Require Import Htp.Model.MConnTypes Htp.Model.MBstr Htp.Model.MTxCommon Htp.Model.MResLine Htp.Model.MTxRes Htp.Model.MRes.
Require Import Htp.Spec.SBody Htp.Proof.PBody Htp.Proof.PBodyRes Htp.Proof.PBodyResRun Htp.Proof.PBodyResId Htp.Proof.PBodyResLine
               Htp.Proof.PBodyResChunked.
Local Open Scope Z_scope.

Section Res.
Variable cb : cb_oracle.
Variable g : cfg.
Hypothesis cb_ok : forall n, cb H_RESPONSE_BODY_DATA n = CB_OK.

(* ================= C06_line_assembly, response side ================= *)
Theorem bd_rs_line_assembly o rem c lrest rest t :
  bd_rs_inv o c -> c_out_state c = RES_BODY_CHUNKED_LENGTH -> k_consume (c_out c) = k_read (c_out c) ->
  bd_rs_rest c ++ concat rem = lrest ++ LF :: rest -> bd_no_lf lrest = true ->
  (length (bd_rs_pending c) + length lrest + 1 <= g_field_limit_hard g)%nat ->
  Forall (fun d => d <> []) rem -> tx_slot c o = Some t ->
  let line := bd_rs_pending c ++ lrest ++ [LF] in
  let v := bd_rs_line_value line in
  0 <= v ->
  exists c2 rem2 c',
    bd_rs_reach cb g c rem c2 rem2 /\
    rs_state_fn cb g (c_out_state c2) c2 = (ST_OK, c') /\
    c_out_chunked_length c' = v /\ c_out_state c' = bd_rs_line_state v /\
    bd_rs_rest c' ++ concat rem2 = rest /\ Forall (fun d => d <> []) rem2 /\
    c_events c' = c_events c /\ c_out_body_data_left c' = c_out_body_data_left c /\
    c_out_tx c' = Some o /\ c_out_status c' = c_out_status c2 /\ bd_rs_inv o c2 /\
    k_consume (c_out c') = k_read (c_out c') /\ k_buf (c_out c') = None /\ k_header (c_out c') = None /\ k_receiver_hook (c_out c') = None /\
    (exists d, k_data (c_out c') = Some d /\ k_len (c_out c') = length d /\ (k_read (c_out c') <= length d)%nat) /\
    exists t', tx_slot c' o = Some t' /\ t_hook_response_body t' = t_hook_response_body t /\ t_res_cep t' = t_res_cep t /\
               t_response_entity_len t' = t_response_entity_len t /\
               t_response_message_len t' = t_response_message_len t + Z.of_nat (length line) /\
               (v = 0 -> t_response_progress t' = c_HTP_RESPONSE_TRAILER).
Proof.
  intros Inv Hs Hc Hw Hnl Hhard Hrem Hl line v Hv.
  assert (Hsf : rs_probe_scan (bd_rs_pending c ++ lrest ++ [LF]) = true) by (apply bd_value_scan; exact Hv).
  destruct (bd_rs_assemble cb g o rem c lrest rest Inv Hs Hc Hw Hnl Hsf Hhard Hrem)
    as (c2 & rem2 & l2 & tl2 & R2 & I2 & S2 & C2 & Rs2 & N2 & Pr2 & B2 & W2 & F2 & (Sm1 & Sm2 & Sm3 & Sm4)).
  assert (Hl2 : tx_slot c2 o = Some t) by (rewrite Sm2; exact Hl).
  assert (Hh2 : (length (bd_rs_pending c2) + length l2 + 1 <= g_field_limit_hard g)%nat).
  { assert (length (bd_rs_pending c2 ++ l2) = length (bd_rs_pending c ++ lrest)) by (rewrite B2; reflexivity).
    rewrite !app_length in H. lia. }
  assert (Hline : bd_rs_pending c2 ++ l2 ++ [LF] = line) by (unfold line; rewrite !app_assoc, B2; reflexivity).
  assert (Hv2 : 0 <= bd_rs_line_value (bd_rs_pending c2 ++ l2 ++ [LF])) by (rewrite Hline; exact Hv).
  destruct (bd_rs_length_final g o t c2 l2 tl2 I2 S2 C2 Rs2 N2 Pr2 Hh2 Hl2 Hv2)
    as (c' & Hfn & A1 & A2 & A3 & A4 & A5 & A6 & A8 & A9 & A10 & A11 & A12 & A13 & A14 & t' & T1 & T2 & T2' & T3 & T4 & T5).
  rewrite Hline in *. fold v in A5, A6, T5.
  destruct (bs_data _ _ I2) as (d & Hd & Hlen & Hrd).
  assert (Hrd' : (k_read (c_out c2) + length l2 + 1 <= length d)%nat).
  { unfold bd_rs_rest in Rs2. rewrite Hd in Rs2. assert (length (skipn (k_read (c_out c2)) d) = length (l2 ++ LF :: tl2)) by (rewrite Rs2; reflexivity).
    rewrite skipn_length, app_length in H. cbn in H. lia. }
  exists c2, rem2, c'. bd_rsplits; auto.
  - rewrite S2. exact Hfn.
  - unfold bd_rs_rest. rewrite A8, Hd, A10. unfold bd_rs_rest in Rs2. rewrite Hd in Rs2.
    replace (k_read (c_out c2) + length l2 + 1)%nat with (k_read (c_out c2) + (length l2 + 1))%nat by lia.
    rewrite <- bd_skipn_skipn', Rs2. change (LF :: tl2) with ([LF] ++ tl2). rewrite app_assoc, skipn_app.
    replace (length l2 + 1 - length (l2 ++ [LF]))%nat with 0%nat by (rewrite app_length; cbn; lia).
    rewrite skipn_all2 by (rewrite app_length; cbn; lia). cbn. exact W2.
  - rewrite A3. exact Sm1.
  - rewrite A4. exact Sm3.
  - exists d. rewrite A8, A9, A10. bd_rsplits; auto.
  - exists t'. bd_rsplits; auto.
Qed.

(* ================= a chunk-size line with a positive value, as a segment ================= *)
Lemma bd_rs_line_seg o rem c lrest rest :
  bd_rs_inv o c -> bd_rs_clean c -> c_out_state c = RES_BODY_CHUNKED_LENGTH ->
  bd_rs_rest c ++ concat rem = lrest ++ LF :: rest -> bd_no_lf lrest = true ->
  (length lrest + 1 <= g_field_limit_hard g)%nat -> Forall (fun d => d <> []) rem ->
  0 < bd_rs_line_value (lrest ++ [LF]) ->
  exists c' rem',
    bd_rs_seg cb g o c rem c' rem' [] (Z.of_nat (length lrest + 1)) /\
    c_out_state c' = RES_BODY_CHUNKED_DATA /\ c_out_chunked_length c' = bd_rs_line_value (lrest ++ [LF]) /\
    bd_rs_rest c' ++ concat rem' = rest /\ c_out_body_data_left c' = c_out_body_data_left c.
Proof.
  intros Inv (Cl1 & Cl2) Hs Hw Hnl Hhard Hrem Hv.
  destruct (bs_live _ _ Inv) as (t & Hl & Hh & Hcep).
  assert (Hhard' : (length (bd_rs_pending c) + length lrest + 1 <= g_field_limit_hard g)%nat) by (rewrite Cl2; cbn; lia).
  assert (Hv0 : 0 <= bd_rs_line_value (bd_rs_pending c ++ lrest ++ [LF])) by (rewrite Cl2; cbn [app]; lia).
  destruct (bd_rs_line_assembly o rem c lrest rest t Inv Hs Cl1 Hw Hnl Hhard' Hrem Hl Hv0)
    as (c2 & rem2 & c' & R2 & Hfn & A1 & A2 & A3 & A4 & A5 & A6 & A7 & A8 & I2 & A9 & A10 & A11 & A12 & (d & D1 & D2 & D3) & t' & T1 & T2 & T2' & T3 & T4 & T5).
  rewrite Cl2 in *. cbn [app] in *.
  set (v := bd_rs_line_value (lrest ++ [LF])) in *.
  assert (Est : bd_rs_line_state v = RES_BODY_CHUNKED_DATA) by (unfold bd_rs_line_state; apply Z.ltb_lt in Hv; rewrite Hv; reflexivity).
  rewrite Est in A2.
  assert (Inv' : bd_rs_inv o c').
  { constructor; auto.
    - exists t'. split; [exact T1|]. split; congruence.
    - rewrite A8. apply (bs_status _ _ I2).
    - exists d. auto. }
  destruct (bd_rs_hsc_misc c') as (M1 & M2 & M3).
  exists (bd_rs_hsc c'), rem2. bd_rsplits.
  - constructor.
    + eapply bd_rs_reach_trans; [exact R2|]. eapply bd_sr_iter; [|apply bd_sr_refl].
      apply bd_rs_iter_ok; [exact Hfn|apply (bs_status _ _ Inv')|rewrite A2; reflexivity].
    + eapply bd_rs_eqv_inv; [apply bd_rs_eqv_hsc|exact Inv'].
    + eapply bd_rs_eqv_clean; [apply bd_rs_eqv_hsc|]. split; [assumption|]. unfold bd_rs_pending. rewrite A10. reflexivity.
    + exact A4.
    + exists []. rewrite (bd_rs_eqv_events _ _ (bd_rs_eqv_hsc c')), A5. bd_rsplits; reflexivity.
    + intros t0 Ht0. rewrite Hl in Ht0. inversion Ht0; subst t0. exists t'. rewrite (bd_rs_eqv_slot _ _ o (bd_rs_eqv_hsc c')).
      bd_rsplits; [exact T1|rewrite T3; cbn; lia|rewrite T4, app_length; reflexivity].
  - rewrite M1. exact A2.
  - rewrite M3. exact A1.
  - rewrite (bd_rs_eqv_rest _ _ (bd_rs_eqv_hsc c')). exact A3.
  - rewrite M2. exact A6.
Qed.

(* rs_handle_state_change after the last-chunk line (new state RES_HEADERS): only the raw-data receiver is armed *)
Lemma bd_rs_hsc_headers c o :
  k_receiver_hook (c_out c) = None -> c_out_tx c = Some o ->
  exists c'', rs_handle_state_change cb c = (ST_OK, c'') /\ c_out_state c'' = c_out_state c /\ c_events c'' = c_events c /\
    (forall j, tx_slot c'' j = tx_slot c j) /\ bd_rs_rest c'' = bd_rs_rest c /\ c_out_tx c'' = c_out_tx c /\
    c_out_chunked_length c'' = c_out_chunked_length c.
Proof.
  intros Hr Hi. unfold rs_handle_state_change.
  destruct (match c_out_state_previous c with Some p => res_state_eqb p (c_out_state c) | None => false end).
  { exists c. bd_rsplits; auto. }
  destruct (res_state_eqb (c_out_state c) RES_HEADERS).
  2:{ eexists. split; [reflexivity|]. bd_rsplits; try reflexivity; try (intros j; apply bd_slot_ext; reflexivity). }
  rewrite Hi.
  assert (Hset : forall h, res_receiver_set cb h c = (ST_OK, rs_set_out (fun k => k <| k_receiver_hook := Some h |> <| k_receiver := k_read k |>) c)).
  { intros h. unfold res_receiver_set, res_receiver_finalize_clear. rewrite Hr. reflexivity. }
  destruct (t_response_progress (rs_tx c) =? c_HTP_RESPONSE_HEADERS); [|destruct (t_response_progress (rs_tx c) =? c_HTP_RESPONSE_TRAILER)];
    rewrite ?Hset; (eexists; split; [reflexivity|]; bd_rsplits; try reflexivity; try exact Hi; try (intros j; apply bd_slot_ext; reflexivity)).
Qed.

(* ================= the last-chunk line (value 0) ================= *)
Lemma bd_rs_last_line o rem c lrest rest t :
  bd_rs_inv o c -> bd_rs_clean c -> c_out_state c = RES_BODY_CHUNKED_LENGTH ->
  bd_rs_rest c ++ concat rem = lrest ++ LF :: rest -> bd_no_lf lrest = true ->
  (length lrest + 1 <= g_field_limit_hard g)%nat -> Forall (fun d => d <> []) rem ->
  bd_rs_line_value (lrest ++ [LF]) = 0 -> tx_slot c o = Some t ->
  exists c' rem' t',
    bd_rs_reach cb g c rem c' rem' /\ c_out_state c' = RES_HEADERS /\ c_out_chunked_length c' = 0 /\
    bd_rs_rest c' ++ concat rem' = rest /\ Forall (fun d => d <> []) rem' /\
    c_events c' = c_events c /\ c_out_tx c' = Some o /\
    tx_slot c' o = Some t' /\ t_response_progress t' = c_HTP_RESPONSE_TRAILER /\
    t_response_entity_len t' = t_response_entity_len t /\
    t_response_message_len t' = t_response_message_len t + Z.of_nat (length lrest + 1).
Proof.
  intros Inv (Cl1 & Cl2) Hs Hw Hnl Hhard Hrem Hv Hl.
  assert (Hhard' : (length (bd_rs_pending c) + length lrest + 1 <= g_field_limit_hard g)%nat) by (rewrite Cl2; cbn; lia).
  assert (Hv0 : 0 <= bd_rs_line_value (bd_rs_pending c ++ lrest ++ [LF])) by (rewrite Cl2; cbn [app]; lia).
  destruct (bd_rs_line_assembly o rem c lrest rest t Inv Hs Cl1 Hw Hnl Hhard' Hrem Hl Hv0)
    as (c2 & rem2 & c' & R2 & Hfn & A1 & A2 & A3 & A4 & A5 & A6 & A7 & A8 & I2 & A9 & A10 & A11 & A12 & (d & D1 & D2 & D3) & t' & T1 & T2 & T2' & T3 & T4 & T5).
  rewrite Cl2 in *. cbn [app] in *. rewrite Hv in *.
  change (bd_rs_line_state 0) with RES_HEADERS in A2.
  destruct (bd_rs_hsc_headers c' o A12 A7) as (c'' & Hh & B1 & B2 & B3 & B4 & B5 & B6).
  exists c'', rem2, t'. bd_rsplits; auto.
  - eapply bd_rs_reach_trans; [exact R2|]. eapply bd_sr_iter; [|apply bd_sr_refl].
    unfold bd_rs_iter. rewrite Hfn. rewrite A8, (proj1 (bs_status _ _ I2)), Hh. reflexivity.
  - rewrite B1. exact A2.
  - rewrite B6. exact A1.
  - rewrite B4. exact A3.
  - rewrite B2. exact A5.
  - rewrite B5. exact A7.
  - rewrite B3. exact T1.
  - rewrite T4, app_length. reflexivity.
Qed.

(* ================= chunk data: RES_BODY_CHUNKED_DATA ================= *)
Lemma bd_rs_chunked_data_finish o t dd (n : Z) c c1 (r : st * connp) :
  bd_rs_inv o c -> tx_slot c o = Some t ->
  bd_rs_stepped o t dd c c1 -> c_out_chunked_length c1 = n -> c_out_body_data_left c1 = c_out_body_data_left c ->
  r = (let c2 := c1 <| c_out_chunked_length := c_out_chunked_length c1 - Z.of_nat (length dd) |> in
       if c_out_chunked_length c2 =? 0 then (ST_OK, rs_set_state RES_BODY_CHUNKED_DATA_END c2) else (ST_DATA, c2)) ->
  (n - Z.of_nat (length dd) <> 0 -> exists c',
     r = (ST_DATA, c') /\ bd_rs_stepped o t dd c c' /\ c_out_chunked_length c' = n - Z.of_nat (length dd) /\
     c_out_body_data_left c' = c_out_body_data_left c) /\
  (n - Z.of_nat (length dd) = 0 -> exists c' t',
     r = (ST_OK, c') /\ bd_rs_inv o c' /\
     (forall rest, bd_rs_rest c = dd ++ rest -> bd_rs_rest c' = rest) /\ (bd_rs_clean c -> bd_rs_clean c') /\
     c_events c' = mkev H_RESPONSE_BODY_DATA o (Some dd) false None :: c_events c /\
     tx_slot c' o = Some t' /\ t_response_entity_len t' = t_response_entity_len t + Z.of_nat (length dd) /\
     t_response_message_len t' = t_response_message_len t + Z.of_nat (length dd) /\
     c_out_chunked_length c' = 0 /\ c_out_state c' = RES_BODY_CHUNKED_DATA_END /\ c_out_body_data_left c' = c_out_body_data_left c).
Proof.
  intros Inv Hl Hst K1 L1 H. cbv zeta in H. rewrite K1 in H.
  set (c2 := c1 <| c_out_chunked_length := n - Z.of_nat (length dd) |>) in *.
  assert (E2 : bd_rs_eqv c1 c2 /\ c_out_chunked_length c2 = n - Z.of_nat (length dd) /\ c_out_body_data_left c2 = c_out_body_data_left c1 /\
               c_out_state c2 = c_out_state c1) by (repeat split).
  clearbody c2. destruct E2 as (E2 & K2 & L2 & S2).
  pose proof (bd_rs_stepped_eqv o t dd c c1 c2 E2 S2 Hst) as Hst2.
  rewrite K2 in H.
  split.
  - intros Hne. apply Z.eqb_neq in Hne. rewrite Hne in H.
    exists c2. split; [exact H|]. split; [exact Hst2|]. split; [exact K2|congruence].
  - intros He. rewrite He in H. cbn [Z.eqb] in H.
    set (c3 := rs_set_state RES_BODY_CHUNKED_DATA_END c2) in *.
    assert (E3 : bd_rs_eqv c2 c3 /\ c_out_body_data_left c3 = c_out_body_data_left c2 /\ c_out_chunked_length c3 = c_out_chunked_length c2 /\
                 c_out_state c3 = RES_BODY_CHUNKED_DATA_END) by (repeat split).
    clearbody c3. destruct E3 as (E3 & L3 & K3 & S3).
    destruct Hst2 as [I2 R2 C2 V2 T2 _].
    destruct (bd_tx_res_lens_get t (Z.of_nat (length dd))) as (Q1 & Q2).
    eexists c3, _. split; [exact H|]. bd_rsplits.
    + eapply bd_rs_eqv_inv; eauto.
    + intros rest Hr. rewrite (bd_rs_eqv_rest _ _ E3). auto.
    + intros Hc. eapply bd_rs_eqv_clean; eauto.
    + rewrite (bd_rs_eqv_events _ _ E3). exact V2.
    + rewrite (bd_rs_eqv_slot _ _ o E3). exact T2.
    + rewrite Q1. lia.
    + rewrite Q2. lia.
    + rewrite K3, K2. exact He.
    + exact S3.
    + congruence.
Qed.

Lemma bd_rs_chunked_data_step_abs o t c :
  bd_rs_inv o c -> tx_slot c o = Some t -> 0 < c_out_chunked_length c ->
  let n := c_out_chunked_length c in
  let dd := firstn (Z.to_nat n) (bd_rs_rest c) in
  (dd = [] -> rs_RES_BODY_CHUNKED_DATA cb c = (ST_DATA, c)) /\
  (dd <> [] -> n - Z.of_nat (length dd) <> 0 -> exists c',
     rs_RES_BODY_CHUNKED_DATA cb c = (ST_DATA, c') /\ bd_rs_stepped o t dd c c' /\
     c_out_chunked_length c' = n - Z.of_nat (length dd) /\ c_out_body_data_left c' = c_out_body_data_left c) /\
  (dd <> [] -> n - Z.of_nat (length dd) = 0 -> exists c' t',
     rs_RES_BODY_CHUNKED_DATA cb c = (ST_OK, c') /\ bd_rs_inv o c' /\
     (forall rest, bd_rs_rest c = dd ++ rest -> bd_rs_rest c' = rest) /\ (bd_rs_clean c -> bd_rs_clean c') /\
     c_events c' = mkev H_RESPONSE_BODY_DATA o (Some dd) false None :: c_events c /\
     tx_slot c' o = Some t' /\ t_response_entity_len t' = t_response_entity_len t + Z.of_nat (length dd) /\
     t_response_message_len t' = t_response_message_len t + Z.of_nat (length dd) /\
     c_out_chunked_length c' = 0 /\ c_out_state c' = RES_BODY_CHUNKED_DATA_END /\ c_out_body_data_left c' = c_out_body_data_left c).
Proof.
  intros Inv Hl Hn n dd.
  assert (Hsplit : bd_rs_rest c = dd ++ skipn (Z.to_nat n) (bd_rs_rest c)) by (symmetry; apply firstn_skipn).
  destruct (bd_rs_advance_stepped o t dd _ c Inv Hl Hsplit) as (Hst & L1 & K1).
  destruct Inv as [Hi (t0 & Hl0 & Hh & Hc) Hr Hhd Hstat Hdat]. rewrite Hl in Hl0. inversion Hl0; subst t0.
  assert (Hfn : rs_RES_BODY_CHUNKED_DATA cb c =
    if (length dd =? 0)%nat then (ST_DATA, c)
    else let c1 := rs_advance (length dd) (bd_rs_deliver o t (Some dd) (length dd) c) in
         let c2 := c1 <| c_out_chunked_length := c_out_chunked_length c1 - Z.of_nat (length dd) |> in
         if c_out_chunked_length c2 =? 0 then (ST_OK, rs_set_state RES_BODY_CHUNKED_DATA_END c2) else (ST_DATA, c2)).
  { unfold rs_RES_BODY_CHUNKED_DATA. rewrite (bd_rs_bytes_to_consume c _ Hdat Hn). fold n. fold dd.
    destruct (length dd =? 0)%nat eqn:E0; [reflexivity|]. apply Nat.eqb_neq in E0.
    destruct Hdat as (d & Hd & Hlen & Hrd). unfold rs_body_slice. rewrite Hd.
    assert (Hdd : firstn (length dd) (skipn (k_read (c_out c)) d) = dd) by (subst dd; unfold bd_rs_rest; rewrite Hd; apply bd_firstn_len).
    rewrite Hdd. cbv beta iota zeta.
    pose proof (bd_rs_process_body cb cb_ok o t c (Some dd) (length dd) Hi Hl Hh Hc E0) as Hp. unfold bytes in Hp |- *. rewrite Hp.
    reflexivity. }
  set (c1 := rs_advance (length dd) (bd_rs_deliver o t (Some dd) (length dd) c)) in *. fold n in K1. clearbody c1.
  split; [intros E; rewrite E in Hfn; exact Hfn|].
  assert (G : dd <> [] -> rs_RES_BODY_CHUNKED_DATA cb c =
    (let c2 := c1 <| c_out_chunked_length := c_out_chunked_length c1 - Z.of_nat (length dd) |> in
       if c_out_chunked_length c2 =? 0 then (ST_OK, rs_set_state RES_BODY_CHUNKED_DATA_END c2) else (ST_DATA, c2))).
  { intros E. assert (E0 : (length dd =? 0)%nat = false) by (apply Nat.eqb_neq; destruct dd; [congruence|discriminate]).
    rewrite E0 in Hfn. exact Hfn. }
  assert (Inv : bd_rs_inv o c) by (constructor; auto; exists t; auto).
  split; intros E; destruct (bd_rs_chunked_data_finish o t dd n c c1 _ Inv Hl Hst K1 L1 (G E)) as (A & B); auto.
Qed.

(* ================= chunk data under every chunking ================= *)
Lemma bd_rs_chunkdata_finish o c body rest rem1 rest1 :
  bd_rs_inv o c -> bd_rs_clean c -> c_out_state c = RES_BODY_CHUNKED_DATA ->
  c_out_chunked_length c = Z.of_nat (length body) -> body <> [] ->
  bd_rs_rest c = body ++ rest1 -> Forall (fun d => d <> []) rem1 -> rest1 ++ concat rem1 = rest ->
  exists c' rem', bd_rs_seg cb g o c rem1 c' rem' body (Z.of_nat (length body)) /\ c_out_state c' = RES_BODY_CHUNKED_DATA_END /\
                  c_out_chunked_length c' = 0 /\ bd_rs_rest c' ++ concat rem' = rest /\
                  c_out_body_data_left c' = c_out_body_data_left c.
Proof.
  intros Inv Cl Hs Hleft Hne Hsplit Hrem1 Hw1.
  assert (Hpos : 0 < c_out_chunked_length c) by (rewrite Hleft; destruct body; [congruence|cbn; lia]).
  destruct (bs_live _ _ Inv) as (t & Hl & Hh & Hc).
  destruct (bd_rs_chunked_data_step_abs o t c Inv Hl Hpos) as (_ & _ & Hstep). rewrite Hleft, Nat2Z.id in Hstep.
  assert (Hdd : firstn (length body) (bd_rs_rest c) = body) by (rewrite Hsplit, firstn_app, Nat.sub_diag, firstn_all; cbn; apply app_nil_r).
  rewrite Hdd in Hstep.
  assert (Hfn : rs_state_fn cb g (c_out_state c) c = rs_RES_BODY_CHUNKED_DATA cb c) by (rewrite Hs; reflexivity).
  destruct (Hstep Hne (Z.sub_diag _)) as (c1 & t1 & Hst & I1 & R1 & C1 & E1 & T1 & X1 & X2 & L1 & S1 & K1).
  destruct (bd_rs_hsc_misc c1) as (M1 & M2 & M3).
  exists (bd_rs_hsc c1), rem1. bd_rsplits.
  - constructor.
    + eapply bd_sr_iter; [|apply bd_sr_refl]. apply bd_rs_iter_ok; [rewrite Hfn; exact Hst|apply (bs_status _ _ I1)|rewrite S1; reflexivity].
    + eapply bd_rs_eqv_inv; [apply bd_rs_eqv_hsc|exact I1].
    + eapply bd_rs_eqv_clean; [apply bd_rs_eqv_hsc|exact (C1 Cl)].
    + exact Hrem1.
    + eexists. rewrite (bd_rs_eqv_events _ _ (bd_rs_eqv_hsc c1)), E1.
      split; [change (?a :: c_events c) with ([a] ++ c_events c); reflexivity|].
      split; [cbn; apply app_nil_r|reflexivity].
    + intros t0 Ht0. rewrite Hl in Ht0. inversion Ht0; subst t0. exists t1. rewrite (bd_rs_eqv_slot _ _ o (bd_rs_eqv_hsc c1)). auto.
  - rewrite M1. exact S1.
  - rewrite M3. exact L1.
  - rewrite (bd_rs_eqv_rest _ _ (bd_rs_eqv_hsc c1)), (R1 _ Hsplit). exact Hw1.
  - rewrite M2. exact K1.
Qed.

(* ================= (2), response twin: RES_BODY_CHUNKED_DATA fed any chunking of body ++ rest ================= *)
Theorem bd_rs_chunkdata_seg o : forall rem c body rest,
  bd_rs_inv o c -> bd_rs_clean c -> c_out_state c = RES_BODY_CHUNKED_DATA ->
  c_out_chunked_length c = Z.of_nat (length body) -> body <> [] ->
  Forall (fun d => d <> []) rem ->
  bd_rs_rest c ++ concat rem = body ++ rest ->
  exists c' rem',
    bd_rs_seg cb g o c rem c' rem' body (Z.of_nat (length body)) /\
    c_out_state c' = RES_BODY_CHUNKED_DATA_END /\ c_out_chunked_length c' = 0 /\
    bd_rs_rest c' ++ concat rem' = rest /\
    c_out_body_data_left c' = c_out_body_data_left c.
Proof.
  induction rem as [|d' rem IH]; intros c body rest Inv Cl Hs Hleft Hne Hrem Hw.
  - cbn [concat] in Hw. rewrite app_nil_r in Hw.
    apply (bd_rs_chunkdata_finish o c body rest [] rest); auto. apply app_nil_r.
  - assert (Hpos : 0 < c_out_chunked_length c) by (rewrite Hleft; destruct body; [congruence|cbn; lia]).
    destruct (bs_live _ _ Inv) as (t & Hl & Hh & Hc).
    destruct (bd_rs_chunked_data_step_abs o t c Inv Hl Hpos) as (Hstep0 & Hstep1 & _); rewrite Hleft, Nat2Z.id in Hstep0, Hstep1.
    set (dd := firstn (length body) (bd_rs_rest c)) in *.
    assert (Hfn : rs_state_fn cb g (c_out_state c) c = rs_RES_BODY_CHUNKED_DATA cb c) by (rewrite Hs; reflexivity).
    pose proof (Forall_inv Hrem) as Hd'. pose proof (Forall_inv_tail Hrem) as Hrem'. cbn beta in Hd'.
    destruct (Nat.le_gt_cases (length body) (length (bd_rs_rest c))) as [Hle|Hgt].
    + assert (Hdd : dd = body).
      { subst dd. assert (firstn (length body) (bd_rs_rest c ++ concat (d' :: rem)) = firstn (length body) (body ++ rest)) by (rewrite Hw; reflexivity).
        rewrite firstn_app in H. replace (length body - length (bd_rs_rest c))%nat with 0%nat in H by lia. cbn [firstn] in H. rewrite app_nil_r in H.
        rewrite H, firstn_app, Nat.sub_diag, firstn_all. cbn. apply app_nil_r. }
      assert (Hsplit : bd_rs_rest c = body ++ skipn (length body) (bd_rs_rest c)).
      { rewrite <- Hdd at 1. subst dd. symmetry. apply firstn_skipn. }
      apply (bd_rs_chunkdata_finish o c body rest (d' :: rem) _ Inv Cl Hs Hleft Hne Hsplit Hrem).
      rewrite Hsplit in Hw at 1. rewrite <- app_assoc in Hw. apply app_inv_head in Hw. exact Hw.
    + assert (Hdd : dd = bd_rs_rest c) by (subst dd; apply firstn_all2; lia).
      destruct (bd_app_prefix' (bd_rs_rest c) body (concat (d' :: rem)) rest Hw) as (body' & Hb & Hw'); [lia|].
      assert (Hb'ne : body' <> []) by (intros ->; rewrite app_nil_r in Hb; rewrite Hb in Hgt; lia).
      destruct (bd_rs_rest c) as [|r0 rr] eqn:Er.
      * specialize (Hstep0 Hdd). clear Hstep1.
        set (c1 := bd_res_begin d' (rs_set_out_status c_HTP_STREAM_DATA c)).
        destruct (bd_rs_begin_misc d' (rs_set_out_status c_HTP_STREAM_DATA c)) as (B1 & B2 & B3 & B4 & B5 & B6 & B7 & B8).
        assert (I1 : bd_rs_inv o c1) by (apply bd_rs_inv_begin; apply bd_rs_inv_status; exact Inv).
        assert (C1 : bd_rs_clean c1) by (apply B2; apply Cl).
        assert (S1 : c_out_state c1 = RES_BODY_CHUNKED_DATA) by (unfold c1; rewrite B4; exact Hs).
        assert (L1 : c_out_chunked_length c1 = Z.of_nat (length body)) by (unfold c1; rewrite B6; exact Hleft).
        assert (W1 : bd_rs_rest c1 ++ concat rem = body ++ rest) by (unfold c1; rewrite B1; exact Hw).
        destruct (IH c1 body rest I1 C1 S1 L1 Hne Hrem' W1) as (c' & rem' & Seg & S' & F' & W' & O').
        exists c', rem'. bd_rsplits; auto.
        { destruct Seg as [A B C D (evs & E1 & E2 & E3) H]. constructor; [|exact B|exact C|exact D| |].
          - eapply bd_sr_next; [|exact A]. apply bd_rs_iter_data; [rewrite Hfn; exact Hstep0|apply (bs_rcv _ _ Inv)].
          - exists evs. split; [rewrite E1; unfold c1; rewrite B3; reflexivity|split; assumption].
          - intros t0 Ht0. apply H. unfold c1. rewrite B8. rewrite <- Ht0. apply bd_slot_ext; reflexivity. }
        all: try (rewrite O'; unfold c1; rewrite B5; reflexivity).
      * clear Hstep0. set (rc := r0 :: rr) in *. rewrite Hdd in Hstep1.
        assert (Hlt : Z.of_nat (length body) - Z.of_nat (length rc) <> 0) by lia.
        destruct (Hstep1 ltac:(discriminate) Hlt) as (cd & Hstep & [Invd Rd Cld Evd Sld Std] & Lf & Kf).
        set (c1 := bd_res_begin d' (rs_set_out_status c_HTP_STREAM_DATA cd)).
        destruct (bd_rs_begin_misc d' (rs_set_out_status c_HTP_STREAM_DATA cd)) as (B1 & B2 & B3 & B4 & B5 & B6 & B7 & B8).
        assert (I1 : bd_rs_inv o c1) by (apply bd_rs_inv_begin; apply bd_rs_inv_status; exact Invd).
        assert (C1 : bd_rs_clean c1) by (apply B2; apply (Cld Cl)).
        assert (S1 : c_out_state c1 = RES_BODY_CHUNKED_DATA) by (unfold c1; rewrite B4; cbn; congruence).
        assert (L1 : c_out_chunked_length c1 = Z.of_nat (length body')).
        { unfold c1. rewrite B6. cbn. rewrite Lf. rewrite Hb at 1. rewrite app_length. lia. }
        assert (W1 : bd_rs_rest c1 ++ concat rem = body' ++ rest) by (unfold c1; rewrite B1; exact Hw').
        destruct (IH c1 body' rest I1 C1 S1 L1 Hb'ne Hrem' W1) as (c' & rem' & Seg & S' & F' & W' & O').
        exists c', rem'. bd_rsplits; auto.
        { destruct Seg as [A B C D (evs & E1 & E2 & E3) H].
          assert (Hsl : tx_slot c1 o = Some (t <| t_response_message_len ::= Z.add (Z.of_nat (length rc)) |>
                                               <| t_response_entity_len ::= Z.add (Z.of_nat (length rc)) |>)).
          { unfold c1. rewrite B8. rewrite <- Sld. apply bd_slot_ext; reflexivity. }
          constructor; [|exact B|exact C|exact D| |].
          - eapply bd_sr_next; [|exact A]. apply bd_rs_iter_data; [rewrite Hfn; exact Hstep|apply (bs_rcv _ _ Invd)].
          - exists (evs ++ [mkev H_RESPONSE_BODY_DATA o (Some rc) false None]).
            split; [rewrite E1; unfold c1; rewrite B3; cbn; rewrite Evd, <- app_assoc; reflexivity|].
            split; [rewrite bd_delivered_app', E2; cbn; rewrite app_nil_r; symmetry; exact Hb|].
            unfold bd_evs in *. rewrite filter_app, E3. reflexivity.
          - intros t0 Ht0. rewrite Hl in Ht0. inversion Ht0; subst t0.
            destruct (H _ Hsl) as (t' & T1 & T2 & T3). exists t'. split; [exact T1|]. rewrite T2, T3.
            destruct (bd_tx_res_lens_get t (Z.of_nat (length rc))) as (Q1 & Q2). rewrite Q1, Q2.
            assert (HL : length body = (length rc + length body')%nat) by (rewrite Hb at 1; apply app_length).
            rewrite HL, Nat2Z.inj_add. split; lia. }
        all: try (rewrite O'; unfold c1; rewrite B5; cbn; exact Kf).
Qed.

(* ================= the line that ends the chunk data: RES_BODY_CHUNKED_DATA_END ================= *)
Lemma bd_tx_rmsg_set t f :
  t_response_message_len (t <| t_response_message_len ::= f |>) = f (t_response_message_len t) /\
  t_response_entity_len (t <| t_response_message_len ::= f |>) = t_response_entity_len t /\
  t_hook_response_body (t <| t_response_message_len ::= f |>) = t_hook_response_body t /\
  t_res_cep (t <| t_response_message_len ::= f |>) = t_res_cep t.
Proof. repeat split. Qed.
Lemma bd_rs_rest_taken k nb c tl pre : bd_rs_rest c = pre ++ tl -> length pre = k -> bd_rs_rest (bd_rs_taken k nb c) = tl.
Proof. apply bd_rs_rest_copied. Qed.

Lemma bd_rs_data_end_loop o : forall pre c fuel tl t,
  bd_rs_inv o c -> tx_slot c o = Some t ->
  bd_rs_rest c = pre ++ tl -> bd_no_lf pre = true -> (length (bd_rs_rest c) < fuel)%nat ->
  match tl with [] => True | b :: _ => b = LF end ->
  let k := (length pre + match tl with [] => 0 | _ => 1 end)%nat in
  exists c',
    rs_chunked_data_end_loop fuel c = (match tl with [] => ST_DATA | _ => ST_OK end, c') /\
    c_out_tx c' = Some o /\ c_out_status c' = c_out_status c /\ c_events c' = c_events c /\
    c_out_body_data_left c' = c_out_body_data_left c /\ c_out_chunked_length c' = c_out_chunked_length c /\
    c_out_state c' = match tl with [] => c_out_state c | _ => RES_BODY_CHUNKED_LENGTH end /\
    k_data (c_out c') = k_data (c_out c) /\ k_len (c_out c') = k_len (c_out c) /\
    k_read (c_out c') = (k_read (c_out c) + k)%nat /\ k_consume (c_out c') = (k_consume (c_out c) + k)%nat /\
    k_buf (c_out c') = k_buf (c_out c) /\ k_header (c_out c') = k_header (c_out c) /\ k_receiver_hook (c_out c') = k_receiver_hook (c_out c) /\
    exists t', tx_slot c' o = Some t' /\ t_hook_response_body t' = t_hook_response_body t /\ t_res_cep t' = t_res_cep t /\
               t_response_entity_len t' = t_response_entity_len t /\
               t_response_message_len t' = t_response_message_len t + Z.of_nat k.
Proof.
  induction pre as [|a pre IH]; intros c fuel tl t Inv Hl Hr Hnl Hn Htl k.
  all: assert (W : bd_rs_wf c) by (destruct (bs_data _ _ Inv) as (d & A & B & C); exists d; auto).
  - cbn [app] in Hr. destruct tl as [|b tl].
    + exists c. split.
      { destruct fuel; [lia|]. cbn [rs_chunked_data_end_loop]. unfold rs_next_byte. rewrite (bd_rs_rest_nil c Hr W). reflexivity. }
      subst k. cbn [length]. rewrite !Nat.add_0_r. bd_rsplits; auto; try apply (bs_tx _ _ Inv).
      exists t. bd_rsplits; auto. cbn. lia.
    + subst b. destruct fuel as [|fuel]; [lia|].
      set (c1 := bd_rs_taken 1 (Some LF) c).
      assert (Hl1 : tx_slot c1 o = Some t) by (rewrite <- Hl; apply bd_slot_ext; reflexivity).
      assert (Hup : rs_otx (fun t => t <| t_response_message_len ::= Z.succ |>) c1 = bd_set_tx o (t <| t_response_message_len ::= Z.succ |>) c1).
      { unfold rs_otx. change (c_out_tx c1) with (c_out_tx c). rewrite (bs_tx _ _ Inv). apply bd_tx_upd_eq. exact Hl1. }
      eexists. split.
      { cbn [rs_chunked_data_end_loop]. rewrite (bd_rs_next_byte c LF tl Hr W). fold c1. rewrite Hup.
        unfold rs_nb_is, rs_nb. cbn. reflexivity. }
      subst k. cbn [length Nat.add]. unfold rs_set_state. bd_rsplits; try reflexivity; try apply (bs_tx _ _ Inv).
      eexists. split; [apply (bd_slot_set _ _ _ _ Hl1)|]. destruct (bd_tx_rmsg_set t Z.succ) as (Q1 & Q2 & Q3 & Q4). rewrite Q1, Q2, Q3, Q4.
      bd_rsplits; auto; try (change (Z.of_nat 1) with 1; lia).
  - cbn [app] in Hr. cbn [bd_no_lf forallb] in Hnl. apply andb_true_iff in Hnl. destruct Hnl as (Ha & Hnl).
    rewrite Hr in Hn. cbn [length] in Hn. destruct fuel as [|fuel]; [lia|].
    set (c1 := bd_rs_taken 1 (Some a) c).
    assert (Hl1 : tx_slot c1 o = Some t) by (rewrite <- Hl; apply bd_slot_ext; reflexivity).
    set (t1 := t <| t_response_message_len ::= Z.succ |>).
    assert (Hup : rs_otx (fun t => t <| t_response_message_len ::= Z.succ |>) c1 = bd_set_tx o t1 c1).
    { unfold rs_otx. change (c_out_tx c1) with (c_out_tx c). rewrite (bs_tx _ _ Inv). apply bd_tx_upd_eq. exact Hl1. }
    set (c2 := bd_set_tx o t1 c1).
    assert (Hl2 : tx_slot c2 o = Some t1) by (apply (bd_slot_set _ _ _ _ Hl1)).
    assert (Hr2 : bd_rs_rest c2 = pre ++ tl).
    { change (bd_rs_rest c2) with (bd_rs_rest c1). apply (bd_rs_rest_taken 1 _ c _ [a]); [exact Hr|reflexivity]. }
    destruct (bd_tx_rmsg_set t Z.succ) as (Q1 & Q2 & Q3 & Q4). fold t1 in Q1, Q2, Q3, Q4.
    assert (Inv2 : bd_rs_inv o c2).
    { destruct Inv as [A (t0 & B1 & B2 & B3) C D E (d & F1 & F2 & F3)]. rewrite Hl in B1. inversion B1; subst t0.
      constructor; try assumption.
      - exists t1. split; [exact Hl2|]. split; congruence.
      - exists d. cbn. bd_rsplits; auto.
        unfold bd_rs_rest in Hr. rewrite F1 in Hr.
        assert (length (skipn (k_read (c_out c)) d) = length (a :: pre ++ tl)) by (rewrite Hr; reflexivity).
        rewrite skipn_length in H. cbn in H. lia. }
    destruct (IH c2 fuel tl t1 Inv2 Hl2 Hr2 Hnl) as (c' & Hloop & A1 & A2 & A3 & A4 & A5 & A6 & A7 & A8 & A9 & A10 & A11 & A12 & A13 & t' & T1 & T2 & T2' & T3 & T4);
      [rewrite Hr2; lia|exact Htl|].
    exists c'. split.
    { cbn [rs_chunked_data_end_loop]. rewrite (bd_rs_next_byte c a _ Hr W). fold c1. rewrite Hup. fold c2.
      assert (Hna : rs_nb_is c2 LF = false) by (unfold rs_nb_is, rs_nb; cbn; apply negb_true_iff in Ha; exact Ha).
      rewrite Hna. exact Hloop. }
    subst k. cbn [length]. bd_rsplits; auto.
    + rewrite A9. cbn. lia.
    + rewrite A10. cbn. lia.
    + exists t'. bd_rsplits; try congruence. rewrite T4, Q1. lia.
Qed.

Lemma bd_rs_inv_from_facts o c c' t' :
  bd_rs_inv o c -> c_out_tx c' = Some o -> c_out_status c' = c_out_status c ->
  k_data (c_out c') = k_data (c_out c) -> k_len (c_out c') = k_len (c_out c) ->
  (forall d, k_data (c_out c) = Some d -> (k_read (c_out c') <= length d)%nat) ->
  k_header (c_out c') = k_header (c_out c) -> k_receiver_hook (c_out c') = k_receiver_hook (c_out c) ->
  tx_slot c' o = Some t' -> t_hook_response_body t' = 0%nat -> t_res_cep t' = c_HTP_COMPRESSION_NONE -> bd_rs_inv o c'.
Proof.
  intros [A B C D E (d & F1 & F2 & F3)] H1 H2 H3 H4 H5 H6 H7 H8 H9 H10.
  constructor; [exact H1|exists t'; auto|congruence|congruence|rewrite H2; exact E|].
  exists d. bd_rsplits; try congruence. apply H5. exact F1.
Qed.
Lemma bd_rs_rest_len c d : k_data (c_out c) = Some d -> length (bd_rs_rest c) = (length d - k_read (c_out c))%nat.
Proof. intros H. unfold bd_rs_rest. rewrite H. apply skipn_length. Qed.
Lemma bd_rs_rest_moved c c' k pre tl : k_data (c_out c') = k_data (c_out c) -> k_read (c_out c') = (k_read (c_out c) + k)%nat ->
  bd_rs_rest c = pre ++ tl -> length pre = k -> bd_rs_rest c' = tl.
Proof.
  intros H1 H2 H3 H4. unfold bd_rs_rest in *. rewrite H1, H2. destruct (k_data (c_out c)) as [d|].
  - rewrite <- bd_skipn_skipn', H3, skipn_app, <- H4, Nat.sub_diag, skipn_all. reflexivity.
  - destruct pre; [cbn in H3; subst; reflexivity|discriminate].
Qed.

Lemma bd_rs_data_end_finish o c e rest tl rem1 :
  bd_rs_inv o c -> bd_rs_clean c -> c_out_state c = RES_BODY_CHUNKED_DATA_END -> bd_no_lf e = true ->
  bd_rs_rest c = e ++ LF :: tl -> Forall (fun d => d <> []) rem1 -> tl ++ concat rem1 = rest ->
  exists c' rem', bd_rs_seg cb g o c rem1 c' rem' [] (Z.of_nat (length e + 1)) /\
    c_out_state c' = RES_BODY_CHUNKED_LENGTH /\ bd_rs_rest c' ++ concat rem' = rest /\
    c_out_body_data_left c' = c_out_body_data_left c /\ c_out_chunked_length c' = c_out_chunked_length c.
Proof.
  intros Inv Cl Hs Hnl Hr Hrem1 Hw1.
  destruct (bs_live _ _ Inv) as (t & Hl & Hh & Hcep).
  destruct (bs_data _ _ Inv) as (d & Hd & Hlen & Hrd).
  assert (Hfn : rs_state_fn cb g (c_out_state c) c = rs_RES_BODY_CHUNKED_DATA_END c) by (rewrite Hs; reflexivity).
  assert (Hn : (length (bd_rs_rest c) < rs_bytes_fuel c)%nat) by (unfold rs_bytes_fuel; rewrite (bd_rs_rest_len c d Hd), Hlen; lia).
  destruct (bd_rs_data_end_loop o e c _ (LF :: tl) t Inv Hl Hr Hnl Hn eq_refl)
    as (c' & Hloop & A1 & A2 & A3 & A4 & A5 & A6 & A7 & A8 & A9 & A10 & A11 & A12 & A13 & t' & T1 & T2 & T2' & T3 & T4).
  assert (Inv' : bd_rs_inv o c').
  { apply (bd_rs_inv_from_facts o c c' t' Inv A1 A2 A7 A8); auto; try congruence.
    intros d0 Hd0. rewrite Hd in Hd0. inversion Hd0; subst d0. rewrite A9.
    pose proof (bd_rs_rest_len c d Hd) as HL. rewrite Hr, app_length in HL. cbn [length] in HL. lia. }
  destruct (bd_rs_hsc_misc c') as (M1 & M2 & M3).
  exists (bd_rs_hsc c'), rem1. bd_rsplits.
  - constructor.
    + eapply bd_sr_iter; [|apply bd_sr_refl]. apply bd_rs_iter_ok; [rewrite Hfn; exact Hloop|rewrite A2; apply (bs_status _ _ Inv)|rewrite A6; reflexivity].
    + eapply bd_rs_eqv_inv; [apply bd_rs_eqv_hsc|exact Inv'].
    + eapply bd_rs_eqv_clean; [apply bd_rs_eqv_hsc|]. destruct Cl as (Cl1 & Cl2). split; [rewrite A9, A10; lia|unfold bd_rs_pending in *; rewrite A11; exact Cl2].
    + exact Hrem1.
    + exists []. rewrite (bd_rs_eqv_events _ _ (bd_rs_eqv_hsc c')), A3. bd_rsplits; reflexivity.
    + intros t0 Ht0. rewrite Hl in Ht0. inversion Ht0; subst t0. exists t'. rewrite (bd_rs_eqv_slot _ _ o (bd_rs_eqv_hsc c')).
      bd_rsplits; [exact T1|rewrite T3; cbn; lia|rewrite T4; reflexivity].
  - rewrite M1. exact A6.
  - rewrite (bd_rs_eqv_rest _ _ (bd_rs_eqv_hsc c')), (bd_rs_rest_moved c c' _ (e ++ [LF]) tl A7 A9); [exact Hw1| |rewrite app_length; reflexivity].
    rewrite Hr, <- app_assoc. reflexivity.
  - rewrite M2. exact A4.
  - rewrite M3. exact A5.
Qed.

Lemma bd_rs_data_end_seg o : forall rem c e rest,
  bd_rs_inv o c -> bd_rs_clean c -> c_out_state c = RES_BODY_CHUNKED_DATA_END ->
  bd_rs_rest c ++ concat rem = e ++ LF :: rest -> bd_no_lf e = true ->
  Forall (fun d => d <> []) rem ->
  exists c' rem',
    bd_rs_seg cb g o c rem c' rem' [] (Z.of_nat (length e + 1)) /\
    c_out_state c' = RES_BODY_CHUNKED_LENGTH /\ bd_rs_rest c' ++ concat rem' = rest /\
    c_out_body_data_left c' = c_out_body_data_left c /\ c_out_chunked_length c' = c_out_chunked_length c.
Proof.
  induction rem as [|d' rem IH]; intros c e rest Inv Cl Hs Hw Hnl Hrem.
  - cbn [concat] in Hw. rewrite app_nil_r in Hw. apply (bd_rs_data_end_finish o c e rest rest []); auto. apply app_nil_r.
  - destruct (Nat.lt_ge_cases (length e) (length (bd_rs_rest c))) as [Hlt|Hge].
    + assert (exists tl, bd_rs_rest c = e ++ LF :: tl /\ tl ++ concat (d' :: rem) = rest) as (tl & E1 & E2).
      { destruct (bd_app_prefix' e (bd_rs_rest c) (LF :: rest) (concat (d' :: rem))) as (x & X1 & X2); [symmetry; exact Hw|lia|].
        destruct x as [|x0 x]; [rewrite app_nil_r in X1; rewrite X1 in Hlt; lia|].
        cbn in X2. inversion X2; subst x0. exists x. split; [exact X1|reflexivity]. }
      apply (bd_rs_data_end_finish o c e rest tl (d' :: rem)); auto.
    + destruct (bd_app_prefix' (bd_rs_rest c) e (concat (d' :: rem)) (LF :: rest) Hw Hge) as (e' & Hb & Hw').
      pose proof (Forall_inv Hrem) as Hd'. pose proof (Forall_inv_tail Hrem) as Hrem'. cbn beta in Hd'.
      assert (Hnl2 : bd_no_lf (bd_rs_rest c) = true /\ bd_no_lf e' = true).
      { rewrite Hb, bd_no_lf_app' in Hnl. apply andb_true_iff in Hnl. exact Hnl. }
      destruct Hnl2 as (Hnl1 & Hnl2).
      destruct (bs_live _ _ Inv) as (t & Hl & Hh & Hcep).
      destruct (bs_data _ _ Inv) as (d & Hd & Hlen & Hrd).
      assert (Hfn : rs_state_fn cb g (c_out_state c) c = rs_RES_BODY_CHUNKED_DATA_END c) by (rewrite Hs; reflexivity).
      assert (Hn : (length (bd_rs_rest c) < rs_bytes_fuel c)%nat) by (unfold rs_bytes_fuel; rewrite (bd_rs_rest_len c d Hd), Hlen; lia).
      assert (Hr0 : bd_rs_rest c = bd_rs_rest c ++ []) by (symmetry; apply app_nil_r).
      destruct (bd_rs_data_end_loop o (bd_rs_rest c) c _ [] t Inv Hl Hr0 Hnl1 Hn I)
        as (c1 & Hloop & A1 & A2 & A3 & A4 & A5 & A6 & A7 & A8 & A9 & A10 & A11 & A12 & A13 & t' & T1 & T2 & T2' & T3 & T4).
      rewrite Nat.add_0_r in *.
      assert (Inv1 : bd_rs_inv o c1).
      { apply (bd_rs_inv_from_facts o c c1 t' Inv A1 A2 A7 A8); auto; try congruence.
        intros d0 Hd0. rewrite Hd in Hd0. inversion Hd0; subst d0. rewrite A9. rewrite (bd_rs_rest_len c d Hd). lia. }
      set (c3 := bd_res_begin d' (rs_set_out_status c_HTP_STREAM_DATA c1)).
      destruct (bd_rs_begin_misc d' (rs_set_out_status c_HTP_STREAM_DATA c1)) as (B1 & B2 & B3 & B4 & B5 & B6 & B7 & B8).
      assert (I3 : bd_rs_inv o c3) by (apply bd_rs_inv_begin; apply bd_rs_inv_status; exact Inv1).
      assert (C3 : bd_rs_clean c3).
      { apply B2. unfold bd_rs_pending. cbn [c_out rs_set_out_status set]. change (c_out (rs_set_out_status c_HTP_STREAM_DATA c1)) with (c_out c1).
        rewrite A11. apply Cl. }
      assert (S3 : c_out_state c3 = RES_BODY_CHUNKED_DATA_END) by (unfold c3; rewrite B4; cbn; rewrite A6; exact Hs).
      assert (W3 : bd_rs_rest c3 ++ concat rem = e' ++ LF :: rest) by (unfold c3; rewrite B1; exact Hw').
      destruct (IH c3 e' rest I3 C3 S3 W3 Hnl2 Hrem') as (c' & rem' & Seg & S' & W' & F' & O').
      exists c', rem'. bd_rsplits; auto.
      * destruct Seg as [A B C D (evs & E1 & E2 & E3) H]. constructor; [|exact B|exact C|exact D| |].
        { eapply bd_sr_next; [|exact A]. apply bd_rs_iter_data; [rewrite Hfn; exact Hloop|rewrite A13; apply (bs_rcv _ _ Inv)]. }
        { exists evs. split; [rewrite E1; unfold c3; rewrite B3; cbn; rewrite A3; reflexivity|split; assumption]. }
        { intros t0 Ht0. rewrite Hl in Ht0. inversion Ht0; subst t0.
          assert (Hs3 : tx_slot c3 o = Some t') by (unfold c3; rewrite B8; rewrite <- T1; apply bd_slot_ext; reflexivity).
          destruct (H _ Hs3) as (t'' & U1 & U2 & U3). exists t''. bd_rsplits; [exact U1|rewrite U2, T3; reflexivity|].
          rewrite U3, T4. assert (HL : length e = (length (bd_rs_rest c) + length e')%nat) by (rewrite Hb at 1; apply app_length).
          rewrite HL. lia. }
      * rewrite F'. unfold c3. rewrite B5. cbn. exact A4.
      * rewrite O'. unfold c3. rewrite B6. cbn. exact A5.
Qed.

Lemma bd_no_lf_rev' r : bd_no_lf (rev r) = bd_no_lf r.
Proof.
  unfold bd_no_lf. induction r as [|a r IH]; [reflexivity|]. cbn [rev]. rewrite forallb_app, IH. cbn. rewrite andb_true_r. apply andb_comm.
Qed.
Lemma bd_is_line_split' l : bd_is_line l = true -> exists p, l = p ++ [LF] /\ bd_no_lf p = true.
Proof.
  unfold bd_is_line. destruct (rev l) as [|x r] eqn:E; [discriminate|]. intros H. apply andb_true_iff in H. destruct H as (H1 & H2).
  apply N.eqb_eq in H1. subst x. exists (rev r). split; [|rewrite bd_no_lf_rev'; exact H2].
  rewrite <- (rev_involutive l), E. reflexivity.
Qed.

(* ================= (3) chunked decode(encode), response side ================= *)
Theorem bd_rs_chunked_body o : forall ks rem c last rest t,
  bd_rs_inv o c -> bd_rs_clean c -> c_out_state c = RES_BODY_CHUNKED_LENGTH ->
  Forall (fun k => bd_chunk_ok bd_rs_line_value k = true) ks ->
  bd_last_ok bd_rs_line_value last = true ->
  bd_lines_fit (g_field_limit_hard g) ks last = true ->
  bd_rs_rest c ++ concat rem = bd_chunks_wire ks ++ last ++ rest ->
  Forall (fun d => d <> []) rem -> tx_slot c o = Some t ->
  exists c' rem' t' evs,
    bd_rs_reach cb g c rem c' rem' /\ c_out_state c' = RES_HEADERS /\
    bd_rs_rest c' ++ concat rem' = rest /\ Forall (fun d => d <> []) rem' /\
    c_events c' = evs ++ c_events c /\ bd_delivered H_RESPONSE_BODY_DATA evs = bd_chunks_data ks /\
    bd_evs H_RESPONSE_BODY_DATA evs = evs /\
    tx_slot c' o = Some t' /\ t_response_progress t' = c_HTP_RESPONSE_TRAILER /\
    t_response_entity_len t' = t_response_entity_len t + Z.of_nat (length (bd_chunks_data ks)) /\
    t_response_message_len t' = t_response_message_len t + Z.of_nat (length (bd_chunks_wire ks) + length last).
Proof.
  induction ks as [|k ks IH]; intros rem c last rest t Inv Cl Hs Hks Hlast Hfit Hw Hrem Hl.
  - unfold bd_last_ok in Hlast. apply andb_true_iff in Hlast. destruct Hlast as (L1 & L2). apply Z.eqb_eq in L2.
    destruct (bd_is_line_split' last L1) as (p & Ep & Np). subst last.
    unfold bd_lines_fit in Hfit. cbn [forallb andb] in Hfit. apply Nat.leb_le in Hfit. rewrite app_length in Hfit. cbn [length] in Hfit.
    cbn [bd_chunks_wire map concat app] in Hw. rewrite <- app_assoc in Hw. cbn [app] in Hw.
    destruct (bd_rs_last_line o rem c p rest t Inv Cl Hs Hw Np Hfit Hrem L2 Hl)
      as (c' & rem' & t' & R & S & _ & W & F & E & _ & T1 & T2 & T3 & T4).
    exists c', rem', t', []. bd_rsplits; auto.
    + cbn. lia.
    + rewrite T4. cbn [bd_chunks_wire map concat length]. rewrite app_length. cbn [length]. lia.
  - pose proof (Forall_inv Hks) as Hk. pose proof (Forall_inv_tail Hks) as Hks'. cbn beta in Hk.
    unfold bd_chunk_ok in Hk. apply andb_true_iff in Hk. destruct Hk as (Hk & K4). apply andb_true_iff in Hk. destruct Hk as (Hk & K3).
    apply andb_true_iff in Hk. destruct Hk as (K1 & K2). apply Z.eqb_eq in K4. apply negb_true_iff in K3. apply Nat.eqb_neq in K3.
    destruct (bd_is_line_split' _ K1) as (p & Ep & Np). destruct (bd_is_line_split' _ K2) as (e & Ee & Ne).
    unfold bd_lines_fit in Hfit. cbn [forallb] in Hfit. apply andb_true_iff in Hfit. destruct Hfit as (Hfit & Hfl).
    apply andb_true_iff in Hfit. destruct Hfit as (Hf1 & Hf2). apply Nat.leb_le in Hf1.
    assert (Hfit' : bd_lines_fit (g_field_limit_hard g) ks last = true) by (unfold bd_lines_fit; rewrite Hf2, Hfl; reflexivity).
    assert (Hwire : bd_chunks_wire (k :: ks) ++ last ++ rest =
                    p ++ LF :: (bc_data k ++ (e ++ LF :: (bd_chunks_wire ks ++ last ++ rest)))).
    { unfold bd_chunks_wire. cbn [map concat]. unfold bd_chunk_wire. rewrite Ep, Ee. rewrite <- !app_assoc. cbn [app]. reflexivity. }
    rewrite Hwire in Hw. rewrite Ep, app_length in Hf1. cbn [length] in Hf1.
    assert (Hv : 0 < bd_rs_line_value (p ++ [LF])) by (rewrite <- Ep, K4; destruct (bc_data k); [exfalso; apply K3; reflexivity|cbn; lia]).
    destruct (bd_rs_line_seg o rem c p _ Inv Cl Hs Hw Np Hf1 Hrem Hv) as (c1 & rem1 & Seg1 & S1 & V1 & W1 & B1).
    assert (Hdne : bc_data k <> []) by (intros E0; rewrite E0 in K3; apply K3; reflexivity).
    rewrite <- Ep, K4 in V1.
    destruct (bd_rs_chunkdata_seg o rem1 c1 (bc_data k) _ (rg_inv _ _ _ _ _ _ _ _ _ Seg1) (rg_clean _ _ _ _ _ _ _ _ _ Seg1) S1 V1 Hdne (rg_rem _ _ _ _ _ _ _ _ _ Seg1) W1)
      as (c2 & rem2 & Seg2 & S2 & V2 & W2 & B2).
    destruct (bd_rs_data_end_seg o rem2 c2 e _ (rg_inv _ _ _ _ _ _ _ _ _ Seg2) (rg_clean _ _ _ _ _ _ _ _ _ Seg2) S2 W2 Ne (rg_rem _ _ _ _ _ _ _ _ _ Seg2))
      as (c3 & rem3 & Seg3 & S3 & W3 & B3 & V3).
    destruct Seg1 as [R1 I1 C1 F1 (ev1 & E11 & E12 & E13) L1].
    destruct Seg2 as [R2 I2 C2 F2 (ev2 & E21 & E22 & E23) L2].
    destruct Seg3 as [R3 I3 C3 F3 (ev3 & E31 & E32 & E33) L3].
    destruct (L1 _ Hl) as (t1 & T11 & T12 & T13). destruct (L2 _ T11) as (t2 & T21 & T22 & T23). destruct (L3 _ T21) as (t3 & T31 & T32 & T33).
    destruct (IH rem3 c3 last rest t3 I3 C3 S3 Hks' Hlast Hfit' W3 F3 T31)
      as (c' & rem' & t' & evs & R & S & W & F & E & Dl & Ev & T1 & T2 & T3 & T4).
    exists c', rem', t', (evs ++ ev3 ++ ev2 ++ ev1). bd_rsplits; auto.
    + eapply bd_rs_reach_trans; [exact R1|]. eapply bd_rs_reach_trans; [exact R2|]. eapply bd_rs_reach_trans; [exact R3|exact R].
    + rewrite E, E31, E21, E11. rewrite <- !app_assoc. reflexivity.
    + rewrite !bd_delivered_app', Dl, E32, E22, E12. unfold bd_chunks_data. cbn [map concat app]. rewrite app_nil_r. reflexivity.
    + unfold bd_evs in *. rewrite !filter_app, Ev, E33, E23, E13. reflexivity.
    + rewrite T3, T32, T22, T12. unfold bd_chunks_data. cbn [map concat]. rewrite !app_length. cbn [length]. lia.
    + rewrite T4, T33, T23, T13. unfold bd_chunks_wire. cbn [map concat]. unfold bd_chunk_wire. rewrite Ep, Ee, !app_length. cbn [length]. lia.
Qed.
End Res.
