(* C11 -- proofs: the token search, the header table as a merged view of the header lines, the T-E / C-L
   arbitration against the declarative decision table, host determination, hostname syntax. *)
Require Import Htp.Model.MConnTypes Htp.Model.MBstr Htp.Model.MUri Htp.Model.MReqLine Htp.Model.MTxReq Htp.Model.MReqUri Htp.Model.MConnp.
Require Import Htp.Proof.PBstr Htp.Spec.SFraming.
Local Open Scope Z_scope.

(* ================================================================ bytes and case-insensitive equality *)
Lemma fr_space_byte c : htp_is_space c = true -> (c < 256)%N.
Proof.
  intros H. destruct (N.ltb_spec c 256) as [L|L]; [exact L|].
  unfold htp_is_space, tbool in H. rewrite tget_overflow in H by (vm_compute length; lia). discriminate.
Qed.
Lemma fr_space_tolower c : htp_is_space c = true -> c_tolower c = c.
Proof.
  intros H. pose proof (fr_space_byte c H) as L.
  assert (S : forall b, (b < 256)%N -> (negb (htp_is_space b) || (c_tolower b =? b)%N) = true).
  { apply byte_sweep. vm_compute. reflexivity. }
  specialize (S c L). rewrite H in S. cbn in S. apply N.eqb_eq. exact S.
Qed.

Lemma fr_eq_nocase_map a : forall b, fr_eq_nocase a b = true <-> map c_tolower a = map c_tolower b.
Proof.
  unfold fr_eq_nocase. induction a as [|x a IH]; intros [|y b]; cbn; split; intros H; try reflexivity; try discriminate.
  - apply andb_prop in H as [H1 H2]. apply andb_prop in H2 as [H2 H3]. apply N.eqb_eq in H2.
    f_equal; [exact H2|]. apply IH. rewrite H1. exact H3.
  - inversion H as [[H1 H2]]. apply IH in H2. apply andb_prop in H2 as [H2 H3].
    rewrite H2, H3, N.eqb_refl. reflexivity.
Qed.
Lemma fr_eq_nocase_refl a : fr_eq_nocase a a = true.
Proof. apply fr_eq_nocase_map. reflexivity. Qed.
Lemma fr_eq_nocase_sym a b : fr_eq_nocase a b = fr_eq_nocase b a.
Proof.
  destruct (fr_eq_nocase a b) eqn:E1, (fr_eq_nocase b a) eqn:E2; try reflexivity.
  - apply fr_eq_nocase_map in E1. symmetry in E1. apply fr_eq_nocase_map in E1. congruence.
  - apply fr_eq_nocase_map in E2. symmetry in E2. apply fr_eq_nocase_map in E2. congruence.
Qed.
Lemma fr_eq_nocase_trans_l a b c : fr_eq_nocase a b = true -> fr_eq_nocase a c = fr_eq_nocase b c.
Proof.
  intros H. apply fr_eq_nocase_map in H.
  destruct (fr_eq_nocase a c) eqn:E1, (fr_eq_nocase b c) eqn:E2; try reflexivity.
  - apply fr_eq_nocase_map in E1. assert (X : fr_eq_nocase b c = true) by (apply fr_eq_nocase_map; congruence). congruence.
  - apply fr_eq_nocase_map in E2. assert (X : fr_eq_nocase a c = true) by (apply fr_eq_nocase_map; congruence). congruence.
Qed.
Lemma fr_eq_nocase_trans_r a b c : fr_eq_nocase a b = true -> fr_eq_nocase c a = fr_eq_nocase c b.
Proof. intros H. rewrite (fr_eq_nocase_sym c a), (fr_eq_nocase_sym c b). apply fr_eq_nocase_trans_l. exact H. Qed.

(* bstr_cmp_nocase(a, b) == 0 is this equality *)
Lemma fr_cmp_nocase a b : (cmp_mem_nocase a b =? 0) = fr_eq_nocase a b.
Proof.
  rewrite cmp_mem_nocase_spec.
  destruct (fr_eq_nocase a b) eqn:E.
  - apply fr_eq_nocase_map in E. rewrite E. apply Z.eqb_eq. apply cmp_mem_eq. reflexivity.
  - apply Z.eqb_neq. intros H. apply cmp_mem_eq in H. apply fr_eq_nocase_map in H. congruence.
Qed.

(* ================================================================ (a) htp_header_has_token *)
Definition fr_nocomma (s : bytes) : bool := forallb (fun c => negb (c =? 44)%N) s.

Lemma fr_split_nocomma e : fr_nocomma e = true -> fr_split 44 e = [e].
Proof.
  induction e as [|x e IH]; cbn; intros H; [reflexivity|].
  apply andb_prop in H as [H1 H2]. apply negb_true_iff in H1. rewrite H1, (IH H2). reflexivity.
Qed.
Lemma fr_split_comma e v : fr_nocomma e = true -> fr_split 44 (e ++ 44%N :: v) = e :: fr_split 44 v.
Proof.
  induction e as [|x e IH]; cbn; intros H; [reflexivity|].
  apply andb_prop in H as [H1 H2]. apply negb_true_iff in H1. rewrite H1, (IH H2). reflexivity.
Qed.

Lemma fr_strip_right_split p s : exists t, s = strip_right p s ++ t /\ forallb p t = true.
Proof.
  unfold strip_right. destruct (drop_while_split p (rev s)) as [l [H1 H2]].
  exists (rev l). split.
  - apply (f_equal (@rev N)) in H1. rewrite rev_involutive, rev_app_distr in H1. exact H1.
  - rewrite forallb_forall in *. intros x Hx. apply H2. apply in_rev. exact Hx.
Qed.
Lemma fr_drop_while_all p s t : forallb p s = true -> drop_while p (s ++ t) = drop_while p t.
Proof. induction s as [|x s IH]; cbn; intros H; [reflexivity|]. apply andb_prop in H as [H1 H2]. rewrite H1. auto. Qed.
Lemma fr_strip_right_app p m s :
  forallb p s = true -> (match rev m with [] => True | c :: _ => p c = false end) -> strip_right p (m ++ s) = m.
Proof.
  intros Hs Hm. unfold strip_right. rewrite rev_app_distr, fr_drop_while_all.
  - destruct (rev m) as [|c r] eqn:E; cbn.
    + apply (f_equal (@rev N)) in E. rewrite rev_involutive in E. symmetry. exact E.
    + rewrite Hm. rewrite <- E. apply rev_involutive.
  - rewrite forallb_forall in *. intros x Hx. apply Hs. apply in_rev. exact Hx.
Qed.

Section HasToken.
Variable tok : bytes.
Hypothesis Htok : fr_tok_ok tok = true.

Definition fr_okchar (x : N) : bool := negb (htp_is_space x) && negb (x =? 44)%N && (c_tolower x =? x)%N.
Lemma fr_tok_chars : forallb fr_okchar tok = true.
Proof. unfold fr_tok_ok in Htok. apply andb_prop in Htok as [_ H]. exact H. Qed.
Lemma fr_tok_nonempty : tok <> [].
Proof. unfold fr_tok_ok in Htok. apply andb_prop in Htok as [H _]. destruct tok; [discriminate|congruence]. Qed.
Lemma fr_tok_lower : map c_tolower tok = tok.
Proof.
  pose proof fr_tok_chars as H. clear Htok. induction tok as [|x r IH]; cbn in *; [reflexivity|].
  apply andb_prop in H as [H1 H2]. unfold fr_okchar in H1. apply andb_prop in H1 as [_ H1]. apply N.eqb_eq in H1.
  rewrite H1, (IH H2). reflexivity.
Qed.

(* the element after its leading spaces: the token's letters (any case), then only spaces *)
Fixpoint fr_mt (d rest : bytes) {struct rest} : bool :=
  match rest with
  | [] => forallb htp_is_space d
  | x :: rest' => match d with c :: d' => (c_tolower c =? x)%N && fr_mt d' rest' | [] => false end
  end.

Lemma fr_mt_split rest : forall d,
  fr_mt d rest = true <-> exists m s, d = m ++ s /\ map c_tolower m = rest /\ forallb htp_is_space s = true.
Proof.
  induction rest as [|x rest IH]; intros d; cbn.
  - split.
    + intros H. exists [], d. repeat split; auto.
    + intros [m [s [H1 [H2 H3]]]]. destruct m; [|discriminate]. subst d. exact H3.
  - destruct d as [|c d].
    + split; [discriminate|]. intros [m [s [H1 [H2 H3]]]]. destruct m; discriminate.
    + split.
      * intros H. apply andb_prop in H as [H1 H2]. apply N.eqb_eq in H1. apply IH in H2 as [m [s [E1 [E2 E3]]]].
        exists (c :: m), s. cbn. subst. repeat split; auto.
      * intros [m [s [H1 [H2 H3]]]]. destruct m as [|c' m]; [discriminate|]. cbn in *. inversion H1; inversion H2; subst.
        rewrite N.eqb_refl. cbn. apply IH. exists m, s. repeat split; auto.
Qed.

(* the declarative element test is this matcher *)
Lemma fr_elem_mt d : (match d with [] => True | c :: _ => htp_is_space c = false end) ->
  fr_eq_nocase (strip_right htp_is_space d) tok = fr_mt d tok.
Proof.
  intros Hd.
  destruct (fr_eq_nocase (strip_right htp_is_space d) tok) eqn:E1; symmetry.
  - apply fr_eq_nocase_map in E1. rewrite fr_tok_lower in E1.
    destruct (fr_strip_right_split htp_is_space d) as [t [H1 H2]].
    apply fr_mt_split. exists (strip_right htp_is_space d), t. repeat split; auto.
  - destruct (fr_mt d tok) eqn:E2; [|reflexivity]. exfalso.
    apply fr_mt_split in E2 as [m [s [H1 [H2 H3]]]].
    assert (Hm : match rev m with [] => True | c :: _ => htp_is_space c = false end).
    { destruct (rev m) as [|c r] eqn:Er; [exact I|].
      apply (f_equal (@rev N)) in Er. rewrite rev_involutive in Er. cbn in Er. subst m.
      rewrite map_app in H2. cbn in H2.
      pose proof fr_tok_chars as Hc. rewrite <- H2, forallb_app in Hc. apply andb_prop in Hc as [_ Hc]. cbn in Hc.
      rewrite andb_true_r in Hc. unfold fr_okchar in Hc. apply andb_prop in Hc as [Hc _]. apply andb_prop in Hc as [Hc _].
      destruct (htp_is_space c) eqn:Es; [|reflexivity].
      rewrite (fr_space_tolower c Es), Es in Hc. discriminate. }
    subst d. rewrite (fr_strip_right_app _ _ _ H3 Hm) in E1.
    assert (X : fr_eq_nocase m tok = true) by (apply fr_eq_nocase_map; rewrite fr_tok_lower; exact H2). congruence.
Qed.
Lemma fr_elem_ok e : fr_eq_nocase (fr_trim e) tok = fr_mt (drop_while htp_is_space e) tok.
Proof. unfold fr_trim. apply fr_elem_mt. pose proof (drop_while_head htp_is_space e) as H. destruct (drop_while htp_is_space e); auto. Qed.

(* ---- the automaton on one comma-free element, followed by the end of the value or by a comma ---- *)
Definition fr_tail_ok (hv : bytes) : Prop := hv = [] \/ exists hv', hv = 44%N :: hv'.
Definition fr_after (hv : bytes) : bool := match hv with [] => false | _ :: hv' => rq_has_token hv' tok 0 tok end.

Lemma fr_run_skip hv : fr_tail_ok hv -> forall d, fr_nocomma d = true ->
  rq_has_token (d ++ hv) tok 1 tok = fr_after hv.
Proof.
  intros Hhv. induction d as [|c d IH]; intros Hd.
  - destruct Hhv as [->|[hv' ->]]; reflexivity.
  - cbn in Hd. apply andb_prop in Hd as [H1 H2]. apply negb_true_iff in H1.
    cbn [app rq_has_token]. rewrite H1. apply IH. exact H2.
Qed.
Lemma fr_run_st2 hv : fr_tail_ok hv -> forall d r, fr_nocomma d = true ->
  rq_has_token (d ++ hv) tok 2 r = if forallb htp_is_space d then true else fr_after hv.
Proof.
  intros Hhv. induction d as [|c d IH]; intros r Hd.
  - destruct Hhv as [->|[hv' ->]]; reflexivity.
  - cbn in Hd. apply andb_prop in Hd as [H1 H2]. apply negb_true_iff in H1.
    cbn [app rq_has_token forallb]. rewrite H1. destruct (htp_is_space c); cbn [negb andb].
    + apply IH. exact H2.
    + apply fr_run_skip; assumption.
Qed.
Lemma fr_comma_facts : htp_is_space 44 = false /\ c_tolower 44 = 44%N.
Proof. split; vm_compute; reflexivity. Qed.
Lemma fr_run_match hv : fr_tail_ok hv -> forall d rest, fr_nocomma d = true -> rest <> [] -> forallb fr_okchar rest = true ->
  (length rest <= length tok)%nat ->
  ((length rest < length tok)%nat \/ match d with [] => True | c :: _ => htp_is_space c = false end) ->
  rq_has_token (d ++ hv) tok 0 rest = if fr_mt d rest then true else fr_after hv.
Proof.
  intros Hhv. induction d as [|c d IH]; intros rest Hd Hne Hok Hle Hst.
  - destruct rest as [|x rest']; [congruence|]. cbn [fr_mt].
    destruct Hhv as [->|[hv' ->]]; [reflexivity|].
    cbn [app rq_has_token]. destruct fr_comma_facts as [F1 F2]. rewrite F1, F2, andb_false_r.
    cbn in Hok. apply andb_prop in Hok as [Hx _]. unfold fr_okchar in Hx. apply andb_prop in Hx as [Hx _]. apply andb_prop in Hx as [_ Hx].
    apply negb_true_iff in Hx. rewrite N.eqb_sym in Hx. rewrite Hx. rewrite N.eqb_refl. reflexivity.
  - cbn in Hd. apply andb_prop in Hd as [H1 H2]. apply negb_true_iff in H1.
    destruct rest as [|x rest']; [congruence|].
    cbn [app rq_has_token fr_mt].
    assert (Hskip : ((length (x :: rest') =? length tok)%nat && htp_is_space c)%bool = false).
    { destruct Hst as [Hlt|Hc].
      - assert (Hn : length (x :: rest') <> length tok) by lia. apply Nat.eqb_neq in Hn. rewrite Hn. reflexivity.
      - rewrite Hc. apply andb_false_r. }
    rewrite Hskip. cbn in Hok. apply andb_prop in Hok as [Hx Hok'].
    destruct (c_tolower c =? x)%N eqn:Ec; cbn [andb].
    + destruct rest' as [|y rest''].
      * cbn [fr_mt]. apply fr_run_st2; assumption.
      * apply IH; try assumption; try discriminate.
        -- cbn in *. lia.
        -- left. cbn in *. lia.
    + rewrite H1. apply fr_run_skip; assumption.
Qed.
Lemma fr_run_start hv : fr_tail_ok hv -> forall d, fr_nocomma d = true ->
  rq_has_token (d ++ hv) tok 0 tok = if fr_mt (drop_while htp_is_space d) tok then true else fr_after hv.
Proof.
  intros Hhv. induction d as [|c d IH]; intros Hd.
  - cbn [drop_while]. apply fr_run_match; auto using fr_tok_nonempty, fr_tok_chars.
  - cbn [drop_while]. destruct (htp_is_space c) eqn:Es.
    + cbn in Hd. apply andb_prop in Hd as [H1 H2].
      cbn [app rq_has_token].
      rewrite Nat.eqb_refl, Es. cbn [andb]. apply IH. exact H2.
    + apply fr_run_match; auto using fr_tok_nonempty, fr_tok_chars.
Qed.

Lemma fr_take_comma v : exists e hv, v = e ++ hv /\ fr_nocomma e = true /\ fr_tail_ok hv.
Proof.
  destruct (drop_while_split (fun c => negb (c =? 44)%N) v) as [l [H1 H2]].
  exists l, (drop_while (fun c => negb (c =? 44)%N) v). split; [exact H1|]. split; [exact H2|].
  pose proof (drop_while_head (fun c => negb (c =? 44)%N) v) as H.
  destruct (drop_while _ v) as [|c r]; [left; reflexivity|right].
  apply negb_false_iff in H. apply N.eqb_eq in H. subst c. eauto.
Qed.

Theorem fr_has_token_bool v : htp_header_has_token v tok = fr_has_tokenb v tok.
Proof.
  unfold htp_header_has_token.
  assert (G : forall n v, (length v <= n)%nat -> rq_has_token v tok 0 tok = fr_has_tokenb v tok).
  { clear v. induction n as [|n IH]; intros v Hn.
    - destruct v; [|cbn in Hn; lia]. unfold fr_has_tokenb. cbn [fr_split existsb].
      rewrite fr_elem_ok. cbn [drop_while]. rewrite orb_false_r.
      pose proof (fr_run_start [] (or_introl eq_refl) [] eq_refl) as R. cbn [app drop_while fr_after] in R. rewrite R.
      destruct (fr_mt [] tok); reflexivity.
    - destruct (fr_take_comma v) as [e [hv [Hv [He Hhv]]]]. subst v.
      rewrite (fr_run_start hv Hhv e He). unfold fr_has_tokenb.
      destruct Hhv as [->|[hv' ->]].
      + rewrite app_nil_r, (fr_split_nocomma e He). cbn [existsb fr_after]. rewrite fr_elem_ok, orb_false_r.
        destruct (fr_mt _ tok); reflexivity.
      + rewrite (fr_split_comma e hv' He). cbn [existsb fr_after]. rewrite fr_elem_ok.
        destruct (fr_mt _ tok); [reflexivity|]. cbn [orb]. apply IH.
        rewrite app_length in Hn. cbn in Hn. lia. }
  apply (G (length v)). lia.
Qed.

Theorem fr_has_token_spec v : htp_header_has_token v tok = true <-> fr_has_token v tok.
Proof.
  rewrite fr_has_token_bool. unfold fr_has_tokenb, fr_has_token. rewrite existsb_exists. reflexivity.
Qed.
End HasToken.

(* ================================================================ (b) the header parser: names without NUL, flags *)
Definition fr_nonul (s : bytes) : bool := forallb (fun b => negb (b =? 0)%N) s.

Lemma fr_fwd_spec p : forall s n pos, exists k,
  rq_fwd p s n pos = (pos + k)%nat /\ (k <= n)%nat /\ forallb p (firstn k s) = true.
Proof.
  induction s as [|x s IH]; intros n pos.
  - exists O. destruct n; cbn; repeat split; auto; lia.
  - destruct n as [|n]; cbn.
    + exists O. repeat split; auto; lia.
    + destruct (p x) eqn:E.
      * destruct (IH n (S pos)) as [k [H1 [H2 H3]]]. exists (S k). cbn. rewrite E, H3. repeat split; auto; lia.
      * exists O. cbn. repeat split; auto; lia.
Qed.
Lemma fr_name_end_le d : forall n, (rq_name_end d n <= n)%nat.
Proof. induction n as [|n IH]; cbn; [lia|]. destruct (htp_is_lws _); lia. Qed.
Lemma fr_forallb_firstn {A} (p : A -> bool) : forall (s : list A) j k, (j <= k)%nat -> forallb p (firstn k s) = true -> forallb p (firstn j s) = true.
Proof.
  induction s as [|x s IH]; intros j k Hjk H; [destruct j; reflexivity|].
  destruct j as [|j]; [reflexivity|]. destruct k as [|k]; [lia|]. cbn in *.
  apply andb_prop in H as [H1 H2]. rewrite H1. cbn. apply (IH j k); [lia|exact H2].
Qed.

Definition fr_parser_flag (fl : N) : Prop := fl = 0%N \/ fl = c_HTP_FIELD_INVALID \/ fl = c_HTP_FIELD_UNPARSEABLE.
Lemma fr_parser_flag_bits fl : fr_parser_flag fl ->
  flag_has fl c_HTP_FIELD_FOLDED = false /\ flag_has fl c_HTP_FIELD_REPEATED = false.
Proof. intros [->|[->| ->]]; split; reflexivity. Qed.

Lemma fr_parse_header_facts line :
  let h := fst (htp_parse_request_header_generic line) in
  fr_nonul (h_name h) = true /\ fr_parser_flag (h_flags h).
Proof.
  unfold htp_parse_request_header_generic.
  set (d := htp_chomp line).
  set (P := fun b : N => (negb (b =? 0)%N && negb (b =? 58)%N)%bool).
  destruct (fr_fwd_spec P (skipn 0 d) (length d - 0) 0) as [k [Hk [Hle Hall]]].
  unfold rq_fwd_while. rewrite Hk. cbn [Nat.add skipn] in *.
  destruct ((k =? length d)%nat || (rq_at d k =? 0)%N)%bool.
  - cbn. split; [reflexivity|]. right. right. reflexivity.
  - cbn [fst h_name h_flags]. split.
    + unfold rq_sub. rewrite Nat.sub_0_r. cbn [skipn].
      pose proof (fr_name_end_le d k) as Hn.
      pose proof (fr_forallb_firstn P d _ _ Hn Hall) as H.
      unfold fr_nonul. rewrite forallb_forall in *. intros x Hx. specialize (H x Hx). unfold P in H.
      apply andb_prop in H as [H _]. exact H.
    + unfold fr_parser_flag.
      destruct (k =? 0)%nat; destruct (rq_name_end d k <? k)%nat; destruct (forallb htp_is_token _); cbn; auto.
Qed.

(* ================================================================ (b) the table: lookups *)
Definition fr_same (k : bytes) (h : header) : bool := fr_eq_nocase (h_name h) k.
Definition fr_hview (h : header) : bytes * bool := (h_value h, flag_has (h_flags h) c_HTP_FIELD_REPEATED).

Lemma fr_find_app {A} (q : A -> bool) a b : find q (a ++ b) = match find q a with Some x => Some x | None => find q b end.
Proof. induction a as [|x a IH]; cbn; [reflexivity|]. destruct (q x); auto. Qed.
Lemma fr_find_none {A} (q : A -> bool) a : forallb (fun x => negb (q x)) a = true -> find q a = None.
Proof. induction a as [|x a IH]; cbn; intros H; [reflexivity|]. apply andb_prop in H as [H1 H2]. apply negb_true_iff in H1. rewrite H1. auto. Qed.
Lemma fr_find_ext {A} (q q' : A -> bool) a : (forall x, In x a -> q x = q' x) -> find q a = find q' a.
Proof.
  induction a as [|x a IH]; cbn; intros H; [reflexivity|].
  rewrite (H x (or_introl eq_refl)). destruct (q' x); [reflexivity|]. apply IH. intros y Hy. apply H. right. exact Hy.
Qed.

(* rq_hdr_index as a decomposition of the table *)
Lemma fr_index_spec p : forall tbl i0,
  match rq_hdr_index p tbl i0 with
  | Some j => exists pre ex post, tbl = pre ++ ex :: post /\ j = (i0 + length pre)%nat /\ p (h_name ex) = true /\
                                  forallb (fun h => negb (p (h_name h))) pre = true
  | None => forallb (fun h => negb (p (h_name h))) tbl = true
  end.
Proof.
  induction tbl as [|h tbl IH]; intros i0; cbn; [reflexivity|].
  destruct (p (h_name h)) eqn:E.
  - exists [], h, tbl. cbn. repeat split; auto.
  - specialize (IH (S i0)). destruct (rq_hdr_index p tbl (S i0)) as [j|].
    + destruct IH as [pre [ex [post [H1 [H2 [H3 H4]]]]]]. exists (h :: pre), ex, post. cbn. rewrite E, H4. subst. repeat split; auto. lia.
    + cbn. rewrite IH. reflexivity.
Qed.
Lemma fr_index_ext p p' : (forall c, p c = p' c) -> forall tbl i0, rq_hdr_index p tbl i0 = rq_hdr_index p' tbl i0.
Proof. intros H. induction tbl as [|h tbl IH]; intros i0; cbn; [reflexivity|]. rewrite H, IH. reflexivity. Qed.

Lemma fr_nth_mid {A} (pre : list A) ex post d : nth (length pre) (pre ++ ex :: post) d = ex.
Proof. induction pre; cbn; auto. Qed.
Lemma fr_nth_error_mid {A} (pre : list A) ex post : nth_error (pre ++ ex :: post) (length pre) = Some ex.
Proof. induction pre; cbn; auto. Qed.
Lemma fr_upd_mid {A} (pre : list A) ex post ex' : upd (pre ++ ex :: post) (length pre) ex' = pre ++ ex' :: post.
Proof. induction pre as [|x pre IH]; cbn; [reflexivity|]. rewrite IH. reflexivity. Qed.

(* htp_table_get_c (NULs of the stored key skipped) on a table whose names have no NUL is the plain lookup *)
Lemma fr_nonzero_id s : fr_nonul s = true -> nonzero s = s.
Proof.
  unfold fr_nonul, nonzero. induction s as [|x s IH]; cbn; intros H; [reflexivity|].
  apply andb_prop in H as [H1 H2]. rewrite H1, (IH H2). reflexivity.
Qed.
Lemma fr_get_c tbl ckey : Forall (fun h => fr_nonul (h_name h) = true) tbl ->
  rq_hdr_get_c tbl ckey = find (fr_same ckey) tbl.
Proof.
  intros Hn. unfold rq_hdr_get_c.
  pose proof (fr_index_spec (fun c => cmp_mem_nocasenorzero c ckey =? 0) tbl 0) as H.
  destruct (rq_hdr_index _ tbl 0) as [j|].
  - destruct H as [pre [ex [post [H1 [H2 [H3 H4]]]]]]. subst tbl j. cbn [Nat.add]. rewrite fr_nth_error_mid.
    rewrite fr_find_app.
    apply Forall_app in Hn as [Hn1 Hn2]. inversion Hn2 as [|? ? Hex _]; subst.
    rewrite (fr_find_none (fr_same ckey) pre).
    + cbn. unfold fr_same. rewrite cmp_mem_nocasenorzero_spec, (fr_nonzero_id _ Hex), fr_cmp_nocase in H3. rewrite H3. reflexivity.
    + rewrite forallb_forall in *. intros x Hx. specialize (H4 x Hx). rewrite Forall_forall in Hn1. specialize (Hn1 x Hx).
      unfold fr_same. rewrite cmp_mem_nocasenorzero_spec, (fr_nonzero_id _ Hn1), fr_cmp_nocase in H4. exact H4.
  - symmetry. apply fr_find_none. rewrite forallb_forall in *. intros x Hx. specialize (H x Hx).
    rewrite Forall_forall in Hn. specialize (Hn x Hx).
    unfold fr_same. rewrite cmp_mem_nocasenorzero_spec, (fr_nonzero_id _ Hn), fr_cmp_nocase in H. exact H.
Qed.

(* ================================================================ (b) the declarative view under one more field *)
Lemma fr_values_app k a b : fr_values k (a ++ b) = fr_values k a ++ fr_values k b.
Proof. unfold fr_values. rewrite filter_app, map_app. reflexivity. Qed.
Lemma fr_values_ext k k' hs : fr_eq_nocase k k' = true -> fr_values k hs = fr_values k' hs.
Proof.
  intros H. unfold fr_values. f_equal. apply filter_ext. intros f. apply fr_eq_nocase_trans_r. exact H.
Qed.
Lemma fr_join_snoc v vs x : fr_join ((v :: vs) ++ [x]) = fr_join (v :: vs) ++ [44; 32]%N ++ x.
Proof. cbn. rewrite map_app, concat_app. cbn. rewrite app_nil_r, <- app_assoc. reflexivity. Qed.

Lemma fr_keep_state_snoc hs f : fr_keep_state (hs ++ [f]) = fr_keep_step (fr_keep_state hs) f.
Proof. unfold fr_keep_state. rewrite fold_left_app. reflexivity. Qed.

(* the kept fields never lose one of the first two occurrences of a name, so "repeated" can be read off either list;
   not needed below: fr_is_excess is evaluated on the kept fields *)

Lemma fr_lor_has a b : b <> 0%N -> flag_has (flag_set a b) b = true.
Proof.
  intros Hb. unfold flag_has, flag_set. apply negb_true_iff. apply N.eqb_neq.
  replace (N.land (N.lor a b) b) with b; [exact Hb|].
  apply N.bits_inj. intros n. rewrite N.land_spec, N.lor_spec. destruct (N.testbit a n), (N.testbit b n); reflexivity.
Qed.
Lemma fr_lor_other a b c : N.land b c = 0%N -> flag_has (flag_set a b) c = flag_has a c.
Proof. intros H. unfold flag_has, flag_set. rewrite N.land_lor_distr_l, H, N.lor_0_r. reflexivity. Qed.

Definition fr_CL_mixed_ok : fr_eq_nocase rq_str_content_length fr_CL = true := eq_refl.

(* the invariant of the header loop: the table is the merged view of the fields processed so far *)
Record fr_inv (hs : list fr_field) (t : tx) : Prop := mk_fr_inv {
  fri_view : forall k, option_map fr_hview (find (fr_same k) (t_request_headers t)) = fr_merged k (fr_kept hs);
  fri_hdrs : Forall (fun h => flag_has (h_flags h) c_HTP_FIELD_FOLDED = false /\ fr_nonul (h_name h) = true) (t_request_headers t);
  fri_reps : t_req_header_repetitions t = snd (fr_keep_state hs)
}.

Definition fr_field_of_line (line : bytes) : fr_field :=
  let h := fst (htp_parse_request_header_generic line) in (h_name h, h_value h).

Lemma fr_merged_values k ks v b : fr_merged k ks = Some (v, b) ->
  exists v1 more, fr_values k ks = v1 :: more /\ v = (if fr_eq_nocase k fr_CL then v1 else fr_join (v1 :: more)) /\ b = fr_nonempty more.
Proof.
  unfold fr_merged. destruct (fr_values k ks) as [|v1 more]; [discriminate|]. intros H. inversion H. eauto.
Qed.
Lemma fr_merged_none k ks : fr_merged k ks = None -> fr_values k ks = [].
Proof. unfold fr_merged. destruct (fr_values k ks); [reflexivity|discriminate]. Qed.

(* ================================================================ (b) one header line *)
Definition fr_merge_into (ex h : header) : header :=
  let ex1 := mkhdr (h_name ex) (h_value ex) (flag_set (h_flags ex) c_HTP_FIELD_REPEATED) in
  if cmp_mem_nocase (h_name h) rq_str_content_length =? 0 then ex1
  else mkhdr (h_name ex1) (h_value ex1 ++ [44; 32]%N ++ h_value h) (h_flags ex1).

Lemma fr_process_shape line t :
  let h := fst (htp_parse_request_header_generic line) in
  let tbl := t_request_headers t in
  let reps := t_req_header_repetitions t in
  let t' := htp_process_request_header_generic line t in
  match rq_hdr_find tbl (h_name h) with
  | Some i =>
    let ex := nth i tbl h in
    let repeated := flag_has (h_flags ex) c_HTP_FIELD_REPEATED in
    if (repeated && negb (Z.of_nat reps <? c_HTP_MAX_HEADERS_REPETITIONS))%bool
    then t_request_headers t' = tbl /\ t_req_header_repetitions t' = reps
    else t_request_headers t' = upd tbl i (fr_merge_into ex h) /\ t_req_header_repetitions t' = (if repeated then S reps else reps)
  | None => t_request_headers t' = tbl ++ [h] /\ t_req_header_repetitions t' = reps
  end.
Proof.
  cbv zeta. unfold htp_process_request_header_generic.
  destruct (htp_parse_request_header_generic line) as [h txfl]. cbn [fst].
  cbn [t_request_headers t_req_header_repetitions set].
  destruct (rq_hdr_find (t_request_headers t) (h_name h)) as [i|]; [|split; reflexivity].
  destruct (flag_has (h_flags (nth i (t_request_headers t) h)) c_HTP_FIELD_REPEATED);
    destruct (Z.of_nat (t_req_header_repetitions t) <? c_HTP_MAX_HEADERS_REPETITIONS); cbn [andb negb];
    unfold fr_merge_into; destruct (cmp_mem_nocase (h_name h) rq_str_content_length =? 0); split; reflexivity.
Qed.

Lemma fr_cap_cmp n : (fr_cap <=? n)%nat = negb (Z.of_nat n <? c_HTP_MAX_HEADERS_REPETITIONS).
Proof.
  unfold fr_cap. destruct (Nat.leb_spec (Z.to_nat c_HTP_MAX_HEADERS_REPETITIONS) n), (Z.ltb_spec (Z.of_nat n) c_HTP_MAX_HEADERS_REPETITIONS);
    cbn; try reflexivity; exfalso; lia.
Qed.
Lemma fr_forallb_ext {A} (p q : A -> bool) l : (forall x, p x = q x) -> forallb p l = forallb q l.
Proof. intros H. induction l as [|x l IH]; cbn; [reflexivity|]. rewrite H, IH. reflexivity. Qed.
Lemma fr_merge_into_name ex h : h_name (fr_merge_into ex h) = h_name ex.
Proof. unfold fr_merge_into. destruct (_ =? 0); reflexivity. Qed.
Lemma fr_merge_into_flags ex h : h_flags (fr_merge_into ex h) = flag_set (h_flags ex) c_HTP_FIELD_REPEATED.
Proof. unfold fr_merge_into. destruct (_ =? 0); reflexivity. Qed.
Lemma fr_merge_into_value ex h : h_value (fr_merge_into ex h) =
  if fr_eq_nocase (h_name h) fr_CL then h_value ex else h_value ex ++ [44; 32]%N ++ h_value h.
Proof.
  unfold fr_merge_into. rewrite fr_cmp_nocase, (fr_eq_nocase_trans_r _ _ (h_name h) fr_CL_mixed_ok).
  destruct (fr_eq_nocase (h_name h) fr_CL); reflexivity.
Qed.

Lemma fr_inv_step hs t line :
  fr_inv hs t -> fr_inv (hs ++ [fr_field_of_line line]) (htp_process_request_header_generic line t).
Proof.
  intros [Hv Hh Hr].
  pose proof (fr_process_shape line t) as S. cbv zeta in S.
  pose proof (fr_parse_header_facts line) as PF. cbv zeta in PF. destruct PF as [Pn Pf].
  apply fr_parser_flag_bits in Pf as [Pf1 Pf2].
  set (f := fr_field_of_line line). assert (Ef : f = (h_name (fst (htp_parse_request_header_generic line)), h_value (fst (htp_parse_request_header_generic line)))) by reflexivity.
  set (h := fst (htp_parse_request_header_generic line)) in *.
  set (t' := htp_process_request_header_generic line t) in *.
  set (tbl := t_request_headers t) in *.
  unfold rq_hdr_find in S.
  rewrite (fr_index_ext _ (fun c => fr_eq_nocase c (h_name h)) (fun c => fr_cmp_nocase c (h_name h))) in S.
  pose proof (fr_index_spec (fun c => fr_eq_nocase c (h_name h)) tbl 0) as X.
  pose proof (fr_keep_state_snoc hs f) as KS. unfold fr_keep_step in KS.
  set (st := fr_keep_state hs) in *. assert (Ekept : fr_kept hs = fst st) by reflexivity.
  destruct (rq_hdr_index _ tbl 0) as [i|].
  - destruct X as [pre [ex [post [E1 [E2 [E3 E4]]]]]]. cbn in E2. subst i.
    rewrite E1, fr_nth_mid, fr_upd_mid in S.
    assert (Vn := Hv (h_name h)). rewrite E1, fr_find_app, (fr_find_none (fr_same (h_name h)) pre E4) in Vn.
    cbn [find] in Vn. unfold fr_same at 1 in Vn. rewrite E3 in Vn. cbn [option_map] in Vn. symmetry in Vn.
    apply fr_merged_values in Vn as [v1 [more [V1 [V2 V3]]]].
    assert (Eex : fr_is_excess (fst st) f = flag_has (h_flags ex) c_HTP_FIELD_REPEATED).
    { unfold fr_is_excess. rewrite Ef. cbn [fst]. rewrite <- Ekept, V1, V3. destruct more; reflexivity. }
    rewrite Eex, fr_cap_cmp, <- Hr in KS.
    destruct (flag_has (h_flags ex) c_HTP_FIELD_REPEATED && negb (Z.of_nat (t_req_header_repetitions t) <? c_HTP_MAX_HEADERS_REPETITIONS))%bool.
    + (* beyond the cap: dropped *)
      destruct S as [S1 S2]. constructor.
      * intros k. unfold fr_kept. rewrite KS, S1, <- E1. apply Hv.
      * rewrite S1, <- E1. exact Hh.
      * rewrite S2, KS. exact Hr.
    + destruct S as [S1 S2].
      assert (Hkept : fr_kept (hs ++ [f]) = fr_kept hs ++ [f]) by (unfold fr_kept; rewrite KS; reflexivity).
      constructor.
      * intros k. rewrite S1, Hkept.
        destruct (fr_eq_nocase (h_name h) k) eqn:Ek.
        -- (* the name of the new line *)
           unfold fr_merged. rewrite fr_values_app.
           assert (Epre : forallb (fun x => negb (fr_same k x)) pre = true).
           { rewrite <- E4. apply fr_forallb_ext. intros x. unfold fr_same. f_equal. symmetry. apply fr_eq_nocase_trans_r. exact Ek. }
           rewrite fr_find_app, (fr_find_none _ pre Epre). cbn [find]. unfold fr_same at 1.
           rewrite fr_merge_into_name, <- (fr_eq_nocase_trans_r _ _ (h_name ex) Ek), E3. cbn [option_map].
           assert (Ek' : fr_eq_nocase k (h_name h) = true) by (rewrite fr_eq_nocase_sym; exact Ek).
           rewrite (fr_values_ext _ _ (fr_kept hs) Ek'), V1.
           replace (fr_values k [f]) with [h_value h] by (unfold fr_values; rewrite Ef; cbn; rewrite Ek; reflexivity).
           cbn [app]. unfold fr_hview. rewrite fr_merge_into_value, fr_merge_into_flags, fr_lor_has by discriminate.
           rewrite <- (fr_eq_nocase_trans_l _ _ fr_CL Ek). rewrite V2.
           destruct (fr_eq_nocase (h_name h) fr_CL).
           ++ destruct more; reflexivity.
           ++ rewrite <- fr_join_snoc. cbn [app]. destruct more; reflexivity.
        -- (* another name: untouched *)
           assert (Em : fr_merged k (fr_kept hs ++ [f]) = fr_merged k (fr_kept hs)).
           { unfold fr_merged. rewrite fr_values_app.
             replace (fr_values k [f]) with (@nil bytes) by (unfold fr_values; rewrite Ef; cbn; rewrite Ek; reflexivity).
             rewrite app_nil_r. reflexivity. }
           rewrite Em, <- (Hv k). rewrite E1, !fr_find_app.
           destruct (find (fr_same k) pre); [reflexivity|]. cbn [find]. unfold fr_same at 1 3.
           rewrite fr_merge_into_name, (fr_eq_nocase_trans_l _ _ k E3), Ek. reflexivity.
      * rewrite S1. fold tbl in Hh. rewrite E1 in Hh. apply Forall_app in Hh as [Hh1 Hh2]. inversion Hh2 as [|? ? [Hx1 Hx2] Hpost]; subst.
        apply Forall_app. split; [exact Hh1|]. constructor; [|exact Hpost].
        rewrite fr_merge_into_name, fr_merge_into_flags. split; [|exact Hx2].
        rewrite fr_lor_other by reflexivity. exact Hx1.
      * rewrite S2, KS. cbn [snd]. rewrite Hr. reflexivity.
  - (* a new name *)
    destruct S as [S1 S2].
    assert (Vn := Hv (h_name h)). fold tbl in Vn. rewrite (fr_find_none (fr_same (h_name h)) tbl X) in Vn. cbn in Vn. symmetry in Vn.
    apply fr_merged_none in Vn.
    assert (Eex : fr_is_excess (fst st) f = false).
    { unfold fr_is_excess. rewrite Ef. cbn [fst]. rewrite <- Ekept, Vn. reflexivity. }
    rewrite Eex in KS. cbn [andb] in KS.
    assert (Hkept : fr_kept (hs ++ [f]) = fr_kept hs ++ [f]) by (unfold fr_kept; rewrite KS; reflexivity).
    constructor.
    + intros k. rewrite S1, Hkept. rewrite fr_find_app.
      destruct (fr_eq_nocase (h_name h) k) eqn:Ek.
      * unfold fr_merged. rewrite fr_values_app.
        assert (Epre : forallb (fun x => negb (fr_same k x)) tbl = true).
        { rewrite <- X. apply fr_forallb_ext. intros x. unfold fr_same. f_equal. symmetry. apply fr_eq_nocase_trans_r. exact Ek. }
        rewrite (fr_find_none _ tbl Epre). cbn [find]. unfold fr_same. rewrite Ek. cbn [option_map].
        assert (Ek' : fr_eq_nocase k (h_name h) = true) by (rewrite fr_eq_nocase_sym; exact Ek).
        rewrite (fr_values_ext _ _ (fr_kept hs) Ek'), Vn.
        replace (fr_values k [f]) with [h_value h] by (unfold fr_values; rewrite Ef; cbn; rewrite Ek; reflexivity).
        cbn [app fr_join map concat fr_nonempty]. unfold fr_hview. rewrite Pf2, app_nil_r.
        destruct (fr_eq_nocase k fr_CL); reflexivity.
      * assert (Em : fr_merged k (fr_kept hs ++ [f]) = fr_merged k (fr_kept hs)).
        { unfold fr_merged. rewrite fr_values_app.
          replace (fr_values k [f]) with (@nil bytes) by (unfold fr_values; rewrite Ef; cbn; rewrite Ek; reflexivity).
          rewrite app_nil_r. reflexivity. }
        rewrite Em, <- (Hv k).
        destruct (find (fr_same k) tbl); [reflexivity|]. cbn [find]. unfold fr_same. rewrite Ek. reflexivity.
    + rewrite S1. apply Forall_app. split; [exact Hh|]. constructor; [|constructor]. split; assumption.
    + rewrite S2, KS. exact Hr.
Qed.

Definition fr_process_all (lines : list bytes) (t : tx) : tx :=
  fold_left (fun t l => htp_process_request_header_generic l t) lines t.
Definition fr_fields (lines : list bytes) : list fr_field := map fr_field_of_line lines.

Lemma fr_inv_init t : t_request_headers t = [] -> t_req_header_repetitions t = O -> fr_inv [] t.
Proof. intros H1 H2. constructor; rewrite ?H1, ?H2; try reflexivity. constructor. Qed.

Lemma fr_inv_all lines : forall hs t, fr_inv hs t -> fr_inv (hs ++ fr_fields lines) (fr_process_all lines t).
Proof.
  induction lines as [|l lines IH]; intros hs t H.
  - cbn. rewrite app_nil_r. exact H.
  - replace (hs ++ fr_fields (l :: lines)) with ((hs ++ [fr_field_of_line l]) ++ fr_fields lines) by (rewrite <- app_assoc; reflexivity).
    cbn [fr_process_all fold_left]. apply IH. apply fr_inv_step. exact H.
Qed.

(* processing header lines touches the protocol number and the coding not at all *)
Lemma fr_process_frame line t :
  t_request_protocol_number (htp_process_request_header_generic line t) = t_request_protocol_number t.
Proof.
  unfold htp_process_request_header_generic. destruct (htp_parse_request_header_generic line) as [h fl].
  cbn [t_request_headers t_req_header_repetitions set].
  repeat match goal with |- context [match ?x with _ => _ end] => destruct x end; reflexivity.
Qed.
Lemma fr_process_all_frame lines : forall t, t_request_protocol_number (fr_process_all lines t) = t_request_protocol_number t.
Proof. induction lines as [|l lines IH]; intros t; cbn; [reflexivity|]. rewrite IH. apply fr_process_frame. Qed.

(* ================================================================ (b) the token in a merged value *)
Lemma fr_split_nonempty sep s : fr_split sep s <> [].
Proof. destruct s as [|x s]; cbn; [discriminate|]. destruct (x =? sep)%N; [discriminate|]. destruct (fr_split sep s); discriminate. Qed.
Lemma fr_split_app_sep sep a r : fr_split sep (a ++ sep :: r) = fr_split sep a ++ fr_split sep r.
Proof.
  induction a as [|x a IH]; cbn.
  - rewrite N.eqb_refl. reflexivity.
  - destruct (x =? sep)%N; [rewrite IH; reflexivity|].
    rewrite IH. pose proof (fr_split_nonempty sep a) as H. destruct (fr_split sep a); [congruence|]. reflexivity.
Qed.
Lemma fr_split_sp b : exists e es, fr_split 44 b = e :: es /\ fr_split 44 (32%N :: b) = (32%N :: e) :: es.
Proof.
  pose proof (fr_split_nonempty 44 b) as H. cbn [fr_split]. replace (32 =? 44)%N with false by reflexivity.
  destruct (fr_split 44 b) as [|e es]; [congruence|]. eauto.
Qed.
Lemma fr_has_tokenb_join2 a b tok :
  fr_has_tokenb (a ++ [44; 32]%N ++ b) tok = (fr_has_tokenb a tok || fr_has_tokenb b tok)%bool.
Proof.
  unfold fr_has_tokenb. change (a ++ [44; 32]%N ++ b) with (a ++ 44%N :: (32%N :: b)).
  rewrite fr_split_app_sep, existsb_app. f_equal.
  destruct (fr_split_sp b) as [e [es [E1 E2]]]. rewrite E1, E2.
  cbn [existsb]. f_equal.
Qed.
Lemma fr_has_tokenb_join tok : forall vs v,
  fr_has_tokenb (fr_join (v :: vs)) tok = existsb (fun x => fr_has_tokenb x tok) (v :: vs).
Proof.
  induction vs as [|x vs IH]; intros v.
  - cbn. rewrite app_nil_r, orb_false_r. reflexivity.
  - change (fr_join (v :: x :: vs)) with (v ++ [44; 32]%N ++ fr_join (x :: vs)).
    rewrite fr_has_tokenb_join2, IH. reflexivity.
Qed.

(* ================================================================ (b) the arbitration *)
Ltac fr_bits :=
  unfold flag_set, fr_verdict_bits, fr_bit; cbn [frv_smuggling frv_invalid_te frv_invalid_cl frv_req_invalid];
  apply N.bits_inj; intros ?n; repeat rewrite N.lor_spec; repeat rewrite N.bits_0;
  repeat match goal with |- context [N.testbit ?a ?n] => destruct (N.testbit a n) end; reflexivity.

Ltac fr_cbn := cbn -[N.lor c_HTP_REQUEST_SMUGGLING c_HTP_REQUEST_INVALID_T_E c_HTP_REQUEST_INVALID_C_L c_HTP_REQUEST_INVALID].

Theorem fr_framing lines t0 :
  t_request_headers t0 = [] -> t_req_header_repetitions t0 = O ->
  let t := fr_process_all lines t0 in
  let v := fr_verdict (t_request_protocol_number t0) (fr_fields lines) in
  t_request_transfer_coding (rq_te_cl t) = fr_coding_num (frv_coding v) /\
  t_flags (rq_te_cl t) = N.lor (t_flags t) (fr_verdict_bits v).
Proof.
  intros H1 H2 t v.
  pose proof (fr_inv_all lines [] t0 (fr_inv_init t0 H1 H2)) as [Hv Hh _]. cbn [app] in *. fold t in Hv, Hh.
  assert (Hn : Forall (fun h => fr_nonul (h_name h) = true) (t_request_headers t)).
  { eapply Forall_impl; [|exact Hh]. intros h [_ H]. exact H. }
  pose proof (fr_process_all_frame lines t0) as Hp. fold t in Hp.
  unfold rq_te_cl. rewrite !(fr_get_c _ _ Hn).
  change rq_str_content_length_lc with fr_CL. change rq_str_transfer_encoding with fr_TE. change rq_str_chunked with fr_CHUNKED.
  pose proof (Hv fr_TE) as Vte. pose proof (Hv fr_CL) as Vcl.
  subst v. unfold fr_verdict. rewrite <- Hp.
  set (proto := t_request_protocol_number t) in *.
  destruct (find (fr_same fr_TE) (t_request_headers t)) as [te|] eqn:Fte.
  - cbn [option_map] in Vte. symmetry in Vte. unfold fr_hview in Vte. apply fr_merged_values in Vte as [v1 [more [T1 [T2 _]]]].
    replace (fr_eq_nocase fr_TE fr_CL) with false in T2 by reflexivity.
    rewrite T1. rewrite (fr_has_token_bool fr_CHUNKED eq_refl), T2, fr_has_tokenb_join.
    destruct (existsb _ (v1 :: more)) eqn:Ech; cbn [negb].
    + destruct (find (fr_same fr_CL) _) as [cl|] eqn:Fcl.
      * cbn [option_map] in Vcl. symmetry in Vcl. unfold fr_hview in Vcl. apply fr_merged_values in Vcl as [c1 [cmore [C1 _]]]. rewrite C1.
        destruct (proto <? c_HTP_PROTOCOL_1_1); fr_cbn; (split; [reflexivity | fr_bits]).
      * cbn [option_map] in Vcl. symmetry in Vcl. apply fr_merged_none in Vcl. rewrite Vcl.
        destruct (proto <? c_HTP_PROTOCOL_1_1); fr_cbn; (split; [reflexivity | fr_bits]).
    + fr_cbn. split; [reflexivity | fr_bits].
  - cbn [option_map] in Vte. symmetry in Vte. apply fr_merged_none in Vte. rewrite Vte.
    destruct (find (fr_same fr_CL) _) as [cl|] eqn:Fcl.
    + cbn [option_map] in Vcl. symmetry in Vcl. unfold fr_hview in Vcl. apply fr_merged_values in Vcl as [c1 [cmore [C1 [C2 C3]]]].
      replace (fr_eq_nocase fr_CL fr_CL) with true in C2 by reflexivity.
      assert (Hf : flag_has (h_flags cl) c_HTP_FIELD_FOLDED = false).
      { apply find_some in Fcl as [Hin _]. rewrite Forall_forall in Hh. apply (Hh cl Hin). }
      rewrite C1, C2, C3, Hf. unfold fr_cl_ok. rewrite Z.leb_antisym.
      destruct (parse_content_length c1 <? 0); destruct cmore; fr_cbn; (split; [reflexivity | fr_bits]).
    + cbn [option_map] in Vcl. symmetry in Vcl. apply fr_merged_none in Vcl. rewrite Vcl.
      fr_cbn. split; [reflexivity | fr_bits].
Qed.

(* ================================================================ the cap as a premise; invariance *)
Lemma fr_excess_state_fst hs : fst (fold_left fr_excess_step hs ([], O)) = hs.
Proof.
  assert (G : forall hs acc, fst (fold_left fr_excess_step hs acc) = fst acc ++ hs).
  { induction hs0 as [|f hs0 IH]; intros acc; cbn; [rewrite app_nil_r; reflexivity|]. rewrite IH. cbn. rewrite <- app_assoc. reflexivity. }
  apply (G hs ([], O)).
Qed.
Lemma fr_nexcess_snoc hs f : fr_nexcess (hs ++ [f]) = (if fr_is_excess hs f then S (fr_nexcess hs) else fr_nexcess hs).
Proof. unfold fr_nexcess. rewrite fold_left_app. cbn. rewrite fr_excess_state_fst. reflexivity. Qed.
Lemma fr_nexcess_mono hs f : (fr_nexcess hs <= fr_nexcess (hs ++ [f]))%nat.
Proof. rewrite fr_nexcess_snoc. destruct (fr_is_excess hs f); lia. Qed.

Lemma fr_keep_state_within hs : (fr_nexcess hs <= fr_cap)%nat -> fr_keep_state hs = (hs, fr_nexcess hs).
Proof.
  induction hs as [|f hs IH] using rev_ind; intros H; [reflexivity|].
  pose proof (fr_nexcess_mono hs f) as M. rewrite fr_keep_state_snoc, IH by lia.
  rewrite fr_nexcess_snoc in *. unfold fr_keep_step. cbn [fst snd].
  destruct (fr_is_excess hs f); cbn [andb]; [|reflexivity].
  destruct (Nat.leb_spec fr_cap (fr_nexcess hs)); [lia|reflexivity].
Qed.
Theorem fr_kept_within_cap hs : fr_within_cap hs = true -> fr_kept hs = hs.
Proof. unfold fr_within_cap, fr_kept. intros H. apply Nat.leb_le in H. rewrite fr_keep_state_within by exact H. reflexivity. Qed.

(* the verdict is a function of the Transfer-Encoding and Content-Length VALUES *)
Theorem fr_verdict_values proto hs hs' :
  fr_within_cap hs = true -> fr_within_cap hs' = true ->
  fr_values fr_TE hs = fr_values fr_TE hs' -> fr_values fr_CL hs = fr_values fr_CL hs' ->
  fr_verdict proto hs = fr_verdict proto hs'.
Proof. intros C1 C2 H1 H2. unfold fr_verdict. rewrite !fr_kept_within_cap, H1, H2 by assumption. reflexivity. Qed.

(* ... hence independent of the order of fields with different names *)
Lemma fr_values_swap k l1 a b l2 : fr_eq_nocase (fst a) (fst b) = false ->
  fr_values k (l1 ++ a :: b :: l2) = fr_values k (l1 ++ b :: a :: l2).
Proof.
  intros H. rewrite !fr_values_app. f_equal. unfold fr_values. cbn [filter].
  destruct (fr_eq_nocase (fst a) k) eqn:Ea; destruct (fr_eq_nocase (fst b) k) eqn:Eb; try reflexivity.
  exfalso. rewrite (fr_eq_nocase_trans_l _ _ (fst b) Ea) in H. rewrite fr_eq_nocase_sym in H. congruence.
Qed.
(* ... and of the letter case of the names *)
Lemma fr_values_recase k (g : bytes -> bytes) hs : (forall n, fr_eq_nocase (g n) n = true) ->
  fr_values k (map (fun f => (g (fst f), snd f)) hs) = fr_values k hs.
Proof.
  intros H. unfold fr_values. induction hs as [|f hs IH]; cbn; [reflexivity|].
  rewrite (fr_eq_nocase_trans_l _ _ k (H (fst f))). destruct (fr_eq_nocase (fst f) k); cbn; rewrite IH; reflexivity.
Qed.

(* ================================================================ (c) HTP_FIELD_FOLDED is never set *)
Theorem fr_never_folded lines t0 :
  t_request_headers t0 = [] -> t_req_header_repetitions t0 = O ->
  Forall (fun h => flag_has (h_flags h) c_HTP_FIELD_FOLDED = false) (t_request_headers (fr_process_all lines t0)).
Proof.
  intros H1 H2. pose proof (fr_inv_all lines [] t0 (fr_inv_init t0 H1 H2)) as [_ Hh _].
  eapply Forall_impl; [|exact Hh]. intros h [H _]. exact H.
Qed.
Theorem fr_parser_never_folded line :
  flag_has (h_flags (fst (htp_parse_request_header_generic line))) c_HTP_FIELD_FOLDED = false.
Proof. pose proof (fr_parse_header_facts line) as [_ H]. apply fr_parser_flag_bits in H. apply H. Qed.

(* ================================================================ (d) hostname syntax *)
Definition fr_notdot (b : N) : bool := negb (b =? 46)%N.
Definition fr_isdot (b : N) : bool := (b =? 46)%N.

Lemma fr_zleb a b : (Z.of_N a <=? Z.of_N b) = (a <=? b)%N.
Proof. unfold Z.leb, N.leb. rewrite N2Z.inj_compare. reflexivity. Qed.
Lemma fr_zeqb a b : (Z.of_N a =? Z.of_N b) = (a =? b)%N.
Proof. destruct (N.eqb_spec a b) as [->|H]; [apply Z.eqb_refl|]. apply Z.eqb_neq. intros E. apply N2Z.inj in E. contradiction. Qed.
Lemma fr_label_char_eq c : rq_label_char c = fr_label_char c.
Proof.
  unfold rq_label_char, fr_label_char, zb.
  change 97 with (Z.of_N 97). change 122 with (Z.of_N 122). change 65 with (Z.of_N 65). change 90 with (Z.of_N 90).
  change 48 with (Z.of_N 48). change 57 with (Z.of_N 57). change 45 with (Z.of_N 45). change 95 with (Z.of_N 95).
  rewrite !fr_zleb, !fr_zeqb. reflexivity.
Qed.
Lemma fr_take_drop p s : s = take_while p s ++ drop_while p s.
Proof. induction s as [|x s IH]; cbn; [reflexivity|]. destruct (p x); cbn; [f_equal; exact IH|reflexivity]. Qed.
Lemma fr_take_while_all p s : forallb p (take_while p s) = true.
Proof. induction s as [|x s IH]; cbn; [reflexivity|]. destruct (p x) eqn:E; cbn; [rewrite E; exact IH|reflexivity]. Qed.

Lemma fr_split_dot_nodot l : forallb fr_notdot l = true -> fr_split 46 l = [l].
Proof.
  induction l as [|x l IH]; cbn; intros H; [reflexivity|].
  apply andb_prop in H as [H1 H2]. unfold fr_notdot in H1. apply negb_true_iff in H1. rewrite H1, (IH H2). reflexivity.
Qed.
Lemma fr_split_dot_cons l r : forallb fr_notdot l = true -> fr_split 46 (l ++ 46%N :: r) = l :: fr_split 46 r.
Proof. intros H. rewrite fr_split_app_sep, (fr_split_dot_nodot l H). reflexivity. Qed.
Lemma fr_split_single sep s : fr_split sep s = [[]] -> s = [].
Proof.
  destruct s as [|x s]; [reflexivity|]. cbn. destruct (x =? sep)%N.
  - intros H. inversion H as [H1]. exfalso. exact (fr_split_nonempty sep s H1).
  - destruct (fr_split sep s); discriminate.
Qed.

Definition fr_labels_ok (ls : list bytes) : bool := forallb fr_label_ok (fr_drop_trailing_empty ls).

Lemma fr_last_cons {A} (a : A) q d : q <> [] -> last (a :: q) d = last q d.
Proof. destruct q; [congruence|reflexivity]. Qed.
Lemma fr_removelast_cons {A} (a : A) q : q <> [] -> removelast (a :: q) = a :: removelast q.
Proof. destruct q; [congruence|reflexivity]. Qed.
Lemma fr_drop_trailing_cons (l : bytes) (ps : list bytes) : ps <> [] -> ps <> [[]] ->
  fr_drop_trailing_empty (l :: ps) = l :: fr_drop_trailing_empty ps.
Proof.
  intros H1 H2. unfold fr_drop_trailing_empty.
  rewrite (@fr_last_cons bytes l ps [0%N] H1), (@fr_removelast_cons bytes l ps H1).
  destruct (last ps [0%N]) as [|y ys] eqn:El; [|reflexivity].
  destruct ps as [|p ps]; [congruence|].
  destruct ps as [|q ps]; [|reflexivity].
  cbn in El. subst p. exfalso. apply H2. reflexivity.
Qed.

Lemma fr_validate_step f s : s <> [] ->
  rq_validate_labels (S f) s =
  (let label := take_while fr_notdot s in
   let rest := drop_while fr_notdot s in
   fr_label_ok label &&
   match rest with
   | [] => true
   | _ => (length (take_while fr_isdot rest) =? 1)%nat && rq_validate_labels f (drop_while fr_isdot rest)
   end)%bool.
Proof.
  intros Hs. destruct s as [|c0 s0]; [congruence|]. cbn [rq_validate_labels]. set (s := c0 :: s0).
  change (fun b : N => negb (b =? 46)%N) with fr_notdot. change (fun b : N => (b =? 46)%N) with fr_isdot.
  cbv zeta. rewrite (fr_forallb_ext _ _ (take_while fr_notdot s) fr_label_char_eq). unfold fr_label_ok.
  destruct (forallb fr_label_char (take_while fr_notdot s)); cbn [negb]; [|rewrite andb_false_r; reflexivity].
  rewrite andb_true_r.
  destruct (Nat.eqb_spec (length (take_while fr_notdot s)) 0), (Nat.ltb_spec 63 (length (take_while fr_notdot s))),
           (Nat.leb_spec 1 (length (take_while fr_notdot s))), (Nat.leb_spec (length (take_while fr_notdot s)) 63);
    cbn [orb andb]; try reflexivity; try lia.
  destruct (drop_while fr_notdot s); [reflexivity|]. destruct (length _ =? 1)%nat; reflexivity.
Qed.

Lemma fr_validate_labels_spec : forall fuel s, s <> [] -> (length s < fuel)%nat ->
  rq_validate_labels fuel s = fr_labels_ok (fr_split 46 s).
Proof.
  induction fuel as [|f IH]; intros s Hs Hf; [lia|].
  rewrite (fr_validate_step f s Hs). cbv zeta.
  set (label := take_while fr_notdot s). set (rest := drop_while fr_notdot s).
  assert (Hsplit : s = label ++ rest) by apply fr_take_drop.
  assert (Hlab : forallb fr_notdot label = true) by apply fr_take_while_all.
  pose proof (drop_while_head fr_notdot s) as Hrest. fold rest in Hrest.
  destruct rest as [|d rest'] eqn:Er.
  - rewrite app_nil_r in Hsplit. rewrite Hsplit at 1. rewrite (fr_split_dot_nodot label Hlab).
    unfold fr_labels_ok, fr_drop_trailing_empty. cbn [last length Nat.leb].
    destruct label; reflexivity.
  - unfold fr_notdot in Hrest. apply negb_false_iff in Hrest. apply N.eqb_eq in Hrest. subst d.
    rewrite Hsplit at 1. rewrite (fr_split_dot_cons label rest' Hlab).
    cbn [take_while drop_while]. unfold fr_isdot at 1 3. cbn [N.eqb Pos.eqb].
    destruct rest' as [|c rest''].
    + cbn. replace (rq_validate_labels f []) with true by (destruct f; reflexivity).
      unfold fr_labels_ok, fr_drop_trailing_empty. cbn. rewrite andb_true_r. reflexivity.
    + cbn [take_while drop_while]. unfold fr_isdot at 1 2.
      destruct (c =? 46)%N eqn:Ec.
      * cbn [length]. replace (S (S (length (take_while fr_isdot rest''))) =? 1)%nat with false by reflexivity.
        cbn [andb]. rewrite andb_false_r. symmetry.
        apply N.eqb_eq in Ec. subst c.
        cbn [fr_split N.eqb Pos.eqb]. unfold fr_labels_ok.
        pose proof (fr_split_nonempty 46 rest'') as Hne.
        rewrite fr_drop_trailing_cons by (try discriminate; intros H; inversion H as [H0]; exact (Hne H0)).
        destruct (fr_split 46 rest'') as [|q qs] eqn:Eq; [congruence|].
        assert (Hd : exists X, fr_drop_trailing_empty ([] :: q :: qs) = [] :: X).
        { destruct qs as [|q2 qs].
          - unfold fr_drop_trailing_empty. cbn. destruct q; eauto.
          - rewrite fr_drop_trailing_cons by (try discriminate). eauto. }
        destruct Hd as [X ->]. cbn. rewrite andb_false_r. reflexivity.
      * cbn [length Nat.eqb andb]. unfold fr_isdot. rewrite Ec.
        assert (Hr : c :: rest'' <> []) by discriminate.
        rewrite (IH (c :: rest'') Hr).
        -- unfold fr_labels_ok. rewrite (fr_drop_trailing_cons label).
           ++ reflexivity.
           ++ apply fr_split_nonempty.
           ++ intros H. apply fr_split_single in H. discriminate.
        -- rewrite Hsplit, app_length in Hf. cbn in Hf. cbn. lia.
Qed.

Theorem fr_validate_hostname_spec h : htp_validate_hostname h = fr_valid_hostnameb h.
Proof.
  unfold htp_validate_hostname, fr_valid_hostnameb.
  destruct h as [|c0 r]; [reflexivity|].
  set (h := c0 :: r). 
  destruct (Nat.eqb_spec (length h) 0) as [E0|E0]; [subst h; cbn in E0; lia|].
  replace (1 <=? length h)%nat with true by (symmetry; apply Nat.leb_le; subst h; cbn; lia).
  cbn [orb andb].
  destruct (Nat.ltb_spec 255 (length h)) as [E1|E1].
  - replace (length h <=? 255)%nat with false by (symmetry; apply Nat.leb_gt; lia). reflexivity.
  - replace (length h <=? 255)%nat with true by (symmetry; apply Nat.leb_le; lia). cbn [andb].
    destruct (c0 =? 91)%N.
    + destruct (Nat.ltb_spec (length h) 2) as [E2|E2].
      * replace (2 <=? length h)%nat with false by (symmetry; apply Nat.leb_gt; lia). reflexivity.
      * replace (2 <=? length h)%nat with true by (symmetry; apply Nat.leb_le; lia). cbn [orb andb].
        rewrite Z.leb_antisym. destruct (Z.of_nat (length h - 2) <? c_INET6_ADDRSTRLEN); reflexivity.
    + apply fr_validate_labels_spec; [discriminate|lia].
Qed.

(* ================================================================ (d) host determination *)
Ltac fr_hbits :=
  unfold tx_set_flag, flag_set, fr_host_bits, fr_bit; cbn [frh_missing frh_ambiguous frh_hosth_invalid t_flags set];
  apply N.bits_inj; intros ?n; repeat rewrite N.lor_spec; repeat rewrite N.bits_0;
  repeat match goal with |- context [N.testbit ?a ?n] => destruct (N.testbit a n) end; reflexivity.

Theorem fr_host_flags nu t hosth :
  t_request_hostname t = None ->
  option_map h_value (rq_hdr_get_c (t_request_headers t) rq_str_host) = hosth ->
  t_flags (rq_host nu t) =
  N.lor (t_flags t) (fr_host_bits (fr_host_verdict (t_request_protocol_number t) (u_host nu) (u_port_number nu) hosth)).
Proof.
  intros Hnone Hh. unfold rq_host, fr_host_verdict.
  set (t1 := match u_host nu with Some h => t <| t_request_hostname := Some h |> | None => t end).
  assert (T1 : t_request_hostname t1 = u_host nu /\ t_flags t1 = t_flags t /\ t_request_headers t1 = t_request_headers t /\
               t_request_protocol_number t1 = t_request_protocol_number t).
  { subst t1. destruct (u_host nu); cbn; auto. }
  destruct T1 as [Ta [Tb [Tc Td]]].
  cbn [t_request_headers t_request_protocol_number set]. rewrite Tc, Td.
  destruct (rq_hdr_get_c (t_request_headers t) rq_str_host) as [h|]; cbn [option_map] in Hh; subst hosth.
  - unfold htp_parse_header_hostport.
    destruct (parse_hostport (h_value h)) as [[[hn pt] pn] bad].
    assert (Te : forall b, t_request_hostname (tx_set_flag b (t1 <| t_request_port_number := u_port_number nu |>)) = u_host nu) by (intros; cbn; exact Ta).
    assert (Te' : t_request_hostname (t1 <| t_request_port_number := u_port_number nu |>) = u_host nu) by (cbn; exact Ta).
    destruct hn as [hn|]; rewrite ?fr_validate_hostname_spec.
    + destruct (bad || negb (fr_valid_hostnameb hn))%bool; rewrite ?Te, ?Te'; destruct (u_host nu) as [uh|]; rewrite ?fr_cmp_nocase;
        try destruct (fr_eq_nocase hn uh); cbn [negb orb andb t_request_port_number set tx_set_flag];
        try destruct (u_port_number nu =? -1); try destruct (pn =? -1); try destruct (u_port_number nu =? pn);
        cbn [negb orb andb t_flags set tx_set_flag]; rewrite ?Tb; fr_hbits.
    + rewrite orb_false_r. destruct bad; rewrite ?Te, ?Te'; destruct (u_host nu) as [uh|];
        cbn [negb orb andb t_flags set tx_set_flag]; rewrite ?Tb; fr_hbits.
  - destruct (c_HTP_PROTOCOL_1_1 <=? t_request_protocol_number t); cbn [t_flags set tx_set_flag]; rewrite ?Tb; fr_hbits.
Qed.

(* ================================================================ frames *)
Lemma fr_process_frame_host line t :
  t_request_hostname (htp_process_request_header_generic line t) = t_request_hostname t.
Proof.
  unfold htp_process_request_header_generic. destruct (htp_parse_request_header_generic line) as [h fl].
  cbn [t_request_headers t_req_header_repetitions set].
  repeat match goal with |- context [match ?x with _ => _ end] => destruct x end; reflexivity.
Qed.
Lemma fr_process_all_frame_host lines : forall t, t_request_hostname (fr_process_all lines t) = t_request_hostname t.
Proof. induction lines as [|l lines IH]; intros t; cbn; [reflexivity|]. rewrite IH. apply fr_process_frame_host. Qed.
Lemma fr_process_flags line t :
  t_flags (htp_process_request_header_generic line t) = N.lor (t_flags t) (snd (htp_parse_request_header_generic line)).
Proof.
  unfold htp_process_request_header_generic. destruct (htp_parse_request_header_generic line) as [h fl].
  cbn [t_request_headers t_req_header_repetitions set snd].
  repeat match goal with |- context [match ?x with _ => _ end] => destruct x end; reflexivity.
Qed.

Lemma fr_te_cl_frame t :
  t_request_headers (rq_te_cl t) = t_request_headers t /\ t_request_hostname (rq_te_cl t) = t_request_hostname t /\
  t_request_protocol_number (rq_te_cl t) = t_request_protocol_number t.
Proof.
  unfold rq_te_cl.
  destruct (rq_hdr_get_c (t_request_headers t) rq_str_transfer_encoding) as [te|];
  destruct (rq_hdr_get_c (t_request_headers t) rq_str_content_length_lc) as [cl|];
  repeat match goal with
         | |- context [if ?b then _ else _] => destruct b
         end; cbn; auto.
Qed.

Lemma fr_host_lookup lines t0 :
  t_request_headers t0 = [] -> t_req_header_repetitions t0 = O ->
  option_map h_value (rq_hdr_get_c (t_request_headers (fr_process_all lines t0)) rq_str_host) = fr_host_value (fr_fields lines).
Proof.
  intros H1 H2. pose proof (fr_inv_all lines [] t0 (fr_inv_init t0 H1 H2)) as [Hv Hh _]. cbn [app] in *.
  assert (Hn : Forall (fun h => fr_nonul (h_name h) = true) (t_request_headers (fr_process_all lines t0))).
  { eapply Forall_impl; [|exact Hh]. intros h [_ H]. exact H. }
  rewrite (fr_get_c _ _ Hn). change rq_str_host with fr_HOST. unfold fr_host_value. rewrite <- (Hv fr_HOST).
  destruct (find _ _); reflexivity.
Qed.

Theorem fr_host_flags_lines nu lines t0 :
  t_request_headers t0 = [] -> t_req_header_repetitions t0 = O -> t_request_hostname t0 = None ->
  let t1 := rq_te_cl (fr_process_all lines t0) in
  t_flags (rq_host nu t1) =
  N.lor (t_flags t1) (fr_host_bits (fr_host_verdict (t_request_protocol_number t0) (u_host nu) (u_port_number nu)
                                                    (fr_host_value (fr_fields lines)))).
Proof.
  intros H1 H2 H3 t1. destruct (fr_te_cl_frame (fr_process_all lines t0)) as [F1 [F2 F3]]. fold t1 in F1, F2, F3.
  rewrite (fr_host_flags nu t1 (fr_host_value (fr_fields lines))).
  - rewrite F3, fr_process_all_frame. reflexivity.
  - rewrite F2, fr_process_all_frame_host. exact H3.
  - rewrite F1. apply fr_host_lookup; assumption.
Qed.

(* the request target's host: HTP_HOSTU_INVALID whenever it is not a valid hostname *)
Theorem fr_hostu_invalid g is_connect uri t t' :
  rq_uri_pipeline_opt g is_connect uri t = Some t' ->
  exists nu, t_parsed_uri t' = Some nu /\
             (forall h, u_host nu = Some h -> fr_valid_hostnameb h = false -> flag_has (t_flags t') c_HTP_HOSTU_INVALID = true).
Proof.
  unfold rq_uri_pipeline_opt. destruct (if is_connect then _ else _) as [[raw t1]|]; [|discriminate].
  destruct (match t_parsed_uri (t1 <| t_parsed_uri_raw := raw |>) with Some nu => _ | None => _ end) as [nu t2].
  intros H. inversion H; subst t'; clear H. exists nu.
  destruct (u_host nu) as [h|] eqn:Eh.
  - rewrite fr_validate_hostname_spec. destruct (fr_valid_hostnameb h) eqn:Ev; cbn; split; try reflexivity.
    + intros h' E. inversion E; subst. congruence.
    + intros h' E _. apply fr_lor_has. discriminate.
  - cbn. split; [reflexivity|]. intros h' E. discriminate.
Qed.

(* ================================================================ the checkers accept the model *)
Lemma fr_has_lor a b c : fr_has (N.lor a b) c = (fr_has a c || fr_has b c)%bool.
Proof.
  unfold fr_has. rewrite N.land_lor_distr_l.
  destruct (N.eqb_spec (N.land a c) 0) as [Ea|Ea], (N.eqb_spec (N.land b c) 0) as [Eb|Eb]; cbn.
  - rewrite Ea, Eb. reflexivity.
  - apply negb_true_iff, N.eqb_neq. intros H. apply N.lor_eq_0_iff in H. tauto.
  - apply negb_true_iff, N.eqb_neq. intros H. apply N.lor_eq_0_iff in H. tauto.
  - apply negb_true_iff, N.eqb_neq. intros H. apply N.lor_eq_0_iff in H. tauto.
Qed.

(* none of the indicator bits of this property is set yet *)
Definition fr_clean (f : N) : Prop :=
  fr_has f c_HTP_REQUEST_SMUGGLING = false /\ fr_has f c_HTP_REQUEST_INVALID_T_E = false /\
  fr_has f c_HTP_REQUEST_INVALID_C_L = false /\ fr_has f c_HTP_REQUEST_INVALID = false /\
  fr_has f c_HTP_HOST_MISSING = false /\ fr_has f c_HTP_HOST_AMBIGUOUS = false /\ fr_has f c_HTP_HOSTH_INVALID = false.

Lemma fr_parse_snd line : snd (htp_parse_request_header_generic line) = h_flags (fst (htp_parse_request_header_generic line)).
Proof. unfold htp_parse_request_header_generic. cbv zeta. destruct (_ || _)%bool; reflexivity. Qed.

Lemma fr_clean_process line t : fr_clean (t_flags t) -> fr_clean (t_flags (htp_process_request_header_generic line t)).
Proof.
  rewrite fr_process_flags, fr_parse_snd. pose proof (fr_parse_header_facts line) as [_ Hf]. cbv zeta in Hf.
  unfold fr_clean. rewrite !fr_has_lor. intros [A [B [C [D [E [F G]]]]]]. rewrite A, B, C, D, E, F, G.
  destruct Hf as [->|[->| ->]]; repeat split; reflexivity.
Qed.
Lemma fr_clean_all lines : forall t, fr_clean (t_flags t) -> fr_clean (t_flags (fr_process_all lines t)).
Proof. induction lines as [|l lines IH]; intros t H; cbn; [exact H|]. apply IH. apply fr_clean_process. exact H. Qed.

Lemma fr_verdict_bits_has v :
  fr_has (fr_verdict_bits v) c_HTP_REQUEST_SMUGGLING = frv_smuggling v /\
  fr_has (fr_verdict_bits v) c_HTP_REQUEST_INVALID_T_E = frv_invalid_te v /\
  fr_has (fr_verdict_bits v) c_HTP_REQUEST_INVALID_C_L = frv_invalid_cl v /\
  fr_has (fr_verdict_bits v) c_HTP_REQUEST_INVALID = frv_req_invalid v /\
  fr_has (fr_verdict_bits v) c_HTP_HOST_MISSING = false /\ fr_has (fr_verdict_bits v) c_HTP_HOST_AMBIGUOUS = false /\
  fr_has (fr_verdict_bits v) c_HTP_HOSTH_INVALID = false /\ fr_has (fr_verdict_bits v) c_HTP_HOSTU_INVALID = false.
Proof. destruct v as [c [] [] [] []]; repeat split; reflexivity. Qed.
Lemma fr_host_bits_has v :
  fr_has (fr_host_bits v) c_HTP_HOST_MISSING = frh_missing v /\
  fr_has (fr_host_bits v) c_HTP_HOST_AMBIGUOUS = frh_ambiguous v /\
  fr_has (fr_host_bits v) c_HTP_HOSTH_INVALID = frh_hosth_invalid v /\
  fr_has (fr_host_bits v) c_HTP_REQUEST_SMUGGLING = false /\ fr_has (fr_host_bits v) c_HTP_REQUEST_INVALID_T_E = false /\
  fr_has (fr_host_bits v) c_HTP_REQUEST_INVALID_C_L = false /\ fr_has (fr_host_bits v) c_HTP_REQUEST_INVALID = false.
Proof. destruct v as [[] [] []]; repeat split; reflexivity. Qed.

Theorem fr_check_holds lines t0 :
  t_request_headers t0 = [] -> t_req_header_repetitions t0 = O -> fr_clean (t_flags t0) ->
  let t' := rq_te_cl (fr_process_all lines t0) in
  fr_check (t_request_protocol_number t0) (fr_fields lines) (t_flags t') (t_request_transfer_coding t') = true.
Proof.
  intros H1 H2 Hc t'. destruct (fr_framing lines t0 H1 H2) as [Fc Ff]. cbv zeta in Fc, Ff. fold t' in Fc, Ff.
  pose proof (fr_clean_all lines t0 Hc) as [A [B [C [D _]]]].
  destruct (fr_verdict_bits_has (fr_verdict (t_request_protocol_number t0) (fr_fields lines))) as [VA [VB [VC [VD _]]]].
  unfold fr_check. rewrite Fc, Ff, !fr_has_lor, A, B, C, D, VA, VB, VC, VD, Z.eqb_refl. cbn [orb].
  rewrite !Bool.eqb_reflx. reflexivity.
Qed.

(* the property text's reading follows from the table inside the domain fr_text_premise *)
Theorem fr_text_partial proto hs cl_folded flags coding :
  fr_text_premise hs cl_folded = true -> fr_check proto hs flags coding = true ->
  fr_check_text proto hs cl_folded flags coding = true.
Proof.
  unfold fr_text_premise, fr_check, fr_check_text, fr_smuggling_trigger, fr_invalid_trigger, fr_verdict.
  intros P C. apply andb_prop in P as [P P3]. apply andb_prop in P as [P1 P2].
  rewrite (fr_kept_within_cap hs P1) in C.
  repeat (apply andb_prop in C as [C ?]).
  repeat match goal with H : Bool.eqb _ _ = true |- _ => apply Bool.eqb_prop in H end.
  apply Z.eqb_eq in C.
  destruct (fr_values fr_TE hs) as [|t1 tmore].
  2: set (ch := existsb (fun v : bytes => fr_has_tokenb v fr_CHUNKED) (t1 :: tmore)) in *; clearbody ch; destruct ch.
  all: destruct (fr_values fr_CL hs) as [|c1 cmore]; try destruct (fr_cl_ok c1); try destruct cmore as [|c2 cmore];
    try destruct cl_folded; try destruct (proto <? c_HTP_PROTOCOL_1_1);
    cbn [fr_nonempty length existsb andb orb negb Nat.leb frv_coding frv_smuggling frv_invalid_te frv_invalid_cl frv_req_invalid fr_coding_num implb] in *;
    try discriminate;
    repeat match goal with H : fr_has _ _ = _ |- _ => rewrite H end; cbn [implb andb]; try reflexivity;
    try (subst coding; reflexivity).
Qed.

Definition fr_hdr3 (h : header) : bytes * bytes * N := (h_name h, h_value h, h_flags h).
Lemma fr_lookup_map name tbl : fr_lookup name (map fr_hdr3 tbl) = option_map fr_hdr3 (find (fr_same name) tbl).
Proof. unfold fr_lookup. induction tbl as [|h tbl IH]; cbn; [reflexivity|]. unfold fr_same at 1. destruct (fr_eq_nocase (h_name h) name); [reflexivity|exact IH]. Qed.
Lemma fr_bytes_eqb_refl a : rq_bytes_eqb a a = true.
Proof. induction a as [|x a IH]; cbn; [reflexivity|]. rewrite N.eqb_refl, IH. reflexivity. Qed.
Lemma fr_opt_eqb_refl x : fr_opt_eqb x x = true.
Proof. destruct x as [[v b]|]; cbn; [|reflexivity]. rewrite fr_bytes_eqb_refl. destruct b; reflexivity. Qed.

Theorem fr_check_table_holds lines t0 :
  t_request_headers t0 = [] -> t_req_header_repetitions t0 = O ->
  fr_check_table (fr_fields lines) (map fr_hdr3 (t_request_headers (fr_process_all lines t0))) = true.
Proof.
  intros H1 H2. pose proof (fr_inv_all lines [] t0 (fr_inv_init t0 H1 H2)) as [Hv _ _]. cbn [app] in Hv.
  unfold fr_check_table. apply forallb_forall. intros name _.
  rewrite fr_lookup_map, <- (Hv name).
  destruct (find (fr_same name) _); cbn; [|reflexivity]. rewrite fr_bytes_eqb_refl. change fr_has with flag_has. rewrite Bool.eqb_reflx. reflexivity.
Qed.

Lemma fr_process_all_flags_mono lines : forall t c, fr_has (t_flags t) c = true -> fr_has (t_flags (fr_process_all lines t)) c = true.
Proof.
  induction lines as [|l lines IH]; intros t c H; cbn; [exact H|]. apply IH. rewrite fr_process_flags, fr_has_lor, H. reflexivity.
Qed.

Theorem fr_check_host_holds nu lines t0 :
  t_request_headers t0 = [] -> t_req_header_repetitions t0 = O -> t_request_hostname t0 = None -> fr_clean (t_flags t0) ->
  (forall uh, u_host nu = Some uh -> fr_valid_hostnameb uh = false -> fr_has (t_flags t0) c_HTP_HOSTU_INVALID = true) ->
  let t2 := rq_host nu (rq_te_cl (fr_process_all lines t0)) in
  fr_check_host (t_request_protocol_number t0) (u_host nu) (u_port_number nu) (fr_fields lines) (t_flags t2) = true.
Proof.
  intros H1 H2 H3 Hc Hu t2. subst t2. rewrite (fr_host_flags_lines nu lines t0 H1 H2 H3). cbv zeta.
  destruct (fr_framing lines t0 H1 H2) as [_ Ff]. cbv zeta in Ff. rewrite Ff.
  pose proof (fr_clean_all lines t0 Hc) as [_ [_ [_ [_ [E [F G]]]]]].
  destruct (fr_verdict_bits_has (fr_verdict (t_request_protocol_number t0) (fr_fields lines))) as [_ [_ [_ [_ [VE [VF [VG _]]]]]]].
  set (hv := fr_host_verdict _ _ _ _). destruct (fr_host_bits_has hv) as [HA [HB [HC _]]].
  unfold fr_check_host. fold hv. rewrite !fr_has_lor, E, F, G, VE, VF, VG, HA, HB, HC. cbn [orb]. rewrite !Bool.eqb_reflx. cbn [andb].
  destruct (u_host nu) as [uh|] eqn:Eu; [|reflexivity].
  destruct (fr_valid_hostnameb uh) eqn:Ev; [reflexivity|].
  rewrite (fr_process_all_flags_mono lines t0 _ (Hu uh eq_refl Ev)). reflexivity.
Qed.

(* ================================================================ (c) the two refuted clauses of the property text *)
(* the text's reading on the model: whenever a trigger is present the transaction is marked SMUGGLING *)
Definition fr_smuggling_full : Prop :=
  forall lines t0 cl_folded,
    t_request_headers t0 = [] -> t_req_header_repetitions t0 = O ->
    fr_within_cap (fr_fields lines) = true ->
    fr_smuggling_trigger (t_request_protocol_number t0) (fr_fields lines) cl_folded = true ->
    flag_has (t_flags (rq_te_cl (fr_process_all lines t0))) c_HTP_REQUEST_SMUGGLING = true.

(* witness 1: two Content-Length fields next to "Transfer-Encoding: gzip": INVALID, not SMUGGLING *)
Definition fr_w_dup_cl_lines : list bytes := [[67;111;110;116;101;110;116;45;76;101;110;103;116;104;58;32;53;13;10]%N; [67;111;110;116;101;110;116;45;76;101;110;103;116;104;58;32;53;13;10]%N; [84;114;97;110;115;102;101;114;45;69;110;99;111;100;105;110;103;58;32;103;122;105;112;13;10]%N].
Definition fr_tx0 : tx := tx_new 0 0 <| t_request_protocol_number := c_HTP_PROTOCOL_1_1 |>.
Lemma fr_w_dup_cl_facts :
  t_request_headers fr_tx0 = [] /\ t_req_header_repetitions fr_tx0 = O /\
  fr_within_cap (fr_fields fr_w_dup_cl_lines) = true /\
  fr_smuggling_trigger (t_request_protocol_number fr_tx0) (fr_fields fr_w_dup_cl_lines) false = true /\
  fr_text_premise (fr_fields fr_w_dup_cl_lines) false = false /\
  flag_has (t_flags (rq_te_cl (fr_process_all fr_w_dup_cl_lines fr_tx0))) c_HTP_REQUEST_SMUGGLING = false /\
  flag_has (t_flags (rq_te_cl (fr_process_all fr_w_dup_cl_lines fr_tx0))) c_HTP_REQUEST_INVALID = true /\
  t_request_transfer_coding (rq_te_cl (fr_process_all fr_w_dup_cl_lines fr_tx0)) = c_HTP_CODING_INVALID.
Proof. vm_compute. repeat split; reflexivity. Qed.
Theorem fr_smuggling_full_refuted : ~ fr_smuggling_full.
Proof.
  intros H. destruct fr_w_dup_cl_facts as [A [B [C [D [_ [E _]]]]]].
  specialize (H fr_w_dup_cl_lines fr_tx0 false A B C D). congruence.
Qed.

(* witness 2: a folded Content-Length through the whole connection parser ("Content-Length:" CRLF SP "5"):
   the body is framed by it (identity, 5 bytes) and no indicator is raised *)
Definition fr_cfg0 : cfg := cp_make_cfg 0 5000 512 false false 0.
Definition fr_run_request (req : bytes) : tx :=
  tx_get (fst (cp_run (script_lookup []) fr_cfg0 connp_new [OpOpen; OpReqData req; OpReqClose])) 0.
Definition fr_w_folded_request : bytes := [80;79;83;84;32;47;32;72;84;84;80;47;49;46;49;13;10;72;111;115;116;58;32;97;13;10;67;111;110;116;101;110;116;45;76;101;110;103;116;104;58;13;10;32;53;13;10;13;10;97;98;99;100;101]%N.
Definition fr_w_unfolded_request : bytes := [80;79;83;84;32;47;32;72;84;84;80;47;49;46;49;13;10;72;111;115;116;58;32;97;13;10;67;111;110;116;101;110;116;45;76;101;110;103;116;104;58;32;53;13;10;13;10;97;98;99;100;101]%N.
Lemma fr_w_folded_facts :
  let t := fr_run_request fr_w_folded_request in
  map (fun h => (h_name h, h_value h)) (t_request_headers t) = [([72;111;115;116]%N, [97%N]); ([67;111;110;116;101;110;116;45;76;101;110;103;116;104]%N, [53%N])] /\
  t_request_transfer_coding t = c_HTP_CODING_IDENTITY /\ t_request_content_length t = 5 /\ t_request_entity_len t = 5 /\
  flag_has (t_flags t) c_HTP_REQUEST_SMUGGLING = false /\ t_flags t = 0%N /\
  fr_smuggling_trigger (t_request_protocol_number t) (map (fun h => (h_name h, h_value h)) (t_request_headers t)) true = true /\
  t_flags (fr_run_request fr_w_unfolded_request) = t_flags t.
Proof. vm_compute. repeat split; reflexivity. Qed.

Theorem fr_text_holds lines t0 cl_folded :
  t_request_headers t0 = [] -> t_req_header_repetitions t0 = O -> fr_clean (t_flags t0) ->
  fr_text_premise (fr_fields lines) cl_folded = true ->
  let t' := rq_te_cl (fr_process_all lines t0) in
  fr_check_text (t_request_protocol_number t0) (fr_fields lines) cl_folded (t_flags t') (t_request_transfer_coding t') = true.
Proof. intros H1 H2 H3 P t'. apply fr_text_partial; [exact P|]. apply fr_check_holds; assumption. Qed.

(* beyond the cap the chunked token of a dropped field is not seen: 67 x "Transfer-Encoding: gzip" then "chunked" *)
Definition fr_w_cap_lines : list bytes :=
  repeat [84;69;58;120]%N 0 ++
  repeat [84;114;97;110;115;102;101;114;45;69;110;99;111;100;105;110;103;58;32;103;122;105;112]%N 67 ++
  [[84;114;97;110;115;102;101;114;45;69;110;99;111;100;105;110;103;58;32;99;104;117;110;107;101;100]%N].
Lemma fr_w_cap_facts :
  fr_within_cap (fr_fields fr_w_cap_lines) = false /\
  fr_within_cap (fr_fields (firstn 66 fr_w_cap_lines)) = true /\ fr_within_cap (fr_fields (firstn 67 fr_w_cap_lines)) = false /\
  length (fr_kept (fr_fields fr_w_cap_lines)) = 66%nat /\
  fr_smuggling_trigger c_HTP_PROTOCOL_1_0 (fr_fields fr_w_cap_lines) false = true /\
  frv_smuggling (fr_verdict c_HTP_PROTOCOL_1_0 (fr_fields fr_w_cap_lines)) = false /\
  frv_coding (fr_verdict c_HTP_PROTOCOL_1_0 (fr_fields fr_w_cap_lines)) = FrInvalid.
Proof. vm_compute. repeat split; reflexivity. Qed.

(* ================================================================ (d) the text's reading of "invalid host" *)
Theorem fr_host_text_partial proto uhost uport hs flags :
  fr_host_text_premise uhost = true -> fr_check_host proto uhost uport hs flags = true -> fr_check_host_text uhost flags = true.
Proof.
  unfold fr_host_text_premise, fr_check_host, fr_check_host_text. destruct uhost as [uh|]; [|reflexivity].
  intros P C. apply Bool.eqb_prop in P. rewrite P. apply andb_prop in C as [_ C]. exact C.
Qed.
(* witness: "GET http://%5b%3a%3a1x/ HTTP/1.1": the normalised target host is "[::1x", accepted as a hostname *)
Definition fr_w_bracket_request : bytes := [71;69;84;32;104;116;116;112;58;47;47;37;53;98;37;51;97;37;51;97;49;120;47;32;72;84;84;80;47;49;46;49;13;10;72;111;115;116;58;32;97;13;10;13;10]%N.
Lemma fr_w_bracket_facts :
  let t := fr_run_request fr_w_bracket_request in
  option_map u_host (t_parsed_uri t) = Some (Some [91;58;58;49;120]%N) /\
  flag_has (t_flags t) c_HTP_HOSTU_INVALID = false /\
  fr_valid_hostname_strict [91;58;58;49;120]%N = false /\ htp_validate_hostname [91;58;58;49;120]%N = true /\
  fr_check_host_text (Some [91;58;58;49;120]%N) (t_flags t) = false.
Proof. vm_compute. repeat split; reflexivity. Qed.

(* ================================================================ the header parser strips the optional whitespace *)
Definition fr_is_eol (e : bytes) : bool :=
  match e with [] => true | [a] => (a =? LF)%N | [a; b] => (a =? CR)%N && (b =? LF)%N | _ => false end.
Definition fr_not_crlf (c : N) : bool := negb (c =? CR)%N && negb (c =? LF)%N.

Lemma fr_chomp_rev_keep r : (match r with [] => True | c :: _ => fr_not_crlf c = true end) -> rq_chomp_rev r = r.
Proof.
  destruct r as [|c r]; [reflexivity|]. unfold fr_not_crlf. intros H. apply andb_prop in H as [H1 H2].
  apply negb_true_iff in H1. apply negb_true_iff in H2. cbn. rewrite H2, H1. reflexivity.
Qed.
Lemma fr_rev_append_rev {A} (l acc : list A) : rev_append l acc = rev l ++ acc.
Proof. apply rev_append_rev. Qed.

(* chomp removes the line terminator when what precedes it does not end in CR or LF *)
Lemma fr_chomp_eol s e : fr_is_eol e = true -> (match rev s with [] => True | c :: _ => fr_not_crlf c = true end) ->
  htp_chomp (s ++ e) = s.
Proof.
  intros He Hs. unfold htp_chomp. rewrite !fr_rev_append_rev, !app_nil_r, rev_app_distr.
  assert (X : rq_chomp_rev (rev e ++ rev s) = rev s).
  { destruct e as [|a [|b [|c e]]]; cbn in He; try discriminate.
    - cbn. apply fr_chomp_rev_keep. exact Hs.
    - apply N.eqb_eq in He. subst a. cbn [rev app]. change (rq_chomp_rev (LF :: rev s)) with
        (match rev s with [] => [] | y :: r2 => if (y =? CR)%N then rq_chomp_rev r2 else rq_chomp_rev (rev s) end).
      destruct (rev s) as [|y r2] eqn:E; [reflexivity|].
      unfold fr_not_crlf in Hs. apply andb_prop in Hs as [H1 H2]. apply negb_true_iff in H1. rewrite H1.
      apply fr_chomp_rev_keep. unfold fr_not_crlf. rewrite H1. exact H2.
    - apply andb_prop in He as [H1 H2]. apply N.eqb_eq in H1. apply N.eqb_eq in H2. subst a b. cbn [rev app].
      change (rq_chomp_rev (LF :: CR :: rev s)) with (rq_chomp_rev (rev s)).
      apply fr_chomp_rev_keep. exact Hs. }
  rewrite X. apply rev_involutive.
Qed.

Definition fr_lastok (l : bytes) : Prop := match rev l with [] => True | c :: _ => fr_not_crlf c = true end.
Lemma fr_lastok_app a b : fr_lastok b -> (b = [] -> fr_lastok a) -> fr_lastok (a ++ b).
Proof.
  unfold fr_lastok. rewrite rev_app_distr. intros Hb Ha. destruct (rev b) as [|c r] eqn:E; cbn.
  - apply Ha. apply (f_equal (@rev N)) in E. rewrite rev_involutive in E. exact E.
  - exact Hb.
Qed.
Lemma fr_lastok_all l : forallb fr_not_crlf l = true -> fr_lastok l.
Proof.
  unfold fr_lastok. intros H. destruct (rev l) as [|c r] eqn:E; [exact I|].
  rewrite forallb_forall in H. apply H. apply in_rev. rewrite E. left. reflexivity.
Qed.

(* byte facts about the classes involved *)
Lemma fr_tbool_byte t c : length t = 256%nat -> tbool t c = true -> (c < 256)%N.
Proof.
  intros L H. destruct (N.ltb_spec c 256) as [X|X]; [exact X|].
  unfold tbool in H. rewrite tget_overflow in H by (rewrite L; exact X). discriminate.
Qed.
Lemma fr_lws_facts c : htp_is_lws c = true -> fr_not_crlf c = true /\ (c =? 0)%N = false /\ (c =? 58)%N = false.
Proof.
  intros H. assert (L : (c < 256)%N) by (apply (fr_tbool_byte t_htp_is_lws); [reflexivity|exact H]).
  assert (S : forall b, (b < 256)%N -> (negb (htp_is_lws b) || (fr_not_crlf b && negb (b =? 0)%N && negb (b =? 58)%N)) = true)
    by (apply byte_sweep; vm_compute; reflexivity).
  specialize (S c L). rewrite H in S. cbn [negb orb] in S. apply andb_prop in S as [S S3]. apply andb_prop in S as [S1 S2].
  apply negb_true_iff in S2. apply negb_true_iff in S3. auto.
Qed.
Lemma fr_token_facts c : htp_is_token c = true -> htp_is_lws c = false /\ (c =? 0)%N = false /\ (c =? 58)%N = false.
Proof.
  intros H. assert (L : (c < 256)%N) by (apply (fr_tbool_byte t_htp_is_token); [reflexivity|exact H]).
  assert (S : forall b, (b < 256)%N -> (negb (htp_is_token b) || (negb (htp_is_lws b) && negb (b =? 0)%N && negb (b =? 58)%N)) = true)
    by (apply byte_sweep; vm_compute; reflexivity).
  specialize (S c L). rewrite H in S. cbn [negb orb] in S. apply andb_prop in S as [S S3]. apply andb_prop in S as [S1 S2].
  apply negb_true_iff in S1. apply negb_true_iff in S2. apply negb_true_iff in S3. auto.
Qed.

Lemma fr_fwd_exact p : forall a b n pos, forallb p a = true -> (match b with [] => True | c :: _ => p c = false end) ->
  (length a <= n)%nat -> rq_fwd p (a ++ b) n pos = (pos + length a)%nat.
Proof.
  induction a as [|x a IH]; intros b n pos Ha Hb Hn.
  - cbn [app length]. rewrite Nat.add_0_r. destruct b as [|c b]; destruct n; try reflexivity. cbn. rewrite Hb. reflexivity.
  - cbn in Ha. apply andb_prop in Ha as [H1 H2]. destruct n as [|n]; [cbn in Hn; lia|].
    cbn [app rq_fwd length]. rewrite H1, (IH b n (S pos) H2 Hb) by (cbn in Hn; lia). lia.
Qed.
Lemma fr_at_app_r (a b : bytes) i : rq_at (a ++ b) (length a + i) = rq_at b i.
Proof. unfold rq_at. rewrite app_nth2 by lia. f_equal. lia. Qed.
Lemma fr_at_app_l (a b : bytes) i : (i < length a)%nat -> rq_at (a ++ b) i = rq_at a i.
Proof. unfold rq_at. intros H. apply app_nth1. exact H. Qed.
Lemma fr_at_last (a : bytes) c : rq_at (a ++ [c]) (length a) = c.
Proof. unfold rq_at. rewrite app_nth2 by lia. rewrite Nat.sub_diag. reflexivity. Qed.

Lemma fr_name_end_exact nm c : htp_is_lws c = false -> forall pre rest, forallb htp_is_lws pre = true ->
  rq_name_end ((nm ++ [c]) ++ pre ++ rest) (length (nm ++ [c]) + length pre) = length (nm ++ [c]).
Proof.
  intros Hc. induction pre as [|x pre IH] using rev_ind; intros rest Hp.
  - cbn [length app]. rewrite Nat.add_0_r, app_length. cbn [length]. rewrite Nat.add_1_r. cbn [rq_name_end].
    rewrite fr_at_app_l by (rewrite app_length; cbn; lia). rewrite fr_at_last, Hc. reflexivity.
  - rewrite forallb_app in Hp. apply andb_prop in Hp as [Hp Hx]. cbn in Hx. rewrite andb_true_r in Hx.
    rewrite (app_length pre [x]). cbn [length]. rewrite Nat.add_1_r, Nat.add_succ_r. cbn [rq_name_end].
    rewrite fr_at_app_r. 
    replace (rq_at ((pre ++ [x]) ++ rest) (length pre)) with x.
    + rewrite Hx. replace ((nm ++ [c]) ++ (pre ++ [x]) ++ rest) with ((nm ++ [c]) ++ pre ++ ([x] ++ rest)) by (rewrite <- (app_assoc pre); reflexivity).
      apply IH. exact Hp.
    + rewrite <- app_assoc. unfold rq_at. rewrite app_nth2 by lia. rewrite Nat.sub_diag. reflexivity.
Qed.

Lemma fr_value_end_exact A v c : htp_is_lws c = false -> forall ows tail n, forallb htp_is_lws ows = true ->
  (length ows <= n)%nat ->
  rq_value_end (A ++ (v ++ [c]) ++ ows ++ tail) n (length A + length (v ++ [c]) + length ows) (length A) =
  (length A + length (v ++ [c]))%nat.
Proof.
  intros Hc. induction ows as [|x ows IH] using rev_ind; intros tail n Ho Hn.
  - cbn [length]. rewrite Nat.add_0_r. destruct n as [|n]; [reflexivity|]. cbn [rq_value_end].
    replace (rq_at (A ++ (v ++ [c]) ++ [] ++ tail) (length A + length (v ++ [c]) - 1)) with c.
    + rewrite Hc, andb_false_r. reflexivity.
    + rewrite app_length. cbn [length]. replace (length A + (length v + 1) - 1)%nat with (length A + length v)%nat by lia.
      rewrite fr_at_app_r. rewrite <- app_assoc. rewrite <- (Nat.add_0_r (length v)). rewrite fr_at_app_r. reflexivity.
  - rewrite forallb_app in Ho. apply andb_prop in Ho as [Ho Hx]. cbn in Hx. rewrite andb_true_r in Hx.
    rewrite (app_length ows [x]) in *. cbn [length] in *. destruct n as [|n]; [lia|]. cbn [rq_value_end].
    replace (length A + length (v ++ [c]) + (length ows + 1) - 1)%nat with (length A + length (v ++ [c]) + length ows)%nat by lia.
    replace (rq_at (A ++ (v ++ [c]) ++ (ows ++ [x]) ++ tail) (length A + length (v ++ [c]) + length ows)) with x.
    + rewrite Hx.
      replace (length A <? length A + length (v ++ [c]) + length ows)%nat with true
        by (symmetry; apply Nat.ltb_lt; rewrite app_length; cbn; lia).
      cbn [andb].
      replace (A ++ (v ++ [c]) ++ (ows ++ [x]) ++ tail) with (A ++ (v ++ [c]) ++ ows ++ ([x] ++ tail)) by (rewrite <- (app_assoc ows); reflexivity).
      apply IH; [exact Ho|lia].
    + rewrite <- Nat.add_assoc, fr_at_app_r, fr_at_app_r. rewrite <- app_assoc. rewrite <- (Nat.add_0_r (length ows)). rewrite fr_at_app_r. reflexivity.
Qed.

Definition fr_value_ok (value : bytes) : Prop :=
  match value with [] => True | c :: _ => htp_is_lws c = false end /\
  match rev value with [] => True | c :: _ => htp_is_lws c = false /\ fr_not_crlf c = true end.

Theorem fr_header_roundtrip name value pre ows1 ows2 eol :
  name <> [] -> forallb htp_is_token name = true -> fr_value_ok value ->
  forallb htp_is_lws pre = true -> forallb htp_is_lws ows1 = true -> forallb htp_is_lws ows2 = true -> fr_is_eol eol = true ->
  fr_field_of_line (name ++ pre ++ [58%N] ++ ows1 ++ value ++ ows2 ++ eol) = (name, value).
Proof.
  intros Hne Htok [Hv1 Hv2] Hpre Ho1 Ho2 Heol.
  assert (Hlws_nc : forall l, forallb htp_is_lws l = true -> forallb fr_not_crlf l = true).
  { intros l H. rewrite forallb_forall in *. intros x Hx. apply (fr_lws_facts x (H x Hx)). }
  set (d := name ++ pre ++ [58%N] ++ ows1 ++ value ++ ows2).
  assert (Hd : htp_chomp (name ++ pre ++ [58%N] ++ ows1 ++ value ++ ows2 ++ eol) = d).
  { replace (name ++ pre ++ [58%N] ++ ows1 ++ value ++ ows2 ++ eol) with (d ++ eol) by (subst d; rewrite <- !app_assoc; reflexivity).
    apply fr_chomp_eol; [exact Heol|]. subst d.
    change (fr_lastok (name ++ pre ++ [58%N] ++ ows1 ++ value ++ ows2)).
    assert (L4 : fr_lastok (value ++ ows2)).
    { apply fr_lastok_app; [apply fr_lastok_all, Hlws_nc, Ho2|intros _]. unfold fr_lastok. destruct (rev value); [exact I|apply Hv2]. }
    assert (L3 : fr_lastok (ows1 ++ value ++ ows2)).
    { apply fr_lastok_app; [exact L4|intros _]. apply fr_lastok_all, Hlws_nc, Ho1. }
    assert (L2 : fr_lastok ([58%N] ++ ows1 ++ value ++ ows2)).
    { apply fr_lastok_app; [exact L3|intros _]. unfold fr_lastok. cbn. reflexivity. }
    apply fr_lastok_app; [|intros E; apply app_eq_nil in E as [_ E]; discriminate].
    apply fr_lastok_app; [exact L2|intros E; discriminate]. }
  unfold fr_field_of_line, htp_parse_request_header_generic. rewrite Hd. clear Hd. cbv zeta.
  set (P := fun b : N => (negb (b =? 0)%N && negb (b =? 58)%N)%bool).
  set (cp := (length name + length pre)%nat).
  set (tailv := ows1 ++ value ++ ows2).
  assert (Ed : d = (name ++ pre) ++ [58%N] ++ tailv) by (subst d tailv; rewrite <- !app_assoc; reflexivity).
  assert (Elen : length d = (cp + 1 + length tailv)%nat) by (rewrite Ed, !app_length; cbn; subst cp; lia).
  assert (HP : forallb P (name ++ pre) = true).
  { rewrite forallb_app. apply andb_true_intro. split; apply forallb_forall; intros x Hx; unfold P.
    - rewrite forallb_forall in Htok. destruct (fr_token_facts x (Htok x Hx)) as [_ [A B]]. rewrite A, B. reflexivity.
    - rewrite forallb_forall in Hpre. destruct (fr_lws_facts x (Hpre x Hx)) as [_ [A B]]. rewrite A, B. reflexivity. }
  assert (Ecp : rq_fwd_while P d 0 (length d) = cp).
  { unfold rq_fwd_while. cbn [skipn]. rewrite Nat.sub_0_r. rewrite Ed at 1.
    rewrite (fr_fwd_exact P (name ++ pre) ([58%N] ++ tailv) (length d) 0 HP); [rewrite app_length; reflexivity|reflexivity|].
    rewrite Elen, app_length. subst cp. lia. }
  rewrite Ecp.
  assert (Eat : rq_at d cp = 58%N).
  { rewrite Ed. subst cp. rewrite <- app_length. rewrite <- (Nat.add_0_r (length (name ++ pre))). rewrite fr_at_app_r. reflexivity. }
  rewrite Eat.
  replace (cp =? length d)%nat with false by (symmetry; apply Nat.eqb_neq; lia).
  cbn [orb N.eqb]. 
  destruct (exists_last Hne) as [nm [c Enm]].
  assert (Hc : htp_is_lws c = false).
  { rewrite forallb_forall in Htok. apply (fr_token_facts c). apply Htok. rewrite Enm. apply in_or_app. right. left. reflexivity. }
  assert (Ene : rq_name_end d cp = length name).
  { subst cp. rewrite Ed, Enm. rewrite <- (app_assoc (nm ++ [c]) pre). apply fr_name_end_exact; assumption. }
  rewrite Ene.
  replace (cp <? length d)%nat with true by (symmetry; apply Nat.ltb_lt; lia).
  assert (Eskip : skipn (S cp) d = tailv).
  { rewrite Ed. replace (S cp) with (length (name ++ pre) + 1)%nat by (rewrite app_length; subst cp; lia).
    rewrite skipn_app, skipn_all2 by lia. replace (length (name ++ pre) + 1 - length (name ++ pre))%nat with 1%nat by lia. reflexivity. }
  assert (Ename : rq_sub d 0 (length name) = name).
  { unfold rq_sub. cbn [skipn]. rewrite Nat.sub_0_r. subst d. rewrite firstn_app, Nat.sub_diag, firstn_all. cbn. apply app_nil_r. }
  cbn [fst h_name h_value]. rewrite Ename. f_equal.
  unfold rq_fwd_while. rewrite Eskip.
  assert (Hcase : value = [] \/ value <> []) by (destruct value; [left; reflexivity|right; discriminate]).
  destruct Hcase as [Eval|Hvne].
  - (* empty value *)
    subst value.
    assert (Hall : forallb htp_is_lws tailv = true) by (subst tailv; cbn [app]; rewrite forallb_app, Ho1, Ho2; reflexivity).
    assert (Efw : rq_fwd htp_is_lws tailv (length d - S cp) (S cp) = length d).
    { pose proof (fr_fwd_exact htp_is_lws tailv [] (length d - S cp) (S cp) Hall I) as X. rewrite app_nil_r in X. rewrite X; lia. }
    rewrite Efw.
    assert (Eve : rq_value_end d (length d) (length d) (length d) = length d).
    { destruct (length d) as [|n] eqn:E; [reflexivity|]. cbn [rq_value_end].
      replace (S n <? S n - 1)%nat with false by (symmetry; apply Nat.ltb_ge; lia). reflexivity. }
    rewrite Eve. unfold rq_sub. rewrite Nat.sub_diag. reflexivity.
  - destruct (exists_last Hvne) as [v [cv Ev]].
    assert (Hcv : htp_is_lws cv = false) by (rewrite Ev, rev_app_distr in Hv2; cbn in Hv2; apply Hv2).
    assert (Hhd : match value ++ ows2 with [] => True | x :: _ => htp_is_lws x = false end) by (destruct value; [congruence|exact Hv1]).
    subst tailv.
    rewrite (fr_fwd_exact htp_is_lws ows1 (value ++ ows2) (length d - S cp) (S cp) Ho1 Hhd) by (rewrite Elen, !app_length; lia).
    set (A := name ++ pre ++ [58%N] ++ ows1).
    assert (EA : (S cp + length ows1)%nat = length A) by (subst A cp; rewrite !app_length; cbn; lia).
    assert (Ed2 : d = A ++ (v ++ [cv]) ++ ows2 ++ []) by (subst d A; rewrite <- Ev, app_nil_r, <- !app_assoc; reflexivity).
    assert (Elen2 : length d = (length A + length (v ++ [cv]) + length ows2)%nat) by (rewrite Ed2, !app_length; cbn; lia).
    rewrite EA.
    assert (Eve : rq_value_end d (length d) (length d) (length A) = (length A + length (v ++ [cv]))%nat).
    { rewrite Elen2 at 2. rewrite Ed2 at 1. apply fr_value_end_exact; [exact Hcv|exact Ho2|lia]. }
    rewrite Eve. unfold rq_sub.
    replace (length A + length (v ++ [cv]) - length A)%nat with (length (v ++ [cv])) by lia.
    rewrite Ed2, skipn_app, skipn_all, Nat.sub_diag. cbn [skipn app].
    rewrite firstn_app, Nat.sub_diag, firstn_all. cbn [firstn]. rewrite app_nil_r. symmetry. exact Ev.
Qed.
