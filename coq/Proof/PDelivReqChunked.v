(* C06, history level, request direction, chunk-coded bodies: a grammar request announcing Transfer-Encoding: chunked, followed
   by a chunk-coded body in the format of SBody (size line / data / line end, last-chunk line, trailer fields possibly folded,
   empty line), delivered in ANY non-empty chunking from a fresh connection: the REQUEST_BODY_DATA events of the whole run are
   data events with non-empty payloads that concatenate to exactly bd_chunks_data ks, in order, followed by exactly one
   end-of-body marker -- delivered after the trailer block --, nothing after it (dv_request_chunked_delivery).
   PSegChunkedRun.sg_cbody_run / sg_call_trailer / sg_ctail restated with the events next to the invariants; the position
   inside the coded body carries the decoded bytes still to come (dv_crem_data) besides their number. *)
Require Import Htp.Model.Base Htp.Model.MBstr Htp.Model.MConnTypes Htp.Model.MTxCommon Htp.Model.MReqLine Htp.Model.MReqUri Htp.Model.MTxReq.
Require Import Htp.Model.MReq Htp.Model.MRes Htp.Model.MConnp.
Require Import Htp.Spec.SWire Htp.Spec.SBody Htp.Proof.PWire Htp.Proof.PWireHdr Htp.Proof.PWireBlock Htp.Proof.PWireConn Htp.Proof.PWireExch.
Require Import Htp.Proof.PWireRun Htp.Proof.PWirePres Htp.Proof.PWireGlue Htp.Proof.PSeg Htp.Proof.PSegLine Htp.Proof.PSegHdr Htp.Proof.PSegGen Htp.Proof.PSegRun.
Require Import Htp.Proof.PSegFold Htp.Proof.PSegPipe Htp.Proof.PBody Htp.Proof.PBodyReq Htp.Proof.PSegBody Htp.Proof.PSegChunked Htp.Proof.PSegChunkedGen.
Require Import Htp.Proof.PSegChunkedRun Htp.Proof.PDeliv Htp.Proof.PDelivReq Htp.Proof.PDelivReqBody.

(* the decoded bytes still to come, seen from a position inside the coded body *)
Definition dv_crem_data (r : sg_crem) : bytes :=
  match r with
  | CR_line _ _ data _ ks => data ++ bd_chunks_data ks
  | CR_data dd _ ks => dd ++ bd_chunks_data ks
  | CR_end _ ks => bd_chunks_data ks
  | CR_last _ _ => []
  end.
Lemma dv_cnext_data last ks : dv_crem_data (sg_cnext last ks) = bd_chunks_data ks.
Proof. destruct ks as [|k ks]; reflexivity. Qed.
Lemma dv_adv (D : bytes) en a rest : skipn en D = a ++ rest -> firstn (en + length a) D = firstn en D ++ a /\ skipn (en + length a) D = rest.
Proof.
  intros H. split.
  - rewrite dv_firstn_add, H, firstn_app, Nat.sub_diag, firstn_all. cbn [firstn]. rewrite app_nil_r. reflexivity.
  - rewrite <- bd_skipn_skipn, H, skipn_app, Nat.sub_diag, skipn_all. reflexivity.
Qed.

Section CDataE.
Variable cb : cb_oracle.
Variable g : cfg.
Hypothesis Hcb : wr_all_ok cb.
Context {w : sg_world}.
Notation sg_cin := (sg_cinw w).
(* one pass of REQ_BODY_CHUNKED_DATA: the event it appends *)
Lemma dv_cdata_pass c d rd t (left : nat) dd rest : sg_cin c d rd [] None REQ_BODY_CHUNKED_DATA (Some REQ_BODY_CHUNKED_DATA) None t ->
  t_hook_request_body t = 0%nat -> c_in_chunked_length c = Z.of_nat left -> (0 < left)%nat ->
  skipn rd d = dd ++ rest -> length dd = Nat.min left (length d - rd) ->
  forall c', (rq_iter cb g false c = inr c' \/ exists rc, rq_iter cb g false c = inl (c', rc)) ->
  dv_rb c' = match dd with [] => dv_rb c | _ :: _ => dv_data H_REQUEST_BODY_DATA (length (w_done w)) dd :: dv_rb c end.
Proof.
  intros H Hh Hl Hpos Hs Hlen c' Hit. pose proof (sg_cin_slot _ _ _ _ _ _ _ _ _ H) as Hsl.
  pose proof (sg_bd_inv c d rd [] _ _ t H Hh) as Inv.
  assert (Lp : (0 < c_in_chunked_length c)%Z) by (rewrite Hl; lia).
  pose proof (bd_rq_chunked_data_step cb (sg_cb_body_ok cb Hcb) _ t c Inv Hsl Lp) as Est. cbv zeta in Est.
  assert (Erest : bd_rq_rest c = skipn rd d) by (unfold bd_rq_rest; rewrite (ci_data _ _ _ _ _ _ _ _ _ H), (ci_read _ _ _ _ _ _ _ _ _ H); reflexivity).
  assert (Edd : firstn (Z.to_nat (c_in_chunked_length c)) (bd_rq_rest c) = dd).
  { rewrite Erest, Hl, Nat2Z.id, Hs.
    assert (L : length (skipn rd d) = length (dd ++ rest)) by (rewrite Hs; reflexivity). rewrite skipn_length, app_length in L.
    destruct (Nat.le_ge_cases left (length d - rd)) as [Q|Q].
    - rewrite Nat.min_l in Hlen by exact Q. rewrite <- Hlen. rewrite firstn_app, Nat.sub_diag, firstn_all. cbn [firstn]. apply app_nil_r.
    - rewrite Nat.min_r in Hlen by exact Q. assert (Er : rest = []) by (apply length_zero_iff_nil; lia). subst rest. rewrite app_nil_r. apply firstn_all2. lia. }
  rewrite Edd in Est.
  assert (Es : c_in_state c = REQ_BODY_CHUNKED_DATA) by apply (ci_state _ _ _ _ _ _ _ _ _ H).
  assert (Ef : rq_state_fn cb g (c_in_state c) c = REQ_BODY_CHUNKED_DATA_fn cb c) by (rewrite Es; reflexivity).
  assert (Rk : dv_rok c) by (eapply dv_cin_rok; [exact H|apply dv_neqN]).
  assert (Fin : forall r c1, rq_state_fn cb g (c_in_state c) c = (r, c1) -> dv_rok c1 -> dv_rb c' = dv_rb c1).
  { intros r c1 E1 R1. destruct Hit as [Ei|(rc & Ei)].
    - apply (dv_iter_after_inr cb g Hcb c r c1 c' E1 Ei R1).
    - apply (dv_iter_after_inl cb g Hcb c r c1 c' rc E1 Ei R1). }
  destruct dd as [|b0 dd0] eqn:Edd0.
  - cbn [length Nat.eqb] in Est. rewrite <- Ef in Est. apply (Fin _ _ Est Rk).
  - cbn [length Nat.eqb] in Est. rewrite <- Ef in Est.
    destruct (c_in_chunked_length c - Z.of_nat (S (length dd0)) =? 0)%Z; rewrite (Fin _ _ Est Rk); reflexivity.
Qed.
End CDataE.

Section ChunkedRunE.
Variable cb : cb_oracle.
Variable g : cfg.
Hypothesis Hcb : wr_all_ok cb.
Hypothesis Hspace : g_allow_space_uri g = false.
Variables m u pr : bytes.
Variable fs : list wr_field.
Variable ks0 : list bd_chunk.
Variable last : bytes.
Variable tr : list wr_field.
Hypothesis Wl : wr_wf_request_line m u pr = true.
Hypothesis Wb : wr_block_ok fs = true.
Hypothesis Wc : wr_eqb m wr_str_connect = false.
Let tb := wr_block_tx fs (sg_th0 g 0 m u pr).
Let hard := g_field_limit_hard g.
Hypothesis Hcod : t_request_transfer_coding (sg_hdr_end tb) = c_HTP_CODING_CHUNKED.
Hypothesis Hks : forallb (bd_chunk_ok bd_rq_line_value) ks0 = true.
Hypothesis Hlast : bd_last_ok bd_rq_line_value last = true.
Hypothesis Hfitb : bd_lines_fit hard ks0 last = true.
Variable tcuts : list (list bytes).
Let tflat := sg_block_flat (combine tr tcuts).
Hypothesis Wtr : forallb wr_field_ok tr = true.
Hypothesis Htlen : length tcuts = length tr.
Hypothesis Htfo : forallb sg_fold_ok (combine tr tcuts) = true.
Hypothesis Hfitt : sg_ffit hard 0 tflat = true.
Variable bwt : bytes.
Variable hlog : option bytes -> tx -> bytes -> bytes -> Prop.
Notation sg_cin := (sg_cinw sg_w0).
Notation sg_mid := (sg_midw sg_w0).
Notation RB := H_REQUEST_BODY_DATA.
Notation RC := H_REQUEST_COMPLETE.

Let tailw := sg_fwire tflat ++ [CR; LF].
Let Etot := sg_cE ks0.
Let Mtot := (sg_cM ks0 + length last)%nat.
Let D := bd_chunks_data ks0.
Let t0c := sg_t0c g m u pr fs.
Let ttr := sg_ttr g m u pr fs ks0 last.
Let crem_ok := sg_crem_ok g last.
Let crem_wire := sg_crem_wire last tr tcuts.
Let cnext := sg_cnext last.

(* the section-local facts of PSegChunkedRun.ChunkedRun *)
Lemma x_last_facts : exists b, last = b ++ [LF] /\ sg_no_lf b = true /\ bd_rq_line_value last = 0%Z /\ (length last <= hard)%nat.
Proof. exact (sg_last_facts g ks0 last Hlast Hfitb). Qed.
Lemma x_ks0_ok : sg_ks_ok g ks0. Proof. exact (sg_ks0_ok g ks0 last Hks Hfitb). Qed.
Lemma x_cnext_ok ks : sg_ks_ok g ks -> crem_ok (cnext ks). Proof. exact (sg_cnext_ok g ks0 last Hlast Hfitb ks). Qed.
Lemma x_cnext_wire ks : crem_wire (cnext ks) = sg_crest last tr tcuts ks. Proof. exact (sg_cnext_wire last tr tcuts ks). Qed.
Lemma x_cnext_e ks : sg_crem_e (cnext ks) = sg_cE ks. Proof. exact (sg_cnext_e last ks). Qed.
Lemma x_cnext_m ks : sg_crem_m (length last) (cnext ks) = (sg_cM ks + length last)%nat. Proof. exact (sg_cnext_m g ks0 last tr tcuts Htlen ks). Qed.
Lemma x_cnext_st ks : sg_cst (cnext ks) = REQ_BODY_CHUNKED_LENGTH /\ sg_cseen (cnext ks) = []. Proof. exact (sg_cnext_st last ks). Qed.
Lemma x_t0c_facts fl :
  t_request_transfer_coding (t0c fl) = c_HTP_CODING_CHUNKED /\
  (t_request_method_number (t0c fl) =? c_HTP_M_CONNECT)%Z = false /\ t_request_progress (t0c fl) = c_HTP_REQUEST_HEADERS /\
  t_response_progress (t0c fl) = c_HTP_RESPONSE_NOT_STARTED /\ t_is_protocol_0_9 (t0c fl) = false /\ t_hook_request_body (t0c fl) = 0%nat.
Proof. exact (sg_t0c_facts g Hspace m u pr fs Wl Wc Hcod fl). Qed.
Lemma x_trailer_start fl : sg_fhlog g (wr_block_tx tr (ttr fl)) [] None (ttr fl) [] tailw.
Proof. exact (sg_trailer_start g m u pr fs ks0 last tr tcuts Wtr Htlen Htfo Hfitt fl). Qed.

(* at the end: the transaction of PSegChunkedRun, and the delivery *)
Definition dv_cfin (L : list event) (txs : list (option tx)) : Prop :=
  sg_cfin g m u pr fs ks0 last tr txs /\ dv_delivered_c RB RC 0 true D L.
(* between two calls inside the coded body (en decoded bytes delivered so far, in the data events L), or inside the trailer block *)
Definition dv_cext (L : list event) (c : connp) (rw : bytes) : Prop :=
  (exists fl r en mn, crem_ok r /\
     sg_mid c (sg_cseen r) None (sg_cst r) None (sg_cbody (Z.of_nat en) (Z.of_nat mn) c_HTP_REQUEST_BODY (t0c fl)) /\ sg_cleft c r /\
     (en + sg_crem_e r = Etot)%nat /\ (mn + sg_crem_m (length last) r = Mtot)%nat /\ rw = crem_wire r /\
     skipn en D = dv_crem_data r /\ dv_pieces RB 0 L (firstn en D)) \/
  (exists fl p hdr t, sg_mid c p hdr REQ_HEADERS (Some H_REQUEST_TRAILER_DATA) t /\ sg_fhlog g (wr_block_tx tr (ttr fl)) [] hdr t p rw /\
     dv_pieces RB 0 L D).
Let post := dv_post m u pr bwt hlog dv_cfin dv_cext.

Lemma dv_neq7 : forall h, Some H_REQUEST_TRAILER_DATA = Some h -> dv_rq_hook h = false. Proof. intros h E. inversion E. reflexivity. Qed.

(* ---- a call that is (or arrives) in the trailer block ---- *)
Lemma dv_call_trailer c d rd fl p hdr t rw' F L0 :
  sg_cin c d rd p hdr REQ_HEADERS (Some REQ_HEADERS) (Some H_REQUEST_TRAILER_DATA) t ->
  sg_fhlog g (wr_block_tx tr (ttr fl)) [] hdr t p (skipn rd d ++ rw') -> (3 <= F)%nat ->
  dv_pieces RB 0 (L0 ++ rev (dv_rb c)) D ->
  exists cF rc, rq_loop cb g F false c = (cF, rc) /\ post (L0 ++ rev (dv_rb cF)) cF rw'.
Proof.
  intros H (pend & tl & rem & q & Hrel & Ok & Hnp & Hrun & Hpq & Hq & Hw & Hfit) HF HL.
  assert (Es : c_in_state c = REQ_HEADERS) by apply (ci_state _ _ _ _ _ _ _ _ _ H).
  assert (Ef : rq_state_fn cb g REQ_HEADERS c = REQ_HEADERS_loop cb g (length d - rd) c).
  { cbn [rq_state_fn]. unfold REQ_HEADERS_fn. rewrite (ci_len _ _ _ _ _ _ _ _ _ H), (ci_read _ _ _ _ _ _ _ _ _ H). reflexivity. }
  destruct F as [|F1]; [lia|]. destruct F1 as [|F2]; [lia|]. destruct F2 as [|F3]; [lia|].
  set (tt := wr_block_tx tr (ttr fl)) in *.
  destruct (sg_fhdrs_loop_any cb g d rw' tt [] _ rem c rd p q hdr t pend tl (length d - rd) H Hrel Ok Hnp Hrun Hpq Hq Hw Hfit (le_n _)) as [HA|HB].
  - destruct HA as (c' & p' & hdr' & t' & EA & HA1 & HA2 & HA3).
    assert (Lim : (length p' + length (sg_olist hdr') <= g_field_limit_hard g)%nat).
    { destruct HA2 as (pe & te & re & q' & Hr' & _ & _ & _ & Epq & _ & _ & Fit). pose proof (sg_ffit_next _ _ _ Fit) as L. rewrite <- Epq, app_length in L.
      pose proof (sg_rel_len _ _ _ _ _ Hr'). lia. }
    destruct (sg_exit_buffer cb g Hcb c' d p' hdr' _ _ t' HA1 Lim) as (cF & EF & HF').
    assert (Ei : rq_iter cb g false c = inl (cF, c_HTP_STREAM_DATA)) by (unfold rq_iter; rewrite Es, Ef, EA, EF; reflexivity).
    pose proof (dv_cin_inl cb g Hcb c d _ _ _ _ _ _ _ cF _ H eq_refl dv_neq7 Ei) as Ev.
    exists cF, c_HTP_STREAM_DATA. split; [apply sg_rq_loop_inl; exact Ei|]. rewrite Ev.
    left. split; [exact HA3|]. right. right. right. exists fl, p', hdr', t'. split; [exact HF'|]. split; [exact HA2|exact HL].
  - destruct HB as (c' & rd1 & EB & HB1 & HB2). rewrite <- Ef in EB.
    apply app_eq_nil in HB2. destruct HB2 as [HB2 Erw].
    assert (Erd : rd1 = length d) by (pose proof (sg_skipn_nil _ _ HB2); pose proof (ci_rd _ _ _ _ _ _ _ _ _ HB1); lia). rewrite Erd in HB1.
    pose proof (wr_keep_h_block tr (ttr fl)) as K. fold tt in K. unfold wr_keep_h in K. destruct K as (_ & _ & _ & _ & _ & K6 & K7 & K8 & K9 & _).
    destruct (x_t0c_facts fl) as (Tc & _ & _ & Rp & Z9 & Hk0).
    assert (Pg : t_request_progress tt = c_HTP_REQUEST_TRAILER) by (rewrite K7; reflexivity).
    unfold rq_with_tx in EB. rewrite (ci_tx _ _ _ _ _ _ _ _ _ HB1) in EB.
    destruct (sg_state_request_trailer cb Hcb c' d _ _ tt HB1 Pg) as (c2 & E2 & H2). rewrite E2 in EB. rewrite <- Es in EB.
    destruct (sg_iter_ok cb g c c2 d _ _ _ _ _ _ _ EB H2) as (c3 & E3 & H3); [discriminate|].
    pose proof (dv_cin_inr cb g Hcb c d _ _ _ _ _ _ _ c3 H eq_refl dv_neq7 E3) as Ev3.
    rewrite (sg_rq_loop_inr cb g _ _ _ E3).
    destruct (dv_pass_finalize_body cb g Hcb c3 d _ tt H3) as (c6 & E6 & H6 & V6).
    { unfold tx_req_has_body. unfold tt. rewrite sg_block_tx_coding. change (t_request_transfer_coding (ttr fl)) with (t_request_transfer_coding (t0c fl)). rewrite Tc. reflexivity. }
    { rewrite Pg. reflexivity. }
    { rewrite K8. change (t_response_progress (ttr fl)) with (t_response_progress (t0c fl)). rewrite Rp. reflexivity. }
    { rewrite K6. exact Z9. }
    { rewrite K9. exact Hk0. }
    rewrite (sg_rq_loop_inr cb g _ _ _ E6).
    rewrite (sg_rq_loop_inl cb g _ _ _ (sg_pass_idle_end cb g c6 d _ _ _ _ H6)).
    eexists _, _. split; [reflexivity|]. right. split; [exact Erw|].
    change (dv_rb (c6 <| c_in_status := c_HTP_STREAM_DATA |>)) with (dv_rb c6). rewrite V6, Ev3. cbn [w_done sg_w0 length rev]. rewrite <- (app_assoc (rev (dv_rb c))). cbn [app]. rewrite app_assoc. split.
    + exists fl. change (c_txs (c6 <| c_in_status := c_HTP_STREAM_DATA |>)) with (c_txs c6). rewrite (il_txs _ _ _ _ _ _ _ H6). reflexivity.
    + apply dv_pieces_done. exact HL.
Qed.

(* ---- the rest of a call from a point inside the coded body ---- *)
Lemma dv_cbody_run : forall F c d rd fl r en mn (rw' : bytes) L0,
  crem_ok r ->
  sg_cin c d rd (sg_cseen r) None (sg_cst r) (Some (sg_cst r)) None (sg_cbody (Z.of_nat en) (Z.of_nat mn) c_HTP_REQUEST_BODY (t0c fl)) ->
  sg_cleft c r -> (en + sg_crem_e r = Etot)%nat -> (mn + sg_crem_m (length last) r = Mtot)%nat ->
  skipn rd d ++ rw' = crem_wire r -> (length d - rd + 4 <= F)%nat ->
  skipn en D = dv_crem_data r -> dv_pieces RB 0 (L0 ++ rev (dv_rb c)) (firstn en D) ->
  exists cF rc, rq_loop cb g F false c = (cF, rc) /\ post (L0 ++ rev (dv_rb cF)) cF rw'.
Proof.
  induction F as [|F IH]; intros c d rd fl r en mn rw' L0 Hok H Hleft He Hm Hw HF HD HL; [lia|].
  pose proof (ci_rd _ _ _ _ _ _ _ _ _ H) as Hrd.
  assert (Es : c_in_state c = sg_cst r) by apply (ci_state _ _ _ _ _ _ _ _ _ H).
  destruct (x_t0c_facts fl) as (Tc & _ & _ & Rp & Z9 & Hk0).
  unfold crem_ok, crem_wire in *.
  destruct r as [p q data e ks|dd e ks|q ks|p q]; cbn [sg_cseen sg_cst sg_crem_ok sg_crem_wire sg_crem_e sg_crem_m sg_cleft dv_crem_data] in *.
  - (* in a size line *)
    destruct Hok as (Hq & Hck & Hlim & Hks').
    unfold bd_chunk_ok in Hck. cbn [bc_line bc_data bc_end] in Hck. apply andb_prop in Hck. destruct Hck as [Hck Hv]. apply andb_prop in Hck. destruct Hck as [Hck Hdne].
    apply andb_prop in Hck. destruct Hck as [Hl1 Hl2]. apply Z.eqb_eq in Hv. apply negb_true_iff in Hdne. apply Nat.eqb_neq in Hdne.
    destruct (sg_is_line_split _ Hl1) as (body & Eb & Nb).
    destruct (sg_line_cut (skipn rd d) rw' p q body _ Eb Nb Hq Hw) as [(q2 & Eq & Hq2 & Erw & Nu)|(q1 & u2 & Eav & Eaft & Nq1 & Eq1)].
    + destruct (sg_clen_scan_nolf g d None _ _ None _ (skipn rd d) c rd p (length d - rd) H eq_refl Nu) as (c' & E & H'); [rewrite skipn_length; lia|].
      assert (Lim : (length (p ++ skipn rd d) + length (sg_olist None) <= g_field_limit_hard g)%nat).
      { rewrite Eq, !app_length in Hlim. rewrite app_length. cbn [sg_olist length]. unfold hard in Hlim. lia. }
      destruct (sg_exit_buffer cb g Hcb c' d _ None _ _ _ H' Lim) as (cF & EF & HF').
      assert (Ei : rq_iter cb g false c = inl (cF, c_HTP_STREAM_DATA)).
      { unfold rq_iter. rewrite Es. cbn [rq_state_fn]. unfold REQ_BODY_CHUNKED_LENGTH_fn.
        rewrite (ci_len _ _ _ _ _ _ _ _ _ H), (ci_read _ _ _ _ _ _ _ _ _ H), E, EF. reflexivity. }
      pose proof (dv_cin_inl cb g Hcb c d _ _ _ _ _ _ _ cF _ H eq_refl dv_neqN Ei) as Ev.
      exists cF, c_HTP_STREAM_DATA. split; [apply sg_rq_loop_inl; exact Ei|]. rewrite Ev.
      left. split; [rewrite Erw; destruct q2; [contradiction|discriminate]|]. right. right. left.
      exists fl, (CR_line (p ++ skipn rd d) q2 data e ks), en, mn. unfold crem_ok, crem_wire. cbn [sg_cseen sg_cst sg_crem_ok sg_crem_wire sg_crem_e sg_crem_m sg_cleft dv_crem_data].
      rewrite <- app_assoc, <- Eq. split; [split; [exact Hq2|]; split; [|split; [exact Hlim|exact Hks']]|].
      { unfold bd_chunk_ok. cbn [bc_line bc_data bc_end]. rewrite Hl1, Hl2, Hv, Z.eqb_refl. apply Nat.eqb_neq in Hdne. rewrite Hdne. reflexivity. }
      split; [exact HF'|]. split; [exact I|]. split; [exact He|]. split; [exact Hm|]. split; [exact Erw|]. split; [exact HD|exact HL].
    + assert (Hv' : (0 < bd_rq_line_value (p ++ q))%Z) by (rewrite Hv; lia).
      assert (Eline : p ++ q1 ++ [LF] = p ++ q) by (rewrite Eq1; reflexivity).
      destruct (sg_pass_cline cb g c d rd p q1 u2 _ (p ++ q) H Eav Nq1 Eline Hlim Hv') as (c1 & E1 & H1 & L1 & Hr1).
      pose proof (dv_cin_inr cb g Hcb c d _ _ _ _ _ _ _ c1 H eq_refl dv_neqN E1) as Ev1.
      rewrite (sg_rq_loop_inr cb g _ _ _ E1).
      rewrite sg_cbody_msg, <- Nat2Z.inj_add in H1.
      apply (IH c1 d (rd + length q1 + 1)%nat fl (CR_data data e ks) en (mn + length (p ++ q))%nat rw' L0); unfold crem_ok, crem_wire; cbn [sg_cseen sg_cst sg_crem_ok sg_crem_wire sg_crem_e sg_crem_m sg_cleft dv_crem_data].
      * split; [intro X; apply Hdne; rewrite X; reflexivity|split; [exact Hl2|exact Hks']].
      * exact H1.
      * rewrite L1. exact Hv.
      * exact He.
      * lia.
      * rewrite Hr1. exact Eaft.
      * rewrite Eav, app_length in *. assert (L : length (skipn rd d) = (length d - rd)%nat) by apply skipn_length. rewrite Eav, app_length in L. cbn [length] in L. lia.
      * exact HD.
      * rewrite Ev1. exact HL.
  - (* in the data of a chunk *)
    destruct Hok as (Hdd & Hl2 & Hks').
    assert (Hh : t_hook_request_body (sg_cbody (Z.of_nat en) (Z.of_nat mn) c_HTP_REQUEST_BODY (t0c fl)) = 0%nat) by exact Hk0.
    assert (Lpos : (0 < length dd)%nat) by (destruct dd; [contradiction|cbn; lia]).
    assert (Lav : length (skipn rd d) = (length d - rd)%nat) by apply skipn_length.
    destruct (sg_app_cases (skipn rd d) rw' dd _ Hw) as [Clt Cge].
    destruct (Nat.lt_ge_cases (length (skipn rd d)) (length dd)) as [Llt|Lge].
    + (* the chunk ends inside the data *)
      destruct (Clt Llt) as (dd2 & Edd & Hdd2 & Erw).
      pose proof (sg_cdata_pass cb g Hcb c d rd _ (length dd) (skipn rd d) [] H Hh Hleft Lpos (eq_sym (app_nil_r _))) as P.
      pose proof (dv_cdata_pass cb g Hcb c d rd _ (length dd) (skipn rd d) [] H Hh Hleft Lpos (eq_sym (app_nil_r _))) as V.
      rewrite Nat.min_r in P, V by lia. specialize (P Lav). specialize (V Lav). cbn [w_done sg_w0 length] in V.
      destruct (skipn rd d) as [|b0 av] eqn:Eav.
      * exists (c <| c_in_status := c_HTP_STREAM_DATA |>), c_HTP_STREAM_DATA. split; [apply sg_rq_loop_inl; exact P|].
        change (dv_rb (c <| c_in_status := c_HTP_STREAM_DATA |>)) with (dv_rb c).
        cbn [app] in Edd, Hw. left. split; [rewrite Erw; destruct dd2; [contradiction|discriminate]|]. right. right. left.
        exists fl, (CR_data dd e ks), en, mn. unfold crem_ok, crem_wire. cbn [sg_cseen sg_cst sg_crem_ok sg_crem_wire sg_crem_e sg_crem_m sg_cleft dv_crem_data].
        split; [split; [exact Hdd|split; [exact Hl2|exact Hks']]|]. split; [apply (sg_mid_of_cin c d rd); exact H|]. split; [exact Hleft|].
        split; [exact He|]. split; [exact Hm|]. split; [rewrite Erw, Edd; reflexivity|]. split; [exact HD|exact HL].
      * rewrite <- Eav in *. apply Nat.ltb_lt in Llt. rewrite Llt in P. apply Nat.ltb_lt in Llt. destruct P as (c' & E & H' & L').
        pose proof (V _ (or_intror (ex_intro _ _ E))) as Ev. change (dv_rb (c' <| c_in_status := c_HTP_STREAM_DATA |>)) with (dv_rb c') in Ev.
        rewrite Eav in Ev at 1. rewrite <- Eav in Ev.
        exists (c' <| c_in_status := c_HTP_STREAM_DATA |>), c_HTP_STREAM_DATA. split; [apply sg_rq_loop_inl; exact E|].
        change (dv_rb (c' <| c_in_status := c_HTP_STREAM_DATA |>)) with (dv_rb c'). rewrite Ev. cbn [rev]. rewrite app_assoc.
        rewrite sg_cbody_deliver, <- !Nat2Z.inj_add in H'.
        assert (HD2 : skipn en D = skipn rd d ++ (dd2 ++ bd_chunks_data ks)) by (rewrite HD, Edd, <- app_assoc; reflexivity).
        destruct (dv_adv D en _ _ HD2) as [A1 A2].
        assert (Hne : skipn rd d <> []) by (rewrite Eav; discriminate).
        left. split; [rewrite Erw; destruct dd2; [contradiction|discriminate]|]. right. right. left.
        exists fl, (CR_data dd2 e ks), (en + length (skipn rd d))%nat, (mn + length (skipn rd d))%nat. unfold crem_ok, crem_wire. cbn [sg_cseen sg_cst sg_crem_ok sg_crem_wire sg_crem_e sg_crem_m sg_cleft dv_crem_data].
        split; [split; [exact Hdd2|split; [exact Hl2|exact Hks']]|]. split; [apply (sg_mid_of_cin c' d (rd + length (skipn rd d))); exact H'|].
        assert (Ld : length dd = (length (skipn rd d) + length dd2)%nat) by (rewrite Edd at 1; apply app_length).
        split; [cbn [c_in_chunked_length set]; rewrite L'; f_equal; lia|]. split; [lia|]. split; [lia|]. split; [exact Erw|]. split; [exact A2|].
        rewrite A1. apply dv_pieces_snoc; [exact HL|exact Hne].
    + (* the data of the chunk ends in this TCP chunk *)
      destruct (Cge Lge) as (u2 & Eav & Eaft).
      pose proof (sg_cdata_pass cb g Hcb c d rd _ (length dd) dd u2 H Hh Hleft Lpos Eav) as P.
      pose proof (dv_cdata_pass cb g Hcb c d rd _ (length dd) dd u2 H Hh Hleft Lpos Eav) as V.
      rewrite Nat.min_l in P, V by lia. specialize (P eq_refl). specialize (V eq_refl). cbn [w_done sg_w0 length] in V.
      destruct dd as [|b0 dd0] eqn:Edd; [contradiction|]. rewrite <- Edd in *.
      rewrite Nat.ltb_irrefl in P. destruct P as (c1 & E1 & H1).
      pose proof (V _ (or_introl E1)) as Ev. rewrite Edd in Ev at 1. rewrite <- Edd in Ev.
      rewrite (sg_rq_loop_inr cb g _ _ _ E1).
      rewrite sg_cbody_deliver, <- !Nat2Z.inj_add in H1.
      destruct (dv_adv D en _ _ HD) as [A1 A2].
      apply (IH c1 d (rd + length dd)%nat fl (CR_end e ks) (en + length dd)%nat (mn + length dd)%nat rw' L0); unfold crem_ok, crem_wire; cbn [sg_cseen sg_cst sg_crem_ok sg_crem_wire sg_crem_e sg_crem_m sg_cleft dv_crem_data].
      * destruct (sg_is_line_split _ Hl2) as (b & Ee & _). split; [rewrite Ee; intro X; apply app_eq_nil in X; destruct X as [_ X]; discriminate|]. split; [exists []; exact Hl2|exact Hks'].
      * exact H1.
      * exact I.
      * lia.
      * lia.
      * assert (Es2 : skipn (rd + length dd) d = u2).
        { rewrite <- bd_skipn_skipn, Eav, skipn_app, Nat.sub_diag, skipn_all. reflexivity. }
        rewrite Es2. symmetry. exact Eaft.
      * rewrite Eav, app_length in Lav. lia.
      * exact A2.
      * rewrite Ev. cbn [rev]. rewrite app_assoc, A1. apply dv_pieces_snoc; [exact HL|exact Hdd].
  - (* in the line that ends the data *)
    destruct Hok as (Hq & (a & Hla) & Hks').
    destruct (sg_is_line_split _ Hla) as (body & Eb & Nb).
    destruct (sg_line_cut (skipn rd d) rw' a q body _ Eb Nb Hq Hw) as [(q2 & Eq & Hq2 & Erw & Nu)|(q1 & u2 & Eav & Eaft & Nq1 & Eq1)].
    + destruct (sg_cend_scan_nolf d _ _ (skipn rd d) c rd (length d - rd) _ H eq_refl Nu) as (c' & E & H'); [rewrite skipn_length; lia|].
      rewrite sg_cbody_msg, <- Nat2Z.inj_add in H'.
      destruct (sg_exit_data cb g c' d _ _ _ _ H') as (EX & HX).
      assert (Ei : rq_iter cb g false c = inl (c' <| c_in_status := c_HTP_STREAM_DATA |>, c_HTP_STREAM_DATA)).
      { unfold rq_iter. rewrite Es. cbn [rq_state_fn]. unfold REQ_BODY_CHUNKED_DATA_END_fn.
        rewrite (ci_len _ _ _ _ _ _ _ _ _ H), (ci_read _ _ _ _ _ _ _ _ _ H), E, EX. reflexivity. }
      pose proof (dv_cin_inl cb g Hcb c d _ _ _ _ _ _ _ _ _ H eq_refl dv_neqN Ei) as Ev.
      exists (c' <| c_in_status := c_HTP_STREAM_DATA |>), c_HTP_STREAM_DATA. split; [apply sg_rq_loop_inl; exact Ei|]. rewrite Ev.
      left. split; [rewrite Erw; destruct q2; [contradiction|discriminate]|]. right. right. left.
      exists fl, (CR_end q2 ks), en, (mn + length (skipn rd d))%nat. unfold crem_ok, crem_wire. cbn [sg_cseen sg_cst sg_crem_ok sg_crem_wire sg_crem_e sg_crem_m sg_cleft dv_crem_data].
      split; [split; [exact Hq2|split; [exists (a ++ skipn rd d); rewrite <- app_assoc, <- Eq; exact Hla|exact Hks']]|].
      split; [exact HX|]. split; [exact I|]. split; [exact He|]. split; [rewrite Eq, app_length in Hm; lia|]. split; [exact Erw|]. split; [exact HD|exact HL].
    + destruct (sg_pass_cend cb g c d rd q1 u2 _ H Eav Nq1) as (c1 & E1 & H1 & Hr1).
      pose proof (dv_cin_inr cb g Hcb c d _ _ _ _ _ _ _ c1 H eq_refl dv_neqN E1) as Ev1.
      rewrite (sg_rq_loop_inr cb g _ _ _ E1).
      rewrite sg_cbody_msg, <- Nat2Z.inj_add in H1.
      destruct (x_cnext_st ks) as [S1 S2].
      apply (IH c1 d (rd + length q1 + 1)%nat fl (cnext ks) en (mn + (length q1 + 1))%nat rw' L0).
      * apply x_cnext_ok. exact Hks'.
      * rewrite S1, S2. exact H1.
      * unfold cnext. destruct ks; exact I.
      * rewrite x_cnext_e. exact He.
      * rewrite x_cnext_m. rewrite Eq1, app_length in Hm. cbn [length] in Hm. lia.
      * rewrite x_cnext_wire, Hr1. exact Eaft.
      * assert (L : length (skipn rd d) = (length d - rd)%nat) by apply skipn_length. rewrite Eav, app_length in L. cbn [length] in L. lia.
      * unfold cnext. rewrite dv_cnext_data. exact HD.
      * rewrite Ev1. exact HL.
  - (* in the last-chunk line *)
    destruct Hok as (Hq & Epq). destruct x_last_facts as (body & Eb & Nb & Hv & Hlim). rewrite <- Epq in Eb, Hv, Hlim.
    destruct (sg_line_cut (skipn rd d) rw' p q body _ Eb Nb Hq Hw) as [(q2 & Eq & Hq2 & Erw & Nu)|(q1 & u2 & Eav & Eaft & Nq1 & Eq1)].
    + destruct (sg_clen_scan_nolf g d None _ _ None _ (skipn rd d) c rd p (length d - rd) H eq_refl Nu) as (c' & E & H'); [rewrite skipn_length; lia|].
      assert (Lim : (length (p ++ skipn rd d) + length (sg_olist None) <= g_field_limit_hard g)%nat).
      { rewrite Eq, !app_length in Hlim. rewrite app_length. cbn [sg_olist length]. unfold hard in Hlim. lia. }
      destruct (sg_exit_buffer cb g Hcb c' d _ None _ _ _ H' Lim) as (cF & EF & HF').
      assert (Ei : rq_iter cb g false c = inl (cF, c_HTP_STREAM_DATA)).
      { unfold rq_iter. rewrite Es. cbn [rq_state_fn]. unfold REQ_BODY_CHUNKED_LENGTH_fn.
        rewrite (ci_len _ _ _ _ _ _ _ _ _ H), (ci_read _ _ _ _ _ _ _ _ _ H), E, EF. reflexivity. }
      pose proof (dv_cin_inl cb g Hcb c d _ _ _ _ _ _ _ cF _ H eq_refl dv_neqN Ei) as Ev.
      exists cF, c_HTP_STREAM_DATA. split; [apply sg_rq_loop_inl; exact Ei|]. rewrite Ev.
      left. split; [rewrite Erw; destruct q2; [contradiction|discriminate]|]. right. right. left.
      exists fl, (CR_last (p ++ skipn rd d) q2), en, mn. unfold crem_ok, crem_wire. cbn [sg_cseen sg_cst sg_crem_ok sg_crem_wire sg_crem_e sg_crem_m sg_cleft dv_crem_data].
      rewrite <- app_assoc, <- Eq. split; [split; [exact Hq2|exact Epq]|].
      split; [exact HF'|]. split; [exact I|]. split; [exact He|]. split; [exact Hm|]. split; [exact Erw|]. split; [exact HD|exact HL].
    + assert (Eline : p ++ q1 ++ [LF] = p ++ q) by (rewrite Eq1; reflexivity).
      destruct (sg_pass_clast cb g c d rd p q1 u2 _ (p ++ q) H Eav Nq1 Eline Hlim Hv) as (c1 & E1 & H1 & Hr1).
      pose proof (dv_cin_inr cb g Hcb c d _ _ _ _ _ _ _ c1 H eq_refl dv_neqN E1) as Ev1.
      rewrite (sg_rq_loop_inr cb g _ _ _ E1).
      rewrite sg_cbody_msg, <- Nat2Z.inj_add, sg_cbody_progress in H1.
      assert (Een : en = Etot) by lia. assert (Emn : (mn + length (p ++ q))%nat = Mtot) by lia. rewrite Een, Emn in H1.
      change (sg_cbody (Z.of_nat Etot) (Z.of_nat Mtot) c_HTP_REQUEST_TRAILER (t0c fl)) with (ttr fl) in H1.
      apply (dv_call_trailer c1 d (rd + length q1 + 1)%nat fl [] None _ rw' F L0 H1); [| lia |].
      * rewrite Hr1, Eaft. apply x_trailer_start.
      * rewrite Ev1. rewrite Een in HL. unfold Etot, sg_cE in HL. fold D in HL. rewrite firstn_all in HL. exact HL.
Qed.

(* ---- a later call that starts inside the coded body or the trailer block ---- *)
Lemma dv_cext_step L c (rw x rw' : bytes) : dv_cext L c rw -> c_events c = [] -> x <> [] -> rw = x ++ rw' ->
  exists c' rc, connp_req_data cb g (Some x) (length x) c = (c', rc) /\ post (L ++ rev (dv_rb c')) c' rw'.
Proof.
  intros [(fl & r & en & mn & Hok & Hm & Hleft & He & Hmm & Erw & HD & HL)|(fl & p & hdr & t & Hm & Hl & HL)] Hev Hne Ex.
  - destruct (dv_enter cb g _ c _ None _ _ _ x Hm Hne) as (c1 & E1 & H1 & V1 & _ & L1). unfold bytes in *. rewrite E1.
    assert (B1 : dv_rb c1 = []) by (unfold dv_rb; rewrite V1, Hev; reflexivity).
    apply (dv_cbody_run _ c1 x 0 fl r en mn rw' L Hok H1); [destruct r; cbn [sg_cleft] in *; try exact I; rewrite L1; exact Hleft|exact He|exact Hmm| | |exact HD|].
    + cbn [skipn]. rewrite <- Ex. exact Erw.
    + unfold rq_fuel. lia.
    + rewrite B1. cbn [rev]. rewrite app_nil_r. exact HL.
  - destruct (dv_enter cb g _ c p hdr _ _ t x Hm Hne) as (c1 & E1 & H1 & V1 & _). unfold bytes in *. rewrite E1.
    assert (B1 : dv_rb c1 = []) by (unfold dv_rb; rewrite V1, Hev; reflexivity).
    apply (dv_call_trailer c1 x 0 fl p hdr t rw' _ L H1); [cbn [skipn]; rewrite <- Ex; exact Hl|unfold rq_fuel; lia|].
    rewrite B1. cbn [rev]. rewrite app_nil_r. exact HL.
Qed.
Lemma dv_cext_finish L c rw : dv_cext L c rw -> dv_cext L (forget_chunks c <| c_events := [] |>) rw.
Proof.
  intros [(fl & r & en & mn & Hok & Hm & Hleft & R)|(fl & p & hdr & t & Hm & Hl)].
  - left. exists fl, r, en, mn. split; [exact Hok|]. split; [apply sg_mid_finish; exact Hm|]. split; [destruct r; exact Hleft|exact R].
  - right. exists fl, p, hdr, t. split; [apply sg_mid_finish; exact Hm|exact Hl].
Qed.

(* ---- after the empty line of the header block: htp_tx_state_request_headers, REQ_CONNECT_CHECK, REQ_BODY_DETERMINE, then the coded body ---- *)
Lemma dv_ctail c c1 d rd1 (rw' : bytes) F : c_in_state c = REQ_HEADERS ->
  rq_state_fn cb g REQ_HEADERS c = rq_with_tx (tx_state_request_headers cb) c1 ->
  sg_cin c1 d rd1 [] None REQ_HEADERS (Some REQ_HEADERS) (Some H_REQUEST_HEADER_DATA) tb -> skipn rd1 d ++ rw' = sg_cwire_body ks0 last tr tcuts ->
  dv_rb c = [] -> dv_rok c -> (sg_need d rd1 <= F)%nat ->
  exists cF rc, rq_loop cb g F false c = (cF, rc) /\ post (rev (dv_rb cF)) cF rw'.
Proof.
  intros Es Ef H1 Hw Hev Rk HF.
  destruct (sg_th0_facts g Hspace 0 m u pr Wl) as (_ & _ & _ & H3 & _ & (nu0 & H5)).
  pose proof (wr_keep_h_block fs (sg_th0 g 0 m u pr)) as K. fold tb in K. unfold wr_keep_h in K. destruct K as (_ & _ & _ & _ & _ & _ & K7 & _ & _ & K10).
  assert (Pg : t_request_progress tb = c_HTP_REQUEST_HEADERS) by (rewrite K7; exact H3).
  assert (Pu : t_parsed_uri tb = Some nu0) by (rewrite K10; exact H5).
  unfold rq_with_tx in Ef. rewrite (ci_tx _ _ _ _ _ _ _ _ _ H1) in Ef.
  destruct (sg_state_request_headers cb Hcb c1 d _ _ tb nu0 H1 Pg Pu) as (c2 & fl & E2 & H2). rewrite E2 in Ef.
  change (sg_hdr_end (if fl then tx_set_flag c_HTP_MULTI_PACKET_HEAD tb else tb)) with (t0c fl) in H2. destruct (x_t0c_facts fl) as (Tc & M & Pg0 & Rp & Z9 & Hk0).
  rewrite <- Es in Ef.
  destruct (sg_iter_ok cb g c c2 d _ _ _ _ _ _ _ Ef H2) as (c3 & E3 & H3'); [discriminate|].
  assert (Ev3 : dv_rb c3 = []).
  { rewrite <- Hev. apply (dv_fr_iter_inr cb g Hcb c c3); [rewrite Es; reflexivity|exact E3|exact Rk]. }
  unfold sg_need in HF. destruct F as [|F1]; [lia|]. destruct F1 as [|F2]; [lia|]. destruct F2 as [|F3]; [lia|].
  rewrite (sg_rq_loop_inr cb g _ _ _ E3).
  destruct (sg_pass_connect_check cb g c3 d _ _ _ _ _ H3' M) as (c4 & E4 & H4). rewrite (sg_rq_loop_inr cb g _ _ _ E4).
  pose proof (dv_cin_inr cb g Hcb c3 d _ _ _ _ _ _ _ c4 H3' eq_refl dv_neqN E4) as Ev4. rewrite Ev3 in Ev4.
  destruct (sg_pass_body_determine_chunked cb g c4 d _ _ H4 Tc) as (c5 & E5 & H5'). rewrite (sg_rq_loop_inr cb g _ _ _ E5).
  pose proof (dv_cin_inr cb g Hcb c4 d _ _ _ _ _ _ _ c5 H4 eq_refl dv_neqN E5) as Ev5. rewrite Ev4 in Ev5.
  rewrite sg_cbody_start in H5'. destruct (x_cnext_st ks0) as [S1 S2].
  assert (G := dv_cbody_run F3 c5 d rd1 fl (cnext ks0) 0 0 rw' []). cbn [app] in G. apply G.
  - apply x_cnext_ok. exact x_ks0_ok.
  - rewrite S1, S2. exact H5'.
  - unfold cnext. apply sg_cnext_left.
  - rewrite x_cnext_e. reflexivity.
  - rewrite x_cnext_m. reflexivity.
  - rewrite x_cnext_wire. exact Hw.
  - lia.
  - unfold cnext. rewrite dv_cnext_data. reflexivity.
  - rewrite Ev5. cbn [rev firstn]. apply dv_pieces_nil.
Qed.
End ChunkedRunE.

(* ================= the theorems on the wire grammar, with a chunk-coded body ================= *)
(* header fields AND trailer fields folded in any way, any segmentation *)
Theorem dv_request_chunked_delivery_c : forall cb g r (cuts : list (list bytes)) (ks : list bd_chunk) (last : bytes) (tr : list wr_field)
    (tcuts : list (list bytes)) (chunks : list bytes),
  wr_all_ok cb -> g_allow_space_uri g = false -> sg_chunked_ok g r = true -> sg_cuts_ok r cuts = true -> sg_fold_fits g r cuts = true ->
  sg_cfbody_ok g ks last tr tcuts = true ->
  Forall (fun x => x <> []) chunks -> concat chunks = sg_fold_wire r cuts ++ sg_cfbody_wire ks last tr tcuts ->
  dv_delivered_c H_REQUEST_BODY_DATA H_REQUEST_COMPLETE 0 true (bd_chunks_data ks) (dv_selp dv_rq_hook (dv_log cb g (OpOpen :: map OpReqData chunks))).
Proof.
  intros cb g [m u p fs] cuts ks last tr tcuts chunks Hcb Hsp Wr Hcuts Hf Hbody Hall Hc.
  unfold sg_chunked_ok in Wr. cbn [wq_method wq_uri wq_protocol wq_fields] in Wr. cbv zeta in Wr.
  apply andb_prop in Wr. destruct Wr as [Wr Hco]. apply andb_prop in Wr. destruct Wr as [Wr Wc].
  apply andb_prop in Wr. destruct Wr as [Wl Wb]. apply negb_true_iff in Wc. apply Z.eqb_eq in Hco.
  unfold sg_cfbody_ok in Hbody. apply andb_prop in Hbody. destruct Hbody as [Hbody Hfitt]. apply andb_prop in Hbody. destruct Hbody as [Hbody Htfo].
  apply andb_prop in Hbody. destruct Hbody as [Hbody Htlen]. apply Nat.eqb_eq in Htlen. apply andb_prop in Hbody. destruct Hbody as [Hbody Wtr].
  apply andb_prop in Hbody. destruct Hbody as [Hbody Hfitb]. apply andb_prop in Hbody. destruct Hbody as [Hks Hlast].
  unfold sg_cuts_ok in Hcuts. cbn [wq_fields] in Hcuts. apply andb_prop in Hcuts. destruct Hcuts as [Hlen Hfo]. apply Nat.eqb_eq in Hlen.
  unfold sg_fold_fits in Hf. cbn [wq_method wq_uri wq_protocol wq_fields] in Hf. apply andb_prop in Hf. destruct Hf as [Hl0 Hfit]. apply Nat.leb_le in Hl0.
  unfold sg_fold_wire in Hc. cbn [wq_method wq_uri wq_protocol wq_fields] in Hc.
  set (fps := combine fs cuts) in *. set (flat := sg_block_flat fps) in *.
  assert (Efs : map fst fps = fs) by (apply sg_map_fst_combine; exact Hlen).
  assert (Okf : forallb (fun fp => wr_field_ok (fst fp)) fps = true).
  { pose proof (sg_okf fs Wb) as O. rewrite <- Efs in O. rewrite forallb_forall in O. apply forallb_forall. intros fp Hin. apply O. apply in_map. exact Hin. }
  destruct (sg_block_flat_ok fps Okf Hfo) as (Fok & Fnp). fold flat in Fok, Fnp.
  set (body := sg_cfbody_wire ks last tr tcuts) in *.
  set (bwt := sg_fwire flat ++ [CR; LF] ++ body).
  assert (Hc' : concat chunks = wr_ser_request_line m u p ++ [CR; LF] ++ bwt) by (rewrite Hc; unfold bwt; rewrite <- !app_assoc; reflexivity).
  set (Tend := wr_block_tx fs (sg_th0 g 0 m u p)) in *.
  assert (Hstart : sg_fhlog g Tend body None (sg_th0 g 0 m u p) [] bwt).
  { exists None, (sg_th0 g 0 m u p), flat, (sg_fnext flat). split; [left; split; reflexivity|]. split; [exact Fok|]. split; [rewrite Fnp; discriminate|].
    split; [unfold sg_lrun, flat; rewrite (sg_block_lrun fps _ Hfo), Efs; reflexivity|]. split; [reflexivity|]. split; [apply sg_fnext_ne|].
    split; [apply (sg_fwire_split body)|exact Hfit]. }
  pose proof (dv_all_chunks cb g Hcb Hsp m u p Wl Hl0 bwt (sg_fhlog g Tend body) (dv_cfin g m u p fs ks last tr) (dv_cext g m u p fs ks last tr tcuts) Hstart
              (dv_cext_finish g m u p fs ks last tr tcuts)
              (dv_cext_step cb g Hcb Hsp m u p fs ks last tr Wl Wc Hco Hlast Hfitb tcuts Wtr Htlen Htfo Hfitt bwt (sg_fhlog g Tend body))
              (dv_fcall_hdrs cb g Hcb m u p bwt body Tend _ _ (dv_ctail cb g Hcb Hsp m u p fs ks last tr Wl Wc Hco Hks Hlast Hfitb tcuts Wtr Htlen Htfo Hfitt bwt (sg_fhlog g Tend body)))
              chunks Hall Hc') as [_ Dl].
  exact Dl.
Qed.

(* the REQUEST_BODY_DATA events alone; the marker precedes the one REQUEST_COMPLETE event *)
Theorem dv_request_chunked_delivery : forall cb g r (cuts : list (list bytes)) (ks : list bd_chunk) (last : bytes) (tr : list wr_field)
    (tcuts : list (list bytes)) (chunks : list bytes),
  wr_all_ok cb -> g_allow_space_uri g = false -> sg_chunked_ok g r = true -> sg_cuts_ok r cuts = true -> sg_fold_fits g r cuts = true ->
  sg_cfbody_ok g ks last tr tcuts = true ->
  Forall (fun x => x <> []) chunks -> concat chunks = sg_fold_wire r cuts ++ sg_cfbody_wire ks last tr tcuts ->
  let log := dv_log cb g (OpOpen :: map OpReqData chunks) in
  dv_delivered H_REQUEST_BODY_DATA 0 true (bd_chunks_data ks) (dv_sel H_REQUEST_BODY_DATA log) /\
  dv_sel H_REQUEST_COMPLETE log = [dv_done H_REQUEST_COMPLETE 0] /\
  bd_marker_ok H_REQUEST_BODY_DATA H_REQUEST_COMPLETE (dv_selp dv_rq_hook log) false = true.
Proof.
  intros cb g r cuts ks last tr tcuts chunks Hcb Hsp Wr C1 F1 B1 A1 E1 log.
  pose proof (dv_request_chunked_delivery_c cb g r cuts ks last tr tcuts chunks Hcb Hsp Wr C1 F1 B1 A1 E1) as Dl. fold log in Dl.
  destruct (dv_delivered_c_sel H_REQUEST_BODY_DATA H_REQUEST_COMPLETE 0 true _ _ ltac:(discriminate) Dl) as (D1 & D2 & D3).
  rewrite (dv_sel_selp dv_rq_hook H_REQUEST_BODY_DATA log eq_refl) in D1. rewrite (dv_sel_selp dv_rq_hook H_REQUEST_COMPLETE log eq_refl) in D2.
  split; [exact D1|]. split; [exact D2|exact D3].
Qed.

(* delivery and accounting together (the lengths: PSegChunkedThm.sg_request_chunked_counted) *)
Require Import Htp.Proof.PSegChunkedThm.
Theorem dv_request_chunked_delivery_counted : forall cb g r (cuts : list (list bytes)) (ks : list bd_chunk) (last : bytes) (tr : list wr_field)
    (tcuts : list (list bytes)) (chunks : list bytes),
  wr_all_ok cb -> g_allow_space_uri g = false -> sg_chunked_ok g r = true -> sg_cuts_ok r cuts = true -> sg_fold_fits g r cuts = true ->
  sg_cfbody_ok g ks last tr tcuts = true ->
  Forall (fun x => x <> []) chunks -> concat chunks = sg_fold_wire r cuts ++ sg_cfbody_wire ks last tr tcuts ->
  let run := cp_run cb g connp_new (OpOpen :: map OpReqData chunks) in
  (exists t, c_txs (fst run) = [Some t] /\ t_request_entity_len t = Z.of_nat (length (bd_chunks_data ks)) /\
             t_request_message_len t = Z.of_nat (length (bd_chunks_wire ks) + length last) /\ t_request_progress t = c_HTP_REQUEST_COMPLETE) /\
  dv_delivered H_REQUEST_BODY_DATA 0 true (bd_chunks_data ks) (dv_sel H_REQUEST_BODY_DATA (concat (map r_events (snd run)))).
Proof.
  intros cb g r cuts ks last tr tcuts chunks Hcb Hsp Wr C1 F1 B1 A1 E1. cbv zeta. split.
  - apply (sg_request_chunked_counted cb g r cuts ks last tr tcuts chunks Hcb Hsp Wr C1 F1 B1 A1 E1).
  - apply (dv_request_chunked_delivery cb g r cuts ks last tr tcuts chunks Hcb Hsp Wr C1 F1 B1 A1 E1).
Qed.
(* header and trailer fields one line each: the wire of PWireExch.wr_request_wire ++ sg_cbody_wire; and the Appendix-A encoder *)
Theorem dv_request_chunked_delivery_unfolded : forall cb g r (ks : list bd_chunk) (last : bytes) (tr : list wr_field) (chunks : list bytes),
  wr_all_ok cb -> g_allow_space_uri g = false -> sg_chunked_ok g r = true -> sg_fits g r = true -> sg_cbody_ok g ks last tr = true ->
  Forall (fun x => x <> []) chunks -> concat chunks = wr_request_wire r ++ sg_cbody_wire ks last tr ->
  dv_delivered H_REQUEST_BODY_DATA 0 true (bd_chunks_data ks) (dv_sel H_REQUEST_BODY_DATA (dv_log cb g (OpOpen :: map OpReqData chunks))).
Proof.
  intros cb g r ks last tr chunks Hcb Hsp Wr Hf Hb Hall Hc.
  destruct (sg_cfbody_whole g ks last tr) as [B1 B2].
  apply (dv_request_chunked_delivery cb g r (sg_cuts_whole r) ks last tr (sg_tr_whole tr) chunks Hcb Hsp Wr (sg_whole_cuts_ok r)).
  - rewrite sg_whole_fits. exact Hf.
  - rewrite B1. exact Hb.
  - exact Hall.
  - rewrite sg_fold_wire_whole, B2. exact Hc.
Qed.

(* ================= non-vacuity and the vm_compute harness ================= *)
Require Coq.Strings.String.
Import Coq.Strings.String.StringSyntax.
Local Open Scope string_scope.
(* PSegChunkedThm's example: POST /1 | Host: a | Transfer-Encoding: chunked | | 3;x=y | abc | 00C | 0 CRLF CRLF GET / CRLF | 0 | X-T: 1 | Host:b | |
   2 chunks there; here a third one is put in front: 1 | Z *)
Definition dv_ex_cks : list bd_chunk := mk_bd_chunk (bd_str "1" ++ bd_CRLF) (bd_str "Z") bd_CRLF :: sg_ex_cks.
Definition dv_ex_cwire : bytes := wr_request_wire sg_ex_creq ++ sg_cbody_wire dv_ex_cks bd_last_line sg_ex_ctr.
Definition dv_ex_cdata : bytes := bd_str "Zabc0" ++ bd_CRLF ++ bd_CRLF ++ bd_str "GET /" ++ bd_CRLF.
Example dv_ex_chunked_premises :
  sg_chunked_ok (sg_ex_cfg 18000) sg_ex_creq = true /\ sg_fits (sg_ex_cfg 18000) sg_ex_creq = true /\
  sg_cbody_ok (sg_ex_cfg 18000) dv_ex_cks bd_last_line sg_ex_ctr = true /\ bd_chunks_data dv_ex_cks = dv_ex_cdata /\ length dv_ex_cwire = 116%nat.
Proof. repeat split; vm_compute; reflexivity. Qed.
(* whole, byte by byte, every single cut: exactly the decoded data, at least 3 data events, one marker, at the end *)
Example dv_ex_chunked_cuts :
  dv_rq (sg_ex_cfg 18000) [dv_ex_cwire] = (dv_ex_cdata, 3%nat, 1%nat, true) /\
  dv_rq (sg_ex_cfg 18000) (sg_bytewise dv_ex_cwire) = (dv_ex_cdata, 16%nat, 1%nat, true) /\
  forallb (fun ch => let '(b, k, mk, lst) := dv_rq (sg_ex_cfg 18000) ch in
                     (if list_eq_dec N.eq_dec b dv_ex_cdata then true else false) && Nat.leb 3 k && Nat.leb k 4 && Nat.eqb mk 1 && lst) (sg_cuts1 dv_ex_cwire) = true.
Proof. split; [vm_compute; reflexivity|]. split; vm_compute; reflexivity. Qed.

(* ================= THEOREMS FOR RE-EXPORT (Properties_C06.v), request direction, chunk-coded body =================
   dv_request_chunked_delivery_c         dv_delivered_c: the REQUEST_BODY_DATA and REQUEST_COMPLETE events of the whole run = data* ++ [marker; REQUEST_COMPLETE]
   dv_request_chunked_delivery           dv_delivered H_REQUEST_BODY_DATA 0 true (bd_chunks_data ks) (REQUEST_BODY_DATA events of the whole run), one REQUEST_COMPLETE, marker before it
   dv_request_chunked_delivery_counted   + txs = [Some t], request_entity_len = |data|, request_message_len = |chunks| + |last-chunk line|, COMPLETE
   dv_request_chunked_delivery_unfolded  header and trailer fields one line each
   premises (those of PSegChunkedRun.sg_request_chunked_fold_trailer_chunking): wr_all_ok cb, g_allow_space_uri g = false, sg_chunked_ok g r = true,
     sg_cuts_ok r cuts = true, sg_fold_fits g r cuts = true, sg_cfbody_ok g ks last tr tcuts = true, Forall (fun x => x <> []) chunks,
     concat chunks = sg_fold_wire r cuts ++ sg_cfbody_wire ks last tr tcuts *)
Print Assumptions dv_request_chunked_delivery_c.
Print Assumptions dv_request_chunked_delivery.
Print Assumptions dv_request_chunked_delivery_counted.
Print Assumptions dv_request_chunked_delivery_unfolded.
