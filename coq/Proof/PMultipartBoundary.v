(* C14 (e): htp_mpartp_find_boundary on well-formed Content-Type headers.
   General form: any header  pre ++ "boundary=" ++ b  (unquoted) or  pre ++ "boundary=""" ++ b ++ """"  (quoted)
   where pre begins with "multipart/form-data;" and the first case-insensitive occurrence of "boundary" in
   pre ++ "boundary" is the final one; b non-empty, at most 70 bytes, letters / digits / dash. *)
Require Import Htp.Model.Base Htp.Model.MBstr Htp.Model.MMultipart.
Require Import Htp.Proof.PMultipart.
Require Coq.Strings.String.
Import Coq.Strings.String.StringSyntax.

Definition mp_plain_bchar' (c : N) : bool := mp_in 48 57 c || mp_in 97 122 c || mp_in 65 90 c || (c =? mp_DASH)%N.

(* ------------------------------------------------------------------ character facts *)
Definition mpb_charfacts (c : N) : bool :=
  implb (mp_plain_bchar' c)
        (negb (htp_is_space c) && negb (c =? mp_QUOTE)%N && negb (c =? mp_COMMA)%N && negb (c =? mp_SEMI)%N &&
         negb (c =? mp_EQ)%N && (mp_bchar_flag c =? 0)%N).

Lemma mpb_plain_lt c : mp_plain_bchar' c = true -> (c < 256)%N.
Proof.
  unfold mp_plain_bchar', mp_in, mp_DASH. intros H.
  repeat (apply orb_true_iff in H; destruct H as [H|H]);
    try (apply andb_true_iff in H; destruct H as [_ H]; apply N.leb_le in H; lia).
  apply N.eqb_eq in H. lia.
Qed.

Lemma mpb_plain_facts c : mp_plain_bchar' c = true ->
  htp_is_space c = false /\ (c =? mp_QUOTE)%N = false /\ (c =? mp_COMMA)%N = false /\ (c =? mp_SEMI)%N = false /\
  (c =? mp_EQ)%N = false /\ mp_bchar_flag c = 0%N.
Proof.
  intros H. assert (S : forallb mpb_charfacts all_bytes = true) by (vm_compute; reflexivity).
  pose proof (byte_sweep mpb_charfacts S c (mpb_plain_lt c H)) as F. unfold mpb_charfacts in F. rewrite H in F.
  cbn [implb] in F. repeat (apply andb_true_iff in F; destruct F as [F ?]).
  repeat match goal with X : negb _ = true |- _ => apply negb_true_iff in X end.
  apply N.eqb_eq in H0. tauto.
Qed.

Lemma mpb_take_all (p : N -> bool) (b : bytes) : forallb p b = true -> take_while p b = b.
Proof. induction b as [|c r IH]; cbn [forallb take_while]; [reflexivity|]. intros H. apply andb_true_iff in H. destruct H as [-> H]. rewrite IH by exact H. reflexivity. Qed.

Lemma mpb_take_all_stop (p : N -> bool) (b : bytes) x t : forallb p b = true -> p x = false -> take_while p (b ++ x :: t) = b.
Proof.
  induction b as [|c r IH]; cbn [forallb take_while app]; intros H Hx; [rewrite Hx; reflexivity|].
  apply andb_true_iff in H. destruct H as [-> H]. rewrite IH by assumption. reflexivity.
Qed.

Lemma mpb_skipn_all {A} (l : list A) : skipn (length l) l = [].
Proof. induction l; [reflexivity|exact IHl]. Qed.
Lemma mpb_skipn_app {A} (l r : list A) : skipn (length l) (l ++ r) = r.
Proof. induction l; [reflexivity|exact IHl]. Qed.

Lemma mpb_skipn_add {A} (l r : list A) k : skipn (length l + k) (l ++ r) = skipn k r.
Proof. induction l; [reflexivity|exact IHl]. Qed.

Lemma mpb_forall_weaken (p q : N -> bool) (b : bytes) : (forall c, p c = true -> q c = true) -> forallb p b = true -> forallb q b = true.
Proof. intros I. induction b as [|c r IH]; cbn [forallb]; [reflexivity|]. intros H. apply andb_true_iff in H. destruct H as [H1 H2]. rewrite (I c H1), (IH H2). reflexivity. Qed.

Lemma mpb_existsb_none (p q : N -> bool) (b : bytes) : (forall c, p c = true -> q c = false) -> forallb p b = true -> existsb q b = false.
Proof. intros I. induction b as [|c r IH]; cbn [forallb existsb]; [reflexivity|]. intros H. apply andb_true_iff in H. destruct H as [H1 H2]. rewrite (I c H1), (IH H2). reflexivity. Qed.

Lemma mpb_existsb_skipn (q : N -> bool) (b : bytes) k : existsb q b = false -> existsb q (skipn k b) = false.
Proof.
  revert b. induction k as [|k IH]; intros b H; [exact H|]. destruct b as [|c r]; [reflexivity|].
  cbn [existsb] in H. apply orb_false_iff in H. apply IH. tauto.
Qed.

(* ------------------------------------------------------------------ the substring search *)
Lemma mpb_match_app n : forall h rest, length n <= length h -> match_at_nocase (h ++ rest) n = match_at_nocase h n.
Proof.
  induction n as [|y n IH]; intros h rest Hl; [destruct h; [destruct rest|]; reflexivity|].
  destruct h as [|x h]; [cbn in Hl; lia|]. cbn [app match_at_nocase].
  destruct (c_toupper x =? c_toupper y)%N; [|reflexivity]. apply IH. cbn in Hl. lia.
Qed.

Lemma mpb_match_self n : forall rest, match_at_nocase (n ++ rest) n = true.
Proof. induction n as [|y n IH]; intros rest; [destruct rest; reflexivity|]. cbn [app match_at_nocase]. rewrite N.eqb_refl. apply IH. Qed.

Lemma mpb_index_range h n : forall i, (0 <= i)%Z -> (index_from_nocase h n i = -1 \/ i <= index_from_nocase h n i)%Z.
Proof.
  induction h as [|x h IH]; intros i Hi; cbn [index_from_nocase]; [left; reflexivity|].
  destruct (match_at_nocase (x :: h) n); [right; lia|]. destruct (IH (i + 1)%Z ltac:(lia)) as [E|E]; [left; exact E|right; lia].
Qed.

(* the first occurrence of n in pre ++ n is the last one -> it is also the first one in pre ++ n ++ rest *)
Lemma mpb_index_app n pre : forall i rest, (0 <= i)%Z ->
  index_from_nocase (pre ++ n) n i = (i + Z.of_nat (length pre))%Z ->
  index_from_nocase (pre ++ n ++ rest) n i = (i + Z.of_nat (length pre))%Z.
Proof.
  induction pre as [|x pre IH]; intros i rest Hi H.
  - cbn [app length] in *. destruct n as [|y n].
    + destruct rest; cbn in *; [exact H|lia].
    + cbn [app index_from_nocase]. change (y :: n ++ rest) with ((y :: n) ++ rest). rewrite mpb_match_self. cbn. lia.
  - cbn [app index_from_nocase] in H |- *.
    assert (Em : match_at_nocase (x :: pre ++ n ++ rest) n = match_at_nocase (x :: pre ++ n) n).
    { rewrite app_assoc. change (x :: (pre ++ n) ++ rest) with ((x :: pre ++ n) ++ rest).
      apply mpb_match_app. cbn [length]. rewrite app_length. lia. }
    rewrite Em.
    destruct (match_at_nocase (x :: pre ++ n) n) eqn:E.
    + cbn [length] in H. lia.
    + replace (i + Z.of_nat (length (x :: pre)))%Z with ((i + 1) + Z.of_nat (length pre))%Z in * by (cbn [length]; lia).
      apply IH; [lia|exact H].
Qed.

Definition mpb_pre_ok (pre : bytes) : Prop :=
  begins_with_mem pre mp_s_mpfd = true /\
  index_of_mem_nocase (pre ++ mp_s_boundary) mp_s_boundary = Z.of_nat (length pre).

Lemma mpb_index pre rest : mpb_pre_ok pre -> index_of_mem_nocase (pre ++ mp_s_boundary ++ rest) mp_s_boundary = Z.of_nat (length pre).
Proof. intros [_ H]. unfold index_of_mem_nocase in *. apply (mpb_index_app mp_s_boundary pre 0%Z rest); [lia|exact H]. Qed.

Lemma mpb_begins n : forall h rest, begins_with_mem h n = true -> begins_with_mem (h ++ rest) n = true.
Proof.
  induction n as [|y n IH]; intros h rest H; [destruct h; [destruct rest|]; reflexivity|]. destruct h as [|x h]; [discriminate H|].
  cbn [app begins_with_mem] in *. destruct (x =? y)%N; [|discriminate H]. apply IH. exact H.
Qed.

(* ------------------------------------------------------------------ htp_mpartp_validate_content_type *)
Lemma mpb_vct pre t fl : mpb_pre_ok pre -> existsb (fun c => (c =? mp_EQ)%N) t = false ->
  mp_validate_content_type (pre ++ mp_s_boundary ++ mp_EQ :: t) fl = fl.
Proof.
  intros Hp Ht. unfold mp_validate_content_type.
  set (ct := pre ++ mp_s_boundary ++ mp_EQ :: t).
  assert (E : mp_vct_loop (S (length ct)) ct 0 fl = (1, fl)).
  { assert (Hl : exists f, length ct = S f).
    { subst ct. rewrite !app_length. cbn [length]. eexists. rewrite Nat.add_comm. cbn. reflexivity. }
    destruct Hl as [f ->]. cbn [mp_vct_loop].
    assert (Hn : mp_isnil ct = false) by (subst ct; destruct pre; reflexivity). rewrite Hn.
    subst ct. rewrite (mpb_index pre (mp_EQ :: t) Hp).
    destruct (Z.of_nat (length pre) <? 0)%Z eqn:Eneg; [apply Z.ltb_lt in Eneg; lia|].
    rewrite Nat2Z.id, mpb_skipn_app.
    assert (Hex : existsb (fun c => (c =? mp_EQ)%N) (mp_s_boundary ++ mp_EQ :: t) = true).
    { rewrite existsb_app. cbn [existsb]. rewrite N.eqb_refl. rewrite orb_true_r. reflexivity. }
    rewrite Hex. cbn [negb].
    change (firstn 8 (mp_s_boundary ++ mp_EQ :: t)) with mp_s_boundary.
    change (skipn 8 (mp_s_boundary ++ mp_EQ :: t)) with (mp_EQ :: t).
    change (forallb (mp_in 97 122) mp_s_boundary) with true. cbv iota.
    (* second round: the next occurrence, if any, is not followed by an equals sign *)
    cbn [mp_vct_loop mp_isnil].
    destruct (index_of_mem_nocase (mp_EQ :: t) mp_s_boundary <? 0)%Z eqn:E2; [reflexivity|].
    apply Z.ltb_ge in E2.
    assert (Hsk : existsb (fun c => (c =? mp_EQ)%N) (skipn (Z.to_nat (index_of_mem_nocase (mp_EQ :: t) mp_s_boundary)) (mp_EQ :: t)) = false).
    { unfold index_of_mem_nocase in *. cbn [index_from_nocase] in *.
      change (match_at_nocase (mp_EQ :: t) mp_s_boundary) with false in *. cbv iota in *.
      destruct (mpb_index_range t mp_s_boundary (0 + 1)%Z ltac:(lia)) as [E|E]; [lia|].
      replace (Z.to_nat (index_from_nocase t mp_s_boundary (0 + 1))) with (S (Z.to_nat (index_from_nocase t mp_s_boundary (0 + 1) - 1))) by lia.
      cbn [skipn]. apply mpb_existsb_skipn. exact Ht. }
    rewrite Hsk. reflexivity. }
  rewrite E. reflexivity.
Qed.

(* ------------------------------------------------------------------ htp_mpartp_validate_boundary *)
Lemma mpb_validate b fl : b <> [] -> length b <= 70 -> forallb mp_plain_bchar' b = true -> mp_validate_boundary b fl = fl.
Proof.
  intros Hne Hl Hp. unfold mp_validate_boundary.
  assert (E1 : (length b =? 0)%nat = false) by (apply Nat.eqb_neq; destruct b; [congruence|cbn; lia]).
  assert (E2 : (70 <? length b)%nat = false) by (apply Nat.ltb_ge; exact Hl).
  rewrite E1, E2. cbn [orb]. clear Hne Hl E1 E2. revert fl.
  induction b as [|c r IH]; intros fl; [reflexivity|]. cbn [forallb fold_left] in *.
  apply andb_true_iff in Hp. destruct Hp as [Hc Hr].
  destruct (mpb_plain_facts c Hc) as (_ & _ & _ & _ & _ & ->). unfold mp_or at 2. rewrite N.lor_0_r. apply IH. exact Hr.
Qed.

(* ------------------------------------------------------------------ the unquoted form *)
Theorem mp_find_boundary_plain : forall pre b,
  mpb_pre_ok pre -> b <> [] -> length b <= 70 -> forallb mp_plain_bchar' b = true ->
  mp_find_boundary (pre ++ mp_s_boundary ++ mp_EQ :: b) = (c_HTP_OK, Some b, 0%N).
Proof.
  intros pre b Hp Hne Hl Hb. unfold mp_find_boundary.
  rewrite (mpb_index pre (mp_EQ :: b) Hp).
  destruct (Z.of_nat (length pre) <? 0)%Z eqn:Eneg; [apply Z.ltb_lt in Eneg; lia|].
  rewrite Nat2Z.id.
  assert (Hsk : skipn (length pre + 8) (pre ++ mp_s_boundary ++ mp_EQ :: b) = mp_EQ :: b).
  { rewrite mpb_skipn_add. reflexivity. }
  rewrite Hsk.
  cbn [take_while]. change (negb (mp_EQ =? mp_EQ)%N) with false. cbv iota. cbn [fold_left length skipn].
  destruct b as [|c r]; [congruence|]. pose proof Hb as Hb0. cbn [forallb] in Hb. apply andb_true_iff in Hb. destruct Hb as [Hc Hr].
  destruct (mpb_plain_facts c Hc) as (Hsp & Hq & Hco & Hse & Heq & Hfl).
  cbn [take_while]. rewrite Hsp. cbn [mp_isnil length skipn]. rewrite Hq.
  assert (Hu : take_while (fun x => negb (x =? mp_COMMA)%N && negb (x =? mp_SEMI)%N && negb (htp_is_space x)) (c :: r) = c :: r).
  { apply mpb_take_all. revert Hb0. apply mpb_forall_weaken. intros x Hx.
    destruct (mpb_plain_facts x Hx) as (H1 & _ & H3 & H4 & _). rewrite H1, H3, H4. reflexivity. }
  cbn [take_while] in Hu. rewrite Hu, mpb_skipn_all. cbn [mp_isnil existsb].
  rewrite (mpb_validate (c :: r) 0%N Hne Hl Hb0).
  rewrite (mpb_begins mp_s_mpfd pre _ (proj1 Hp)).
  rewrite mpb_vct; [reflexivity|exact Hp|].
  revert Hb0. apply mpb_existsb_none. intros x Hx. destruct (mpb_plain_facts x Hx) as (_ & _ & _ & _ & H5 & _). exact H5.
Qed.

(* ------------------------------------------------------------------ the quoted form: the boundary is extracted, flagged UNUSUAL *)
Theorem mp_find_boundary_quoted : forall pre b,
  mpb_pre_ok pre -> b <> [] -> length b <= 70 -> forallb mp_plain_bchar' b = true ->
  mp_find_boundary (pre ++ mp_s_boundary ++ mp_EQ :: mp_QUOTE :: b ++ [mp_QUOTE]) = (c_HTP_OK, Some b, c_mp_HBOUNDARY_UNUSUAL).
Proof.
  intros pre b Hp Hne Hl Hb. unfold mp_find_boundary.
  rewrite (mpb_index pre _ Hp).
  destruct (Z.of_nat (length pre) <? 0)%Z eqn:Eneg; [apply Z.ltb_lt in Eneg; lia|].
  rewrite Nat2Z.id.
  rewrite mpb_skipn_add. change (skipn 8 (mp_s_boundary ++ mp_EQ :: mp_QUOTE :: b ++ [mp_QUOTE])) with (mp_EQ :: mp_QUOTE :: b ++ [mp_QUOTE]).
  cbn [take_while]. change (negb (mp_EQ =? mp_EQ)%N) with false. cbv iota. cbn [fold_left length skipn].
  cbn [take_while]. change (htp_is_space mp_QUOTE) with false. cbv iota. cbn [mp_isnil length skipn]. rewrite N.eqb_refl.
  assert (Hq : take_while (fun x => negb (x =? mp_QUOTE)%N) (b ++ [mp_QUOTE]) = b).
  { apply mpb_take_all_stop; [|rewrite N.eqb_refl; reflexivity]. revert Hb. apply mpb_forall_weaken. intros x Hx.
    destruct (mpb_plain_facts x Hx) as (_ & H2 & _). rewrite H2. reflexivity. }
  rewrite Hq, mpb_skipn_app.
  destruct b as [|c r] eqn:Eb; [congruence|]. rewrite <- Eb in *. cbn [mp_isnil]. 
  assert (Hn : mp_isnil b = false) by (rewrite Eb; reflexivity). rewrite Hn. cbn [existsb].
  rewrite (mpb_validate b _ Hne Hl Hb).
  rewrite (mpb_begins mp_s_mpfd pre _ (proj1 Hp)).
  rewrite mpb_vct; [reflexivity|exact Hp|].
  cbn [existsb]. change (mp_QUOTE =? mp_EQ)%N with false. cbn [orb]. rewrite existsb_app. cbn [existsb].
  change (mp_QUOTE =? mp_EQ)%N with false. cbn [orb]. rewrite orb_false_r.
  revert Hb. apply mpb_existsb_none. intros x Hx. destruct (mpb_plain_facts x Hx) as (_ & _ & _ & _ & H5 & _). exact H5.
Qed.

(* ------------------------------------------------------------------ instances *)
Lemma mpb_pre_plain : mpb_pre_ok (mp_str "multipart/form-data; ").
Proof. split; vm_compute; reflexivity. Qed.
Lemma mpb_pre_charset : mpb_pre_ok (mp_str "multipart/form-data; charset=utf-8; ").
Proof. split; vm_compute; reflexivity. Qed.

(* find_boundary_spec_full of Properties_C14.v *)
Theorem mp_find_boundary_spec : forall b, b <> [] -> length b <= 70 -> forallb mp_plain_bchar' b = true ->
  mp_find_boundary (mp_str "multipart/form-data; boundary=" ++ b) = (c_HTP_OK, Some b, 0%N).
Proof. intros b H1 H2 H3. exact (mp_find_boundary_plain _ b mpb_pre_plain H1 H2 H3). Qed.

Theorem mp_find_boundary_spec_quoted : forall b, b <> [] -> length b <= 70 -> forallb mp_plain_bchar' b = true ->
  mp_find_boundary (mp_str "multipart/form-data; boundary=""" ++ b ++ mp_str """") = (c_HTP_OK, Some b, c_mp_HBOUNDARY_UNUSUAL).
Proof. intros b H1 H2 H3. exact (mp_find_boundary_quoted _ b mpb_pre_plain H1 H2 H3). Qed.

Theorem mp_find_boundary_spec_charset : forall b, b <> [] -> length b <= 70 -> forallb mp_plain_bchar' b = true ->
  mp_find_boundary (mp_str "multipart/form-data; charset=utf-8; boundary=" ++ b) = (c_HTP_OK, Some b, 0%N).
Proof. intros b H1 H2 H3. exact (mp_find_boundary_plain _ b mpb_pre_charset H1 H2 H3). Qed.

(* ==================================================================== FINAL THEOREMS (for re-export in Properties_C14.v) *)
Print Assumptions mp_find_boundary_plain.
Print Assumptions mp_find_boundary_quoted.
Print Assumptions mp_find_boundary_spec.
Print Assumptions mp_find_boundary_spec_quoted.
Print Assumptions mp_find_boundary_spec_charset.
