(* C11 at history level, request direction (part 1): the framing / host indicators on the transaction a caller sees, for a
   request of the wire grammar (Spec/SWire.v: request line + header fields, ANY combination of Content-Length /
   Transfer-Encoding / Host fields) delivered from a fresh connection in ANY non-empty chunking and ANY folding of the field
   values, callbacks answering OK.  Composition of
     (a) the segmentation driver of C03 (PSegGen.sg_all_chunks + PSegFold.sg_fcall_hdrs: the header phase in any chunking and
         folding = htp_process_request_header_generic on the field lines in wire order) with an own end-of-block instance
         (fh_tail: htp_tx_state_request_headers, REQ_CONNECT_CHECK, REQ_BODY_DETERMINE for EVERY coding, CONNECT included), and
     (b) the decision logic of C11 on the field list (PFraming.fr_framing, fr_host_flags_lines).
   The statements are about the FINAL STATE after the call that delivers the empty line of the header block (the wire is the
   header part of the request: nothing follows the empty line in that call); events carry no transaction snapshot at
   REQUEST_HEADERS time (only TRANSACTION_COMPLETE does), so the state is what can be observed. *)
Require Import Htp.Model.Base Htp.Model.MBstr Htp.Model.MUri Htp.Model.MPath Htp.Model.MUrlenc Htp.Model.MConnTypes Htp.Model.MTxCommon Htp.Model.MReqLine Htp.Model.MReqUri Htp.Model.MTxReq.
Require Import Htp.Model.MReq Htp.Model.MRes Htp.Model.MConnp.
Require Import Htp.Spec.SWire Htp.Spec.SFraming Htp.Proof.PWire Htp.Proof.PWireHdr Htp.Proof.PWireBlock Htp.Proof.PWireConn Htp.Proof.PWireExch.
Require Import Htp.Proof.PWireRun Htp.Proof.PWirePres Htp.Proof.PWireGlue Htp.Proof.PSeg Htp.Proof.PSegLine Htp.Proof.PSegHdr Htp.Proof.PSegGen Htp.Proof.PSegRun.
Require Import Htp.Proof.PSegFold Htp.Proof.PBody Htp.Proof.PBodyReq Htp.Proof.PSegBody Htp.Proof.PSegChunked Htp.Proof.PFraming.

(* ================================================================ (1) the field list of a grammar block *)
Lemma fh_parse_field f : wr_field_ok f = true ->
  htp_parse_request_header_generic (wr_field_line f) = (mkhdr (wf_name f) (wf_value f) 0%N, 0%N).
Proof.
  intros Ok. unfold wr_field_ok in Ok. apply andb_prop in Ok. destruct Ok as [Ok L2]. apply andb_prop in Ok. destruct Ok as [W L1].
  pose proof (wr_req_header_roundtrip _ _ _ _ [] W L1 L2 eq_refl) as H. rewrite app_nil_r in H. exact H.
Qed.
(* the (name, value) pairs the header parser delivers for the lines of a block are the fields of the grammar *)
Lemma fh_fields fs : forallb wr_field_ok fs = true -> fr_fields (map wr_field_line fs) = map wr_field_nv fs.
Proof.
  induction fs as [|f fs IH]; intros Ok; [reflexivity|]. cbn [forallb] in Ok. apply andb_prop in Ok. destruct Ok as [Okf Ok].
  unfold fr_fields in *. cbn [map]. rewrite (IH Ok). f_equal. unfold fr_field_of_line. rewrite (fh_parse_field f Okf). reflexivity.
Qed.
Lemma fh_block_is_process fs t : wr_block_tx fs t = fr_process_all (map wr_field_line fs) t.
Proof. reflexivity. Qed.
(* the header lines of the grammar raise no flag by themselves *)
Lemma fh_block_flags : forall fs t, forallb wr_field_ok fs = true -> t_flags (wr_block_tx fs t) = t_flags t.
Proof.
  induction fs as [|f fs IH]; intros t Ok; [reflexivity|]. cbn [forallb] in Ok. apply andb_prop in Ok. destruct Ok as [Okf Ok].
  unfold wr_block_tx. cbn [map fold_left]. fold (wr_block_tx fs (htp_process_request_header_generic (wr_field_line f) t)).
  rewrite (IH _ Ok), fr_process_flags, (fh_parse_field f Okf). cbn [snd]. apply N.lor_0_r.
Qed.

Lemma fh_content_type_frame t :
  t_flags (rq_content_type t) = t_flags t /\ t_request_transfer_coding (rq_content_type t) = t_request_transfer_coding t /\
  t_request_content_length (rq_content_type t) = t_request_content_length t.
Proof. unfold rq_content_type. destruct (rq_hdr_get_c _ _); repeat split; reflexivity. Qed.
Lemma fh_host_frame nu t :
  t_request_transfer_coding (rq_host nu t) = t_request_transfer_coding t /\ t_request_content_length (rq_host nu t) = t_request_content_length t.
Proof. unfold rq_host, tx_set_flag. wr_split_ifs; split; reflexivity. Qed.

(* ---- the end of the header block on the transaction: flags and coding are those of the decision tables ---- *)
Definition fh_hs (fs : list wr_field) : list fr_field := map wr_field_nv fs.
Lemma fh_hdr_end fs t0 nu : forallb wr_field_ok fs = true ->
  t_request_headers t0 = [] -> t_req_header_repetitions t0 = 0%nat -> t_request_hostname t0 = None -> t_parsed_uri t0 = Some nu ->
  let te := sg_hdr_end (wr_block_tx fs t0) in
  let v := fr_verdict (t_request_protocol_number t0) (fh_hs fs) in
  let hv := fr_host_verdict (t_request_protocol_number t0) (u_host nu) (u_port_number nu) (fr_host_value (fh_hs fs)) in
  t_flags te = N.lor (N.lor (t_flags t0) (fr_verdict_bits v)) (fr_host_bits hv) /\
  t_request_transfer_coding te = fr_coding_num (frv_coding v).
Proof.
  intros Ok H1 H2 H3 H4 te v hv. set (lines := map wr_field_line fs).
  assert (Ef : fr_fields lines = fh_hs fs) by apply (fh_fields fs Ok).
  pose proof (wr_keep_h_block fs t0) as K. unfold wr_keep_h in K. destruct K as (_ & _ & _ & _ & _ & _ & _ & _ & _ & K10).
  set (tb := wr_block_tx fs t0) in *.
  assert (Pu : t_parsed_uri (rq_te_cl tb) = Some nu) by (rewrite sg_parsed_uri_te_cl, K10; exact H4).
  assert (Ee : te = rq_content_type (rq_host nu (rq_te_cl tb))) by (unfold te, sg_hdr_end; cbv zeta; rewrite Pu; reflexivity).
  destruct (fh_content_type_frame (rq_host nu (rq_te_cl tb))) as (C1 & C2 & _). destruct (fh_host_frame nu (rq_te_cl tb)) as (D1 & _).
  destruct (fr_framing lines t0 H1 H2) as [Fc Ff]. cbv zeta in Fc, Ff. rewrite Ef in Fc, Ff.
  pose proof (fr_host_flags_lines nu lines t0 H1 H2 H3) as Fh. cbv zeta in Fh. rewrite Ef in Fh.
  change (fr_process_all lines t0) with tb in Fc, Ff, Fh.
  rewrite Ee. split.
  - rewrite C1, Fh, Ff. unfold tb. rewrite (fh_block_flags fs t0 Ok). reflexivity.
  - rewrite C2, D1. exact Fc.
Qed.

(* ================================================================ (2) the request line leaves request_hostname alone *)
Definition fh_kp (a b : tx) : Prop := t_request_hostname a = t_request_hostname b.
Lemma fh_kp_urldecode g s t : fh_kp (snd (rq_urldecode_uri g s t)) t.
Proof. unfold rq_urldecode_uri. destruct (ud_urldecode_from _ _ _ _) as [[o fl] st]. reflexivity. Qed.
Lemma fh_kp_urldecode_opt g s t : fh_kp (snd (rq_urldecode_uri_opt g s t)) t.
Proof.
  unfold rq_urldecode_uri_opt. destruct s as [s|]; [|reflexivity].
  pose proof (fh_kp_urldecode g s t) as H. destruct (rq_urldecode_uri g s t) as [o t']. exact H.
Qed.
Lemma fh_kp_normalize_path g p t : fh_kp (snd (rq_normalize_path g p t)) t.
Proof.
  unfold rq_normalize_path. destruct (pth_decode_path_st _ _ _) as [p1 st1].
  destruct (if d_bestfit (g_dec_url_path g) then _ else _) as [p2 st2]. reflexivity.
Qed.
Lemma fh_kp_normalize_parsed_uri g raw t : fh_kp (snd (htp_normalize_parsed_uri g raw t)) t.
Proof.
  unfold htp_normalize_parsed_uri, fh_kp.
  pose proof (fh_kp_urldecode_opt g (u_user raw) t) as H1. destruct (rq_urldecode_uri_opt g (u_user raw) t) as [user t1]. cbn [snd] in H1.
  pose proof (fh_kp_urldecode_opt g (u_pass raw) t1) as H2. destruct (rq_urldecode_uri_opt g (u_pass raw) t1) as [pass t2]. cbn [snd] in H2.
  pose proof (fh_kp_urldecode_opt g (u_host raw) t2) as H3. destruct (rq_urldecode_uri_opt g (u_host raw) t2) as [host t3]. cbn [snd] in H3.
  destruct (uri_norm_port_opt (u_port raw)) as [pn inv].
  set (t4 := if inv then t3 <| t_flags ::= (fun f => flag_set f c_HTP_HOSTU_INVALID) |> else t3).
  assert (H4 : fh_kp t4 t3) by (unfold t4; destruct inv; reflexivity).
  assert (H5 : fh_kp (snd (match u_path raw with
                           | None => (None, t4)
                           | Some p => let '(o, t) := rq_normalize_path g p t4 in (Some o, t)
                           end)) t4).
  { destruct (u_path raw) as [p|]; [|reflexivity]. pose proof (fh_kp_normalize_path g p t4) as H. destruct (rq_normalize_path g p t4). exact H. }
  destruct (match u_path raw with None => (None, t4) | Some p => let '(o, t) := rq_normalize_path g p t4 in (Some o, t) end) as [path t5]. cbn [snd] in H5.
  pose proof (fh_kp_urldecode_opt g (u_frag raw) t5) as H6. destruct (rq_urldecode_uri_opt g (u_frag raw) t5) as [frag t6]. cbn [snd] in H6 |- *.
  unfold fh_kp in *. congruence.
Qed.
Lemma fh_kp_uri_pipeline g is_connect u t t' : rq_uri_pipeline_opt g is_connect u t = Some t' -> fh_kp t' t.
Proof.
  unfold rq_uri_pipeline_opt. intros E.
  assert (Hr : match (if is_connect then rq_parse_uri_hostport (t_parsed_uri_raw t) u t else Some (rq_parse_uri_into (t_parsed_uri_raw t) u, t)) with
               | Some (raw, t0) => fh_kp t0 t | None => True end).
  { destruct is_connect; [|reflexivity]. unfold rq_parse_uri_hostport. destruct u as [s|]; [|exact I].
    destruct (parse_hostport s) as [[[hn port] pn] invalid]. destruct (match hn with Some h => _ | None => _ end); reflexivity. }
  destruct (if is_connect then _ else _) as [[raw t0]|]; [|discriminate].
  set (t1 := t0 <| t_parsed_uri_raw := raw |>) in *.
  assert (Hn : fh_kp (snd (match t_parsed_uri t1 with Some nu => (nu, t1) | None => htp_normalize_parsed_uri g raw t1 end)) t0).
  { destruct (t_parsed_uri t1) as [nu|]; [reflexivity|]. pose proof (fh_kp_normalize_parsed_uri g raw t1) as H. unfold fh_kp in *. rewrite H. reflexivity. }
  destruct (match t_parsed_uri t1 with Some nu => (nu, t1) | None => htp_normalize_parsed_uri g raw t1 end) as [nu t2]. cbn [snd] in Hn.
  inversion E as [E']. unfold fh_kp in *. destruct (u_host nu) as [h|]; [destruct (htp_validate_hostname h)|]; cbn; congruence.
Qed.

Section Line.
Variable g : cfg.
Hypothesis Hspace : g_allow_space_uri g = false.
Variable k : nat.
Variables m u pr : bytes.
Hypothesis Wl : wr_wf_request_line m u pr = true.

(* the transaction when the header block starts: what the decision logic of C11 needs to know about it *)
Lemma fh_th0_facts :
  t_request_headers (sg_th0 g k m u pr) = [] /\ t_req_header_repetitions (sg_th0 g k m u pr) = 0%nat /\
  t_request_hostname (sg_th0 g k m u pr) = None /\ t_request_protocol_number (sg_th0 g k m u pr) = wr_protocol_number pr /\
  t_request_method_number (sg_th0 g k m u pr) = htp_convert_method_to_number m /\
  t_request_progress (sg_th0 g k m u pr) = c_HTP_REQUEST_HEADERS /\ t_response_progress (sg_th0 g k m u pr) = c_HTP_RESPONSE_NOT_STARTED /\
  t_is_protocol_0_9 (sg_th0 g k m u pr) = false /\ t_hook_request_body (sg_th0 g k m u pr) = 0%nat /\
  (exists nu, t_parsed_uri (sg_th0 g k m u pr) = Some nu /\
     (forall h, u_host nu = Some h -> fr_valid_hostnameb h = false -> flag_has (t_flags (sg_th0 g k m u pr)) c_HTP_HOSTU_INVALID = true)).
Proof.
  destruct (sg_tx_line_facts g Hspace (sg_t1 k) m u pr Wl eq_refl) as (E3 & F & H1 & H2 & _ & H4 & _). cbv zeta in *.
  pose proof (sg_tx_line_hook g (sg_t1 k) m u pr Hspace Wl) as Hk.
  pose proof (fh_kp_uri_pipeline _ _ _ _ _ E3) as Kp.
  destruct (fr_hostu_invalid _ _ _ _ _ E3) as (nu & Pu & Hu).
  assert (E2 : t_request_hostname (htp_parse_request_line g (sg_t1 k <| t_request_line := Some (wr_ser_request_line m u pr) |>)) = None).
  { rewrite (wr_reqline_tx g (sg_t1 k <| t_request_line := Some (wr_ser_request_line m u pr) |>) m u pr Hspace Wl); reflexivity. }
  unfold fh_kp in Kp. rewrite E2 in Kp. clear E2 E3.
  unfold sg_th0. revert F H1 H2 H4 Hk Kp Pu Hu. generalize (sg_tx_line g (sg_t1 k) (wr_ser_request_line m u pr)). intros X F H1 H2 H4 Hk Kp Pu Hu.
  unfold wr_line_fields in F. destruct F as (F1 & F2 & F3 & F4 & F5 & F6).
  split; [exact H1|]. split; [exact H2|]. split; [exact Kp|]. split; [exact F5|]. split; [exact F2|]. split; [reflexivity|]. split; [exact H4|].
  split; [exact F6|]. split; [exact Hk|]. exists nu. split; [exact Pu|exact Hu].
Qed.
End Line.

(* ================================================================ (3) the end of the header block, for EVERY framing *)
(* the transaction after htp_tx_state_request_headers (fl: the head arrived in more than one packet) *)
Definition fh_tend (g : cfg) (m u pr : bytes) (fs : list wr_field) (fl : bool) : tx :=
  sg_hdr_end (if fl then tx_set_flag c_HTP_MULTI_PACKET_HEAD (wr_block_tx fs (sg_th0 g 0 m u pr)) else wr_block_tx fs (sg_th0 g 0 m u pr)).
(* what may still change in the same call: request_progress (BODY / COMPLETE) and the end-of-body marker's "+ 0" *)
Definition fh_norm (t : tx) : tx := t <| t_request_progress := 0%Z |> <| t_request_entity_len := 0%Z |>.
Definition fh_fin (g : cfg) (m u pr : bytes) (fs : list wr_field) (txs : list (option tx)) : Prop :=
  exists fl t, txs = [Some t] /\ fh_norm t = fh_norm (fh_tend g m u pr fs fl).

Lemma fh_te_cl_identity t : t_request_transfer_coding (rq_te_cl t) = c_HTP_CODING_IDENTITY -> (0 <= t_request_content_length (rq_te_cl t))%Z.
Proof.
  unfold rq_te_cl, tx_set_flag.
  destruct (rq_hdr_get_c (t_request_headers t) rq_str_transfer_encoding) as [te|]; destruct (rq_hdr_get_c (t_request_headers t) rq_str_content_length_lc) as [cl|].
  - destruct (negb (htp_header_has_token (h_value te) rq_str_chunked)); [intro E; discriminate E|]. destruct (t_request_protocol_number t <? c_HTP_PROTOCOL_1_1)%Z; intro E; discriminate E.
  - destruct (negb (htp_header_has_token (h_value te) rq_str_chunked)); [intro E; discriminate E|]. destruct (t_request_protocol_number t <? c_HTP_PROTOCOL_1_1)%Z; intro E; discriminate E.
  - destruct (flag_has (h_flags cl) c_HTP_FIELD_FOLDED); destruct (flag_has (h_flags cl) c_HTP_FIELD_REPEATED);
      cbn [t_request_content_length set]; destruct (parse_content_length (h_value cl) <? 0)%Z eqn:E; intro E'; try discriminate E'; apply Z.ltb_ge in E; exact E.
  - intro E; discriminate E.
Qed.
Lemma fh_hdr_end_len t : t_request_transfer_coding (sg_hdr_end t) = c_HTP_CODING_IDENTITY -> (0 <= t_request_content_length (sg_hdr_end t))%Z.
Proof.
  unfold sg_hdr_end. cbv zeta. set (t1 := rq_te_cl t).
  destruct (t_parsed_uri t1) as [nu|].
  - destruct (fh_content_type_frame (rq_host nu t1)) as (_ & C2 & C3). destruct (fh_host_frame nu t1) as (D1 & D2). rewrite C2, C3, D1, D2. apply fh_te_cl_identity.
  - destruct (fh_content_type_frame t1) as (_ & C2 & C3). rewrite C2, C3. apply fh_te_cl_identity.
Qed.

Section Tail.
Variable cb : cb_oracle.
Variable g : cfg.
Hypothesis Hcb : wr_all_ok cb.
Hypothesis Hspace : g_allow_space_uri g = false.
Variables m u pr : bytes.
Variable fs : list wr_field.
Hypothesis Wl : wr_wf_request_line m u pr = true.
Notation sg_cin := (sg_cinw sg_w0).
Let tb := wr_block_tx fs (sg_th0 g 0 m u pr).

Lemma fh_tend_facts fl :
  t_request_method_number (fh_tend g m u pr fs fl) = htp_convert_method_to_number m /\
  t_request_progress (fh_tend g m u pr fs fl) = c_HTP_REQUEST_HEADERS /\ t_response_progress (fh_tend g m u pr fs fl) = c_HTP_RESPONSE_NOT_STARTED /\
  t_is_protocol_0_9 (fh_tend g m u pr fs fl) = false /\ t_hook_request_body (fh_tend g m u pr fs fl) = 0%nat.
Proof.
  destruct (fh_th0_facts g Hspace 0 m u pr Wl) as (_ & _ & _ & _ & M & Pg & Rp & Z9 & Hk & _).
  pose proof (wr_keep_h_block fs (sg_th0 g 0 m u pr)) as K. fold tb in K. unfold wr_keep_h in K. destruct K as (K1 & K2 & K3 & K4 & K5 & K6 & K7 & K8 & K9 & K10).
  assert (Base : t_request_method_number (sg_hdr_end tb) = htp_convert_method_to_number m /\
                 t_request_progress (sg_hdr_end tb) = c_HTP_REQUEST_HEADERS /\ t_response_progress (sg_hdr_end tb) = c_HTP_RESPONSE_NOT_STARTED /\
                 t_is_protocol_0_9 (sg_hdr_end tb) = false /\ t_hook_request_body (sg_hdr_end tb) = 0%nat).
  { destruct (sg_hdr_end_facts tb) as [KE _]. unfold wr_keep in KE. destruct KE as (E1 & E2 & E3 & E4 & E5 & E6 & E7 & E8 & E9 & E10 & E11).
    split; [rewrite E2, K2; exact M|]. split; [rewrite E9, K7; exact Pg|]. split; [rewrite E10, K8; exact Rp|]. split; [rewrite E6, K6; exact Z9|rewrite E11, K9; exact Hk]. }
  unfold fh_tend. fold tb. destruct fl; [|exact Base]. rewrite sg_hdr_end_flag. exact Base.
Qed.

Lemma fh_tail bwt c c1 d rd1 (rw' : bytes) f : c_in_state c = REQ_HEADERS ->
  rq_state_fn cb g REQ_HEADERS c = rq_with_tx (tx_state_request_headers cb) c1 ->
  sg_cin c1 d rd1 [] None REQ_HEADERS (Some REQ_HEADERS) (Some H_REQUEST_HEADER_DATA) tb -> skipn rd1 d ++ rw' = [] ->
  exists cF rc, rq_loop cb g (6 + f) false c = (cF, rc) /\
    sg_post m u pr bwt (sg_fhlog g tb []) (fh_fin g m u pr fs) (fun _ _ => False) cF rw'.
Proof.
  intros Es Ef H1 Hw. apply app_eq_nil in Hw. destruct Hw as [Hs Hrw].
  assert (Erd : rd1 = length d) by (pose proof (sg_skipn_nil _ _ Hs); pose proof (ci_rd _ _ _ _ _ _ _ _ _ H1); lia). rewrite Erd in H1. clear Erd Hs.
  destruct (fh_th0_facts g Hspace 0 m u pr Wl) as (_ & _ & _ & _ & _ & Pg0 & _ & _ & _ & (nu0 & Pu0 & _)).
  pose proof (wr_keep_h_block fs (sg_th0 g 0 m u pr)) as K. fold tb in K. unfold wr_keep_h in K. destruct K as (_ & _ & _ & _ & _ & _ & K7 & _ & _ & K10).
  assert (Pg : t_request_progress tb = c_HTP_REQUEST_HEADERS) by (rewrite K7; exact Pg0).
  assert (Pu : t_parsed_uri tb = Some nu0) by (rewrite K10; exact Pu0).
  unfold rq_with_tx in Ef. rewrite (ci_tx _ _ _ _ _ _ _ _ _ H1) in Ef.
  destruct (sg_state_request_headers cb Hcb c1 d _ _ tb nu0 H1 Pg Pu) as (c2 & fl & E2 & H2). rewrite E2 in Ef.
  fold tb in H2. change (sg_hdr_end (if fl then tx_set_flag c_HTP_MULTI_PACKET_HEAD tb else tb)) with (fh_tend g m u pr fs fl) in H2.
  destruct (fh_tend_facts fl) as (M & PgT & RpT & Z9 & Hk0).
  set (T := fh_tend g m u pr fs fl) in *.
  rewrite <- Es in Ef.
  destruct (sg_iter_ok cb g c c2 d _ _ _ _ _ _ _ Ef H2) as (c3 & E3 & H3); [discriminate|].
  change (6 + f)%nat with (S (S (S (3 + f)))). rewrite (sg_rq_loop_inr cb g _ _ _ E3).
  assert (Fin : forall cF T', c_txs cF = [Some T'] -> fh_norm T' = fh_norm T ->
                  sg_post m u pr bwt (sg_fhlog g tb []) (fh_fin g m u pr fs) (fun _ _ => False) cF rw').
  { intros cF T' Et En. right. split; [exact Hrw|]. exists fl, T'. split; [exact Et|exact En]. }
  destruct (t_request_method_number T =? c_HTP_M_CONNECT)%Z eqn:Mc.
  - (* CONNECT: the request side waits for the response *)
    pose proof (sg_cin_slot _ _ _ _ _ _ _ _ _ H3) as Hsl.
    assert (Ei : rq_iter cb g false c3 = inl (c3 <| c_in_state := REQ_CONNECT_WAIT_RESPONSE |> <| c_in_status := c_HTP_STREAM_DATA_OTHER |> <| c_in_status := c_HTP_STREAM_DATA |>, c_HTP_STREAM_DATA)).
    { unfold rq_iter. rewrite (ci_state _ _ _ _ _ _ _ _ _ H3). cbn [rq_state_fn]. unfold REQ_CONNECT_CHECK_fn, rq_tx, in_txi, tx_get.
      rewrite (ci_tx _ _ _ _ _ _ _ _ _ H3), Hsl, Mc. unfold rq_exit, rq_at_end. cbn [c_in set].
      rewrite (ci_len _ _ _ _ _ _ _ _ _ H3), (ci_read _ _ _ _ _ _ _ _ _ H3), Nat.leb_refl. reflexivity. }
    rewrite (sg_rq_loop_inl cb g _ _ _ Ei). eexists _, _. split; [reflexivity|].
    apply (Fin _ T); [|reflexivity]. exact (ci_txs _ _ _ _ _ _ _ _ _ H3).
  - destruct (sg_pass_connect_check cb g c3 d _ _ _ _ _ H3 Mc) as (c4 & E4 & H4). rewrite (sg_rq_loop_inr cb g _ _ _ E4).
    pose proof (sg_cin_slot _ _ _ _ _ _ _ _ _ H4) as Hsl4.
    destruct (t_request_transfer_coding T =? c_HTP_CODING_CHUNKED)%Z eqn:Cch.
    + (* chunked: REQ_BODY_CHUNKED_LENGTH finds no byte *)
      apply Z.eqb_eq in Cch.
      destruct (sg_pass_body_determine_chunked cb g c4 d _ T H4 Cch) as (c5 & E5 & H5).
      change (3 + f)%nat with (S (S (1 + f))). rewrite (sg_rq_loop_inr cb g _ _ _ E5).
      destruct (sg_clen_scan_nolf g d None _ _ None _ [] c5 (length d) [] 0 H5) as (c6 & E6 & H6); [apply skipn_all|reflexivity|cbn; lia|].
      cbn [app] in H6.
      destruct (sg_exit_buffer cb g Hcb c6 d [] None _ _ _ H6) as (cF & EF & HF); [cbn [length sg_olist]; lia|].
      assert (Ei : rq_iter cb g false c5 = inl (cF, c_HTP_STREAM_DATA)).
      { unfold rq_iter. rewrite (ci_state _ _ _ _ _ _ _ _ _ H5). cbn [rq_state_fn]. unfold REQ_BODY_CHUNKED_LENGTH_fn.
        rewrite (ci_len _ _ _ _ _ _ _ _ _ H5), (ci_read _ _ _ _ _ _ _ _ _ H5), Nat.sub_diag, E6, EF. reflexivity. }
      rewrite (sg_rq_loop_inl cb g _ _ _ Ei). eexists _, _. split; [reflexivity|].
      apply (Fin _ (T <| t_request_progress := c_HTP_REQUEST_BODY |>)); [|reflexivity]. exact (mi_txs _ _ _ _ _ _ HF).
    + destruct (t_request_transfer_coding T =? c_HTP_CODING_IDENTITY)%Z eqn:Cid.
      * (* identity *)
        apply Z.eqb_eq in Cid. pose proof (fh_hdr_end_len _ Cid) as Ln. fold (fh_tend g m u pr fs fl) in Ln. fold T in Ln.
        assert (Cl : t_request_content_length T = Z.of_nat (Z.to_nat (t_request_content_length T))) by (rewrite Z2Nat.id; [reflexivity|exact Ln]).
        destruct (sg_pass_body_determine_id cb g c4 d _ T _ H4 Cid Cl) as (c5 & E5 & H5).
        change (3 + f)%nat with (S (S (1 + f))). rewrite (sg_rq_loop_inr cb g _ _ _ E5).
        destruct (Z.to_nat (t_request_content_length T)) as [|n'] eqn:En.
        -- (* Content-Length: 0 *)
           destruct (sg_pass_finalize_body cb g Hcb c5 d _ _ H5 Cid) as (c6 & E6 & H6);
             [rewrite PgT; reflexivity|rewrite RpT; reflexivity|exact Z9|exact Hk0|].
           change (S (1 + f)) with (S (S f)). rewrite (sg_rq_loop_inr cb g _ _ _ E6).
           rewrite (sg_rq_loop_inl cb g _ _ _ (sg_pass_idle_end cb g c6 d _ _ _ _ H6)).
           eexists _, _. split; [reflexivity|]. apply (Fin _ (sg_tcomplete T)); [|reflexivity].
           change (c_txs (c6 <| c_in_status := c_HTP_STREAM_DATA |>)) with (c_txs c6). exact (il_txs _ _ _ _ _ _ _ H6).
        -- destruct H5 as [H5 L5].
           pose proof (sg_body_pass cb g Hcb c5 d _ _ (S n') H5 Hk0 L5 ltac:(lia) ltac:(lia)) as P. cbv zeta in P. rewrite Nat.sub_diag in P.
           rewrite (sg_rq_loop_inl cb g _ _ _ P). eexists _, _. split; [reflexivity|].
           apply (Fin _ (T <| t_request_progress := c_HTP_REQUEST_BODY |>)); [|reflexivity].
           change (c_txs (c5 <| c_in_status := c_HTP_STREAM_DATA |>)) with (c_txs c5). exact (ci_txs _ _ _ _ _ _ _ _ _ H5).
      * destruct (t_request_transfer_coding T =? c_HTP_CODING_NO_BODY)%Z eqn:Cnb.
        -- (* no body: the request is complete *)
           apply Z.eqb_eq in Cnb.
           destruct (sg_pass_body_determine cb g c4 d _ _ _ _ _ H4 Cnb) as (c5 & E5 & H5).
           change (3 + f)%nat with (S (S (S f))). rewrite (sg_rq_loop_inr cb g _ _ _ E5).
           destruct (sg_pass_finalize cb g Hcb c5 d _ _ H5 Cnb PgT) as (c6 & E6 & H6); [rewrite RpT; reflexivity|exact Z9|].
           rewrite (sg_rq_loop_inr cb g _ _ _ E6).
           rewrite (sg_rq_loop_inl cb g _ _ _ (sg_pass_idle_end cb g c6 d _ _ _ _ H6)).
           eexists _, _. split; [reflexivity|]. apply (Fin _ (T <| t_request_progress := c_HTP_REQUEST_COMPLETE |>)); [|reflexivity].
           change (c_txs (c6 <| c_in_status := c_HTP_STREAM_DATA |>)) with (c_txs c6). exact (il_txs _ _ _ _ _ _ _ H6).
        -- (* invalid framing: REQ_BODY_DETERMINE refuses, the stream is in error *)
           assert (Ei : rq_iter cb g false c4 = inl (c4 <| c_in_status := c_HTP_STREAM_ERROR |>, c_HTP_STREAM_ERROR)).
           { unfold rq_iter. rewrite (ci_state _ _ _ _ _ _ _ _ _ H4). cbn [rq_state_fn]. unfold REQ_BODY_DETERMINE_fn, rq_tx, in_txi, tx_get.
             rewrite (ci_tx _ _ _ _ _ _ _ _ _ H4), Hsl4, Cch, Cid, Cnb. reflexivity. }
           rewrite (sg_rq_loop_inl cb g _ _ _ Ei). eexists _, _. split; [reflexivity|].
           apply (Fin _ T); [|reflexivity]. exact (ci_txs _ _ _ _ _ _ _ _ _ H4).
Qed.
End Tail.

(* ================================================================ (4) every chunking and folding of the header part *)
(* the request: well-formed request line, well-formed fields -- ANY names (Content-Length, Transfer-Encoding and Host included,
   repeated or not), any method (CONNECT included); no premise on the repetition cap (fr_verdict counts fr_kept) *)
Definition fh_req_ok (r : wr_request) : bool :=
  wr_wf_request_line (wq_method r) (wq_uri r) (wq_protocol r) && forallb wr_field_ok (wq_fields r).
(* the transaction when the header block starts (after htp_tx_state_request_line), and its normalised target *)
Definition fh_t0 (g : cfg) (r : wr_request) : tx := sg_th0 g 0 (wq_method r) (wq_uri r) (wq_protocol r).
Definition fh_fields_of (r : wr_request) : list fr_field := fh_hs (wq_fields r).
Definition fh_proto (r : wr_request) : Z := wr_protocol_number (wq_protocol r).
Definition fh_verdict (r : wr_request) : fr_verdict_t := fr_verdict (fh_proto r) (fh_fields_of r).
Definition fh_host_verdict (g : cfg) (r : wr_request) : fr_host_verdict_t :=
  match t_parsed_uri (fh_t0 g r) with
  | Some nu => fr_host_verdict (fh_proto r) (u_host nu) (u_port_number nu) (fr_host_value (fh_fields_of r))
  | None => mk_frh false false false
  end.

Lemma fh_run_all cb g : wr_all_ok cb -> g_allow_space_uri g = false -> forall r (cuts : list (list bytes)) (chunks : list bytes),
  fh_req_ok r = true -> sg_cuts_ok r cuts = true -> sg_fold_fits g r cuts = true ->
  Forall (fun x => x <> []) chunks -> concat chunks = sg_fold_wire r cuts ->
  fh_fin g (wq_method r) (wq_uri r) (wq_protocol r) (wq_fields r) (c_txs (fst (cp_run cb g connp_new (OpOpen :: map OpReqData chunks)))).
Proof.
  intros Hcb Hsp [m u p fs] cuts chunks Wr Hcuts Hf Hall Hc.
  unfold fh_req_ok in Wr. cbn [wq_method wq_uri wq_protocol wq_fields] in *. apply andb_prop in Wr. destruct Wr as [Wl Ok].
  unfold sg_cuts_ok in Hcuts. cbn [wq_fields] in Hcuts. apply andb_prop in Hcuts. destruct Hcuts as [Hlen Hfo]. apply Nat.eqb_eq in Hlen.
  unfold sg_fold_fits in Hf. cbn [wq_method wq_uri wq_protocol wq_fields] in Hf. apply andb_prop in Hf. destruct Hf as [Hl0 Hfit]. apply Nat.leb_le in Hl0.
  unfold sg_fold_wire in Hc. cbn [wq_method wq_uri wq_protocol wq_fields] in Hc.
  set (fps := combine fs cuts) in *. set (flat := sg_block_flat fps) in *.
  assert (Efs : map fst fps = fs) by (apply sg_map_fst_combine; exact Hlen).
  assert (Okf : forallb (fun fp => wr_field_ok (fst fp)) fps = true).
  { rewrite <- Efs in Ok. rewrite forallb_forall in Ok. apply forallb_forall. intros fp Hin. apply Ok. apply in_map. exact Hin. }
  destruct (sg_block_flat_ok fps Okf Hfo) as (Fok & Fnp). fold flat in Fok, Fnp.
  assert (Hstart : sg_fhlog g (wr_block_tx fs (sg_th0 g 0 m u p)) [] None (sg_th0 g 0 m u p) [] (sg_fwire flat ++ [CR; LF])).
  { exists None, (sg_th0 g 0 m u p), flat, (sg_fnext flat). split; [left; split; reflexivity|]. split; [exact Fok|]. split; [rewrite Fnp; discriminate|].
    split; [unfold sg_lrun, flat; rewrite (sg_block_lrun fps _ Hfo), Efs; reflexivity|]. split; [reflexivity|]. split; [apply sg_fnext_ne|].
    split; [apply (sg_fwire_split [])|exact Hfit]. }
  exact (sg_all_chunks cb g Hcb Hsp m u p Wl Hl0 (sg_fwire flat ++ [CR; LF]) _ (fh_fin g m u p fs) (fun _ _ => False) Hstart
              (fun c rw (F : False) => match F with end) (fun c rw x rw' (F : False) => match F with end)
              (sg_fcall_hdrs cb g Hcb m u p (sg_fwire flat ++ [CR; LF]) [] _ _ _ (fh_tail cb g Hcb Hsp m u p fs Wl (sg_fwire flat ++ [CR; LF])))
              chunks Hall Hc).
Qed.

(* the flags of the transaction at the end of the header block *)
Lemma fh_tend_flags g r fl : g_allow_space_uri g = false -> fh_req_ok r = true ->
  let T := fh_tend g (wq_method r) (wq_uri r) (wq_protocol r) (wq_fields r) fl in
  t_flags T = N.lor (N.lor (N.lor (t_flags (fh_t0 g r)) (if fl then c_HTP_MULTI_PACKET_HEAD else 0%N)) (fr_verdict_bits (fh_verdict r))) (fr_host_bits (fh_host_verdict g r)) /\
  t_request_transfer_coding T = fr_coding_num (frv_coding (fh_verdict r)).
Proof.
  intros Hsp Wr. destruct r as [m u p fs]. unfold fh_req_ok in Wr. cbn [wq_method wq_uri wq_protocol wq_fields] in *. apply andb_prop in Wr. destruct Wr as [Wl Ok].
  unfold fh_t0, fh_verdict, fh_host_verdict, fh_proto, fh_fields_of, fh_t0. cbn [wq_method wq_uri wq_protocol wq_fields].
  destruct (fh_th0_facts g Hsp 0 m u p Wl) as (H1 & H2 & H3 & Pn & _ & _ & _ & _ & _ & (nu & Pu & _)).
  destruct (fh_hdr_end fs (sg_th0 g 0 m u p) nu Ok H1 H2 H3 Pu) as [Ff Fc]. cbv zeta in Ff, Fc. rewrite Pn in Ff, Fc. rewrite Pu.
  unfold fh_tend. destruct fl.
  - rewrite sg_hdr_end_flag. unfold tx_set_flag at 1 2. cbn [t_flags t_request_transfer_coding set]. split; [|exact Fc].
    unfold flag_set. rewrite Ff. apply N.bits_inj. intros n. rewrite !N.lor_spec.
    repeat match goal with |- context [N.testbit ?x n] => destruct (N.testbit x n) end; reflexivity.
  - split; [|exact Fc]. rewrite Ff, N.lor_0_r. reflexivity.
Qed.

(* H1 + H2, exact form: whatever the chunking and the folding, the transaction the caller sees after the header block carries
   the request-line flags, possibly HTP_MULTI_PACKET_HEAD, and EXACTLY the bits of the two decision tables of C11; the coding
   is the table's *)
Theorem fh_request_flags : forall cb g r (cuts : list (list bytes)) (chunks : list bytes),
  wr_all_ok cb -> g_allow_space_uri g = false -> fh_req_ok r = true -> sg_cuts_ok r cuts = true -> sg_fold_fits g r cuts = true ->
  Forall (fun x => x <> []) chunks -> concat chunks = sg_fold_wire r cuts ->
  exists t mph, c_txs (fst (cp_run cb g connp_new (OpOpen :: map OpReqData chunks))) = [Some t] /\
    (mph = 0%N \/ mph = c_HTP_MULTI_PACKET_HEAD) /\
    t_flags t = N.lor (N.lor (N.lor (t_flags (fh_t0 g r)) mph) (fr_verdict_bits (fh_verdict r))) (fr_host_bits (fh_host_verdict g r)) /\
    t_request_transfer_coding t = fr_coding_num (frv_coding (fh_verdict r)).
Proof.
  intros cb g r cuts chunks Hcb Hsp Wr Hcuts Hf Hall Hc.
  destruct (fh_run_all cb g Hcb Hsp r cuts chunks Wr Hcuts Hf Hall Hc) as (fl & t & Et & En).
  destruct (fh_tend_flags g r fl Hsp Wr) as [Ff Fc]. cbv zeta in Ff, Fc.
  assert (E1 : t_flags t = t_flags (fh_tend g (wq_method r) (wq_uri r) (wq_protocol r) (wq_fields r) fl)) by (change (t_flags (fh_norm t) = t_flags (fh_norm (fh_tend g (wq_method r) (wq_uri r) (wq_protocol r) (wq_fields r) fl))); rewrite En; reflexivity).
  assert (E2 : t_request_transfer_coding t = t_request_transfer_coding (fh_tend g (wq_method r) (wq_uri r) (wq_protocol r) (wq_fields r) fl)) by (change (t_request_transfer_coding (fh_norm t) = t_request_transfer_coding (fh_norm (fh_tend g (wq_method r) (wq_uri r) (wq_protocol r) (wq_fields r) fl))); rewrite En; reflexivity).
  exists t, (if fl then c_HTP_MULTI_PACKET_HEAD else 0%N). split; [exact Et|]. split; [destruct fl; [right|left]; reflexivity|].
  split; [rewrite E1; exact Ff|rewrite E2; exact Fc].
Qed.
