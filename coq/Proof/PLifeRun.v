(* C05, history level, stage S4: the API operations (open, close, tx_freed, tx_destroy, finish of a call), cp_run, and the
   theorem: every history that satisfies the computable premise run_lcb (Spec/SLife.v) is accepted by the lifecycle
   monitor chk_C05 (Spec/SConnp.v), for every callback oracle, configuration and operation list. *)
Require Import Htp.Model.MConnTypes Htp.Model.MBstr Htp.Model.MTxCommon Htp.Model.MTxRes Htp.Model.MReq Htp.Model.MRes Htp.Model.MConnp
               Htp.Spec.SConnp Htp.Spec.SLife Htp.Proof.PConnp
               Htp.Proof.PLife Htp.Proof.PLifeTx Htp.Proof.PLifeTxRes Htp.Proof.PLifeResComplete Htp.Proof.PLifeReq Htp.Proof.PLifeRes.
Local Open Scope nat_scope.

Section Run.
Variable cb : cb_oracle.
Variable g : cfg.

(* ---- the invariant between calls depends on the view, the log and the two statuses only ---- *)
Lemma OI_view Hh c c' : lview c' = lview c -> levs c' = levs c -> OI Hh c -> OI Hh c'.
Proof.
  intros V L (m & A & B & R & S). exists m. rewrite V, L. split; [exact A|]. split; [exact B|].
  change (c_in_status c') with (lv_is (lview c')). change (c_out_status c') with (lv_os (lview c')). rewrite V. split; assumption.
Qed.

(* ---- the end of an API call: the events go to the history, the chunk is forgotten ---- *)
Lemma forget_view c : lview (forget_chunks c) = lview c /\ levs (forget_chunks c) = levs c.
Proof.
  split; [|reflexivity]. unfold forget_chunks, lview. cbn.
  assert (X : forall k, k_receiver_hook (forget_one k) = k_receiver_hook k) by (intros k; unfold forget_one; destruct (k_data k); reflexivity).
  rewrite !X. reflexivity.
Qed.
Lemma OI_finish Hh c rc n ev : OI Hh c -> OI (levs c ++ Hh) (fst (finish_call c rc n ev)) /\ c_events (fst (finish_call c rc n ev)) = [].
Proof.
  intros (m & A & B & R & S). split; [|reflexivity]. cbn [finish_call fst]. destruct (forget_view c) as [V _].
  exists m. split; [exact A|]. assert (V' : lview (forget_chunks c <| c_events := [] |>) = lview c) by (rewrite <- V; reflexivity).
  rewrite V'. split; [exact B|]. split; [exact R|exact S].
Qed.

(* ---- statuses ---- *)
Lemma OI_status Hh c is' os' :
  OI Hh c -> (alive is' -> alive (c_in_status c)) -> (alive os' -> alive (c_out_status c)) ->
  OI Hh (c <| c_in_status := is' |> <| c_out_status := os' |>).
Proof.
  intros (m & A & B & R & S) Ai Ao. exists m. split; [exact A|]. split; [apply (Core_ext None None (lview c)); try reflexivity; exact B|]. split.
  - intros X. apply (RQ_same_in (lview c)); try reflexivity. exact (R (Ai X)).
  - intros X. apply (RS_same_out (lview c)); try reflexivity. exact (S (Ao X)).
Qed.
Lemma alive_new : alive c_HTP_STREAM_NEW. Proof. reflexivity. Qed.
Lemma alive_closed : alive c_HTP_STREAM_CLOSED. Proof. reflexivity. Qed.
Lemma OI_open Hh c : OI Hh c -> OI Hh (connp_open c).
Proof.
  intros Q. unfold connp_open. destruct (_ || _)%bool eqn:E; [exact Q|].
  apply orb_false_iff in E. destruct E as [E1 E2]. apply negb_false_iff in E1, E2. apply Z.eqb_eq in E1, E2.
  apply OI_status; [exact Q|rewrite E1; intros _; exact alive_new|rewrite E2; intros _; exact alive_new].
Qed.
Lemma OI_close_in Hh c : OI Hh c -> Z.eqb (c_in_status c) c_HTP_STREAM_STOP = false -> OI Hh (lc_close_in c).
Proof.
  intros Q Hs. unfold lc_close_in. destruct (Z.eqb (c_in_status c) c_HTP_STREAM_ERROR) eqn:E; cbn [negb]; [exact Q|].
  apply (OI_view Hh (c <| c_in_status := c_HTP_STREAM_CLOSED |> <| c_out_status := c_out_status c |>)); [reflexivity|reflexivity|].
  apply OI_status; [exact Q| |tauto]. intros _. unfold alive, lc_dead. rewrite Hs, E. reflexivity.
Qed.
Lemma OI_close_out Hh c : OI Hh c -> Z.eqb (c_out_status c) c_HTP_STREAM_STOP = false -> OI Hh (lc_close_out c).
Proof.
  intros Q Hs. unfold lc_close_out. destruct (Z.eqb (c_out_status c) c_HTP_STREAM_ERROR) eqn:E; cbn [negb]; [exact Q|].
  apply (OI_view Hh (c <| c_in_status := c_in_status c |> <| c_out_status := c_HTP_STREAM_CLOSED |>)); [reflexivity|reflexivity|].
  apply OI_status; [exact Q|tauto|]. intros _. unfold alive, lc_dead. rewrite Hs, E. reflexivity.
Qed.

(* ---- htp_connp_tx_freed ---- *)
Lemma vslot_freed rest (v : lv) i :
  lv_txs v = None :: rest ->
  vslot (v <| lv_txs := rest |> <| lv_sh := S (lv_sh v) |> <| lv_on := Nat.pred (lv_on v) |>) i = vslot v i.
Proof.
  intros E. unfold vslot. cbn [lv_sh lv_txs set]. rewrite E.
  destruct (i <? S (lv_sh v)) eqn:E1; b2p.
  - destruct (i <? lv_sh v) eqn:E2; b2p; [reflexivity|]. replace (i - lv_sh v) with 0 by lia. reflexivity.
  - destruct (i <? lv_sh v) eqn:E2; b2p; [lia|]. replace (i - lv_sh v) with (S (i - S (lv_sh v))) by lia. reflexivity.
Qed.
Lemma OI_freed_step Hh c rest :
  c_txs c = None :: rest -> OI Hh c ->
  OI Hh (c <| c_txs := rest |> <| c_txs_shifted ::= S |> <| c_out_next_tx_index ::= Nat.pred |>).
Proof.
  intros E (m & A & B & R & Rs).
  set (v := lview c). set (v' := v <| lv_txs := List.tl (lv_txs v) |> <| lv_sh := S (lv_sh v) |> <| lv_on := Nat.pred (lv_on v) |>).
  assert (Et : lv_txs v = None :: map (option_map txv) rest) by (unfold v, lview; cbn; rewrite E; reflexivity).
  assert (V : lview (c <| c_txs := rest |> <| c_txs_shifted ::= S |> <| c_out_next_tx_index ::= Nat.pred |>) = v').
  { unfold v', v, lview. cbn. rewrite E. reflexivity. }
  assert (Vs : forall i, vslot v' i = vslot v i).
  { intros i. unfold v'. rewrite Et. cbn [List.tl]. exact (vslot_freed _ v i Et). }
  exists m. rewrite V. split; [exact A|]. split; [|split].
  - destruct B as [H1 H2 H3 H4 H5 H6 H7 H8 H9]. fold v in H1, H3, H4, H5, H6, H7, H8, H9.
    constructor; try assumption.
    + intros i Hi. apply H1. unfold vnid, v' in Hi. cbn [lv_sh lv_txs set] in Hi. rewrite Et in Hi. cbn in Hi. unfold vnid. rewrite Et. cbn. lia.
    + intros i p ps ce. rewrite Vs. apply H3.
    + intros i p ps ce. rewrite Vs. apply H4.
    + intros i p ps ce. rewrite Vs. apply H5.
    + intros i p ps ce. rewrite Vs. apply H6.
    + intros i Hi. apply H7. unfold v' in Hi. cbn [lv_sh lv_on set] in Hi. lia.
    + intros i Hi. rewrite Vs. exact (H8 i Hi).
    + intros i Hi. rewrite Vs. destruct (H9 i Hi) as [L O]. split; [exact L|]. unfold v'. cbn [lv_sh lv_on set].
      destruct (vslot v i) as [x|] eqn:Hx; [|congruence]. apply vslot_lt in Hx. lia.
  - intros X. apply (RQ_ext v v' m m); try reflexivity; [intros i _; rewrite Vs; reflexivity|exact (R X)].
  - intros X. apply (RS_ext v v' m m); try reflexivity; [intros i _; rewrite Vs; reflexivity|exact (Rs X)].
Qed.
Lemma OI_freed_loop Hh fuel : forall c r, OI Hh c -> OI Hh (fst (tx_freed_loop fuel c r)).
Proof.
  induction fuel as [|f IH]; intros c r Q; cbn [tx_freed_loop]; [exact Q|].
  destruct (c_txs c) as [|[t|] rest] eqn:E; try exact Q.
  apply IH. apply OI_view with (c := c <| c_txs := rest |> <| c_txs_shifted ::= S |> <| c_out_next_tx_index ::= Nat.pred |>); [reflexivity|reflexivity|].
  exact (OI_freed_step Hh c rest E Q).
Qed.

(* ---- htp_tx_destroy by the user ---- *)
Lemma OI_destroy Hh k c : OI Hh c -> OI Hh (fst (api_destroy_tx k c)).
Proof.
  intros (m & A & B & R & S). unfold api_destroy_tx. destruct (tx_slot c k) as [t|] eqn:Ht; [|exists m; auto].
  destruct (tx_is_complete t) eqn:Hc; [|exists m; auto]. cbn [fst].
  destruct (lview_destroy_incomplete c k t Ht) as [V L]. destruct (tx_complete_v t Hc) as [Cq Cs].
  assert (Hs : vslot (lview c) k = Some (txv t)) by (rewrite vslot_lview, Ht; reflexivity).
  exists m. rewrite L, V. split; [exact A|]. split; [apply Core_destroy; [exact B|congruence]|].
  change (c_in_status (tx_destroy_incomplete c k)) with (lv_is (lview (tx_destroy_incomplete c k))).
  change (c_out_status (tx_destroy_incomplete c k)) with (lv_os (lview (tx_destroy_incomplete c k))). rewrite V. split.
  - intros X. exact (RQ_destroy _ m k _ (R X) Hs Cq).
  - intros X. exact (RS_destroy _ m k _ (S X) Hs Cs).
Qed.

(* ---- one API call ---- *)
Definition evp_of (e : event) : evp := (ev_hook e, ev_tx e).

Lemma cp_step_OI Hh c o :
  c_events c = [] -> OI Hh c -> lc_op cb g c o = true ->
  exists Hn, OI (Hn ++ Hh) (fst (cp_step cb g c o)) /\ c_events (fst (cp_step cb g c o)) = [] /\
             map evp_of (r_events (snd (cp_step cb g c o))) = rev Hn.
Proof.
  intros Ev Q Hop.
  assert (Fin : forall c1 rc n ev, OI Hh c1 ->
            exists Hn, OI (Hn ++ Hh) (fst (finish_call c1 rc n ev)) /\ c_events (fst (finish_call c1 rc n ev)) = [] /\
                       map evp_of (r_events (snd (finish_call c1 rc n ev))) = rev Hn).
  { intros c1 rc n ev Q1. exists (levs c1). destruct (OI_finish Hh c1 rc n ev Q1) as [X Y]. split; [exact X|]. split; [exact Y|].
    cbn [finish_call snd r_events]. unfold levs. rewrite map_rev. reflexivity. }
  destruct o as [|d|d|n|n| | | |k]; cbn [cp_step lc_op] in *.
  - apply Fin. apply OI_open. exact Q.
  - pose proof (connp_req_data_spec cb g Hh (Some d) (length d) c Q Hop) as X.
    destruct (connp_req_data cb g (Some d) (length d) c) as [c1 rc]. apply Fin. exact X.
  - pose proof (connp_res_data_spec cb g Hh (Some d) (length d) c Q Hop) as X.
    destruct (connp_res_data cb g (Some d) (length d) c) as [c1 rc]. apply Fin. exact X.
  - pose proof (connp_req_data_spec cb g Hh None n c Q Hop) as X.
    destruct (connp_req_data cb g None n c) as [c1 rc]. apply Fin. exact X.
  - pose proof (connp_res_data_spec cb g Hh None n c Q Hop) as X.
    destruct (connp_res_data cb g None n c) as [c1 rc]. apply Fin. exact X.
  - apply Fin. apply andb_prop in Hop. destruct Hop as [H1 H2]. apply negb_true_iff in H1.
    unfold connp_req_close. exact (connp_req_data_spec cb g Hh None 0 _ (OI_close_in Hh c Q H1) H2).
  - apply Fin. apply andb_prop in Hop. destruct Hop as [H12 H3]. apply andb_prop in H12. destruct H12 as [H1 H2].
    apply negb_true_iff in H1, H2. cbv zeta in H3. apply andb_prop in H3. destruct H3 as [H3 H4].
    unfold connp_close.
    set (c1 := lc_close_out (lc_close_in c)) in *.
    assert (Q1 : OI Hh c1).
    { unfold c1. apply OI_close_out; [exact (OI_close_in Hh c Q H1)|]. unfold lc_close_in. destruct (negb _); exact H2. }
    pose proof (connp_req_data_spec cb g Hh None 0 c1 Q1 H3) as Q2.
    exact (connp_res_data_spec cb g Hh None 0 _ Q2 H4).
  - unfold connp_tx_freed. pose proof (OI_freed_loop Hh (length (c_txs c)) c 0 Q) as X.
    destruct (tx_freed_loop (length (c_txs c)) c 0) as [c1 r]. apply Fin. exact X.
  - pose proof (OI_destroy Hh k c Q) as X. destruct (api_destroy_tx k c) as [c1 rc]. apply Fin. exact X.
Qed.

Lemma cp_run_OI ops : forall Hh c,
  c_events c = [] -> OI Hh c -> run_lcb cb g c ops = true ->
  exists Hn, OI (Hn ++ Hh) (fst (cp_run cb g c ops)) /\ c_events (fst (cp_run cb g c ops)) = [] /\
             concat (map (fun r => map evp_of (r_events r)) (snd (cp_run cb g c ops))) = rev Hn.
Proof.
  induction ops as [|o r IH]; intros Hh c Ev Q Hp.
  - exists []. split; [exact Q|]. split; [exact Ev|reflexivity].
  - cbn [run_lcb] in Hp. apply andb_prop in Hp. destruct Hp as [Hp1 Hp2].
    destruct (cp_step_OI Hh c o Ev Q Hp1) as (H1 & Q1 & Ev1 & E1).
    cbn [cp_run]. destruct (cp_step cb g c o) as [c1 x] eqn:Es. cbn [fst snd] in *.
    destruct (IH (H1 ++ Hh) c1 Ev1 Q1 Hp2) as (H2 & Q2 & Ev2 & E2).
    destruct (cp_run cb g c1 r) as [c2 xs]. cbn [fst snd] in *.
    exists (H2 ++ H1). split; [rewrite <- app_assoc; exact Q2|]. split; [exact Ev2|]. cbn [map concat]. rewrite E1, E2, rev_app_distr. reflexivity.
Qed.

(* ---- the fresh parser ---- *)
Lemma vslot_new i : vslot (lview connp_new) i = None.
Proof. unfold vslot. cbn. repeat match goal with |- context [if ?b then _ else _] => destruct b end; try reflexivity; destruct (i - 0); reflexivity. Qed.
Lemma OI_new : OI [] connp_new.
Proof.
  exists (fun _ => lc0). split; [exact MS_nil|]. split; [|split].
  - constructor.
    + intros; reflexivity.
    + intros i. cbn. repeat split; try lia; intros X; discriminate X.
    + intros i p ps ce X. rewrite vslot_new in X. discriminate X.
    + intros i p ps ce X. rewrite vslot_new in X. discriminate X.
    + intros i p ps ce X. rewrite vslot_new in X. discriminate X.
    + intros i p ps ce X. rewrite vslot_new in X. discriminate X.
    + intros; reflexivity.
    + intros i X. discriminate X.
    + intros i X. discriminate X.
  - intros _. apply RQ_idle; reflexivity.
  - intros _. apply RS_idle; reflexivity.
Qed.

(* ---- from the event log to the checker ---- *)
Lemma cp_run_length ops : forall c, length (snd (cp_run cb g c ops)) = length ops.
Proof.
  induction ops as [|o r IH]; intros c; [reflexivity|]. cbn [cp_run]. destruct (cp_step cb g c o) as [c1 x].
  specialize (IH c1). destruct (cp_run cb g c1 r) as [c2 xs]. cbn [snd length] in *. rewrite IH. reflexivity.
Qed.
Lemma all_events_obs ops : forall rs, length rs = length ops ->
  all_events (map (fun '(o, r) => obs_call o r) (combine ops rs)) = map obs_event (concat (map r_events rs)).
Proof.
  unfold all_events. induction ops as [|o r IH]; intros [|x xs] L; try discriminate L; [reflexivity|].
  cbn [combine map concat]. rewrite map_app. f_equal. apply IH. cbn in L. lia.
Qed.
Lemma trace_of_obs E i : trace_of (map obs_event E) i = map fst (filter (fun e => snd e =? i) (map evp_of E)).
Proof.
  unfold trace_of. induction E as [|e r IH]; [reflexivity|]. cbn [map filter]. cbn [obs_event oe_tx evp_of snd].
  destruct (ev_tx e =? i); cbn [map]; rewrite IH; reflexivity.
Qed.
End Run.

(* ------------------------------------------------------------------------------------------------ *)
(* the theorem *)
Theorem lc_run_accepted : forall cb g ops,
  run_lcb cb g connp_new ops = true -> chk_C05 (obs_run cb g connp_new ops) = true.
Proof.
  intros cb g ops Hp.
  destruct (cp_run_OI cb g ops [] connp_new eq_refl OI_new Hp) as (Hn & (m & HM & _) & Ev & Ec).
  unfold levs in HM. rewrite Ev in HM. rewrite app_nil_r in HM. cbn [map app] in HM.
  unfold chk_C05, obs_run. rewrite (all_events_obs ops _ (cp_run_length cb g ops connp_new)).
  set (E := concat (map r_events (snd (cp_run cb g connp_new ops)))).
  assert (EE : map evp_of E = rev Hn).
  { unfold E. rewrite concat_map, map_map. exact Ec. }
  apply forallb_forall. intros i _. rewrite lc_run_accepts, trace_of_obs, EE, <- monst_run, (HM i). reflexivity.
Qed.

(* the same statement with the fresh parser built in *)
Definition run_lcb0 (cb : cb_oracle) (g : cfg) (ops : list cp_op) : bool := run_lcb cb g connp_new ops.
Theorem lc_run_accepted0 : forall cb g ops, run_lcb0 cb g ops = true -> chk_C05 (obs_run cb g connp_new ops) = true.
Proof. exact lc_run_accepted. Qed.

(* ---- non-vacuity: the premise holds on ordinary histories and fails on the witnesses of the known findings ---- *)
Definition lr_g : cfg := cp_make_cfg 1 (Z.to_nat 18000) 512 false false 0.
Definition lr_ok (scr : list (nat * nat * cb_action)) (ops : list cp_op) : bool := run_lcb0 (script_lookup scr) lr_g ops.
(* pipelining, a chunked exchange with trailers, an interim 100, a callback that declines, close *)
Example lc_premise_pipelined :
  lr_ok [(4, 0, CB_DECLINED)] [OpOpen; OpReqData [71;69;84;32;47;49;32;72;84;84;80;47;49;46;49;13;10;72;111;115;116;58;32;97;13;10;13;10]%N; OpReqData [71;69;84;32;47;49;32;72;84;84;80;47;49;46;49;13;10;72;111;115;116;58;32;97;13;10;13;10]%N; OpResData [72;84;84;80;47;49;46;49;32;50;48;48;32;79;75;13;10;67;111;110;116;101;110;116;45;76;101;110;103;116;104;58;32;48;13;10;13;10]%N; OpResData [72;84;84;80;47;49;46;49;32;50;48;48;32;79;75;13;10;67;111;110;116;101;110;116;45;76;101;110;103;116;104;58;32;51;13;10;13;10;97;98;99]%N;
          OpReqData [80;79;83;84;32;47;112;32;72;84;84;80;47;49;46;49;13;10;72;111;115;116;58;32;97;13;10;84;114;97;110;115;102;101;114;45;69;110;99;111;100;105;110;103;58;32;99;104;117;110;107;101;100;13;10;13;10;51;13;10;97;98;99;13;10;50;13;10;100;101;13;10;48;13;10;88;45;84;58;32;49;13;10;13;10]%N; OpResData [72;84;84;80;47;49;46;49;32;50;48;48;32;79;75;13;10;84;114;97;110;115;102;101;114;45;69;110;99;111;100;105;110;103;58;32;99;104;117;110;107;101;100;13;10;13;10;51;13;10;97;98;99;13;10;50;13;10;100;101;13;10;48;13;10;88;45;84;58;32;49;13;10;13;10]%N; OpReqData [80;79;83;84;32;47;112;32;72;84;84;80;47;49;46;49;13;10;72;111;115;116;58;32;97;13;10;67;111;110;116;101;110;116;45;76;101;110;103;116;104;58;32;53;13;10;13;10;104;101;108;108;111]%N; OpResData [72;84;84;80;47;49;46;49;32;49;48;48;32;67;111;110;116;105;110;117;101;13;10;13;10]%N; OpResData [72;84;84;80;47;49;46;49;32;50;48;48;32;79;75;13;10;67;111;110;116;101;110;116;45;76;101;110;103;116;104;58;32;48;13;10;13;10]%N; OpClose] = true.
Proof. vm_compute. reflexivity. Qed.
(* an accepted CONNECT, tunnel data in both directions, close *)
Example lc_premise_connect :
  lr_ok [] [OpOpen; OpReqData [67;79;78;78;69;67;84;32;97;58;52;52;51;32;72;84;84;80;47;49;46;49;13;10;72;111;115;116;58;32;97;13;10;13;10]%N; OpResData [72;84;84;80;47;49;46;49;32;50;48;48;32;79;75;13;10;13;10]%N; OpReqData [98;105;110;10]%N; OpResData [98;105;110]%N; OpClose] = true.
Proof. vm_compute. reflexivity. Qed.
(* a callback answering ERROR in the middle of a request: the other direction goes on, no close needed *)
Example lc_premise_error_cb :
  lr_ok [(4, 1, CB_ERROR)] [OpOpen; OpReqData [71;69;84;32;47;49;32;72;84;84;80;47;49;46;49;13;10;72;111;115;116;58;32;97;13;10;13;10]%N; OpReqData [71;69;84;32;47;49;32;72;84;84;80;47;49;46;49;13;10;72;111;115;116;58;32;97;13;10;13;10]%N; OpResData [72;84;84;80;47;49;46;49;32;50;48;48;32;79;75;13;10;67;111;110;116;101;110;116;45;76;101;110;103;116;104;58;32;48;13;10;13;10]%N; OpResData [72;84;84;80;47;49;46;49;32;50;48;48;32;79;75;13;10;67;111;110;116;101;110;116;45;76;101;110;103;116;104;58;32;48;13;10;13;10]%N] = true.
Proof. vm_compute. reflexivity. Qed.
(* finding 2: STOP at REQUEST_COMPLETE, then unmatched responses / close *)
Example lc_premise_excludes_finding2 :
  lr_ok [(9, 0, CB_STOP)] [OpOpen; OpReqData [71;69;84;32;47;49;32;72;84;84;80;47;49;46;49;13;10;72;111;115;116;58;32;97;13;10;13;10]%N; OpResData [72;84;84;80;47;49;46;49;32;50;48;48;32;79;75;13;10;67;111;110;116;101;110;116;45;76;101;110;103;116;104;58;32;48;13;10;13;10]%N; OpResData [72;84;84;80;47;49;46;49;32;50;48;48;32;79;75;13;10;67;111;110;116;101;110;116;45;76;101;110;103;116;104;58;32;48;13;10;13;10]%N; OpResData [72;84;84;80;47;49;46;49;32;50;48;48;32;79;75;13;10;67;111;110;116;101;110;116;45;76;101;110;103;116;104;58;32;48;13;10;13;10]%N; OpClose] = false.
Proof. vm_compute. reflexivity. Qed.
Example lc_premise_excludes_finding2_close :
  lr_ok [(9, 0, CB_STOP)] [OpOpen; OpReqData [71;69;84;32;47;49;32;72;84;84;80;47;49;46;49;13;10;72;111;115;116;58;32;97;13;10;13;10]%N; OpResData [72;84;84;80;47;49;46;49;32;50;48;48;32;79;75;13;10;67;111;110;116;101;110;116;45;76;101;110;103;116;104;58;32;48;13;10;13;10]%N; OpClose] = false.
Proof. vm_compute. reflexivity. Qed.
(* finding 3: response line after body *)
Example lc_premise_excludes_finding3 : lr_ok [] [OpOpen; OpReqData [71;69;84;32;47;49;32;72;84;84;80;47;49;46;49;13;10;72;111;115;116;58;32;97;13;10;13;10]%N; OpResData [106;117;110;107;45;108;105;110;101;13;10;120;120;45;109;111;114;101;13;10;72;84;84;80;47;49;46;49;32;52;48;55;32;80;114;111;120;121;13;10;67;111;110;116;101;110;116;45;76;101;110;103;116;104;58;32;48;13;10;13;10]%N; OpClose] = false.
Proof. vm_compute. reflexivity. Qed.
(* finding 4: request data attached to a response-only transaction *)
Example lc_premise_excludes_finding4 : lr_ok [] [OpOpen; OpResData [72;84;84;80;47;49;46;49;32;50;48;48;32;79;75;13;10;67;111;110;116;101;110;116;45;76;101;110;103;116;104;58;32;48;13;10;13;10]%N; OpReqData [120;121;122;32;97;98;99;13;10]%N; OpClose] = false.
Proof. vm_compute. reflexivity. Qed.

(* ================================================================================================ *)
(* FINAL THEOREMS (to be re-exported in Props/Properties_C05.v):
     lc_run_accepted  : forall cb g ops, run_lcb cb g connp_new ops = true -> chk_C05 (obs_run cb g connp_new ops) = true
     lc_run_accepted0 : the same with run_lcb0 cb g ops := run_lcb cb g connp_new ops
   run_lcb / run_lcb0 are computable (Spec/SLife.v, to be extracted). *)
Print Assumptions lc_run_accepted.
Print Assumptions lc_run_accepted0.
(* ================================================================================================ *)
