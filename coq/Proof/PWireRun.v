(* C02, connection level: REQ_HEADERS over a header block that lies in one chunk. *)
Require Import Htp.Model.Base Htp.Model.MBstr Htp.Model.MConnTypes Htp.Model.MTxCommon Htp.Model.MReqLine Htp.Model.MTxReq Htp.Model.MReq.
Require Import Htp.Spec.SWire Htp.Proof.PWire Htp.Proof.PWireHdr Htp.Proof.PWireBlock Htp.Proof.PWireConn.

(* the cursor after copying byte b: IN_COPY_BYTE *)
Definition wr_kadv (b : N) (k : cursor) : cursor := k <| k_next_byte := Some b |> <| k_read ::= S |>.
Definition wr_kadvs (s : bytes) (k : cursor) : cursor := fold_left (fun k b => wr_kadv b k) s k.

Lemma wr_copy_byte c d b : k_data (c_in c) = Some d -> k_len (c_in c) = length d -> nth_error d (k_read (c_in c)) = Some b ->
  rq_copy_byte c = Some (rq_set_in (wr_kadv b) c).
Proof.
  intros Hd Hl Hn. unfold rq_copy_byte, rq_at_end, rq_read_byte. rewrite Hd, Hn, Hl.
  assert (L : (length d <=? k_read (c_in c))%nat = false).
  { apply Nat.leb_gt. apply nth_error_Some. rewrite Hn. discriminate. }
  rewrite L. reflexivity.
Qed.
Lemma wr_set_in_comp f h c : rq_set_in f (rq_set_in h c) = rq_set_in (fun k => f (h k)) c.
Proof. reflexivity. Qed.

Section Run.
Variable cb : cb_oracle.
Variable g : cfg.

Lemma wr_headers_loop_eq n c :
  REQ_HEADERS_loop cb g n c =
  if (c_in_status c =? c_HTP_STREAM_CLOSED)%Z then
    let c := req_clear_buffer (rq_flush_header c) in
    let c := rq_tx_upd (fun t => t <| t_request_progress := c_HTP_REQUEST_TRAILER |>) c in
    rq_with_tx (tx_state_request_headers cb) c
  else
    match rq_copy_byte c with
    | None => (ST_DATA_BUFFER, c)
    | Some c =>
      let '(ret, c) := if rq_next_is c LF then rq_header_line cb g c else (None, c) in
      match ret with
      | Some r => r
      | None => match n with
                | O => (ST_DATA_BUFFER, rq_fault c)
                | S n' => REQ_HEADERS_loop cb g n' c
                end
      end
    end.
Proof. destruct n; reflexivity. Qed.

(* d carries the segment s at position pos *)
Definition wr_seg_at (d : bytes) (pos : nat) (s : bytes) : Prop := exists pre rest, d = pre ++ s ++ rest /\ length pre = pos.

Lemma wr_seg_at_cons d pos x s : wr_seg_at d pos (x :: s) -> nth_error d pos = Some x /\ wr_seg_at d (S pos) s.
Proof.
  intros (pre & rest & E & L). split.
  - subst. rewrite nth_error_app2 by lia. rewrite Nat.sub_diag. reflexivity.
  - exists (pre ++ [x]), rest. split; [rewrite E, <- app_assoc; reflexivity|rewrite app_length; cbn; lia].
Qed.

Lemma wr_kadvs_read s : forall k, k_read (wr_kadvs s k) = (k_read k + length s)%nat.
Proof. induction s as [|x s IH]; intros k; cbn [wr_kadvs fold_left length]; [lia|]. fold (wr_kadvs s (wr_kadv x k)). rewrite IH. cbn. lia. Qed.
Lemma wr_kadvs_frame s : forall k,
  k_data (wr_kadvs s k) = k_data k /\ k_len (wr_kadvs s k) = k_len k /\ k_consume (wr_kadvs s k) = k_consume k /\
  k_receiver (wr_kadvs s k) = k_receiver k /\ k_buf (wr_kadvs s k) = k_buf k /\ k_header (wr_kadvs s k) = k_header k /\
  k_receiver_hook (wr_kadvs s k) = k_receiver_hook k.
Proof.
  induction s as [|x s IH]; intros k; cbn [wr_kadvs fold_left]; [repeat split|]. fold (wr_kadvs s (wr_kadv x k)).
  destruct (IH (wr_kadv x k)) as (A & B & C & D & E & F & G). rewrite A, B, C, D, E, F, G. repeat split.
Qed.
Lemma wr_kadvs_next s x : forall k, k_next_byte (wr_kadvs (s ++ [x]) k) = Some x.
Proof. induction s as [|y s IH]; intros k; [reflexivity|]. cbn [app wr_kadvs fold_left]. apply IH. Qed.

(* copying a run of bytes without LF *)
Lemma wr_headers_scan : forall s c d n,
  (c_in_status c =? c_HTP_STREAM_CLOSED)%Z = false -> k_data (c_in c) = Some d -> k_len (c_in c) = length d ->
  wr_seg_at d (k_read (c_in c)) s -> forallb (fun b => negb (b =? LF)%N) s = true ->
  REQ_HEADERS_loop cb g (length s + n) c = REQ_HEADERS_loop cb g n (rq_set_in (wr_kadvs s) c).
Proof.
  induction s as [|x s IH]; intros c d n Hs Hd Hl Hseg Hlf.
  - cbn [length Nat.add wr_kadvs fold_left]. destruct c; reflexivity.
  - cbn [forallb] in Hlf. apply andb_prop in Hlf. destruct Hlf as [Hx Hlf]. apply negb_true_iff in Hx.
    destruct (wr_seg_at_cons _ _ _ _ Hseg) as [Hn Hseg'].
    rewrite wr_headers_loop_eq, Hs, (wr_copy_byte c d x Hd Hl Hn).
    assert (Hnl : rq_next_is (rq_set_in (wr_kadv x) c) LF = false) by (unfold rq_next_is; cbn; exact Hx).
    rewrite Hnl. cbn [length Nat.add].
    rewrite (IH (rq_set_in (wr_kadv x) c) d n); try assumption. reflexivity.
Qed.

(* ---- transaction slot updates ---- *)
Lemma wr_nth_error_upd {A} (l : list A) : forall j x, (j < length l)%nat -> nth_error (upd l j x) j = Some x.
Proof. induction l as [|a l IH]; intros j x H; [cbn in H; lia|]. destruct j; [reflexivity|]. cbn [upd nth_error]. apply IH. cbn in H. lia. Qed.
Lemma wr_upd_length {A} (l : list A) : forall j x, length (upd l j x) = length l.
Proof. induction l as [|a l IH]; intros j x; [reflexivity|]. destruct j; cbn; [reflexivity|]. rewrite IH. reflexivity. Qed.
Lemma wr_upd_upd {A} (l : list A) : forall j x y, upd (upd l j x) j y = upd l j y.
Proof. induction l as [|a l IH]; intros j x y; [reflexivity|]. destruct j; cbn; [reflexivity|]. rewrite IH. reflexivity. Qed.

Lemma wr_tx_slot_some c i t : tx_slot c i = Some t ->
  (i <? c_txs_shifted c)%nat = false /\ (i - c_txs_shifted c < length (c_txs c))%nat.
Proof.
  unfold tx_slot. destruct (i <? c_txs_shifted c)%nat; [discriminate|]. intros H. split; [reflexivity|].
  apply nth_error_Some. destruct (nth_error (c_txs c) (i - c_txs_shifted c)); [discriminate|discriminate].
Qed.
Lemma wr_tx_put_ok c i t t' : tx_slot c i = Some t ->
  tx_put c i t' = c <| c_txs := upd (c_txs c) (i - c_txs_shifted c) (Some t') |>.
Proof.
  intros H. destruct (wr_tx_slot_some c i t H) as [A B]. unfold tx_put. rewrite A.
  assert (L : (i - c_txs_shifted c <? length (c_txs c))%nat = true) by (apply Nat.ltb_lt; exact B). rewrite L. reflexivity.
Qed.
Lemma wr_tx_slot_put c i t t' : tx_slot c i = Some t -> tx_slot (tx_put c i t') i = Some t'.
Proof.
  intros H. rewrite (wr_tx_put_ok c i t t' H). destruct (wr_tx_slot_some c i t H) as [A B]. unfold tx_slot. cbn [set c_txs c_txs_shifted]. rewrite A.
  rewrite wr_nth_error_upd by exact B. reflexivity.
Qed.
Lemma wr_tx_upd_ok c i t f : tx_slot c i = Some t -> tx_upd c i f = tx_put c i (f t).
Proof. intros H. unfold tx_upd. rewrite H. reflexivity. Qed.
Lemma wr_rq_tx_upd_ok c i t f : c_in_tx c = Some i -> tx_slot c i = Some t -> rq_tx_upd f c = tx_put c i (f t).
Proof. intros Hi H. unfold rq_tx_upd. rewrite Hi. apply wr_tx_upd_ok. exact H. Qed.
Lemma wr_tx_slot_set_in K c i : tx_slot (rq_set_in K c) i = tx_slot c i. Proof. reflexivity. Qed.
Lemma wr_tx_put_set_in K c i t : tx_put (rq_set_in K c) i t = rq_set_in K (tx_put c i t).
Proof.
  unfold tx_put. change (c_txs_shifted (rq_set_in K c)) with (c_txs_shifted c). change (c_txs (rq_set_in K c)) with (c_txs c).
  destruct (i <? c_txs_shifted c)%nat; [reflexivity|]. destruct (i - c_txs_shifted c <? length (c_txs c))%nat; reflexivity.
Qed.
Lemma wr_tx_put_put c i t0 t1 t2 : tx_slot c i = Some t0 -> tx_put (tx_put c i t1) i t2 = tx_put c i t2.
Proof.
  intros H. rewrite (wr_tx_put_ok c i t0 t1 H). rewrite (wr_tx_put_ok c i t0 t2 H).
  assert (H' : tx_slot (c <| c_txs := upd (c_txs c) (i - c_txs_shifted c) (Some t1) |>) i = Some t1).
  { rewrite <- (wr_tx_put_ok c i t0 t1 H). apply (wr_tx_slot_put c i t0 t1 H). }
  rewrite (wr_tx_put_ok _ i t1 t2 H'). cbn. rewrite wr_upd_upd. reflexivity.
Qed.

(* ---- a header line (not a continuation) is not a terminator and not folded ---- *)
Lemma wr_token_not_folding_sweep : forallb (fun b => implb (htp_is_token b) (negb (htp_is_folding_char b))) all_bytes = true.
Proof. vm_compute. reflexivity. Qed.
Lemma wr_token_not_folding b : htp_is_token b = true -> htp_is_folding_char b = false.
Proof.
  intros H. destruct (b <? 256)%N eqn:E.
  - apply N.ltb_lt in E. pose proof (byte_sweep _ wr_token_not_folding_sweep b E) as F. cbv beta in F. rewrite H in F. apply negb_true_iff. exact F.
  - apply N.ltb_ge in E. apply wr_folding_big. exact E.
Qed.

Lemma wr_line_not_terminator pers x y l : c_isspace x = false -> htp_is_line_terminator pers (x :: y :: l ++ [CR; LF]) false = false.
Proof.
  intros Hx. unfold htp_is_line_terminator, htp_is_line_whitespace. cbn [forallb]. rewrite Hx. cbn [andb]. rewrite andb_false_r.
  destruct l as [|z l]; reflexivity.
Qed.

Lemma wr_field_line_shape f : wr_field_ok f = true ->
  exists n0 y l, wr_field_line f = n0 :: y :: l /\ htp_is_token n0 = true.
Proof.
  unfold wr_field_ok, wr_wf_header. intros H. apply andb_prop in H. destruct H as [H _]. apply andb_prop in H. destruct H as [H _].
  apply andb_prop in H. destruct H as [H _].
  destruct (wr_token_split _ H) as (n0 & nr & En & Tn). unfold wr_field_line, wr_ser_header. rewrite En.
  rewrite En in Tn. cbn [forallb] in Tn. apply andb_prop in Tn. destruct Tn as [T0 _].
  cbn [app]. destruct nr as [|n1 nr]; cbn [app]; eexists _, _, _; split; try reflexivity; exact T0.
Qed.

(* the state at the start of a header line: everything of the line still unread, nothing buffered, no header pending *)
Record wr_hst (c : connp) (d : bytes) (pos i : nat) (t : tx) : Prop := mk_wr_hst {
  hs_open : (c_in_status c =? c_HTP_STREAM_CLOSED)%Z = false;
  hs_data : k_data (c_in c) = Some d;
  hs_len : k_len (c_in c) = length d;
  hs_read : k_read (c_in c) = pos;
  hs_cons : k_consume (c_in c) = pos;
  hs_buf : k_buf (c_in c) = None;
  hs_hdr : k_header (c_in c) = None;
  hs_tx : c_in_tx c = Some i;
  hs_slot : tx_slot c i = Some t }.

(* the cursor function of one processed header line: the line and its CR LF copied, the next byte peeked, the buffer cleared *)
Definition wr_kline (line : bytes) (b : N) (k : cursor) : cursor :=
  let k1 := wr_kadv LF (wr_kadvs (line ++ [CR]) k) in
  k1 <| k_next_byte := Some b |> <| k_consume := k_read k1 |> <| k_buf := None |>.

Lemma wr_headers_line_step : forall f c d pos i t b n,
  wr_hst c d pos i t -> wr_field_ok f = true -> wr_seg_at d pos (wr_field_line f ++ [CR; LF] ++ [b]) -> htp_is_folding_char b = false ->
  REQ_HEADERS_loop cb g (length (wr_field_line f) + 2 + n) c =
  REQ_HEADERS_loop cb g n (rq_set_in (wr_kline (wr_field_line f) b) (tx_put c i (htp_process_request_header_generic (wr_field_line f) t))).
Proof.
  intros f c d pos i t b n [Ho Hd Hl Hr Hc Hb Hh Hi Hs] Wf Hseg Hfb.
  set (line := wr_field_line f) in *.
  destruct Hseg as (pre & rest & Ed & Lp).
  (* the line and its CR *)
  replace (length line + 2 + n)%nat with (length (line ++ [CR]) + S n)%nat by (rewrite app_length; cbn; lia).
  assert (Hline : forallb (fun x => negb (x =? LF)%N) line = true).
  { unfold line, wr_field_line. pose proof Wf as Wf0. unfold wr_field_ok in Wf0. apply andb_prop in Wf0. destruct Wf0 as [Wf0 L2]. apply andb_prop in Wf0. destruct Wf0 as [W L1].
    unfold wr_wf_header in W. apply andb_prop in W. destruct W as [Wn Wv]. destruct (wr_token_split _ Wn) as (n0 & nr & En & Tn).
    unfold wr_value_ok in Wv. apply andb_prop in Wv. destruct Wv as [Wv _]. apply andb_prop in Wv. destruct Wv as [Wv _].
    assert (V : forallb wr_value_byte (wr_ser_header (wf_name f) (wf_lws1 f) (wf_value f) (wf_lws2 f)) = true).
    { unfold wr_ser_header. rewrite !wr_forallb_app, (wr_token_value_bytes _ Tn), (wr_lws_value_bytes _ L1), (wr_lws_value_bytes _ L2), Wv. reflexivity. }
    eapply wr_forallb_impl; [|exact V]. intros x Hx. unfold wr_value_byte in Hx. apply andb_prop in Hx. apply Hx. }
  assert (Hnolf : forallb (fun x => negb (x =? LF)%N) (line ++ [CR]) = true) by (rewrite forallb_app, Hline; reflexivity).
  rewrite (wr_headers_scan (line ++ [CR]) c d (S n) Ho Hd Hl); [|rewrite Hr; exists pre, ([LF] ++ [b] ++ rest); split; [rewrite Ed, <- !app_assoc; reflexivity|exact Lp]|exact Hnolf].
  set (c0 := rq_set_in (wr_kadvs (line ++ [CR])) c).
  destruct (wr_kadvs_frame (line ++ [CR]) (c_in c)) as (F1 & F2 & F3 & F4 & F5 & F6 & F7).
  assert (R0 : k_read (c_in c0) = (pos + length line + 1)%nat).
  { unfold c0. cbn [c_in rq_set_in set]. rewrite wr_kadvs_read, Hr, app_length. cbn [length]. lia. }
  (* the LF *)
  rewrite wr_headers_loop_eq.
  assert (Ho0 : (c_in_status c0 =? c_HTP_STREAM_CLOSED)%Z = false) by exact Ho. rewrite Ho0.
  assert (Hd0 : k_data (c_in c0) = Some d) by (unfold c0; cbn; rewrite F1; exact Hd).
  assert (Hl0 : k_len (c_in c0) = length d) by (unfold c0; cbn; rewrite F2; exact Hl).
  assert (Hn0 : nth_error d (k_read (c_in c0)) = Some LF).
  { rewrite R0, Ed. replace (pre ++ (line ++ [CR; LF] ++ [b]) ++ rest) with ((pre ++ line ++ [CR]) ++ LF :: b :: rest) by (rewrite <- !app_assoc; reflexivity).
    rewrite nth_error_app2 by (rewrite !app_length; cbn [length]; lia).
    replace (pos + length line + 1 - length (pre ++ line ++ [CR]))%nat with 0%nat by (rewrite !app_length; cbn [length]; lia). reflexivity. }
  rewrite (wr_copy_byte c0 d LF Hd0 Hl0 Hn0).
  set (c1 := rq_set_in (wr_kadv LF) c0).
  assert (Hnl : rq_next_is c1 LF = true) by reflexivity. rewrite Hnl.
  (* the line is processed at once: the next byte is not a folding character *)
  assert (E1 : rq_header_line cb g c1 =
               (None, rq_set_in (wr_kline line b) (tx_put c i (htp_process_request_header_generic line t)))).
  { unfold rq_header_line, req_consolidate_data.
    assert (B1 : k_buf (c_in c1) = None) by (unfold c1, c0; cbn; rewrite F5; exact Hb). rewrite B1.
    unfold rq_slice. assert (D1 : k_data (c_in c1) = Some d) by exact Hd0. rewrite D1.
    assert (R1 : k_read (c_in c1) = (pos + length line + 2)%nat) by (change (k_read (c_in c1)) with (S (k_read (c_in c0))); rewrite R0; lia).
    assert (C1 : k_consume (c_in c1) = pos) by (unfold c1, c0; cbn; rewrite F3; exact Hc).
    rewrite R1, C1.
    assert (Ld : (pos + length line + 2 + 1 <= length d)%nat) by (rewrite Ed, !app_length; cbn [length]; lia).
    assert (L1 : (pos + length line + 2 <=? length d)%nat = true) by (apply Nat.leb_le; lia). rewrite L1.
    assert (Sl : firstn (pos + length line + 2 - pos) (skipn pos d) = line ++ [CR; LF]).
    { rewrite Ed, <- Lp, skipn_app_exact. replace (length pre + length line + 2 - length pre)%nat with (length (line ++ [CR; LF])) by (rewrite app_length; cbn; lia).
      rewrite <- !app_assoc. rewrite app_assoc. apply firstn_app_exact. }
    rewrite Sl.
    destruct (wr_field_line_shape f Wf) as (n0 & y & l & Esh & T0). fold line in Esh.
    destruct (wr_token_facts n0 T0) as (_ & Sp0 & _).
    rewrite Esh. cbn [app]. rewrite (wr_line_not_terminator _ n0 y l Sp0). rewrite <- Esh.
    change (n0 :: y :: l ++ [CR; LF]) with ((n0 :: y :: l) ++ [CR; LF]). rewrite <- Esh.
    assert (Pl : wr_last_plain line).
    { unfold line, wr_field_line. unfold wr_field_ok in Wf. apply andb_prop in Wf. destruct Wf as [Wf' L2]. apply andb_prop in Wf'. destruct Wf' as [W L1'].
      apply wr_header_line_plain; assumption. }
    rewrite (wr_chomp_line line [CR; LF] eq_refl Pl).
    assert (Fo : htp_is_line_folded line = 0%Z). { rewrite Esh. cbn [htp_is_line_folded]. rewrite (wr_token_not_folding n0 T0). reflexivity. }
    rewrite Fo. cbn [Z.eqb].
    assert (H1 : k_header (c_in c1) = None) by (unfold c1, c0; cbn; rewrite F6; exact Hh).
    unfold rq_flush_header. rewrite H1.
    (* the peek *)
    unfold rq_peek_next, rq_at_end.
    assert (Ll1 : k_len (c_in c1) = length d) by exact Hl0. rewrite Ll1, R1.
    assert (L2 : (length d <=? pos + length line + 2)%nat = false) by (apply Nat.leb_gt; lia). rewrite L2.
    unfold rq_read_byte. rewrite D1, R1.
    assert (Nb : nth_error d (pos + length line + 2) = Some b).
    { rewrite Ed. replace (pre ++ (line ++ [CR; LF] ++ [b]) ++ rest) with ((pre ++ line ++ [CR; LF]) ++ b :: rest) by (rewrite <- !app_assoc; reflexivity).
      rewrite nth_error_app2 by (rewrite !app_length; cbn [length]; lia).
      replace (pos + length line + 2 - length (pre ++ line ++ [CR; LF]))%nat with 0%nat by (rewrite !app_length; cbn [length]; lia). reflexivity. }
    rewrite Nb. cbn [c_in rq_set_in set k_next_byte]. cbn [k_next_byte]. 
    set (c2 := rq_set_in (fun k => k <| k_next_byte := Some b |>) c1).
    change (k_next_byte (c_in c2)) with (Some b). rewrite Hfb. cbn [negb].
    unfold rq_process_header. rewrite (wr_rq_tx_upd_ok c2 i t _ Hi Hs).
    unfold c2, c1, c0. rewrite !wr_tx_put_set_in. unfold req_clear_buffer. rewrite !wr_set_in_comp. reflexivity. }
  rewrite E1. reflexivity.
Qed.

Lemma wr_kline_facts line b k :
  k_data (wr_kline line b k) = k_data k /\ k_len (wr_kline line b k) = k_len k /\ k_read (wr_kline line b k) = (k_read k + length line + 2)%nat /\
  k_consume (wr_kline line b k) = (k_read k + length line + 2)%nat /\ k_buf (wr_kline line b k) = None /\ k_header (wr_kline line b k) = k_header k /\
  k_receiver (wr_kline line b k) = k_receiver k /\ k_receiver_hook (wr_kline line b k) = k_receiver_hook k.
Proof.
  unfold wr_kline. destruct (wr_kadvs_frame (line ++ [CR]) k) as (F1 & F2 & F3 & F4 & F5 & F6 & F7).
  pose proof (wr_kadvs_read (line ++ [CR]) k) as R. rewrite app_length in R. cbn [length] in R.
  cbn. rewrite F1, F2, F4, F6, F7, R. repeat split; lia.
Qed.

Lemma wr_hst_after_line c d pos i t line b t' :
  wr_hst c d pos i t -> wr_hst (rq_set_in (wr_kline line b) (tx_put c i t')) d (pos + length line + 2) i t'.
Proof.
  intros [Ho Hd Hl Hr Hc Hb Hh Hi Hs]. rewrite (wr_tx_put_ok c i t t' Hs).
  destruct (wr_kline_facts line b (c_in c)) as (A1 & A2 & A3 & A4 & A5 & A6 & _).
  constructor; cbn [c_in_status c_in c_in_tx rq_set_in set].
  - exact Ho.
  - rewrite A1. exact Hd.
  - rewrite A2. exact Hl.
  - rewrite A3, Hr. reflexivity.
  - rewrite A4, Hr. reflexivity.
  - exact A5.
  - rewrite A6. exact Hh.
  - exact Hi.
  - rewrite <- (wr_tx_put_ok c i t t' Hs). rewrite wr_tx_slot_set_in. apply (wr_tx_slot_put c i t t' Hs).
Qed.

Definition wr_block_wire (fs : list wr_field) : bytes := concat (map (fun f => wr_field_line f ++ [CR; LF]) fs).
Definition wr_block_tx (fs : list wr_field) (t : tx) : tx :=
  fold_left (fun t l => htp_process_request_header_generic l t) (map wr_field_line fs) t.

Lemma wr_seg_at_app d pos a r : wr_seg_at d pos (a ++ r) -> wr_seg_at d pos a /\ wr_seg_at d (pos + length a) r.
Proof.
  intros (pre & rest & E & L). split.
  - exists pre, (r ++ rest). split; [rewrite E, <- app_assoc; reflexivity|exact L].
  - exists (pre ++ a), rest. split; [rewrite E, <- !app_assoc; reflexivity|rewrite app_length; lia].
Qed.
Lemma wr_seg_at_prefix d pos a r : wr_seg_at d pos (a ++ r) -> wr_seg_at d pos a.
Proof. intros H. apply (wr_seg_at_app d pos a r H). Qed.

(* the fields of a block, one line each, all in the current chunk, followed by a byte b0 that is not a folding character *)
Lemma wr_headers_block_run : forall fs c d pos i t b0 n,
  wr_hst c d pos i t -> forallb wr_field_ok fs = true -> wr_seg_at d pos (wr_block_wire fs ++ [b0]) -> htp_is_folding_char b0 = false ->
  exists K, REQ_HEADERS_loop cb g (length (wr_block_wire fs) + n) c = REQ_HEADERS_loop cb g n (rq_set_in K (tx_put c i (wr_block_tx fs t))) /\
            wr_hst (rq_set_in K (tx_put c i (wr_block_tx fs t))) d (pos + length (wr_block_wire fs)) i (wr_block_tx fs t) /\
            (forall k, k_receiver_hook (K k) = k_receiver_hook k /\ k_receiver (K k) = k_receiver k).
Proof.
  induction fs as [|f fs IH]; intros c d pos i t b0 n H Ok Hseg Hb0.
  - exists (fun k => k). cbn [wr_block_wire map concat length Nat.add wr_block_tx fold_left]. rewrite Nat.add_0_r.
    destruct H as [Ho Hd Hl Hr Hc Hb Hh Hi Hs].
    assert (E : rq_set_in (fun k => k) (tx_put c i t) = tx_put c i t) by (destruct (tx_put c i t); reflexivity).
    rewrite E. rewrite (wr_tx_put_ok c i t t Hs).
    assert (Eu : upd (c_txs c) (i - c_txs_shifted c) (Some t) = c_txs c).
    { unfold tx_slot in Hs. destruct (i <? c_txs_shifted c)%nat; [discriminate|]. revert Hs. generalize (i - c_txs_shifted c)%nat. generalize (c_txs c).
      induction l as [|a l IHl]; intros j Hj; [reflexivity|]. destruct j; cbn in *.
      - destruct a; [inversion Hj; reflexivity|discriminate].
      - rewrite (IHl j Hj). reflexivity. }
    rewrite Eu. assert (Ec : c <| c_txs := c_txs c |> = c) by (destruct c; reflexivity). rewrite Ec.
    split; [reflexivity|]. split; [constructor; assumption|]. intros k. split; reflexivity.
  - cbn [forallb] in Ok. apply andb_prop in Ok. destruct Ok as [Okf Ok].
    change (wr_block_wire (f :: fs)) with ((wr_field_line f ++ [CR; LF]) ++ wr_block_wire fs) in *.
    (* the byte after the first line *)
    assert (Hb : exists b r, wr_block_wire fs ++ [b0] = b :: r /\ htp_is_folding_char b = false).
    { destruct fs as [|f2 fs2].
      - exists b0, []. split; [reflexivity|exact Hb0].
      - cbn [forallb] in Ok. apply andb_prop in Ok. destruct Ok as [Ok2 _]. destruct (wr_field_line_shape f2 Ok2) as (n0 & y & l & E & T0).
        change (wr_block_wire (f2 :: fs2)) with ((wr_field_line f2 ++ [CR; LF]) ++ wr_block_wire fs2). rewrite E. cbn [app].
        eexists _, _. split; [reflexivity|apply wr_token_not_folding; exact T0]. }
    destruct Hb as (b & r & Eb & Hfb).
    assert (Hseg1 : wr_seg_at d pos (wr_field_line f ++ [CR; LF] ++ [b])).
    { rewrite <- app_assoc, Eb in Hseg. replace (wr_field_line f ++ [CR; LF] ++ [b]) with ((wr_field_line f ++ [CR; LF]) ++ [b]) by (rewrite <- app_assoc; reflexivity).
      replace ((wr_field_line f ++ [CR; LF]) ++ b :: r) with (((wr_field_line f ++ [CR; LF]) ++ [b]) ++ r) in Hseg by (rewrite <- !app_assoc; reflexivity).
      apply (wr_seg_at_prefix _ _ _ _ Hseg). }
    rewrite app_length. replace (length (wr_field_line f ++ [CR; LF]) + length (wr_block_wire fs) + n)%nat
      with (length (wr_field_line f) + 2 + (length (wr_block_wire fs) + n))%nat by (rewrite app_length; cbn [length]; lia).
    rewrite (wr_headers_line_step f c d pos i t b _ H Okf Hseg1 Hfb).
    set (t1 := htp_process_request_header_generic (wr_field_line f) t).
    pose proof (wr_hst_after_line c d pos i t (wr_field_line f) b t1 H) as H1.
    assert (Hseg2 : wr_seg_at d (pos + length (wr_field_line f) + 2) (wr_block_wire fs ++ [b0])).
    { rewrite <- app_assoc in Hseg. destruct (wr_seg_at_app _ _ _ _ Hseg) as [_ S2]. rewrite app_length in S2. cbn [length] in S2.
      replace (pos + length (wr_field_line f) + 2)%nat with (pos + (length (wr_field_line f) + 2))%nat by lia. exact S2. }
    destruct (IH _ d _ i t1 b0 n H1 Ok Hseg2 Hb0) as (K & E & H2 & HK).
    exists (fun k => K (wr_kline (wr_field_line f) b k)).
    assert (Ec : rq_set_in K (tx_put (rq_set_in (wr_kline (wr_field_line f) b) (tx_put c i t1)) i (wr_block_tx fs t1)) =
                 rq_set_in (fun k => K (wr_kline (wr_field_line f) b k)) (tx_put c i (wr_block_tx (f :: fs) t))).
    { rewrite wr_tx_put_set_in, wr_set_in_comp. destruct H as [_ _ _ _ _ _ _ _ Hs]. rewrite (wr_tx_put_put c i t t1 _ Hs). reflexivity. }
    rewrite Ec in E, H2. split; [exact E|]. split.
    + replace (pos + (length (wr_field_line f ++ [CR; LF]) + length (wr_block_wire fs)))%nat with (pos + length (wr_field_line f) + 2 + length (wr_block_wire fs))%nat
        by (rewrite app_length; cbn [length]; lia).
      exact H2.
    + intros k. destruct (HK (wr_kline (wr_field_line f) b k)) as [A B]. destruct (wr_kline_facts (wr_field_line f) b k) as (_ & _ & _ & _ & _ & _ & C & D).
      rewrite A, B, C, D. split; reflexivity.
Qed.

(* the empty line that ends the block *)
Lemma wr_headers_terminator : forall c d pos i t n,
  wr_hst c d pos i t -> wr_seg_at d pos [CR; LF] ->
  REQ_HEADERS_loop cb g (S n) c =
  rq_with_tx (tx_state_request_headers cb) (rq_set_in (fun k => wr_kadv LF (wr_kadv CR k) <| k_consume := S (S (k_read k)) |> <| k_buf := None |>) c).
Proof.
  intros c d pos i t n [Ho Hd Hl Hr Hc Hb Hh Hi Hs] Hseg.
  destruct (wr_seg_at_cons _ _ _ _ Hseg) as [N1 Hseg'].
  destruct (wr_seg_at_cons _ _ _ _ Hseg') as [N2 _].
  rewrite wr_headers_loop_eq, Ho. rewrite <- Hr in N1. rewrite (wr_copy_byte c d CR Hd Hl N1).
  assert (Hnl : rq_next_is (rq_set_in (wr_kadv CR) c) LF = false) by reflexivity. rewrite Hnl.
  set (c0 := rq_set_in (wr_kadv CR) c).
  rewrite wr_headers_loop_eq. change (c_in_status c0) with (c_in_status c). rewrite Ho.
  assert (N2' : nth_error d (k_read (c_in c0)) = Some LF) by (change (k_read (c_in c0)) with (S (k_read (c_in c))); rewrite Hr; exact N2).
  rewrite (wr_copy_byte c0 d LF Hd Hl N2').
  set (c1 := rq_set_in (wr_kadv LF) c0).
  assert (Hnl1 : rq_next_is c1 LF = true) by reflexivity. rewrite Hnl1.
  assert (E : rq_header_line cb g c1 =
    (Some (rq_with_tx (tx_state_request_headers cb) (req_clear_buffer c1)), req_clear_buffer c1)).
  { unfold rq_header_line, req_consolidate_data. change (k_buf (c_in c1)) with (k_buf (c_in c)). rewrite Hb.
    unfold rq_slice. change (k_data (c_in c1)) with (k_data (c_in c)). rewrite Hd.
    change (k_read (c_in c1)) with (S (S (k_read (c_in c)))). change (k_consume (c_in c1)) with (k_consume (c_in c)). rewrite Hr, Hc.
    destruct Hseg as (pre & rest & Ed & Lp).
    assert (L : (S (S pos) <=? length d)%nat = true) by (apply Nat.leb_le; rewrite Ed, !app_length; cbn [length]; lia). rewrite L.
    assert (Sl : firstn (S (S pos) - pos) (skipn pos d) = [CR; LF]).
    { rewrite Ed, <- Lp, skipn_app_exact. replace (S (S (length pre)) - length pre)%nat with 2%nat by lia. reflexivity. }
    rewrite Sl.
    assert (T : htp_is_line_terminator (g_personality g) [CR; LF] false = true).
    { unfold htp_is_line_terminator. destruct ((g_personality g =? c_HTP_SERVER_IIS_5_1)%Z && htp_is_line_whitespace [CR; LF]); reflexivity. }
    rewrite T. unfold rq_flush_header. change (k_header (c_in c1)) with (k_header (c_in c)). rewrite Hh. reflexivity. }
  rewrite E. reflexivity.
Qed.

(* ---- REQ_HEADERS over a whole block in one chunk: the lines are handed to the processor in order, then the end of the headers is signalled ---- *)
Theorem wr_req_headers_run : forall fs c d pos i t n,
  wr_hst c d pos i t -> forallb wr_field_ok fs = true -> wr_seg_at d pos (wr_block_wire fs ++ [CR; LF]) ->
  exists K, REQ_HEADERS_loop cb g (length (wr_block_wire fs) + S n) c =
            rq_with_tx (tx_state_request_headers cb) (rq_set_in K (tx_put c i (wr_block_tx fs t))) /\
            wr_hst (rq_set_in K (tx_put c i (wr_block_tx fs t))) d (pos + length (wr_block_wire fs) + 2) i (wr_block_tx fs t) /\
            (forall k, k_receiver_hook (K k) = k_receiver_hook k /\ k_receiver (K k) = k_receiver k).
Proof.
  intros fs c d pos i t n H Ok Hseg.
  assert (Hseg1 : wr_seg_at d pos (wr_block_wire fs ++ [CR])).
  { replace (wr_block_wire fs ++ [CR; LF]) with ((wr_block_wire fs ++ [CR]) ++ [LF]) in Hseg by (rewrite <- app_assoc; reflexivity).
    apply (wr_seg_at_prefix _ _ _ _ Hseg). }
  destruct (wr_headers_block_run fs c d pos i t CR (S n) H Ok Hseg1 eq_refl) as (K & E & H1 & HK).
  destruct (wr_seg_at_app _ _ _ _ Hseg) as [_ Hseg2].
  rewrite E, (wr_headers_terminator _ d _ i _ n H1 Hseg2). rewrite wr_set_in_comp.
  eexists. split; [reflexivity|].
  destruct H1 as [Ho Hd Hl Hr Hc Hb Hh Hi Hs].
  split.
  - constructor; cbn [c_in_status c_in c_in_tx rq_set_in set wr_kadv k_data k_len k_read k_consume k_buf k_header]; try assumption.
    + cbn in Hr. cbn. rewrite Hr. lia.
    + cbn in Hr. rewrite Hr. lia.
    + reflexivity.
  - intros k. destruct (HK k) as [A B]. cbn [wr_kadv set k_receiver_hook k_receiver]. cbn. rewrite A, B. split; reflexivity.
Qed.
End Run.
