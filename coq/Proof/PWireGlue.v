(* C02, connection level: one well-formed request without body, delivered in one chunk, through htp_connp_req_data. *)
Require Import Htp.Model.Base Htp.Model.MBstr Htp.Model.MConnTypes Htp.Model.MTxCommon Htp.Model.MReqLine Htp.Model.MReqUri Htp.Model.MTxReq.
Require Import Htp.Model.MReq Htp.Model.MRes Htp.Model.MConnp.
Require Import Htp.Spec.SWire Htp.Proof.PWire Htp.Proof.PWireHdr Htp.Proof.PWireBlock Htp.Proof.PWireConn Htp.Proof.PWireExch.
Require Import Htp.Proof.PWireRun Htp.Proof.PWirePres.

Section Glue.
Variable cb : cb_oracle.
Variable g : cfg.
Hypothesis Hcb : wr_all_ok cb.

(* a callback that answers HTP_OK only leaves its trace in the event log and the call counters *)
Definition wr_hook_ev (h i : nat) (data : option bytes) (last : bool) (c : connp) : connp :=
  emit (bump_hook c h) (mkev h i data last None).
Lemma wr_run_hook_ex h i data last c : run_hook_ex cb h i data last None c = (ST_OK, wr_hook_ev h i data last c).
Proof. unfold run_hook_ex. rewrite Hcb. reflexivity. Qed.
Lemma wr_run_hook h i c : run_hook cb h i c = (ST_OK, wr_hook_ev h i None false c).
Proof. apply wr_run_hook_ex. Qed.

(* the invariant between two passes of the for(;;) of htp_connp_req_data while transaction 0 is being parsed *)
Record wr_inv (c : connp) (d : bytes) (rd cs : nat) (st : req_state) (prev : option req_state) (rh : option nat) (t : tx) : Prop := mk_wr_inv {
  iv_status : c_in_status c = c_HTP_STREAM_OPEN;
  iv_state : c_in_state c = st;
  iv_prev : c_in_state_previous c = prev;
  iv_data : k_data (c_in c) = Some d;
  iv_len : k_len (c_in c) = length d;
  iv_read : k_read (c_in c) = rd;
  iv_cons : k_consume (c_in c) = cs;
  iv_buf : k_buf (c_in c) = None;
  iv_hdr : k_header (c_in c) = None;
  iv_rh : k_receiver_hook (c_in c) = rh;
  iv_rcv : (k_receiver (c_in c) <= rd)%nat;
  iv_tx : c_in_tx c = Some 0%nat;
  iv_txs : c_txs c = [Some t];
  iv_shift : c_txs_shifted c = 0%nat }.
Lemma iv_slot c d rd cs st prev rh t : wr_inv c d rd cs st prev rh t -> tx_slot c 0 = Some t.
Proof. intros H. unfold tx_slot. rewrite (iv_shift _ _ _ _ _ _ _ _ H), (iv_txs _ _ _ _ _ _ _ _ H). reflexivity. Qed.
Lemma wr_tx_put0 c t t' : c_txs c = [Some t] -> c_txs_shifted c = 0%nat -> tx_put c 0 t' = c <| c_txs := [Some t'] |>.
Proof. intros H1 H2. unfold tx_put. rewrite H2, H1. reflexivity. Qed.

(* ---- pass 1: REQ_IDLE creates the transaction ---- *)
Record wr_idle (c : connp) (d : bytes) : Prop := mk_wr_idle {
  id_status : c_in_status c = c_HTP_STREAM_OPEN;
  id_state : c_in_state c = REQ_IDLE;
  id_prev : c_in_state_previous c = None;
  id_data : k_data (c_in c) = Some d;
  id_len : k_len (c_in c) = length d;
  id_read : k_read (c_in c) = 0%nat;
  id_cons : k_consume (c_in c) = 0%nat;
  id_buf : k_buf (c_in c) = None;
  id_hdr : k_header (c_in c) = None;
  id_rh : k_receiver_hook (c_in c) = None;
  id_rcv : k_receiver (c_in c) = 0%nat;
  id_tx : c_in_tx c = None;
  id_txs : c_txs c = [];
  id_shift : c_txs_shifted c = 0%nat }.

Definition wr_t1 : tx := tx_new 0 0 <| t_request_progress := c_HTP_REQUEST_LINE |>.

Lemma wr_pass_idle c d : wr_idle c d -> d <> [] ->
  exists c', rq_iter cb g false c = inr c' /\ wr_inv c' d 0 0 REQ_LINE (Some REQ_LINE) None wr_t1.
Proof.
  intros [Hst Hs Hp Hd Hl Hr Hc Hb Hh Hrh Hrc Ht Htx Hsh] Hne.
  unfold rq_iter. rewrite Hs. cbn [rq_state_fn]. unfold REQ_IDLE_fn, rq_at_end. rewrite Hl, Hr.
  assert (L : (length d <=? 0)%nat = false) by (destruct d; [contradiction|reflexivity]). rewrite L.
  unfold connp_tx_create. rewrite Htx. cbn [length].
  assert (L0 : forall k, (k <? 0)%nat = false) by (intros k; destruct k; reflexivity).
  rewrite !L0, andb_false_r. rewrite Hsh, Htx. cbn [Nat.add app].
  unfold tx_state_request_start. rewrite wr_run_hook.
  eexists. split.
  - cbn [c_in_tx wr_hook_ev emit bump_hook set]. 
    unfold tx_upd, tx_slot. cbn [c_txs_shifted c_txs wr_hook_ev emit bump_hook set]. rewrite Hsh. cbn [Nat.ltb Nat.leb Nat.sub nth_error].
    unfold tx_put. cbn [c_txs_shifted c_txs wr_hook_ev emit bump_hook set]. rewrite Hsh. cbn [Nat.ltb Nat.leb Nat.sub length upd].
    match goal with |- context [req_handle_state_change cb ?x] => set (c3 := x) end.
    change (c_in_status c3) with (c_in_status c). rewrite Hst. change ((c_HTP_STREAM_OPEN =? c_HTP_STREAM_TUNNEL)%Z) with false. cbv iota.
    unfold req_handle_state_change. change (c_in_state_previous c3) with (c_in_state_previous c). rewrite Hp.
    change (c_in_state c3) with REQ_LINE. cbn [req_state_eqb]. reflexivity.
  - constructor; cbn [c_in_status c_in_state c_in_state_previous c_in c_in_tx set wr_hook_ev emit bump_hook]; try assumption; try reflexivity.
    + rewrite Hrc. lia.
Qed.

(* ---- pass 2: REQ_LINE ---- *)
Lemma wr_line_loop_eq n c :
  REQ_LINE_loop cb g n c =
  let c := rq_peek_next c in
  if (c_in_status c =? c_HTP_STREAM_CLOSED)%Z && match k_next_byte (c_in c) with None => true | Some _ => false end
  then REQ_LINE_complete cb g c
  else
    match rq_copy_byte c with
    | None => (ST_DATA_BUFFER, c)
    | Some c =>
      if rq_next_is c LF then REQ_LINE_complete cb g c
      else match n with
           | O => (ST_DATA_BUFFER, rq_fault c)
           | S n' => REQ_LINE_loop cb g n' c
           end
    end.
Proof. destruct n; reflexivity. Qed.

Lemma wr_peek_next c d b : k_data (c_in c) = Some d -> k_len (c_in c) = length d -> nth_error d (k_read (c_in c)) = Some b ->
  rq_peek_next c = rq_set_in (fun k => k <| k_next_byte := Some b |>) c.
Proof.
  intros Hd Hl Hn. unfold rq_peek_next, rq_at_end, rq_read_byte. rewrite Hd, Hn, Hl.
  assert (L : (length d <=? k_read (c_in c))%nat = false) by (apply Nat.leb_gt; apply nth_error_Some; rewrite Hn; discriminate).
  rewrite L. reflexivity.
Qed.

(* one byte that is not LF *)
Lemma wr_line_loop_step c d b n : c_in_status c = c_HTP_STREAM_OPEN -> k_data (c_in c) = Some d -> k_len (c_in c) = length d ->
  nth_error d (k_read (c_in c)) = Some b -> (b =? LF)%N = false ->
  REQ_LINE_loop cb g (S n) c = REQ_LINE_loop cb g n (rq_set_in (wr_kadv b) c).
Proof.
  intros Hs Hd Hl Hn Hb. rewrite wr_line_loop_eq. rewrite (wr_peek_next c d b Hd Hl Hn). cbv zeta.
  set (c0 := rq_set_in (fun k => k <| k_next_byte := Some b |>) c).
  change (c_in_status c0) with (c_in_status c). rewrite Hs. change ((c_HTP_STREAM_OPEN =? c_HTP_STREAM_CLOSED)%Z) with false. cbn [andb].
  rewrite (wr_copy_byte c0 d b Hd Hl Hn).
  assert (Hnl : rq_next_is (rq_set_in (wr_kadv b) c0) LF = false) by (unfold rq_next_is; cbn; exact Hb). rewrite Hnl. reflexivity.
Qed.
Lemma wr_line_scan : forall s c d n,
  c_in_status c = c_HTP_STREAM_OPEN -> k_data (c_in c) = Some d -> k_len (c_in c) = length d ->
  wr_seg_at d (k_read (c_in c)) s -> forallb (fun b => negb (b =? LF)%N) s = true ->
  REQ_LINE_loop cb g (length s + n) c = REQ_LINE_loop cb g n (rq_set_in (wr_kadvs s) c).
Proof.
  induction s as [|x s IH]; intros c d n Hs Hd Hl Hseg Hlf.
  - cbn [length Nat.add wr_kadvs fold_left]. destruct c; reflexivity.
  - cbn [forallb] in Hlf. apply andb_prop in Hlf. destruct Hlf as [Hx Hlf]. apply negb_true_iff in Hx.
    destruct (wr_seg_at_cons _ _ _ _ Hseg) as [Hn Hseg'].
    cbn [length Nat.add]. rewrite (wr_line_loop_step c d x _ Hs Hd Hl Hn Hx).
    rewrite (IH (rq_set_in (wr_kadv x) c) d n); try assumption. reflexivity.
Qed.

(* the reported request-line fields *)
Definition wr_line_fields (t : tx) (m u p : bytes) : Prop :=
  t_request_method t = Some m /\ t_request_method_number t = htp_convert_method_to_number m /\ t_request_uri t = Some u /\
  t_request_protocol t = Some p /\ t_request_protocol_number t = wr_protocol_number p /\ t_is_protocol_0_9 t = false.
Lemma wr_line_fields_keep t t' m u p : wr_keep t' t -> wr_line_fields t m u p -> wr_line_fields t' m u p.
Proof. unfold wr_keep, wr_line_fields. intros K F. decompose [and] K. decompose [and] F. repeat split; congruence. Qed.

Hypothesis Hspace : g_allow_space_uri g = false.

Lemma wr_reqline_bytes m u p : wr_wf_request_line m u p = true ->
  forallb (fun b => negb (b =? LF)%N) (wr_ser_request_line m u p ++ [CR]) = true /\
  wr_last_plain (wr_ser_request_line m u p) /\
  exists m0 y l, wr_ser_request_line m u p = m0 :: y :: l /\ c_isspace m0 = false.
Proof.
  intros W. unfold wr_wf_request_line in W. apply andb_prop in W. destruct W as [W Wp]. apply andb_prop in W. destruct W as [Wm Wu].
  destruct (wr_token_split m Wm) as (m0 & mr & Em & Tm). unfold wr_uri_ok in Wu. apply andb_prop in Wu. destruct Wu as [_ Wu].
  destruct (wr_protocol_shape p Wp) as (pr & Ep & Tp1 & Tp2).
  assert (V : forallb wr_value_byte (wr_ser_request_line m u p) = true).
  { unfold wr_ser_request_line. rewrite !forallb_app, (wr_token_value_bytes m Tm). cbn [forallb andb].
    assert (Vu : forallb wr_value_byte u = true).
    { eapply wr_forallb_impl; [|exact Wu]. intros b Hb. destruct (wr_uri_byte_facts b Hb) as (Sb & _).
      unfold wr_value_byte. destruct (b =? CR)%N eqn:E1; [apply N.eqb_eq in E1; subst; discriminate|]. destruct (b =? LF)%N eqn:E2; [apply N.eqb_eq in E2; subst; discriminate|reflexivity]. }
    rewrite Vu. destruct (wr_protocol_cases p Wp) as [E|E]; rewrite E; reflexivity. }
  split; [|split].
  - rewrite forallb_app. cbn [forallb]. rewrite andb_true_r.
    eapply wr_forallb_impl; [|exact V]. intros b Hb. unfold wr_value_byte in Hb. apply andb_prop in Hb. apply Hb.
  - apply wr_plain_last; [unfold wr_ser_request_line; rewrite Em; discriminate|exact V].
  - unfold wr_ser_request_line. rewrite Em. cbn [forallb] in Tm. rewrite Em in Tm. cbn [forallb] in Tm. apply andb_prop in Tm. destruct Tm as [T0 _].
    destruct (wr_token_facts m0 T0) as (_ & Sp & _).
    cbn [app]. destruct mr as [|m1 mr]; cbn [app]; eexists _, _, _; split; try reflexivity; exact Sp.
Qed.

Lemma wr_pass_line c d t m u p rest : wr_inv c d 0 0 REQ_LINE (Some REQ_LINE) None t -> t_is_protocol_0_9 t = false -> wr_wf_request_line m u p = true ->
  d = wr_ser_request_line m u p ++ [CR; LF] ++ rest ->
  exists c' t', rq_iter cb g false c = inr c' /\
    wr_inv c' d (length (wr_ser_request_line m u p) + 2) (length (wr_ser_request_line m u p) + 2) REQ_PROTOCOL (Some REQ_PROTOCOL) None t' /\
    wr_line_fields t' m u p /\ t_request_headers t' = t_request_headers t /\ t_req_header_repetitions t' = t_req_header_repetitions t /\
    t_request_progress t' = t_request_progress t /\ t_response_progress t' = t_response_progress t /\ (exists nu, t_parsed_uri t' = Some nu).
Proof.
  intros Hinv H09 W Ed. pose proof (iv_slot _ _ _ _ _ _ _ _ Hinv) as Hsl. destruct Hinv as [Hst Hs Hp Hd Hl Hr Hc Hb Hh Hrh Hrc Ht Htxs Hshift].
  set (line := wr_ser_request_line m u p) in *.
  destruct (wr_reqline_bytes m u p W) as (Hnolf & Hplain & (m0 & y & l & Esh & Sp0)). fold line in Hnolf, Hplain, Esh.
  unfold rq_iter. rewrite Hs. cbn [rq_state_fn]. unfold REQ_LINE_fn. rewrite Hl, Hr, Nat.sub_0_r.
  assert (Ld : length d = (length (line ++ [CR]) + S (length rest))%nat) by (rewrite Ed, !app_length; cbn [length]; lia).
  rewrite Ld.
  rewrite (wr_line_scan (line ++ [CR]) c d _ Hst Hd Hl); [|rewrite Hr; exists [], ([LF] ++ rest); split; [rewrite Ed, <- !app_assoc; reflexivity|reflexivity]|exact Hnolf].
  set (c0 := rq_set_in (wr_kadvs (line ++ [CR])) c).
  destruct (wr_kadvs_frame (line ++ [CR]) (c_in c)) as (F1 & F2 & F3 & F4 & F5 & F6 & F7).
  assert (R0 : k_read (c_in c0) = (length line + 1)%nat).
  { unfold c0. cbn [c_in rq_set_in set]. rewrite wr_kadvs_read, Hr, app_length. cbn [length]. lia. }
  assert (Hd0 : k_data (c_in c0) = Some d) by (unfold c0; cbn [c_in rq_set_in set]; rewrite F1; exact Hd).
  assert (Hl0 : k_len (c_in c0) = length d) by (unfold c0; cbn [c_in rq_set_in set]; rewrite F2; exact Hl).
  assert (Hn0 : nth_error d (k_read (c_in c0)) = Some LF).
  { rewrite R0, Ed. replace (line ++ [CR; LF] ++ rest) with ((line ++ [CR]) ++ LF :: rest) by (rewrite <- !app_assoc; reflexivity).
    rewrite nth_error_app2 by (rewrite !app_length; cbn [length]; lia).
    replace (length line + 1 - length (line ++ [CR]))%nat with 0%nat by (rewrite !app_length; cbn [length]; lia). reflexivity. }
  (* the LF *)
  rewrite wr_line_loop_eq. rewrite (wr_peek_next c0 d LF Hd0 Hl0 Hn0). cbv zeta.
  set (c0' := rq_set_in (fun k => k <| k_next_byte := Some LF |>) c0).
  change (c_in_status c0') with (c_in_status c). rewrite Hst. change ((c_HTP_STREAM_OPEN =? c_HTP_STREAM_CLOSED)%Z) with false. cbn [andb].
  rewrite (wr_copy_byte c0' d LF Hd0 Hl0 Hn0).
  set (c1 := rq_set_in (wr_kadv LF) c0').
  assert (Hnl : rq_next_is c1 LF = true) by reflexivity. rewrite Hnl.
  (* REQ_LINE_complete *)
  unfold REQ_LINE_complete, req_consolidate_data.
  assert (B1 : k_buf (c_in c1) = None) by (unfold c1, c0', c0; cbn [c_in rq_set_in set wr_kadv k_buf]; rewrite F5; exact Hb). rewrite B1.
  unfold rq_slice. assert (D1 : k_data (c_in c1) = Some d) by exact Hd0. rewrite D1.
  assert (R1 : k_read (c_in c1) = (length line + 2)%nat) by (change (k_read (c_in c1)) with (S (k_read (c_in c0))); rewrite R0; lia).
  assert (C1 : k_consume (c_in c1) = 0%nat) by (unfold c1, c0', c0; cbn [c_in rq_set_in set wr_kadv k_consume]; rewrite F3; exact Hc).
  rewrite R1, C1.
  assert (L1 : (length line + 2 <=? length d)%nat = true) by (apply Nat.leb_le; rewrite Ld, app_length; cbn [length]; lia). rewrite L1.
  assert (Sl : firstn (length line + 2 - 0) (skipn 0 d) = line ++ [CR; LF]).
  { rewrite Nat.sub_0_r. cbn [skipn]. rewrite Ed. replace (length line + 2)%nat with (length (line ++ [CR; LF])) by (rewrite app_length; cbn; lia).
    rewrite app_assoc. apply firstn_app_exact. }
  rewrite Sl.
  assert (Ne : exists a r, line ++ [CR; LF] = a :: r) by (rewrite Esh; cbn [app]; eexists _, _; reflexivity).
  destruct Ne as (a & r & Ene). rewrite Ene. rewrite <- Ene.
  unfold htp_is_line_ignorable. rewrite Esh. cbn [app]. rewrite (wr_line_not_terminator _ m0 y l Sp0).
  change (m0 :: y :: l ++ [CR; LF]) with ((m0 :: y :: l) ++ [CR; LF]). rewrite <- Esh.
  rewrite (wr_chomp_line line [CR; LF] eq_refl Hplain).
  (* the request line is parsed into the transaction *)
  assert (S1 : tx_slot c1 0 = Some t) by exact Hsl.
  assert (T1 : c_in_tx c1 = Some 0%nat) by exact Ht.
  rewrite (wr_rq_tx_upd_ok c1 0 t _ T1 S1).
  set (t2 := htp_parse_request_line g (t <| t_request_line := Some line |>)).
  assert (E2 : t2 = (t <| t_request_line := Some line |>) <| t_request_method := Some m |> <| t_request_method_number := htp_convert_method_to_number m |>
                 <| t_request_uri := Some u |> <| t_request_protocol := Some p |> <| t_request_protocol_number := wr_protocol_number p |>).
  { unfold t2. apply (wr_reqline_tx g _ m u p Hspace W). reflexivity. }
  set (c2 := tx_put c1 0 t2).
  assert (S2 : tx_slot c2 0 = Some t2) by (apply (wr_tx_slot_put c1 0 t t2 S1)).
  assert (T2 : c_in_tx c2 = Some 0%nat) by (unfold c2; rewrite (wr_tx_put_ok c1 0 t t2 S1); exact Ht).
  unfold rq_with_tx. rewrite T2. unfold tx_state_request_line, tx_get. rewrite S2.
  assert (U2 : t_request_uri t2 = Some u) by (rewrite E2; reflexivity). rewrite U2.
  destruct (wr_keep_uri_pipeline g (t_request_method_number t2 =? c_HTP_M_CONNECT)%Z u t2) as (t3 & E3 & K3 & P3). rewrite E3.
  set (c3 := tx_put c2 0 t3).
  assert (S3 : tx_slot c3 0 = Some t3) by (apply (wr_tx_slot_put c2 0 t2 t3 S2)).
  rewrite !wr_run_hook.
  match goal with |- context [req_handle_state_change cb ?x] => set (c4 := x) end.
  assert (E3' : c3 = c2 <| c_txs := upd (c_txs c2) (0 - c_txs_shifted c2) (Some t3) |>) by (apply (wr_tx_put_ok c2 0 t2 t3 S2)).
  assert (E2' : c2 = c1 <| c_txs := upd (c_txs c1) (0 - c_txs_shifted c1) (Some t2) |>) by (apply (wr_tx_put_ok c1 0 t t2 S1)).
  assert (St4 : c_in_status c4 = c_HTP_STREAM_OPEN) by (unfold c4; rewrite E3', E2'; exact Hst).
  rewrite St4. change ((c_HTP_STREAM_OPEN =? c_HTP_STREAM_TUNNEL)%Z) with false. cbv iota.
  unfold req_handle_state_change.
  assert (P4 : c_in_state_previous c4 = Some REQ_LINE) by (unfold c4; rewrite E3', E2'; exact Hp). rewrite P4.
  assert (S4 : c_in_state c4 = REQ_PROTOCOL) by reflexivity. rewrite S4. cbn [req_state_eqb].
  eexists _, t3. split; [reflexivity|].
  split; [|split].
  - constructor; try (unfold c4; rewrite E3', E2'; first [exact Hst | reflexivity | exact Ht | exact D1 | exact Hl0 | exact B1]).
    + unfold c4. rewrite E3', E2'. cbn [c_in c_txs set rq_set_in req_clear_buffer wr_hook_ev emit bump_hook k_read k_consume]. exact R1.
    + unfold c4. rewrite E3', E2'. cbn [c_in c_txs set rq_set_in req_clear_buffer wr_hook_ev emit bump_hook k_read k_consume]. exact R1.
    + unfold c4. rewrite E3', E2'. cbn [c_in c_txs set rq_set_in req_clear_buffer wr_hook_ev emit bump_hook k_header]. unfold c1, c0', c0. cbn [c_in rq_set_in set wr_kadv k_header]. rewrite F6. exact Hh.
    + unfold c4. rewrite E3', E2'. cbn [c_in c_txs set rq_set_in req_clear_buffer wr_hook_ev emit bump_hook k_receiver_hook]. unfold c1, c0', c0. cbn [c_in rq_set_in set wr_kadv k_receiver_hook]. rewrite F7. exact Hrh.
    + unfold c4. rewrite E3', E2'. cbn [c_in c_txs set rq_set_in req_clear_buffer wr_hook_ev emit bump_hook k_receiver]. unfold c1, c0', c0. cbn [c_in rq_set_in set wr_kadv k_receiver]. rewrite F4. lia.
    + unfold c4. rewrite E3', E2'. cbn [c_txs c_txs_shifted set rq_set_in req_clear_buffer wr_hook_ev emit bump_hook]. 
      change (c_txs_shifted c1) with (c_txs_shifted c). change (c_txs c1) with (c_txs c). rewrite Hshift, Htxs. reflexivity.
    + unfold c4. rewrite E3', E2'. exact Hshift.
  - apply (wr_line_fields_keep t2 t3 m u p K3). rewrite E2. repeat split. exact H09.
  - unfold wr_keep in K3. decompose [and] K3. rewrite E2 in *. cbn in *. repeat split; try congruence.
Qed.

(* ---- pass 3: REQ_PROTOCOL, and the state change into REQ_HEADERS (the raw-header receiver is installed) ---- *)
Lemma wr_pass_protocol c d r t : wr_inv c d r r REQ_PROTOCOL (Some REQ_PROTOCOL) None t -> t_is_protocol_0_9 t = false ->
  exists c', rq_iter cb g false c = inr c' /\
    wr_inv c' d r r REQ_HEADERS (Some REQ_HEADERS) (Some H_REQUEST_HEADER_DATA) (t <| t_request_progress := c_HTP_REQUEST_HEADERS |>).
Proof.
  intros Hinv H09. pose proof (iv_slot _ _ _ _ _ _ _ _ Hinv) as Hsl. destruct Hinv as [Hst Hs Hp Hd Hl Hr Hc Hb Hh Hrh Hrc Ht Htxs Hshift].
  unfold rq_iter. rewrite Hs. cbn [rq_state_fn]. unfold REQ_PROTOCOL_fn, rq_tx, in_txi, tx_get. rewrite Ht, Hsl, H09. cbn [negb].
  unfold rq_to_headers, rq_tx_upd. cbn [c_in_tx set]. rewrite Ht. unfold tx_upd.
  change (tx_slot (c <| c_in_state := REQ_HEADERS |>) 0) with (tx_slot c 0). rewrite Hsl.
  match goal with |- context [tx_put ?x 0%nat ?y] => rewrite (wr_tx_put0 x t y Htxs Hshift) end.
  set (c1 := c <| c_in_state := REQ_HEADERS |> <| c_txs := [Some (t <| t_request_progress := c_HTP_REQUEST_HEADERS |>)] |>).
  change (c_in_status c1) with (c_in_status c). rewrite Hst. change ((c_HTP_STREAM_OPEN =? c_HTP_STREAM_TUNNEL)%Z) with false. cbv iota.
  unfold req_handle_state_change. change (c_in_state_previous c1) with (c_in_state_previous c). rewrite Hp.
  change (c_in_state c1) with REQ_HEADERS. cbn [req_state_eqb]. change (c_in_tx c1) with (c_in_tx c). rewrite Ht.
  unfold rq_tx, in_txi, tx_get. change (c_in_tx c1) with (c_in_tx c). rewrite Ht.
  assert (S1 : tx_slot c1 0 = Some (t <| t_request_progress := c_HTP_REQUEST_HEADERS |>)).
  { unfold tx_slot. change (c_txs_shifted c1) with (c_txs_shifted c). rewrite Hshift. reflexivity. }
  rewrite S1. cbn [t_request_progress set]. change ((c_HTP_REQUEST_HEADERS =? c_HTP_REQUEST_HEADERS)%Z) with true. cbv iota.
  unfold req_receiver_set, req_receiver_finalize_clear. change (k_receiver_hook (c_in c1)) with (k_receiver_hook (c_in c)). rewrite Hrh.
  eexists. split; [reflexivity|].
  constructor; try assumption; try reflexivity.
  - cbn [c_in set rq_set_in k_receiver k_read]. cbn. rewrite Hr. lia.
Qed.

(* the header processor leaves every field except flags, request_headers and the repetition counter alone *)
Definition wr_keep_h (a b : tx) : Prop :=
  t_request_method a = t_request_method b /\ t_request_method_number a = t_request_method_number b /\
  t_request_uri a = t_request_uri b /\ t_request_protocol a = t_request_protocol b /\
  t_request_protocol_number a = t_request_protocol_number b /\ t_is_protocol_0_9 a = t_is_protocol_0_9 b /\
  t_request_progress a = t_request_progress b /\ t_response_progress a = t_response_progress b /\
  t_hook_request_body a = t_hook_request_body b /\ t_parsed_uri a = t_parsed_uri b.
Lemma wr_keep_h_process line t : wr_keep_h (htp_process_request_header_generic line t) t.
Proof.
  unfold htp_process_request_header_generic. destruct (htp_parse_request_header_generic line) as [h txfl].
  cbn [t_request_headers set]. destruct (rq_hdr_find (t_request_headers t) (h_name h)) as [i|].
  - destruct (flag_has _ _ && _); [unfold wr_keep_h; cbn; repeat split; reflexivity|].
    destruct (flag_has (h_flags (nth i (t_request_headers t) h)) c_HTP_FIELD_REPEATED); unfold wr_keep_h; cbn; repeat split; reflexivity.
  - unfold wr_keep_h; cbn; repeat split; reflexivity.
Qed.
Lemma wr_keep_h_block : forall fs t, wr_keep_h (wr_block_tx fs t) t.
Proof.
  induction fs as [|f fs IH]; intros t; [unfold wr_keep_h; repeat split|].
  unfold wr_block_tx. cbn [map fold_left]. fold (wr_block_tx fs (htp_process_request_header_generic (wr_field_line f) t)).
  pose proof (IH (htp_process_request_header_generic (wr_field_line f) t)) as H1. pose proof (wr_keep_h_process (wr_field_line f) t) as H2.
  unfold wr_keep_h in *. decompose [and] H1. decompose [and] H2. repeat split; congruence.
Qed.

(* no Content-Length / Transfer-Encoding field: the lookups of the framing decision find nothing *)
Lemma wr_same_lc_cl x : wr_same x rq_str_content_length_lc = wr_same x wr_str_content_length.
Proof. rewrite (wr_same_sym x rq_str_content_length_lc), (wr_same_sym x wr_str_content_length). apply wr_same_trans. reflexivity. Qed.
Lemma wr_no_framing_fields fs : forallb wr_field_ok fs = true ->
  existsb (fun f => wr_same (wf_name f) wr_str_content_length || wr_same (wf_name f) wr_str_transfer_encoding) fs = false ->
  rq_hdr_get_c (wr_table (map wr_field_nv fs)) rq_str_transfer_encoding = None /\
  rq_hdr_get_c (wr_table (map wr_field_nv fs)) rq_str_content_length_lc = None.
Proof.
  intros Ok H. rewrite !(wr_lookup_nocase _ _ (wr_fields_no_nul fs Ok)). unfold wr_first_spelling. rewrite map_map.
  assert (F : forall k, (forall f, In f fs -> wr_same (wf_name f) k = false) -> find (fun x => wr_same x k) (map (fun x => fst (wr_field_nv x)) fs) = None).
  { intros k Hk. induction fs as [|f fs IH]; [reflexivity|]. cbn [map find wr_field_nv fst]. rewrite (Hk f (or_introl eq_refl)).
    apply IH; [cbn [forallb] in Ok; apply andb_prop in Ok; apply Ok|cbn [existsb] in H; apply orb_false_iff in H; apply H|intros f' Hf'; apply Hk; right; exact Hf']. }
  split; rewrite F; try reflexivity; intros f Hf; pose proof (wr_existsb_false _ _ H f Hf) as E; cbv beta in E; apply orb_false_iff in E; destruct E as [E1 E2].
  - exact E2.
  - rewrite wr_same_lc_cl. exact E1.
Qed.

(* CONNECT is the only method with its number *)
Lemma wr_not_connect m : wr_eqb m wr_str_connect = false -> (htp_convert_method_to_number m =? c_HTP_M_CONNECT)%Z = false.
Proof.
  intros H. unfold htp_convert_method_to_number, t_methods.
  repeat (cbn [rq_method_lookup]; match goal with |- context [rq_bytes_eqb m ?n] => destruct (rq_bytes_eqb m n) eqn:? end; [try reflexivity|]).
  all: try reflexivity.
  exfalso. assert (E : wr_eqb m wr_str_connect = true).
  { match goal with H0 : rq_bytes_eqb m _ = true |- _ => revert H0 end. unfold wr_str_connect. generalize [67;79;78;78;69;67;84]%N.
    clear. induction m as [|x m IH]; intros [|y l]; cbn; try discriminate; try reflexivity. intros E. apply andb_prop in E. destruct E as [E1 E2]. rewrite E1. apply IH. exact E2. }
  congruence.
Qed.

(* ---- htp_tx_state_request_headers at the end of the header block (no body framing fields) ---- *)
Lemma wr_state_request_headers c d rd prev t nu :
  wr_inv c d rd rd REQ_HEADERS prev (Some H_REQUEST_HEADER_DATA) t -> (rd <= length d)%nat ->
  t_request_progress t = c_HTP_REQUEST_HEADERS -> t_parsed_uri t = Some nu ->
  rq_hdr_get_c (t_request_headers t) rq_str_transfer_encoding = None -> rq_hdr_get_c (t_request_headers t) rq_str_content_length_lc = None ->
  exists c' t', tx_state_request_headers cb 0 c = (ST_OK, c') /\ wr_inv c' d rd rd REQ_CONNECT_CHECK prev None t' /\
                wr_keep t' t /\ t_request_transfer_coding t' = c_HTP_CODING_NO_BODY.
Proof.
  intros Hinv Hle Hprog Hpu Hte Hcl. pose proof (iv_slot _ _ _ _ _ _ _ _ Hinv) as Hsl. destruct Hinv as [Hst Hs Hp Hd Hl Hr Hc Hb Hh Hrh Hrc Ht Htxs Hshift].
  unfold tx_state_request_headers, tx_get. rewrite Hsl, Hprog.
  change ((c_HTP_REQUEST_HEADERS <? c_HTP_REQUEST_HEADERS)%Z) with false. change ((c_HTP_REQUEST_LINE <=? c_HTP_REQUEST_HEADERS)%Z) with true. cbv iota.
  (* the MULTI_PACKET_HEAD flag does not matter here *)
  set (t5 := if negb (c_in_chunk_count c =? c_in_chunk_request_index c)%nat then tx_set_flag c_HTP_MULTI_PACKET_HEAD t else t).
  assert (E5 : (if negb (c_in_chunk_count c =? c_in_chunk_request_index c)%nat then tx_upd c 0 (tx_set_flag c_HTP_MULTI_PACKET_HEAD) else c)
               = c <| c_txs := [Some t5] |>).
  { unfold t5. destruct (negb (c_in_chunk_count c =? c_in_chunk_request_index c)%nat).
    - rewrite (wr_tx_upd_ok c 0 t _ Hsl). apply (wr_tx_put0 c t _ Htxs Hshift).
    - rewrite <- Htxs. destruct c; reflexivity. }
  rewrite E5. set (c5 := c <| c_txs := [Some t5] |>).
  assert (K5 : wr_keep t5 t) by (unfold t5; destruct (negb _); [unfold tx_set_flag; wr_keep_now|apply wr_keep_refl]).
  assert (P5 : t_parsed_uri t5 = Some nu) by (unfold t5; destruct (negb _); exact Hpu).
  assert (H5 : t_request_headers t5 = t_request_headers t) by (unfold t5; destruct (negb _); reflexivity).
  unfold tx_process_request_headers, tx_get.
  assert (S5 : tx_slot c5 0 = Some t5) by (unfold tx_slot; change (c_txs_shifted c5) with (c_txs_shifted c); rewrite Hshift; reflexivity).
  rewrite S5.
  rewrite <- H5 in Hte, Hcl. destruct (wr_te_cl_nobody t5 Hte Hcl) as [TC6 P6]. rewrite P6, P5.
  set (t6 := rq_te_cl t5) in *.
  destruct (wr_keep_host nu t6) as [K7 TC7]. set (t7 := rq_host nu t6) in *.
  destruct (wr_keep_content_type t7) as [K8 TC8]. set (t8 := rq_content_type t7) in *.
  assert (E6 : tx_put c5 0 t8 = c <| c_txs := [Some t8] |>) by (unfold tx_put; change (c_txs_shifted c5) with (c_txs_shifted c); rewrite Hshift; reflexivity).
  rewrite E6. set (c6 := c <| c_txs := [Some t8] |>).
  (* the raw header bytes are flushed to the receiver and the receiver is removed *)
  unfold req_receiver_finalize_clear. change (k_receiver_hook (c_in c6)) with (k_receiver_hook (c_in c)). rewrite Hrh.
  unfold req_receiver_send_data. change (k_receiver_hook (c_in c6)) with (k_receiver_hook (c_in c)). rewrite Hrh.
  change (c_in c6) with (c_in c). unfold cur_slice. rewrite Hd.
  assert (Hhave : (length (firstn (k_read (c_in c) - k_receiver (c_in c)) (skipn (k_receiver (c_in c)) d)) <? k_read (c_in c) - k_receiver (c_in c))%nat = false).
  { apply Nat.ltb_ge. rewrite firstn_length, skipn_length, Hr. lia. }
  rewrite Hhave.
  unfold run_data_hook. rewrite wr_run_hook_ex. cbv iota.
  rewrite wr_run_hook.
  eexists _, t8. split; [reflexivity|].
  assert (K8all : wr_keep t8 t).
  { eapply wr_keep_trans; [exact K8|]. eapply wr_keep_trans; [exact K7|]. eapply wr_keep_trans; [apply wr_keep_te_cl|exact K5]. }
  split; [|split; [exact K8all|rewrite TC8, TC7; exact TC6]].
  constructor; try assumption; try reflexivity.
  - cbn [c_in set wr_hook_ev emit bump_hook k_receiver k_read]. cbn. rewrite Hr. lia.
Qed.

(* the state change after a pass that ended in a state other than REQ_HEADERS: only in_state_previous is written *)
Lemma wr_state_change c d rd cs st prev rh t : wr_inv c d rd cs st prev rh t -> prev <> Some st -> st <> REQ_HEADERS ->
  (if (c_in_status c =? c_HTP_STREAM_TUNNEL)%Z then inl (c, c_HTP_STREAM_TUNNEL)
   else match req_handle_state_change cb c with
        | (ST_OK, c) => inr c
        | (rc, c) => inl (rq_exit cb g rc c)
        end) = inr (c <| c_in_state_previous := Some st |>) /\
  wr_inv (c <| c_in_state_previous := Some st |>) d rd cs st (Some st) rh t.
Proof.
  intros [Hst Hs Hp Hd Hl Hr Hc Hb Hh Hrh Hrc Ht Htxs Hshift] Hne Hnh. split.
  - rewrite Hst. change ((c_HTP_STREAM_OPEN =? c_HTP_STREAM_TUNNEL)%Z) with false. cbv iota.
    unfold req_handle_state_change. rewrite Hp, Hs.
    assert (E1 : match prev with Some s => req_state_eqb s st | None => false end = false).
    { destruct prev as [s|]; [|reflexivity]. destruct s, st; try reflexivity; exfalso; apply Hne; reflexivity. }
    rewrite E1. assert (E2 : req_state_eqb st REQ_HEADERS = false) by (destruct st; try reflexivity; contradiction). rewrite E2. rewrite Hs. reflexivity.
  - constructor; try assumption; reflexivity.
Qed.

(* the fields that no later stage of the request may touch *)
Definition wr_keep_l (a b : tx) : Prop :=
  t_request_method a = t_request_method b /\ t_request_method_number a = t_request_method_number b /\
  t_request_uri a = t_request_uri b /\ t_request_protocol a = t_request_protocol b /\
  t_request_protocol_number a = t_request_protocol_number b /\ t_is_protocol_0_9 a = t_is_protocol_0_9 b /\
  t_request_progress a = t_request_progress b /\ t_response_progress a = t_response_progress b /\
  t_hook_request_body a = t_hook_request_body b.

(* ---- pass 4: REQ_HEADERS over the whole block ---- *)
Lemma wr_block_tx_table fs t : wr_block_ok fs = true -> t_request_headers t = [] -> t_req_header_repetitions t = 0%nat ->
  t_request_headers (wr_block_tx fs t) = wr_table (map wr_field_nv fs).
Proof.
  intros Ok H1 H2. pose proof (wr_req_header_block fs [] t Ok eq_refl H1 H2) as H. cbv zeta in H. destruct H as [H _].
  unfold wr_block_tx. rewrite <- H. f_equal. f_equal. apply map_ext. intros f. rewrite app_nil_r. reflexivity.
Qed.

Lemma wr_pass_headers c d r t fs nu :
  wr_inv c d r r REQ_HEADERS (Some REQ_HEADERS) (Some H_REQUEST_HEADER_DATA) t ->
  t_request_progress t = c_HTP_REQUEST_HEADERS -> t_request_headers t = [] -> t_req_header_repetitions t = 0%nat -> t_parsed_uri t = Some nu ->
  wr_block_ok fs = true ->
  existsb (fun f => wr_same (wf_name f) wr_str_content_length || wr_same (wf_name f) wr_str_transfer_encoding) fs = false ->
  wr_seg_at d r (wr_block_wire fs ++ [CR; LF]) -> length d = (r + length (wr_block_wire fs) + 2)%nat ->
  exists c' t', rq_iter cb g false c = inr c' /\
    wr_inv c' d (length d) (length d) REQ_CONNECT_CHECK (Some REQ_CONNECT_CHECK) None t' /\
    t_request_headers t' = wr_table (map wr_field_nv fs) /\ wr_keep_l t' t /\ t_request_transfer_coding t' = c_HTP_CODING_NO_BODY.
Proof.
  intros Hinv Hprog Hhs Hreps Hpu Ok Hnf Hseg Hlen.
  pose proof Ok as Ok'. unfold wr_block_ok in Ok'. apply andb_prop in Ok'. destruct Ok' as [Okf _].
  pose proof (iv_slot _ _ _ _ _ _ _ _ Hinv) as Hsl. pose proof Hinv as Hinv0. destruct Hinv as [Hst Hs Hp Hd Hl Hr Hc Hb Hh Hrh Hrc Ht Htxs Hshift].
  unfold rq_iter. rewrite Hs. cbn [rq_state_fn]. unfold REQ_HEADERS_fn. rewrite Hl, Hr.
  replace (length d - r)%nat with (length (wr_block_wire fs) + 2)%nat by lia.
  assert (Hhst : wr_hst c d r 0 t).
  { constructor; try assumption. rewrite Hst. reflexivity. }
  destruct (wr_req_headers_run cb g fs c d r 0 t 1 Hhst Okf Hseg) as (K & E & H1 & HK). rewrite E.
  set (tF := wr_block_tx fs t) in *.
  rewrite (wr_tx_put0 c t tF Htxs Hshift) in *.
  set (cF := rq_set_in K (c <| c_txs := [Some tF] |>)) in *.
  destruct H1 as [Ho1 Hd1 Hl1 Hr1 Hc1 Hb1 Hh1 Hi1 Hs1].
  unfold rq_with_tx. rewrite Hi1.
  pose proof (wr_keep_h_block fs t) as KH. fold tF in KH.
  assert (HtF : t_request_headers tF = wr_table (map wr_field_nv fs)) by (apply wr_block_tx_table; assumption).
  destruct (wr_no_framing_fields fs Okf Hnf) as [N1 N2]. rewrite <- HtF in N1, N2.
  assert (InvF : wr_inv cF d (length d) (length d) REQ_HEADERS (Some REQ_HEADERS) (Some H_REQUEST_HEADER_DATA) tF).
  { destruct (HK (c_in c)) as [A B].
    constructor; try assumption; try reflexivity.
    - rewrite Hr1. lia.
    - rewrite Hc1. lia.
    - unfold cF. cbn [c_in rq_set_in set]. rewrite A. exact Hrh.
    - unfold cF. cbn [c_in rq_set_in set]. rewrite B. lia. }
  assert (PF : t_request_progress tF = c_HTP_REQUEST_HEADERS) by (unfold wr_keep_h in KH; decompose [and] KH; congruence).
  assert (UF : t_parsed_uri tF = Some nu) by (unfold wr_keep_h in KH; decompose [and] KH; congruence).
  destruct (wr_state_request_headers cF d (length d) (Some REQ_HEADERS) tF nu InvF (le_n _) PF UF N1 N2) as (c' & t' & E' & Inv' & K' & TC').
  rewrite E'.
  destruct (wr_state_change c' d _ _ _ _ _ t' Inv') as [E2 Inv2]; [discriminate|discriminate|].
  rewrite E2. eexists _, t'. split; [reflexivity|]. split; [exact Inv2|].
  unfold wr_keep in K'. unfold wr_keep_h in *. unfold wr_keep_l. decompose [and] K'. decompose [and] KH.
  split; [congruence|]. split; [|exact TC'].
  repeat split; congruence.
Qed.

(* ---- pass 5: REQ_CONNECT_CHECK (not CONNECT) ---- *)
Lemma wr_pass_connect_check c d rd cs rh t : wr_inv c d rd cs REQ_CONNECT_CHECK (Some REQ_CONNECT_CHECK) rh t ->
  (t_request_method_number t =? c_HTP_M_CONNECT)%Z = false ->
  exists c', rq_iter cb g false c = inr c' /\ wr_inv c' d rd cs REQ_BODY_DETERMINE (Some REQ_BODY_DETERMINE) rh t.
Proof.
  intros Hinv Hm. pose proof (iv_slot _ _ _ _ _ _ _ _ Hinv) as Hsl. pose proof Hinv as [Hst Hs Hp Hd Hl Hr Hc Hb Hh Hrh Hrc Ht Htxs Hshift].
  unfold rq_iter. rewrite Hs. cbn [rq_state_fn]. unfold REQ_CONNECT_CHECK_fn, rq_tx, in_txi, tx_get. rewrite Ht, Hsl, Hm.
  assert (Inv1 : wr_inv (c <| c_in_state := REQ_BODY_DETERMINE |>) d rd cs REQ_BODY_DETERMINE (Some REQ_CONNECT_CHECK) rh t) by (constructor; try assumption; reflexivity).
  destruct (wr_state_change _ d _ _ _ _ _ t Inv1) as [E2 Inv2]; [discriminate|discriminate|].
  rewrite E2. eexists. split; [reflexivity|exact Inv2].
Qed.

(* ---- pass 6: REQ_BODY_DETERMINE (no body) ---- *)
Lemma wr_pass_body_determine c d rd cs rh t : wr_inv c d rd cs REQ_BODY_DETERMINE (Some REQ_BODY_DETERMINE) rh t ->
  t_request_transfer_coding t = c_HTP_CODING_NO_BODY ->
  exists c', rq_iter cb g false c = inr c' /\ wr_inv c' d rd cs REQ_FINALIZE (Some REQ_FINALIZE) rh t.
Proof.
  intros Hinv Htc. pose proof (iv_slot _ _ _ _ _ _ _ _ Hinv) as Hsl. pose proof Hinv as [Hst Hs Hp Hd Hl Hr Hc Hb Hh Hrh Hrc Ht Htxs Hshift].
  unfold rq_iter. rewrite Hs. cbn [rq_state_fn]. unfold REQ_BODY_DETERMINE_fn, rq_tx, in_txi, tx_get. rewrite Ht, Hsl, Htc.
  change ((c_HTP_CODING_NO_BODY =? c_HTP_CODING_CHUNKED)%Z) with false. change ((c_HTP_CODING_NO_BODY =? c_HTP_CODING_IDENTITY)%Z) with false.
  change ((c_HTP_CODING_NO_BODY =? c_HTP_CODING_NO_BODY)%Z) with true. cbv iota.
  assert (Inv1 : wr_inv (c <| c_in_state := REQ_FINALIZE |>) d rd cs REQ_FINALIZE (Some REQ_BODY_DETERMINE) rh t) by (constructor; try assumption; reflexivity).
  destruct (wr_state_change _ d _ _ _ _ _ t Inv1) as [E2 Inv2]; [discriminate|discriminate|].
  rewrite E2. eexists. split; [reflexivity|exact Inv2].
Qed.

(* ---- pass 7: REQ_FINALIZE at the end of the chunk completes the request; pass 8: REQ_IDLE with nothing left returns HTP_STREAM_DATA ---- *)
Record wr_done (c : connp) (t : tx) : Prop := mk_wr_done {
  dn_txs : c_txs c = [Some t];
  dn_tx : c_in_tx c = None;
  dn_state : c_in_state c = REQ_IDLE }.

Lemma wr_pass_finalize c d t : wr_inv c d (length d) (length d) REQ_FINALIZE (Some REQ_FINALIZE) None t ->
  t_request_transfer_coding t = c_HTP_CODING_NO_BODY -> t_request_progress t = c_HTP_REQUEST_HEADERS ->
  (t_response_progress t =? c_HTP_RESPONSE_COMPLETE)%Z = false -> t_is_protocol_0_9 t = false ->
  exists c', rq_iter cb g false c = inr c' /\ wr_done c' (t <| t_request_progress := c_HTP_REQUEST_COMPLETE |>) /\
    c_in_status c' = c_HTP_STREAM_OPEN /\ k_len (c_in c') = length d /\ k_read (c_in c') = length d /\ k_receiver_hook (c_in c') = None.
Proof.
  intros Hinv Htc Hprog Hresp H09. pose proof (iv_slot _ _ _ _ _ _ _ _ Hinv) as Hsl. pose proof Hinv as [Hst Hs Hp Hd Hl Hr Hc Hb Hh Hrh Hrc Ht Htxs Hshift].
  unfold rq_iter. rewrite Hs. cbn [rq_state_fn]. unfold REQ_FINALIZE_fn, rq_finalize_scan. rewrite Hst.
  change ((c_HTP_STREAM_OPEN =? c_HTP_STREAM_CLOSED)%Z) with false. cbv iota.
  unfold rq_peek_next, rq_at_end. rewrite Hl, Hr, Nat.leb_refl.
  set (c1 := rq_set_in (fun k => k <| k_next_byte := None |>) c).
  change (k_next_byte (c_in c1)) with (@None N). cbv iota.
  unfold rq_request_complete, rq_with_tx. change (c_in_tx c1) with (c_in_tx c). rewrite Ht.
  unfold tx_state_request_complete. change (tx_slot c1 0) with (tx_slot c 0). rewrite Hsl, Hprog.
  change ((c_HTP_REQUEST_HEADERS =? c_HTP_REQUEST_COMPLETE)%Z) with false. cbn [negb].
  unfold tx_state_request_complete_partial, tx_get. change (tx_slot c1 0) with (tx_slot c 0). rewrite Hsl.
  unfold tx_req_has_body. rewrite Htc.
  change ((c_HTP_CODING_NO_BODY =? c_HTP_CODING_IDENTITY)%Z) with false. change ((c_HTP_CODING_NO_BODY =? c_HTP_CODING_CHUNKED)%Z) with false. cbn [orb].
  rewrite (wr_tx_upd_ok c1 0 t _ Hsl). rewrite (wr_tx_put0 c1 t _ Htxs Hshift).
  rewrite wr_run_hook. unfold req_receiver_finalize_clear.
  set (t' := t <| t_request_progress := c_HTP_REQUEST_COMPLETE |>).
  match goal with |- context [wr_hook_ev H_REQUEST_COMPLETE 0 None false ?x] => set (c2 := wr_hook_ev H_REQUEST_COMPLETE 0 None false x) end.
  change (k_receiver_hook (c_in c2)) with (k_receiver_hook (c_in c)). rewrite Hrh.
  assert (S2 : tx_slot c2 0 = Some t') by (unfold tx_slot; change (c_txs_shifted c2) with (c_txs_shifted c); rewrite Hshift; reflexivity).
  rewrite S2. change (t_is_protocol_0_9 t') with (t_is_protocol_0_9 t). rewrite H09.
  unfold tx_finalize. change (tx_slot (c2 <| c_in_state := REQ_IDLE |>) 0) with (tx_slot c2 0). rewrite S2.
  unfold tx_is_complete. change (t_response_progress t') with (t_response_progress t). rewrite Hresp, andb_false_r. cbn [negb].
  set (c3 := c2 <| c_in_state := REQ_IDLE |> <| c_in_tx := None |>).
  change (c_in_status c3) with (c_in_status c). rewrite Hst. change ((c_HTP_STREAM_OPEN =? c_HTP_STREAM_TUNNEL)%Z) with false. cbv iota.
  unfold req_handle_state_change. change (c_in_state_previous c3) with (c_in_state_previous c). rewrite Hp.
  change (c_in_state c3) with REQ_IDLE. cbn [req_state_eqb].
  eexists. split; [reflexivity|]. split; [constructor; reflexivity|].
  split; [exact Hst|]. split; [exact Hl|]. split; [exact Hr|exact Hrh].
Qed.

Lemma wr_pass_idle_end c t n : wr_done c t -> c_in_status c = c_HTP_STREAM_OPEN -> k_len (c_in c) = n -> k_read (c_in c) = n -> k_receiver_hook (c_in c) = None ->
  rq_iter cb g false c = inl (c <| c_in_status := c_HTP_STREAM_DATA |>, c_HTP_STREAM_DATA).
Proof.
  intros [Htxs Htx Hs] Hst Hl Hr Hrh. unfold rq_iter. rewrite Hs. cbn [rq_state_fn]. unfold REQ_IDLE_fn, rq_at_end. rewrite Hl, Hr, Nat.leb_refl.
  unfold rq_exit, req_receiver_send_data. rewrite Hrh. reflexivity.
Qed.

(* ---- htp_connp_req_data on the whole request ---- *)
Lemma wr_rq_loop_S f gap c : rq_loop cb g (S f) gap c = match rq_iter cb g gap c with inl r => r | inr c => rq_loop cb g f gap c end.
Proof. reflexivity. Qed.

Theorem wr_req_data_fidelity : forall c0 r,
  wr_request_ok r = true ->
  c_in_status c0 = c_HTP_STREAM_OPEN -> c_out_status c0 = c_HTP_STREAM_OPEN -> c_in_state c0 = REQ_IDLE -> c_in_state_previous c0 = None ->
  c_in_tx c0 = None -> c_txs c0 = [] -> c_txs_shifted c0 = 0%nat ->
  k_buf (c_in c0) = None -> k_header (c_in c0) = None -> k_receiver_hook (c_in c0) = None ->
  exists t, c_txs (fst (connp_req_data cb g (Some (wr_request_wire r)) (length (wr_request_wire r)) c0)) = [Some t] /\ wr_reported t r.
Proof.
  intros c0 [m u p fs] Wr Hst Host Hs Hp Ht Htxs Hshift Hb Hh Hrh.
  unfold wr_request_ok in Wr. cbn [wq_method wq_uri wq_protocol wq_fields] in Wr.
  apply andb_prop in Wr. destruct Wr as [Wr Wc]. apply andb_prop in Wr. destruct Wr as [Wr Wnf]. apply andb_prop in Wr. destruct Wr as [Wl Wb].
  apply negb_true_iff in Wnf. apply negb_true_iff in Wc.
  unfold wr_request_wire. cbn [wq_method wq_uri wq_protocol wq_fields].
  set (d := wr_ser_request m u p fs).
  assert (Ed : d = wr_ser_request_line m u p ++ [CR; LF] ++ (wr_block_wire fs ++ [CR; LF])) by reflexivity.
  assert (Hne : d <> []).
  { rewrite Ed. destruct (wr_reqline_bytes m u p Wl) as (_ & _ & (m0 & y & l & E & _)). rewrite E. discriminate. }
  assert (Hlen0 : (length d =? 0)%nat = false) by (destruct d; [contradiction|reflexivity]).
  unfold connp_req_data. rewrite Hst.
  change ((c_HTP_STREAM_OPEN =? c_HTP_STREAM_STOP)%Z) with false. change ((c_HTP_STREAM_OPEN =? c_HTP_STREAM_ERROR)%Z) with false. cbv iota.
  rewrite Ht, Hs. cbn [req_state_eqb negb]. rewrite Hlen0. cbn [andb].
  match goal with |- context [rq_loop cb g _ _ ?x] => set (c1 := x) end.
  assert (St1 : (c_in_status (rq_set_in (fun k => k <| k_data := Some d |> <| k_len := length d |> <| k_read := 0%nat |> <| k_consume := 0%nat |> <| k_receiver := 0%nat |>) c0
                   <| c_in_chunk_count ::= S |> <| c_in_data_counter ::= Z.add (Z.of_nat (length d)) |>) =? c_HTP_STREAM_TUNNEL)%Z = false).
  { change (c_in_status _) with (c_in_status c0). rewrite Hst. reflexivity. }
  rewrite St1 in *. clear St1.
  assert (Idle1 : wr_idle c1 d).
  { unfold c1. match goal with |- context [(c_out_status ?x =? _)%Z] => change (c_out_status x) with (c_out_status c0) end. rewrite Host. change ((c_HTP_STREAM_OPEN =? c_HTP_STREAM_DATA_OTHER)%Z) with false. cbv iota.
    constructor; try assumption; reflexivity. }
  replace (rq_fuel (length d)) with (S (S (S (S (S (S (S (S (16 * length d + 8))))))))) by (unfold rq_fuel; lia).
  (* 1 *)
  destruct (wr_pass_idle c1 d Idle1 Hne) as (c2 & E1 & Inv2). rewrite wr_rq_loop_S, E1.
  (* 2 *)
  destruct (wr_pass_line c2 d wr_t1 m u p (wr_block_wire fs ++ [CR; LF]) Inv2 eq_refl Wl Ed) as (c3 & t3 & E2 & Inv3 & F3 & Hh3 & Hr3 & Pg3 & Rp3 & (nu & Pu3)).
  rewrite wr_rq_loop_S, E2.
  set (r1 := (length (wr_ser_request_line m u p) + 2)%nat) in *.
  (* 3 *)
  assert (Z3 : t_is_protocol_0_9 t3 = false) by (unfold wr_line_fields in F3; decompose [and] F3; assumption).
  destruct (wr_pass_protocol c3 d r1 t3 Inv3 Z3) as (c4 & E3 & Inv4). rewrite wr_rq_loop_S, E3.
  set (t4 := t3 <| t_request_progress := c_HTP_REQUEST_HEADERS |>) in *.
  (* 4 *)
  assert (Hseg : wr_seg_at d r1 (wr_block_wire fs ++ [CR; LF])).
  { exists (wr_ser_request_line m u p ++ [CR; LF]), []. split; [rewrite app_nil_r, Ed, <- !app_assoc; reflexivity|unfold r1; rewrite app_length; reflexivity]. }
  assert (Hlen : length d = (r1 + length (wr_block_wire fs) + 2)%nat) by (rewrite Ed, !app_length; unfold r1; cbn [length]; lia).
  destruct (wr_pass_headers c4 d r1 t4 fs nu Inv4 eq_refl Hh3 Hr3 Pu3 Wb Wnf Hseg Hlen) as (c5 & t5 & E4 & Inv5 & Hd5 & K5 & Tc5).
  rewrite wr_rq_loop_S, E4.
  unfold wr_keep_l in K5. destruct K5 as (K51 & K52 & K53 & K54 & K55 & K56 & K57 & K58 & K59).
  unfold wr_line_fields in F3. destruct F3 as (F31 & F32 & F33 & F34 & F35 & F36).
  (* 5 *)
  assert (M5 : (t_request_method_number t5 =? c_HTP_M_CONNECT)%Z = false).
  { rewrite K52. change (t_request_method_number t4) with (t_request_method_number t3). rewrite F32. apply wr_not_connect. exact Wc. }
  destruct (wr_pass_connect_check c5 d _ _ _ t5 Inv5 M5) as (c6 & E5 & Inv6). rewrite wr_rq_loop_S, E5.
  (* 6 *)
  destruct (wr_pass_body_determine c6 d _ _ _ t5 Inv6 Tc5) as (c7 & E6 & Inv7). rewrite wr_rq_loop_S, E6.
  (* 7 *)
  assert (Pg5 : t_request_progress t5 = c_HTP_REQUEST_HEADERS) by (rewrite K57; reflexivity).
  assert (Rp5 : (t_response_progress t5 =? c_HTP_RESPONSE_COMPLETE)%Z = false).
  { rewrite K58. change (t_response_progress t4) with (t_response_progress t3). rewrite Rp3. reflexivity. }
  assert (Z5 : t_is_protocol_0_9 t5 = false) by (rewrite K56; exact Z3).
  destruct (wr_pass_finalize c7 d t5 Inv7 Tc5 Pg5 Rp5 Z5) as (c8 & E7 & Dn8 & St8 & Ln8 & Rd8 & Rh8). rewrite wr_rq_loop_S, E7.
  (* 8 *)
  rewrite wr_rq_loop_S, (wr_pass_idle_end c8 _ (length d) Dn8 St8 Ln8 Rd8 Rh8). cbn [fst].
  exists (t5 <| t_request_progress := c_HTP_REQUEST_COMPLETE |>). split.
  - change (c_txs (c8 <| c_in_status := c_HTP_STREAM_DATA |>)) with (c_txs c8). apply (dn_txs _ _ Dn8).
  - unfold wr_reported. cbn [wq_method wq_uri wq_protocol wq_fields t_request_method t_request_method_number t_request_uri t_request_protocol
      t_request_protocol_number t_is_protocol_0_9 t_request_headers t_request_progress set].
    repeat split; try congruence.
    + rewrite K51. exact F31.
    + rewrite K52. exact F32.
    + rewrite K53. exact F33.
    + rewrite K54. exact F34.
    + rewrite K55. exact F35.
Qed.
End Glue.

(* ---- the stream API: htp_connp_open, then the whole request in one htp_connp_req_data call ---- *)
Theorem wr_exchange_fidelity_partial : forall cb g r,
  wr_all_ok cb -> g_allow_space_uri g = false -> wr_request_ok r = true ->
  exists t, c_txs (fst (cp_run cb g connp_new [OpOpen; OpReqData (wr_request_wire r)])) = [Some t] /\ wr_reported t r.
Proof.
  intros cb g r Hcb Hsp Wr.
  set (c0 := forget_chunks (connp_open connp_new) <| c_events := [] |>).
  destruct (wr_req_data_fidelity cb g Hcb Hsp c0 r Wr eq_refl eq_refl eq_refl eq_refl eq_refl eq_refl eq_refl eq_refl eq_refl eq_refl) as (t & Ht & Hrep).
  exists t. split; [|exact Hrep].
  unfold cp_run, cp_step, finish_call. fold c0.
  destruct (connp_req_data cb g (Some (wr_request_wire r)) (length (wr_request_wire r)) c0) as [c rc]. cbn [fst] in *. exact Ht.
Qed.

(* non-vacuity: GET /1 HTTP/1.1 | Host: a | X-Foo: a b | x-foo:\tc  *)
Definition wr_ex_req : wr_request :=
  mk_wr_request [71;69;84]%N [47;49]%N wr_http11
    [mk_wr_field [72;111;115;116]%N [SP] [97]%N []; mk_wr_field [88;45;70;111;111]%N [SP] [97;32;98]%N [SP]; mk_wr_field [120;45;102;111;111]%N [HT] [99]%N []].
Lemma wr_ex_req_ok : wr_request_ok wr_ex_req = true. Proof. vm_compute. reflexivity. Qed.
Lemma wr_ex_req_run :
  match c_txs (fst (cp_run (script_lookup []) (cp_make_cfg 1 (Z.to_nat 18000) 512 false false 0) connp_new [OpOpen; OpReqData (wr_request_wire wr_ex_req)])) with
  | [Some t] => t_request_headers t = [mkhdr [72;111;115;116]%N [97]%N 0; mkhdr [88;45;70;111;111]%N [97;32;98;44;32;99]%N c_HTP_FIELD_REPEATED]
                /\ t_request_hostname t = Some [97]%N /\ t_request_progress t = c_HTP_REQUEST_COMPLETE
  | _ => False
  end.
Proof. vm_compute. repeat split; reflexivity. Qed.
