(* C04, Stage C: response processing and the mark "request complete" on a transaction commute.  A response may be parsed on a
   transaction whose request is still in htp_connp_REQ_FINALIZE; when the request side marks it complete afterwards the result is
   the transaction the other order gives. *)
Require Import Htp.Model.Base Htp.Model.MBstr Htp.Model.MConnTypes Htp.Model.MTxCommon Htp.Model.MResLine Htp.Model.MTxRes.
Require Import Htp.Model.MReq Htp.Model.MRes Htp.Model.MConnp.
Require Import Htp.Spec.SWire Htp.Proof.PWire Htp.Proof.PWireHdr Htp.Proof.PWireBlock Htp.Proof.PWireConn Htp.Proof.PWireExch.
Require Import Htp.Proof.PWireRun Htp.Proof.PWirePres Htp.Proof.PWireGlue Htp.Proof.PSeg Htp.Proof.PSegLine Htp.Proof.PSegHdr Htp.Proof.PSegGen Htp.Proof.PSegRun.
Require Import Htp.Proof.PSegFold Htp.Proof.PSegPipe Htp.Proof.PSegRes Htp.Proof.PSegResLine Htp.Proof.PSegResHdr Htp.Proof.PSegResGen Htp.Proof.PSegResRun Htp.Proof.PSegResReq Htp.Proof.PSegResThm.
Require Import Htp.Proof.PPairA Htp.Proof.PPairB Htp.Proof.PPairCs.

Notation V := pg_V.
Lemma pg_V_id t : t_request_progress t = c_HTP_REQUEST_COMPLETE -> V t = t.
Proof. intros H. unfold pg_V. destruct t. cbn in *. rewrite H. reflexivity. Qed.
Lemma pg_V_V t : V (V t) = V t.
Proof. reflexivity. Qed.

(* ---- the functions of the response side ---- *)
Lemma pg_V_start t : sr_tx_start (V t) = V (sr_tx_start t).
Proof. reflexivity. Qed.
Lemma pg_V_th0 t line : sr_th0 (V t) line = V (sr_th0 t line).
Proof.
  unfold sr_th0, sr_tx_line, sr_line_fix, rs_apply_response_line, sr_tx_start, pg_V.
  cbn [t_response_protocol_number t_response_status_number set].
  destruct (_ =? c_HTP_PROTOCOL_INVALID)%Z; cbn [t_response_protocol_number t_response_status_number set];
    destruct (_ || _); reflexivity.
Qed.
Lemma pg_V_process line t : rs_process_response_header line (V t) = V (rs_process_response_header line t).
Proof.
  unfold rs_process_response_header. change (t_flags (V t)) with (t_flags t). destruct (rs_parse_response_header line (t_flags t)) as [h tf].
  cbn [t_response_headers set pg_V]. cbn.
  destruct (rs_hdr_find (t_response_headers t) (h_name h)) as [i|]; [|reflexivity].
  destruct (flag_has _ _ && _); [reflexivity|].
  destruct (flag_has (h_flags (nth i (t_response_headers t) h)) c_HTP_FIELD_REPEATED); reflexivity.
Qed.
Lemma pg_V_flush hdr t : sr_flush hdr (V t) = V (sr_flush hdr t).
Proof. destruct hdr; [apply pg_V_process|reflexivity]. Qed.
Lemma pg_V_p11 t : sr_p11 (V t) = sr_p11 t.
Proof. reflexivity. Qed.
Lemma pg_V_lstep pend t l : sr_lstep (pend, V t) l = (fst (sr_lstep (pend, t) l), V (snd (sr_lstep (pend, t) l))).
Proof.
  unfold sr_lstep. cbn [fst snd]. rewrite pg_V_p11. f_equal.
  destruct (fst l); [apply pg_V_flush|]. destruct pend as [h|]; [|reflexivity].
  destruct (sr_k2 (sr_p11 t) h (snd l)); [|reflexivity]. change (sr_flag_fold (V t)) with (V (sr_flag_fold t)). apply pg_V_process.
Qed.
Lemma pg_V_lrun : forall ls pend t, sr_lrun ls (pend, V t) = V (sr_lrun ls (pend, t)).
Proof.
  induction ls as [|l ls IH]; intros pend t.
  - unfold sr_lrun. cbn [fold_left fst snd]. apply pg_V_flush.
  - rewrite !sr_lrun_cons, pg_V_lstep. destruct (sr_lstep (pend, t) l) as [pend' t'] eqn:E. cbn [fst snd]. apply IH.
Qed.
Lemma pg_V_hdrs_tx t : sr_hdrs_tx (V t) = V (sr_hdrs_tx t).
Proof.
  unfold sr_hdrs_tx, sr_det_tx. change (t_response_headers (V t)) with (t_response_headers t).
  destruct (rs_hdr_get_c (t_response_headers t) rs_str_content_type) as [hc|];
    destruct (rs_hdr_get_c (t_response_headers t) rs_str_content_length) as [h|]; cbv zeta;
    try destruct (flag_has (h_flags h) c_HTP_FIELD_REPEATED); try destruct (negb (parse_content_length (h_value h) =? 0)%Z); reflexivity.
Qed.
Lemma pg_V_body_add k t : sr_body_add k (V t) = V (sr_body_add k t).
Proof. reflexivity. Qed.
Lemma pg_V_body_add' k t : sr_body_add' k (V t) = V (sr_body_add' k t).
Proof. destruct k; reflexivity. Qed.
Lemma pg_V_tcomplete t : sr_tcomplete (V t) = V (sr_tcomplete t).
Proof. reflexivity. Qed.
Lemma pg_V_after_hdr n t : sr_after_hdr n (V t) = V (sr_after_hdr n t).
Proof. unfold sr_after_hdr. rewrite pg_V_hdrs_tx. destruct n; [apply pg_V_tcomplete|]. rewrite pg_V_body_add', pg_V_body_add. apply pg_V_tcomplete. Qed.
Lemma pg_V_frame_ok t n : sr_frame_ok (V t) n = sr_frame_ok t n.
Proof. reflexivity. Qed.

(* ---- the exchange with the request marked complete ---- *)
Definition pg_Vex (e : pp_ex) : pp_ex := mk_pp_ex (V (px_t0 e)) (px_res e) (px_cuts e) (px_body e).
Lemma pg_Vex_tend e : px_tend (pg_Vex e) = V (px_tend e).
Proof. unfold px_tend. change (px_ls (pg_Vex e)) with (px_ls e). change (px_line0 (pg_Vex e)) with (px_line0 e). cbn [px_t0 pg_Vex]. rewrite pg_V_th0. apply pg_V_lrun. Qed.
Lemma pg_Vex_tpre e : px_tpre (pg_Vex e) = V (px_tpre e).
Proof.
  unfold px_tpre. rewrite pg_Vex_tend. change (px_body (pg_Vex e)) with (px_body e). rewrite pg_V_hdrs_tx.
  destruct (length (px_body e)); [reflexivity|]. rewrite pg_V_body_add', pg_V_body_add. reflexivity.
Qed.
Lemma pg_Vex_tfin e : pp_tfin (pg_Vex e) = V (pp_tfin e).
Proof.
  unfold pp_tfin. cbn [px_t0 px_res px_cuts px_body pg_Vex]. unfold sr_tend. rewrite pg_V_th0, pg_V_lrun. apply pg_V_after_hdr.
Qed.
Lemma pg_Vex_id e : t_request_progress (px_t0 e) = c_HTP_REQUEST_COMPLETE -> pg_Vex e = e.
Proof. intros H. unfold pg_Vex. rewrite (pg_V_id _ H). destruct e; reflexivity. Qed.

(* ---- what the request side reads of the transaction is kept by the response side ---- *)
Definition pg_k3 (t : tx) := (t_request_transfer_coding t, t_request_progress t, t_is_protocol_0_9 t).
Lemma pg_k3_fin_ok t t' : pg_k3 t' = pg_k3 t -> pg_fin_ok t -> pg_fin_ok t'.
Proof. unfold pg_k3, pg_fin_ok. intros E (A & B & C). inversion E. repeat split; congruence. Qed.
Lemma pg_k3_process line t : pg_k3 (rs_process_response_header line t) = pg_k3 t.
Proof.
  unfold rs_process_response_header. destruct (rs_parse_response_header line (t_flags t)) as [h tf].
  cbn [t_response_headers set]. destruct (rs_hdr_find (t_response_headers t) (h_name h)) as [i|]; [|reflexivity].
  destruct (flag_has _ _ && _); [reflexivity|].
  destruct (flag_has (h_flags (nth i (t_response_headers t) h)) c_HTP_FIELD_REPEATED); reflexivity.
Qed.
Lemma pg_k3_flush hdr t : pg_k3 (sr_flush hdr t) = pg_k3 t.
Proof. destruct hdr; [apply pg_k3_process|reflexivity]. Qed.
Lemma pg_k3_lstep st l : pg_k3 (snd (sr_lstep st l)) = pg_k3 (snd st).
Proof.
  unfold sr_lstep. cbn [snd]. destruct (fst l); [apply pg_k3_flush|]. destruct (fst st) as [h|]; [|reflexivity].
  destruct (sr_k2 _ h (snd l)); [|reflexivity]. rewrite pg_k3_process. reflexivity.
Qed.
Lemma pg_k3_lrun : forall ls st, pg_k3 (sr_lrun ls st) = pg_k3 (snd st).
Proof.
  induction ls as [|l ls IH]; intros st.
  - unfold sr_lrun. cbn [fold_left]. apply pg_k3_flush.
  - rewrite sr_lrun_cons, IH. apply pg_k3_lstep.
Qed.
Lemma pg_k3_th0 t line : pg_k3 (sr_th0 t line) = pg_k3 t.
Proof.
  unfold sr_th0, sr_tx_line, sr_line_fix, rs_apply_response_line, sr_tx_start.
  repeat match goal with |- context [if ?b then _ else _] => destruct b end; reflexivity.
Qed.
Lemma pg_k3_hdrs_tx t : pg_k3 (sr_hdrs_tx t) = pg_k3 t.
Proof.
  unfold sr_hdrs_tx, sr_det_tx.
  destruct (rs_hdr_get_c (t_response_headers t) rs_str_content_type) as [hc|];
    destruct (rs_hdr_get_c (t_response_headers t) rs_str_content_length) as [h|]; cbv zeta;
    try destruct (flag_has (h_flags h) c_HTP_FIELD_REPEATED); try destruct (negb (parse_content_length (h_value h) =? 0)%Z); reflexivity.
Qed.
Lemma pg_k3_body_add' k t : pg_k3 (sr_body_add' k t) = pg_k3 t.
Proof. destruct k; reflexivity. Qed.
Lemma pg_k3_tend e : pg_k3 (px_tend e) = pg_k3 (px_t0 e).
Proof. unfold px_tend. rewrite pg_k3_lrun. cbn [snd]. apply pg_k3_th0. Qed.
Lemma pg_k3_tpre e : pg_k3 (px_tpre e) = pg_k3 (px_t0 e).
Proof.
  unfold px_tpre. destruct (length (px_body e)) as [|n].
  - rewrite pg_k3_hdrs_tx. apply pg_k3_tend.
  - change (pg_k3 (sr_body_add 0 (sr_body_add' (S n) (sr_hdrs_tx (px_tend e))))) with (pg_k3 (sr_hdrs_tx (px_tend e))). rewrite pg_k3_hdrs_tx. apply pg_k3_tend.
Qed.
Lemma pg_k3_tfin e : pg_k3 (pp_tfin e) = pg_k3 (px_t0 e).
Proof.
  assert (E : pp_tfin e = sr_tcomplete (px_tpre e)).
  { unfold pp_tfin, px_tpre, sr_after_hdr, px_tend, sr_tend, px_ls, px_line0, px_ps, px_st, px_rp, sr_line0. reflexivity. }
  rewrite E. change (pg_k3 (sr_tcomplete (px_tpre e))) with (pg_k3 (px_tpre e)). apply pg_k3_tpre.
Qed.
