(* Termination of the for(;;) of htp_connp_res_data (MRes.rs_res_loop): every pass that goes round again strictly
   decreases ts_phi = 8 * (out_current_len - out_current_consume_offset) + ts_rank, hence rs_res_fuel is never
   exhausted: more fuel does not change the outcome.
   The response side moves out_current_read_offset BACKWARDS in two places (RES_BODY_CHUNKED_LENGTH on an invalid length,
   RES_FINALIZE un-reading a probed line), so the read offset is no measure; the CONSUME offset is: it never goes back
   (under ts_inv), every pass either advances it or moves down the ladder ts_rank. *)
Require Import Htp.Model.MConnTypes Htp.Model.MTxCommon Htp.Model.MBstr Htp.Model.MResLine Htp.Model.MTxRes Htp.Model.MRes.
Require Import Htp.Proof.PRes.
Require Import Lia.
Local Open Scope Z_scope.

(* ---- the view: everything the measure and the invariant read ---- *)
Definition ts_v (c : connp) :=
  (k_data (c_out c), k_len (c_out c), k_read (c_out c), k_consume (c_out c), k_buf (c_out c), c_out_state c, c_out_status c).

Lemma tsv_tx_put c i t : ts_v (tx_put c i t) = ts_v c.
Proof. unfold tx_put. brk; reflexivity. Qed.
Lemma tsv_tx_upd c i f : ts_v (tx_upd c i f) = ts_v c.
Proof. unfold tx_upd. brk; try apply tsv_tx_put; reflexivity. Qed.
Lemma tsv_otx f c : ts_v (rs_otx f c) = ts_v c.
Proof. unfold rs_otx. brk; try apply tsv_tx_upd; reflexivity. Qed.
Lemma tsv_destroy_inc c i : ts_v (tx_destroy_incomplete c i) = ts_v c.
Proof. unfold tx_destroy_incomplete. brk; reflexivity. Qed.
Lemma tsv_destroy c i : ts_v (tx_destroy c i) = ts_v c.
Proof. unfold tx_destroy. brk; try apply tsv_destroy_inc; reflexivity. Qed.
Lemma tsv_run_hook_ex cb h i d l s c : ts_v (snd (run_hook_ex cb h i d l s c)) = ts_v c.
Proof. unfold run_hook_ex. brk; cbn [snd]; rewrite ?tsv_tx_upd, ?tsv_destroy; reflexivity. Qed.

Section Frame.
Variable cb : cb_oracle.
Variable g : cfg.

Lemma tsv_run_tx_hooks k h i d l c : ts_v (run_tx_hooks k h i d l c) = ts_v c.
Proof. revert c. induction k; intros c; cbn [run_tx_hooks]; [reflexivity|]. rewrite IHk. reflexivity. Qed.

Lemma tsv_res_run_hook_body_data i d n c : ts_v (snd (res_run_hook_body_data cb i d n c)) = ts_v c.
Proof.
  unfold res_run_hook_body_data, run_data_hook. brk; cbn [snd]; try reflexivity.
  all: rewrite tsv_run_hook_ex, tsv_run_tx_hooks; reflexivity.
Qed.
Lemma tsv_process_body_ex i d n c : ts_v (snd (tx_res_process_body_data_ex cb i d n c)) = ts_v c.
Proof.
  unfold tx_res_process_body_data_ex. destruct (_ =? _).
  - match goal with |- context [res_run_hook_body_data cb ?a ?b ?x ?y] =>
      pose proof (tsv_res_run_hook_body_data a b x y) as H2; destruct (res_run_hook_body_data cb a b x y) as [rc c1] end.
    cbn [snd] in *. rewrite !tsv_tx_upd in H2. destruct rc; cbn [snd]; assumption.
  - cbn [snd]. apply tsv_tx_upd.
Qed.
Lemma tsv_receiver_send l c : ts_v (snd (res_receiver_send_data cb l c)) = ts_v c.
Proof.
  unfold res_receiver_send_data, run_data_hook.
  destruct (k_receiver_hook (c_out c)); [|reflexivity].
  match goal with |- context [run_hook_ex cb ?a ?b ?x ?y ?z ?w] =>
    pose proof (tsv_run_hook_ex cb a b x y z w) as H2; destruct (run_hook_ex cb a b x y z w) as [rc c1] end.
  cbn [snd] in *.
  assert (H3 : ts_v c1 = ts_v c) by (rewrite H2; brk; reflexivity).
  destruct rc; cbn [snd]; assumption.
Qed.
Lemma tsv_receiver_clear c : ts_v (snd (res_receiver_finalize_clear cb c)) = ts_v c.
Proof.
  unfold res_receiver_finalize_clear. destruct (k_receiver_hook (c_out c)); [|reflexivity].
  pose proof (tsv_receiver_send true c) as H2. destruct (res_receiver_send_data cb true c) as [rc c1].
  cbn [snd] in *. rewrite <- H2. reflexivity.
Qed.
Lemma tsv_receiver_set h c : ts_v (snd (res_receiver_set cb h c)) = ts_v c.
Proof.
  unfold res_receiver_set. pose proof (tsv_receiver_clear c) as H2.
  destruct (res_receiver_finalize_clear cb c) as [rc c1]. cbn [snd] in *. rewrite <- H2. reflexivity.
Qed.
Lemma tsv_tx_finalize i c : ts_v (snd (tx_finalize cb g i c)) = ts_v c.
Proof.
  unfold tx_finalize. destruct (tx_slot c i); [|reflexivity].
  destruct (negb _); [reflexivity|].
  match goal with |- context [run_hook_ex cb ?a ?b ?x ?y ?z ?w] =>
    pose proof (tsv_run_hook_ex cb a b x y z w) as H2; destruct (run_hook_ex cb a b x y z w) as [rc c1] end.
  cbn [snd] in *. destruct rc; try assumption.
  brk; cbn [snd]; rewrite ?tsv_destroy; assumption.
Qed.

(* request-side pieces reached from RES_IDLE *)
Lemma tsv_req_run_hook_body_data d l c : ts_v (snd (req_run_hook_body_data cb d l c)) = ts_v c.
Proof.
  unfold req_run_hook_body_data, run_data_hook. brk; cbn [snd]; rewrite ?tsv_run_hook_ex, ?tsv_run_tx_hooks; reflexivity.
Qed.
Lemma tsv_tx_req_process_body i d n c : ts_v (snd (tx_req_process_body_data_ex cb i d n c)) = ts_v c.
Proof.
  unfold tx_req_process_body_data_ex.
  match goal with |- context [req_run_hook_body_data cb ?a ?b ?x] =>
    pose proof (tsv_req_run_hook_body_data a b x) as H; destruct (req_run_hook_body_data cb a b x) as [rc c1] end.
  cbn [snd] in H. rewrite tsv_tx_upd in H. destruct rc; cbn [snd]; assumption.
Qed.
Lemma tsv_req_receiver_send l c : ts_v (snd (req_receiver_send_data cb l c)) = ts_v c.
Proof.
  unfold req_receiver_send_data, run_data_hook. destruct (k_receiver_hook (c_in c)); [|reflexivity].
  match goal with |- context [run_hook_ex cb ?a ?b ?x ?y ?z ?w] =>
    pose proof (tsv_run_hook_ex cb a b x y z w) as H2; destruct (run_hook_ex cb a b x y z w) as [rc c1] end.
  cbn [snd] in *.
  assert (H3 : ts_v c1 = ts_v c) by (rewrite H2; brk; reflexivity).
  destruct rc; cbn [snd]; assumption.
Qed.
Lemma tsv_req_receiver_clear c : ts_v (snd (req_receiver_finalize_clear cb c)) = ts_v c.
Proof.
  unfold req_receiver_finalize_clear. destruct (k_receiver_hook (c_in c)); [|reflexivity].
  pose proof (tsv_req_receiver_send true c) as H. destruct (req_receiver_send_data cb true c) as [rc c1]. cbn [snd] in *. assumption.
Qed.
Lemma tsv_req_complete_partial i c : ts_v (snd (tx_state_request_complete_partial cb i c)) = ts_v c.
Proof.
  unfold tx_state_request_complete_partial, run_hook.
  assert (H0 : forall x, ts_v (snd (if tx_req_has_body (tx_get c i) then tx_req_process_body_data_ex cb i None 0 c else (ST_OK, x))) =
                         ts_v (if tx_req_has_body (tx_get c i) then c else x)).
  { intros x. destruct (tx_req_has_body _); [apply tsv_tx_req_process_body | reflexivity]. }
  specialize (H0 c). destruct (if tx_req_has_body (tx_get c i) then _ else _) as [rc c1]. cbn [snd] in H0.
  assert (H1 : ts_v c1 = ts_v c) by (rewrite H0; destruct (tx_req_has_body _); reflexivity).
  destruct rc; cbn [snd]; try assumption.
  match goal with |- context [run_hook_ex cb ?a ?b ?x ?y ?z ?w] =>
    pose proof (tsv_run_hook_ex cb a b x y z w) as H2; destruct (run_hook_ex cb a b x y z w) as [rc2 c2] end.
  cbn [snd] in H2. rewrite tsv_tx_upd in H2.
  destruct rc2; cbn [snd]; try congruence.
  rewrite tsv_req_receiver_clear. congruence.
Qed.
Lemma tsv_req_complete i c : ts_v (snd (tx_state_request_complete cb g i c)) = ts_v c.
Proof.
  unfold tx_state_request_complete. destruct (tx_slot c i); [|reflexivity].
  assert (H0 : ts_v (snd (if negb (t_request_progress t =? c_HTP_REQUEST_COMPLETE) then tx_state_request_complete_partial cb i c else (ST_OK, c))) = ts_v c).
  { destruct (negb _); [apply tsv_req_complete_partial | reflexivity]. }
  destruct (if negb _ then _ else _) as [rc c1]. cbn [snd] in H0.
  destruct rc; cbn [snd]; try assumption.
  match goal with |- context [tx_finalize cb g i ?x] =>
    pose proof (tsv_tx_finalize i x) as H2; destruct (tx_finalize cb g i x) as [rc2 c2] end.
  cbn [snd] in *. transitivity (ts_v c2); [reflexivity|]. rewrite H2. brk; cbn; assumption.
Qed.
Lemma tsv_tx_create c : ts_v (snd (connp_tx_create g c)) = ts_v c.
Proof. unfold connp_tx_create. brk; reflexivity. Qed.

(* response-side transaction state functions *)
Lemma tsv_response_line i c : ts_v (snd (tx_state_response_line cb i c)) = ts_v c.
Proof. unfold tx_state_response_line, run_hook. rewrite tsv_run_hook_ex, tsv_tx_upd. reflexivity. Qed.
Lemma tsv_response_headers i c : ts_v (snd (tx_state_response_headers cb i c)) = ts_v c.
Proof.
  unfold tx_state_response_headers, run_hook.
  match goal with |- context [res_receiver_finalize_clear cb ?x] =>
    pose proof (tsv_receiver_clear x) as H2; destruct (res_receiver_finalize_clear cb x) as [rc c1] end.
  cbn [snd] in *. rewrite tsv_tx_upd in H2.
  destruct rc; try assumption. rewrite tsv_run_hook_ex. assumption.
Qed.

End Frame.

(* ---- projections ---- *)
Definition ts_ln (c : connp) : nat := k_len (c_out c).
Definition ts_rd (c : connp) : nat := k_read (c_out c).
Definition ts_cs (c : connp) : nat := k_consume (c_out c).
Definition ts_bl (c : connp) : nat := match k_buf (c_out c) with Some b => length b | None => 0%nat end.

Lemma tsv_proj a b : ts_v a = ts_v b ->
  k_data (c_out a) = k_data (c_out b) /\ ts_ln a = ts_ln b /\ ts_rd a = ts_rd b /\ ts_cs a = ts_cs b /\
  k_buf (c_out a) = k_buf (c_out b) /\ c_out_state a = c_out_state b /\ c_out_status a = c_out_status b.
Proof. unfold ts_v, ts_ln, ts_rd, ts_cs. intros H. injection H as H1 H2 H3 H4 H5 H6 H7. repeat split; assumption. Qed.
(* the part the byte macros and the buffer functions keep *)
Definition ts_k (c : connp) := (k_data (c_out c), k_len (c_out c), c_out_state c, c_out_status c).
Lemma tsv_k a b : ts_v a = ts_v b -> ts_k a = ts_k b.
Proof. unfold ts_v, ts_k. intros H. injection H as H1 H2 H3 H4 H5 H6 H7. congruence. Qed.

Section Ops.
Variable cb : cb_oracle.
Variable g : cfg.

Lemma tsv_load_next c : ts_v (rs_load_next c) = ts_v c.
Proof. unfold rs_load_next. brk; reflexivity. Qed.
Lemma tsv_peek c : ts_v (rs_peek_next c) = ts_v c.
Proof. unfold rs_peek_next. destruct (rs_has_byte c); [apply tsv_load_next|reflexivity]. Qed.
Lemma ts_copy_some c c1 : rs_copy_byte c = Some c1 ->
  ts_k c1 = ts_k c /\ ts_rd c1 = S (ts_rd c) /\ ts_cs c1 = ts_cs c /\ k_buf (c_out c1) = k_buf (c_out c) /\ (ts_rd c < ts_ln c)%nat.
Proof.
  unfold rs_copy_byte, rs_has_byte. destruct (_ <? _)%nat eqn:E; [|discriminate]. apply Nat.ltb_lt in E.
  intros H. injection H as <-. pose proof (tsv_load_next c) as V. apply tsv_proj in V. destruct V as (V1 & V2 & V3 & V4 & V5 & V6 & V7).
  unfold ts_k, ts_ln, ts_rd, ts_cs in *. cbn. repeat split; first [congruence|exact E].
Qed.
Lemma ts_copy_none c : rs_copy_byte c = None -> (ts_ln c <= ts_rd c)%nat.
Proof. unfold rs_copy_byte, rs_has_byte. destruct (_ <? _)%nat eqn:E; [discriminate|]. intros _. apply Nat.ltb_ge in E. exact E. Qed.
Lemma ts_next_some c c1 : rs_next_byte c = Some c1 ->
  ts_k c1 = ts_k c /\ ts_rd c1 = S (ts_rd c) /\ ts_cs c1 = S (ts_cs c) /\ k_buf (c_out c1) = k_buf (c_out c) /\ (ts_rd c < ts_ln c)%nat.
Proof.
  unfold rs_next_byte, rs_has_byte. destruct (_ <? _)%nat eqn:E; [|discriminate]. apply Nat.ltb_lt in E.
  intros H. injection H as <-. pose proof (tsv_load_next c) as V. apply tsv_proj in V. destruct V as (V1 & V2 & V3 & V4 & V5 & V6 & V7).
  unfold ts_k, ts_ln, ts_rd, ts_cs in *. cbn. repeat split; first [congruence|exact E].
Qed.
Lemma ts_copy_or_fault c :
  let c' := match rs_copy_byte c with Some c1 => c1 | None => rs_fault c end in
  ts_k c' = ts_k c /\ (ts_rd c <= ts_rd c')%nat /\ (ts_rd c <= ts_ln c -> ts_rd c' <= ts_ln c)%nat.
Proof.
  cbv zeta. destruct (rs_copy_byte c) as [c1|] eqn:E.
  - destruct (ts_copy_some _ _ E) as (A & B & _ & _ & D). repeat split; [exact A|lia|lia].
  - repeat split; [reflexivity|intros H; exact H].
Qed.

(* htp_connp_res_buffer / htp_connp_res_consolidate_data *)
Lemma ts_sub_len d a b : (length (rs_sub d a b) <= b - a)%nat.
Proof. unfold rs_sub. rewrite firstn_length. lia. Qed.

Lemma ts_consolidate c data c2 : rs_consolidate g c = (Some data, c2) ->
  ts_k c2 = ts_k c /\ ts_rd c2 = ts_rd c /\
  ((k_buf (c_out c) = None /\ k_buf (c_out c2) = None /\ ts_cs c2 = ts_cs c /\ (length (rs_dbytes data) <= ts_rd c - ts_cs c)%nat) \/
   (exists b, k_buf (c_out c) = Some b /\
      ((k_buf (c_out c2) = Some b /\ ts_cs c2 = ts_cs c /\ rs_dbytes data = b) \/
       (exists chunk, k_buf (c_out c2) = Some (b ++ chunk) /\ ts_cs c2 = ts_rd c /\ rs_dbytes data = b ++ chunk /\
                      (length chunk <= ts_rd c - ts_cs c)%nat)))).
Proof.
  unfold rs_consolidate. destruct (k_buf (c_out c)) as [b|] eqn:Eb.
  - unfold rs_res_buffer. destruct (k_data (c_out c)) as [d|] eqn:Ed.
    + set (c1 := if (k_read (c_out c) <? k_consume (c_out c))%nat then rs_fault c else c).
      assert (V1 : ts_v c1 = ts_v c) by (subst c1; destruct (_ <? _)%nat; reflexivity).
      assert (T1 : c_out_tx c1 = c_out_tx c) by (subst c1; destruct (_ <? _)%nat; reflexivity).
      set (c2' := match c_out_tx c1 with None => rs_fault c1 | Some _ => c1 end).
      assert (V2 : ts_v c2' = ts_v c) by (subst c2'; destruct (c_out_tx c1); exact V1).
      clearbody c2' c1. rewrite Eb.
      destruct (g_field_limit_hard g <? _)%nat; [discriminate|].
      intros H. injection H as <- <-. apply tsv_proj in V2. destruct V2 as (A1 & A2 & A3 & A4 & A5 & A6 & A7).
      unfold ts_k, ts_ln, ts_rd, ts_cs in *. cbn. split; [congruence|]. split; [congruence|]. right. exists b. split; [reflexivity|]. right.
      exists (rs_sub d (k_consume (c_out c)) (k_read (c_out c))). repeat split; try congruence. apply ts_sub_len.
    + intros H. injection H as <- <-. split; [reflexivity|]. split; [reflexivity|]. right. exists b. split; [reflexivity|]. left.
      rewrite Eb. repeat split.
  - destruct (k_data (c_out c)) as [d|] eqn:Ed.
    + intros H. injection H as <- <-.
      assert (V : ts_v (if (k_read (c_out c) <? k_consume (c_out c))%nat then rs_fault c else c) = ts_v c) by (destruct (_ <? _)%nat; reflexivity).
      apply tsv_proj in V. destruct V as (A1 & A2 & A3 & A4 & A5 & A6 & A7).
      unfold ts_k, ts_ln, ts_rd, ts_cs in *. split; [congruence|]. split; [congruence|]. left.
      repeat split; try congruence. cbn. apply ts_sub_len.
    + intros H. injection H as <- <-.
      assert (V : ts_v (if (0 <? k_consume (c_out c))%nat || negb (k_read (c_out c) =? k_consume (c_out c))%nat then rs_fault c else c) = ts_v c)
        by (destruct (_ || _); reflexivity).
      apply tsv_proj in V. destruct V as (A1 & A2 & A3 & A4 & A5 & A6 & A7).
      unfold ts_k, ts_ln, ts_rd, ts_cs in *. split; [congruence|]. split; [congruence|]. left.
      repeat split; try congruence. cbn. lia.
Qed.
(* the weak form: nothing but the consume offset and the buffer moves, and the consume offset moves up to the read offset at most *)
Lemma ts_consolidate_w c data c2 : rs_consolidate g c = (Some data, c2) ->
  ts_k c2 = ts_k c /\ ts_rd c2 = ts_rd c /\ (ts_cs c2 = ts_cs c \/ ts_cs c2 = ts_rd c).
Proof.
  intros H. destruct (ts_consolidate _ _ _ H) as (A & B & [(_ & _ & C & _)|(b & _ & [(_ & C & _)|(ch & _ & C & _)])]); repeat split; auto.
Qed.

End Ops.

(* ---- measure and invariant ---- *)
Definition ts_rank (c : connp) : nat :=
  if rs_closed c then
    match c_out_state c with
    | RES_IDLE => 0
    | RES_FINALIZE => match k_buf (c_out c) with None => if (ts_cs c =? ts_rd c)%nat then 1 else 2 | Some _ => 2 end
    | RES_HEADERS | RES_BODY_IDENTITY_CL_KNOWN | RES_BODY_IDENTITY_STREAM_CLOSE => 3
    | RES_LINE => 4
    | RES_BODY_DETERMINE => 5
    | _ => 0
    end%nat
  else
    match c_out_state c with
    | RES_BODY_IDENTITY_STREAM_CLOSE | RES_BODY_IDENTITY_CL_KNOWN | RES_BODY_CHUNKED_DATA | RES_BODY_CHUNKED_DATA_END => 0
    | RES_LINE | RES_HEADERS | RES_BODY_CHUNKED_LENGTH => 1
    | RES_IDLE => 2
    | RES_FINALIZE => 3
    | RES_BODY_DETERMINE => 5
    end%nat.
Definition ts_phi (c : connp) : nat := (8 * (ts_ln c - ts_cs c) + ts_rank c)%nat.

(* on an open stream, outside RES_BODY_IDENTITY_STREAM_CLOSE (which consumes everything and returns): offsets ordered; a
   non-empty out_buf in RES_FINALIZE was carried over from the previous chunk (nothing of this one consumed yet);
   RES_BODY_DETERMINE / RES_BODY_IDENTITY_CL_KNOWN are entered with an empty out_buf *)
Definition ts_open_ok (c : connp) : Prop :=
  c_out_state c <> RES_BODY_IDENTITY_STREAM_CLOSE ->
  (ts_rd c <= ts_ln c)%nat /\ (ts_cs c <= ts_rd c)%nat /\
  (c_out_state c = RES_FINALIZE -> ts_bl c = 0%nat \/ ts_cs c = 0%nat) /\
  (c_out_state c = RES_BODY_DETERMINE \/ c_out_state c = RES_BODY_IDENTITY_CL_KNOWN -> ts_bl c = 0%nat).
(* a closed stream is only ever fed the empty chunk (htp_connp_close) *)
Definition ts_inv (c : connp) : Prop :=
  (rs_closed c = true -> ts_ln c = 0%nat) /\ (rs_closed c = false -> ts_open_ok c).

(* what an OK pass of a state function achieves *)
Definition ts_dec (c c' : connp) : Prop :=
  c_out_status c' = c_HTP_STREAM_TUNNEL \/
  (c_out_status c' = c_out_status c /\ ts_ln c' = ts_ln c /\ ts_inv c' /\ (ts_phi c' < ts_phi c)%nat).

(* a parser whose buffer has just been cleared *)
Lemma ts_open_ok_cleared c : (ts_rd c <= ts_ln c)%nat -> ts_cs c = ts_rd c -> k_buf (c_out c) = None -> ts_open_ok c.
Proof.
  intros H1 H2 H3 _. unfold ts_bl. rewrite H3. split; [exact H1|]. split; [lia|]. split; [intros _; left; reflexivity|intros _; reflexivity].
Qed.

Lemma ts_rank_le c : (ts_rank c <= 5)%nat.
Proof. unfold ts_rank. brk; lia. Qed.

Lemma ts_closed_eq a b : c_out_status a = c_out_status b -> rs_closed a = rs_closed b.
Proof. unfold rs_closed. intros ->. reflexivity. Qed.

Lemma ts_dec_intro c c' :
  c_out_status c' = c_out_status c -> ts_ln c' = ts_ln c -> ts_inv c ->
  (rs_closed c = true -> (ts_rank c' < ts_rank c)%nat) ->
  (rs_closed c = false ->
     ts_open_ok c' /\ (((ts_cs c < ts_cs c')%nat /\ (ts_cs c' <= ts_ln c)%nat) \/ ((ts_cs c <= ts_cs c')%nat /\ (ts_rank c' < ts_rank c)%nat))) ->
  ts_dec c c'.
Proof.
  intros Hs Hl [I1 I2] Hc Ho. right. split; [exact Hs|]. split; [exact Hl|].
  pose proof (ts_closed_eq _ _ Hs) as Hcl. pose proof (ts_rank_le c') as Hr. unfold ts_inv, ts_phi. rewrite Hcl, Hl.
  destruct (rs_closed c) eqn:E.
  - specialize (I1 eq_refl). specialize (Hc eq_refl). split; [split; [intros _; exact I1|discriminate]|]. rewrite I1. cbn. lia.
  - destruct (Ho eq_refl) as [O1 O2]. split; [split; [discriminate|intros _; exact O1]|]. lia.
Qed.

(* ts_w: the view without the state *)
Definition ts_w (c : connp) :=
  (k_len (c_out c), k_read (c_out c), k_consume (c_out c), k_buf (c_out c), c_out_status c).
Lemma tsv_w a b : ts_v a = ts_v b -> ts_w a = ts_w b /\ c_out_state a = c_out_state b.
Proof. unfold ts_v, ts_w. intros H. injection H as H1 H2 H3 H4 H5 H6 H7. split; congruence. Qed.
Lemma tsw_proj a b : ts_w a = ts_w b ->
  ts_ln a = ts_ln b /\ ts_rd a = ts_rd b /\ ts_cs a = ts_cs b /\ k_buf (c_out a) = k_buf (c_out b) /\ ts_bl a = ts_bl b /\
  c_out_status a = c_out_status b.
Proof. unfold ts_w, ts_ln, ts_rd, ts_cs, ts_bl. intros H. injection H as H1 H2 H3 H4 H5. rewrite H4. repeat split; assumption. Qed.

(* the rank of a parser whose state and closedness are known *)
Ltac ts_rank_tac :=
  unfold ts_rank;
  repeat match goal with H : rs_closed _ = _ |- _ => rewrite H end;
  repeat match goal with H : c_out_state _ = _ |- _ => rewrite H end;
  repeat match goal with H : k_buf (c_out _) = _ |- _ => rewrite H end;
  repeat match goal with H : (_ =? _)%nat = _ |- _ => rewrite H end;
  brk; lia.

Lemma status_otx f c : c_out_status (rs_otx f c) = c_out_status c.
Proof. pose proof (tsv_otx f c) as H. apply tsv_proj in H. tauto. Qed.
Lemma tsw_otx f c : ts_w (rs_otx f c) = ts_w c.
Proof. pose proof (tsv_otx f c) as H. apply tsv_w in H. tauto. Qed.
#[local] Hint Rewrite c_out_otx state_otx status_otx : tsdb.
(* projections of a parser built from record updates and rs_otx *)
Ltac tsr :=
  repeat (progress (cbn [fst snd];
                    unfold ts_ln, ts_rd, ts_cs, ts_bl, rs_clear_buffer, rs_set_state, rs_set_out, rs_set_header, rs_fault,
                           rs_flag_invalid_folding, rs_process_header, rs_advance, rs_set_out_status in *;
                    cbn; autorewrite with tsdb)).

Section States.
Variable cb : cb_oracle.
Variable g : cfg.

(* htp_tx_state_response_complete_ex: OK => RES_IDLE, nothing else of the view moved *)
Lemma ts_response_complete c c' : rs_response_complete cb g c = (ST_OK, c') -> ts_w c' = ts_w c /\ c_out_state c' = RES_IDLE.
Proof.
  unfold rs_response_complete. destruct (c_out_tx c) as [i|]; [|discriminate].
  unfold tx_state_response_complete_ex, run_hook.
  set (first := if negb (t_response_progress (tx_get c i) =? c_HTP_RESPONSE_COMPLETE) then _ else (ST_OK, c)).
  assert (H0 : ts_v (snd first) = ts_v c).
  { subst first. destruct (negb _); [|reflexivity].
    match goal with |- context [run_hook_ex cb ?a ?b ?x ?y ?z ?w] =>
      pose proof (tsv_run_hook_ex cb a b x y z w) as H2; destruct (run_hook_ex cb a b x y z w) as [rc c1] end.
    cbn [snd] in *.
    assert (H3 : ts_v c1 = ts_v c).
    { rewrite H2. destruct (negb _); [rewrite tsv_process_body_ex|]; apply tsv_tx_upd. }
    destruct rc; try assumption. rewrite tsv_receiver_clear. exact H3. }
  destruct first as [rc c1]. cbn [snd] in H0. destruct rc; try discriminate.
  cbv zeta.
  assert (W : forall ret cx, ts_v cx = ts_v c1 ->
            match tx_finalize cb g i cx with
            | (ST_OK, c2) => (ret, c2 <| c_out_tx := None |> <| c_out_state := RES_IDLE |>)
            | r => r end = (ST_OK, c') -> ts_w c' = ts_w c /\ c_out_state c' = RES_IDLE).
  { intros ret cx Vx.
    pose proof (tsv_tx_finalize cb g i cx) as F. destruct (tx_finalize cb g i cx) as [rc2 c2]. cbn [snd] in F.
    destruct rc2; try discriminate. intros H. injection H as _ <-.
    assert (V : ts_v c2 = ts_v c) by congruence. apply tsv_w in V. destruct V as [V _]. split; [exact V|reflexivity]. }
  destruct (negb false && _)%bool; [apply W; reflexivity|]. destruct (negb false && _)%bool; [apply W; reflexivity|].
  apply W; reflexivity.
Qed.

(* htp_tx_state_response_start: OK => RES_LINE or RES_BODY_IDENTITY_STREAM_CLOSE *)
Lemma ts_response_start i c c' : tx_state_response_start cb i c = (ST_OK, c') ->
  ts_w c' = ts_w c /\ (c_out_state c' = RES_LINE \/ c_out_state c' = RES_BODY_IDENTITY_STREAM_CLOSE).
Proof.
  unfold tx_state_response_start, run_hook.
  match goal with |- context [run_hook_ex cb ?a ?b ?x ?y ?z ?w] =>
    pose proof (tsv_run_hook_ex cb a b x y z w) as H2; destruct (run_hook_ex cb a b x y z w) as [rc c1] end.
  cbn [snd] in H2. destruct rc; try discriminate.
  assert (W : ts_w c1 = ts_w c) by (apply tsv_w in H2; destruct H2 as [H2 _]; rewrite H2; reflexivity).
  destruct (t_is_protocol_0_9 _); intros H; injection H as <-.
  - match goal with |- context [tx_upd c1 i ?f] => pose proof (tsv_tx_upd c1 i f) as U; apply tsv_w in U; destruct U as [U _] end.
    split; [|right; reflexivity]. rewrite <- W, <- U. reflexivity.
  - match goal with |- context [tx_upd ?x i ?f] => pose proof (tsv_tx_upd x i f) as U; apply tsv_w in U; destruct U as [U Us] end.
    split; [rewrite U, <- W; reflexivity|left; rewrite Us; reflexivity].
Qed.

(* htp_connp_RES_IDLE *)
Lemma ts_IDLE_raw c c' : rs_RES_IDLE cb g c = (ST_OK, c') ->
  ts_w c' = ts_w c /\ (c_out_state c' = RES_LINE \/ c_out_state c' = RES_BODY_IDENTITY_STREAM_CLOSE) /\ (ts_rd c < ts_ln c)%nat.
Proof.
  unfold rs_RES_IDLE. destruct (rs_has_byte c) eqn:Hb; [|discriminate]. cbn [negb].
  unfold rs_has_byte in Hb. apply Nat.ltb_lt in Hb.
  match goal with |- context [let '(ok, c0) := ?E in _] => set (p := E) end.
  assert (HP : ts_w (snd p) = ts_w c).
  { subst p. destruct (match nth_error (c_txs c) (c_out_next_tx_index c) with Some (Some _) => true | _ => false end); [reflexivity|].
    set (c1 := if req_state_eqb _ REQ_FINALIZE then _ else _).
    assert (G1 : ts_v c1 = ts_v c).
    { subst c1. destruct (req_state_eqb _ _); [|reflexivity]. cbn. destruct (c_in_tx c); [|reflexivity].
      rewrite tsv_req_complete. reflexivity. }
    pose proof (tsv_tx_create g c1) as G2. destruct (connp_tx_create g c1) as [[id|] c2]; cbn [snd] in *.
    - apply tsv_w. transitivity (ts_v c2); [|congruence].
      match goal with |- context [tx_upd ?x id ?f] => pose proof (tsv_tx_upd x id f) as U end.
      transitivity (ts_v (tx_upd (c2 <| c_out_tx := Some id |>) id
         (fun t => t <| t_parsed_uri := Some (mkpuri None None None None None (Some rs_str_uri_not_seen) None None (-1)) |> <| t_request_uri := Some rs_str_uri_not_seen |>)));
        [reflexivity|]. rewrite U. reflexivity.
    - apply tsv_w. congruence. }
  destruct p as [ok c1]. cbn [snd] in HP. destruct ok; [|discriminate].
  intros H. destruct (ts_response_start _ _ _ H) as [W S]. split; [congruence|]. split; [exact S|exact Hb].
Qed.

Lemma ts_IDLE c c' : ts_inv c -> c_out_state c = RES_IDLE -> rs_RES_IDLE cb g c = (ST_OK, c') -> ts_dec c c'.
Proof.
  intros Hi Hs H. destruct (ts_IDLE_raw _ _ H) as (W & S & Hb). apply tsw_proj in W. destruct W as (W1 & W2 & W3 & W4 & W5 & W6).
  apply ts_dec_intro; try assumption.
  - intros Hc. destruct Hi as [I1 _]. specialize (I1 Hc). lia.
  - intros Hc. pose proof (ts_closed_eq _ _ W6) as Hc'. rewrite Hc in Hc'. destruct Hi as [_ I2]. specialize (I2 Hc).
    destruct (I2 ltac:(rewrite Hs; discriminate)) as (A & B & _). split.
    + intros Hn. destruct S as [S|S]; [|contradiction]. rewrite W1, W2, W3, S. repeat split; try assumption; try discriminate.
      intros [X|X]; discriminate.
    + right. split; [lia|]. destruct S as [S|S]; ts_rank_tac.
Qed.

(* htp_connp_RES_LINE: the part after a complete line *)
Lemma ts_process_body d n c rc c' : rs_process_body cb d n c = (rc, c') -> ts_v c' = ts_v c.
Proof.
  unfold rs_process_body. destruct (c_out_tx c) as [i|].
  - intros H. pose proof (tsv_process_body_ex cb i d n c) as V. rewrite H in V. exact V.
  - intros H. injection H as <- <-. reflexivity.
Qed.

Lemma ts_line_complete c c' : rs_line_complete cb g c = (ST_OK, c') ->
  c_out_status c' = c_out_status c /\ ts_ln c' = ts_ln c /\ ts_rd c' = ts_rd c /\ ts_cs c' = ts_rd c' /\ k_buf (c_out c') = None /\
  (c_out_state c' = RES_FINALIZE \/ c_out_state c' = RES_HEADERS \/
   (c_out_state c' = c_out_state c /\ (rs_closed c = false \/ (ts_rd c < ts_ln c)%nat))).
Proof.
  unfold rs_line_complete. destruct (rs_consolidate g c) as [[data|] c2] eqn:Ec; [|discriminate].
  destruct (ts_consolidate_w g _ _ _ Ec) as (K & R & _). unfold ts_k in K. injection K as K1 K2 K3 K4.
  assert (Kc : rs_closed c2 = rs_closed c) by (unfold rs_closed; rewrite K4; reflexivity).
  destruct (rs_is_line_ignorable _ _).
  { intros H. injection H as <-. destruct (rs_closed c2) eqn:Ecl; tsr; repeat split; try congruence.
    - left. reflexivity.
    - right. right. split; [congruence|left; congruence]. }
  match goal with |- context [rs_otx ?f c2] => pose proof (tsv_otx f c2) as V3; remember (rs_otx f c2) as c3 eqn:E3; clear E3 end.
  apply tsv_proj in V3. destruct V3 as (A1 & A2 & A3 & A4 & A5 & A6 & A7). unfold ts_ln, ts_rd, ts_cs in A2, A3, A4, R.
  destruct (rs_chomp (rs_dbytes data)) as [dc chomp_result].
  destruct (rs_treat_response_line_as_body _).
  - set (c4 := if (S (k_read (c_out c3)) <? k_len (c_out c3))%nat then _ else c3).
    assert (V4 : ts_v c4 = ts_v c3) by (subst c4; brk; reflexivity).
    apply tsv_proj in V4. destruct V4 as (B1 & B2 & B3 & B4 & B5 & B6 & B7). unfold ts_ln, ts_rd, ts_cs in B2, B3, B4. clearbody c4.
    destruct (_ && _)%bool eqn:Esk.
    { intros H. injection H as <-. apply andb_prop in Esk. destruct Esk as [Esk _]. apply Nat.ltb_lt in Esk.
      tsr. repeat split; try congruence. right; right. split; [congruence|right; lia]. }
    match goal with |- context [rs_process_body cb ?d ?n ?x] => destruct (rs_process_body cb d n x) as [rc c7] eqn:Ep end.
    apply ts_process_body in Ep. apply tsv_proj in Ep. destruct Ep as (P1 & P2 & P3 & P4 & P5 & P6 & P7). revert P1 P2 P3 P4 P5 P6 P7.
    tsr. intros P1 P2 P3 P4 P5 P6 P7. destruct rc; try discriminate.
    destruct (k_len (c_out c7) <=? k_read (c_out c7))%nat eqn:El; intros H; injection H as <-; tsr; repeat split; try congruence.
    + left. reflexivity.
    + right; right. split; [congruence|right]. apply Nat.leb_gt in El. lia.
  - match goal with |- context [tx_state_response_line cb ?i ?x] =>
      pose proof (tsv_response_line cb i x) as V; destruct (tx_state_response_line cb i x) as [rc c7] end.
    cbn [snd] in V. apply tsv_proj in V. destruct V as (P1 & P2 & P3 & P4 & P5 & P6 & P7). revert P1 P2 P3 P4 P5 P6 P7.
    tsr. intros P1 P2 P3 P4 P5 P6 P7. destruct rc; try discriminate.
    intros H. injection H as <-. tsr. repeat split; try congruence. right. left. reflexivity.
Qed.

(* htp_connp_RES_LINE *)
Definition ts_line_res (c c' : connp) : Prop :=
  c_out_status c' = c_out_status c /\ ts_ln c' = ts_ln c /\ ts_cs c' = ts_rd c' /\ k_buf (c_out c') = None /\
  (ts_rd c <= ts_rd c')%nat /\ ((ts_rd c <= ts_ln c)%nat -> (ts_rd c' <= ts_ln c)%nat) /\
  (c_out_state c' = RES_FINALIZE \/ c_out_state c' = RES_HEADERS \/
   (c_out_state c' = c_out_state c /\ (rs_closed c = false \/ (ts_rd c' < ts_ln c)%nat))) /\
  (rs_closed c = false -> (ts_rd c < ts_rd c')%nat).
Lemma ts_line_loop fuel : forall c c', rs_line_loop cb g fuel c = (ST_OK, c') -> ts_line_res c c'.
Proof.
  induction fuel as [|f IH]; intros c c' H; cbn [rs_line_loop] in H; [discriminate|].
  set (step := if negb (rs_closed c) then rs_copy_byte c else Some c) in H.
  destruct step as [c1|] eqn:Es; [|discriminate].
  assert (E : ts_k c1 = ts_k c /\ (ts_rd c <= ts_rd c1)%nat /\ ((ts_rd c <= ts_ln c)%nat -> (ts_rd c1 <= ts_ln c)%nat) /\
              (rs_closed c = false -> (ts_rd c < ts_rd c1)%nat)).
  { subst step. destruct (rs_closed c); cbn [negb] in Es.
    - injection Es as <-. split; [reflexivity|]. split; [lia|]. split; [tauto|discriminate].
    - destruct (ts_copy_some _ _ Es) as (A & B & _ & _ & D). split; [exact A|]. split; [lia|]. split; intros; lia. }
  clear Es step. destruct E as (K & E1 & E2 & E3). unfold ts_k in K. injection K as K1 K2 K3 K4.
  (* whatever the CR look-ahead does, the parser handed on has the view of c1 *)
  assert (G : forall cx, ts_v cx = ts_v c1 ->
     (rs_line_complete cb g cx = (ST_OK, c') \/ rs_line_loop cb g f cx = (ST_OK, c')) -> ts_line_res c c').
  { intros cx V Hx. apply tsv_proj in V. destruct V as (V1 & V2 & V3 & V4 & V5 & V6 & V7). unfold ts_ln in *.
    assert (Vc : rs_closed cx = rs_closed c) by (unfold rs_closed; rewrite V7, K4; reflexivity).
    destruct Hx as [Hx|Hx].
    - destruct (ts_line_complete _ _ Hx) as (L1 & L2 & L3 & L4 & L5 & L6). unfold ts_line_res, ts_ln in *.
      split; [congruence|]. split; [congruence|]. split; [exact L4|]. split; [exact L5|]. split; [lia|]. split; [intros; lia|]. split.
      + destruct L6 as [L6|[L6|[L6 L7]]]; [tauto|tauto|right; right]. split; [congruence|]. rewrite Vc in L7. destruct L7 as [L7|L7]; [tauto|right; lia].
      + intros Hc. specialize (E3 Hc). lia.
    - destruct (IH _ _ Hx) as (L1 & L2 & L3 & L4 & L5 & L6 & L7 & L8). unfold ts_line_res, ts_ln in *.
      split; [congruence|]. split; [congruence|]. split; [exact L3|]. split; [exact L4|]. split; [lia|]. split; [intros; lia|]. split.
      + destruct L7 as [L7|[L7|[L7 L9]]]; [tauto|tauto|right; right]. split; [congruence|]. rewrite Vc in L9. destruct L9 as [L9|L9]; [tauto|right; lia].
      + intros Hc. specialize (E3 Hc). lia. }
  destruct (rs_nb_is c1 CR).
  - pose proof (tsv_peek c1) as P. destruct (rs_nb (rs_peek_next c1)) as [b|]; [|discriminate].
    destruct (b =? LF)%N.
    + apply (G _ P). right. exact H.
    + match type of H with context [rs_set_out ?fn (rs_peek_next c1)] => set (c3 := rs_set_out fn (rs_peek_next c1)) in H end.
      assert (V3 : ts_v c3 = ts_v c1) by (rewrite <- P; reflexivity).
      apply (G _ V3). destruct (_ || _)%bool; [left|right]; exact H.
  - apply (G c1 eq_refl). destruct (_ || _)%bool; [left|right]; exact H.
Qed.

Lemma ts_LINE c c' : ts_inv c -> c_out_state c = RES_LINE -> rs_RES_LINE cb g c = (ST_OK, c') -> ts_dec c c'.
Proof.
  intros Hi Hs H. unfold rs_RES_LINE in H. pose proof Hi as [I1 I2].
  destruct (ts_line_loop _ _ _ H) as (L1 & L2 & L3 & L4 & L5 & L6 & L7 & L8).
  apply ts_dec_intro; try assumption.
  - intros Hc. pose proof (ts_closed_eq _ _ L1) as Hc'. rewrite Hc in Hc'. specialize (I1 Hc).
    destruct L7 as [L7|[L7|[L7 [L9|L9]]]]; [ts_rank_tac|ts_rank_tac|congruence|lia].
  - intros Hc. pose proof (ts_closed_eq _ _ L1) as Hc'. rewrite Hc in Hc'. specialize (L8 Hc).
    destruct (I2 Hc ltac:(rewrite Hs; discriminate)) as (A & B & _). specialize (L6 A). split.
    + apply ts_open_ok_cleared; [lia|exact L3|exact L4].
    + left. lia.
Qed.

(* ---- htp_connp_RES_HEADERS ---- *)
Lemma ts_trailer_end c c' : rs_trailer_end cb c = (ST_OK, c') -> ts_w c' = ts_w c /\ c_out_state c' = RES_FINALIZE.
Proof.
  unfold rs_trailer_end, run_hook.
  pose proof (tsv_receiver_clear cb c) as P. destruct (res_receiver_finalize_clear cb c) as [rc c1]. cbn [snd] in P.
  destruct rc; try discriminate.
  match goal with |- context [run_hook_ex cb ?a ?b ?x ?y ?z ?w] =>
    pose proof (tsv_run_hook_ex cb a b x y z w) as H2; destruct (run_hook_ex cb a b x y z w) as [rc2 c2] end.
  cbn [snd] in H2. destruct rc2; try discriminate. intros H. injection H as <-.
  assert (V : ts_v c2 = ts_v c) by congruence. apply tsv_w in V. destruct V as [V _]. split; [exact V|reflexivity].
Qed.

(* reading ahead inside a state: the fixed part is kept, the read offset only grows and stays inside the chunk *)
Definition ts_m (c cx : connp) : Prop :=
  ts_k cx = ts_k c /\ (ts_rd c <= ts_rd cx)%nat /\ ((ts_rd c <= ts_ln c)%nat -> (ts_rd cx <= ts_ln c)%nat).
Lemma ts_m_refl c : ts_m c c.
Proof. unfold ts_m. repeat split; auto. Qed.
Lemma ts_m_trans a b c : ts_m a b -> ts_m b c -> ts_m a c.
Proof.
  unfold ts_m. intros (A1 & A2 & A3) (B1 & B2 & B3). split; [congruence|]. split; [lia|]. intros H.
  assert (L : ts_ln b = ts_ln a) by (unfold ts_k, ts_ln in *; injection A1 as _ A1 _ _; exact A1). rewrite L in B3. auto.
Qed.
Lemma ts_m_v c cx : ts_v cx = ts_v c -> ts_m c cx.
Proof. intros V. pose proof (tsv_k _ _ V) as K. apply tsv_proj in V. destruct V as (_ & _ & V & _). unfold ts_m. rewrite V. repeat split; auto. Qed.
Lemma ts_m_peek c : ts_m c (rs_peek_next c).
Proof. apply ts_m_v. apply tsv_peek. Qed.
Lemma ts_m_copy c c1 : rs_copy_byte c = Some c1 -> ts_m c c1.
Proof. intros E. destruct (ts_copy_some _ _ E) as (A & B & _ & _ & D). unfold ts_m. split; [exact A|]. split; [lia|]. intros _. lia. Qed.
Lemma ts_m_fault c : ts_m c (rs_fault c).
Proof. apply ts_m_v. reflexivity. Qed.
Lemma ts_m_consume_succ c : ts_m c (rs_set_out (fun k => k <| k_consume ::= S |>) c).
Proof. unfold ts_m. repeat split; auto. Qed.

Lemma ts_m_cof c : ts_m c (match rs_copy_byte c with Some c1 => c1 | None => rs_fault c end).
Proof. destruct (rs_copy_byte c) eqn:E; [apply (ts_m_copy _ _ E)|apply ts_m_fault]. Qed.

Ltac ts_msolve :=
  lazymatch goal with
  | |- ts_m ?a (match rs_copy_byte ?x with Some c1 => c1 | None => rs_fault ?x end) => apply (ts_m_trans a x); [ts_msolve|apply ts_m_cof]
  | |- ts_m ?a ?a => apply ts_m_refl
  | |- ts_m ?a (rs_peek_next ?x) => apply (ts_m_trans a x); [ts_msolve|apply ts_m_peek]
  | |- ts_m ?a (rs_fault ?x) => apply (ts_m_trans a x); [ts_msolve|apply ts_m_fault]
  | |- ts_m ?a (rs_set_out _ ?x) => apply (ts_m_trans a x); [ts_msolve|apply ts_m_consume_succ]
  | H : rs_copy_byte ?x = Some ?y |- ts_m ?a ?y => apply (ts_m_trans a x); [ts_msolve|apply (ts_m_copy _ _ H)]
  end.

(* one consolidated header line *)
Lemma tsv_flush_header c : ts_v (rs_flush_header c) = ts_v c.
Proof.
  unfold rs_flush_header. destruct (k_header (c_out c)); [|reflexivity].
  transitivity (ts_v (rs_process_header b c)); [reflexivity|apply tsv_otx].
Qed.
Lemma ts_headers_line d c :
  match rs_headers_line cb g d c with
  | (Some (rc, c'), _) =>
      rc = ST_OK -> c_out_status c' = c_out_status c /\ ts_ln c' = ts_ln c /\ ts_rd c' = ts_rd c /\ ts_cs c' = ts_rd c' /\
                    k_buf (c_out c') = None /\ (c_out_state c' = RES_BODY_DETERMINE \/ c_out_state c' = RES_FINALIZE)
  | (None, c2) => ts_m c c2
  end.
Proof.
  unfold rs_headers_line.
  set (c0 := if rs_has_byte c then match rs_cur_byte c (k_read (c_out c)) with Some _ => c | None => rs_fault c end else c).
  assert (G0 : ts_v c0 = ts_v c) by (subst c0; brk; reflexivity). clearbody c0.
  destruct (rs_is_line_terminator _ _ _).
  - set (c1 := rs_clear_buffer (rs_flush_header c0)).
    assert (G1 : c_out_status c1 = c_out_status c /\ ts_ln c1 = ts_ln c /\ ts_rd c1 = ts_rd c /\ ts_cs c1 = ts_rd c1 /\ k_buf (c_out c1) = None /\
                 c_out_state c1 = c_out_state c).
    { pose proof (tsv_flush_header c0) as F. rewrite G0 in F. apply tsv_proj in F. destruct F as (F1 & F2 & F3 & F4 & F5 & F6 & F7).
      subst c1. unfold ts_ln, ts_rd, ts_cs in *. cbn. repeat split; congruence. }
    clearbody c1. destruct G1 as (A1 & A2 & A3 & A4 & A5 & A6).
    destruct (_ =? _).
    + intros _. unfold ts_ln, ts_rd, ts_cs in *. cbn. repeat split; try congruence. left. reflexivity.
    + destruct (rs_trailer_end cb c1) as [rc c'] eqn:Et. intros ->. destruct (ts_trailer_end _ _ Et) as [W S].
      apply tsw_proj in W. destruct W as (W1 & W2 & W3 & W4 & W5 & W6). repeat split; try congruence. right. exact S.
  - cbv zeta.
    match goal with |- ts_m c (rs_clear_buffer ?X) => assert (GX : ts_v X = ts_v c) end.
    { brk; rewrite ?tsv_otx, ?tsv_peek, ?tsv_flush_header; try assumption.
      all: try (match goal with |- ts_v (rs_set_header ?h ?x) = _ => transitivity (ts_v x); [reflexivity|] end;
                unfold rs_flag_invalid_folding, rs_process_header; rewrite ?tsv_otx, ?tsv_peek, ?tsv_flush_header; try assumption).
      all: try (match goal with |- ts_v (rs_process_header ?h ?x) = _ => unfold rs_process_header; rewrite tsv_otx end;
                unfold rs_flag_invalid_folding; rewrite ?tsv_otx, ?tsv_peek, ?tsv_flush_header; assumption). }
    match goal with |- ts_m c (rs_clear_buffer ?X) => remember X as cx eqn:Ex; clear Ex end.
    pose proof (tsv_k _ _ GX) as K. apply tsv_proj in GX. destruct GX as (_ & _ & V & _).
    unfold ts_m, ts_k, ts_rd, ts_ln in *. cbn. rewrite V. repeat split; auto.
Qed.

Definition ts_hdr_res (c c' : connp) : Prop :=
  c_out_status c' = c_out_status c /\ ts_ln c' = ts_ln c /\
  ((rs_closed c = true /\ c_out_state c' = RES_FINALIZE) \/
   (rs_closed c = false /\ (ts_rd c < ts_rd c')%nat /\ (ts_rd c' <= ts_ln c)%nat /\ ts_cs c' = ts_rd c' /\ k_buf (c_out c') = None /\
    (c_out_state c' = RES_BODY_DETERMINE \/ c_out_state c' = RES_FINALIZE))).

Lemma ts_headers_loop fuel : forall lf c,
  fst (rs_headers_loop cb g fuel lf c) = ST_OK -> ts_hdr_res c (snd (rs_headers_loop cb g fuel lf c)).
Proof.
  induction fuel as [|f IH]; intros lf c; cbn [rs_headers_loop]; [discriminate|].
  destruct (rs_closed c) eqn:Ecl.
  { destruct (rs_trailer_end cb c) as [rc c'] eqn:Et. cbn [fst snd]. intros ->. destruct (ts_trailer_end _ _ Et) as [W S].
    apply tsw_proj in W. destruct W as (W1 & _ & _ & _ & _ & W6). split; [exact W6|]. split; [exact W1|]. left. split; [exact Ecl|exact S]. }
  destruct (rs_copy_byte c) as [c1|] eqn:Ec; [|discriminate].
  destruct (ts_copy_some _ _ Ec) as (K1 & R1 & _ & _ & Lt1).
  assert (Hle1 : (ts_rd c1 <= ts_ln c1)%nat).
  { unfold ts_k, ts_ln in *. injection K1 as _ K1 _ _. lia. }
  assert (G : forall lf' cx, ts_m c1 cx -> fst (rs_headers_loop cb g f lf' cx) = ST_OK -> ts_hdr_res c (snd (rs_headers_loop cb g f lf' cx))).
  { intros lf' cx (M1 & M2 & M3) Hx. specialize (M3 Hle1). destruct (IH lf' cx Hx) as (I1 & I2 & I3).
    unfold ts_hdr_res, ts_k, ts_ln in *. injection K1 as _ K12 _ K14. injection M1 as _ M12 _ M14.
    assert (Vc : rs_closed cx = false) by (unfold rs_closed in *; rewrite M14, K14; exact Ecl).
    split; [congruence|]. split; [congruence|]. right. rewrite Vc in I3. destruct I3 as [[I3 _]|(_ & J1 & J2 & J3 & J4 & J5)]; [discriminate|].
    split; [exact Ecl|]. split; [lia|]. split; [lia|]. split; [exact J3|]. split; [exact J4|exact J5]. }
  destruct (_ && _)%bool; [apply G; apply ts_m_refl|].
  match goal with |- context [let '(scan, c) := ?E in _] => set (sc := E) end.
  assert (HSC : ts_m c1 (snd sc)).
  { subst sc. cbv zeta. brk; cbn [snd]; ts_msolve. }
  destruct sc as [scan c2]. cbn [snd] in HSC.
  destruct scan as [|[|scan]]; [discriminate|apply G; exact HSC|].
  destruct (rs_consolidate g c2) as [[data|] c3] eqn:Eco; [|discriminate].
  destruct (ts_consolidate_w g _ _ _ Eco) as (K3 & R3 & _).
  assert (M3 : ts_m c1 c3).
  { apply (ts_m_trans _ c2); [exact HSC|]. unfold ts_m. rewrite R3. repeat split; auto. }
  destruct (_ && _)%bool; [apply G; exact M3|].
  pose proof (ts_headers_line (rs_dbytes data) c3) as HL.
  destruct (rs_headers_line cb g (rs_dbytes data) c3) as [[[rc c']|] c4].
  - cbn [fst snd]. intros ->. destruct (HL eq_refl) as (L1 & L2 & L3 & L4 & L5 & L6). destruct M3 as (M31 & M32 & M33). specialize (M33 Hle1).
    unfold ts_hdr_res, ts_k, ts_ln in *. injection K1 as _ K12 _ K14. injection M31 as _ M312 _ M314.
    split; [congruence|]. split; [congruence|]. right. split; [exact Ecl|]. split; [lia|]. split; [lia|]. split; [exact L4|]. split; [exact L5|exact L6].
  - apply G. exact (ts_m_trans _ _ _ M3 HL).
Qed.

Lemma ts_HEADERS c c' : ts_inv c -> c_out_state c = RES_HEADERS -> rs_RES_HEADERS cb g c = (ST_OK, c') -> ts_dec c c'.
Proof.
  intros Hi Hs H. unfold rs_RES_HEADERS in H. pose proof Hi as [I1 I2].
  pose proof (ts_headers_loop (rs_bytes_fuel c) false c) as L. rewrite H in L. destruct (L eq_refl) as (L1 & L2 & L3). cbn [snd] in *.
  apply ts_dec_intro; try assumption.
  - intros Hc. pose proof (ts_closed_eq _ _ L1) as Hc'. rewrite Hc in Hc'.
    destruct L3 as [[_ L3]|[L3 _]]; [|congruence]. ts_rank_tac.
  - intros Hc. pose proof (ts_closed_eq _ _ L1) as Hc'. rewrite Hc in Hc'.
    destruct L3 as [[L3 _]|(_ & J1 & J2 & J3 & J4 & J5)]; [congruence|].
    destruct (I2 Hc ltac:(rewrite Hs; discriminate)) as (A & B & _). split.
    + apply ts_open_ok_cleared; [lia|exact J3|exact J4].
    + left. lia.
Qed.

(* ---- htp_connp_RES_BODY_DETERMINE: no byte is read; the next state is never RES_BODY_DETERMINE ---- *)
Definition ts_u (c : connp) := (k_len (c_out c), k_read (c_out c), k_consume (c_out c), k_buf (c_out c)).
Definition ts_after_determine (s : res_state) : Prop :=
  s = RES_FINALIZE \/ s = RES_LINE \/ s = RES_BODY_CHUNKED_LENGTH \/ s = RES_BODY_IDENTITY_CL_KNOWN \/ s = RES_BODY_IDENTITY_STREAM_CLOSE.
Lemma tsv_u a b : ts_v a = ts_v b -> ts_u a = ts_u b /\ c_out_status a = c_out_status b /\ c_out_state a = c_out_state b.
Proof. unfold ts_v, ts_u. intros H. injection H as H1 H2 H3 H4 H5 H6 H7. repeat split; congruence. Qed.
Lemma ts_response_headers x rc c' : rs_response_headers cb x = (rc, c') -> ts_v c' = ts_v x.
Proof.
  unfold rs_response_headers. destruct (c_out_tx x) as [i|].
  - intros H. pose proof (tsv_response_headers cb i x) as V. rewrite H in V. exact V.
  - intros H. injection H as <- <-. reflexivity.
Qed.

Lemma ts_DETERMINE_raw c c' : rs_RES_BODY_DETERMINE cb c = (ST_OK, c') ->
  ts_u c' = ts_u c /\ ts_after_determine (c_out_state c') /\
  (c_out_status c' = c_out_status c \/ c_out_status c' = c_HTP_STREAM_TUNNEL).
Proof.
  unfold rs_RES_BODY_DETERMINE.
  set (t := rs_tx c). set (sn := t_response_status_number t).
  assert (Leaf : forall x, ts_u x = ts_u c -> ts_after_determine (c_out_state x) ->
                   (c_out_status x = c_out_status c \/ c_out_status x = c_HTP_STREAM_TUNNEL) ->
                   rs_response_headers cb x = (ST_OK, c') ->
                   ts_u c' = ts_u c /\ ts_after_determine (c_out_state c') /\
                   (c_out_status c' = c_out_status c \/ c_out_status c' = c_HTP_STREAM_TUNNEL)).
  { intros x X1 X2 X3 H. apply ts_response_headers in H. apply tsv_u in H. destruct H as (H1 & H2 & H3).
    rewrite H1, H2, H3. auto. }
  destruct (_ && _ && _)%bool.
  { apply Leaf; [reflexivity|left; reflexivity|left; reflexivity]. }
  set (c3 := if t_request_method_number t =? c_HTP_M_CONNECT then _ else c).
  assert (G3 : ts_v c3 = ts_v c) by (subst c3; unfold rs_unblock_request; brk; reflexivity).
  apply tsv_u in G3. destruct G3 as (G31 & G32 & G33). clearbody c3.
  set (cl := rs_hdr_get_c (t_response_headers t) rs_str_content_length).
  set (te := rs_hdr_get_c (t_response_headers t) rs_str_transfer_encoding).
  cbv zeta.
  destruct (_ && _ && _)%bool.
  { apply Leaf.
    - rewrite <- G31. unfold rs_unblock_request. brk; reflexivity.
    - left. unfold rs_unblock_request. brk; reflexivity.
    - right. reflexivity. }
  destruct (_ && _ && _)%bool.
  { intros H. injection H as <-. unfold ts_u, ts_after_determine in *. tsr. split; [exact G31|]. split; [tauto|left; exact G32]. }
  set (c4 := if (400 <=? sn) && _ && _ && _ then _ else c3).
  assert (G4 : ts_v c4 = ts_v c3) by (subst c4; brk; reflexivity).
  apply tsv_u in G4. destruct G4 as (G41 & G42 & G43). clearbody c4.
  set (c5 := if t_request_method_number t =? c_HTP_M_HEAD then _ else _).
  assert (G5 : ts_u c5 = ts_u c /\ c_out_status c5 = c_out_status c).
  { subst c5. unfold ts_u in *. brk; tsr; split; congruence. }
  destruct G5 as (G51 & G52). clearbody c5.
  set (p := if negb (res_state_eqb (c_out_state c5) RES_FINALIZE) then _ else (ST_OK, c5)).
  assert (HP : fst p = ST_OK -> ts_u (snd p) = ts_u c /\ c_out_status (snd p) = c_out_status c /\ ts_after_determine (c_out_state (snd p))).
  { subst p. destruct (negb _) eqn:En.
    2:{ cbn [fst snd]. intros _. split; [exact G51|]. split; [exact G52|]. left.
        apply negb_false_iff in En. apply res_state_eqb_eq in En. exact En. }
    set (ct := rs_hdr_get_c (t_response_headers t) rs_str_content_type).
    set (c6 := match ct with Some h => _ | None => c5 end).
    assert (G6 : ts_u c6 = ts_u c /\ c_out_status c6 = c_out_status c).
    { subst c6. unfold ts_u in *. destruct ct; tsr; split; congruence. }
    destruct G6 as [G61 G62]. clearbody c6. cbv zeta. unfold ts_u, ts_after_determine in *.
    destruct (match te with Some h => _ | None => false end).
    { cbn [fst snd]. intros _. tsr. split; [exact G61|]. split; [exact G62|tauto]. }
    destruct cl as [h|].
    - destruct (_ <? 0); [discriminate|].
      destruct (negb (parse_content_length (h_value h) =? 0)); cbn [fst snd]; intros _; tsr; (split; [exact G61|]); (split; [exact G62|tauto]).
    - destruct (match ct with Some h => _ | None => false end); cbn [fst snd]; [discriminate|].
      intros _. tsr. split; [exact G61|]. split; [exact G62|tauto]. }
  destruct p as [rc c7]. cbn [fst snd] in HP. destruct rc; try discriminate.
  destruct (HP eq_refl) as (P1 & P2 & P3). apply Leaf; [exact P1|exact P3|left; exact P2].
Qed.

Lemma ts_DETERMINE c c' : ts_inv c -> c_out_state c = RES_BODY_DETERMINE -> rs_RES_BODY_DETERMINE cb c = (ST_OK, c') -> ts_dec c c'.
Proof.
  intros Hi Hs H. destruct (ts_DETERMINE_raw _ _ H) as (U & S & [St|St]); [|left; exact St].
  unfold ts_u in U. injection U as U1 U2 U3 U4. pose proof Hi as [I1 I2].
  assert (Ub : ts_bl c' = ts_bl c) by (unfold ts_bl; rewrite U4; reflexivity).
  apply ts_dec_intro; try assumption.
  - intros Hc. pose proof (ts_closed_eq _ _ St) as Hc'. rewrite Hc in Hc'. unfold ts_after_determine in S.
    destruct S as [S|[S|[S|[S|S]]]]; ts_rank_tac.
  - intros Hc. pose proof (ts_closed_eq _ _ St) as Hc'. rewrite Hc in Hc'.
    destruct (I2 Hc ltac:(rewrite Hs; discriminate)) as (A & B & _ & D). specialize (D ltac:(left; exact Hs)). split.
    + intros _. unfold ts_ln, ts_rd, ts_cs in *. rewrite U1, U2, U3, Ub. repeat split; try assumption; intros; try (left; exact D); exact D.
    + right. unfold ts_cs. split; [lia|]. unfold ts_after_determine in S. destruct S as [S|[S|[S|[S|S]]]]; ts_rank_tac.
Qed.

(* ---- the body states ---- *)
Lemma ts_btc_le c left : (rs_bytes_to_consume c left <= ts_ln c - ts_rd c)%nat.
Proof. unfold rs_bytes_to_consume, ts_ln, ts_rd. destruct (left <? 0); [lia|]. destruct (_ <=? _) eqn:E; [|lia]. apply Z.leb_le in E. lia. Qed.
Lemma tsv_body_slice c n : ts_v (snd (rs_body_slice c n)) = ts_v c.
Proof. unfold rs_body_slice. brk; reflexivity. Qed.

(* slice, hand to the body hooks, advance both offsets by n *)
Lemma ts_consume_n c n rc c2 :
  (let '(data, c1) := rs_body_slice c n in rs_process_body cb data n c1) = (rc, c2) ->
  ts_v (rs_advance n c2) = (k_data (c_out c), k_len (c_out c), (k_read (c_out c) + n)%nat, (k_consume (c_out c) + n)%nat, k_buf (c_out c),
                            c_out_state c, c_out_status c).
Proof.
  pose proof (tsv_body_slice c n) as V1. destruct (rs_body_slice c n) as [data c1]. cbn [snd] in V1.
  intros H. apply ts_process_body in H. rewrite V1 in H. apply tsv_proj in H. destruct H as (H1 & H2 & H3 & H4 & H5 & H6 & H7).
  unfold ts_v, ts_ln, ts_rd, ts_cs in *. cbn. congruence.
Qed.

(* htp_connp_RES_BODY_IDENTITY_CL_KNOWN *)
Lemma ts_CL_KNOWN_raw c c' : rs_RES_BODY_IDENTITY_CL_KNOWN cb c = (ST_OK, c') ->
  c_out_status c' = c_out_status c /\ ts_ln c' = ts_ln c /\ c_out_state c' = RES_FINALIZE /\ k_buf (c_out c') = k_buf (c_out c) /\
  (rs_closed c = true \/
   exists n, (1 <= n)%nat /\ (n <= ts_ln c - ts_rd c)%nat /\ ts_rd c' = (ts_rd c + n)%nat /\ ts_cs c' = (ts_cs c + n)%nat).
Proof.
  unfold rs_RES_BODY_IDENTITY_CL_KNOWN. pose proof (ts_btc_le c (c_out_body_data_left c)) as Hn.
  set (n := rs_bytes_to_consume c (c_out_body_data_left c)) in *. clearbody n.
  destruct (rs_closed c) eqn:Ecl.
  { intros H. apply ts_process_body in H. apply tsv_proj in H. destruct H as (H1 & H2 & H3 & H4 & H5 & H6 & H7).
    repeat split; try assumption. left. reflexivity. }
  destruct (n =? 0)%nat eqn:E0; [discriminate|]. apply Nat.eqb_neq in E0.
  destruct (let '(data, c1) := rs_body_slice c n in rs_process_body cb data n c1) as [rc c2] eqn:E2.
  pose proof (ts_consume_n _ _ _ _ E2) as V. destruct (rs_body_slice c n) as [data c1]. rewrite E2.
  destruct rc; try discriminate. cbv zeta.
  match goal with |- context [if ?b then _ else _] => destruct b end; [|discriminate].
  intros H. apply ts_process_body in H. apply tsv_proj in H. destruct H as (H1 & H2 & H3 & H4 & H5 & H6 & H7).
  unfold ts_v in V. injection V as V1 V2 V3 V4 V5 V6 V7. revert H1 H2 H3 H4 H5 H6 H7. tsr. intros H1 H2 H3 H4 H5 H6 H7.
  repeat split; try congruence. right. exists n. repeat split; try lia; congruence.
Qed.
Lemma ts_CL_KNOWN c c' : ts_inv c -> c_out_state c = RES_BODY_IDENTITY_CL_KNOWN ->
  rs_RES_BODY_IDENTITY_CL_KNOWN cb c = (ST_OK, c') -> ts_dec c c'.
Proof.
  intros Hi Hs H. destruct (ts_CL_KNOWN_raw _ _ H) as (St & L & S & B & R). pose proof Hi as [I1 I2].
  apply ts_dec_intro; try assumption.
  - intros Hc. pose proof (ts_closed_eq _ _ St) as Hc'. rewrite Hc in Hc'. ts_rank_tac.
  - intros Hc. pose proof (ts_closed_eq _ _ St) as Hc'. rewrite Hc in Hc'.
    destruct R as [R|(n & N1 & N2 & N3 & N4)]; [congruence|].
    destruct (I2 Hc ltac:(rewrite Hs; discriminate)) as (A & B1 & _ & D). specialize (D ltac:(right; exact Hs)).
    assert (Ub : ts_bl c' = 0%nat) by (unfold ts_bl in *; rewrite B; exact D). split.
    + intros _. rewrite L. repeat split; try lia; intros; try (left; exact Ub); exact Ub.
    + left. lia.
Qed.

(* htp_connp_RES_BODY_IDENTITY_STREAM_CLOSE: HTP_OK only on a closed stream *)
Lemma ts_STREAM_CLOSE_raw c c' : rs_RES_BODY_IDENTITY_STREAM_CLOSE cb c = (ST_OK, c') ->
  c_out_status c' = c_out_status c /\ ts_ln c' = ts_ln c /\ c_out_state c' = RES_FINALIZE /\ rs_closed c = true.
Proof.
  unfold rs_RES_BODY_IDENTITY_STREAM_CLOSE.
  set (n := (k_len (c_out c) - k_read (c_out c))%nat).
  set (c0 := if (k_len (c_out c) <? k_read (c_out c))%nat then rs_fault c else c).
  assert (V0 : ts_v c0 = ts_v c) by (subst c0; destruct (_ <? _)%nat; reflexivity). clearbody c0 n.
  match goal with |- context [let '(rc, c1) := ?E in _] => set (p := E) end.
  assert (HP : c_out_status (snd p) = c_out_status c /\ ts_ln (snd p) = ts_ln c).
  { subst p. apply tsv_proj in V0. destruct V0 as (A1 & A2 & A3 & A4 & A5 & A6 & A7).
    destruct (n =? 0)%nat; [cbn [snd]; split; assumption|].
    pose proof (tsv_body_slice c0 n) as V1. destruct (rs_body_slice c0 n) as [data c1]. cbn [snd] in V1.
    destruct (rs_process_body cb data n c1) as [rc c2] eqn:Ep. apply ts_process_body in Ep. rewrite V1 in Ep.
    apply tsv_proj in Ep. destruct Ep as (B1 & B2 & B3 & B4 & B5 & B6 & B7). unfold ts_ln in *.
    destruct rc; cbn [snd]; split; cbn; congruence. }
  destruct p as [rc c1]. cbn [snd] in HP. destruct HP as [P1 P2]. destruct rc; try discriminate.
  pose proof (ts_closed_eq _ _ P1) as Pc. destruct (rs_closed c1) eqn:E; [|discriminate].
  intros H. injection H as <-. unfold ts_ln in *. cbn. repeat split; congruence.
Qed.

Lemma ts_STREAM_CLOSE c c' : ts_inv c -> c_out_state c = RES_BODY_IDENTITY_STREAM_CLOSE ->
  rs_RES_BODY_IDENTITY_STREAM_CLOSE cb c = (ST_OK, c') -> ts_dec c c'.
Proof.
  intros Hi Hs H. destruct (ts_STREAM_CLOSE_raw _ _ H) as (St & L & S & Cl).
  apply ts_dec_intro; try assumption.
  - intros Hc. pose proof (ts_closed_eq _ _ St) as Hc'. rewrite Hc in Hc'. ts_rank_tac.
  - intros Hc. congruence.
Qed.

(* htp_connp_RES_BODY_CHUNKED_DATA *)
Lemma ts_CHUNKED_DATA_raw c c' : rs_RES_BODY_CHUNKED_DATA cb c = (ST_OK, c') ->
  c_out_status c' = c_out_status c /\ ts_ln c' = ts_ln c /\ c_out_state c' = RES_BODY_CHUNKED_DATA_END /\
  exists n, (1 <= n)%nat /\ (n <= ts_ln c - ts_rd c)%nat /\ ts_rd c' = (ts_rd c + n)%nat /\ ts_cs c' = (ts_cs c + n)%nat.
Proof.
  unfold rs_RES_BODY_CHUNKED_DATA. pose proof (ts_btc_le c (c_out_chunked_length c)) as Hn.
  set (n := rs_bytes_to_consume c (c_out_chunked_length c)) in *. clearbody n.
  destruct (n =? 0)%nat eqn:E0; [discriminate|]. apply Nat.eqb_neq in E0.
  destruct (let '(data, c1) := rs_body_slice c n in rs_process_body cb data n c1) as [rc c2] eqn:E2.
  pose proof (ts_consume_n _ _ _ _ E2) as V. destruct (rs_body_slice c n) as [data c1]. rewrite E2.
  destruct rc; try discriminate. cbv zeta.
  match goal with |- context [if ?b then _ else _] => destruct b end; [|discriminate].
  intros H. injection H as <-. unfold ts_v in V. injection V as V1 V2 V3 V4 V5 V6 V7. tsr.
  repeat split; try congruence. exists n. repeat split; try lia; congruence.
Qed.
(* a body state that consumed n >= 1 bytes and went to a state without side condition *)
Lemma ts_dec_advanced c c' n :
  ts_inv c -> c_out_state c <> RES_BODY_IDENTITY_STREAM_CLOSE ->
  c_out_status c' = c_out_status c -> ts_ln c' = ts_ln c ->
  c_out_state c' <> RES_FINALIZE -> c_out_state c' <> RES_BODY_DETERMINE -> c_out_state c' <> RES_BODY_IDENTITY_CL_KNOWN ->
  (1 <= n)%nat -> (ts_rd c + n <= ts_ln c)%nat -> ts_rd c' = (ts_rd c + n)%nat -> ts_cs c' = (ts_cs c + n)%nat ->
  ts_dec c c'.
Proof.
  intros Hi Hs St L S1 S2 S3 N1 N2 N3 N4. pose proof Hi as [I1 I2].
  apply ts_dec_intro; try assumption.
  - intros Hc. specialize (I1 Hc). lia.
  - intros Hc. destruct (I2 Hc Hs) as (A & B & _). split.
    + intros _. rewrite L. repeat split; try lia; intros; try contradiction. destruct H; contradiction.
    + left. lia.
Qed.
Lemma ts_CHUNKED_DATA c c' : ts_inv c -> c_out_state c = RES_BODY_CHUNKED_DATA -> rs_RES_BODY_CHUNKED_DATA cb c = (ST_OK, c') -> ts_dec c c'.
Proof.
  intros Hi Hs H. destruct (ts_CHUNKED_DATA_raw _ _ H) as (St & L & S & n & N1 & N2 & N3 & N4).
  apply (ts_dec_advanced c c' n); try assumption; try (rewrite S; discriminate); try (rewrite Hs; discriminate).
  destruct Hi as [I1 I2]. destruct (rs_closed c) eqn:Hc; [specialize (I1 eq_refl); lia|].
  destruct (I2 eq_refl ltac:(rewrite Hs; discriminate)) as (A & _). lia.
Qed.

(* htp_connp_RES_BODY_CHUNKED_DATA_END *)
Lemma ts_chunked_data_end_loop fuel : forall c c', rs_chunked_data_end_loop fuel c = (ST_OK, c') ->
  c_out_status c' = c_out_status c /\ ts_ln c' = ts_ln c /\ c_out_state c' = RES_BODY_CHUNKED_LENGTH /\
  exists n, (1 <= n)%nat /\ (ts_rd c + n <= ts_ln c)%nat /\ ts_rd c' = (ts_rd c + n)%nat /\ ts_cs c' = (ts_cs c + n)%nat.
Proof.
  induction fuel as [|f IH]; intros c c' H; cbn [rs_chunked_data_end_loop] in H; [discriminate|].
  destruct (rs_next_byte c) as [c1|] eqn:E1; [|discriminate].
  destruct (ts_next_some _ _ E1) as (K & R & C & B & Lt). unfold ts_k in K. injection K as K1 K2 K3 K4.
  match type of H with context [rs_otx ?fn c1] => pose proof (tsv_otx fn c1) as V; remember (rs_otx fn c1) as c2 eqn:E2; clear E2 end.
  apply tsv_proj in V. destruct V as (V1 & V2 & V3 & V4 & V5 & V6 & V7). unfold ts_ln, ts_rd, ts_cs in *.
  destruct (rs_nb_is c2 LF).
  - injection H as <-. cbn. repeat split; try congruence. exists 1%nat. repeat split; try lia; congruence.
  - destruct (IH _ _ H) as (I1 & I2 & I3 & n & N1 & N2 & N3 & N4).
    repeat split; try congruence. exists (S n). repeat split; try lia; congruence.
Qed.
Lemma ts_CHUNKED_DATA_END c c' : ts_inv c -> c_out_state c = RES_BODY_CHUNKED_DATA_END -> rs_RES_BODY_CHUNKED_DATA_END c = (ST_OK, c') -> ts_dec c c'.
Proof.
  intros Hi Hs H. unfold rs_RES_BODY_CHUNKED_DATA_END in H.
  destruct (ts_chunked_data_end_loop _ _ _ H) as (St & L & S & n & N1 & N2 & N3 & N4).
  apply (ts_dec_advanced c c' n); try assumption; try (rewrite S; discriminate); try (rewrite Hs; discriminate).
Qed.

(* htp_connp_RES_BODY_CHUNKED_LENGTH *)
Definition ts_chlen_res (c c' : connp) : Prop :=
  c_out_status c' = c_out_status c /\ ts_ln c' = ts_ln c /\
  ((c_out_state c' = RES_BODY_IDENTITY_STREAM_CLOSE /\ ((ts_cs c <= ts_rd c)%nat -> (ts_cs c <= ts_cs c')%nat)) \/
   ((c_out_state c' = RES_BODY_CHUNKED_DATA \/ c_out_state c' = RES_HEADERS) /\
    ts_cs c' = ts_rd c' /\ k_buf (c_out c') = None /\ (ts_rd c < ts_rd c')%nat /\ (ts_rd c' <= ts_ln c)%nat)).
Lemma ts_chunked_length_loop fuel : forall c c', rs_chunked_length_loop g fuel c = (ST_OK, c') -> ts_chlen_res c c'.
Proof.
  induction fuel as [|f IH]; intros c c' H; cbn [rs_chunked_length_loop] in H; [discriminate|].
  destruct (rs_copy_byte c) as [c1|] eqn:E1; [|discriminate].
  destruct (ts_copy_some _ _ E1) as (K & R & C & B & Lt). unfold ts_k in K. injection K as K1 K2 K3 K4.
  assert (G : forall cx, c_out_status cx = c_out_status c -> ts_ln cx = ts_ln c -> ts_rd cx = ts_rd c1 ->
                (ts_cs cx = ts_cs c \/ ts_cs cx = ts_rd cx) -> rs_chunked_length_loop g f cx = (ST_OK, c') -> ts_chlen_res c c').
  { intros cx X1 X2 X3 X4 Hx. destruct (IH _ _ Hx) as (I1 & I2 & I3). unfold ts_chlen_res.
    split; [congruence|]. split; [congruence|]. destruct I3 as [[I3 I4]|(I3 & I4 & I5 & I6 & I7)]; [left|right].
    - split; [exact I3|]. intros Hle. destruct X4 as [X4|X4]; lia.
    - split; [exact I3|]. split; [exact I4|]. split; [exact I5|]. split; lia. }
  cbv zeta in H.
  match type of H with (if ?b then _ else _) = _ => destruct b end.
  2:{ apply (G c1); try assumption; try reflexivity. left. exact C. }
  destruct (rs_consolidate g c1) as [[data|] c2] eqn:Eco; [|discriminate].
  destruct (ts_consolidate_w g _ _ _ Eco) as (K' & R' & C'). unfold ts_k in K'. injection K' as J1 J2 J3 J4.
  match type of H with context [rs_otx ?fn c2] => pose proof (tsv_otx fn c2) as V; remember (rs_otx fn c2) as c3 eqn:E3; clear E3 end.
  apply tsv_proj in V. destruct V as (V1 & V2 & V3 & V4 & V5 & V6 & V7). unfold ts_ln, ts_rd, ts_cs in *.
  set (cl := fst (parse_chunked_length (rs_dbytes data))) in *. clearbody cl.
  destruct (cl =? -1004).
  { refine (G _ _ _ _ _ H); tsr; try congruence. right. reflexivity. }
  destruct (cl <? 0).
  { injection H as <-. unfold ts_chlen_res. tsr. split; [congruence|]. split; [congruence|]. left. split; [reflexivity|]. intros Hle.
    destruct C' as [C'|C']; lia. }
  destruct (0 <? cl); injection H as <-; unfold ts_chlen_res; tsr; (split; [congruence|]); (split; [congruence|]); right.
  - split; [left; reflexivity|]. repeat split; lia.
  - split; [right; reflexivity|]. repeat split; lia.
Qed.
Lemma ts_CHUNKED_LENGTH c c' : ts_inv c -> c_out_state c = RES_BODY_CHUNKED_LENGTH -> rs_RES_BODY_CHUNKED_LENGTH g c = (ST_OK, c') -> ts_dec c c'.
Proof.
  intros Hi Hs H. unfold rs_RES_BODY_CHUNKED_LENGTH in H. destruct (ts_chunked_length_loop _ _ _ H) as (St & L & R). pose proof Hi as [I1 I2].
  assert (Hrd : rs_closed c = true -> False).
  { intros Hc. specialize (I1 Hc). cbn [rs_bytes_fuel rs_chunked_length_loop] in H.
    destruct (rs_copy_byte c) as [c1|] eqn:E1; [|discriminate]. destruct (ts_copy_some _ _ E1) as (_ & _ & _ & _ & Lt). lia. }
  apply ts_dec_intro; try assumption.
  - intros Hc. destruct (Hrd Hc).
  - intros Hc. pose proof (ts_closed_eq _ _ St) as Hc'. rewrite Hc in Hc'.
    destruct (I2 Hc ltac:(rewrite Hs; discriminate)) as (A & B & _).
    destruct R as [[S R]|(S & R1 & R2 & R3 & R4)].
    + split; [intros Hn; contradiction|]. right. split; [exact (R B)|ts_rank_tac].
    + split; [apply ts_open_ok_cleared; [lia|exact R1|exact R2]|]. left. lia.
Qed.

(* ---- htp_connp_RES_FINALIZE ---- *)
Lemma ts_finalize_scan fuel : forall c c', rs_finalize_scan fuel c = (true, c') ->
  ts_k c' = ts_k c /\ (ts_rd c < ts_rd c')%nat /\ (ts_rd c' <= ts_ln c)%nat /\ ts_cs c' = ts_cs c /\ k_buf (c_out c') = k_buf (c_out c).
Proof.
  induction fuel as [|f IH]; intros c c' H; cbn [rs_finalize_scan] in H; [discriminate|].
  destruct (rs_copy_byte c) as [c1|] eqn:E1; [|discriminate].
  destruct (ts_copy_some _ _ E1) as (K & R & C & B & Lt).
  destruct (rs_nb_is c1 LF).
  - injection H as <-. repeat split; try assumption; lia.
  - destruct (IH _ _ H) as (I1 & I2 & I3 & I4 & I5).
    assert (L : ts_ln c1 = ts_ln c) by (unfold ts_k, ts_ln in *; injection K as _ K _ _; exact K).
    repeat split; try congruence; lia.
Qed.

Lemma ts_sub_if a b : (if (a <? b)%nat then 0%nat else (a - b)%nat) = (a - b)%nat.
Proof. destruct (a <? b)%nat eqn:E; [apply Nat.ltb_lt in E; lia|reflexivity]. Qed.
Lemma ts_min_if a b : (if (a <? b)%nat then a else b) = Nat.min a b.
Proof. destruct (a <? b)%nat eqn:E; [apply Nat.ltb_lt in E|apply Nat.ltb_ge in E]; lia. Qed.
#[local] Arguments Nat.ltb : simpl never.
#[local] Arguments Nat.leb : simpl never.
Lemma ts_finalize_tail c c' : rs_finalize_tail cb g c = (ST_OK, c') ->
  c_out_status c' = c_out_status c /\ ts_ln c' = ts_ln c /\
  ((c_out_state c' = RES_IDLE /\
    ((ts_cs c <= ts_rd c)%nat -> (ts_rd c <= ts_ln c)%nat -> (ts_bl c = 0%nat \/ ts_cs c = 0%nat) ->
     (ts_cs c <= ts_cs c')%nat /\ (ts_cs c' <= ts_rd c')%nat /\ (ts_rd c' <= ts_ln c)%nat)) \/
   (c_out_state c' = c_out_state c /\ ts_cs c' = ts_rd c' /\ ts_rd c' = ts_rd c /\ k_buf (c_out c') = None /\
    (k_buf (c_out c) <> None \/ (ts_cs c < ts_rd c)%nat))).
Proof.
  unfold rs_finalize_tail. destruct (rs_consolidate g c) as [[data|] c2] eqn:Eco; [|discriminate].
  destruct (ts_consolidate g _ _ _ Eco) as (K & R & Cases). unfold ts_k in K. injection K as K1 K2 K3 K4.
  set (bl := length (rs_dbytes data)) in *.
  destruct (bl =? 0)%nat eqn:E0.
  { intros H. destruct (ts_response_complete _ _ H) as [W S]. apply tsw_proj in W. destruct W as (W1 & W2 & W3 & W4 & W5 & W6).
    unfold ts_ln in *. split; [congruence|]. split; [congruence|]. left. split; [exact S|]. intros A1 A2 A3.
    assert (X : ts_cs c2 = ts_cs c \/ ts_cs c2 = ts_rd c).
    { destruct Cases as [(_ & _ & X & _)|(b & _ & [(_ & X & _)|(ch & _ & X & _)])]; auto. }
    destruct X as [X|X]; lia. }
  apply Nat.eqb_neq in E0.
  assert (NZ : k_buf (c_out c) <> None \/ (ts_cs c < ts_rd c)%nat).
  { destruct Cases as [(_ & _ & _ & X)|(b & X & _)]; [right; fold bl in X; lia|left; rewrite X; discriminate]. }
  destruct (rs_treat_response_line_as_body data).
  { destruct (rs_process_body cb data bl c2) as [rc c3] eqn:Ep. apply ts_process_body in Ep.
    apply tsv_proj in Ep. destruct Ep as (P1 & P2 & P3 & P4 & P5 & P6 & P7).
    intros H. injection H as -> <-. unfold ts_ln, ts_rd, ts_cs in *. cbn.
    split; [congruence|]. split; [congruence|]. right. repeat split; first [congruence|exact NZ]. }
  match goal with |- rs_response_complete cb g (rs_set_out ?f3 (rs_set_out ?f2 (rs_set_out ?f1 c2))) = _ -> _ =>
    set (c3 := rs_set_out f1 c2); set (c4 := rs_set_out f2 c3); set (c5 := rs_set_out f3 c4) end.
  intros H. destruct (ts_response_complete _ _ H) as [W S]. apply tsw_proj in W. destruct W as (W1 & W2 & W3 & W4 & W5 & W6).
  assert (F5 : c_out_status c5 = c_out_status c2 /\ ts_ln c5 = ts_ln c2 /\
               ts_rd c5 = (if (ts_rd c2 <? bl)%nat then 0%nat else (ts_rd c2 - bl)%nat) /\
               ts_cs c5 = (if (ts_rd c5 <? ts_cs c2)%nat then ts_rd c5 else ts_cs c2)).
  { assert (X3 : ts_rd c3 = (if (ts_rd c2 <? bl)%nat then 0%nat else (ts_rd c2 - bl)%nat) /\ ts_cs c3 = ts_cs c2 /\
                 c_out_status c3 = c_out_status c2 /\ ts_ln c3 = ts_ln c2) by (repeat split; reflexivity).
    clearbody c3.
    assert (X4 : ts_rd c4 = ts_rd c3 /\ ts_cs c4 = (if (ts_rd c3 <? ts_cs c3)%nat then ts_rd c3 else ts_cs c3) /\
                 c_out_status c4 = c_out_status c3 /\ ts_ln c4 = ts_ln c3).
    { subst c4. unfold ts_rd, ts_cs, ts_ln, rs_set_out. cbn. destruct (k_read (c_out c3) <? k_consume (c_out c3))%nat; repeat split; reflexivity. }
    clearbody c4.
    assert (X5 : ts_rd c5 = ts_rd c4 /\ ts_cs c5 = ts_cs c4 /\ c_out_status c5 = c_out_status c4 /\ ts_ln c5 = ts_ln c4).
    { subst c5. unfold ts_rd, ts_cs, ts_ln, rs_set_out. cbn. destruct (k_buf (c_out c4)); repeat split; reflexivity. }
    destruct X3 as (X31 & X32 & X33 & X34). destruct X4 as (X41 & X42 & X43 & X44). destruct X5 as (X51 & X52 & X53 & X54).
    split; [congruence|]. split; [congruence|]. split; [congruence|].
    rewrite X52, X42, X51, X41, X32. reflexivity. }
  clearbody c5.
  destruct F5 as (F1 & F2 & F3 & F4). unfold ts_ln in *.
  split; [congruence|]. split; [congruence|]. left. split; [exact S|]. intros A1 A2 A3.
  rewrite ts_sub_if in F3. rewrite ts_min_if in F4. rewrite W2, W3, F4, F3. unfold ts_bl in A3.
  destruct Cases as [(B1 & B2 & B3 & B4)|(b & B1 & [(B2 & B3 & B4)|(ch & B2 & B3 & B4 & B5)])].
  - fold bl in B4. rewrite B3, R. lia.
  - rewrite B1 in A3. assert (Hb : bl = length b) by (unfold bl; rewrite B4; reflexivity).
    destruct A3 as [A3|A3]; [lia|]. rewrite B3, R, A3. lia.
  - rewrite B1 in A3. assert (Hb : bl = (length b + length ch)%nat) by (unfold bl; rewrite B4, app_length; reflexivity).
    rewrite B3, R. destruct A3 as [A3|A3]; lia.
Qed.

Lemma ts_FINALIZE c c' : ts_inv c -> c_out_state c = RES_FINALIZE -> rs_RES_FINALIZE cb g c = (ST_OK, c') -> ts_dec c c'.
Proof.
  intros Hi Hs H. unfold rs_RES_FINALIZE in H. pose proof Hi as [I1 I2].
  destruct (rs_closed c) eqn:Hc; cbn [negb] in H.
  - (* closed stream: straight to the tail *)
    destruct (ts_finalize_tail _ _ H) as (St & L & T).
    apply ts_dec_intro; try assumption; [|intros Hx; congruence]. intros _.
    pose proof (ts_closed_eq _ _ St) as Hc'. rewrite Hc in Hc'.
    destruct T as [[S _]|(S & T1 & T2 & T3 & T4)]; [ts_rank_tac|].
    rewrite Hs in S. assert (E : (ts_cs c' =? ts_rd c')%nat = true) by (apply Nat.eqb_eq; exact T1).
    unfold ts_rank. rewrite Hc, Hc', S, Hs, T3, E.
    destruct (k_buf (c_out c)) eqn:Eb; [lia|]. destruct T4 as [T4|T4]; [congruence|].
    destruct (ts_cs c =? ts_rd c)%nat eqn:E2; [apply Nat.eqb_eq in E2; lia|lia].
  - destruct (I2 eq_refl ltac:(rewrite Hs; discriminate)) as (A & B & J & _). specialize (J Hs).
    pose proof (tsv_peek c) as P. remember (rs_peek_next c) as c0 eqn:E0. clear E0.
    pose proof (tsv_k _ _ P) as K0. apply tsv_proj in P. destruct P as (P1 & P2 & P3 & P4 & P5 & P6 & P7).
    (* the tail, run on a parser cx that has read on from c *)
    assert (G : forall cx, c_out_status cx = c_out_status c -> ts_ln cx = ts_ln c -> c_out_state cx = c_out_state c ->
                  ts_cs cx = ts_cs c -> k_buf (c_out cx) = k_buf (c_out c) -> (ts_cs cx < ts_rd cx)%nat -> (ts_rd cx <= ts_ln c)%nat ->
                  rs_finalize_tail cb g cx = (ST_OK, c') -> ts_dec c c').
    { intros cx X1 X2 X3 X4 X5 X6 X7 Hx. destruct (ts_finalize_tail _ _ Hx) as (St & L & T).
      assert (St' : c_out_status c' = c_out_status c) by congruence.
      pose proof (ts_closed_eq _ _ St') as Hc'. rewrite Hc in Hc'.
      apply ts_dec_intro; try assumption; try congruence. intros _.
      destruct T as [[S T]|(S & T1 & T2 & T3 & T4)].
      - destruct T as (T1 & T2 & T3); [lia|lia|unfold ts_bl in *; rewrite X5, X4; exact J|]. split.
        + intros _. rewrite L, X2. repeat split; try lia; rewrite S; try discriminate. intros [Q|Q]; discriminate.
        + right. split; [lia|ts_rank_tac].
      - split; [apply ts_open_ok_cleared; [lia|exact T1|exact T3]|]. left. lia. }
    destruct (rs_nb c0) as [b|].
    + match type of H with (if ?bb then _ else _) = _ => destruct bb eqn:Eb end.
      * destruct (rs_finalize_scan (rs_bytes_fuel c0) c0) as [[|] c1] eqn:Es; [|discriminate].
        destruct (ts_finalize_scan _ _ _ Es) as (S1 & S2 & S3 & S4 & S5). unfold ts_k in *. injection S1 as _ S12 S13 S14. injection K0 as _ K02 K03 K04.
        unfold ts_ln in *. apply (G c1); try congruence; try lia.
      * apply orb_false_iff in Eb. destruct Eb as [_ Eb]. apply Nat.leb_gt in Eb. unfold ts_k in K0. injection K0 as _ K02 K03 K04.
        unfold ts_ln, ts_rd, ts_cs in *. apply (G c0); try congruence; try lia.
    + destruct (ts_response_complete _ _ H) as [W S]. apply tsw_proj in W. destruct W as (W1 & W2 & W3 & W4 & W5 & W6).
      assert (St' : c_out_status c' = c_out_status c) by congruence.
      pose proof (ts_closed_eq _ _ St') as Hc'. rewrite Hc in Hc'.
      apply ts_dec_intro; try assumption; try congruence. intros _. split.
      * intros _. rewrite W1, W2, W3, P2, P3, P4. repeat split; try lia; rewrite S; try discriminate. intros [Q|Q]; discriminate.
      * right. split; [lia|ts_rank_tac].
Qed.

(* connp->out_state(connp) *)
Lemma ts_state_fn c c' : ts_inv c -> rs_state_fn cb g (c_out_state c) c = (ST_OK, c') -> ts_dec c c'.
Proof.
  intros Hi H. destruct (c_out_state c) eqn:Hs; cbn [rs_state_fn] in H.
  - apply ts_IDLE; assumption.
  - apply ts_LINE; assumption.
  - apply ts_HEADERS; assumption.
  - apply ts_DETERMINE; assumption.
  - apply ts_CL_KNOWN; assumption.
  - apply ts_STREAM_CLOSE; assumption.
  - apply ts_CHUNKED_LENGTH; assumption.
  - apply ts_CHUNKED_DATA; assumption.
  - apply ts_CHUNKED_DATA_END; assumption.
  - apply ts_FINALIZE; assumption.
Qed.

(* a gap in RES_FINALIZE: htp_tx_state_response_complete_ex directly *)
Lemma ts_gap_complete c c' : ts_inv c -> c_out_state c = RES_FINALIZE -> rs_response_complete cb g c = (ST_OK, c') -> ts_dec c c'.
Proof.
  intros Hi Hs H. pose proof Hi as [I1 I2].
  destruct (ts_response_complete _ _ H) as [W S]. apply tsw_proj in W. destruct W as (W1 & W2 & W3 & W4 & W5 & W6).
  pose proof (ts_closed_eq _ _ W6) as Hcl.
  apply ts_dec_intro; try assumption.
  - intros Hc. rewrite Hc in Hcl. ts_rank_tac.
  - intros Hc. rewrite Hc in Hcl. destruct (I2 Hc ltac:(rewrite Hs; discriminate)) as (A & B & _). split.
    + intros _. rewrite W1, W2, W3. repeat split; try lia; rewrite S; try discriminate. intros [Q|Q]; discriminate.
    + right. split; [lia|ts_rank_tac].
Qed.

(* htp_res_handle_state_change keeps the view *)
Lemma tsv_handle_state_change c : ts_v (snd (rs_handle_state_change cb c)) = ts_v c.
Proof.
  unfold rs_handle_state_change.
  destruct (match c_out_state_previous c with Some p => _ | None => false end); [reflexivity|].
  set (p := if res_state_eqb (c_out_state c) RES_HEADERS then _ else (ST_OK, c)).
  assert (HP : ts_v (snd p) = ts_v c).
  { subst p. destruct (res_state_eqb _ _); [|reflexivity].
    set (c1 := match c_out_tx c with None => rs_fault c | Some _ => c end).
    assert (G1 : ts_v c1 = ts_v c) by (subst c1; destruct (c_out_tx c); reflexivity).
    destruct (_ =? _); [rewrite tsv_receiver_set; exact G1|].
    destruct (_ =? _); [rewrite tsv_receiver_set; exact G1|exact G1]. }
  destruct p as [rc c2]. cbn [snd] in HP. destruct rc; cbn [snd]; exact HP.
Qed.

(* ---- one pass of the for(;;) of htp_connp_res_data: inl = return, inr = go round again ---- *)
Definition rs_iter (gap : bool) (c : connp) : (connp * Z) + connp :=
  let s := c_out_state c in
  let gap_ok := res_state_eqb s RES_BODY_IDENTITY_CL_KNOWN || res_state_eqb s RES_BODY_IDENTITY_STREAM_CLOSE in
  if gap && negb gap_ok && negb (res_state_eqb s RES_FINALIZE) then inl (c, c_HTP_STREAM_CLOSED)
  else
    let '(rc, c) := if gap && negb gap_ok then rs_response_complete cb g c else rs_state_fn cb g s c in
    match rc with
    | ST_OK =>
      if c_out_status c =? c_HTP_STREAM_TUNNEL then inl (c, c_HTP_STREAM_TUNNEL)
      else
        match rs_handle_state_change cb c with
        | (ST_OK, c) => inr c
        | (rc, c) => inl (rs_res_exit cb g rc c)
        end
    | _ => inl (rs_res_exit cb g rc c)
    end.
Lemma rs_res_loop_step f gap c :
  rs_res_loop cb g (S f) gap c = match rs_iter gap c with inl r => r | inr c1 => rs_res_loop cb g f gap c1 end.
Proof.
  cbn [rs_res_loop]. unfold rs_iter.
  destruct (gap && negb _ && negb _)%bool; [reflexivity|].
  destruct (if (gap && negb _)%bool then _ else _) as [rc c1].
  destruct rc; try reflexivity.
  destruct (c_out_status c1 =? c_HTP_STREAM_TUNNEL); [reflexivity|].
  destruct (rs_handle_state_change cb c1) as [rc2 c2]. destruct rc2; reflexivity.
Qed.

(* ---- every pass that goes round again keeps ts_inv and decreases ts_phi ---- *)
Theorem ts_pass_decreases gap c c1 :
  ts_inv c -> rs_iter gap c = inr c1 -> ts_inv c1 /\ ts_ln c1 = ts_ln c /\ (ts_phi c1 < ts_phi c)%nat.
Proof.
  intros Hi H. unfold rs_iter in H.
  destruct (gap && negb _ && negb _)%bool eqn:E1; [discriminate|].
  set (p := if (gap && negb _)%bool then _ else _) in H.
  assert (D : fst p = ST_OK -> ts_dec c (snd p)).
  { subst p. destruct (gap && negb _)%bool eqn:E2.
    - cbn [andb] in E1. apply negb_false_iff in E1. apply res_state_eqb_eq in E1.
      destruct (rs_response_complete cb g c) as [rc c0] eqn:E. cbn [fst snd]. intros ->. exact (ts_gap_complete _ _ Hi E1 E).
    - destruct (rs_state_fn cb g (c_out_state c) c) as [rc c0] eqn:E. cbn [fst snd]. intros ->. exact (ts_state_fn _ _ Hi E). }
  destruct p as [rc c0]. cbn [fst snd] in D. destruct rc; try discriminate. specialize (D eq_refl).
  destruct (c_out_status c0 =? c_HTP_STREAM_TUNNEL) eqn:Et; [discriminate|]. apply Z.eqb_neq in Et.
  destruct D as [D|(D1 & D2 & D3 & D4)]; [contradiction|].
  pose proof (tsv_handle_state_change c0) as V. destruct (rs_handle_state_change cb c0) as [rc2 c2]. cbn [snd] in V.
  destruct rc2; try discriminate. injection H as <-.
  apply tsv_proj in V. destruct V as (V1 & V2 & V3 & V4 & V5 & V6 & V7).
  assert (Vc : rs_closed c2 = rs_closed c0) by (unfold rs_closed; rewrite V7; reflexivity).
  assert (Vb : ts_bl c2 = ts_bl c0) by (unfold ts_bl; rewrite V5; reflexivity).
  split; [|split; [congruence|]].
  - destruct D3 as [J1 J2]. unfold ts_inv, ts_open_ok. rewrite Vc, V2, V3, V4, V6, Vb. split; assumption.
  - assert (Rk : ts_rank c2 = ts_rank c0) by (unfold ts_rank; rewrite Vc, V6, V5, V4, V3; reflexivity).
    unfold ts_phi in *. rewrite Rk, V2, V4. exact D4.
Qed.

End States.

(* ====================================================================================================================
   The buffer clause of the entry condition (RES_BODY_DETERMINE / RES_BODY_IDENTITY_CL_KNOWN are never left with bytes in
   out_buf) is an invariant of htp_connp_res_data: for EVERY result code of every state function.
   ==================================================================================================================== *)
Definition ts_bufok (c : connp) : Prop :=
  c_out_state c = RES_BODY_DETERMINE \/ c_out_state c = RES_BODY_IDENTITY_CL_KNOWN -> ts_bl c = 0%nat.
(* the state after a pass: unchanged, or one of the listed ones *)
Definition ts_st (c c' : connp) (l : list res_state) : Prop := c_out_state c' = c_out_state c \/ In (c_out_state c') l.
Lemma ts_st_same c c' l : c_out_state c' = c_out_state c -> ts_st c c' l.
Proof. intros H. left. exact H. Qed.
Lemma ts_st_in c c' l s : c_out_state c' = s -> In s l -> ts_st c c' l.
Proof. intros <- H. right. exact H. Qed.
Lemma ts_st_via c c1 c' l : c_out_state c1 = c_out_state c -> ts_st c1 c' l -> ts_st c c' l.
Proof. unfold ts_st. intros ->. tauto. Qed.
Lemma ts_st_trans c c1 c' l : ts_st c c1 l -> ts_st c1 c' l -> ts_st c c' l.
Proof. unfold ts_st. intros [A|A] [B|B]; [left; congruence|right; exact B|right; rewrite B; exact A|right; exact B]. Qed.

Section Keeps.
Variable cb : cb_oracle.
Variable g : cfg.

Ltac ts_msolve2 :=
  lazymatch goal with
  | |- ts_m ?a (match rs_copy_byte ?x with Some c1 => c1 | None => rs_fault ?x end) => apply (ts_m_trans a x); [ts_msolve2|apply ts_m_cof]
  | |- ts_m ?a ?a => apply ts_m_refl
  | |- ts_m ?a (rs_peek_next ?x) => apply (ts_m_trans a x); [ts_msolve2|apply ts_m_peek]
  | |- ts_m ?a (rs_fault ?x) => apply (ts_m_trans a x); [ts_msolve2|apply ts_m_fault]
  | |- ts_m ?a (rs_set_out _ ?x) => apply (ts_m_trans a x); [ts_msolve2|apply ts_m_consume_succ]
  | H : rs_copy_byte ?x = Some ?y |- ts_m ?a ?y => apply (ts_m_trans a x); [ts_msolve2|apply (ts_m_copy _ _ H)]
  end.

Lemma ts_response_complete_nd c rc c' : rs_response_complete cb g c = (rc, c') -> rc <> ST_DATA_BUFFER.
Proof.
  unfold rs_response_complete. destruct (c_out_tx c) as [i|]; intros H.
  - pose proof (response_complete_fr cb g i false c) as [[_ N] _]. rewrite H in N. exact N.
  - injection H as <- _. discriminate.
Qed.
Lemma ts_response_complete_any c rc c' : rs_response_complete cb g c = (rc, c') ->
  k_buf (c_out c') = k_buf (c_out c) /\ ts_st c c' [RES_IDLE] /\ rc <> ST_DATA_BUFFER.
Proof.
  intros H0. pose proof (ts_response_complete_nd _ _ _ H0) as N. revert H0.
  unfold rs_response_complete. destruct (c_out_tx c) as [i|].
  2:{ intros H. injection H as <- <-. split; [reflexivity|]. split; [left; reflexivity|discriminate]. }
  unfold tx_state_response_complete_ex, run_hook.
  set (first := if negb (t_response_progress (tx_get c i) =? c_HTP_RESPONSE_COMPLETE) then _ else (ST_OK, c)).
  assert (H0 : ts_v (snd first) = ts_v c).
  { subst first. destruct (negb _); [|reflexivity].
    match goal with |- context [run_hook_ex cb ?a ?b ?x ?y ?z ?w] =>
      pose proof (tsv_run_hook_ex cb a b x y z w) as H2; destruct (run_hook_ex cb a b x y z w) as [rc1 c1] end.
    cbn [snd] in *.
    assert (H3 : ts_v c1 = ts_v c).
    { rewrite H2. destruct (negb _); [rewrite tsv_process_body_ex|]; apply tsv_tx_upd. }
    destruct rc1; try assumption. rewrite tsv_receiver_clear. exact H3. }
  destruct first as [rc1 c1]. cbn [snd] in H0. apply tsv_proj in H0. destruct H0 as (A1 & A2 & A3 & A4 & A5 & A6 & A7).
  intros H. revert H. destruct rc1; try (intros H; injection H as <- <-; split; [exact A5|split; [left; exact A6|exact N]]).
  cbv zeta.
  assert (W : forall ret cx, ts_v cx = ts_v c1 ->
            match tx_finalize cb g i cx with
            | (ST_OK, c2) => (ret, c2 <| c_out_tx := None |> <| c_out_state := RES_IDLE |>)
            | r => r end = (rc, c') ->
            k_buf (c_out c') = k_buf (c_out c) /\ ts_st c c' [RES_IDLE] /\ rc <> ST_DATA_BUFFER).
  { intros ret cx Vx. apply tsv_proj in Vx. destruct Vx as (X1 & X2 & X3 & X4 & X5 & X6 & X7).
    pose proof (tsv_tx_finalize cb g i cx) as F. destruct (tx_finalize cb g i cx) as [rc2 c2]. cbn [snd] in F.
    apply tsv_proj in F. destruct F as (F1 & F2 & F3 & F4 & F5 & F6 & F7).
    destruct rc2; intros H; injection H as _ <-; (split; [cbn; congruence|split; [|exact N]]); try (left; congruence).
    right. left. reflexivity. }
  destruct (negb false && _)%bool; [apply W; reflexivity|]. destruct (negb false && _)%bool; [apply W; reflexivity|].
  apply W; reflexivity.
Qed.

Lemma ts_response_start_any i c rc c' : tx_state_response_start cb i c = (rc, c') ->
  ts_st c c' [RES_LINE; RES_BODY_IDENTITY_STREAM_CLOSE].
Proof.
  unfold tx_state_response_start, run_hook.
  match goal with |- context [run_hook_ex cb ?a ?b ?x ?y ?z ?w] =>
    pose proof (tsv_run_hook_ex cb a b x y z w) as H2; destruct (run_hook_ex cb a b x y z w) as [rc1 c1] end.
  cbn [snd] in H2. apply tsv_proj in H2. destruct H2 as (_ & _ & _ & _ & _ & A6 & _).
  destruct rc1; try (intros H; injection H as <- <-; left; exact A6).
  destruct (t_is_protocol_0_9 _); intros H; injection H as <- <-; right.
  - right. left. reflexivity.
  - left. rewrite state_tx_upd. reflexivity.
Qed.

Lemma ts_IDLE_any c rc c' : rs_RES_IDLE cb g c = (rc, c') -> ts_st c c' [RES_LINE; RES_BODY_IDENTITY_STREAM_CLOSE].
Proof.
  unfold rs_RES_IDLE. destruct (negb (rs_has_byte c)); [intros H; injection H as <- <-; left; reflexivity|].
  match goal with |- context [let '(ok, c0) := ?E in _] => set (p := E) end.
  assert (HP : c_out_state (snd p) = c_out_state c).
  { subst p. destruct (match nth_error (c_txs c) (c_out_next_tx_index c) with Some (Some _) => true | _ => false end); [reflexivity|].
    set (c1 := if req_state_eqb _ REQ_FINALIZE then _ else _).
    assert (G1 : ts_v c1 = ts_v c).
    { subst c1. destruct (req_state_eqb _ _); [|reflexivity]. cbn. destruct (c_in_tx c); [|reflexivity].
      rewrite tsv_req_complete. reflexivity. }
    pose proof (tsv_tx_create g c1) as G2. destruct (connp_tx_create g c1) as [[id|] c2]; cbn [snd] in *.
    - cbn. rewrite state_tx_upd. cbn. apply tsv_proj in G2. apply tsv_proj in G1. destruct G1 as (_ & _ & _ & _ & _ & G1 & _).
      destruct G2 as (_ & _ & _ & _ & _ & G2 & _). congruence.
    - apply tsv_proj in G2. apply tsv_proj in G1. destruct G1 as (_ & _ & _ & _ & _ & G1 & _).
      destruct G2 as (_ & _ & _ & _ & _ & G2 & _). congruence. }
  destruct p as [ok c1]. cbn [snd] in HP. destruct ok.
  - intros H. apply (ts_st_via _ c1); [exact HP|]. exact (ts_response_start_any _ _ _ _ H).
  - intros H. injection H as <- <-. left. exact HP.
Qed.

Lemma ts_geo_state a b : rs_geo a = rs_geo b -> c_out_state a = c_out_state b.
Proof. unfold rs_geo. intros H. injection H as _ _ _ H _ _ _. exact H. Qed.
Lemma ts_consolidate_state c : c_out_state (snd (rs_consolidate g c)) = c_out_state c.
Proof. apply ts_geo_state. apply geo_consolidate. Qed.

(* htp_connp_RES_LINE, every result code *)
Lemma ts_line_complete_any c rc c' : rs_line_complete cb g c = (rc, c') -> ts_st c c' [RES_FINALIZE; RES_HEADERS].
Proof.
  unfold rs_line_complete. pose proof (ts_consolidate_state c) as Sc. destruct (rs_consolidate g c) as [[data|] c2]; cbn [snd] in Sc.
  2:{ intros H. injection H as <- <-. left. exact Sc. }
  intros H; apply (ts_st_via _ c2 _ _ Sc); revert H.
  destruct (rs_is_line_ignorable _ _).
  { intros H. injection H as <- <-. unfold ts_st. destruct (rs_closed c2); tsr; [right; left; reflexivity|left; reflexivity]. }
  match goal with |- context [rs_otx ?f c2] => pose proof (tsv_otx f c2) as V3; remember (rs_otx f c2) as c3 eqn:E3; clear E3 end.
  apply tsv_proj in V3. destruct V3 as (_ & _ & _ & _ & _ & A6 & _). intros H; apply (ts_st_via _ c3 _ _ A6); revert H.
  destruct (rs_chomp (rs_dbytes data)) as [dc chomp_result].
  destruct (rs_treat_response_line_as_body _).
  - set (c4 := if (S (k_read (c_out c3)) <? k_len (c_out c3))%nat then _ else c3).
    assert (V4 : c_out_state c4 = c_out_state c3) by (subst c4; brk; reflexivity).
    clearbody c4. intros H; apply (ts_st_via _ c4 _ _ V4); revert H.
    destruct (_ && _)%bool.
    { intros H. injection H as <- <-. left. tsr. reflexivity. }
    match goal with |- context [rs_process_body cb ?d ?n ?x] => destruct (rs_process_body cb d n x) as [rc7 c7] eqn:Ep end.
    apply ts_process_body in Ep. apply tsv_proj in Ep. destruct Ep as (_ & _ & _ & _ & _ & P6 & _). revert P6. tsr. intros P6.
    destruct rc7; try (intros H; injection H as <- <-; left; tsr; exact P6).
    destruct (k_len (c_out c7) <=? k_read (c_out c7))%nat; intros H; injection H as <- <-; unfold ts_st; tsr; [right; left; reflexivity|left; exact P6].
  - match goal with |- context [tx_state_response_line cb ?i ?x] =>
      pose proof (tsv_response_line cb i x) as V; destruct (tx_state_response_line cb i x) as [rc7 c7] end.
    cbn [snd] in V. apply tsv_proj in V. destruct V as (_ & _ & _ & _ & _ & P6 & _). revert P6. tsr. intros P6.
    destruct rc7; try (intros H; injection H as <- <-; left; exact P6).
    intros H. injection H as <- <-. unfold ts_st. tsr. right. right. left. reflexivity.
Qed.
Lemma ts_line_loop_any fuel : forall c rc c', rs_line_loop cb g fuel c = (rc, c') -> ts_st c c' [RES_FINALIZE; RES_HEADERS].
Proof.
  induction fuel as [|f IH]; intros c rc c' H; cbn [rs_line_loop] in H; [injection H as <- <-; left; reflexivity|].
  set (step := if negb (rs_closed c) then rs_copy_byte c else Some c) in H.
  destruct step as [c1|] eqn:Es; [|injection H as <- <-; left; reflexivity].
  assert (E : c_out_state c1 = c_out_state c).
  { subst step. destruct (negb (rs_closed c)).
    - destruct (ts_copy_some _ _ Es) as (K & _). unfold ts_k in K. injection K as _ _ K _. exact K.
    - injection Es as <-. reflexivity. }
  clear Es step. apply (ts_st_via _ c1 _ _ E). clear E c.
  assert (G : forall cx, ts_v cx = ts_v c1 ->
     (rs_line_complete cb g cx = (rc, c') \/ rs_line_loop cb g f cx = (rc, c')) -> ts_st c1 c' [RES_FINALIZE; RES_HEADERS]).
  { intros cx V Hx. apply tsv_proj in V. destruct V as (_ & _ & _ & _ & _ & V6 & _). apply (ts_st_via _ cx _ _ V6).
    destruct Hx as [Hx|Hx]; [exact (ts_line_complete_any _ _ _ Hx)|exact (IH _ _ _ Hx)]. }
  destruct (rs_nb_is c1 CR).
  - pose proof (tsv_peek c1) as P. destruct (rs_nb (rs_peek_next c1)) as [b|].
    2:{ injection H as <- <-. left. apply tsv_proj in P. tauto. }
    destruct (b =? LF)%N.
    + apply (G _ P). right. exact H.
    + match type of H with context [rs_set_out ?fn (rs_peek_next c1)] => set (c3 := rs_set_out fn (rs_peek_next c1)) in H end.
      assert (V3 : ts_v c3 = ts_v c1) by (rewrite <- P; reflexivity).
      apply (G _ V3). destruct (_ || _)%bool; [left|right]; exact H.
  - apply (G c1 eq_refl). destruct (_ || _)%bool; [left|right]; exact H.
Qed.

(* htp_connp_RES_HEADERS, every result code: RES_BODY_DETERMINE is entered with HTP_OK and an empty out_buf only *)
Definition ts_hdr_any (c : connp) (rc : st) (c' : connp) : Prop :=
  ts_st c c' [RES_FINALIZE] \/ (c_out_state c' = RES_BODY_DETERMINE /\ k_buf (c_out c') = None /\ rc = ST_OK).
Lemma ts_trailer_end_any c rc c' : rs_trailer_end cb c = (rc, c') -> ts_st c c' [RES_FINALIZE].
Proof.
  unfold rs_trailer_end, run_hook.
  pose proof (tsv_receiver_clear cb c) as P. destruct (res_receiver_finalize_clear cb c) as [rc1 c1]. cbn [snd] in P.
  apply tsv_proj in P. destruct P as (_ & _ & _ & _ & _ & P6 & _).
  destruct rc1; try (intros H; injection H as <- <-; left; exact P6).
  match goal with |- context [run_hook_ex cb ?a ?b ?x ?y ?z ?w] =>
    pose proof (tsv_run_hook_ex cb a b x y z w) as H2; destruct (run_hook_ex cb a b x y z w) as [rc2 c2] end.
  cbn [snd] in H2. apply tsv_proj in H2. destruct H2 as (_ & _ & _ & _ & _ & Q6 & _).
  destruct rc2; intros H; injection H as <- <-; try (left; congruence). right. left. reflexivity.
Qed.
Lemma ts_headers_line_any d c :
  match rs_headers_line cb g d c with
  | (Some (rc, c'), _) => ts_hdr_any c rc c'
  | (None, c2) => c_out_state c2 = c_out_state c
  end.
Proof.
  pose proof (ts_headers_line cb g d c) as L. unfold rs_headers_line in *.
  set (c0 := if rs_has_byte c then match rs_cur_byte c (k_read (c_out c)) with Some _ => c | None => rs_fault c end else c) in *.
  assert (G0 : ts_v c0 = ts_v c) by (subst c0; brk; reflexivity). clearbody c0.
  destruct (rs_is_line_terminator _ _ _).
  - set (c1 := rs_clear_buffer (rs_flush_header c0)) in *.
    assert (G1 : k_buf (c_out c1) = None /\ c_out_state c1 = c_out_state c).
    { pose proof (tsv_flush_header c0) as F. rewrite G0 in F. apply tsv_proj in F. destruct F as (F1 & F2 & F3 & F4 & F5 & F6 & F7).
      subst c1. cbn. split; [reflexivity|exact F6]. }
    clearbody c1. destruct G1 as (A5 & A6).
    destruct (_ =? _).
    + right. cbn. repeat split. exact A5.
    + destruct (rs_trailer_end cb c1) as [rc c'] eqn:Et. left. apply (ts_st_via _ c1 _ _ A6). exact (ts_trailer_end_any _ _ _ Et).
  - destruct L as (K & _). unfold ts_k in K. injection K as _ _ K _. exact K.
Qed.
Lemma ts_headers_loop_any fuel : forall lf c, ts_hdr_any c (fst (rs_headers_loop cb g fuel lf c)) (snd (rs_headers_loop cb g fuel lf c)).
Proof.
  induction fuel as [|f IH]; intros lf c; cbn [rs_headers_loop]; [left; left; reflexivity|].
  destruct (rs_closed c).
  { destruct (rs_trailer_end cb c) as [rc c'] eqn:Et. cbn [fst snd]. left. exact (ts_trailer_end_any _ _ _ Et). }
  destruct (rs_copy_byte c) as [c1|] eqn:Ec; [|left; left; reflexivity].
  assert (G : forall lf' cx, ts_m c cx -> ts_hdr_any c (fst (rs_headers_loop cb g f lf' cx)) (snd (rs_headers_loop cb g f lf' cx))).
  { intros lf' cx (M1 & _). unfold ts_k in M1. injection M1 as _ _ M1 _. destruct (IH lf' cx) as [I|I]; [left|right; exact I].
    apply (ts_st_via _ cx _ _ M1). exact I. }
  pose proof (ts_m_copy _ _ Ec) as M1.
  destruct (_ && _)%bool; [apply G; exact M1|].
  match goal with |- context [let '(scan, c) := ?E in _] => set (sc := E) end.
  assert (HSC : ts_m c1 (snd sc)).
  { subst sc. cbv zeta. brk; cbn [snd]; ts_msolve2. }
  destruct sc as [scan c2]. cbn [snd] in HSC. pose proof (ts_m_trans _ _ _ M1 HSC) as M2.
  destruct scan as [|[|scan]]; [left; left; destruct M2 as (K & _); unfold ts_k in K; injection K as _ _ K _; exact K|apply G; exact M2|].
  pose proof (ts_consolidate_state c2) as Sc.
  destruct (rs_consolidate g c2) as [[data|] c3] eqn:Eco; cbn [snd] in Sc.
  2:{ left. left. cbn [snd]. destruct M2 as (K & _). unfold ts_k in K. injection K as _ _ K _. congruence. }
  destruct (ts_consolidate_w g _ _ _ Eco) as (K3 & R3 & _).
  assert (M3 : ts_m c c3).
  { apply (ts_m_trans _ c2); [exact M2|]. unfold ts_m. rewrite R3. repeat split; auto. }
  destruct (_ && _)%bool; [apply G; exact M3|].
  pose proof (ts_headers_line_any (rs_dbytes data) c3) as HL. pose proof (ts_headers_line cb g (rs_dbytes data) c3) as HL2.
  destruct (rs_headers_line cb g (rs_dbytes data) c3) as [[[rc c']|] c4].
  - cbn [fst snd]. destruct HL as [HL|HL]; [left|right; exact HL].
    destruct M3 as (K & _). unfold ts_k in K. injection K as _ _ K _. apply (ts_st_via _ c3 _ _ K). exact HL.
  - apply G. exact (ts_m_trans _ _ _ M3 HL2).
Qed.

(* htp_connp_RES_BODY_DETERMINE / htp_connp_RES_BODY_IDENTITY_CL_KNOWN, every result code: out_buf is not touched, and the
   result is never HTP_DATA_BUFFER (so the exit path does not append to it either) *)
Lemma ts_DETERMINE_any c rc c' : rs_RES_BODY_DETERMINE cb c = (rc, c') -> k_buf (c_out c') = k_buf (c_out c) /\ rc <> ST_DATA_BUFFER.
Proof.
  unfold rs_RES_BODY_DETERMINE.
  set (t := rs_tx c). set (sn := t_response_status_number t).
  assert (Leaf : forall x, k_buf (c_out x) = k_buf (c_out c) -> rs_response_headers cb x = (rc, c') ->
                   k_buf (c_out c') = k_buf (c_out c) /\ rc <> ST_DATA_BUFFER).
  { intros x X1 H. pose proof (response_headers_fr2 cb x) as [[_ N] _]. rewrite H in N. cbn [fst] in N.
    apply ts_response_headers in H. apply tsv_proj in H. destruct H as (_ & _ & _ & _ & H5 & _). split; [congruence|exact N]. }
  destruct (_ && _ && _)%bool.
  { apply Leaf. reflexivity. }
  set (c3 := if t_request_method_number t =? c_HTP_M_CONNECT then _ else c).
  assert (G3 : k_buf (c_out c3) = k_buf (c_out c)) by (subst c3; unfold rs_unblock_request; brk; reflexivity).
  clearbody c3.
  set (cl := rs_hdr_get_c (t_response_headers t) rs_str_content_length).
  set (te := rs_hdr_get_c (t_response_headers t) rs_str_transfer_encoding).
  cbv zeta.
  destruct (_ && _ && _)%bool.
  { apply Leaf. rewrite <- G3. unfold rs_unblock_request. brk; reflexivity. }
  destruct (_ && _ && _)%bool.
  { intros H. injection H as <- <-. tsr. split; [exact G3|discriminate]. }
  set (c4 := if (400 <=? sn) && _ && _ && _ then _ else c3).
  assert (G4 : k_buf (c_out c4) = k_buf (c_out c)) by (subst c4; brk; exact G3). clearbody c4.
  set (c5 := if t_request_method_number t =? c_HTP_M_HEAD then _ else _).
  assert (G5 : k_buf (c_out c5) = k_buf (c_out c)) by (subst c5; brk; tsr; exact G4). clearbody c5.
  set (p := if negb (res_state_eqb (c_out_state c5) RES_FINALIZE) then _ else (ST_OK, c5)).
  assert (HP : k_buf (c_out (snd p)) = k_buf (c_out c) /\ fst p <> ST_DATA_BUFFER).
  { subst p. destruct (negb _); [|cbn [fst snd]; split; [exact G5|discriminate]].
    set (ct := rs_hdr_get_c (t_response_headers t) rs_str_content_type).
    set (c6 := match ct with Some h => _ | None => c5 end).
    assert (G6 : k_buf (c_out c6) = k_buf (c_out c)) by (subst c6; destruct ct; tsr; exact G5).
    clearbody c6. cbv zeta.
    destruct (match te with Some h => _ | None => false end).
    { cbn [fst snd]. tsr. split; [exact G6|discriminate]. }
    destruct cl as [h|].
    - destruct (_ <? 0); [cbn [fst snd]; tsr; split; [exact G6|discriminate]|].
      destruct (negb (parse_content_length (h_value h) =? 0)); cbn [fst snd]; tsr; (split; [exact G6|discriminate]).
    - destruct (match ct with Some h => _ | None => false end); cbn [fst snd]; tsr; (split; [exact G6|discriminate]). }
  destruct p as [rc7 c7]. cbn [fst snd] in HP. destruct HP as [P1 P2].
  destruct rc7; try (intros H; injection H as <- <-; split; [exact P1|exact P2]).
  apply Leaf. exact P1.
Qed.

Lemma ts_process_body_nd d n c rc c' : rs_process_body cb d n c = (rc, c') -> rc <> ST_DATA_BUFFER.
Proof. intros H. pose proof (process_body_fr2 cb d n c) as [[_ N] _]. rewrite H in N. exact N. Qed.

Lemma ts_CL_KNOWN_any c rc c' : rs_RES_BODY_IDENTITY_CL_KNOWN cb c = (rc, c') ->
  k_buf (c_out c') = k_buf (c_out c) /\ rc <> ST_DATA_BUFFER /\ ts_st c c' [RES_FINALIZE].
Proof.
  unfold rs_RES_BODY_IDENTITY_CL_KNOWN.
  set (n := rs_bytes_to_consume c (c_out_body_data_left c)). clearbody n.
  destruct (rs_closed c).
  { intros H. pose proof (ts_process_body_nd _ _ _ _ _ H) as N. apply ts_process_body in H. apply tsv_proj in H.
    destruct H as (_ & _ & _ & _ & H5 & H6 & _). split; [exact H5|]. split; [exact N|]. apply (ts_st_in _ _ _ _ H6). left. reflexivity. }
  destruct (n =? 0)%nat; [intros H; injection H as <- <-; split; [reflexivity|split; [discriminate|left; reflexivity]]|].
  pose proof (tsv_body_slice c n) as V1. destruct (rs_body_slice c n) as [data c1]. cbn [snd] in V1.
  destruct (rs_process_body cb data n c1) as [rc2 c2] eqn:Ep. pose proof (ts_process_body_nd _ _ _ _ _ Ep) as N2.
  apply ts_process_body in Ep. rewrite V1 in Ep. apply tsv_proj in Ep. destruct Ep as (_ & _ & _ & _ & E5 & E6 & _).
  destruct rc2; try (intros H; injection H as <- <-; split; [exact E5|split; [exact N2|left; exact E6]]).
  cbv zeta. match goal with |- context [if ?b then _ else _] => destruct b end.
  - intros H. pose proof (ts_process_body_nd _ _ _ _ _ H) as N. apply ts_process_body in H. apply tsv_proj in H.
    destruct H as (_ & _ & _ & _ & H5 & H6 & _). revert H5 H6. tsr. intros H5 H6. split; [congruence|]. split; [exact N|]. apply (ts_st_in _ _ _ _ H6). left. reflexivity.
  - intros H. injection H as <- <-. tsr. split; [exact E5|]. split; [discriminate|left; exact E6].
Qed.

(* the other states never produce RES_BODY_DETERMINE / RES_BODY_IDENTITY_CL_KNOWN *)
Lemma ts_STREAM_CLOSE_any c rc c' : rs_RES_BODY_IDENTITY_STREAM_CLOSE cb c = (rc, c') -> ts_st c c' [RES_FINALIZE].
Proof.
  unfold rs_RES_BODY_IDENTITY_STREAM_CLOSE.
  set (n := (k_len (c_out c) - k_read (c_out c))%nat).
  set (c0 := if (k_len (c_out c) <? k_read (c_out c))%nat then rs_fault c else c).
  assert (V0 : c_out_state c0 = c_out_state c) by (subst c0; destruct (_ <? _)%nat; reflexivity). clearbody c0 n.
  match goal with |- context [let '(rc, c1) := ?E in _] => set (p := E) end.
  assert (HP : c_out_state (snd p) = c_out_state c).
  { subst p. destruct (n =? 0)%nat; [exact V0|].
    pose proof (tsv_body_slice c0 n) as V1. destruct (rs_body_slice c0 n) as [data c1]. cbn [snd] in V1.
    destruct (rs_process_body cb data n c1) as [rc2 c2] eqn:Ep. apply ts_process_body in Ep. rewrite V1 in Ep.
    apply tsv_proj in Ep. destruct Ep as (_ & _ & _ & _ & _ & E6 & _). destruct rc2; cbn [snd]; tsr; congruence. }
  destruct p as [rc1 c1]. cbn [snd] in HP.
  destruct rc1; try (intros H; injection H as <- <-; left; exact HP).
  destruct (rs_closed c1); intros H; injection H as <- <-; [right; left; reflexivity|left; exact HP].
Qed.
Lemma ts_CHUNKED_DATA_any c rc c' : rs_RES_BODY_CHUNKED_DATA cb c = (rc, c') -> ts_st c c' [RES_BODY_CHUNKED_DATA_END].
Proof.
  unfold rs_RES_BODY_CHUNKED_DATA.
  set (n := rs_bytes_to_consume c (c_out_chunked_length c)). clearbody n.
  destruct (n =? 0)%nat; [intros H; injection H as <- <-; left; reflexivity|].
  pose proof (tsv_body_slice c n) as V1. destruct (rs_body_slice c n) as [data c1]. cbn [snd] in V1.
  destruct (rs_process_body cb data n c1) as [rc2 c2] eqn:Ep.
  apply ts_process_body in Ep. rewrite V1 in Ep. apply tsv_proj in Ep. destruct Ep as (_ & _ & _ & _ & _ & E6 & _).
  destruct rc2; try (intros H; injection H as <- <-; left; exact E6).
  cbv zeta. match goal with |- context [if ?b then _ else _] => destruct b end; intros H; injection H as <- <-.
  - right. left. reflexivity.
  - left. tsr. exact E6.
Qed.
Lemma ts_chunked_data_end_loop_any fuel : forall c rc c', rs_chunked_data_end_loop fuel c = (rc, c') -> ts_st c c' [RES_BODY_CHUNKED_LENGTH].
Proof.
  induction fuel as [|f IH]; intros c rc c' H; cbn [rs_chunked_data_end_loop] in H; [injection H as <- <-; left; reflexivity|].
  destruct (rs_next_byte c) as [c1|] eqn:E1; [|injection H as <- <-; left; reflexivity].
  destruct (ts_next_some _ _ E1) as (K & _). unfold ts_k in K. injection K as _ _ K3 _.
  match type of H with context [rs_otx ?fn c1] => pose proof (state_otx fn c1) as V; remember (rs_otx fn c1) as c2 eqn:E2; clear E2 end.
  destruct (rs_nb_is c2 LF).
  - injection H as <- <-. right. left. reflexivity.
  - apply (ts_st_via _ c2); [congruence|]. exact (IH _ _ _ H).
Qed.
Lemma ts_chunked_length_loop_any fuel : forall c rc c', rs_chunked_length_loop g fuel c = (rc, c') ->
  ts_st c c' [RES_BODY_IDENTITY_STREAM_CLOSE; RES_BODY_CHUNKED_DATA; RES_HEADERS].
Proof.
  induction fuel as [|f IH]; intros c rc c' H; cbn [rs_chunked_length_loop] in H; [injection H as <- <-; left; reflexivity|].
  destruct (rs_copy_byte c) as [c1|] eqn:E1; [|injection H as <- <-; left; reflexivity].
  destruct (ts_copy_some _ _ E1) as (K & _). unfold ts_k in K. injection K as _ _ K3 _.
  apply (ts_st_via _ c1 _ _ K3). cbv zeta in H.
  match type of H with (if ?b then _ else _) = _ => destruct b end; [|exact (IH _ _ _ H)].
  pose proof (ts_consolidate_state c1) as Sc. destruct (rs_consolidate g c1) as [[data|] c2]; cbn [snd] in Sc.
  2:{ injection H as <- <-. left. exact Sc. }
  apply (ts_st_via _ c2 _ _ Sc).
  match type of H with context [rs_otx ?fn c2] => pose proof (state_otx fn c2) as V; remember (rs_otx fn c2) as c3 eqn:E3; clear E3 end.
  apply (ts_st_via _ c3 _ _ V).
  set (cl := fst (parse_chunked_length (rs_dbytes data))) in *. clearbody cl.
  destruct (cl =? -1004).
  { refine (ts_st_via _ _ _ _ _ (IH _ _ _ H)). reflexivity. }
  destruct (cl <? 0); [injection H as <- <-; right; left; tsr; reflexivity|].
  destruct (0 <? cl); injection H as <- <-; right; tsr; [right; left; reflexivity|right; right; left; reflexivity].
Qed.
Lemma ts_finalize_tail_any c rc c' : rs_finalize_tail cb g c = (rc, c') -> ts_st c c' [RES_IDLE].
Proof.
  unfold rs_finalize_tail. pose proof (ts_consolidate_state c) as Sc. destruct (rs_consolidate g c) as [[data|] c2]; cbn [snd] in Sc.
  2:{ intros H. injection H as <- <-. left. exact Sc. }
  intros H; apply (ts_st_via _ c2 _ _ Sc); revert H.
  destruct (_ =? 0)%nat.
  { intros H. exact (proj1 (proj2 (ts_response_complete_any _ _ _ H))). }
  destruct (rs_treat_response_line_as_body data).
  { match goal with |- context [rs_process_body cb ?d ?n ?x] => destruct (rs_process_body cb d n x) as [rc3 c3] eqn:Ep end.
    apply ts_process_body in Ep. apply tsv_proj in Ep. destruct Ep as (_ & _ & _ & _ & _ & P6 & _).
    intros H. injection H as <- <-. left. exact P6. }
  intros H. refine (ts_st_via _ _ _ _ _ (proj1 (proj2 (ts_response_complete_any _ _ _ H)))).
  unfold rs_set_out. cbn. repeat match goal with |- context [if ?b then _ else _] => destruct b; cbn end;
    repeat match goal with |- context [match ?b with _ => _ end] => destruct b; cbn end; reflexivity.
Qed.
Lemma ts_finalize_scan_state fuel : forall c b c', rs_finalize_scan fuel c = (b, c') -> c_out_state c' = c_out_state c.
Proof.
  induction fuel as [|f IH]; intros c b c' H; cbn [rs_finalize_scan] in H; [injection H as _ <-; reflexivity|].
  destruct (rs_copy_byte c) as [c1|] eqn:E1; [|injection H as _ <-; reflexivity].
  destruct (ts_copy_some _ _ E1) as (K & _). unfold ts_k in K. injection K as _ _ K3 _.
  destruct (rs_nb_is c1 LF); [injection H as _ <-; exact K3|]. rewrite (IH _ _ _ H). exact K3.
Qed.
Lemma ts_FINALIZE_any c rc c' : rs_RES_FINALIZE cb g c = (rc, c') -> ts_st c c' [RES_IDLE].
Proof.
  unfold rs_RES_FINALIZE. destruct (negb (rs_closed c)); [|apply ts_finalize_tail_any].
  pose proof (tsv_peek c) as P. apply tsv_proj in P. destruct P as (_ & _ & _ & _ & _ & P6 & _).
  remember (rs_peek_next c) as c0 eqn:E0. clear E0.
  intros H; apply (ts_st_via _ c0 _ _ P6); revert H.
  destruct (rs_nb c0) as [b|]; [|intros H; exact (proj1 (proj2 (ts_response_complete_any _ _ _ H)))].
  match goal with |- (if ?bb then _ else _) = _ -> _ => destruct bb end; [|apply ts_finalize_tail_any].
  destruct (rs_finalize_scan (rs_bytes_fuel c0) c0) as [[|] c1] eqn:Es; pose proof (ts_finalize_scan_state _ _ _ _ Es) as S1.
  - intros H. apply (ts_st_via _ c1 _ _ S1). exact (ts_finalize_tail_any _ _ _ H).
  - intros H. injection H as <- <-. left. exact S1.
Qed.

(* ---- ts_bufok through a pass, an exit, the loop, the entry point ---- *)
Definition ts_not_counted (c : connp) : Prop :=
  c_out_state c <> RES_BODY_DETERMINE /\ c_out_state c <> RES_BODY_IDENTITY_CL_KNOWN.
Lemma ts_bufok_nc c : ts_not_counted c -> ts_bufok c.
Proof. intros [A B] [H|H]; contradiction. Qed.
Ltac ts_nc_tac Hs :=
  match goal with T : ts_st _ _ _ |- _ =>
    unfold ts_st, In in T; rewrite Hs in T; unfold ts_not_counted;
    repeat match type of T with _ \/ _ => destruct T as [T|T] end; try contradiction;
    first [rewrite T | rewrite <- T]; split; discriminate end.

Lemma ts_state_fn_bufok c rc c' :
  ts_bufok c -> rs_state_fn cb g (c_out_state c) c = (rc, c') -> ts_bufok c' /\ (rc = ST_DATA_BUFFER -> ts_not_counted c').
Proof.
  intros Hb H. destruct (c_out_state c) eqn:Hs; cbn [rs_state_fn] in H.
  - pose proof (ts_IDLE_any _ _ _ H) as T. assert (N : ts_not_counted c') by ts_nc_tac Hs. split; [apply ts_bufok_nc; exact N|intros _; exact N].
  - unfold rs_RES_LINE in H. pose proof (ts_line_loop_any _ _ _ _ H) as T. assert (N : ts_not_counted c') by ts_nc_tac Hs.
    split; [apply ts_bufok_nc; exact N|intros _; exact N].
  - unfold rs_RES_HEADERS in H. pose proof (ts_headers_loop_any (rs_bytes_fuel c) false c) as T. rewrite H in T. cbn [fst snd] in T.
    destruct T as [T|(T1 & T2 & T3)].
    + assert (N : ts_not_counted c') by ts_nc_tac Hs. split; [apply ts_bufok_nc; exact N|intros _; exact N].
    + split; [intros _; unfold ts_bl; rewrite T2; reflexivity|intros Hx; congruence].
  - destruct (ts_DETERMINE_any _ _ _ H) as [B N]. split; [|intros Hx; contradiction].
    intros _. unfold ts_bl in *. rewrite B. apply Hb. left. exact Hs.
  - destruct (ts_CL_KNOWN_any _ _ _ H) as (B & N & _). split; [|intros Hx; contradiction].
    intros _. unfold ts_bl in *. rewrite B. apply Hb. right. exact Hs.
  - pose proof (ts_STREAM_CLOSE_any _ _ _ H) as T. assert (N : ts_not_counted c') by ts_nc_tac Hs. split; [apply ts_bufok_nc; exact N|intros _; exact N].
  - unfold rs_RES_BODY_CHUNKED_LENGTH in H. pose proof (ts_chunked_length_loop_any _ _ _ _ H) as T.
    assert (N : ts_not_counted c') by ts_nc_tac Hs. split; [apply ts_bufok_nc; exact N|intros _; exact N].
  - pose proof (ts_CHUNKED_DATA_any _ _ _ H) as T. assert (N : ts_not_counted c') by ts_nc_tac Hs. split; [apply ts_bufok_nc; exact N|intros _; exact N].
  - unfold rs_RES_BODY_CHUNKED_DATA_END in H. pose proof (ts_chunked_data_end_loop_any _ _ _ _ H) as T.
    assert (N : ts_not_counted c') by ts_nc_tac Hs. split; [apply ts_bufok_nc; exact N|intros _; exact N].
  - pose proof (ts_FINALIZE_any _ _ _ H) as T. assert (N : ts_not_counted c') by ts_nc_tac Hs. split; [apply ts_bufok_nc; exact N|intros _; exact N].
Qed.

Lemma ts_bufok_v a b : ts_v a = ts_v b -> ts_bufok b -> ts_bufok a.
Proof. intros V. apply tsv_proj in V. destruct V as (_ & _ & _ & _ & V5 & V6 & _). unfold ts_bufok, ts_bl. rewrite V5, V6. tauto. Qed.

Lemma ts_exit_bufok rc c : ts_bufok c -> (rc = ST_DATA_BUFFER -> ts_not_counted c) -> ts_bufok (fst (rs_res_exit cb g rc c)).
Proof.
  intros Hb Hn. unfold rs_res_exit.
  assert (S : forall z x, ts_bufok x -> ts_bufok (rs_set_out_status z x)) by (intros z x Hx; exact Hx).
  destruct rc; try (cbn [fst]; apply S; exact Hb).
  - (* ST_DATA *) pose proof (tsv_receiver_send cb false c) as V. cbn [fst]. apply S. exact (ts_bufok_v _ _ V Hb).
  - destruct (_ <=? _)%nat; cbn [fst]; apply S; exact Hb.
  - (* ST_DATA_BUFFER *)
    pose proof (tsv_receiver_send cb false c) as V. apply tsv_proj in V. destruct V as (_ & _ & _ & _ & _ & V6 & _).
    pose proof (geo_res_buffer g (snd (res_receiver_send_data cb false c))) as G. apply ts_geo_state in G.
    destruct (rs_res_buffer g (snd (res_receiver_send_data cb false c))) as [brc c2]. cbn [snd] in G.
    assert (N2 : ts_not_counted c2) by (destruct (Hn eq_refl) as [N1 N2]; unfold ts_not_counted; rewrite G, V6; split; assumption).
    destruct brc; cbn [fst]; apply S; apply ts_bufok_nc; exact N2.
Qed.

Lemma ts_iter_bufok gap c : ts_bufok c ->
  match rs_iter cb g gap c with inl r => ts_bufok (fst r) | inr c1 => ts_bufok c1 end.
Proof.
  intros Hb. unfold rs_iter.
  destruct (gap && negb _ && negb _)%bool; [exact Hb|].
  set (p := if (gap && negb _)%bool then _ else _).
  assert (D : ts_bufok (snd p) /\ (fst p = ST_DATA_BUFFER -> ts_not_counted (snd p))).
  { subst p. destruct (gap && negb _)%bool.
    - destruct (rs_response_complete cb g c) as [rc c0] eqn:E. cbn [fst snd].
      destruct (ts_response_complete_any _ _ _ E) as (B & T & N). split; [|intros Hx; contradiction].
      intros Hs. unfold ts_bl in *. rewrite B. apply Hb. destruct T as [T|[T|[]]]; [rewrite <- T; exact Hs|rewrite <- T in Hs; destruct Hs; discriminate].
    - destruct (rs_state_fn cb g (c_out_state c) c) as [rc c0] eqn:E. cbn [fst snd]. exact (ts_state_fn_bufok _ _ _ Hb E). }
  destruct p as [rc c0]. cbn [fst snd] in D. destruct D as [D1 D2].
  destruct rc; try (apply ts_exit_bufok; [exact D1|intros Hx; first [discriminate Hx|exact (D2 Hx)]]).
  destruct (c_out_status c0 =? c_HTP_STREAM_TUNNEL); [exact D1|].
  pose proof (tsv_handle_state_change cb c0) as V. destruct (handle_state_change_fr cb c0) as [[_ N] _].
  destruct (rs_handle_state_change cb c0) as [rc2 c2]. cbn [fst snd] in V, N.
  pose proof (ts_bufok_v _ _ V D1) as B2.
  destruct rc2; try exact B2; apply ts_exit_bufok; try exact B2; intros Hx; first [discriminate Hx|contradiction].
Qed.

Lemma ts_loop_bufok fuel gap : forall c, ts_bufok c -> ts_bufok (fst (rs_res_loop cb g fuel gap c)).
Proof.
  induction fuel as [|f IH]; intros c Hb; [exact Hb|].
  rewrite rs_res_loop_step. pose proof (ts_iter_bufok gap c Hb) as I.
  destruct (rs_iter cb g gap c) as [r|c1]; [exact I|apply IH; exact I].
Qed.

(* the buffer clause holds for the parser of htp_connp_create and is kept by every htp_connp_res_data *)
Lemma ts_bufok_new : ts_bufok connp_new.
Proof. intros [H|H]; discriminate. Qed.
Theorem res_data_keeps_bufok data len c : ts_bufok c -> ts_bufok (fst (connp_res_data cb g data len c)).
Proof.
  intros Hb. unfold connp_res_data.
  destruct (_ =? _); [exact Hb|]. destruct (_ =? _); [exact Hb|].
  destruct (match c_out_tx c with None => _ | Some _ => false end); [exact Hb|].
  destruct (_ && _)%bool; [exact Hb|].
  set (c0 := _ <| c_out_data_counter ::= _ |>).
  assert (B0 : ts_bufok c0) by exact Hb. clearbody c0.
  destruct (c_out_status c0 =? _); [exact B0|]. apply ts_loop_bufok. exact B0.
Qed.

End Keeps.

(* ---- fuel ---- *)
Section Entry.
Variable cb : cb_oracle.
Variable g : cfg.

Lemma ts_phi_lt_fuel c : (ts_phi c < rs_res_fuel (ts_ln c))%nat.
Proof. pose proof (ts_rank_le c). unfold ts_phi, rs_res_fuel. lia. Qed.

(* more fuel than ts_phi never changes the result of the loop *)
Theorem rs_res_loop_enough_fuel gap : forall f c k,
  ts_inv c -> (ts_phi c < f)%nat -> rs_res_loop cb g (f + k) gap c = rs_res_loop cb g f gap c.
Proof.
  induction f as [|f IH]; intros c k Hi Hf; [lia|].
  change (S f + k)%nat with (S (f + k)). rewrite !rs_res_loop_step.
  destruct (rs_iter cb g gap c) as [r|c1] eqn:E; [reflexivity|].
  destruct (ts_pass_decreases cb g gap c c1 Hi E) as (D1 & D2 & D3). apply IH; [exact D1|lia].
Qed.
Theorem res_loop_fuel_sufficient gap c k :
  ts_inv c -> rs_res_loop cb g (rs_res_fuel (ts_ln c) + k) gap c = rs_res_loop cb g (rs_res_fuel (ts_ln c)) gap c.
Proof. intros Hi. apply rs_res_loop_enough_fuel; [exact Hi|apply ts_phi_lt_fuel]. Qed.

(* rs_res_loop with fuel exhaustion reported as None instead of fault + ERROR *)
Fixpoint rs_res_loop_opt (fuel : nat) (gap : bool) (c : connp) : option (connp * Z) :=
  match fuel with
  | O => None
  | S f => match rs_iter cb g gap c with
           | inl r => Some r
           | inr c1 => rs_res_loop_opt f gap c1
           end
  end.
Theorem rs_res_loop_never_out_of_fuel gap : forall f c,
  ts_inv c -> (ts_phi c < f)%nat -> rs_res_loop_opt f gap c = Some (rs_res_loop cb g f gap c).
Proof.
  induction f as [|f IH]; intros c Hi Hf; [lia|].
  rewrite rs_res_loop_step. cbn [rs_res_loop_opt].
  destruct (rs_iter cb g gap c) as [r|c1] eqn:E; [reflexivity|].
  destruct (ts_pass_decreases cb g gap c c1 Hi E) as (D1 & D2 & D3). apply IH; [exact D1|lia].
Qed.

(* htp_connp_res_data with the loop abstracted: [ret] wraps the early returns, [loop] runs the for(;;) *)
Definition ts_res_data_gen {R : Type} (ret : connp * Z -> R) (loop : bool -> connp -> R)
    (data : option bytes) (len : nat) (c : connp) : R :=
  if c_out_status c =? c_HTP_STREAM_STOP then ret (c, c_HTP_STREAM_STOP)
  else if c_out_status c =? c_HTP_STREAM_ERROR then ret (c, c_HTP_STREAM_ERROR)
  else if match c_out_tx c with None => negb (res_state_eqb (c_out_state c) RES_IDLE) | Some _ => false end
  then ret (rs_set_out_status c_HTP_STREAM_ERROR c, c_HTP_STREAM_ERROR)
  else if (len =? 0)%nat && negb (rs_closed c) then ret (c, c_HTP_STREAM_CLOSED)
  else
    let c := rs_set_out (fun k => k <| k_data := data |> <| k_len := len |> <| k_read := 0%nat |>
                                    <| k_consume := 0%nat |> <| k_receiver := 0%nat |>) c in
    let c := c <| c_out_data_counter ::= Z.add (Z.of_nat len) |> in
    if c_out_status c =? c_HTP_STREAM_TUNNEL then ret (c, c_HTP_STREAM_TUNNEL)
    else
      let is_gap := match data with None => (0 <? len)%nat | Some _ => false end in
      loop is_gap c.
Lemma ts_res_data_is_gen data len c :
  connp_res_data cb g data len c = ts_res_data_gen (fun r => r) (rs_res_loop cb g (rs_res_fuel len)) data len c.
Proof. reflexivity. Qed.

(* what the entry point needs of the parser it is given: a closed stream is only fed the empty chunk (htp_connp_close), and
   ts_bufok, which holds for htp_connp_create's parser and is kept by every htp_connp_res_data (res_data_keeps_bufok) *)
Definition ts_entry_ok (len : nat) (c : connp) : Prop := (rs_closed c = true -> len = 0%nat) /\ ts_bufok c.

Lemma ts_res_data_gen_loop {R R' : Type} (h : R' -> R) (ret' : connp * Z -> R') (loop : bool -> connp -> R) (loop' : bool -> connp -> R')
    data len c :
  ts_entry_ok len c ->
  (forall gap c2, ts_inv c2 -> ts_ln c2 = len -> loop gap c2 = h (loop' gap c2)) ->
  ts_res_data_gen (fun r => h (ret' r)) loop data len c = h (ts_res_data_gen ret' loop' data len c).
Proof.
  intros [Hcl Hb] HL. unfold ts_res_data_gen.
  destruct (c_out_status c =? c_HTP_STREAM_STOP); [reflexivity|].
  destruct (c_out_status c =? c_HTP_STREAM_ERROR); [reflexivity|].
  destruct (match c_out_tx c with None => negb (res_state_eqb (c_out_state c) RES_IDLE) | Some _ => false end); [reflexivity|].
  destruct ((len =? 0)%nat && negb (rs_closed c)); [reflexivity|].
  cbv zeta.
  set (c0 := (rs_set_out _ c) <| c_out_data_counter ::= Z.add (Z.of_nat len) |>).
  destruct (c_out_status c0 =? c_HTP_STREAM_TUNNEL); [reflexivity|].
  apply HL; [|reflexivity].
  assert (E : rs_closed c0 = rs_closed c /\ ts_ln c0 = len /\ ts_rd c0 = 0%nat /\ ts_cs c0 = 0%nat /\ ts_bl c0 = ts_bl c /\
              c_out_state c0 = c_out_state c) by (repeat split; reflexivity).
  destruct E as (E1 & E2 & E3 & E4 & E5 & E6). clearbody c0.
  unfold ts_inv, ts_open_ok. rewrite E1, E2, E3, E4, E5, E6. split; [exact Hcl|].
  intros _ _. split; [lia|]. split; [lia|]. split; [intros _; right; reflexivity|exact Hb].
Qed.

(* htp_connp_res_data never runs out of fuel: the variant that reports exhaustion as None always answers, with the same result *)
Definition connp_res_data_opt (data : option bytes) (len : nat) (c : connp) : option (connp * Z) :=
  ts_res_data_gen Some (rs_res_loop_opt (rs_res_fuel len)) data len c.
(* htp_connp_res_data run with some other amount of fuel *)
Definition connp_res_data_fuel (fuel : nat) (data : option bytes) (len : nat) (c : connp) : connp * Z :=
  ts_res_data_gen (fun r => r) (rs_res_loop cb g fuel) data len c.

Theorem res_data_never_out_of_fuel data len c :
  ts_entry_ok len c -> connp_res_data_opt data len c = Some (connp_res_data cb g data len c).
Proof.
  intros He. rewrite ts_res_data_is_gen. unfold connp_res_data_opt.
  apply (ts_res_data_gen_loop Some (fun r => r)); [exact He|].
  intros gap c2 Hi Hl. apply rs_res_loop_never_out_of_fuel; [exact Hi|]. rewrite <- Hl. apply ts_phi_lt_fuel.
Qed.
Theorem res_data_fuel_sufficient data len c k :
  ts_entry_ok len c -> connp_res_data_fuel (rs_res_fuel len + k) data len c = connp_res_data cb g data len c.
Proof.
  intros He. rewrite ts_res_data_is_gen. unfold connp_res_data_fuel.
  apply (ts_res_data_gen_loop (fun r => r) (fun r => r)); [exact He|].
  intros gap c2 Hi Hl. rewrite <- Hl. apply res_loop_fuel_sufficient. exact Hi.
Qed.

(* the two ways htp_connp_res_data is called: a data/gap call on a stream that is not closed, and the close call *)
Corollary res_data_open_never_out_of_fuel data len c :
  ts_bufok c -> rs_closed c = false -> connp_res_data_opt data len c = Some (connp_res_data cb g data len c).
Proof. intros Hb Hc. apply res_data_never_out_of_fuel. split; [intros Hx; congruence|exact Hb]. Qed.
Corollary res_data_close_never_out_of_fuel c :
  ts_bufok c -> connp_res_data_opt None 0 c = Some (connp_res_data cb g None 0 c).
Proof. intros Hb. apply res_data_never_out_of_fuel. split; [reflexivity|exact Hb]. Qed.

End Entry.

Print Assumptions res_data_keeps_bufok.
Print Assumptions ts_pass_decreases.
Print Assumptions res_loop_fuel_sufficient.
Print Assumptions rs_res_loop_never_out_of_fuel.
Print Assumptions res_data_never_out_of_fuel.
Print Assumptions res_data_fuel_sufficient.
