(* C09, hand-over progress: "a caller following the documented hand-over protocol always makes progress (never an endless
   DATA_OTHER ping-pong while unconsumed data remains on both sides)".
   The caller is the driver Spec/SHandover.hs_run (docs/QUICK_START 2.2.1 - 2.2.8) over the model's API step MConnp.cp_step.
   Everything here holds for EVERY callback oracle, configuration, schedule, pair of chunk queues and -- the global theorems
   included -- from EVERY parser state (no invariant is assumed), not only for grammatical messages.
     local, response side   res_data_other_idle, res_idle_not_stuck        (PHandoverRes.v)
     local, request side    req_data_other_state, req_data_other_zero      (PHandoverReq.v)
     no ping-pong           handover_no_pingpong: response yields with (DATA_OTHER, 0); whatever one request call does
                            then, the next response call on a non-empty chunk does NOT answer (DATA_OTHER, 0)
     global                 handover_terminates / handover_done / handover_blocked: the driver stops within
                            4 * (pending bytes + pending chunks) + 4 calls, with nothing left to offer, or with the request
                            side waiting in REQ_CONNECT_WAIT_RESPONSE for response bytes the caller does not have.
   The bound "at most three (DATA_OTHER, 0) answers in a row" is tight: handover_three_stuck_witness. *)
Require Import Htp.Model.MConnTypes Htp.Model.MTxCommon Htp.Model.MReq Htp.Model.MRes Htp.Model.MConnp Htp.Spec.SHandover.
Require Import Htp.Proof.PReq Htp.Proof.PCounters Htp.Proof.PHandoverGen Htp.Proof.PHandoverRes Htp.Proof.PHandoverReq.
Require Import Lia.
Local Open Scope Z_scope.

(* the response side is idle (between two responses) and its stream is not closed *)
Definition ho_idle (c : connp) : Prop := c_out_state c = RES_IDLE /\ c_out_status c <> c_HTP_STREAM_CLOSED.

Section H.
Variable cb : cb_oracle.
Variable g : cfg.

(* an API data call of the driver is the entry point followed by the end-of-call bookkeeping, which touches neither the
   parser states nor the stream states *)
Lemma hs_call_res c ch c' rc n : hs_call cb g c HS ch = (c', rc, n) ->
  exists c1, connp_res_data cb g (Some ch) (length ch) c = (c1, rc) /\ n = k_read (c_out c1) /\
             c_out_state c' = c_out_state c1 /\ c_out_status c' = c_out_status c1 /\
             c_in_state c' = c_in_state c1 /\ c_in_status c' = c_in_status c1.
Proof.
  unfold hs_call, hs_op, cp_step. destruct (connp_res_data cb g (Some ch) (length ch) c) as [c1 rc1].
  unfold finish_call. intros H. injection H as <- <- <-. exists c1. repeat split.
Qed.
Lemma hs_call_req c ch c' rc n : hs_call cb g c HQ ch = (c', rc, n) ->
  exists c1, connp_req_data cb g (Some ch) (length ch) c = (c1, rc) /\ n = k_read (c_in c1) /\
             c_out_state c' = c_out_state c1 /\ c_out_status c' = c_out_status c1 /\
             c_in_state c' = c_in_state c1 /\ c_in_status c' = c_in_status c1.
Proof.
  unfold hs_call, hs_op, cp_step. destruct (connp_req_data cb g (Some ch) (length ch) c) as [c1 rc1].
  unfold finish_call. intros H. injection H as <- <- <-. exists c1. repeat split.
Qed.

(* A1 - A3 of PHandoverGen for the parser *)
Lemma ho_A1 c ch c' rc n : hs_call cb g c HS ch = (c', rc, n) -> rc = c_HTP_STREAM_DATA_OTHER -> ho_idle c'.
Proof.
  intros H ->. destruct (hs_call_res _ _ _ _ _ H) as (c1 & E & _ & S1 & S2 & _).
  destruct (res_data_other_idle cb g _ _ _ _ E) as (A & _ & B). split; [congruence|]. rewrite S2, B. vm_compute. discriminate.
Qed.
Lemma ho_A2 c ch c' rc n : ho_idle c -> hs_call cb g c HQ ch = (c', rc, n) -> ho_idle c'.
Proof.
  intros [P1 P2] H. destruct (hs_call_req _ _ _ _ _ H) as (c1 & E & _ & S1 & S2 & _).
  pose proof (req_data_out_kept cb g (Some ch) (length ch) c) as K. cbv zeta in K. rewrite E in K. cbn [fst] in K. destruct K as [K1 K2].
  split; [congruence|]. rewrite S2. destruct K2 as [K2|[[_ K2]|K2]]; rewrite K2; [exact P2| |]; vm_compute; discriminate.
Qed.
Lemma ho_A3 c ch c' rc n : ho_idle c -> ch <> [] -> hs_call cb g c HS ch = (c', rc, n) -> rc = c_HTP_STREAM_DATA_OTHER -> n <> O.
Proof.
  intros [P1 P2] Hne H ->. destruct (hs_call_res _ _ _ _ _ H) as (c1 & E & -> & _).
  pose proof (res_idle_not_stuck cb g _ _ _ P1 P2 Hne E). lia.
Qed.

(* ---- no ping-pong: after a response yield, one request call later the response side moves ---- *)
Theorem handover_no_pingpong c ds c1 n1 dq c2 rc2 n2 ds' c3 rc3 n3 :
  hs_call cb g c HS ds = (c1, c_HTP_STREAM_DATA_OTHER, n1) ->
  hs_call cb g c1 HQ dq = (c2, rc2, n2) ->
  ds' <> [] -> hs_call cb g c2 HS ds' = (c3, rc3, n3) ->
  ~ (rc3 = c_HTP_STREAM_DATA_OTHER /\ n3 = O).
Proof.
  intros H1 H2 Hne H3 [-> ->].
  pose proof (ho_A1 _ _ _ _ _ H1 eq_refl) as P1. pose proof (ho_A2 _ _ _ _ _ P1 H2) as P2.
  exact (ho_A3 _ _ _ _ _ P2 Hne H3 eq_refl eq_refl).
Qed.
(* ... and the same without the request call in between (the caller has no request bytes) *)
Theorem handover_yield_then_moves c ds c1 n1 ds' c3 rc3 n3 :
  hs_call cb g c HS ds = (c1, c_HTP_STREAM_DATA_OTHER, n1) ->
  ds' <> [] -> hs_call cb g c1 HS ds' = (c3, rc3, n3) ->
  ~ (rc3 = c_HTP_STREAM_DATA_OTHER /\ n3 = O).
Proof.
  intros H1 Hne H3 [-> ->]. pose proof (ho_A1 _ _ _ _ _ H1 eq_refl) as P1.
  exact (ho_A3 _ _ _ _ _ P1 Hne H3 eq_refl eq_refl).
Qed.

(* ---- local progress, request side, in one statement (rq_inv: the between-calls invariant of PReq.v) ---- *)
Theorem handover_req_local d c c' :
  rq_inv c -> d <> [] -> c_in_status c <> c_HTP_STREAM_CLOSED ->
  connp_req_data cb g (Some d) (length d) c = (c', c_HTP_STREAM_DATA_OTHER) ->
  c_in_state c' = REQ_CONNECT_WAIT_RESPONSE /\
  ((1 <= k_read (c_in c'))%nat \/ c_in_state c = REQ_CONNECT_CHECK \/
   (c_in_state c = REQ_CONNECT_WAIT_RESPONSE /\ t_response_progress (rq_tx c) <= c_HTP_RESPONSE_LINE)).
Proof.
  intros Hi Hd Hc H. split; [exact (proj1 (req_data_other_state cb g _ _ _ _ H))|].
  destruct (k_read (c_in c')) as [|k] eqn:E; [right; exact (req_data_other_zero cb g d c c' Hi Hd Hc H E)|left; lia].
Qed.

(* ---- global: the driver terminates, from every state, for every schedule and every pair of queues ---- *)
Notation run := (h_run connp (hs_call cb g) c_HTP_STREAM_DATA c_HTP_STREAM_DATA_OTHER).

Theorem handover_terminates_gen fuel sched i forced (s : hst connp) :
  (4 * h_measure s + 3 < fuel)%nat -> fst (fst (run fuel sched i forced s)) <> HFuel.
Proof.
  intros B. apply (h_run_terminates connp (hs_call cb g) c_HTP_STREAM_DATA c_HTP_STREAM_DATA_OTHER ho_idle ho_A1 ho_A2 ho_A3).
  left. exact B.
Qed.
Theorem handover_terminates sched c q s : fst (fst (hs_run cb g sched c q s)) <> HFuel.
Proof. unfold hs_run. apply handover_terminates_gen. unfold h_fuel. lia. Qed.

(* HDone: every direction is either no longer fed (it answered ERROR / STOP / CLOSED / TUNNEL) or its queue is empty *)
Theorem handover_done sched c q s s' l :
  hs_run cb g sched c q s = (HDone, s', l) ->
  (h_qlive s' = false \/ h_q s' = []) /\ (h_slive s' = false \/ h_s s' = []).
Proof.
  unfold hs_run. intros H. destruct (h_run_done _ _ _ _ _ _ _ _ _ _ _ H) as [A B].
  unfold h_avail in A, B. cbn [h_live h_queue] in A, B.
  split.
  - destruct (h_qlive s'); [right|left; reflexivity]. destruct (h_q s'); [reflexivity|discriminate].
  - destruct (h_slive s'); [right|left; reflexivity]. destruct (h_s s'); [reflexivity|discriminate].
Qed.

(* HBlocked: the request parser waits for the answer to a CONNECT (the documented situation: "the parser needs to see some
   response data") and the caller has no response chunk to offer *)
Theorem handover_blocked sched c q s s' l :
  hs_run cb g sched c q s = (HBlocked, s', l) ->
  (h_slive s' = false \/ h_s s' = []) /\
  c_in_state (h_st s') = REQ_CONNECT_WAIT_RESPONSE /\ c_in_status (h_st s') = c_HTP_STREAM_DATA_OTHER /\
  exists ch rest, ch <> [] /\ h_q s' = ch :: rest.
Proof.
  unfold hs_run. intros H. destruct (h_run_blocked _ _ _ _ _ _ _ _ _ _ _ H) as (A & x & ch & rest & Hne & Hq & Hc).
  split.
  - unfold h_avail in A. cbn [h_live h_queue] in A. destruct (h_slive s'); [right|left; reflexivity]. destruct (h_s s'); [reflexivity|discriminate].
  - destruct (hs_call_req _ _ _ _ _ Hc) as (c1 & E & _ & _ & _ & S3 & S4).
    destruct (req_data_other_state cb g _ _ _ _ E) as [B1 B2].
    split; [congruence|]. split; [congruence|]. exists ch, rest. split; assumption.
Qed.

End H.

(* ---- witnesses (vm_compute) ---- *)
Definition ho_w_g : cfg := cp_make_cfg 1 (Z.to_nat 18000) 512 false false 0.
Definition ho_w_cb : cb_oracle := fun _ _ => CB_OK.
Definition ho_w_c0 : connp := fst (cp_step ho_w_cb ho_w_g connp_new OpOpen).
(* "CONNECT a:443 HTTP/1.1\r\nHost: a:443\r\n\r\n" *)
Definition ho_w_connect : bytes := [67;79;78;78;69;67;84;32;97;58;52;52;51;32;72;84;84;80;47;49;46;49;13;10;72;111;115;116;58;32;97;58;52;52;51;13;10;13;10]%N.
(* "GET / HTTP/1.1\r\n\r\n" *)
Definition ho_w_get : bytes := [71;69;84;32;47;32;72;84;84;80;47;49;46;49;13;10;13;10]%N.
(* "HTTP/1.1 403 No\r\nContent-Length: 2\r\n\r\n" | "noHTT" | "P/1.1 200 OK\r\n\r\n" *)
Definition ho_w_r1 : bytes := [72;84;84;80;47;49;46;49;32;52;48;51;32;78;111;13;10;67;111;110;116;101;110;116;45;76;101;110;103;116;104;58;32;50;13;10;13;10]%N.
Definition ho_w_r2 : bytes := [110;111;72;84;84]%N.
Definition ho_w_r3 : bytes := [80;47;49;46;49;32;50;48;48;32;79;75;13;10;13;10]%N.
Definition ho_brief (r : hout * hst connp * list hcall) : hout * list (hdir * nat * Z * nat) :=
  (fst (fst r), map (fun k => (hc_dir k, hc_len k, hc_rc k, hc_consumed k)) (snd r)).

(* the bound of three is tight: request [CONNECT CONNECT GET] in one chunk, a refused first CONNECT whose response ends
   in front of a response line cut across three chunks: the request side waits on the SECOND CONNECT when the response to
   the FIRST one yields (out_data_other_at_tx_end): request (DATA_OTHER, 0), response (DATA_OTHER, 0), request
   (DATA_OTHER, 0), then the response side moves and everything is consumed *)
Example handover_three_stuck_witness :
  ho_brief (hs_run ho_w_cb ho_w_g (fun _ => HQ) ho_w_c0 [ho_w_connect ++ ho_w_connect ++ ho_w_get] [ho_w_r1; ho_w_r2; ho_w_r3]) =
  (HDone, [(HQ, 96%nat, 5, 39%nat); (HS, 38%nat, 9, 38%nat); (HQ, 57%nat, 5, 39%nat); (HS, 5%nat, 9, 5%nat);
           (HQ, 18%nat, 5, 0%nat); (HS, 16%nat, 5, 0%nat); (HQ, 18%nat, 5, 0%nat); (HS, 16%nat, 9, 16%nat); (HQ, 18%nat, 9, 18%nat)]).
Proof. vm_compute. reflexivity. Qed.

(* the reading "after the response side yields, the request side consumes a byte (or completes the waiting transaction) on
   its next call" is FALSE of the code, for a reachable state: calls 6 and 7 above *)
Definition handover_request_moves_after_yield_full : Prop :=
  forall cb g ops ds dq c1 n1 c2 rc2 n2,
    hs_call cb g (fst (cp_run cb g connp_new ops)) HS ds = (c1, c_HTP_STREAM_DATA_OTHER, n1) -> dq <> [] ->
    hs_call cb g c1 HQ dq = (c2, rc2, n2) -> ~ (rc2 = c_HTP_STREAM_DATA_OTHER /\ n2 = O).
Definition ho_w_ops : list cp_op :=
  [OpOpen; OpReqData (ho_w_connect ++ ho_w_connect ++ ho_w_get); OpResData ho_w_r1; OpReqData (ho_w_connect ++ ho_w_get); OpResData ho_w_r2; OpReqData ho_w_get].
Theorem handover_request_moves_after_yield_refuted : ~ handover_request_moves_after_yield_full.
Proof.
  intros F.
  refine (F ho_w_cb ho_w_g ho_w_ops ho_w_r3 ho_w_get _ O _ c_HTP_STREAM_DATA_OTHER O _ _ _ (conj eq_refl eq_refl)).
  - vm_compute. reflexivity.
  - discriminate.
  - vm_compute. reflexivity.
Qed.

(* likewise "while the request side waits, a response call on a non-empty chunk never answers (DATA_OTHER, 0)" is false:
   calls 5 and 6 above (the request side waits on the second CONNECT, the response side yields at the end of the
   first). What holds is handover_no_pingpong: the NEXT response call moves. *)
Definition handover_no_mutual_stuck_full : Prop :=
  forall cb g ops dq ds c1 c2 rc2 n2,
    dq <> [] -> hs_call cb g (fst (cp_run cb g connp_new ops)) HQ dq = (c1, c_HTP_STREAM_DATA_OTHER, O) -> ds <> [] ->
    hs_call cb g c1 HS ds = (c2, rc2, n2) -> ~ (rc2 = c_HTP_STREAM_DATA_OTHER /\ n2 = O).
Theorem handover_no_mutual_stuck_refuted : ~ handover_no_mutual_stuck_full.
Proof.
  intros F.
  refine (F ho_w_cb ho_w_g (firstn 5 ho_w_ops) ho_w_get ho_w_r3 _ _ c_HTP_STREAM_DATA_OTHER O _ _ _ _ (conj eq_refl eq_refl)).
  - discriminate.
  - vm_compute. reflexivity.
  - discriminate.
  - vm_compute. reflexivity.
Qed.

(* a blocked run: the answer to the CONNECT never comes *)
Example handover_blocked_example :
  ho_brief (hs_run ho_w_cb ho_w_g (fun _ => HS) ho_w_c0 [ho_w_connect ++ ho_w_get] []) = (HBlocked, [(HQ, 57%nat, 5, 39%nat); (HQ, 18%nat, 5, 0%nat)]).
Proof. vm_compute. reflexivity. Qed.

(* ==== FINAL THEOREMS (re-exported in Props/Properties_C09.v) ==== *)
Print Assumptions res_data_other_idle.
Print Assumptions res_idle_not_stuck.
Print Assumptions req_data_other_state.
Print Assumptions req_data_other_zero.
Print Assumptions handover_no_pingpong.
Print Assumptions handover_yield_then_moves.
Print Assumptions handover_terminates_gen.
Print Assumptions handover_terminates.
Print Assumptions handover_done.
Print Assumptions handover_blocked.
Print Assumptions handover_three_stuck_witness.
Print Assumptions handover_request_moves_after_yield_refuted.
Print Assumptions handover_no_mutual_stuck_refuted.
Print Assumptions handover_req_local.
