(* C12 -- the two UTF-8 path functions (table-driven DFA of htp_utf8_decoder.c, regenerated tables) against the
   declarative tokeniser of Spec/SPath.v: output bytes and the indicators UTF8_VALID / INVALID / OVERLONG / HALF_FULL. *)
Require Import Htp.Model.Base Htp.Model.MPath Htp.Spec.SPath Htp.Proof.PPathFlags Htp.Proof.PPathLen.
Local Open Scope N_scope.

(* ------------------------------------------------------------------ the tables implement the readable automaton *)

(* the DFA state that expects k more bytes, the next one in 80..hi *)
Definition utf8_mid (k : nat) (hi : N) : N :=
  if Nat.eqb k 1 then 2 else if Nat.eqb k 2 then (if hi =? 159 then 5 else 3) else (if hi =? 143 then 8 else 7).
Definition mids : list (nat * N) := [(1%nat, 191); (2%nat, 191); (2%nat, 159); (3%nat, 191); (3%nat, 143)].
Definition inb (p : nat * N) (l : list (nat * N)) : bool :=
  existsb (fun q => Nat.eqb (fst p) (fst q) && (snd p =? snd q)) l.
(* bound on the code point accumulated so far (keeps the uint32_t shift exact) *)
Definition ubound (k : nat) : N := match k with 1%nat => 262144 | 2%nat => 4096 | 3%nat => 64 | _ => 0 end.

Lemma inb_In p l : inb p l = true -> In p l.
Proof.
  unfold inb. rewrite existsb_exists. intros (q & Hq & H). apply andb_true_iff in H as [H1 H2].
  apply Nat.eqb_eq in H1. apply N.eqb_eq in H2. destruct p, q; cbn in *; subst; exact Hq.
Qed.

Definition chkA (b : N) : bool :=
  let r := utf8_step utf8_ACCEPT 0 b in
  if b <? 128 then (fst r =? utf8_ACCEPT) && (snd r =? b)
  else match utf8_lead b with
       | None => fst r =? utf8_REJECT
       | Some (n, cp0, hi) =>
         (fst r =? utf8_mid (n - 1) hi) && (snd r =? cp0) && inb ((n - 1)%nat, hi) mids && (cp0 <? ubound (n - 1)) && Nat.leb 2 n
       end.
Lemma chkA_all : forallb chkA all_bytes = true.
Proof. vm_compute. reflexivity. Qed.

Definition chkB (p : nat * N) : bool :=
  let '(k, hi) := p in
  negb (utf8_mid k hi =? utf8_ACCEPT) && negb (utf8_mid k hi =? utf8_REJECT) &&
  (Nat.eqb k 1 || inb ((k - 1)%nat, 191) mids) && Nat.leb 1 k && Nat.leb k 3 &&
  forallb (fun b => fst (utf8_step (utf8_mid k hi) 0 b) =?
                    (if utf8_in 128 hi b then (if Nat.eqb k 1 then utf8_ACCEPT else utf8_mid (k - 1) 191) else utf8_REJECT))
          all_bytes.
Lemma chkB_all : forallb chkB mids = true.
Proof. vm_compute. reflexivity. Qed.

Lemma AR_distinct : (utf8_REJECT =? utf8_ACCEPT) = false.
Proof. vm_compute. reflexivity. Qed.

Lemma step_fst s cp b : fst (utf8_step s cp b) = fst (utf8_step s 0 b).
Proof. reflexivity. Qed.
Lemma step_snd_A cp b : snd (utf8_step utf8_ACCEPT cp b) = snd (utf8_step utf8_ACCEPT 0 b).
Proof. unfold utf8_step. rewrite N.eqb_refl. reflexivity. Qed.
Lemma step_snd_mid s cp b : (s =? utf8_ACCEPT) = false ->
  snd (utf8_step s cp b) = N.lor (N.land b 63) (N.shiftl cp 6 mod 4294967296).
Proof. intros H. unfold utf8_step. rewrite H. reflexivity. Qed.

(* from the fresh state *)
Lemma step_A cp b : b < 256 ->
  if b <? 128 then utf8_step utf8_ACCEPT cp b = (utf8_ACCEPT, b)
  else match utf8_lead b with
       | None => fst (utf8_step utf8_ACCEPT cp b) = utf8_REJECT
       | Some (n, cp0, hi) =>
         utf8_step utf8_ACCEPT cp b = (utf8_mid (n - 1) hi, cp0) /\ In ((n - 1)%nat, hi) mids /\ cp0 < ubound (n - 1) /\ (2 <= n)%nat
       end.
Proof.
  intros Hb. pose proof (byte_sweep chkA chkA_all b Hb) as H. unfold chkA in H. cbv zeta in H.
  rewrite (surjective_pairing (utf8_step utf8_ACCEPT cp b)), step_fst, step_snd_A.
  destruct (b <? 128).
  - apply andb_true_iff in H as [H1 H2]. apply N.eqb_eq in H1, H2. rewrite H1, H2. reflexivity.
  - destruct (utf8_lead b) as [[[n cp0] hi]|].
    + apply andb_true_iff in H as [H E5]. apply andb_true_iff in H as [H E4]. apply andb_true_iff in H as [H E3].
      apply andb_true_iff in H as [E1 E2]. cbn [fst].
      apply N.eqb_eq in E1, E2. apply inb_In in E3. apply N.ltb_lt in E4. apply Nat.leb_le in E5.
      rewrite E1, E2. auto.
    + cbn [fst]. apply N.eqb_eq in H. exact H.
Qed.

Lemma mids_facts k hi : In (k, hi) mids ->
  (utf8_mid k hi =? utf8_ACCEPT) = false /\ (utf8_mid k hi =? utf8_REJECT) = false /\
  (k = 1%nat \/ In ((k - 1)%nat, 191) mids) /\ (1 <= k <= 3)%nat /\
  forall b, b < 256 -> fst (utf8_step (utf8_mid k hi) 0 b) =
                       (if utf8_in 128 hi b then (if Nat.eqb k 1 then utf8_ACCEPT else utf8_mid (k - 1) 191) else utf8_REJECT).
Proof.
  intros Hin. pose proof chkB_all as H. rewrite forallb_forall in H. specialize (H _ Hin). unfold chkB in H.
  apply andb_true_iff in H as [H E6]. apply andb_true_iff in H as [H E5]. apply andb_true_iff in H as [H E4].
  apply andb_true_iff in H as [H E3]. apply andb_true_iff in H as [E1 E2].
  apply negb_true_iff in E1, E2. apply Nat.leb_le in E4, E5.
  repeat split; try assumption; try lia.
  - apply orb_true_iff in E3 as [E3|E3]; [left; apply Nat.eqb_eq; exact E3|right; apply inb_In; exact E3].
  - intros b Hb. apply N.eqb_eq. exact (byte_sweep _ E6 b Hb).
Qed.

(* ---- the accumulated code point stays inside uint32_t ---- *)
Lemma lor_lt_pow2 a b m : a < 2 ^ m -> b < 2 ^ m -> N.lor a b < 2 ^ m.
Proof.
  intros Ha Hb.
  destruct (N.eq_dec a 0) as [-> | Na]; [rewrite N.lor_0_l; exact Hb|].
  destruct (N.eq_dec b 0) as [-> | Nb]; [rewrite N.lor_0_r; exact Ha|].
  assert (N.lor a b <> 0) by (intros H; apply N.lor_eq_0_iff in H as [H _]; auto).
  apply N.log2_lt_pow2; [lia|]. rewrite N.log2_lor.
  apply N.log2_lt_pow2 in Ha; [|lia]. apply N.log2_lt_pow2 in Hb; [|lia]. lia.
Qed.

Lemma cp_step k hi cp b : In (k, hi) mids -> cp < ubound k ->
  N.lor (N.land b 63) (N.shiftl cp 6 mod 4294967296) = N.lor (N.land b 63) (N.shiftl cp 6) /\
  (k <> 1%nat -> N.lor (N.land b 63) (N.shiftl cp 6) < ubound (k - 1)).
Proof.
  intros Hin Hcp.
  assert (Hl : N.land b 63 < 64).
  { change 63 with (N.ones 6). rewrite N.land_ones. apply N.mod_lt. discriminate. }
  rewrite N.shiftl_mul_pow2. change (2 ^ 6) with 64.
  assert (Hk : k = 1%nat \/ k = 2%nat \/ k = 3%nat).
  { cbn in Hin. repeat (destruct Hin as [Hin|Hin]; [inversion Hin; auto|]). destruct Hin. }
  destruct Hk as [-> | [-> | ->]]; cbn [ubound] in Hcp; (split; [rewrite N.mod_small by lia; reflexivity|intros Hne]).
  - congruence.
  - cbn [Nat.sub ubound]. change 262144 with (2 ^ 18). apply lor_lt_pow2; change (2 ^ 18) with 262144; lia.
  - cbn [Nat.sub ubound]. change 4096 with (2 ^ 12). apply lor_lt_pow2; change (2 ^ 12) with 4096; lia.
Qed.

(* ------------------------------------------------------------------ loop variables vs position inside a token *)

Inductive uabs := UFresh | UMid (k : nat) (hi cp : N) (seen : nat).
Definition absrel (v : utf8_vars) (a : uabs) : Prop :=
  match a with
  | UFresh => u_state v = utf8_ACCEPT /\ u_counter v = 0%nat
  | UMid k hi cp seen =>
    In (k, hi) mids /\ u_state v = utf8_mid k hi /\ u_cp v = cp /\ u_counter v = seen /\ cp < ubound k /\ (1 <= seen)%nat
  end.

(* the tokens still to come, seen from a loop state *)
Definition toks (eat : bool) (a : uabs) (rest : bytes) : list utf8_tok :=
  match a with
  | UFresh => utf8_lex_loop eat 0 rest
  | UMid k hi cp seen =>
    match utf8_conts k hi cp rest seen with
    | UR_ok cp' => UT_seq (seen + k) cp' :: utf8_lex_loop eat k rest
    | UR_broken seen' => UT_bad :: utf8_lex_loop eat (seen' - seen + (if eat then 1 else 0)) rest
    | UR_end => [UT_trunc]
    end
  end.

Lemma conts_broken_ge k : forall hi cp rest seen seen', utf8_conts k hi cp rest seen = UR_broken seen' -> (seen <= seen')%nat.
Proof.
  induction k as [|k IH]; intros hi cp rest seen seen' H; cbn in H; [discriminate|].
  destruct rest as [|b r]; [discriminate|]. destruct (utf8_in 128 hi b).
  - apply IH in H. lia.
  - inversion H. lia.
Qed.

(* a lead byte: the token that starts here, seen from the state after the lead byte *)
Lemma toks_lead eat b r n cp0 hi :
  (b <? 128) = false -> utf8_lead b = Some (n, cp0, hi) -> (2 <= n)%nat ->
  toks eat UFresh (b :: r) = toks eat (UMid (n - 1) hi cp0 1) r.
Proof.
  intros Hb Hl Hn. cbn [toks utf8_lex_loop]. unfold utf8_lex1. rewrite Hb, Hl.
  destruct (utf8_conts (n - 1) hi cp0 r 1) as [cp'|seen'|] eqn:Ec.
  - replace (1 + (n - 1))%nat with n by lia. reflexivity.
  - apply conts_broken_ge in Ec. destruct eat; f_equal; f_equal; lia.
  - reflexivity.
Qed.

(* a continuation byte in range *)
Lemma toks_cont eat k hi cp seen b r :
  utf8_in 128 hi b = true ->
  toks eat (UMid (S k) hi cp seen) (b :: r) =
  match k with
  | O => UT_seq (S seen) (N.lor (N.land b 63) (N.shiftl cp 6)) :: toks eat UFresh r
  | S _ => toks eat (UMid k 191 (N.lor (N.land b 63) (N.shiftl cp 6)) (S seen)) r
  end.
Proof.
  intros Hin. cbn [toks utf8_conts]. rewrite Hin. destruct k as [|k'].
  - cbn [utf8_conts utf8_lex_loop toks]. replace (seen + 1)%nat with (S seen) by lia. reflexivity.
  - destruct (utf8_conts (S k') 191 _ r (S seen)) as [cp'|seen'|] eqn:Ec.
    + cbn [utf8_lex_loop]. replace (seen + S (S k'))%nat with (S seen + S k')%nat by lia. reflexivity.
    + apply conts_broken_ge in Ec.
      replace (seen' - seen + (if eat then 1 else 0))%nat with (S (seen' - S seen + (if eat then 1 else 0)))%nat by lia.
      reflexivity.
    + reflexivity.
Qed.

(* a byte out of range breaks the sequence *)
Lemma toks_break eat k hi cp seen b r :
  utf8_in 128 hi b = false ->
  toks eat (UMid (S k) hi cp seen) (b :: r) = UT_bad :: (if eat then toks eat UFresh r else toks eat UFresh (b :: r)).
Proof.
  intros Hin. cbn [toks utf8_conts]. rewrite Hin. rewrite Nat.sub_diag. destruct eat; reflexivity.
Qed.

Lemma toks_ascii eat b r : (b <? 128) = true -> toks eat UFresh (b :: r) = UT_ascii b :: toks eat UFresh r.
Proof. intros Hb. cbn [toks utf8_lex_loop]. unfold utf8_lex1. rewrite Hb. reflexivity. Qed.
Lemma toks_badlead eat b r : (b <? 128) = false -> utf8_lead b = None -> toks eat UFresh (b :: r) = UT_bad :: toks eat UFresh r.
Proof. intros Hb Hl. cbn [toks utf8_lex_loop]. unfold utf8_lex1. rewrite Hb, Hl. reflexivity. Qed.

Lemma toks_nil eat a : (forall k hi cp seen, a = UMid k hi cp seen -> (1 <= k)%nat) ->
  pth_lor_all (map (utf8_tok_flags true) (toks eat a [])) = 0 /\ pth_lor_all (map (utf8_tok_flags false) (toks eat a [])) = 0 /\
  existsb utf8_is_seq (toks eat a []) = false /\ flat_map (fun t => match t with UT_trunc => [] | _ => [t] end) (toks eat a []) = [].
Proof.
  intros H. destruct a as [|k hi cp seen]; cbn; [auto|].
  specialize (H _ _ _ _ eq_refl). destruct k; [lia|]. cbn. auto.
Qed.

(* one DFA step, in terms of the abstraction *)
Lemma step_abs v a b : b < 256 -> absrel v a ->
  match a with
  | UFresh =>
    if b <? 128 then utf8_step (u_state v) (u_cp v) b = (utf8_ACCEPT, b)
    else match utf8_lead b with
         | None => fst (utf8_step (u_state v) (u_cp v) b) = utf8_REJECT
         | Some (n, cp0, hi) =>
           utf8_step (u_state v) (u_cp v) b = (utf8_mid (n - 1) hi, cp0) /\ In ((n - 1)%nat, hi) mids /\
           cp0 < ubound (n - 1) /\ (2 <= n)%nat
         end
  | UMid k hi cp seen =>
    exists k', k = S k' /\
    if utf8_in 128 hi b then
      utf8_step (u_state v) (u_cp v) b =
        (match k' with O => utf8_ACCEPT | S _ => utf8_mid k' 191 end, N.lor (N.land b 63) (N.shiftl cp 6)) /\
      match k' with O => True | S _ => In (k', 191) mids /\ N.lor (N.land b 63) (N.shiftl cp 6) < ubound k' end
    else fst (utf8_step (u_state v) (u_cp v) b) = utf8_REJECT
  end.
Proof.
  intros Hb Ha. destruct a as [|k hi cp seen]; cbn [absrel] in Ha.
  - destruct Ha as [Hs _]. rewrite Hs. apply step_A. exact Hb.
  - destruct Ha as (Hin & Hs & Hcp & _ & Hbd & _). rewrite Hs, Hcp.
    destruct (mids_facts k hi Hin) as (HA & HR & Hnext & Hk & Hstep).
    destruct k as [|k']; [lia|]. exists k'. split; [reflexivity|].
    specialize (Hstep b Hb). rewrite <- step_fst with (cp := cp) in Hstep.
    destruct (cp_step (S k') hi cp b Hin Hbd) as [Hmod Hlt].
    destruct (utf8_in 128 hi b).
    + rewrite (surjective_pairing (utf8_step (utf8_mid (S k') hi) cp b)), Hstep, step_snd_mid by exact HA.
      rewrite Hmod. cbn [Nat.sub] in *. rewrite Nat.sub_0_r in *.
      destruct k' as [|k'']; [split; [reflexivity|exact I]|].
      cbn [Nat.eqb] in *. split; [reflexivity|]. split.
      * destruct Hnext as [Hn|Hn]; [discriminate|exact Hn].
      * apply Hlt. discriminate.
    + exact Hstep.
Qed.

Definition L (dec : bool) (pre : list utf8_tok) : N := pth_lor_all (map (utf8_tok_flags dec) pre).
Lemma L_app dec p q : L dec (p ++ q) = N.lor (L dec p) (L dec q).
Proof.
  unfold L. induction p as [|t p IH]; cbn [app map pth_lor_all fold_right]; [rewrite N.lor_0_l; reflexivity|].
  unfold pth_lor_all in IH. rewrite IH, N.lor_assoc. reflexivity.
Qed.

Lemma toks_end eat v a : absrel v a ->
  L true (toks eat a []) = 0 /\ L false (toks eat a []) = 0 /\ existsb utf8_is_seq (toks eat a []) = false /\
  forall c, flat_map (utf8_interp c) (toks eat a []) = [].
Proof.
  intros Ha. destruct a as [|k hi cp seen]; cbn; [auto|].
  destruct Ha as (Hin & _). destruct (mids_facts k hi Hin) as (_ & _ & _ & Hk & _).
  destruct k; [lia|]. cbn. auto.
Qed.

(* ---- htp_utf8_validate_path ---- *)
Lemma val_step a v b r : b < 256 -> absrel v a ->
  exists a' pre, absrel (utf8_val_iter b v) a' /\ toks true a (b :: r) = pre ++ toks true a' r /\
    fst (u_st (utf8_val_iter b v)) = N.lor (fst (u_st v)) (L false pre) /\
    u_seen (utf8_val_iter b v) = u_seen v || existsb utf8_is_seq pre.
Proof.
  intros Hb Ha. pose proof (step_abs v a b Hb Ha) as Hs. unfold utf8_val_iter.
  destruct a as [|k hi cp seen]; cbn [absrel] in Ha.
  - destruct Ha as [_ Hc]. rewrite Hc.
    destruct (b <? 128) eqn:E128.
    + rewrite Hs, N.eqb_refl. exists UFresh, [UT_ascii b]. cbn [Nat.ltb Nat.leb andb].
      assert (Hh : (65279 <? b) = false) by (apply N.ltb_ge; apply N.ltb_lt in E128; lia).
      rewrite Hh. cbn [andb u_st u_seen absrel u_state u_counter].
      rewrite (toks_ascii true b r E128). cbn. rewrite ?N.lor_0_r, ?orb_false_r. repeat split; try reflexivity; auto.
    + destruct (utf8_lead b) as [[[n cp0] hi]|] eqn:El.
      * destruct Hs as (Hs & Hin & Hbd & Hn). rewrite Hs.
        destruct (mids_facts _ _ Hin) as (HA & HR & _).
        rewrite HA, HR. exists (UMid (n - 1) hi cp0 1), []. cbn [absrel u_state u_cp u_counter u_st u_seen app].
        rewrite (toks_lead true b r n cp0 hi E128 El Hn). cbn. rewrite N.lor_0_r, orb_false_r.
        repeat split; auto.
      * destruct (utf8_step (u_state v) (u_cp v) b) as [s' cp']. cbn [fst] in Hs. subst s'.
        rewrite AR_distinct, N.eqb_refl. exists UFresh, [UT_bad]. cbn [absrel u_state u_counter u_st u_seen].
        rewrite (toks_badlead true b r E128 El). cbn. rewrite ?N.lor_0_r, ?orb_false_r. repeat split; try reflexivity; auto.
  - destruct Ha as (Hin & _ & _ & Hc & _ & Hseen). rewrite Hc.
    destruct Hs as (k' & -> & Hs).
    destruct (utf8_in 128 hi b) eqn:Ein.
    + destruct Hs as [Hs Hk]. rewrite Hs. rewrite (toks_cont true k' hi cp seen b r Ein).
      destruct k' as [|k''].
      * rewrite N.eqb_refl. exists UFresh, [UT_seq (S seen) (N.lor (N.land b 63) (N.shiftl cp 6))].
        assert (Hlt : Nat.ltb 1 (S seen) = true) by (apply Nat.ltb_lt; lia). rewrite Hlt.
        cbn [andb u_st u_seen absrel u_state u_counter app].
        split; [auto|]. split; [reflexivity|].
        unfold L. cbn [map pth_lor_all fold_right utf8_tok_flags utf8_is_overlong utf8_is_halffull existsb utf8_is_seq].
        unfold pth_fl. rewrite orb_true_r.
        destruct (utf8_overlong (S seen) _), ((65279 <? _) && (_ <? 65536));
          rewrite ?fst_flag, ?N.lor_0_r, ?N.lor_assoc, ?N.lor_0_r; auto.
      * destruct Hk as [Hin' Hbd'].
        destruct (mids_facts _ _ Hin') as (HA & HR & _). rewrite HA, HR.
        exists (UMid (S k'') 191 (N.lor (N.land b 63) (N.shiftl cp 6)) (S seen)), [].
        cbn [absrel u_state u_cp u_counter u_st u_seen app]. cbn. rewrite N.lor_0_r, orb_false_r.
        repeat split; auto; lia.
    + destruct (utf8_step (u_state v) (u_cp v) b) as [s' cp']. cbn [fst] in Hs. subst s'.
      rewrite AR_distinct, N.eqb_refl. exists UFresh, [UT_bad]. cbn [absrel u_state u_counter u_st u_seen].
      rewrite (toks_break true k' hi cp seen b r Ein). cbn. rewrite ?N.lor_0_r, ?orb_false_r. repeat split; try reflexivity; auto.
Qed.

Lemma val_fold : forall s v a, all_byte s = true -> absrel v a ->
  let vf := fold_left (fun v x => utf8_val_iter x v) s v in
  fst (u_st vf) = N.lor (fst (u_st v)) (L false (toks true a s)) /\
  u_seen vf = u_seen v || existsb utf8_is_seq (toks true a s).
Proof.
  induction s as [|b r IH]; intros v a Hall Ha; cbn [fold_left].
  - destruct (toks_end true v a Ha) as (_ & H2 & H3 & _). rewrite H2, H3, N.lor_0_r, orb_false_r. auto.
  - cbn [all_byte forallb] in Hall. apply andb_true_iff in Hall as [Hb Hall]. apply N.ltb_lt in Hb.
    destruct (val_step a v b r Hb Ha) as (a' & pre & Ha' & Ht & Hf & Hsn).
    destruct (IH _ a' Hall Ha') as [I1 I2]. cbv zeta in *.
    rewrite I1, I2, Hf, Hsn, Ht, L_app, existsb_app, N.lor_assoc, orb_assoc. auto.
Qed.

(* has f (flags) for the UTF-8 token flags *)
Lemma utf8_tok_invalid dec t : pth_has c_HTP_PATH_UTF8_INVALID (utf8_tok_flags dec t, 0%Z) = utf8_is_bad t.
Proof.
  destruct t; cbn [utf8_tok_flags utf8_is_bad]; unfold pth_fl; try reflexivity.
  destruct (utf8_is_overlong _), (utf8_is_halffull _ _); vm_compute; reflexivity.
Qed.

Lemma has_L_invalid dec l z : pth_has c_HTP_PATH_UTF8_INVALID (L dec l, z) = existsb utf8_is_bad l.
Proof.
  unfold L. rewrite has_lor_all. induction l as [|t l IH]; cbn [map existsb]; [reflexivity|].
  rewrite IH. f_equal. apply utf8_tok_invalid.
Qed.

Lemma finish_spec dec v st toks :
  pth_has c_HTP_PATH_UTF8_INVALID st = false ->
  fst (u_st v) = N.lor (fst st) (L dec toks) -> u_seen v = existsb utf8_is_seq toks ->
  fst (utf8_finish v) = N.lor (fst st) (utf8_spec_flags dec toks).
Proof.
  intros Hst Hf Hs. unfold utf8_finish, utf8_spec_flags. fold (L dec toks).
  assert (Hi : pth_has c_HTP_PATH_UTF8_INVALID (u_st v) = existsb utf8_is_bad toks).
  { destruct (u_st v) as [fl z]. cbn [fst] in Hf. subst fl. destruct st as [f0 z0]. cbn [fst].
    rewrite (has_lor _ f0 (L dec toks) z z0), Hst, (has_L_invalid dec toks z0). reflexivity. }
  rewrite Hi, Hs. unfold pth_fl.
  destruct (existsb utf8_is_seq toks && negb (existsb utf8_is_bad toks)).
  - rewrite fst_flag, Hf, N.lor_assoc. reflexivity.
  - rewrite Hf, N.lor_0_r. reflexivity.
Qed.

Theorem utf8_validate_spec s st :
  all_byte s = true -> pth_has c_HTP_PATH_UTF8_INVALID st = false ->
  fst (utf8_validate_path s st) = N.lor (fst st) (utf8_spec_validate s).
Proof.
  intros Hall Hst. unfold utf8_validate_path, utf8_spec_validate, utf8_lex.
  assert (Ha : absrel (utf8_vars0 st) UFresh) by (split; reflexivity).
  destruct (val_fold s _ _ Hall Ha) as [H1 H2]. cbv zeta in *. cbn [toks] in *.
  apply finish_spec; [exact Hst|exact H1|exact H2].
Qed.

(* ---- htp_utf8_decode_path_inplace ---- *)
Lemma dec_step c a v b r : b < 256 -> absrel v a ->
  match utf8_dec_iter c b v with
  | (o, adv, v') =>
    exists a' pre, absrel v' a' /\
      toks false a (b :: r) = pre ++ (if adv then toks false a' r else toks false a' (b :: r)) /\
      utf8_cons o [] = flat_map (utf8_interp c) pre /\
      fst (u_st v') = N.lor (fst (u_st v)) (L true pre) /\
      u_seen v' = u_seen v || existsb utf8_is_seq pre
  end.
Proof.
  intros Hb Ha. pose proof (step_abs v a b Hb Ha) as Hs. unfold utf8_dec_iter.
  destruct a as [|k hi cp seen]; cbn [absrel] in Ha.
  - destruct Ha as [_ Hc]. rewrite Hc.
    destruct (b <? 128) eqn:E128.
    + rewrite Hs, N.eqb_refl. cbn [Nat.eqb]. exists UFresh, [UT_ascii b].
      cbn [u_st u_seen absrel u_state u_counter].
      rewrite (toks_ascii false b r E128), N.mod_small by exact Hb. cbn.
      rewrite ?N.lor_0_r, ?orb_false_r. repeat split; try reflexivity; auto.
    + destruct (utf8_lead b) as [[[n cp0] hi]|] eqn:El.
      * destruct Hs as (Hs & Hin & Hbd & Hn). rewrite Hs.
        destruct (mids_facts _ _ Hin) as (HA & HR & _).
        rewrite HA, HR. exists (UMid (n - 1) hi cp0 1), []. cbn [absrel u_state u_cp u_counter u_st u_seen app].
        rewrite (toks_lead false b r n cp0 hi E128 El Hn). cbn. rewrite N.lor_0_r, orb_false_r.
        repeat split; auto.
      * destruct (utf8_step (u_state v) (u_cp v) b) as [s' cp']. cbn [fst] in Hs. subst s'.
        rewrite AR_distinct, N.eqb_refl. cbn [Nat.eqb]. exists UFresh, [UT_bad].
        cbn [absrel u_state u_counter u_st u_seen].
        rewrite (toks_badlead false b r E128 El), fst_unwanted, fst_flag. cbn.
        rewrite ?N.lor_0_r, ?orb_false_r. repeat split; try reflexivity; auto.
  - destruct Ha as (Hin & _ & _ & Hc & _ & Hseen). rewrite Hc.
    destruct Hs as (k' & -> & Hs).
    assert (Hne : Nat.eqb (S seen) 1 = false) by (apply Nat.eqb_neq; lia).
    destruct (utf8_in 128 hi b) eqn:Ein.
    + destruct Hs as [Hs Hk]. rewrite Hs. rewrite (toks_cont false k' hi cp seen b r Ein).
      destruct k' as [|k''].
      * rewrite N.eqb_refl, Hne. exists UFresh, [UT_seq (S seen) (N.lor (N.land b 63) (N.shiftl cp 6))].
        cbn [u_st u_seen absrel u_state u_counter app].
        split; [auto|]. split; [reflexivity|]. split; [reflexivity|].
        unfold L. cbn [map pth_lor_all fold_right utf8_tok_flags utf8_is_overlong utf8_is_halffull existsb utf8_is_seq].
        unfold pth_fl. rewrite orb_true_r.
        destruct (utf8_overlong (S seen) _), ((65280 <=? _) && (_ <=? 65519));
          rewrite ?fst_flag, ?N.lor_0_r, ?N.lor_assoc, ?N.lor_0_r; auto.
      * destruct Hk as [Hin' Hbd'].
        destruct (mids_facts _ _ Hin') as (HA & HR & _). rewrite HA, HR.
        exists (UMid (S k'') 191 (N.lor (N.land b 63) (N.shiftl cp 6)) (S seen)), [].
        cbn [absrel u_state u_cp u_counter u_st u_seen app]. cbn. rewrite N.lor_0_r, orb_false_r.
        repeat split; auto; lia.
    + destruct (utf8_step (u_state v) (u_cp v) b) as [s' cp']. cbn [fst] in Hs. subst s'.
      rewrite AR_distinct, N.eqb_refl, Hne. exists UFresh, [UT_bad].
      cbn [absrel u_state u_counter u_st u_seen].
      rewrite (toks_break false k' hi cp seen b r Ein), fst_unwanted, fst_flag. cbn.
      rewrite ?N.lor_0_r, ?orb_false_r. repeat split; try reflexivity; auto.
Qed.

Lemma utf8_cons_app o l : utf8_cons o l = utf8_cons o [] ++ l.
Proof. destruct o; reflexivity. Qed.

Lemma dec_loop c : forall rest v a, all_byte rest = true -> absrel v a ->
  match utf8_dec_loop c rest v with
  | (out, vf) =>
    out = flat_map (utf8_interp c) (toks false a rest) /\
    fst (u_st vf) = N.lor (fst (u_st v)) (L true (toks false a rest)) /\
    u_seen vf = u_seen v || existsb utf8_is_seq (toks false a rest)
  end.
Proof.
  induction rest as [|b r IH]; intros v a Hall Ha; cbn [utf8_dec_loop].
  - destruct (toks_end false v a Ha) as (H1 & _ & H3 & H4). rewrite H1, H3, H4, N.lor_0_r, orb_false_r. auto.
  - cbn [all_byte forallb] in Hall. apply andb_true_iff in Hall as [Hb Hall]. apply N.ltb_lt in Hb.
    pose proof (dec_step c a v b r Hb Ha) as H1.
    destruct (utf8_dec_iter c b v) as [[o1 adv] v1] eqn:E1.
    destruct H1 as (a1 & pre1 & Ha1 & Ht1 & Ho1 & Hf1 & Hs1).
    destruct adv.
    + specialize (IH v1 a1 Hall Ha1). destruct (utf8_dec_loop c r v1) as [out vf].
      destruct IH as (I1 & I2 & I3).
      rewrite Ht1, flat_map_app, L_app, existsb_app, utf8_cons_app, Ho1, I1, I2, I3, Hf1, Hs1, N.lor_assoc, orb_assoc. auto.
    + pose proof (utf8_dec_iter_second c b v o1 v1 E1) as Hadv.
      pose proof (dec_step c a1 v1 b r Hb Ha1) as H2.
      destruct (utf8_dec_iter c b v1) as [[o2 adv2] v2]. cbn [fst snd] in Hadv. subst adv2.
      destruct H2 as (a2 & pre2 & Ha2 & Ht2 & Ho2 & Hf2 & Hs2).
      specialize (IH v2 a2 Hall Ha2). destruct (utf8_dec_loop c r v2) as [out vf].
      destruct IH as (I1 & I2 & I3).
      rewrite Ht1, Ht2, !flat_map_app, !L_app, !existsb_app, utf8_cons_app, (utf8_cons_app o2), Ho1, Ho2, I1, I2, I3,
        Hf2, Hs2, Hf1, Hs1, !N.lor_assoc, !orb_assoc. auto.
Qed.

Theorem utf8_decode_spec c s st :
  all_byte s = true -> pth_has c_HTP_PATH_UTF8_INVALID st = false ->
  fst (utf8_decode_path c s st) = fst (utf8_spec_decode c s) /\
  fst (snd (utf8_decode_path c s st)) = N.lor (fst st) (snd (utf8_spec_decode c s)).
Proof.
  intros Hall Hst. unfold utf8_decode_path, utf8_spec_decode, utf8_lex.
  assert (Ha : absrel (utf8_vars0 st) UFresh) by (split; reflexivity).
  pose proof (dec_loop c s _ _ Hall Ha) as H.
  destruct (utf8_dec_loop c s (utf8_vars0 st)) as [out vf]. destruct H as (H1 & H2 & H3).
  cbn [toks fst snd] in *. split; [exact H1|].
  apply finish_spec; [exact Hst|exact H2|exact H3].
Qed.

(* ---- per indicator ---- *)
Lemma utf8_tok_overlong dec t : pth_has c_HTP_PATH_UTF8_OVERLONG (utf8_tok_flags dec t, 0%Z) = utf8_is_overlong t.
Proof.
  destruct t; cbn [utf8_tok_flags]; unfold pth_fl; try reflexivity.
  destruct (utf8_is_overlong _), (utf8_is_halffull _ _); vm_compute; reflexivity.
Qed.
Lemma utf8_tok_halffull dec t : pth_has c_HTP_PATH_HALF_FULL_RANGE (utf8_tok_flags dec t, 0%Z) = utf8_is_halffull dec t.
Proof.
  destruct t; cbn [utf8_tok_flags]; unfold pth_fl; try reflexivity.
  destruct (utf8_is_overlong _), (utf8_is_halffull _ _); vm_compute; reflexivity.
Qed.
Lemma utf8_tok_valid dec t : pth_has c_HTP_PATH_UTF8_VALID (utf8_tok_flags dec t, 0%Z) = false.
Proof.
  destruct t; cbn [utf8_tok_flags]; unfold pth_fl; try reflexivity.
  destruct (utf8_is_overlong _), (utf8_is_halffull _ _); vm_compute; reflexivity.
Qed.

(* reading the indicators off the specification flags *)
Theorem utf8_spec_flags_exact dec toks :
  let f := (utf8_spec_flags dec toks, 0%Z) in
  pth_has c_HTP_PATH_UTF8_INVALID f = existsb utf8_is_bad toks /\
  pth_has c_HTP_PATH_UTF8_OVERLONG f = existsb utf8_is_overlong toks /\
  pth_has c_HTP_PATH_HALF_FULL_RANGE f = existsb (utf8_is_halffull dec) toks /\
  pth_has c_HTP_PATH_UTF8_VALID f = existsb utf8_is_seq toks && negb (existsb utf8_is_bad toks).
Proof.
  cbv zeta. unfold utf8_spec_flags.
  assert (HL : forall f g, (forall t, pth_has f (utf8_tok_flags dec t, 0%Z) = g t) ->
               pth_has f (pth_lor_all (map (utf8_tok_flags dec) toks), 0%Z) = existsb g toks).
  { intros f g H. rewrite has_lor_all. induction toks as [|t l IH]; cbn [map existsb]; [reflexivity|]. rewrite IH, H. reflexivity. }
  rewrite !(has_lor _ _ _ 0%Z 0%Z).
  rewrite (HL _ _ (utf8_tok_invalid dec)), (HL _ _ (utf8_tok_overlong dec)), (HL _ _ (utf8_tok_halffull dec)),
    (HL _ (fun _ => false) (utf8_tok_valid dec)).
  assert (Hfalse : existsb (fun _ : utf8_tok => false) toks = false) by (clear; induction toks; cbn; auto).
  assert (V1 : pth_has c_HTP_PATH_UTF8_INVALID (c_HTP_PATH_UTF8_VALID, 0%Z) = false) by (vm_compute; reflexivity).
  assert (V2 : pth_has c_HTP_PATH_UTF8_OVERLONG (c_HTP_PATH_UTF8_VALID, 0%Z) = false) by (vm_compute; reflexivity).
  assert (V3 : pth_has c_HTP_PATH_HALF_FULL_RANGE (c_HTP_PATH_UTF8_VALID, 0%Z) = false) by (vm_compute; reflexivity).
  assert (V4 : pth_has c_HTP_PATH_UTF8_VALID (c_HTP_PATH_UTF8_VALID, 0%Z) = true) by (vm_compute; reflexivity).
  assert (Z1 : pth_has c_HTP_PATH_UTF8_INVALID (0, 0%Z) = false) by reflexivity.
  assert (Z2 : pth_has c_HTP_PATH_UTF8_OVERLONG (0, 0%Z) = false) by reflexivity.
  assert (Z3 : pth_has c_HTP_PATH_HALF_FULL_RANGE (0, 0%Z) = false) by reflexivity.
  assert (Z4 : pth_has c_HTP_PATH_UTF8_VALID (0, 0%Z) = false) by reflexivity.
  rewrite Hfalse. unfold pth_fl. destruct (existsb utf8_is_seq toks && negb (existsb utf8_is_bad toks)).
  - rewrite V1, V2, V3, V4, !orb_false_r. auto.
  - rewrite Z1, Z2, Z3, Z4, !orb_false_r. auto.
Qed.
