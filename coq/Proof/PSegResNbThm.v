(* C03 / C04, response direction: the answers WITHOUT a body -- status 204 / 304 / 1xx (other than an interim 100 and a 101 that
   switches protocols) without Content-Length and Transfer-Encoding fields, and every answer to a HEAD request (whatever fields
   it carries) -- in any chunking, followed on the wire by the response to the next (pipelined) request. *)
Require Import Htp.Model.Base Htp.Model.MBstr Htp.Model.MConnTypes Htp.Model.MTxCommon Htp.Model.MResLine Htp.Model.MTxRes.
Require Import Htp.Model.MReq Htp.Model.MRes Htp.Model.MConnp.
Require Import Htp.Spec.SWire Htp.Proof.PWire Htp.Proof.PWireHdr Htp.Proof.PWireBlock Htp.Proof.PWireConn Htp.Proof.PWireExch.
Require Import Htp.Proof.PWireRun Htp.Proof.PWirePres Htp.Proof.PWireGlue Htp.Proof.PSeg Htp.Proof.PSegLine Htp.Proof.PSegHdr Htp.Proof.PSegGen Htp.Proof.PSegRun.
Require Import Htp.Proof.PSegFold Htp.Proof.PSegPipe Htp.Proof.PSegRes Htp.Proof.PSegResLine Htp.Proof.PSegResHdr Htp.Proof.PSegResGen Htp.Proof.PSegResRun Htp.Proof.PSegResReq Htp.Proof.PSegResThm Htp.Proof.PSegResCanon.
Require Import Htp.Proof.PPair Htp.Proof.PPairLine Htp.Proof.PPairHdr Htp.Proof.PPairRun Htp.Proof.PPairOne Htp.Proof.PPairFin Htp.Proof.PPairA Htp.Proof.PPairReq Htp.Proof.PPairB Htp.Proof.PPairThm Htp.Proof.PPairThmB.
Require Import Htp.Proof.PSegResNb.

(* ---- the framing decision of htp_connp_RES_BODY_DETERMINE is "no body" ---- *)
Definition nb_range (sn : Z) : bool := ((100 <=? sn)%Z && (sn <=? 199)%Z) || (sn =? 204)%Z || (sn =? 304)%Z.
Definition nb_frame_ok (t : tx) : bool :=
  let sn := t_response_status_number t in
  let cl := rs_hdr_get_c (t_response_headers t) rs_str_content_length in
  let te := rs_hdr_get_c (t_response_headers t) rs_str_transfer_encoding in
  let no_cl := match cl with None => true | Some _ => false end in
  let no_te := match te with None => true | Some _ => false end in
  negb (t_request_method_number t =? c_HTP_M_CONNECT)%Z &&
  negb ((sn =? 101)%Z && no_te && no_cl) &&
  negb ((sn =? 100)%Z && no_te && match cl with Some h => negb (0 <? parse_content_length (h_value h))%Z | None => true end) &&
  ((t_request_method_number t =? c_HTP_M_HEAD)%Z || (nb_range sn && no_te && no_cl)).
(* what the state and htp_tx_state_response_headers do to the transaction *)
Definition nb_hdrs_tx (t : tx) : tx := t <| t_response_transfer_coding := c_HTP_CODING_NO_BODY |> <| t_res_cep := c_HTP_COMPRESSION_NONE |>.
(* "Expect: 100-continue answered by a 4xx before the body was sent": touches the request side only *)
Definition nb_expect (c : connp) (t : tx) : connp :=
  if (400 <=? t_response_status_number t)%Z && (t_response_status_number t <=? 499)%Z && (0 <? c_in_content_length c)%Z &&
     (c_in_body_data_left c =? c_in_content_length c)%Z
  then match rs_hdr_get_c (t_request_headers t) rs_str_expect with
       | Some e => if (cmp_mem_nocase (h_value e) rs_str_100_continue =? 0)%Z then c <| c_in_state := REQ_FINALIZE |> else c
       | None => c
       end
  else c.

Lemma nb_determine_eq cb c t : rs_tx c = t -> nb_frame_ok t = true ->
  rs_RES_BODY_DETERMINE cb c =
  rs_response_headers cb (rs_set_state RES_FINALIZE (rs_otx (fun t => t <| t_response_transfer_coding := c_HTP_CODING_NO_BODY |>) (nb_expect c t))).
Proof.
  intros Et Hf. unfold rs_RES_BODY_DETERMINE. rewrite Et. cbv zeta. unfold nb_expect.
  revert Hf. unfold nb_frame_ok, nb_range. cbv zeta.
  destruct (rs_hdr_get_c (t_response_headers t) rs_str_transfer_encoding) as [hte|];
  destruct (rs_hdr_get_c (t_response_headers t) rs_str_content_length) as [hcl|];
  destruct (t_request_method_number t =? c_HTP_M_CONNECT)%Z; cbn [andb negb orb]; try discriminate;
  destruct (t_request_method_number t =? c_HTP_M_HEAD)%Z; cbn [andb negb orb]; rewrite ?andb_false_r; cbn [andb negb orb]; try discriminate;
  try (intros _; reflexivity).
  - destruct (t_response_status_number t =? 100)%Z; cbn [andb negb orb]; [|intros _; reflexivity].
    destruct (0 <? parse_content_length (h_value hcl))%Z; cbn [andb negb orb]; try discriminate. intros _. reflexivity.
  - rewrite !andb_true_r. destruct (t_response_status_number t =? 101)%Z; cbn [andb negb orb]; try discriminate.
    destruct (t_response_status_number t =? 100)%Z; cbn [andb negb orb]; try discriminate. intros _. reflexivity.
  - rewrite !andb_true_r. destruct (t_response_status_number t =? 101)%Z; cbn [andb negb orb]; try discriminate.
    destruct (t_response_status_number t =? 100)%Z; cbn [andb negb orb]; try discriminate. intros H. rewrite H. reflexivity.
Qed.

Section NbTail.
Variable cb : cb_oracle.
Variable g : cfg.
Hypothesis Hcb : wr_all_ok cb.
Context {w : pr_world}.
Notation pr_cin := (pr_cinw w).

Lemma nb_cin_expect c d rd p hdr st prev rh t t' : pr_cin c d rd p hdr st prev rh t -> pr_cin (nb_expect c t') d rd p hdr st prev rh t.
Proof.
  intros H. unfold nb_expect.
  repeat match goal with
  | |- pr_cin (if ?b then _ else _) _ _ _ _ _ _ _ _ => destruct b
  | |- pr_cin (match ?x with _ => _ end) _ _ _ _ _ _ _ _ => destruct x
  end; try exact H; apply (pr_cin_ext c); try reflexivity; exact H.
Qed.

Lemma nb_pass_determine c d rd t : pr_cin c d rd [] None RES_BODY_DETERMINE (Some RES_BODY_DETERMINE) (Some H_RESPONSE_HEADER_DATA) t ->
  nb_frame_ok t = true ->
  exists c', sr_iter cb g c = inr c' /\ pr_cin c' d rd [] None RES_FINALIZE (Some RES_FINALIZE) None (nb_hdrs_tx t).
Proof.
  intros H Hf.
  assert (Ef : rs_state_fn cb g (c_out_state c) c = rs_RES_BODY_DETERMINE cb c) by (rewrite (pi_state _ _ _ _ _ _ _ _ _ H); reflexivity).
  rewrite (nb_determine_eq cb c t (pr_rs_tx c d rd _ _ _ _ _ t H) Hf) in Ef.
  set (cE := nb_expect c t) in Ef.
  assert (HE : pr_cin cE d rd [] None RES_BODY_DETERMINE (Some RES_BODY_DETERMINE) (Some H_RESPONSE_HEADER_DATA) t) by (apply nb_cin_expect; exact H).
  clearbody cE. rewrite (pr_otx cE d rd _ _ _ _ _ t _ HE) in Ef.
  set (t2 := t <| t_response_transfer_coding := c_HTP_CODING_NO_BODY |>) in *.
  assert (H4 : pr_cin (rs_set_state RES_FINALIZE (cE <| c_txs := pr_txs w t2 |>)) d rd [] None RES_FINALIZE (Some RES_BODY_DETERMINE) (Some H_RESPONSE_HEADER_DATA) t2).
  { eapply pr_cin_state. eapply pr_cin_txs. exact HE. }
  destruct (pr_response_headers cb Hcb _ d rd _ _ t2 H4) as (c5 & E5 & H5 & _). rewrite E5 in Ef.
  destruct (pr_iter_ok cb g c c5 d rd _ _ _ _ _ _ Ef H5) as (c6 & E6 & H6); [discriminate|].
  exists c6. split; [exact E6|exact H6].
Qed.
End NbTail.

(* ================= exchange 1: an answer without a body; exchange 2 (optional): a response with a Content-Length body ================= *)
(* exchange 1 as a pp_ex (PPairA.v) whose body is empty: the transaction the request left, the response, its folding *)
Definition nb_ex_ok (g : cfg) (e : pp_ex) : Prop :=
  t_is_protocol_0_9 (px_t0 e) = false /\ t_request_progress (px_t0 e) = c_HTP_REQUEST_COMPLETE /\
  sr_response_ok (px_res e) = true /\ sr_cuts_ok (px_res e) (px_cuts e) = true /\
  nb_frame_ok (sr_tend (px_t0 e) (px_res e) (px_cuts e)) = true /\ sr_fits g (px_res e) (px_cuts e) = true /\ px_body e = [].
(* the transaction at the end *)
Definition nb_tfin (e : pp_ex) : tx := nb_tcomplete (nb_hdrs_tx (sr_tend (px_t0 e) (px_res e) (px_cuts e))).

Lemma nb_ex_parts g e : nb_ex_ok g e ->
  sr_status_ok (px_ps e) (px_st e) (px_rp e) = true /\ forallb sg_fl_ok (px_ls e) = true /\ sg_needs_pending (px_ls e) = false /\
  t_is_protocol_0_9 (px_t0 e) = false /\ t_request_progress (px_t0 e) = c_HTP_REQUEST_COMPLETE /\
  nb_frame_ok (px_tend e) = true /\ (length (px_line0 e) + 2 <= g_field_limit_hard g)%nat /\
  sr_ffit (g_field_limit_hard g) (sr_p11 (sr_th0 (px_t0 e) (px_line0 e))) None (px_ls e) = true.
Proof.
  intros (H09 & Hreq & Wr & Wc & Hfr & Hfit & _). destruct e as [t0 rs cuts body]. unfold px_ps, px_st, px_rp, px_line0, px_ls, px_tend. cbn [px_t0 px_res px_cuts px_body] in *.
  unfold sr_response_ok in Wr. apply andb_prop in Wr. destruct Wr as [Wl Wf].
  unfold sr_cuts_ok in Wc. apply andb_prop in Wc. destruct Wc as [_ Wc].
  destruct (sg_block_flat_ok (combine (wp_fields rs) cuts) (sr_forallb_combine_fst wr_field_ok _ cuts Wf) Wc) as [Okl Hnp].
  unfold sr_fits in Hfit. apply andb_prop in Hfit. destruct Hfit as [Hl0 Hfit]. apply Nat.leb_le in Hl0.
  rewrite <- (sr_p11_th0 t0 (sr_line0 rs)) in Hfit.
  repeat split; assumption.
Qed.
Lemma nb_tend_facts g e : nb_ex_ok g e ->
  (t_response_transfer_coding (nb_hdrs_tx (px_tend e)) =? c_HTP_CODING_NO_BODY)%Z = true /\
  (t_response_progress (nb_hdrs_tx (px_tend e)) =? c_HTP_RESPONSE_COMPLETE)%Z = false /\
  t_request_progress (nb_hdrs_tx (px_tend e)) = c_HTP_REQUEST_COMPLETE.
Proof.
  intros Hok. destruct (nb_ex_parts g e Hok) as (_ & _ & _ & _ & Hreq & _).
  split; [reflexivity|]. unfold px_tend, nb_hdrs_tx.
  destruct (sr_lrun_keep (px_ls e) (None, sr_th0 (px_t0 e) (px_line0 e))) as [A B]. cbn [snd] in A, B.
  destruct (sr_th0_keep (px_t0 e) (px_line0 e)) as [C D].
  change (t_response_progress (?x <| t_response_transfer_coding := _ |> <| t_res_cep := _ |>)) with (t_response_progress x).
  change (t_request_progress (?x <| t_response_transfer_coding := _ |> <| t_res_cep := _ |>)) with (t_request_progress x).
  rewrite A, B, C, D. split; [reflexivity|exact Hreq].
Qed.

Lemma nb_opt_cases {A} (o : option A) : (exists a, o = Some a) \/ o = None.
Proof. destruct o; [left; eexists; reflexivity|right; reflexivity]. Qed.

Section Nb2.
Variable cb : cb_oracle.
Variable g : cfg.
Hypothesis Hcb : wr_all_ok cb.
Variable e1 : pp_ex.
Variable o2 : option pp_ex.
Hypothesis Hok1 : nb_ex_ok g e1.
Hypothesis Hok2 : match o2 with Some e2 => pp_ex_ok g e2 | None => True end.

Let post2 : list (option tx) := match o2 with Some e2 => [Some (px_t0 e2)] | None => [] end.
Let w1 := mk_pr_world [] post2.
Let T1 := nb_hdrs_tx (px_tend e1).
Let s1 := pr_slot g (nb_tfin e1).
Let w2 := mk_pr_world [s1] [].
Let wire2 : bytes := match o2 with Some e2 => pp_wire e2 | None => [] end.
Let slots2 : list (option tx) := match o2 with Some e2 => [pr_slot g (pp_tfin e2)] | None => [] end.
Let tl1 := sr_tx_start (px_t0 e1).
Let bwt1 := sg_fwire (px_ls e1) ++ [CR; LF] ++ wire2.

Definition nb2_wire : bytes := sr_wire (px_res e1) (px_cuts e1) [] ++ wire2.
(* F1 (listed finding) can only concern the second response: what follows the empty line of the first one is nothing, or "HTTP..." *)
Definition nb2_f1 (d rw' : bytes) : Prop :=
  match o2 with Some e2 => sr_f1_local (px_body e2 ++ []) (px_hh e2) d rw' | None => True end.

Inductive nb2_between (c : connp) (rw : bytes) : Prop :=
| N2_start : pr_rest c (Some (px_t0 e1) :: post2) 0 -> rw = nb2_wire -> nb2_between c rw
| N2_in1 : nb_betw g (w := w1) (px_ps e1) (px_st e1) (px_rp e1) (px_ls e1) tl1 None wire2 c rw -> nb2_between c rw
| N2_fin1 e2 p q : o2 = Some e2 -> pr_midw w1 c p None RES_FINALIZE None T1 -> p ++ q = px_line0 e2 ++ [CR; LF] -> q <> [] ->
    rw = q ++ px_bwt e2 [] -> nb2_between c rw
| N2_idle e2 : o2 = Some e2 -> pr_rest c [s1; Some (px_t0 e2)] 1 -> rw = pp_wire e2 -> nb2_between c rw
| N2_in2 e2 : o2 = Some e2 ->
    pp_betw g (w := w2) (px_ps e2) (px_st e2) (px_rp e2) (px_ls e2) (px_body e2) (px_t0 e2) [] c rw -> nb2_between c rw
| N2_end : pr_rest c (s1 :: slots2) (S (length slots2)) -> rw = [] -> nb2_between c rw.

Definition nb2_goal (c : connp) (fuel : nat) (rw' : bytes) : Prop :=
  exists cF rc, rs_res_loop cb g fuel false c = (cF, rc) /\ nb2_between cF rw'.
Lemma nb2_goal_step c c' fuel (rw' : bytes) : sr_iter cb g c = inr c' -> nb2_goal c' fuel rw' -> nb2_goal c (S fuel) rw'.
Proof. intros E (cF & rc & El & X). exists cF, rc. split; [rewrite (sr_loop_inr cb g _ _ _ E); exact El|exact X]. Qed.
Lemma nb2_goal_exit c cF fuel (rw' : bytes) : sr_iter cb g c = inl (cF, c_HTP_STREAM_DATA) -> nb2_between cF rw' -> nb2_goal c (S fuel) rw'.
Proof. intros E B. exists cF, c_HTP_STREAM_DATA. split; [apply (sr_loop_inl cb g _ _ _ E)|exact B]. Qed.

Lemma nb2_wire2_cons e2 : o2 = Some e2 -> wire2 = px_line0 e2 ++ [CR; LF] ++ px_bwt e2 [].
Proof. intros E. unfold wire2. rewrite E. rewrite <- (pp_wires_cons e2 []). unfold pp_wires. cbn [map concat]. rewrite app_nil_r. reflexivity. Qed.
Lemma nb2_post e2 : o2 = Some e2 -> post2 = [Some (px_t0 e2)].
Proof. intros E. unfold post2. rewrite E. reflexivity. Qed.
Lemma nb2_slots e2 : o2 = Some e2 -> slots2 = [pr_slot g (pp_tfin e2)].
Proof. intros E. unfold slots2. rewrite E. reflexivity. Qed.
Lemma nb2_ok2 e2 : o2 = Some e2 -> pp_ex_ok g e2.
Proof. intros E. rewrite E in Hok2. exact Hok2. Qed.

(* ---- the second response: RES_FINALIZE at the end of the wire ---- *)
Lemma nb2_fin2 e2 c d rd (rw' : bytes) fuel : o2 = Some e2 ->
  pr_cinw w2 c d rd [] None RES_FINALIZE (Some RES_FINALIZE) None (px_tpre e2) -> skipn rd d ++ rw' = [] ->
  (8 * (length d - rd) + 13 <= fuel)%nat -> nb2_goal c fuel rw'.
Proof.
  intros E2 Ha Hw Hf. apply app_eq_nil in Hw. destruct Hw as [Hs Erw].
  assert (Erd : rd = length d) by (pose proof (sg_skipn_nil _ _ Hs); pose proof (pi_rd _ _ _ _ _ _ _ _ _ Ha); lia). subst rd.
  destruct (px_tpre_facts g e2 (nb2_ok2 e2 E2)) as (Fc & Fd & Fp & Fr & Et).
  destruct (pr_finalize_end cb g Hcb w2 c d _ Ha Fc Fd Fp Fr) as (a1 & Ea1 & Dn). rewrite Et in Dn.
  destruct fuel as [|[|f]]; [lia|lia|].
  apply (nb2_goal_step c a1 _ rw' Ea1).
  apply (nb2_goal_exit a1 _ f rw' (pr_idle_end cb g w2 a1 d [] _ Dn)).
  apply N2_end; [|exact Erw]. rewrite (nb2_slots e2 E2). exact (pr_done_rest w2 a1 d _ Dn).
Qed.

(* ---- the second response from RES_IDLE ---- *)
Lemma nb2_idle2 e2 c d rd p q prev (rw' : bytes) fuel : o2 = Some e2 ->
  pr_idle (w := w2) c d rd p prev (px_t0 e2) -> (rd < length d)%nat ->
  p ++ q = px_line0 e2 ++ [CR; LF] -> q <> [] -> skipn rd d ++ rw' = q ++ px_bwt e2 [] -> nb2_f1 d rw' ->
  (8 * (length d - rd) + 10 <= fuel)%nat -> nb2_goal c fuel rw'.
Proof.
  intros E2 Hi Hlt Hpq Hq Hw Hf1 Hf.
  destruct (pp_ex_parts g e2 (nb2_ok2 e2 E2)) as (Wl & Okl & Hnp & H09 & Hreq & Hfr & Hl0 & Hfit).
  apply (pp_run_idle cb g Hcb (w := w2) (px_ps e2) (px_st e2) (px_rp e2) (px_ls e2) (px_body e2) (px_t0 e2) [] Wl Okl Hnp H09 Hreq Hfr Hl0 Hfit
           nb2_f1 (fun d0 rw0 X => ltac:(unfold nb2_f1 in X; rewrite E2 in X; exact X)) nb2_goal) with (d := d) (rd := rd) (p := p) (q := q) (prev := prev); try assumption.
  - apply nb2_goal_step.
  - intros a aF f0 rw0 E B _. apply (nb2_goal_exit a aF f0 rw0 E). apply (N2_in2 _ _ e2 E2 B).
  - intros a d0 rd0 rw0 f0 _ Ha Hw0 Hf0. apply (nb2_fin2 e2 a d0 rd0 rw0 f0 E2 Ha Hw0 Hf0).
Qed.

(* ---- RES_FINALIZE of the first response: the wire ends, or the status line of the second response begins ---- *)
Lemma nb2_fin1 c d rd p (rw' : bytes) fuel :
  pr_cinw w1 c d rd p None RES_FINALIZE (Some RES_FINALIZE) None T1 -> k_consume (c_out c) = rd -> (rd = 0%nat \/ p = []) ->
  match o2 with
  | None => p = [] /\ skipn rd d ++ rw' = []
  | Some e2 => exists q, p ++ q = px_line0 e2 ++ [CR; LF] /\ q <> [] /\ skipn rd d ++ rw' = q ++ px_bwt e2 [] /\ (skipn rd d = [] -> p = [])
  end -> nb2_f1 d rw' -> (8 * (length d - rd) + 13 <= fuel)%nat -> nb2_goal c fuel rw'.
Proof.
  intros H Hc Htop Hw Hf1 Hf. pose proof (pi_rd _ _ _ _ _ _ _ _ _ H) as Hrd.
  destruct (nb_tend_facts g e1 Hok1) as (Fd & Fp & Fr). fold T1 in Fd, Fp, Fr.
  (* the chunk ends with the response *)
  assert (Hend : rd = length d -> p = [] -> rw' = wire2 -> nb2_goal c fuel rw').
  { intros Erd Ep Erw. rewrite Erd, Ep in H.
    destruct (nb_finalize_end cb g Hcb c d _ H Fd Fp Fr) as (c1 & E1 & Dn). fold (nb_tfin e1) in Dn. fold s1 in Dn.
    destruct fuel as [|[|f]]; [lia|lia|].
    apply (nb2_goal_step c c1 _ rw' E1).
    apply (nb2_goal_exit c1 _ f rw' (pr_idle_end cb g w1 c1 d [] _ Dn)).
    pose proof (pr_done_rest w1 c1 d _ Dn) as R. cbn [w1 pw_pre pw_post app pr_k length] in R.
    destruct (nb_opt_cases o2) as [(e2 & E2)|E2].
    - apply (N2_idle _ _ e2 E2); [rewrite (nb2_post e2 E2) in R; exact R|rewrite Erw; unfold wire2; rewrite E2; reflexivity].
    - apply N2_end; [|exact (eq_trans Erw ltac:(unfold wire2; rewrite E2; reflexivity))].
      assert (Es : slots2 = []) by (unfold slots2; rewrite E2; reflexivity). assert (Ep2 : post2 = []) by (unfold post2; rewrite E2; reflexivity).
      rewrite Es. rewrite Ep2 in R. exact R. }
  destruct (nb_opt_cases o2) as [(e2 & E2)|E2]; rewrite E2 in Hw.
  - destruct Hw as (q & Hpq & Hq & Hw & Hp0).
    pose proof (nb2_ok2 e2 E2) as Ok'.
    destruct (pp_ex_parts g e2 Ok') as (_ & _ & _ & _ & _ & _ & Hl0' & _).
    destruct (px_line0_shape g e2 Ok') as (Pl & l & Esh).
    assert (Eb : px_line0 e2 ++ [CR; LF] = (px_line0 e2 ++ [CR]) ++ [LF]) by (rewrite <- app_assoc; reflexivity).
    assert (Hnolf : sg_no_lf (px_line0 e2 ++ [CR]) = true).
    { unfold sg_no_lf. rewrite forallb_app. fold (sg_no_lf (px_line0 e2)). rewrite (sr_plain_no_lf _ Pl). reflexivity. }
    assert (Ew2 : wire2 = px_line0 e2 ++ [CR; LF] ++ px_bwt e2 []) by (apply nb2_wire2_cons; exact E2).
    destruct (Nat.eq_dec rd (length d)) as [Erd|Nrd].
    + assert (Eu : skipn rd d = []) by (apply skipn_all2; lia). rewrite Eu in Hw. cbn [app] in Hw.
      apply Hend; [exact Erd|exact (Hp0 Eu)|]. rewrite (Hp0 Eu) in Hpq. cbn [app] in Hpq. rewrite Hw, Hpq, Ew2, <- app_assoc. reflexivity.
    + assert (Hlt : (rd < length d)%nat) by lia.
      destruct (sg_app_cases (skipn rd d) rw' q _ Hw) as [Clt Cge].
      destruct (Nat.lt_ge_cases (length (skipn rd d)) (length q)) as [Llt|Lge].
      * destruct (Clt Llt) as (q2 & Eq & Hq2 & Erw).
        assert (Nu : sg_no_lf (skipn rd d) = true).
        { rewrite Eq, Eb, app_assoc in Hpq. destruct (sg_app_last _ _ _ _ Hpq Hq2) as (q3 & _ & E3). unfold sg_no_lf in *. rewrite <- E3, <- app_assoc, !forallb_app in Hnolf.
          apply andb_prop in Hnolf. destruct Hnolf as [_ Nb]. apply andb_prop in Nb. apply Nb. }
        assert (Lim : (length (p ++ skipn rd d) <= g_field_limit_hard g)%nat).
        { assert (L : length (p ++ q) = (length (px_line0 e2) + 2)%nat) by (rewrite Hpq, app_length; reflexivity). rewrite app_length in L. rewrite app_length. lia. }
        destruct (pr_finalize_buffer cb g Hcb c d rd p _ H Hc Hlt Nu Lim) as (cF & EF & HF).
        destruct fuel as [|f]; [lia|].
        apply (nb2_goal_exit c cF f rw' EF).
        apply (N2_fin1 _ _ e2 (p ++ skipn rd d) q2 E2 HF); [rewrite <- app_assoc, <- Eq; exact Hpq|exact Hq2|exact Erw].
      * destruct (Cge Lge) as (d2 & Ed & Eaft).
        rewrite Eb in Hpq. destruct (sg_app_last _ _ _ _ Hpq Hq) as (q1 & Eq1 & Ep1).
        assert (Nq1 : sg_no_lf q1 = true) by (unfold sg_no_lf in *; rewrite <- Ep1, forallb_app in Hnolf; apply andb_prop in Hnolf; apply Hnolf).
        assert (Ed' : skipn rd d = q1 ++ LF :: d2) by (rewrite Ed, Eq1, <- app_assoc; reflexivity).
        assert (Esh' : p ++ q1 ++ [LF] = 72%N :: 84%N :: 84%N :: 80%N :: (l ++ [CR; LF])).
        { rewrite app_assoc, Ep1, <- app_assoc, Esh. reflexivity. }
        assert (Lim : (length (p ++ q1 ++ [LF]) <= g_field_limit_hard g)%nat).
        { rewrite app_assoc, Ep1, <- app_assoc, app_length. cbn [length app]. lia. }
        destruct (nb_finalize_next cb g Hcb c d rd p _ q1 d2 _ H Hc Htop Ed' Nq1 Esh' Lim Fd Fp Fr) as (c1 & E1 & Dn). fold (nb_tfin e1) in Dn. fold s1 in Dn.
        destruct fuel as [|f]; [lia|].
        apply (nb2_goal_step c c1 f rw' E1).
        pose proof (pr_done_idle w1 c1 d rd p _ (px_t0 e2) [] Dn (nb2_post e2 E2)) as Hi.
        apply (nb2_idle2 e2 c1 d rd p (q1 ++ [LF]) (Some RES_IDLE) rw' f E2 Hi Hlt).
        -- rewrite app_assoc, Ep1. symmetry. exact Eb.
        -- intro E. apply app_eq_nil in E. destruct E as [_ E]. discriminate.
        -- rewrite <- Eq1. exact Hw.
        -- exact Hf1.
        -- lia.
  - destruct Hw as [Ep Hw]. apply app_eq_nil in Hw. destruct Hw as [Hs Erw].
    apply Hend; [pose proof (sg_skipn_nil _ _ Hs); lia|exact Ep|rewrite Erw; unfold wire2; rewrite E2; reflexivity].
Qed.

(* ---- the first response: facts, the side condition, what follows its empty line ---- *)
Lemma nb2_Wl : sr_status_ok (px_ps e1) (px_st e1) (px_rp e1) = true. Proof. apply (nb_ex_parts g e1 Hok1). Qed.
Lemma nb2_Okl : forallb sg_fl_ok (px_ls e1) = true. Proof. apply (nb_ex_parts g e1 Hok1). Qed.
Lemma nb2_Hnp : sg_needs_pending (px_ls e1) = false. Proof. apply (nb_ex_parts g e1 Hok1). Qed.
Lemma nb2_H09 : t_is_protocol_0_9 (px_t0 e1) = false. Proof. apply (nb_ex_parts g e1 Hok1). Qed.
Lemma nb2_Hl0 : (length (wr_ser_status_line (px_ps e1) (px_st e1) (px_rp e1)) + 2 <= g_field_limit_hard g)%nat. Proof. apply (nb_ex_parts g e1 Hok1). Qed.
Lemma nb2_Hfit : sr_ffit (g_field_limit_hard g)
  (sr_p11 ((sr_tx_line tl1 (wr_ser_status_line (px_ps e1) (px_st e1) (px_rp e1))) <| t_response_progress := c_HTP_RESPONSE_HEADERS |>)) None (px_ls e1) = true.
Proof. apply (nb_ex_parts g e1 Hok1). Qed.
Lemma nb2_okd1 d rw' : nb2_f1 d rw' -> sr_f1_local wire2 (negb (sr_is_nil (px_ls e1))) d rw'.
Proof.
  intros _. destruct (nb_opt_cases o2) as [(e2 & E2)|E2].
  - rewrite (nb2_wire2_cons e2 E2). destruct (px_line0_shape g e2 (nb2_ok2 e2 E2)) as (_ & l & Esh). rewrite Esh. cbn [app sr_f1_local]. intros X. discriminate X.
  - unfold wire2. rewrite E2. exact I.
Qed.
Lemma nb2_exit1 c cF fuel (rw' : bytes) : sr_iter cb g c = inl (cF, c_HTP_STREAM_DATA) ->
  nb_betw g (w := w1) (px_ps e1) (px_st e1) (px_rp e1) (px_ls e1) tl1 None wire2 cF rw' -> rw' <> [] -> nb2_goal c (S fuel) rw'.
Proof. intros E B _. apply (nb2_goal_exit c cF fuel rw' E). apply N2_in1. exact B. Qed.
Lemma nb2_tail1 c d rd (rw' : bytes) fuel : nb2_f1 d rw' ->
  pr_cinw w1 c d rd [] None RES_BODY_DETERMINE (Some RES_BODY_DETERMINE) (Some H_RESPONSE_HEADER_DATA) (px_tend e1) ->
  skipn rd d ++ rw' = wire2 -> (8 * (length d - rd) + 15 <= fuel)%nat -> nb2_goal c fuel rw'.
Proof.
  intros Hf1 H Hw Hf.
  assert (Hfr : nb_frame_ok (px_tend e1) = true) by apply (nb_ex_parts g e1 Hok1).
  destruct (nb_pass_determine cb g Hcb c d rd _ H Hfr) as (c3 & E3 & H3).
  destruct fuel as [|f]; [lia|]. apply (nb2_goal_step c c3 f rw' E3).
  destruct (pr_cin_nil _ _ _ _ _ _ _ _ H3) as [Hc3 _].
  apply (nb2_fin1 c3 d rd [] rw' f H3 Hc3 (or_intror eq_refl)); [|exact Hf1|lia].
  destruct (nb_opt_cases o2) as [(e2 & E2)|E2]; rewrite E2.
  - exists (px_line0 e2 ++ [CR; LF]). split; [reflexivity|]. split; [intro E; apply app_eq_nil in E; destruct E as [_ E]; discriminate|].
    split; [rewrite Hw, (nb2_wire2_cons e2 E2), <- app_assoc; reflexivity|reflexivity].
  - split; [reflexivity|]. rewrite Hw. unfold wire2. rewrite E2. reflexivity.
Qed.

(* ---- one call of htp_connp_res_data ---- *)
Lemma nb2_step c (rw x rw' : bytes) : nb2_between c rw -> x <> [] -> rw = x ++ rw' -> nb2_f1 x rw' ->
  exists c' rc, connp_res_data cb g (Some x) (length x) c = (c', rc) /\ nb2_between c' rw'.
Proof.
  intros B Hne Ex Hf1.
  assert (Lx : (0 < length x)%nat) by (destruct x; [contradiction|cbn; lia]).
  destruct B as [Hr Erw|B|e2 p q E2 Hm Hpq Hq Erw|e2 E2 Hr Erw|e2 E2 B|Hr Erw].
  - (* before the first response *)
    destruct (pr_enter_ready cb g w1 c (px_t0 e1) x Hr Hne) as (c1 & E1 & H1). unfold bytes in *. rewrite E1.
    apply (nb_run_idle cb g Hcb (w := w1) (px_ps e1) (px_st e1) (px_rp e1) (px_ls e1) tl1 None wire2 nb2_Wl nb2_Okl nb2_Hnp nb2_Hl0 nb2_Hfit
             nb2_f1 nb2_okd1 nb2_goal nb2_goal_step nb2_exit1 nb2_tail1 (px_t0 e1) c1 x 0 [] (px_line0 e1 ++ [CR; LF]) _ rw' _ eq_refl eq_refl nb2_H09 Hf1 H1 Lx eq_refl).
    + intro E. apply app_eq_nil in E. destruct E as [_ E]. discriminate.
    + cbn [skipn]. rewrite <- Ex, Erw. unfold nb2_wire, sr_wire. rewrite <- !app_assoc. reflexivity.
    + unfold rs_res_fuel. lia.
  - (* inside the first response *)
    destruct (nb_step cb g Hcb (w := w1) (px_ps e1) (px_st e1) (px_rp e1) (px_ls e1) tl1 None wire2 nb2_Wl nb2_Okl nb2_Hnp nb2_Hl0 nb2_Hfit
                nb2_f1 nb2_okd1 nb2_goal nb2_goal_step nb2_exit1 nb2_tail1 c rw x rw' B Hne Ex Hf1) as (c1 & E1 & G).
    unfold bytes in *. rewrite E1. exact G.
  - (* RES_FINALIZE of the first response with the beginning of the second status line buffered *)
    destruct (pr_enter cb g c p None _ _ _ x Hm Hne) as (c1 & E1 & H1). unfold bytes in *. rewrite E1.
    assert (Hc1 : k_consume (c_out c1) = 0%nat) by (pose proof (pi_cons _ _ _ _ _ _ _ _ _ H1); lia).
    apply (nb2_fin1 c1 x 0 p rw' _ H1 Hc1 (or_introl eq_refl)); [|exact Hf1|unfold rs_res_fuel; lia].
    rewrite E2. exists q. split; [exact Hpq|]. split; [exact Hq|]. split; [cbn [skipn]; rewrite <- Ex; exact Erw|]. cbn [skipn]. intros E. contradiction.
  - (* between the two responses *)
    destruct (pr_enter_ready cb g w2 c (px_t0 e2) x Hr Hne) as (c1 & E1 & H1). unfold bytes in *. rewrite E1.
    apply (nb2_idle2 e2 c1 x 0 [] (px_line0 e2 ++ [CR; LF]) _ rw' _ E2 H1 Lx eq_refl).
    + intro E. apply app_eq_nil in E. destruct E as [_ E]. discriminate.
    + cbn [skipn]. rewrite <- Ex, Erw, <- app_assoc. rewrite <- (nb2_wire2_cons e2 E2). unfold wire2. rewrite E2. reflexivity.
    + exact Hf1.
    + unfold rs_res_fuel. lia.
  - (* inside the second response *)
    destruct (pp_ex_parts g e2 (nb2_ok2 e2 E2)) as (Wl & Okl & Hnp & H09 & Hreq & Hfr & Hl0 & Hfit).
    destruct (pp_step cb g Hcb (w := w2) (px_ps e2) (px_st e2) (px_rp e2) (px_ls e2) (px_body e2) (px_t0 e2) [] Wl Okl Hnp Hreq Hfr Hl0 Hfit
                nb2_f1 (fun d0 rw0 X => ltac:(unfold nb2_f1 in X; rewrite E2 in X; exact X)) nb2_goal) with (c := c) (rw := rw) (x := x) (rw' := rw') as (c1 & E1 & G); try assumption.
    + apply nb2_goal_step.
    + intros a aF f0 rw0 E B0 _. apply (nb2_goal_exit a aF f0 rw0 E). apply (N2_in2 _ _ e2 E2 B0).
    + intros a d0 rd0 rw0 f0 _ Ha Hw0 Hf0. apply (nb2_fin2 e2 a d0 rd0 rw0 f0 E2 Ha Hw0 Hf0).
    + unfold bytes in *. rewrite E1. exact G.
  - exfalso. rewrite Erw in Ex. destruct x; [contradiction|discriminate].
Qed.

Lemma nb2_between_finish c rw : nb2_between c rw -> nb2_between (forget_chunks c <| c_events := [] |>) rw.
Proof.
  intros [Hr Erw|B|e2 p q E2 Hm Hpq Hq Erw|e2 E2 Hr Erw|e2 E2 B|Hr Erw].
  - apply N2_start; [apply pr_rest_finish; exact Hr|exact Erw].
  - apply N2_in1. apply nb_betw_finish. exact B.
  - apply (N2_fin1 _ _ e2 p q E2 (pr_mid_finish _ _ _ _ _ _ _ Hm) Hpq Hq Erw).
  - apply (N2_idle _ _ e2 E2); [apply pr_rest_finish; exact Hr|exact Erw].
  - apply (N2_in2 _ _ e2 E2). apply pp_betw_finish. exact B.
  - apply N2_end; [apply pr_rest_finish; exact Hr|exact Erw].
Qed.
(* when no wire is left, both responses are complete *)
Lemma nb2_between_end c : nb2_between c [] -> pr_rest c (s1 :: slots2) (S (length slots2)).
Proof.
  intros [Hr Erw|B|e2 p q E2 Hm Hpq Hq Erw|e2 E2 Hr Erw|e2 E2 B|Hr Erw].
  - exfalso. unfold nb2_wire, sr_wire in Erw. symmetry in Erw. apply app_eq_nil in Erw. destruct Erw as [Erw _]. apply app_eq_nil in Erw. destruct Erw as [_ Erw]. discriminate.
  - exfalso. apply (nb_betw_ne _ _ _ _ _ _ _ _ _ _ B). reflexivity.
  - exfalso. destruct q; [contradiction|discriminate].
  - exfalso. unfold pp_wire, sr_wire in Erw. symmetry in Erw. apply app_eq_nil in Erw. destruct Erw as [_ Erw]. discriminate.
  - exfalso. destruct B as [p q _ _ Hq Erw|p hdr t _ Hl|k Hk _ _ Erw].
    + destruct q; [contradiction|discriminate].
    + destruct Hl as (pend & tl & rem & q & ea & _ & _ & _ & _ & _ & Hne & Hea & E & _). destruct ea.
      * destruct (Hea eq_refl) as (_ & _ & Eq & _). subst q. discriminate.
      * destruct (Hne eq_refl) as (_ & Hq). destruct q; [contradiction|discriminate].
    + symmetry in Erw. apply app_eq_nil in Erw. destruct Erw as [E _]. apply (f_equal (@length N)) in E. rewrite skipn_length in E. cbn [length] in E. lia.
  - exact Hr.
Qed.

(* ---- every chunk ---- *)
Lemma nb2_chunks : forall (chunks : list bytes) c rw, nb2_between c rw ->
  Forall (fun x => x <> []) chunks -> concat chunks = rw -> sr_oks nb2_f1 chunks ->
  pr_rest (fst (cp_run cb g c (map OpResData chunks))) (s1 :: slots2) (S (length slots2)).
Proof.
  induction chunks as [|x rest IH]; intros c rw B Hall Hc Hoks.
  - cbn [concat] in Hc. subst rw. cbn [map cp_run fst]. apply (nb2_between_end c B).
  - cbn [concat] in Hc. cbn [map]. rewrite sr_cp_run_cons. destruct Hoks as [Hok1' Hoks].
    destruct (nb2_step c rw x (concat rest) B (Forall_inv Hall) (eq_sym Hc) Hok1') as (c' & rc & E & B').
    unfold bytes in *. rewrite E. cbn [fst].
    apply (IH _ (concat rest) (nb2_between_finish _ _ B') (Forall_inv_tail Hall) eq_refl Hoks).
Qed.
End Nb2.

(* ================= on the grammar ================= *)
Lemma nb_sim_frame_ok a b : sr_sim a b -> nb_frame_ok a = nb_frame_ok b.
Proof. intros (Hm & Hr & Hs & Hp). unfold sr_rsp in Hr. injection Hr as Hh Hrep. unfold nb_frame_ok. rewrite Hm, Hh, Hs. reflexivity. Qed.
(* the "no body" decision on the canonical transaction of the request (PSegResCanon.sr_canon: only the method number matters) *)
Definition nb_framed_g (rq : wr_request) (r : wr_response) (cuts : list (list bytes)) : bool := nb_frame_ok (sr_tend (sr_canon rq) r cuts).
(* an exchange whose answer has no body: xbody is not used *)
Definition nb_xc_ok (g : cfg) (x : pp_xc) : bool :=
  sg_req_ok g (xq x) && sr_response_ok (xs x) && sr_cuts_ok (xs x) (xcuts x) && nb_framed_g (xq x) (xs x) (xcuts x) && sr_fits g (xs x) (xcuts x).
Definition nb_xwire (x : pp_xc) : bytes := sr_wire (xs x) (xcuts x) [].
Definition nb_ex_of (g : cfg) (k : nat) (fl : bool) (x : pp_xc) : pp_ex := mk_pp_ex (sg_tfin_r g k (xq x) fl) (xs x) (xcuts x) [].

Lemma nb_ex_of_ok g k fl x : g_allow_space_uri g = false -> nb_xc_ok g x = true -> nb_ex_ok g (nb_ex_of g k fl x).
Proof.
  intros Hsp H. unfold nb_xc_ok in H. apply andb_prop in H. destruct H as [H Hfit]. apply andb_prop in H. destruct H as [H Hfr].
  apply andb_prop in H. destruct H as [H Wc]. apply andb_prop in H. destruct H as [Hq Wr].
  destruct (sg_req_ok_parts g (xq x) Hq) as (Wq & _).
  pose proof (sg_tfin_reported g k (xq x) fl Hsp Wq) as Rep. fold (sg_tfin_r g k (xq x) fl) in Rep.
  unfold wr_reported in Rep. destruct Rep as (_ & Hm & _ & _ & _ & H09 & _ & Hreq).
  unfold nb_ex_ok, nb_ex_of. cbn [px_t0 px_res px_cuts px_body].
  split; [exact H09|]. split; [exact Hreq|]. split; [exact Wr|]. split; [exact Wc|]. split; [|split; [exact Hfit|reflexivity]].
  unfold nb_framed_g in Hfr. rewrite <- Hfr. apply nb_sim_frame_ok. unfold sr_tend. apply sim_lrun; [reflexivity|]. cbn [snd].
  apply sim_th0.
  - exact Hm.
  - pose proof (prs_tfin g k (xq x) fl) as P. unfold pp_rsp in P. unfold sr_rsp. destruct (pp_tuple4 _ _ _ _ _ _ _ _ P) as (P1 & P2 & _ & _). rewrite P1, P2. reflexivity.
Qed.

Definition nb_o2wire (o2 : option pp_xc) : bytes := match o2 with Some x2 => pp_xwire x2 | None => [] end.
Definition nb_o2req (o2 : option pp_xc) : list wr_request := match o2 with Some x2 => [xq x2] | None => [] end.
Definition nb_o2ok (g : cfg) (o2 : option pp_xc) : bool := match o2 with Some x2 => pp_xc_ok g x2 | None => true end.
Definition nb_o2f1 (o2 : option pp_xc) (schunks : list bytes) : bool := match o2 with Some x2 => pp_f1_free [x2] schunks | None => true end.

Definition nb_slots (g : cfg) (k1 : nat) (fl1 : bool) (x1 : pp_xc) (o2 : option pp_xc) (k2 : nat) (fl2 : bool) : list (option tx) :=
  pr_slot g (nb_tfin (nb_ex_of g k1 fl1 x1)) :: match o2 with Some x2 => [pr_slot g (pp_tfin (pp_ex_of g k2 fl2 x2))] | None => [] end.

Lemma nb_oks_true : forall chunks : list bytes, sr_oks (fun _ _ => True) chunks.
Proof. induction chunks; cbn [sr_oks]; [exact I|split; [exact I|assumption]]. Qed.
Lemma nb_oks_f1 x2 hh : forall chunks : list bytes, pp_f1_free [x2] chunks = true ->
  hh = negb (sr_is_nil (sr_lines (xs x2) (xcuts x2))) -> sr_oks (sr_f1_local (xbody x2 ++ []) hh) chunks.
Proof.
  induction chunks as [|x rest IH]; intros H Eh; [exact I|]. cbn [pp_f1_free pp_f1_ex] in H. apply andb_prop in H. destruct H as [H1 H2].
  rewrite andb_true_r in H1. cbn [sr_oks]. split; [|apply IH; assumption]. rewrite Eh. apply pp_f1b_ok. exact H1.
Qed.

Lemma nb_general cb g x1 (o2 : option pp_xc) (qchunks schunks : list bytes) :
  wr_all_ok cb -> g_allow_space_uri g = false -> (g_max_tx g = 0 \/ 2 < g_max_tx g)%nat ->
  nb_xc_ok g x1 = true -> nb_o2ok g o2 = true ->
  Forall (fun c => c <> []) qchunks -> concat qchunks = concat (map wr_request_wire (xq x1 :: nb_o2req o2)) ->
  Forall (fun c => c <> []) schunks -> concat schunks = nb_xwire x1 ++ nb_o2wire o2 -> nb_o2f1 o2 schunks = true ->
  exists k1 fl1 k2 fl2, c_txs (fst (cp_run cb g connp_new (OpOpen :: map OpReqData qchunks ++ map OpResData schunks))) = nb_slots g k1 fl1 x1 o2 k2 fl2.
Proof.
  intros Hcb Hsp Hmax Hok1 Hok2 Hall Hc Halls Hcs Hf1.
  assert (Hq1 : sg_req_ok g (xq x1) = true) by (unfold nb_xc_ok in Hok1; do 4 (apply andb_prop in Hok1; destruct Hok1 as [Hok1 _]); exact Hok1).
  assert (Hokq : Forall (fun r => sg_req_ok g r = true) (xq x1 :: nb_o2req o2)).
  { constructor; [exact Hq1|]. destruct o2 as [x2|]; [|constructor]. cbn [nb_o2req nb_o2ok] in *. constructor; [|constructor].
    unfold pp_xc_ok in Hok2. do 4 (apply andb_prop in Hok2; destruct Hok2 as [Hok2 _]). exact Hok2. }
  assert (Hmax' : (g_max_tx g = 0 \/ length (xq x1 :: nb_o2req o2) < g_max_tx g)%nat) by (destruct o2; cbn [length nb_o2req]; lia).
  destruct (pq_after_requests cb g _ qchunks Hcb Hsp Hmax' Hokq Hall Hc) as (Hm & R & F). cbv zeta in Hm, R, F.
  change (OpOpen :: map OpReqData qchunks ++ map OpResData schunks) with ((OpOpen :: map OpReqData qchunks) ++ map OpResData schunks).
  rewrite sr_run_app. set (cF := fst (cp_run cb g connp_new (OpOpen :: map OpReqData qchunks))) in *.
  unfold sr_fr, pq_base in F.
  assert (G : c_out_status cF = c_HTP_STREAM_OPEN /\ c_out_state cF = RES_IDLE /\ c_out cF = cursor_new /\ c_out_next_tx_index cF = 0%nat /\
              c_txs_shifted cF = 0%nat /\ c_out_data_other_at_tx_end cF = false) by (repeat split; congruence).
  destruct G as (G1 & G2 & G3 & G4 & G5 & G6).
  assert (Hr : forall txs, c_txs cF = txs -> pr_rest cF txs 0).
  { intros txs Et. constructor; rewrite ?G3; try assumption; try reflexivity.
    - rewrite G1. left. reflexivity.
    - exact (im_tx _ _ _ Hm). }
  unfold pq_rep in R. inversion R as [|slot1 r1 done' rs' (k1 & fl1 & Es1) R' Ed Ers]. subst.
  pose proof (nb_ex_of_ok g k1 fl1 x1 Hsp Hok1) as Ok1.
  destruct o2 as [x2|]; cbn [nb_o2req nb_o2ok nb_o2wire nb_o2f1] in *.
  - inversion R' as [|slot2 r2 done'' rs'' (k2 & fl2 & Es2) R'' Ed' Ers']. subst. inversion R''. subst.
    pose proof (pp_ex_of_ok g k2 fl2 x2 Hsp Hok2) as Ok2.
    exists k1, fl1, k2, fl2.
    pose proof (nb2_chunks cb g Hcb (nb_ex_of g k1 fl1 x1) (Some (pp_ex_of g k2 fl2 x2)) Ok1 Ok2 schunks cF _
                  (N2_start g (nb_ex_of g k1 fl1 x1) (Some (pp_ex_of g k2 fl2 x2)) _ _ (Hr _ (eq_sym Ed)) eq_refl) Halls Hcs) as Hfin.
    rewrite (py_txs _ _ _ (Hfin (nb_oks_f1 x2 _ schunks Hf1 eq_refl))). reflexivity.
  - inversion R'. subst.
    exists k1, fl1, 0%nat, false.
    pose proof (nb2_chunks cb g Hcb (nb_ex_of g k1 fl1 x1) None Ok1 I schunks cF _
                  (N2_start g (nb_ex_of g k1 fl1 x1) None _ _ (Hr _ (eq_sym Ed)) eq_refl) Halls Hcs) as Hfin.
    rewrite (py_txs _ _ _ (Hfin (nb_oks_true schunks))). reflexivity.
Qed.

(* ================= THEOREMS ================= *)
(* one exchange whose answer has no body, any chunking of request and response *)
Theorem nb_response_chunking : forall cb g x1 (qchunks schunks : list bytes),
  wr_all_ok cb -> g_allow_space_uri g = false -> (g_max_tx g = 0 \/ 2 < g_max_tx g)%nat -> nb_xc_ok g x1 = true ->
  Forall (fun c => c <> []) qchunks -> concat qchunks = wr_request_wire (xq x1) ->
  Forall (fun c => c <> []) schunks -> concat schunks = nb_xwire x1 ->
  exists k1 fl1, c_txs (fst (cp_run cb g connp_new (OpOpen :: map OpReqData qchunks ++ map OpResData schunks))) = [pr_slot g (nb_tfin (nb_ex_of g k1 fl1 x1))].
Proof.
  intros cb g x1 qchunks schunks Hcb Hsp Hmax Hok1 Hall Hc Halls Hcs.
  destruct (nb_general cb g x1 None qchunks schunks Hcb Hsp Hmax Hok1 eq_refl Hall) as (k1 & fl1 & k2 & fl2 & E); try assumption.
  - cbn [nb_o2req map concat]. rewrite app_nil_r. exact Hc.
  - cbn [nb_o2wire]. rewrite app_nil_r. exact Hcs.
  - reflexivity.
  - exists k1, fl1. exact E.
Qed.
(* the bytes that follow an answer without a body are the next response: two pipelined exchanges, the second one with a Content-Length body,
   both directions in any chunking (chunks may span the message boundaries) *)
Theorem nb_pairing : forall cb g x1 x2 (qchunks schunks : list bytes),
  wr_all_ok cb -> g_allow_space_uri g = false -> (g_max_tx g = 0 \/ 2 < g_max_tx g)%nat ->
  nb_xc_ok g x1 = true -> pp_xc_ok g x2 = true ->
  Forall (fun c => c <> []) qchunks -> concat qchunks = wr_request_wire (xq x1) ++ wr_request_wire (xq x2) ->
  Forall (fun c => c <> []) schunks -> concat schunks = nb_xwire x1 ++ pp_xwire x2 -> pp_f1_free [x2] schunks = true ->
  exists k1 fl1 k2 fl2, c_txs (fst (cp_run cb g connp_new (OpOpen :: map OpReqData qchunks ++ map OpResData schunks))) =
    [pr_slot g (nb_tfin (nb_ex_of g k1 fl1 x1)); pr_slot g (pp_tfin (pp_ex_of g k2 fl2 x2))].
Proof.
  intros cb g x1 x2 qchunks schunks Hcb Hsp Hmax Hok1 Hok2 Hall Hc Halls Hcs Hf1.
  apply (nb_general cb g x1 (Some x2) qchunks schunks Hcb Hsp Hmax Hok1 Hok2 Hall); try assumption.
  cbn [nb_o2req map concat]. rewrite app_nil_r. exact Hc.
Qed.
(* what the first transaction reports: complete, coding NO_BODY, status / reason / header fields of its response (nb_tfin unfolds to the
   header-block transaction PSegResThm.sr_tend with three fields set) *)
Lemma nb_tfin_facts e : t_response_progress (nb_tfin e) = c_HTP_RESPONSE_COMPLETE /\ t_response_transfer_coding (nb_tfin e) = c_HTP_CODING_NO_BODY /\
  t_res_cep (nb_tfin e) = c_HTP_COMPRESSION_NONE /\
  nb_tfin e = (sr_tend (px_t0 e) (px_res e) (px_cuts e)) <| t_response_transfer_coding := c_HTP_CODING_NO_BODY |> <| t_res_cep := c_HTP_COMPRESSION_NONE |>
                <| t_response_progress := c_HTP_RESPONSE_COMPLETE |>.
Proof. repeat split. Qed.

(* ================= Examples (vm_compute), evaluated before the proofs ================= *)
Definition nb_q_get1 : wr_request := mk_wr_request [71;69;84]%N [47;49]%N wr_http11 [mk_wr_field [72;111;115;116]%N [SP] [97]%N []].
Definition nb_q_get2 : wr_request := mk_wr_request [71;69;84]%N [47;50]%N wr_http11 [mk_wr_field [72;111;115;116]%N [SP] [97]%N []].
Definition nb_q_head : wr_request := mk_wr_request [72;69;65;68]%N [47;49]%N wr_http11 [mk_wr_field [72;111;115;116]%N [SP] [97]%N []].
Definition nb_s_204 : wr_response := mk_wr_response wr_http11 [50;48;52]%N [78;111;32;67;111;110;116;101;110;116]%N [].
Definition nb_s_304 : wr_response := mk_wr_response wr_http11 [51;48;52]%N [78;111;116;32;77;111;100;105;102;105;101;100]%N [mk_wr_field [69;84;97;103]%N [SP] [120]%N []].
Definition nb_s_102 : wr_response := mk_wr_response wr_http11 [49;48;50]%N [80;114;111;99;101;115;115;105;110;103]%N [mk_wr_field [88;45;65]%N [SP] [98]%N []].
Definition nb_s_head200 : wr_response := mk_wr_response wr_http11 [50;48;48]%N [79;75]%N [mk_wr_field [67;111;110;116;101;110;116;45;76;101;110;103;116;104]%N [SP] [49;48]%N []].
Definition nb_s_head304te : wr_response := mk_wr_response wr_http11 [51;48;52]%N [78;111;116;32;77;111;100;105;102;105;101;100]%N [mk_wr_field [84;114;97;110;115;102;101;114;45;69;110;99;111;100;105;110;103]%N [SP] [99;104;117;110;107;101;100]%N []; mk_wr_field [67;111;110;116;101;110;116;45;76;101;110;103;116;104]%N [SP] [55]%N []].
Definition nb_s_204cl : wr_response := mk_wr_response wr_http11 [50;48;52]%N [78;111;32;67;111;110;116;101;110;116]%N [mk_wr_field [67;111;110;116;101;110;116;45;76;101;110;103;116;104]%N [SP] [53]%N []].
Definition nb_s_304te : wr_response := mk_wr_response wr_http11 [51;48;52]%N [78;111;116;32;77;111;100;105;102;105;101;100]%N [mk_wr_field [84;114;97;110;115;102;101;114;45;69;110;99;111;100;105;110;103]%N [SP] [99;104;117;110;107;101;100]%N []].
Definition nb_s_304cl : wr_response := mk_wr_response wr_http11 [51;48;52]%N [78;111;116;32;77;111;100;105;102;105;101;100]%N [mk_wr_field [67;111;110;116;101;110;116;45;76;101;110;103;116;104]%N [SP] [53]%N []].
Definition nb_s_101 : wr_response := mk_wr_response wr_http11 [49;48;49]%N [83;119;105;116;99;104;105;110;103;32;80;114;111;116;111;99;111;108;115]%N [].
Definition nb_s_2 : wr_response := mk_wr_response wr_http11 [52;48;52]%N [78;111;116;32;70;111;117;110;100]%N [mk_wr_field [67;111;110;116;101;110;116;45;76;101;110;103;116;104]%N [SP] [50]%N []].
Definition nb_x (q : wr_request) (s : wr_response) : pp_xc := mk_pp_xc q s (sr_cuts_whole s) [].
Definition nb_x2 : pp_xc := mk_pp_xc nb_q_get2 nb_s_2 (sr_cuts_whole nb_s_2) [120; 121]%N.
Definition nb_gcfg := sg_ex_cfg 18000.
(* fingerprint of the transaction list after: both requests in one chunk, then the response chunks *)
Definition nb_fp (x1 : pp_xc) (sch : list bytes) := pp_fp (pp_run [wr_request_wire (xq x1) ++ wr_request_wire (xq nb_x2)] sch).
Definition nb_w (x1 : pp_xc) : bytes := nb_xwire x1 ++ pp_xwire nb_x2.
(* every single cut and the bytewise delivery give the fingerprint of the one-chunk delivery *)
Definition nb_all_same (x1 : pp_xc) : bool :=
  forallb (fun ch => pp_fp_eqb (nb_fp x1 ch) (nb_fp x1 [nb_w x1])) (sg_bytewise (nb_w x1) :: sg_cuts1 (nb_w x1)).
(* the accepted cases: 204, 304 with a field, 102 with a field, HEAD answered 200 with Content-Length: 10,
   HEAD answered 304 with Transfer-Encoding: chunked and Content-Length: 7 *)
Definition nb_good : list pp_xc := [nb_x nb_q_get1 nb_s_204; nb_x nb_q_get1 nb_s_304; nb_x nb_q_get1 nb_s_102; nb_x nb_q_head nb_s_head200; nb_x nb_q_head nb_s_head304te].
Example nb_ex_premises : forallb (nb_xc_ok nb_gcfg) nb_good = true /\ pp_xc_ok nb_gcfg nb_x2 = true /\ (g_max_tx nb_gcfg = 0 \/ 2 < g_max_tx nb_gcfg)%nat.
Proof. split; [vm_compute; reflexivity|]. split; [vm_compute; reflexivity|]. right. vm_compute. lia. Qed.
Example nb_ex_invariant : forallb nb_all_same nb_good = true.
Proof. vm_compute. reflexivity. Qed.
(* [status; entity_len; message_len; response_progress; request_progress; #response headers; #request headers; method; protocols] *)
Example nb_ex_values :
  nb_fp (nb_x nb_q_head nb_s_head200) [nb_w (nb_x nb_q_head nb_s_head200)] =
    [Some [200; 0; 0; c_HTP_RESPONSE_COMPLETE; c_HTP_REQUEST_COMPLETE; 1; 1; c_HTP_M_HEAD; c_HTP_PROTOCOL_1_1; c_HTP_PROTOCOL_1_1];
     Some [404; 2; 2; c_HTP_RESPONSE_COMPLETE; c_HTP_REQUEST_COMPLETE; 1; 1; c_HTP_M_GET; c_HTP_PROTOCOL_1_1; c_HTP_PROTOCOL_1_1]]%Z /\
  nb_fp (nb_x nb_q_get1 nb_s_204) [nb_w (nb_x nb_q_get1 nb_s_204)] =
    [Some [204; 0; 0; c_HTP_RESPONSE_COMPLETE; c_HTP_REQUEST_COMPLETE; 0; 1; c_HTP_M_GET; c_HTP_PROTOCOL_1_1; c_HTP_PROTOCOL_1_1];
     Some [404; 2; 2; c_HTP_RESPONSE_COMPLETE; c_HTP_REQUEST_COMPLETE; 1; 1; c_HTP_M_GET; c_HTP_PROTOCOL_1_1; c_HTP_PROTOCOL_1_1]]%Z.
Proof. split; vm_compute; reflexivity. Qed.
(* the reference transactions of the theorem are the ones the model computes *)
Example nb_ex_reference :
  c_txs (pp_run [wr_request_wire nb_q_head ++ wr_request_wire nb_q_get2] [nb_w (nb_x nb_q_head nb_s_head200)]) =
  [pr_slot nb_gcfg (nb_tfin (nb_ex_of nb_gcfg 0 false (nb_x nb_q_head nb_s_head200))); pr_slot nb_gcfg (pp_tfin (pp_ex_of nb_gcfg 1 false nb_x2))].
Proof. vm_compute. reflexivity. Qed.

(* ---- REFUTED for 204 / 304 (and 1xx) answers that carry Content-Length n > 0 or Transfer-Encoding, the request not being HEAD:
        htp_connp_RES_BODY_DETERMINE takes the "no body" branch only when BOTH fields are absent; otherwise the response is framed by
        them, the body is taken from the NEXT response, and the result depends on the chunking ---- *)
Example nb_refuted_204_cl :
  nb_xc_ok nb_gcfg (nb_x nb_q_get1 nb_s_204cl) = false /\
  nb_fp (nb_x nb_q_get1 nb_s_204cl) [nb_w (nb_x nb_q_get1 nb_s_204cl)] =
    [Some [204; 45; 45; c_HTP_RESPONSE_BODY; c_HTP_REQUEST_COMPLETE; 1; 1; c_HTP_M_GET; c_HTP_PROTOCOL_1_1; c_HTP_PROTOCOL_1_1];
     Some [0; 0; 0; 0; c_HTP_REQUEST_COMPLETE; 0; 1; c_HTP_M_GET; c_HTP_PROTOCOL_1_1; -1]]%Z /\
  length (nb_fp (nb_x nb_q_get1 nb_s_204cl) (sg_bytewise (nb_w (nb_x nb_q_get1 nb_s_204cl)))) = 4%nat /\
  nb_all_same (nb_x nb_q_get1 nb_s_204cl) = false.
Proof. split; [vm_compute; reflexivity|]. split; [vm_compute; reflexivity|]. split; vm_compute; reflexivity. Qed.
Example nb_refuted_304 :
  nb_xc_ok nb_gcfg (nb_x nb_q_get1 nb_s_304te) = false /\ nb_all_same (nb_x nb_q_get1 nb_s_304te) = false /\
  nb_xc_ok nb_gcfg (nb_x nb_q_get1 nb_s_304cl) = false /\ nb_all_same (nb_x nb_q_get1 nb_s_304cl) = false /\
  nth_error (nb_fp (nb_x nb_q_get1 nb_s_304cl) [nb_w (nb_x nb_q_get1 nb_s_304cl)]) 1 =
    Some (Some [0; 0; 0; 0; c_HTP_REQUEST_COMPLETE; 0; 1; c_HTP_M_GET; c_HTP_PROTOCOL_1_1; -1]%Z).
Proof. split; [vm_compute; reflexivity|]. split; [vm_compute; reflexivity|]. split; [vm_compute; reflexivity|]. split; vm_compute; reflexivity. Qed.
(* 101 without Content-Length / Transfer-Encoding switches to tunnel mode: not a bodyless final response (excluded by the premise) *)
Example nb_101_excluded : nb_xc_ok nb_gcfg (nb_x nb_q_get1 nb_s_101) = false.
Proof. vm_compute. reflexivity. Qed.

(* ================= FINAL THEOREMS FOR RE-EXPORT (Properties_C03.v / Properties_C04.v) =================
   nb_response_chunking   one exchange x1 whose answer has no body; requests and response in ANY chunking:
                          c_txs = [pr_slot g (nb_tfin (nb_ex_of g k1 fl1 x1))]   (full equality; None when tx_auto_destroy)
   nb_pairing             x1 (no body) then x2 (Content-Length body: PPairThm.pp_xc_ok), both pipelined, ANY chunking of the two request wires and of
                          nb_xwire x1 ++ pp_xwire x2:  c_txs = [slot of x1; pr_slot g (pp_tfin (pp_ex_of g k2 fl2 x2))]  -- the bytes after the empty
                          line of answer 1 are parsed as the response of transaction 2 (seeded defect C04-head-304-with-cl-takes-next-response)
   nb_tfin_facts          nb_tfin e = (sr_tend t0 r cuts) <| coding := NO_BODY |> <| cep := NONE |> <| response_progress := COMPLETE |>
                          (entity / message length are those the request left: 0 by PPairThm.prs_tfin)
   premises: wr_all_ok cb, g_allow_space_uri g = false, g_max_tx g = 0 \/ 2 < g_max_tx g,
             nb_xc_ok g x1 = sg_req_ok && sr_response_ok && sr_cuts_ok && nb_framed_g && sr_fits, where nb_framed_g = the model's decision on the grammar:
                 not CONNECT, not (101 without CL/TE), not (100 without TE and CL <= 0) and
                 ( method HEAD [any status, any Content-Length / Transfer-Encoding]  or  status 1xx / 204 / 304 WITHOUT Content-Length and Transfer-Encoding )
             nb_pairing: pp_xc_ok g x2, pp_f1_free [x2] schunks (finding F1, only for the body of x2)
   REFUTED (nb_refuted_204_cl, nb_refuted_304): 204 / 304 with Content-Length > 0 or Transfer-Encoding to a non-HEAD request *)
Print Assumptions nb_response_chunking.
Print Assumptions nb_pairing.
Print Assumptions nb_tfin_facts.
