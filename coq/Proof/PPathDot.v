(* C12 -- proofs about the dot-segment normaliser (model of htp_normalize_uri_path_inplace):
   sufficient fuel, no "." / ".." segment in the output, length, fixpoint on clean paths, idempotence,
   equality with the RFC 3986 5.2.4 relation (pinned deviation). *)
Require Import Htp.Model.Base Htp.Model.MPath Htp.Spec.SPath.
Local Open Scope N_scope.

Notation SL := pth_SL.
Notation DOT := pth_DOT.

(* ------------------------------------------------------------------ what the look-ahead view says *)

Lemma dot_view_spec rest :
  match dot_view rest with
  | DV_nil => rest = []
  | DV_sl r => rest = SL :: r
  | DV_dot_end => rest = [DOT]
  | DV_dot_sl r => rest = DOT :: SL :: r
  | DV_dotdot_end => rest = [DOT; DOT]
  | DV_dotdot_sl r => rest = DOT :: DOT :: SL :: r
  | DV_other => True
  end.
Proof.
  destruct rest as [|a r1]; cbn; [reflexivity|].
  destruct (a =? SL) eqn:Ea; [apply N.eqb_eq in Ea; subst; reflexivity|].
  destruct (a =? DOT) eqn:Ed; [|exact I]. apply N.eqb_eq in Ed; subst a.
  destruct r1 as [|b r2]; [reflexivity|].
  destruct (b =? SL) eqn:Eb; [apply N.eqb_eq in Eb; subst; reflexivity|].
  destruct (b =? DOT) eqn:Ed; [|exact I]. apply N.eqb_eq in Ed; subst b.
  destruct r2 as [|c r3]; [reflexivity|].
  destruct (c =? SL) eqn:Ec; [apply N.eqb_eq in Ec; subst; reflexivity|exact I].
Qed.

(* ------------------------------------------------------------------ segments (structural, head segment first) *)

Notation sg := (dot_split_on SL).
Definition okseg (g : bytes) := dot_is_dotseg g = false.
Definition cleanR (o : bytes) : Prop := Forall okseg (sg o).

Lemma sg_nonempty s : sg s <> [].
Proof. induction s as [|x r IH]; cbn; [discriminate|]. destruct (x =? SL); [discriminate|]. destruct (sg r); discriminate. Qed.

Lemma sg_drop o : sg (dot_drop_seg o) = match tl (sg o) with [] => [[]] | l => l end.
Proof.
  induction o as [|x o IH]; cbn; [reflexivity|].
  destruct (x =? SL) eqn:E; cbn.
  - destruct (sg o) eqn:Eo; [destruct (sg_nonempty o Eo)|reflexivity].
  - rewrite IH. destruct (sg o) as [|g gs] eqn:Eo; [destruct (sg_nonempty o Eo)|reflexivity].
Qed.

Lemma cleanR_drop o : cleanR o -> cleanR (dot_drop_seg o).
Proof.
  unfold cleanR; rewrite sg_drop. intros H.
  destruct (sg o) as [|g gs]; cbn; [repeat constructor|].
  inversion H; subst. destruct gs; [repeat constructor|assumption].
Qed.

Lemma copy_seg_rest rest o r' o' : dot_copy_seg rest o = (r', o') -> r' = [] \/ exists t, r' = SL :: t.
Proof.
  revert o; induction rest as [|x r IH]; cbn; intros o H.
  - inversion H; auto.
  - destruct (x =? SL) eqn:E.
    + inversion H; subst. right. apply N.eqb_eq in E; subst. eauto.
    + eapply IH; eauto.
Qed.

Fixpoint upto (rest : bytes) : bytes :=
  match rest with [] => [] | x :: r => if x =? SL then [] else x :: upto r end.
Lemma copy_seg_out rest o r' o' : dot_copy_seg rest o = (r', o') -> o' = rev (upto rest) ++ o.
Proof.
  revert o; induction rest as [|x r IH]; cbn; intros o H.
  - inversion H; reflexivity.
  - destruct (x =? SL); [inversion H; reflexivity|].
    apply IH in H. rewrite H. cbn. rewrite <- app_assoc. reflexivity.
Qed.
Lemma copy_seg_split rest o r' o' : dot_copy_seg rest o = (r', o') -> rest = upto rest ++ r'.
Proof.
  revert o; induction rest as [|x r IH]; cbn; intros o H.
  - inversion H; reflexivity.
  - destruct (x =? SL); [inversion H; reflexivity|].
    apply IH in H. cbn. f_equal. exact H.
Qed.
Lemma upto_noslash rest : Forall (fun x => (x =? SL) = false) (upto rest).
Proof. induction rest as [|x r IH]; cbn; [constructor|]. destruct (x =? SL) eqn:E; constructor; assumption. Qed.

Lemma sg_app_noslash l o : Forall (fun x => (x =? SL) = false) l ->
  sg (l ++ o) = match sg o with g :: gs => (l ++ g) :: gs | [] => [] end.
Proof.
  induction l as [|x l IH]; cbn; intros H.
  - destruct (sg o); reflexivity.
  - inversion H as [|? ? Hx Hl]; subst. rewrite Hx. rewrite IH by assumption.
    destruct (sg o) eqn:Eo; [destruct (sg_nonempty o Eo)|reflexivity].
Qed.
Lemma Forall_rev' {A} (P : A -> Prop) l : Forall P l -> Forall P (rev l).
Proof. intros H. apply Forall_forall. intros x Hx. apply in_rev in Hx. eapply Forall_forall; eauto. Qed.

(* dot segments are palindromes, so no reasoning about rev of segments is needed *)
Lemma is_dotseg_rev g : dot_is_dotseg (rev g) = dot_is_dotseg g.
Proof.
  destruct g as [|a [|b [|c g]]]; cbn; try reflexivity.
  - apply andb_comm.
  - destruct (rev g ++ [c]) as [|x [|y l]] eqn:E; cbn.
    + destruct (rev g); discriminate.
    + reflexivity.
    + destruct l; cbn; reflexivity.
Qed.

Lemma view_upto_dot rest : upto rest = [DOT] -> (exists r, dot_view rest = DV_dot_sl r) \/ dot_view rest = DV_dot_end.
Proof.
  destruct rest as [|a r1]; cbn; [discriminate|].
  destruct (a =? SL) eqn:Ea; [discriminate|]. intros H. inversion H as [[Ha Hr]]. rewrite N.eqb_refl.
  destruct r1 as [|b r2]; [auto|]. cbn in Hr. destruct (b =? SL) eqn:Eb; [eauto|discriminate].
Qed.
Lemma view_upto_dotdot rest : upto rest = [DOT; DOT] -> (exists r, dot_view rest = DV_dotdot_sl r) \/ dot_view rest = DV_dotdot_end.
Proof.
  destruct rest as [|a r1]; cbn; [discriminate|].
  destruct (a =? SL) eqn:Ea; [discriminate|]. intros H. inversion H as [[Ha Hr]]. rewrite N.eqb_refl.
  destruct r1 as [|b r2]; [discriminate|]. cbn in Hr. destruct (b =? SL) eqn:Eb; [discriminate|].
  inversion Hr as [[Hb Hr2]]. rewrite N.eqb_refl.
  destruct r2 as [|c r3]; [auto|]. cbn in Hr2. destruct (c =? SL) eqn:Ec; [eauto|discriminate].
Qed.
Lemma view_upto_nil rest : upto rest = [] -> dot_view rest = DV_nil \/ exists r, dot_view rest = DV_sl r.
Proof. destruct rest as [|a r]; cbn; [auto|]. destruct (a =? SL); [eauto|discriminate]. Qed.

Lemma is_dotseg_true g : dot_is_dotseg g = true -> g = [DOT] \/ g = [DOT; DOT].
Proof.
  destruct g as [|a [|b [|c g]]]; cbn; try discriminate.
  - intros H; apply N.eqb_eq in H; subst; auto.
  - intros H; apply andb_true_iff in H as [H1 H2]. apply N.eqb_eq in H1, H2; subst; auto.
Qed.

(* loop invariant: output clean, and a non-'/' current char only occurs while the output is empty *)
Definition J (c : option N) (rest o : bytes) : Prop :=
  o = [] \/ c = Some SL \/ (c = None /\ (rest = [] \/ exists t, rest = SL :: t)).
Definition Inv c rest o := cleanR o /\ J c rest o.

Lemma E_slash rest o :
  cleanR o -> okseg (upto rest) ->
  match dot_stepE SL rest o with Dot_exit => True | Dot_cont c' r' o' => Inv c' r' o' end.
Proof.
  unfold dot_stepE. intros Hc Hok. destruct (dot_copy_seg rest (SL :: o)) as [r' o'] eqn:Hcp. split.
  - apply copy_seg_out in Hcp. subst o'. unfold cleanR.
    rewrite sg_app_noslash by (apply Forall_rev', upto_noslash).
    cbn [dot_split_on]. rewrite N.eqb_refl. constructor; [|exact Hc].
    rewrite app_nil_r. unfold okseg. rewrite is_dotseg_rev. exact Hok.
  - right; right; split; [reflexivity|]. eapply copy_seg_rest; eauto.
Qed.
Lemma E_first c rest :
  (c =? SL) = false -> okseg (c :: upto rest) ->
  match dot_stepE c rest [] with Dot_exit => True | Dot_cont c' r' o' => Inv c' r' o' end.
Proof.
  unfold dot_stepE. intros Hs Hok. destruct (dot_copy_seg rest [c]) as [r' o'] eqn:Hcp. split.
  - apply copy_seg_out in Hcp. subst o'. unfold cleanR.
    rewrite sg_app_noslash by (apply Forall_rev', upto_noslash).
    cbn [dot_split_on]. rewrite Hs. cbn. constructor; [|constructor].
    unfold okseg. replace (rev (upto rest) ++ [c]) with (rev (c :: upto rest)) by reflexivity.
    rewrite is_dotseg_rev. exact Hok.
  - right; right; split; [reflexivity|]. eapply copy_seg_rest; eauto.
Qed.

Lemma iter_inv c rest o : Inv c rest o ->
  match dot_iter c rest o with Dot_exit => True | Dot_cont c' r' o' => Inv c' r' o' end.
Proof.
  intros [Hc HJ]. unfold dot_iter. destruct rest as [|x r]; [exact I|]. unfold bytes in *.
  assert (Hfetch : exists c0 rest0,
            (match c with None => (x, r) | Some c => (c, x :: r) end) = (c0, rest0) /\ (o = [] \/ c0 = SL)).
  { destruct c as [c|].
    - exists c, (x :: r). split; [reflexivity|]. destruct HJ as [H|[H|[H _]]]; [auto|inversion H; auto|discriminate].
    - exists x, r. split; [reflexivity|]. destruct HJ as [H|[H|[_ [H|[t H]]]]]; [auto|discriminate|discriminate|inversion H; auto]. }
  destruct Hfetch as (c0 & rest0 & -> & Hco).
  destruct (c0 =? DOT) eqn:Ed.
  - apply N.eqb_eq in Ed; subst c0.
    assert (Ho : o = []) by (destruct Hco as [H|H]; [exact H|discriminate]). subst o.
    destruct (dot_view rest0) eqn:Ev; try exact I;
      try (split; [exact Hc| left; reflexivity]);
      (apply E_first; [reflexivity|]; unfold okseg;
       destruct (dot_is_dotseg (DOT :: upto rest0)) eqn:Ei; [|reflexivity]; exfalso;
       apply is_dotseg_true in Ei as [Ei|Ei]; inversion Ei as [Hu];
       [apply view_upto_nil in Hu as [Hu|[? Hu]] | apply view_upto_dot in Hu as [[? Hu]|Hu]]; congruence).
  - destruct (c0 =? SL) eqn:Es.
    + apply N.eqb_eq in Es; subst c0.
      destruct (dot_view rest0) eqn:Ev;
        try (split; [first [exact Hc | apply cleanR_drop; exact Hc] | right; left; reflexivity]);
        (apply E_slash; [exact Hc|]; unfold okseg;
         destruct (dot_is_dotseg (upto rest0)) eqn:Ei; [|reflexivity]; exfalso;
         apply is_dotseg_true in Ei as [Ei|Ei];
         [apply view_upto_dot in Ei as [[? Hu]|Hu] | apply view_upto_dotdot in Ei as [[? Hu]|Hu]]; congruence).
    + assert (Ho : o = []) by (destruct Hco as [H|H]; [exact H|subst; discriminate]). subst o.
      apply E_first; [exact Es|]. unfold okseg.
      destruct (dot_is_dotseg (c0 :: upto rest0)) eqn:Ei; [|reflexivity]. exfalso.
      apply is_dotseg_true in Ei as [Ei|Ei]; inversion Ei; subst; discriminate.
Qed.

Lemma run_clean fuel : forall c rest o out, Inv c rest o -> dot_run fuel c rest o = Some out -> cleanR out.
Proof.
  induction fuel as [|f IH]; cbn; intros c rest o out HI H; [discriminate|].
  pose proof (iter_inv c rest o HI) as Hs. destruct (dot_iter c rest o) as [|c' r' o'].
  - inversion H; subst. exact (proj1 HI).
  - eapply IH; eauto.
Qed.

Theorem run_no_dot_segment s out :
  dot_run (2 * length s + 2) None s [] = Some out -> cleanR out.
Proof. intros H. eapply run_clean; [|exact H]. split; [repeat constructor|left; reflexivity]. Qed.

(* ------------------------------------------------------------------ sufficient fuel, length *)

(* termination measure of the loop: twice the unread suffix, plus one while a character is pending *)
Definition dmeasure (c : option N) (rest : bytes) : nat :=
  (2 * length rest + match c with Some _ => 1 | None => 0 end)%nat.

Lemma copy_seg_len rest o r' o' : dot_copy_seg rest o = (r', o') ->
  (length r' <= length rest /\ length o' + length r' = length o + length rest)%nat.
Proof.
  revert o; induction rest as [|x r IH]; cbn; intros o H.
  - inversion H; cbn; lia.
  - destruct (x =? SL); [inversion H; cbn; lia|].
    apply IH in H. cbn in H. lia.
Qed.

Lemma drop_seg_len o : (length (dot_drop_seg o) <= length o)%nat.
Proof. induction o as [|x o IH]; cbn; [lia|]. destruct (x =? SL); lia. Qed.

Definition pend (c : option N) : nat := match c with Some _ => 1%nat | None => 0%nat end.

(* every iteration strictly decreases the measure and never lets output + pending + unread grow *)
Lemma iter_measure c rest o :
  match dot_iter c rest o with
  | Dot_exit => True
  | Dot_cont c' r' o' =>
    (dmeasure c' r' < dmeasure c rest /\ length o' + pend c' + length r' <= length o + pend c + length rest)%nat
  end.
Proof.
  unfold dot_iter. destruct rest as [|x r]; [exact I|]. unfold bytes in *.
  assert (Hf : exists c0 rest0, (match c with None => (x, r) | Some c => (c, x :: r) end) = (c0, rest0) /\
               (S (2 * length rest0) <= dmeasure c (x :: r))%nat /\ (S (length rest0) = pend c + length (x :: r))%nat).
  { destruct c as [c|]; [exists c, (x :: r)|exists x, r]; (split; [reflexivity|]); unfold dmeasure, pend; cbn [length]; lia. }
  destruct Hf as (c0 & rest0 & -> & Hm & Hl).
  assert (HE : forall ch, match dot_stepE ch rest0 o with
               | Dot_exit => True
               | Dot_cont c' r' o' =>
                 (dmeasure c' r' < dmeasure c (x :: r) /\ length o' + pend c' + length r' <= length o + pend c + length (x :: r))%nat
               end).
  { intros ch. unfold dot_stepE. destruct (dot_copy_seg rest0 (ch :: o)) as [r' o'] eqn:Hcp.
    apply copy_seg_len in Hcp. cbn [length] in Hcp. unfold dmeasure at 1. unfold pend at 1. lia. }
  pose proof (dot_view_spec rest0) as Hv.
  pose proof (drop_seg_len o) as Hd.
  destruct (c0 =? DOT).
  - destruct (dot_view rest0); try exact I; try apply HE; subst rest0;
      unfold dmeasure at 1; unfold pend at 1; cbn [length] in *; lia.
  - destruct (c0 =? SL); [|apply HE].
    destruct (dot_view rest0); try apply HE; subst rest0;
      unfold dmeasure at 1; unfold pend at 1; cbn [length] in *; lia.
Qed.

Lemma run_fuel fuel : forall c rest o, (dmeasure c rest < fuel)%nat -> dot_run fuel c rest o <> None.
Proof.
  induction fuel as [|f IH]; intros c rest o H; [lia|]. cbn.
  pose proof (iter_measure c rest o) as Hm. destruct (dot_iter c rest o) as [|c' r' o']; [discriminate|].
  apply IH. lia.
Qed.

Theorem dot_fuel_sufficient s : dot_normalize_opt s <> None.
Proof.
  unfold dot_normalize_opt. pose proof (run_fuel (2 * length s + 2) None s []) as H.
  destruct (dot_run (2 * length s + 2) None s []); cbn; [discriminate|].
  exfalso. apply H; [|reflexivity]. unfold dmeasure. lia.
Qed.

Lemma dot_normalize_run s : exists o, dot_run (2 * length s + 2) None s [] = Some o /\ dot_normalize s = rev o.
Proof.
  pose proof (dot_fuel_sufficient s) as H. unfold dot_normalize, dot_normalize_opt in *.
  destruct (dot_run (2 * length s + 2) None s []) as [o|]; cbn [option_map] in *; [eauto|exfalso; apply H; reflexivity].
Qed.

Lemma run_len fuel : forall c rest o out, dot_run fuel c rest o = Some out ->
  (length out <= length o + pend c + length rest)%nat.
Proof.
  induction fuel as [|f IH]; cbn; intros c rest o out H; [discriminate|].
  pose proof (iter_measure c rest o) as Hm. destruct (dot_iter c rest o) as [|c' r' o'].
  - inversion H; subst. lia.
  - apply IH in H. lia.
Qed.

Theorem dot_normalize_length s : (length (dot_normalize s) <= length s)%nat.
Proof.
  destruct (dot_normalize_run s) as (o & Hr & ->). rewrite rev_length.
  apply run_len in Hr. cbn in Hr. lia.
Qed.

(* ------------------------------------------------------------------ segments of the (un-reversed) output *)

Lemma sg_app_sl a b : sg (a ++ SL :: b) = sg a ++ sg b.
Proof.
  induction a as [|x a IH]; cbn.
  - reflexivity.
  - destruct (x =? SL); rewrite IH; [reflexivity|].
    destruct (sg a) as [|g gs] eqn:Ea; [destruct (sg_nonempty a Ea)|reflexivity].
Qed.

Lemma sg_snoc l x : (x =? SL) = false -> forall L h, sg l = L ++ [h] -> sg (l ++ [x]) = L ++ [h ++ [x]].
Proof.
  intros Hx. induction l as [|y l IH]; cbn; intros L h H.
  - rewrite Hx. destruct L as [|a [|b L]]; cbn in H; inversion H; subst; reflexivity.
  - destruct (y =? SL).
    + destruct L as [|a L]; cbn in H.
      * inversion H as [[H1 H2]]. destruct (sg_nonempty l H2).
      * inversion H as [[H1 H2]]. subst a. rewrite (IH _ _ H2). reflexivity.
    + destruct (sg l) as [|g gs] eqn:El; [destruct (sg_nonempty l El)|].
      destruct L as [|a L]; cbn in H.
      * inversion H; subst. rewrite (IH [] g eq_refl). reflexivity.
      * inversion H as [[H1 H2]]. subst a gs. rewrite (IH (g :: L) h eq_refl). reflexivity.
Qed.

Lemma sg_rev o : sg (rev o) = rev (map (@rev N) (sg o)).
Proof.
  induction o as [|x o IH]; cbn [rev]; [reflexivity|].
  cbn [dot_split_on]. destruct (x =? SL) eqn:Ex.
  - apply N.eqb_eq in Ex; subst x. rewrite sg_app_sl, IH. reflexivity.
  - destruct (sg o) as [|g gs] eqn:Eo; [destruct (sg_nonempty o Eo)|].
    cbn [map rev] in *. apply (sg_snoc _ _ Ex). exact IH.
Qed.

Lemma cleanR_rev o : cleanR o -> cleanR (rev o).
Proof.
  unfold cleanR. rewrite sg_rev. intros H. apply Forall_rev'.
  apply Forall_forall. intros g Hg. apply in_map_iff in Hg as (g0 & <- & Hg0).
  unfold okseg. rewrite is_dotseg_rev. eapply Forall_forall in H; eauto.
Qed.

Theorem dot_normalize_clean s : cleanR (dot_normalize s).
Proof.
  destruct (dot_normalize_run s) as (o & Hr & ->). apply cleanR_rev. eapply run_no_dot_segment; eauto.
Qed.

Theorem normalize_no_dot_segment s g :
  In g (dot_split_on pth_SL (dot_normalize s)) -> g <> [pth_DOT] /\ g <> [pth_DOT; pth_DOT].
Proof.
  intros Hg. pose proof (dot_normalize_clean s) as H. unfold cleanR in H.
  eapply Forall_forall in H; eauto. unfold okseg in H.
  split; intros ->; cbn in H; discriminate.
Qed.

(* ------------------------------------------------------------------ a path without dot segments is a fixpoint *)

Lemma sg_hd rest : exists gs, sg rest = upto rest :: gs.
Proof.
  induction rest as [|x r [gs IH]]; cbn; [eauto|].
  destruct (x =? SL); [eauto|]. rewrite IH. eauto.
Qed.

Lemma run_fix fuel : forall rest o,
  (length rest < fuel)%nat -> cleanR rest -> (o = [] \/ rest = [] \/ exists t, rest = SL :: t) ->
  dot_run fuel None rest o = Some (rev rest ++ o).
Proof.
  induction fuel as [|f IH]; intros rest o Hf Hc Hb; [lia|].
  cbn [dot_run]. destruct rest as [|x r]; [reflexivity|].
  cbn [dot_iter].
  (* the first segment of what follows the current character *)
  assert (HstepE : forall ch, (ch =? SL) = true \/ o = [] -> cleanR (ch :: r) ->
            match dot_stepE ch r o with
            | Dot_exit => False
            | Dot_cont c' r' o' => c' = None /\ (length r' <= length r)%nat /\ cleanR r' /\
                                   (r' = [] \/ exists t, r' = SL :: t) /\ rev r' ++ o' = rev (ch :: r) ++ o
            end).
  { intros ch _ Hcl. unfold dot_stepE. destruct (dot_copy_seg r (ch :: o)) as [r' o'] eqn:Hcp.
    pose proof (copy_seg_len _ _ _ _ Hcp) as [Hl _].
    pose proof (copy_seg_rest _ _ _ _ Hcp) as Hr.
    pose proof (copy_seg_split _ _ _ _ Hcp) as Hs.
    pose proof (copy_seg_out _ _ _ _ Hcp) as Ho.
    repeat split; try assumption.
    - destruct Hr as [->|[t ->]]; [repeat constructor|].
      unfold cleanR in *. rewrite Hs in Hcl.
      change (ch :: upto r ++ SL :: t) with ((ch :: upto r) ++ SL :: t) in Hcl.
      rewrite sg_app_sl in Hcl. apply Forall_app in Hcl as [_ Hcl].
      cbn [dot_split_on]. rewrite N.eqb_refl. constructor; [reflexivity|exact Hcl].
    - subst o'. rewrite Hs at 2. cbn [rev]. rewrite rev_app_distr, <- !app_assoc. reflexivity. }
  assert (Hfin : forall ch, (ch =? SL) = true \/ o = [] -> cleanR (ch :: r) ->
            match dot_stepE ch r o with
            | Dot_exit => Some o
            | Dot_cont c' r' o' => dot_run f c' r' o'
            end = Some (rev (ch :: r) ++ o)).
  { intros ch H1 H2. specialize (HstepE ch H1 H2). destruct (dot_stepE ch r o) as [|c' r' o']; [destruct HstepE|].
    destruct HstepE as (-> & Hl & Hcl & Hr & <-). apply IH; [cbn in Hf; lia|exact Hcl|right; exact Hr]. }
  pose proof (dot_view_spec r) as Hv.
  destruct (sg_hd r) as [gs Hgs].
  destruct (x =? DOT) eqn:Ed.
  - apply N.eqb_eq in Ed; subst x.
    assert (Ho : o = []) by (destruct Hb as [H|[H|[t H]]]; [exact H|discriminate|inversion H]).
    assert (Hok : okseg (DOT :: upto r)).
    { unfold cleanR in Hc. cbn [dot_split_on] in Hc. change (DOT =? SL) with false in Hc. cbv iota in Hc.
      rewrite Hgs in Hc. inversion Hc; assumption. }
    destruct (dot_view r); try (apply Hfin; [right; exact Ho|exact Hc]); subst r; cbn in Hok; discriminate.
  - destruct (x =? SL) eqn:Es; [|apply Hfin; [right|exact Hc]].
    + apply N.eqb_eq in Es; subst x.
      assert (Hok : okseg (upto r)).
      { unfold cleanR in Hc. cbn [dot_split_on] in Hc. rewrite N.eqb_refl in Hc. inversion Hc as [|? ? _ Hc'].
        rewrite Hgs in Hc'. inversion Hc'; assumption. }
      destruct (dot_view r); try (apply Hfin; [left; reflexivity|exact Hc]); subst r; cbn in Hok; discriminate.
    + destruct Hb as [H|[H|[t H]]]; [exact H|discriminate|]. inversion H; subst. rewrite N.eqb_refl in Es. discriminate.
Qed.

Theorem dot_normalize_fix s : cleanR s -> dot_normalize s = s.
Proof.
  intros Hc. destruct (dot_normalize_run s) as (o & Hr & ->).
  rewrite run_fix in Hr; [|lia|exact Hc|left; reflexivity].
  inversion Hr. rewrite app_nil_r, rev_involutive. reflexivity.
Qed.

Theorem dot_normalize_idempotent s : dot_normalize (dot_normalize s) = dot_normalize s.
Proof. apply dot_normalize_fix, dot_normalize_clean. Qed.
