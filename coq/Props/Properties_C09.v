(* C09 -- stream API contract: return codes, consumed counts, sticky failure.
   Only statements closed by `exact`, their assumptions, and examples. The model is Model/MConnp.v
   (cp_step / cp_run over MReq / MRes); obs_run is what a caller observes, in the vocabulary of the extracted
   checkers of Spec/SConnp.v, which are the oracles run on the implementation's output. *)
Require Import Htp.Model.MConnTypes Htp.Model.MTxCommon Htp.Model.MReq Htp.Model.MRes Htp.Model.MConnp
               Htp.Spec.SConnp Htp.Proof.PReq Htp.Proof.PRes Htp.Proof.PConnp.
Local Open Scope Z_scope.

(* every data call of every history (any callbacks, any configuration, any bytes) returns a documented stream state *)
Theorem C09_rc_documented : forall cb g ops c, forallb call_documented (obs_run cb g c ops) = true.
Proof. exact model_rc_documented. Qed.
Print Assumptions C09_rc_documented.

(* a direction that is in ERROR or STOP answers a data call with that code and the parser state is left untouched
   (so no callback runs, nothing is consumed, nothing is created) *)
Theorem C09_sticky_call_req : forall cb g data len c,
  c_in_status c = c_HTP_STREAM_ERROR \/ c_in_status c = c_HTP_STREAM_STOP ->
  connp_req_data cb g data len c = (c, c_in_status c).
Proof. exact req_data_sticky. Qed.
Theorem C09_sticky_call_res : forall cb g data len c,
  c_out_status c = c_HTP_STREAM_STOP \/ c_out_status c = c_HTP_STREAM_ERROR ->
  connp_res_data cb g data len c = (c, c_out_status c).
Proof. exact res_data_sticky. Qed.
Print Assumptions C09_sticky_call_req.

(* when a data call returns ERROR or STOP that code IS the new state of the direction *)
Theorem C09_sticky_status_req : forall cb g data len c,
  sticky_code (snd (connp_req_data cb g data len c)) ->
  c_in_status (fst (connp_req_data cb g data len c)) = snd (connp_req_data cb g data len c).
Proof. exact req_data_sticky_status. Qed.
Theorem C09_sticky_status_res : forall cb g data len c,
  sticky_code (snd (connp_res_data cb g data len c)) ->
  c_out_status (fst (connp_res_data cb g data len c)) = snd (connp_res_data cb g data len c).
Proof. exact res_data_sticky_status. Qed.

(* for EVERY operation sequence from a fresh parser the model's observations pass the stickiness oracles:
   after ERROR/STOP on a direction, every later data call of that direction returns the same code and runs no
   callback -- until a call of the other kind (other direction's data, close) intervenes *)
Theorem C09_sticky_req : forall cb g ops, chk_sticky_req None (obs_run cb g connp_new ops) = true.
Proof. intros. apply model_sticky_req; [reflexivity|exact I]. Qed.
Theorem C09_sticky_res : forall cb g ops, chk_sticky_res None (obs_run cb g connp_new ops) = true.
Proof. intros. apply model_sticky_res; [reflexivity|exact I]. Qed.
Print Assumptions C09_sticky_req.
Print Assumptions C09_sticky_res.

(* the property text read literally -- NO later call of the direction returns anything else, whatever the other
   direction did in between -- is false of the code: a refused CONNECT resets a request side that a callback had
   stopped (RES_BODY_DETERMINE writes in_status = DATA unless it is ERROR). Known finding. *)
Definition C09_sticky_full : Prop := forall cb g ops, chk_sticky_req_strict None (obs_run cb g connp_new ops) = true.
Definition c09_w_ops : list cp_op := [OpOpen;
   OpReqData [67;79;78;78;69;67;84;32;97;58;52;52;51;32;72;84;84;80;47;49;46;49;13;10;72;111;115;116;58;32;97;13;10;13;10]%N;
   OpResData [72;84;84;80;47;49;46;49;32;52;48;51;32;70;111;114;98;105;100;100;101;110;13;10;67;111;110;116;101;110;116;45;76;101;110;103;116;104;58;32;48;13;10;13;10]%N;
   OpReqData [71;69;84;32;47;49;32;72;84;84;80;47;49;46;49;13;10;72;111;115;116;58;32;97;13;10;13;10]%N;
   OpClose].
Definition c09_w_cb : cb_oracle := script_lookup [((4, 0), CB_STOP)]%nat.
Definition c09_w_g : cfg := cp_make_cfg 1 (Z.to_nat 18000) 512 false false 0.
Theorem C09_sticky_full_refuted : ~ C09_sticky_full.
Proof. intros H. specialize (H c09_w_cb c09_w_g c09_w_ops). vm_compute in H. discriminate. Qed.
Print Assumptions C09_sticky_full_refuted.

(* DATA means the whole chunk was consumed (response direction; invariant rs_S of the body states) *)
Theorem C09_data_means_all_res : forall cb g data len c,
  rs_chunk_ok data len -> rs_S c ->
  snd (connp_res_data cb g data len c) = c_HTP_STREAM_DATA ->
  (k_len (c_out (fst (connp_res_data cb g data len c))) <= k_read (c_out (fst (connp_res_data cb g data len c))))%nat.
Proof. exact res_data_data_means_all. Qed.
Print Assumptions C09_data_means_all_res.

(* non-vacuity: a history in which the request side stops and stays stopped *)
Example C09_example :
  map (fun o => (oc_kind o, oc_rc o, length (oc_events o)))
      (obs_run c09_w_cb c09_w_g connp_new [OpOpen; OpReqData [71;69;84;32;47;32;72;84;84;80;47;49;46;49;13;10;13;10]%N; OpReqData [71]%N; OpReqGap 3])
  = [(6%nat, -1, 0%nat); (0%nat, c_HTP_STREAM_STOP, 5%nat); (0%nat, c_HTP_STREAM_STOP, 0%nat); (2%nat, c_HTP_STREAM_STOP, 0%nat)].
Proof. vm_compute. reflexivity. Qed.

(* the request direction: DATA means every byte of the chunk was consumed, DATA_OTHER means strictly fewer (for a parser whose body counters are
   consistent with its state: rq_inv, true of the fresh parser and kept by every data call) *)
Theorem C09_data_means_all_req : forall cb g data len c c',
  rq_inv c -> (forall d, data = Some d -> (len <= length d)%nat) ->
  connp_req_data cb g data len c = (c', c_HTP_STREAM_DATA) -> k_read (c_in c') = len.
Proof. exact req_data_data_means_all. Qed.
Print Assumptions C09_data_means_all_req.
Theorem C09_other_means_less_req : forall cb g data len c c',
  rq_inv c -> (forall d, data = Some d -> (len <= length d)%nat) ->
  connp_req_data cb g data len c = (c', c_HTP_STREAM_DATA_OTHER) -> (k_read (c_in c') < len)%nat.
Proof. exact req_data_other_means_less. Qed.
Print Assumptions C09_other_means_less_req.
Theorem C09_req_inv_kept : forall cb g data len c,
  rq_inv c -> (forall d, data = Some d -> (len <= length d)%nat) -> rq_inv (fst (connp_req_data cb g data len c)).
Proof. exact req_data_keeps_inv. Qed.
(* every call returns: the loops of both data entry points never exhaust their fuel (PTermReq / PTermRes) *)
Require Import Htp.Proof.PTermReq Htp.Proof.PTermRes.
Theorem C09_req_call_returns : forall cb g data len c k,
  rq_inv c -> (forall d, data = Some d -> (len <= length d)%nat) -> (c_in_status c = c_HTP_STREAM_CLOSED -> len = 0%nat) ->
  connp_req_data_fuel cb g (rq_fuel len + k) data len c = connp_req_data cb g data len c.
Proof. exact req_data_fuel_sufficient. Qed.
Theorem C09_res_call_returns : forall cb g data len c k,
  ts_entry_ok len c -> connp_res_data_fuel cb g (rs_res_fuel len + k) data len c = connp_res_data cb g data len c.
Proof. exact res_data_fuel_sufficient. Qed.
Print Assumptions C09_res_call_returns.

(* ==== the two remaining clauses of the property, as theorems (PCounters.v, PHandover*.v; agent) ==== *)
Require Import Htp.Spec.SHandover Htp.Proof.PCounters Htp.Proof.PHandoverGen Htp.Proof.PHandoverRes Htp.Proof.PHandoverReq Htp.Proof.PHandover.
(* (A) BYTE COUNTERS, unconditional (every callback oracle, configuration and parser state; gaps included): a data call adds its length to the counter of its own
   direction exactly when it passes the entry guards (req_door / res_door: the direction is not in STOP / ERROR and has not lost its transaction outside IDLE),
   and never touches the other counter; a call answered DATA, DATA_OTHER or TUNNEL did pass them; over a run the counter is the sum over the accepted calls,
   which lies between 0 and the bytes offered *)
Theorem C09_counters_req : forall cb g data len c,
  let c' := fst (connp_req_data cb g data len c) in
  c_in_data_counter c' = c_in_data_counter c + (if req_door c then Z.of_nat len else 0) /\ c_out_data_counter c' = c_out_data_counter c.
Proof. exact req_data_counters. Qed.
Theorem C09_counters_res : forall cb g data len c,
  let c' := fst (connp_res_data cb g data len c) in
  c_out_data_counter c' = c_out_data_counter c + (if res_door c then Z.of_nat len else 0) /\ c_in_data_counter c' = c_in_data_counter c.
Proof. exact res_data_counters. Qed.
Theorem C09_accepted_means_counted_req : forall cb g data len c,
  let rc := snd (connp_req_data cb g data len c) in
  rc = c_HTP_STREAM_DATA \/ rc = c_HTP_STREAM_DATA_OTHER \/ rc = c_HTP_STREAM_TUNNEL -> req_door c = true.
Proof. exact req_data_accepted. Qed.
Theorem C09_accepted_means_counted_res : forall cb g data len c,
  let rc := snd (connp_res_data cb g data len c) in
  rc = c_HTP_STREAM_DATA \/ rc = c_HTP_STREAM_DATA_OTHER \/ rc = c_HTP_STREAM_TUNNEL -> res_door c = true.
Proof. exact res_data_accepted. Qed.
Theorem C09_counters_run : forall cb g ops c,
  c_in_data_counter (fst (cp_run cb g c ops)) = c_in_data_counter c + run_in_bytes cb g c ops /\
  c_out_data_counter (fst (cp_run cb g c ops)) = c_out_data_counter c + run_out_bytes cb g c ops.
Proof. exact cp_run_counters. Qed.
Theorem C09_counters_run_bounds : forall cb g ops c,
  0 <= run_in_bytes cb g c ops <= ops_in_offered ops /\ 0 <= run_out_bytes cb g c ops <= ops_out_offered ops.
Proof. exact cp_run_counters_bounds. Qed.
Print Assumptions C09_counters_req.
Print Assumptions C09_counters_run.
Print Assumptions C09_counters_run_bounds.

(* (B) HAND-OVER PROGRESS. Local facts, unconditional: a response call answers DATA_OTHER only after wrapping its response up (idle, detached); from there
   the next response call on data consumes at least one byte or answers something else; a request call answers DATA_OTHER only in
   REQ_CONNECT_WAIT_RESPONSE. Hence no ping-pong: after a response yield and ANY one request call, the next response call is not (DATA_OTHER, 0). *)
Theorem C09_res_yield_is_idle : forall cb g data len c c',
  connp_res_data cb g data len c = (c', c_HTP_STREAM_DATA_OTHER) ->
  c_out_state c' = RES_IDLE /\ c_out_tx c' = None /\ c_out_status c' = c_HTP_STREAM_DATA_OTHER.
Proof. exact res_data_other_idle. Qed.
Theorem C09_res_idle_not_stuck : forall cb g d c c',
  c_out_state c = RES_IDLE -> c_out_status c <> c_HTP_STREAM_CLOSED -> d <> [] ->
  connp_res_data cb g (Some d) (length d) c = (c', c_HTP_STREAM_DATA_OTHER) -> (1 <= k_read (c_out c'))%nat.
Proof. exact res_idle_not_stuck. Qed.
Theorem C09_req_waits_only_for_connect : forall cb g data len c c',
  connp_req_data cb g data len c = (c', c_HTP_STREAM_DATA_OTHER) ->
  c_in_state c' = REQ_CONNECT_WAIT_RESPONSE /\ c_in_status c' = c_HTP_STREAM_DATA_OTHER.
Proof. exact req_data_other_state. Qed.
Theorem C09_req_stuck_only_waiting_for_status_line : forall cb g d c c',
  rq_inv c -> d <> [] -> c_in_status c <> c_HTP_STREAM_CLOSED ->
  connp_req_data cb g (Some d) (length d) c = (c', c_HTP_STREAM_DATA_OTHER) -> k_read (c_in c') = 0%nat ->
  c_in_state c = REQ_CONNECT_CHECK \/
  (c_in_state c = REQ_CONNECT_WAIT_RESPONSE /\ t_response_progress (rq_tx c) <= c_HTP_RESPONSE_LINE).
Proof. exact req_data_other_zero. Qed.
Theorem C09_no_pingpong : forall cb g c ds c1 n1 dq c2 rc2 n2 ds' c3 rc3 n3,
  hs_call cb g c HS ds = (c1, c_HTP_STREAM_DATA_OTHER, n1) ->
  hs_call cb g c1 HQ dq = (c2, rc2, n2) ->
  ds' <> [] -> hs_call cb g c2 HS ds' = (c3, rc3, n3) ->
  ~ (rc3 = c_HTP_STREAM_DATA_OTHER /\ n3 = O).
Proof. exact handover_no_pingpong. Qed.
(* Global: the hand-over DRIVER (Spec/SHandover.v: two queues of pending chunks; offer the head chunk of the scheduled direction; on DATA drop it; on DATA_OTHER
   keep the unconsumed suffix and turn to the other direction; on ERROR / STOP / CLOSED / TUNNEL stop feeding that direction) never runs out of its budget of
   4 * (pending bytes + pending chunks) + 4 calls -- for EVERY callback oracle, configuration, schedule, pair of queues, and from EVERY parser state (no
   invariant needed): at most three calls in a row make no progress. When it stops it is done, or blocked only because the request side waits for a
   response of which nothing is available. *)
Theorem C09_handover_terminates : forall cb g sched c q s, fst (fst (hs_run cb g sched c q s)) <> HFuel.
Proof. exact handover_terminates. Qed.
Theorem C09_handover_done : forall cb g sched c q s s' l,
  hs_run cb g sched c q s = (HDone, s', l) ->
  (h_qlive s' = false \/ h_q s' = []) /\ (h_slive s' = false \/ h_s s' = []).
Proof. exact handover_done. Qed.
Theorem C09_handover_blocked : forall cb g sched c q s s' l,
  hs_run cb g sched c q s = (HBlocked, s', l) ->
  (h_slive s' = false \/ h_s s' = []) /\
  c_in_state (h_st s') = REQ_CONNECT_WAIT_RESPONSE /\ c_in_status (h_st s') = c_HTP_STREAM_DATA_OTHER /\
  exists ch rest, ch <> [] /\ h_q s' = ch :: rest.
Proof. exact handover_blocked. Qed.
Print Assumptions C09_no_pingpong.
Print Assumptions C09_handover_terminates.
Print Assumptions C09_handover_blocked.
(* two literal readings of the progress clause are false of the code (bounded, not endless: not findings): *)
Theorem C09_request_moves_after_yield_refuted : ~ handover_request_moves_after_yield_full.
Proof. exact handover_request_moves_after_yield_refuted. Qed.
Theorem C09_no_mutual_stuck_refuted : ~ handover_no_mutual_stuck_full.
Proof. exact handover_no_mutual_stuck_refuted. Qed.
