(* C07 -- decompression is faithful for any chunking, and bombs are contained.
   Only statements closed by `exact`, their assumptions, and examples. The model is Model/MDecomp.v; zlib, the LZMA SDK,
   the clock and the user's hook are an explicit oracle (OT, ask, dc_clock, dc_hook), never an axiom. *)
Require Import Htp.Model.Base Htp.Model.MBstr Htp.Model.MDecomp Htp.Proof.PDecomp.
Local Open Scope Z_scope.

(* ---- the constants the property text quotes are the ones of /repo ---- *)
Theorem C07_bomb_ratio_le : c_HTP_COMPRESSION_BOMB_RATIO <= 2048.
Proof. exact dz_bomb_ratio_le. Qed.
Theorem C07_buf_size : c_GZIP_BUF_SIZE = 8192.
Proof. exact dz_buf_size. Qed.

(* ================================================================== (a) the bomb bound *)
(* EVERY external behaviour (decoders, clock, hook), every sequence of body calls, every configuration:
   delivered <= max(limit, 2048 * message_len) + largest block + one buffer + limit/(ratio-1). *)
Theorem C07_bomb_bound :
  forall (OT : Type) (ask : OT -> dz_query -> dz_ans * OT) (c : dz_cfg) (maxchunk : Z) ce calls (o : OT),
    0 <= maxchunk -> dz_calls_ok maxchunk calls ->
    let w := tx_w OT (fst (dz_run OT ask c ce calls o)) in
    dz_delivered_bytes w <= Z.max (dc_bomb c) (2048 * w_message OT w) + Z.max 8192 maxchunk + 8192
                            + Z.max 0 (dc_bomb c) / (c_HTP_COMPRESSION_BOMB_RATIO - 1).
Proof. exact dz_C07_bomb_bound. Qed.
Print Assumptions C07_bomb_bound.

(* limit of at most (ratio - 1) buffers, e.g. the default 1 MiB: two buffers on top of the largest block *)
Theorem C07_bomb_bound_small_limit :
  forall (OT : Type) (ask : OT -> dz_query -> dz_ans * OT) (c : dz_cfg) (maxchunk : Z) ce calls (o : OT),
    0 <= maxchunk -> dz_calls_ok maxchunk calls ->
    dc_bomb c <= (c_HTP_COMPRESSION_BOMB_RATIO - 1) * c_GZIP_BUF_SIZE ->
    let w := tx_w OT (fst (dz_run OT ask c ce calls o)) in
    dz_delivered_bytes w <= Z.max (dc_bomb c) (2048 * w_message OT w) + Z.max 8192 maxchunk + 2 * 8192.
Proof. exact dz_C07_bomb_bound_small_limit. Qed.
Print Assumptions C07_bomb_bound_small_limit.

Theorem C07_bomb_bound_small_blocks :
  forall (OT : Type) (ask : OT -> dz_query -> dz_ans * OT) (c : dz_cfg) ce calls (o : OT),
    dz_calls_ok 8192 calls ->
    dc_bomb c <= (c_HTP_COMPRESSION_BOMB_RATIO - 1) * c_GZIP_BUF_SIZE ->
    let w := tx_w OT (fst (dz_run OT ask c ce calls o)) in
    dz_delivered_bytes w <= Z.max (dc_bomb c) (2048 * w_message OT w) + 3 * c_GZIP_BUF_SIZE.
Proof. exact dz_C07_bomb_bound_small_blocks. Qed.
Print Assumptions C07_bomb_bound_small_blocks.

(* the mechanism: the body callback answers HTP_OK only within the bound, and a call that starts within the bound goes over it by
   at most ONE block (an output buffer, or the chunk itself in the raw fallback / passthrough), whatever the decoders do *)
Theorem C07_accepted_means_within_bound :
  forall (OT : Type) (c : dz_cfg) d (w w' : dz_world OT),
    dz_callback OT c d w = (w', c_HTP_OK) ->
    w_entity OT w' <= Z.max (dc_bomb c) (c_HTP_COMPRESSION_BOMB_RATIO * w_message OT w').
Proof. exact dz_C07_accepted_means_within_bound. Qed.
Print Assumptions C07_accepted_means_within_bound.

Theorem C07_one_block_over :
  forall (OT : Type) (ask : OT -> dz_query -> dz_ans * OT) (c : dz_cfg) n ls d (w : dz_world OT) ls' w' r,
    dz_decompress OT ask c n ls d w = (ls', w', r) ->
    Forall dz_wf ls -> dz_clean OT c w ->
    w_entity OT w' <= dz_M OT c w + Z.max (Z.of_nat dz_BUF) (dz_len d) /\ w_message OT w' = w_message OT w /\ (r = c_HTP_OK -> dz_clean OT c w').
Proof. exact dz_C07_one_block_over. Qed.
Print Assumptions C07_one_block_over.

(* the property text's bound ("by more than one output buffer"; a passthrough block counts as one block) *)
Definition C07_bomb_bound_tight_full : Prop :=
  forall (c : dz_cfg) (maxchunk : Z) ce calls recs,
    0 <= maxchunk -> dz_calls_ok maxchunk calls ->
    let ob := dz_observe c ce calls recs in
    Z.of_nat (length (dz_delivered ob)) <= Z.max (dc_bomb c) (2048 * ob_message ob) + Z.max 8192 maxchunk.

(* ================================================================== (b) layer limits *)
Theorem C07_layers_bounded :
  forall (OT : Type) (ask : OT -> dz_query -> dz_ans * OT) (c : dz_cfg) ce (w : dz_world OT),
    let t := dz_response_headers OT ask c ce w in
    (0 < dc_layers c -> Z.of_nat (length (tx_chain OT t)) <= dc_layers c) /\
    dz_nlzma (tx_chain OT t) <= Z.max 0 (dc_lzma_layers c).
Proof. exact dz_C07_layers_bounded. Qed.
Print Assumptions C07_layers_bounded.

(* ================================================================== (c) the wrapper is faithful, relative to an inflate contract *)
(* single gzip or deflate layer, quiet clock, accepting hook, payload within the bomb limit; the decoder is any state machine
   (zst, zinit, zinflate) with an invariant zvalid satisfying the contract; every chunking of the stream *)
Theorem C07_wrapper_faithful_partial :
  forall (zst : Type) (zinit : Z -> zst) (zinflate : zst -> bytes -> nat -> zst * nat * bytes * Z)
         (zvalid : zst -> bytes -> bytes -> Prop),
    (forall z s p offered rest ao,
        zvalid z s p -> s = offered ++ rest -> offered <> [] -> (0 < ao)%nat ->
        let '(z', cn, out, rc) := zinflate z offered ao in
        (cn <= length offered)%nat /\ (length out <= ao)%nat /\ exists p', p = out ++ p' /\
        ((rc = c_dz_Z_OK /\ zvalid z' (skipn cn s) p' /\ (0 < cn + length out)%nat /\ skipn cn s <> []) \/
         (rc = c_dz_Z_STREAM_END /\ skipn cn s = [] /\ p' = []))) ->
    forall (c : dz_cfg) (t0 : Z * Z),
      (forall k, dc_clock c k = t0) -> 0 <= dc_tlimit c -> (forall k, dc_hook c k = c_HTP_OK) ->
      forall fmt, fmt = c_dz_COMPRESSION_GZIP \/ fmt = c_dz_COMPRESSION_DEFLATE ->
      forall p, Z.of_nat (length p) <= dc_bomb c -> dc_enabled c = true ->
      forall ce wb s chunks (o : zst),
        (fmt = c_dz_COMPRESSION_GZIP /\ ce = s_gzip /\ wb = 15 + 32) \/ (fmt = c_dz_COMPRESSION_DEFLATE /\ ce = s_deflate /\ wb = -15) ->
        zvalid (zinit wb) s p -> s <> [] -> concat chunks = s ->
        Forall (fun ch => ch <> [] /\ Z.of_nat (length ch) <= c_dz_UINT32_MAX /\ (length ch + length p < dc_fuel c)%nat) chunks ->
        dz_devs (tx_w zst (fst (dz_run zst (zask zst zinit zinflate) c (Some ce) (map (fun ch => (0, Some ch)) chunks ++ [(0, None)]) o))) = p.
Proof. exact dz_wrapper_faithful. Qed.
Print Assumptions C07_wrapper_faithful_partial.

(* the contract hypothesis is satisfiable: a toy format (|windowBits| bytes verbatim + one trailer byte) *)
Theorem C07_contract_nonvacuous : forall z s p offered rest ao,
  dz_toy_valid z s p -> s = offered ++ rest -> offered <> [] -> (0 < ao)%nat ->
  let '(z', cn, out, rc) := dz_toy_inflate z offered ao in
  (cn <= length offered)%nat /\ (length out <= ao)%nat /\ exists p', p = out ++ p' /\
  ((rc = c_dz_Z_OK /\ dz_toy_valid z' (skipn cn s) p' /\ (0 < cn + length out)%nat /\ skipn cn s <> []) \/
   (rc = c_dz_Z_STREAM_END /\ skipn cn s = [] /\ p' = [])).
Proof. exact dz_toy_contract. Qed.

Definition ex_cfg (bomb : Z) : dz_cfg :=
  mk_dz_cfg true bomb 2 1 1048576 100000 64 (fun _ => (0, 0)) (fun _ => c_HTP_OK).
Definition ex_payload15 : bytes := map N.of_nat (seq 1 15).

(* ... and the theorem's premises hold for it: a "deflate" body of 15 payload bytes + trailer in three chunks *)
Example C07_wrapper_faithful_example :
  dz_devs (tx_w dz_toy (fst (dz_run dz_toy (zask dz_toy dz_toy_init dz_toy_inflate) (ex_cfg 1000) (Some s_deflate)
     (map (fun ch => (0, Some ch)) [firstn 4 ex_payload15; skipn 4 ex_payload15; [99%N]] ++ [(0, None)]) ToyDone)))
  = ex_payload15.
Proof.
  apply (C07_wrapper_faithful_partial dz_toy dz_toy_init dz_toy_inflate dz_toy_valid dz_toy_contract (ex_cfg 1000) (0, 0))
    with (fmt := c_dz_COMPRESSION_DEFLATE) (wb := -15) (s := ex_payload15 ++ [99%N]); try reflexivity.
  - vm_compute. discriminate.
  - right. reflexivity.
  - vm_compute. discriminate.
  - right. repeat split; reflexivity.
  - split; [reflexivity|]. exists 99%N. reflexivity.
  - discriminate.
  - repeat constructor; try discriminate; vm_compute; try discriminate; lia.
Qed.

(* the full statement: every deflate-/gzip-coded body, every chunking, as recorded on the real decoders. Refuted twice below. *)
Definition C07_chunking_independent_full : Prop :=
  forall c ce calls1 calls2 recs1 recs2,
    concat (map (fun x => match snd x with Some b => b | None => [] end) calls1) =
    concat (map (fun x => match snd x with Some b => b | None => [] end) calls2) ->
    ob_desync (dz_observe c ce calls1 recs1) = None -> ob_desync (dz_observe c ce calls2 recs2) = None ->
    dz_delivered (dz_observe c ce calls1 recs1) = dz_delivered (dz_observe c ce calls2 recs2).

(* ================================================================== (d) data no decoder accepts is passed through *)
Theorem C07_passthrough_lossless_partial :
  forall (OT : Type) (ask : OT -> dz_query -> dz_ans * OT),
    (forall o inp ao, da_rc (fst (ask o (QInflate inp ao))) = c_dz_Z_DATA_ERROR /\ da_out (fst (ask o (QInflate inp ao))) = []) ->
    (forall o wb, da_rc (fst (ask o (QInit wb))) = c_dz_Z_OK) ->
    forall (c : dz_cfg) (t0 : Z * Z),
      (forall k, dc_clock c k = t0) -> 0 <= dc_tlimit c -> (forall k, dc_hook c k = c_HTP_OK) -> (5 <= dc_fuel c)%nat ->
      forall fmt, dz_gd fmt -> dc_enabled c = true ->
      forall ce b ch' chunks (o : OT),
        (fmt = c_dz_COMPRESSION_GZIP /\ ce = s_gzip) \/ (fmt = c_dz_COMPRESSION_DEFLATE /\ ce = s_deflate) ->
        dz_probe (b :: ch') = O -> Z.of_nat (length (b :: ch')) <= c_dz_UINT32_MAX ->
        dz_devs (tx_w OT (fst (dz_run OT ask c (Some ce) (map (fun ch => (0, Some ch)) ((b :: ch') :: chunks) ++ [(0, None)]) o)))
        = concat ((b :: ch') :: chunks).
Proof. exact dz_passthrough_lossless. Qed.
Print Assumptions C07_passthrough_lossless_partial.

Example C07_passthrough_example :
  dz_devs (tx_w unit (fst (dz_run unit dz_reject_ask (ex_cfg 10) (Some s_gzip)
     (map (fun ch => (0, Some ch)) [[104;105]%N; [33]%N; [10;10;10]%N] ++ [(0, None)]) tt))) = [104;105;33;10;10;10]%N.
Proof. vm_compute. reflexivity. Qed.

(* the full statement of the property text ("not valid for the announced coding => passed through") does not hold: a body that is
   not valid but is a prefix of something valid is swallowed (recorded on the library: Content-Encoding: gzip, body "a") *)
Example C07_passthrough_refuted_short :
  let ob := dz_observe (ex_cfg 100000000) (Some s_gzip) [(0, Some [97%N]); (0, None); (0, None)]
                       [RInit 47 0; RInflate 1 8192 [97%N] 1 0 []; REnd] in
  ob_desync ob = None /\ ob_left ob = O /\ dz_delivered ob = [].
Proof. vm_compute. repeat split; reflexivity. Qed.

(* ================================================================== (e) F12: restart after earlier chunks were consumed *)
(* Recorded on the library (zlib 1.3): Content-Encoding: deflate, body = zlib stream of "hello, world\n" x 8 (24 bytes).
   Delivered whole it is decoded (two restarts inside the first call); cut after 3 bytes, the raw-deflate decoder swallows the
   first piece, fails on the second, and the restarts only see the second piece: 21 raw bytes come out instead of 104. *)
Definition f12_stream : bytes := [120;156;203;72;205;201;201;215;81;40;207;47;202;73;225;202;160;29;7;0;143;57;36;145]%N.
Definition f12_payload : bytes := concat (repeat [104;101;108;108;111;44;32;119;111;114;108;100;10]%N 8).
Definition f12_recs_split : list dz_rec :=
  [RInit (-15) 0; RInflate 3 8192 [120;156;203]%N 3 0 [];
   RInflate 21 8192 [72;205;201;201]%N 2 (-3) []; REnd; RInit (-15) 0;
   RInflate 21 8192 [72;205;201;201]%N 5 (-3) []; REnd; RInit 47 0;
   RInflate 21 8192 [72;205;201;201]%N 2 (-3) []; REnd; RInit (-15) 0;
   RInflate 21 8192 [72;205;201;201]%N 5 (-3) []; REnd].
Definition f12_recs_whole : list dz_rec :=
  [RInit (-15) 0; RInflate 24 8192 [120;156;203;72]%N 5 (-3) []; REnd; RInit (-15) 0;
   RInflate 24 8192 [120;156;203;72]%N 5 (-3) []; REnd; RInit 47 0;
   RInflate 24 8192 [120;156;203;72]%N 24 1 f12_payload; REnd].

Example C07_refuted_F12 :
  let split := dz_observe (ex_cfg 100000000) (Some s_deflate) [(0, Some (firstn 3 f12_stream)); (0, Some (skipn 3 f12_stream)); (0, None); (0, None)] f12_recs_split in
  let whole := dz_observe (ex_cfg 100000000) (Some s_deflate) [(0, Some f12_stream); (0, None); (0, None)] f12_recs_whole in
  ob_desync split = None /\ ob_left split = O /\ ob_desync whole = None /\ ob_left whole = O /\
  dz_delivered whole = f12_payload /\ ob_late whole = false /\
  dz_delivered split = skipn 3 f12_stream /\ ob_late split = true /\ ob_trace split = true /\
  dz_delivered split <> dz_delivered whole.
Proof. vm_compute. repeat split; try reflexivity. discriminate. Qed.

Theorem C07_chunking_independent_refuted : ~ C07_chunking_independent_full.
Proof.
  intros H.
  specialize (H (ex_cfg 100000000) (Some s_deflate)
                [(0, Some f12_stream); (0, None); (0, None)]
                [(0, Some (firstn 3 f12_stream)); (0, Some (skipn 3 f12_stream)); (0, None); (0, None)]
                f12_recs_whole f12_recs_split eq_refl eq_refl eq_refl).
  vm_compute in H. discriminate H.
Qed.

(* F21 (found while stating the contract): a raw deflate stream whose last input byte is consumed while the output buffer is full.
   Recorded on the library: Content-Encoding: deflate, body = raw deflate of 8195 zero bytes (24 bytes), delivered whole:
   inflate returns Z_OK with all input consumed and 8192 bytes produced; the loop ends (avail_in == 0), the end-of-stream call
   flushes the buffer and never calls inflate again: the last 3 bytes stay inside zlib. *)
Example C07_refuted_tail_loss :
  let ob := dz_observe (ex_cfg 100000000) (Some s_deflate)
              [(0, Some [237;193;1;13;0;0;0;194;160;247;79;109;15;7;20;0;0;0;0;0;0;0;112;96]%N); (0, None); (0, None)]
              [RInit (-15) 0; RInflate 24 8192 [237;193;1;13]%N 24 0 (repeat 0%N (Z.to_nat 8192)); REnd] in
  ob_desync ob = None /\ ob_left ob = O /\ ob_trace ob = false /\ dz_delivered ob = repeat 0%N (Z.to_nat 8192).
Proof. vm_compute. repeat split; reflexivity. Qed.

(* ================================================================== the tight bound does not hold for every external behaviour *)
(* (1) a decoder error other than Z_DATA_ERROR with output in the buffer: the raw fallback is refused by the bomb test and the
       stale buffer still comes out at the end of the stream: 16385 > 8192 + 8192 *)
Example C07_bomb_bound_tight_refuted_stale :
  let ob := dz_observe (ex_cfg 8192) (Some s_gzip) [(0, Some [1;2]%N); (0, None)]
              [RInit 47 0; RInflate 2 8192 [1;2]%N 0 0 (repeat 0%N (Z.to_nat 8192)); RInflate 2 8192 [1;2]%N 0 2 (repeat 0%N (Z.to_nat 8191)); REnd; RInit 47 (-2)] in
  ob_desync ob = None /\ ob_left ob = O /\
  Z.of_nat (length (dz_delivered ob)) = 16385 /\ Z.max 8192 (2048 * ob_message ob) + Z.max 8192 2 = 16384.
Proof. vm_compute. repeat split; reflexivity. Qed.

Theorem C07_bomb_bound_tight_refuted : ~ C07_bomb_bound_tight_full.
Proof.
  intros H.
  specialize (H (ex_cfg 8192) 2 (Some s_gzip) [(0, Some [1;2]%N); (0, None)]
                [RInit 47 0; RInflate 2 8192 [1;2]%N 0 0 (repeat 0%N (Z.to_nat 8192)); RInflate 2 8192 [1;2]%N 0 2 (repeat 0%N (Z.to_nat 8191)); REnd; RInit 47 (-2)]).
  assert (H1 : 0 <= 2) by lia.
  assert (H2 : dz_calls_ok 2 [(0, Some [1;2]%N); (0, None)]).
  { repeat constructor; cbn; lia. }
  specialize (H H1 H2). vm_compute in H. apply H. reflexivity.
Qed.

(* (2) the clock test switches the first layer to passthrough AFTER the bomb test has refused a block: the passthrough blocks
       are delivered on top (clock advancing 1 s per call, 1-byte calls): 16387 > 8192 + 8192 *)
Example C07_bomb_bound_tight_refuted_clock :
  let c := mk_dz_cfg true 8192 2 1 1048576 100000 64 (fun k => (Z.of_nat k, 0)) (fun _ => c_HTP_OK) in
  let ob := dz_observe c (Some s_gzip) [(0, Some [1]%N); (0, Some [2]%N); (0, Some [3]%N); (0, Some [4]%N); (0, None)]
              [RInit 47 0; RInflate 1 8192 [1]%N 0 0 (repeat 0%N (Z.to_nat 8192)); RInflate 1 8192 [1]%N 0 0 (repeat 0%N (Z.to_nat 8192)); REnd] in
  ob_desync ob = None /\ ob_left ob = O /\
  Z.of_nat (length (dz_delivered ob)) = 16387 /\ Z.max 8192 (2048 * ob_message ob) + Z.max 8192 1 = 16384.
Proof. vm_compute. repeat split; reflexivity. Qed.
(* (3) passthrough after a bomb prefix, bomb limit above (ratio-1) buffers: exhibited on the LIBRARY (known finding F22, lib/c07.py) *)

(* ---- non-vacuity of the premises of (a) ---- *)
Example C07_calls_ok_example : dz_calls_ok 3 [(0, Some [1;2;3]%N); (7, Some [4]%N); (0, None)].
Proof. repeat constructor; cbn; lia. Qed.

(* ==== MORE LAYERS AND THE RESTART PATH (PDecompLayers*.v), relative to the same inflate contract, never an axiom ====
   C07_layers_faithful: a Content-Encoding list of n >= 1 gzip / deflate codings within the layer limit (or no limit); the wire stream s is valid for the outermost
   format with payload p1, p1 valid for the next format, ..., down to the payload p (dzl_valid: one contract instance per layer, independent decoder states):
   for EVERY chunking of s the bytes handed to the body callback are exactly p. (Holds for every n since /repo 6159658: before, the token loop built n - 1
   layers for n >= 4 codings at limit n -- the defect this proof exposed.)
   C07_restart_faithful: the body is really in the OTHER format than the announced one (deflate announced, gzip sent, or the reverse) and the first inflate
   call of the first data call fails: after the two restarts the payload is delivered faithfully for every chunking of the rest. The premise "fails on the
   FIRST call" is the complement of the listed finding F12 (C07_F12_premise_needed: cut after one byte, the wrong decoder swallows it, the payload is lost). *)
Require Import Htp.Proof.PDecompLayers Htp.Proof.PDecompLayersRestart.
Local Close Scope Z_scope.
Theorem C07_layers_faithful :
  forall (zst : Type) (zinit : Z -> zst) (zinflate : zst -> bytes -> nat -> zst * nat * bytes * Z) (zvalid : zst -> bytes -> bytes -> Prop),
       (forall (z : zst) (s pp : bytes) (offered rest : list N) (ao : nat),
        zvalid z s pp ->
        s = offered ++ rest ->
        offered <> [] ->
        0 < ao ->
        let
        '(z', cn, out, rc) := zinflate z offered ao in
         cn <= length offered /\
         length out <= ao /\
         (exists p' : list N,
            pp = out ++ p' /\
            (rc = c_dz_Z_OK /\ zvalid z' (skipn cn s) p' /\ 0 < cn + length out /\ skipn cn s <> [] \/ rc = c_dz_Z_STREAM_END /\ skipn cn s = [] /\ p' = []))) ->
       forall (c : dz_cfg) (t0 : Z * Z),
       (forall k : nat, dc_clock c k = t0) ->
       (0 <= dc_tlimit c)%Z ->
       (forall k : nat, dc_hook c k = c_HTP_OK) ->
       forall p : bytes,
       (Z.of_nat (length p) <= dc_bomb c)%Z ->
       0 < dc_fuel c ->
       dc_enabled c = true ->
       forall (fs : list Z) (B : nat) (s : bytes) (chunks : list (list N)),
       fs <> [] ->
       dc_layers c = 0%Z \/ (Z.of_nat (length fs) <= dc_layers c)%Z ->
       dzl_valid zst zinit zvalid c B fs s p ->
       concat chunks = s ->
       Forall (fun ch : list N => ch <> [] /\ length ch <= B /\ (Z.of_nat (length ch) <= c_dz_UINT32_MAX)%Z) chunks ->
       dz_devs
         (tx_w (list (dzl_rs zst))
            (fst
               (dz_run (list (dzl_rs zst)) (dzl_ask zst zinit zinflate) c (Some (dzl_ce fs)) (map (fun ch : list N => (0%Z, Some ch)) chunks ++ [(0%Z, None)])
                  []))) = p.
Proof. exact dzl_layers_faithful. Qed.
Print Assumptions C07_layers_faithful.
Theorem C07_restart_faithful :
  forall (zst : Type) (zinit : Z -> zst) (zinflate : zst -> bytes -> nat -> zst * nat * bytes * Z) (zvalid : zst -> bytes -> bytes -> Prop),
       (forall (z : zst) (s pp : bytes) (offered rest : list N) (ao : nat),
        zvalid z s pp ->
        s = offered ++ rest ->
        offered <> [] ->
        0 < ao ->
        let
        '(z', cn, out, rc) := zinflate z offered ao in
         cn <= length offered /\
         length out <= ao /\
         (exists p' : list N,
            pp = out ++ p' /\
            (rc = c_dz_Z_OK /\ zvalid z' (skipn cn s) p' /\ 0 < cn + length out /\ skipn cn s <> [] \/ rc = c_dz_Z_STREAM_END /\ skipn cn s = [] /\ p' = []))) ->
       forall (c : dz_cfg) (t0 : Z * Z),
       (forall k : nat, dc_clock c k = t0) ->
       (0 <= dc_tlimit c)%Z ->
       (forall k : nat, dc_hook c k = c_HTP_OK) ->
       forall p : bytes,
       (Z.of_nat (length p) <= dc_bomb c)%Z ->
       forall fmtA fmtB wbA wbB : Z,
       fmtA = c_dz_COMPRESSION_DEFLATE /\ fmtB = c_dz_COMPRESSION_GZIP /\ wbA = (-15)%Z /\ wbB = (15 + 32)%Z \/
       fmtA = c_dz_COMPRESSION_GZIP /\ fmtB = c_dz_COMPRESSION_DEFLATE /\ wbA = (15 + 32)%Z /\ wbB = (-15)%Z ->
       dc_enabled c = true ->
       forall (ce : bytes) (ch1 : list N) (chunks : list (list N)) (o : zst),
       fmtA = c_dz_COMPRESSION_GZIP /\ ce = s_gzip \/ fmtA = c_dz_COMPRESSION_DEFLATE /\ ce = s_deflate ->
       zvalid (zinit wbB) (concat (ch1 :: chunks)) p ->
       dz_probe ch1 = 0 ->
       dzr_fails zst zinflate (zinit wbA) ch1 ->
       Forall (fun ch : list N => ch <> [] /\ (Z.of_nat (length ch) <= c_dz_UINT32_MAX)%Z /\ length ch + length p + 2 < dc_fuel c) (ch1 :: chunks) ->
       dz_devs (tx_w zst (fst (dz_run zst (zask zst zinit zinflate) c (Some ce) (map (fun ch : list N => (0%Z, Some ch)) (ch1 :: chunks) ++ [(0%Z, None)]) o))) =
       p.
Proof. exact dzr_restart_faithful. Qed.
Print Assumptions C07_restart_faithful.
Theorem C07_F12_premise_needed :
  let split := dzr_ex_run s_deflate [firstn 1 dzr_ex_sB; skipn 1 dzr_ex_sB] in
       let whole := dzr_ex_run s_deflate [dzr_ex_sB] in
       dz_devs (tx_w dzr_toy whole) = dzr_ex_p /\
       w_late dzr_toy (tx_w dzr_toy whole) = false /\
       w_trace dzr_toy (tx_w dzr_toy whole) = true /\
       dz_devs (tx_w dzr_toy split) = skipn 1 dzr_ex_sB /\
       dz_devs (tx_w dzr_toy split) <> dzr_ex_p /\
       w_late dzr_toy (tx_w dzr_toy split) = true /\
       ~ dzr_fails dzr_toy dzr_toy_inflate (dzr_toy_init (-15)) (firstn 1 dzr_ex_sB) /\ dzr_fails dzr_toy dzr_toy_inflate (dzr_toy_init (-15)) dzr_ex_sB.
Proof. exact dzr_F12_premise_needed. Qed.

(* LZMA layer, relative to a decoder contract of the same shape (stream end = FINISHED_WITH_MARK): the 13-byte header may be cut anywhere across calls; for EVERY
   chunking of header ++ stream the payload is delivered (the seeded change C07-lzma-header-cursor-from-total is exactly a violation of this statement) *)
Require Import Htp.Proof.PDecompLayersLzma.
Theorem C07_lzma_faithful :
  forall (lst : Type) (lzinit : lst) (lzdecode : lst -> bytes -> nat -> lst * nat * bytes * Z * Z) (lzvalid : lst -> bytes -> bytes -> Prop),
       (forall (z : lst) (s pp : bytes) (offered rest : list N) (ao : nat),
        lzvalid z s pp ->
        s = offered ++ rest ->
        offered <> [] ->
        0 < ao ->
        let
        '(z', cn, out, rc, st) := lzdecode z offered ao in
         cn <= length offered /\
         length out <= ao /\
         rc = c_dz_SZ_OK /\
         (exists p' : list N,
            pp = out ++ p' /\
            (st <> c_dz_LZMA_STATUS_FINISHED_WITH_MARK /\ lzvalid z' (skipn cn s) p' /\ 0 < cn + length out /\ skipn cn s <> [] \/
             st = c_dz_LZMA_STATUS_FINISHED_WITH_MARK /\ skipn cn s = [] /\ p' = []))) ->
       (forall (s pp : bytes) (ao : nat),
        lzvalid lzinit s pp ->
        let '(z', _, out, rc, st) := lzdecode lzinit [] ao in out = [] /\ rc = c_dz_SZ_OK /\ st <> c_dz_LZMA_STATUS_FINISHED_WITH_MARK /\ lzvalid z' s pp) ->
       forall (c : dz_cfg) (t0 : Z * Z),
       (forall k : nat, dc_clock c k = t0) ->
       (0 <= dc_tlimit c)%Z ->
       (forall k : nat, dc_hook c k = c_HTP_OK) ->
       forall p : bytes,
       (Z.of_nat (length p) <= dc_bomb c)%Z ->
       forall s : bytes,
       lzvalid lzinit s p ->
       s <> [] ->
       dc_enabled c = true ->
       (0 < dc_lzma_mem c)%Z ->
       (0 < dc_lzma_layers c)%Z ->
       forall (hdr : list N) (chunks : list (list N)) (o : lst),
       length hdr = 13 ->
       concat chunks = hdr ++ s ->
       dzz_chunks_ok c p chunks ->
       dz_devs (tx_w lst (fst (dz_run lst (lzask lst lzinit lzdecode) c (Some s_lzma) (map (fun ch : list N => (0%Z, Some ch)) chunks ++ [(0%Z, None)]) o))) =
       p.
Proof. exact dzz_lzma_faithful. Qed.
Print Assumptions C07_lzma_faithful.
