(* C07 -- decompression is faithful for any chunking, and bombs are contained.
   Only statements closed by `exact`, their assumptions, and examples. The model is Model/MDecomp.v; zlib, the LZMA SDK,
   the clock and the user's hook are an explicit oracle (OT, ask, dc_clock, dc_hook), never an axiom. *)
Require Import Htp.Model.Base Htp.Model.MBstr Htp.Model.MDecomp Htp.Proof.PDecomp.
Local Open Scope Z_scope.

(* ---- the constants the property text quotes are the ones of /repo ---- *)
Theorem C07_bomb_ratio_le : c_HTP_COMPRESSION_BOMB_RATIO <= 2048.
Proof. exact dz_bomb_ratio_le. Qed.
Theorem C07_buf_size : c_GZIP_BUF_SIZE = 8192.
Proof. exact dz_buf_size. Qed.

(* ---- bomb bound: EVERY external behaviour, every sequence of body calls, every configuration ---- *)
Theorem C07_bomb_bound :
  forall (OT : Type) (ask : OT -> dz_query -> dz_ans * OT) (c : dz_cfg) (maxchunk : Z) ce calls (o : OT),
    0 <= maxchunk -> dz_calls_ok maxchunk calls ->
    let w := tx_w OT (fst (dz_run OT ask c ce calls o)) in
    dz_delivered_bytes w <= Z.max (dc_bomb c) (2048 * w_message OT w) + Z.max 8192 maxchunk + 8192
                            + Z.max 0 (dc_bomb c) / (c_HTP_COMPRESSION_BOMB_RATIO - 1).
Proof. exact dz_C07_bomb_bound. Qed.
Print Assumptions C07_bomb_bound.

Theorem C07_bomb_bound_small_limit :
  forall (OT : Type) (ask : OT -> dz_query -> dz_ans * OT) (c : dz_cfg) (maxchunk : Z) ce calls (o : OT),
    0 <= maxchunk -> dz_calls_ok maxchunk calls ->
    dc_bomb c <= (c_HTP_COMPRESSION_BOMB_RATIO - 1) * c_GZIP_BUF_SIZE ->
    let w := tx_w OT (fst (dz_run OT ask c ce calls o)) in
    dz_delivered_bytes w <= Z.max (dc_bomb c) (2048 * w_message OT w) + Z.max 8192 maxchunk + 2 * 8192.
Proof. exact dz_C07_bomb_bound_small_limit. Qed.
Print Assumptions C07_bomb_bound_small_limit.

(* ---- no more layers than configured ---- *)
Theorem C07_layers_bounded :
  forall (OT : Type) (ask : OT -> dz_query -> dz_ans * OT) (c : dz_cfg) ce (w : dz_world OT),
    let t := dz_response_headers OT ask c ce w in
    (0 < dc_layers c -> Z.of_nat (length (tx_chain OT t)) <= dc_layers c) /\
    dz_nlzma (tx_chain OT t) <= Z.max 0 (dc_lzma_layers c).
Proof. exact dz_C07_layers_bounded. Qed.
Print Assumptions C07_layers_bounded.
