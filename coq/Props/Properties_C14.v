(* C14 -- multipart bodies: parts are exact and independent of chunking.
   Model: Model/MMultipart.v (htp_multipart.c, array-level matcher); reference semantics, premises,
   encoder: Spec/SMultipart.v; proofs: Proof/PMultipartSafe.v, Proof/PMultipart.v. *)
Require Import Htp.Model.Base Htp.Model.MBstr Htp.Model.MMultipart Htp.Spec.SMultipart.
Require Import Htp.Proof.PMultipartSafe Htp.Proof.PMultipart.

(* (a) no out-of-range access, no fuel exhaustion: for every boundary, initial flags and chunk sequence the
   next htp_mpartp_parse call (any data) and htp_mpartp_finalize complete without a Fault outcome *)
Theorem C14_never_faults : forall boundary flags chunks,
  let st := fold_left mp_parse chunks (mp_init_flags boundary flags) in
  mps_fault st = false /\
  (forall data, exists st', mp_parse_r st data = MpOk st') /\
  (exists st', mp_finalize_r st = MpOk st') /\
  mps_fault (mp_finalize st) = false.
Proof. exact mp_never_faults. Qed.
Print Assumptions C14_never_faults.

(* the full chunking statement: false of the faithful model, hence of the unchanged library *)
Definition C14_byte_refinement_full : Prop :=
  forall boundary flags chunks,
    mp_obs (mp_finalize (fold_left mp_parse chunks (mp_init_flags boundary flags))) =
    mp_obs (mp_finalize (mp_parse (mp_init_flags boundary flags) (concat chunks))).

Theorem C14_full_refuted : ~ C14_byte_refinement_full.
Proof. exact mp_full_is_false. Qed.
Print Assumptions C14_full_refuted.

(* (c) one witness per premise of the chunking theorem: all OTHER premises hold, this one fails, and the
   observation differs between the chunked and the whole delivery *)
Theorem C14_refuted_cr_aside :
  mp_others_ok mp_w_cr 1 = true /\ mp_no_cr_hazardb mp_BB 0 mp_w_cr = false /\ ~ mp_refines mp_BB 0 mp_w_cr.
Proof. exact mp_refuted_cr_aside. Qed.
Theorem C14_refuted_cr_cr :
  mp_others_ok mp_w_cr2 1 = true /\ mp_no_cr_hazardb mp_BB 0 mp_w_cr2 = false /\ ~ mp_refines mp_BB 0 mp_w_cr2.
Proof. exact mp_refuted_cr_cr. Qed.
Theorem C14_refuted_dropped_tail :
  mp_others_ok mp_w_tail 2 = true /\ mp_tail_okb (mp_parse (mp_init mp_BB) (concat mp_w_tail)) = false /\ ~ mp_refines mp_BB 0 mp_w_tail.
Proof. exact mp_refuted_dropped_tail. Qed.
Theorem C14_refuted_doubled_epilogue :
  mp_others_ok mp_w_dup 3 = true /\ mp_body_okb mp_BB 0 (concat mp_w_dup) = false /\ ~ mp_refines mp_BB 0 mp_w_dup.
Proof. exact mp_refuted_doubled_epilogue. Qed.
Theorem C14_refuted_open_header_line :
  mp_others_ok mp_w_open 4 = true /\ mp_body_okb mp_BB 0 (concat mp_w_open) = false /\ ~ mp_refines mp_BB 0 mp_w_open.
Proof. exact mp_refuted_open_header_line. Qed.
Print Assumptions C14_refuted_cr_aside.
Print Assumptions C14_refuted_dropped_tail.
Print Assumptions C14_refuted_doubled_epilogue.

(* (e) Content-Disposition quoting *)
Theorem cd_unquote_roundtrip : forall n, mp_cd_unquote (mp_quote n) = n.
Proof. exact mp_cd_unquote_quote. Qed.
Theorem cd_quoted_scan : forall n rest acc,
  mp_cd_quoted (mp_quote n ++ mp_QUOTE :: rest) acc = Some (rev acc ++ mp_quote n, rest).
Proof. exact mp_cd_quoted_quote. Qed.
Print Assumptions cd_unquote_roundtrip.
