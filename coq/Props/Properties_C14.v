(* C14 -- multipart bodies: parts are exact and independent of chunking.
   Model: Model/MMultipart.v (htp_multipart.c, array-level matcher); reference semantics, premises,
   encoder: Spec/SMultipart.v; proofs: Proof/PMultipartSafe.v, Proof/PMultipart.v. *)
Require Import Htp.Model.Base Htp.Model.MBstr Htp.Model.MMultipart Htp.Spec.SMultipart.
Require Import Htp.Proof.PMultipartSafe Htp.Proof.PMultipart Htp.Proof.PMultipartRef.
Require Coq.Strings.String.
Import Coq.Strings.String.StringSyntax.

(* (a) no out-of-range access, no fuel exhaustion: for every boundary, initial flags and chunk sequence the
   next htp_mpartp_parse call (any data) and htp_mpartp_finalize complete without a Fault outcome *)
Theorem C14_never_faults : forall boundary flags chunks,
  let st := fold_left mp_parse chunks (mp_init_flags boundary flags) in
  mps_fault st = false /\
  (forall data, exists st', mp_parse_r st data = MpOk st') /\
  (exists st', mp_finalize_r st = MpOk st') /\
  mps_fault (mp_finalize st) = false.
Proof. exact mp_never_faults. Qed.
Print Assumptions C14_never_faults.

(* the full chunking statement: false of the faithful model, hence of the unchanged library *)
Definition C14_byte_refinement_full : Prop :=
  forall boundary flags chunks,
    mp_obs (mp_finalize (fold_left mp_parse chunks (mp_init_flags boundary flags))) =
    mp_obs (mp_finalize (mp_parse (mp_init_flags boundary flags) (concat chunks))).

Theorem C14_full_refuted : ~ C14_byte_refinement_full.
Proof. exact mp_full_is_false. Qed.
Print Assumptions C14_full_refuted.

(* (b) chunking independence, under the executable premises mp_premb (Spec/SMultipart.v):
     mp_bnd_okb        the boundary contains no CR / LF
     mp_body_okb       the byte-level reference run never hands data to an UNKNOWN part after the last boundary in
                       data mode (K3) and never completes a delimiter while a part header line is open (K4)
     mp_no_cr_hazardb  no call starts with CR while the previous call left a CR set aside in STATE_DATA (K1)
     mp_tail_okb       at the end no non-empty set-aside line is pending without a current part (K2), for the chunked
                       and for the whole delivery
   parts, all flags and the fault bit are identical for the chunked and the whole delivery. *)
Theorem C14_byte_refinement_partial : forall boundary flags chunks,
  mp_premb boundary flags chunks = true ->
  mp_obs (mp_finalize (fold_left mp_parse chunks (mp_init_flags boundary flags))) =
  mp_obs (mp_finalize (mp_parse (mp_init_flags boundary flags) (concat chunks))).
Proof. exact mp_byte_refinement_partial. Qed.
Print Assumptions C14_byte_refinement_partial.

(* stronger form: every chunked delivery equals the byte-at-a-time reference semantics mp_aref of the whole body
   (this is the oracle lib/c14.py evaluates on the implementation) *)
Theorem C14_chunking_reference : forall boundary flags chunks,
  mp_bnd_okb boundary = true -> mp_body_okb boundary flags (concat chunks) = true ->
  mp_no_cr_hazardb boundary flags chunks = true ->
  mp_tail_okb (fold_left mp_parse chunks (mp_init_flags boundary flags)) = true ->
  mp_obs (mp_finalize (fold_left mp_parse chunks (mp_init_flags boundary flags))) =
  mp_aobs (fst (mp_aref boundary flags (concat chunks))).
Proof. exact mp_chunking_reference. Qed.
Print Assumptions C14_chunking_reference.

(* the premises are satisfiable by non-trivial inputs: a body with a preamble, a text part whose name has an escaped
   quote, a file part whose data contains CR, LF, dashes and a prefix of the delimiter, and an epilogue; cut inside the
   delimiter, inside a header line and right after a CR that is not followed by another CR *)
Definition C14_ex_body : list bytes :=
  [mp_str "pre" ++ mp_CRLF ++ mp_str "--B";
   mp_str "B" ++ mp_CRLF ++ mp_str "Content-Disposition: form-da";
   mp_str "ta; name=""a" ++ [mp_BSL; mp_QUOTE] ++ mp_str "b""" ++ mp_CRLF ++ mp_CRLF ++ mp_str "v1" ++ [CR];
   [LF] ++ mp_str "--BB" ++ mp_CRLF ++ mp_str "Content-Disposition: form-data; name=""f""; filename=""x""" ++ mp_CRLF ++
   mp_str "Content-Type: Text/Plain" ++ mp_CRLF ++ mp_CRLF ++ mp_str "--B" ++ [CR] ++ mp_str "-" ++ [LF] ++ mp_str "--" ++ mp_CRLF ++ mp_str "--B";
   mp_str "B--" ++ mp_CRLF ++ mp_str "epilogue"].
Example C14_premises_nonvacuous : mp_premb mp_BB 0 C14_ex_body = true.
Proof. vm_compute. reflexivity. Qed.
Example C14_example_result :
  map mp_report (mp_parts (mp_finalize (fold_left mp_parse C14_ex_body (mp_init mp_BB)))) =
  [(MpPreamble, None, None, None, mp_str "pre");
   (MpText, Some (mp_str "a" ++ [mp_QUOTE] ++ mp_str "b"), None, None, mp_str "v1");
   (MpFile, Some (mp_str "f"), Some (mp_str "x"), Some (mp_str "text/plain"), mp_str "--B" ++ [CR] ++ mp_str "-" ++ [LF] ++ mp_str "--");
   (MpEpilogue, None, None, None, mp_str "epilogue")].
Proof. vm_compute. reflexivity. Qed.

(* (d) exactness on the encoder image (proved below: C14_exact, C14_exact_any_chunking); it is also checked on
   the implementation by the ground-truth oracle of lib/c14.py and instantiated below on a concrete part list. *)
Definition C14_exact_full : Prop :=
  forall b parts, mp_wfb b parts = true ->
    map mp_report (mp_parts (mp_finalize (mp_parse (mp_init b) (mp_encode b parts)))) = map mp_expect parts.
Definition C14_ex_parts : list mp_epart :=
  [MpeText (mp_str "a" ++ [mp_QUOTE; mp_BSL] ++ mp_str "b") (mp_str "--B" ++ mp_CRLF ++ mp_str "-" ++ [CR]);
   MpeFile (mp_str "f") (mp_str "c:" ++ [mp_BSL] ++ mp_str "x" ++ [mp_QUOTE] ++ mp_str "y") (Some (mp_str "Image/PNG"))
           ([0; 255; LF] ++ mp_str "--" ++ [CR; CR; LF] ++ mp_str "--B")%N;
   MpeText [] []].
Example C14_exact_example :
  mp_wfb mp_BB C14_ex_parts = true /\
  map mp_report (mp_parts (mp_finalize (mp_parse (mp_init mp_BB) (mp_encode mp_BB C14_ex_parts)))) = map mp_expect C14_ex_parts.
Proof. split; vm_compute; reflexivity. Qed.

(* (c) one witness per premise of the chunking theorem: all OTHER premises hold, this one fails, and the
   observation differs between the chunked and the whole delivery *)
Theorem C14_refuted_cr_aside :
  mp_others_ok mp_w_cr 1 = true /\ mp_no_cr_hazardb mp_BB 0 mp_w_cr = false /\ ~ mp_refines mp_BB 0 mp_w_cr.
Proof. exact mp_refuted_cr_aside. Qed.
Theorem C14_refuted_cr_cr :
  mp_others_ok mp_w_cr2 1 = true /\ mp_no_cr_hazardb mp_BB 0 mp_w_cr2 = false /\ ~ mp_refines mp_BB 0 mp_w_cr2.
Proof. exact mp_refuted_cr_cr. Qed.
Theorem C14_refuted_dropped_tail :
  mp_others_ok mp_w_tail 2 = true /\ mp_tail_okb (mp_parse (mp_init mp_BB) (concat mp_w_tail)) = false /\ ~ mp_refines mp_BB 0 mp_w_tail.
Proof. exact mp_refuted_dropped_tail. Qed.
Theorem C14_refuted_doubled_epilogue :
  mp_others_ok mp_w_dup 3 = true /\ mp_body_okb mp_BB 0 (concat mp_w_dup) = false /\ ~ mp_refines mp_BB 0 mp_w_dup.
Proof. exact mp_refuted_doubled_epilogue. Qed.
Theorem C14_refuted_open_header_line :
  mp_others_ok mp_w_open 4 = true /\ mp_body_okb mp_BB 0 (concat mp_w_open) = false /\ ~ mp_refines mp_BB 0 mp_w_open.
Proof. exact mp_refuted_open_header_line. Qed.
Print Assumptions C14_refuted_cr_aside.
Print Assumptions C14_refuted_dropped_tail.
Print Assumptions C14_refuted_doubled_epilogue.

(* (e) Content-Disposition quoting *)
Theorem cd_unquote_roundtrip : forall n, mp_cd_unquote (mp_quote n) = n.
Proof. exact mp_cd_unquote_quote. Qed.
Theorem cd_quoted_scan : forall n rest acc,
  mp_cd_quoted (mp_quote n ++ mp_QUOTE :: rest) acc = Some (rev acc ++ mp_quote n, rest).
Proof. exact mp_cd_quoted_quote. Qed.
Print Assumptions cd_unquote_roundtrip.

(* (e) boundary extraction: the general statement (proved at the end of this file: C14_find_boundary) is also instantiated on the
   headers the five major browsers send (comment in htp_multipart.c), and htp_mpartp_find_boundary is tied to
   mp_find_boundary by the correspondence run (lib/c14.py, gen_fb). *)
Definition mp_plain_bchar (c : N) : bool := mp_in 48 57 c || mp_in 97 122 c || mp_in 65 90 c || (c =? mp_DASH)%N.
Definition find_boundary_spec_full : Prop :=
  forall b, b <> [] -> length b <= 70 -> forallb mp_plain_bchar b = true ->
    mp_find_boundary (mp_str "multipart/form-data; boundary=" ++ b) = (c_HTP_OK, Some b, 0%N).
Example find_boundary_browsers :
  forallb (fun b => match mp_find_boundary (mp_str "multipart/form-data; boundary=" ++ b) with
                    | (rc, Some b', fl) => (rc =? c_HTP_OK)%Z && mp_beq b b' && (fl =? 0)%N
                    | _ => false
                    end)
          [mp_str "----WebKitFormBoundaryT4AfwQCOgIxNVwlD"; mp_str "---------------------------21071316483088";
           mp_str "---------------------------7dd13e11c0452"; mp_str "----------2JL5oh7QWEDwyBllIRc7fh";
           mp_str "----WebKitFormBoundaryre6zL3b0BelnTY5S"] = true.
Proof. vm_compute. reflexivity. Qed.
Example find_boundary_anomalies :
  (* quoted, unterminated quote, missing, repeated, wrong case, not form-data *)
  map (fun h => snd (mp_find_boundary (mp_str h)))
      ["multipart/form-data; boundary=""b b"""; "multipart/form-data; boundary=""bb"; "multipart/form-data; boundary=";
       "multipart/form-data; boundary=a; boundary=b"; "multipart/form-data; BOUNDARY=a"; "text/plain; boundary=a"]%string
  = [c_mp_HBOUNDARY_UNUSUAL + c_mp_HBOUNDARY_INVALID; c_mp_HBOUNDARY_UNUSUAL + c_mp_HBOUNDARY_INVALID; c_mp_HBOUNDARY_INVALID;
     c_mp_HBOUNDARY_INVALID; c_mp_HBOUNDARY_INVALID; c_mp_HBOUNDARY_INVALID]%N.
Proof. vm_compute. reflexivity. Qed.

(* ---- (d') EXACTNESS, proved: every well-formed form (mp_wfb: text parts with arbitrary names -- quotes and backslashes included --, file parts with file name and
        optional content type, values and file contents ARBITRARY bytes not containing the delimiter) encoded the standard way is parsed back into exactly
        those parts: kinds, unquoted names, file names, lower-cased content types, byte-exact values; nothing else is reported. ---- *)
Require Import Htp.Proof.PMultipartExactRef Htp.Proof.PMultipartExact Htp.Proof.PMultipartBoundary.
Theorem C14_exact : C14_exact_full.
Proof. exact mp_exact_whole. Qed.
Print Assumptions C14_exact.
(* ... and for EVERY chunking of the encoded body; the one premise that survives is the K1 one (a call starting with CR right after a call that ended
   in a set-aside CR: listed finding), all other chunking premises follow from well-formedness. This is property C14 for well-formed forms. *)
Theorem C14_exact_any_chunking : forall b parts chunks,
  mp_wfb b parts = true -> concat chunks = mp_encode b parts -> mp_no_cr_hazardb b 0 chunks = true ->
  map mp_report (mp_parts (mp_finalize (fold_left mp_parse chunks (mp_init b)))) = map mp_expect parts /\
  mps_fault (mp_finalize (fold_left mp_parse chunks (mp_init b))) = false.
Proof. exact mp_exact_chunked. Qed.
Print Assumptions C14_exact_any_chunking.
(* the K1 premise is necessary: a well-formed form (file data "a CR") whose byte-by-byte delivery loses the CR *)
Theorem C14_exact_chunked_needs_no_cr_hazard :
  mp_wfb mpx_ex_b mpx_k1_parts = true /\
  concat (mpx_bytewise (mp_encode mpx_ex_b mpx_k1_parts)) = mp_encode mpx_ex_b mpx_k1_parts /\
  mp_no_cr_hazardb mpx_ex_b 0 (mpx_bytewise (mp_encode mpx_ex_b mpx_k1_parts)) = false /\
  map mp_report (mp_parts (mp_finalize (fold_left mp_parse (mpx_bytewise (mp_encode mpx_ex_b mpx_k1_parts)) (mp_init mpx_ex_b)))) =
    [(MpFile, Some [102%N], Some [103%N], None, [97%N])] /\
  map mp_expect mpx_k1_parts = [(MpFile, Some [102%N], Some [103%N], None, [97%N; 13%N])].
Proof. exact mp_exact_chunked_needs_no_cr_hazard. Qed.
(* the reference semantics accepts every encoder image and reports the expected parts *)
Theorem C14_reference_exact : forall b parts, mp_wfb b parts = true ->
  snd (mp_aref b 0 (mp_encode b parts)) = true /\ map mp_report (mp_aparts (fst (mp_aref b 0 (mp_encode b parts)))) = map mp_expect parts.
Proof. exact mp_aref_exact. Qed.
Print Assumptions C14_reference_exact.

(* ---- (e') boundary extraction, proved ---- *)
Theorem C14_find_boundary : find_boundary_spec_full.
Proof. exact mp_find_boundary_spec. Qed.
Print Assumptions C14_find_boundary.
Theorem C14_find_boundary_quoted : forall b, b <> [] -> length b <= 70 -> forallb mp_plain_bchar b = true ->
  mp_find_boundary (mp_str "multipart/form-data; boundary=""" ++ b ++ mp_str """") = (c_HTP_OK, Some b, c_mp_HBOUNDARY_UNUSUAL).
Proof. exact mp_find_boundary_spec_quoted. Qed.
Theorem C14_find_boundary_after_charset : forall b, b <> [] -> length b <= 70 -> forallb mp_plain_bchar b = true ->
  mp_find_boundary (mp_str "multipart/form-data; charset=utf-8; boundary=" ++ b) = (c_HTP_OK, Some b, 0%N).
Proof. exact mp_find_boundary_spec_charset. Qed.
Print Assumptions C14_find_boundary_quoted.
