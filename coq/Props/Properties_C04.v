(* C04 -- responses are paired with their requests, in order, under pipelining.
   Only statements closed by `exact`, their assumptions, and examples. *)
Require Import Htp.Model.MConnTypes Htp.Model.MTxCommon Htp.Model.MTxRes Htp.Model.MReq Htp.Model.MRes Htp.Model.MConnp
               Htp.Spec.SConnp Htp.Proof.PConnp.
Local Open Scope Z_scope.

(* the full statement (decided on the implementation by lib/c04.py): N well-formed, id-tagged exchanges in any legal
   interleaving give exactly N transactions, transaction i carrying request i and response i, and the pipelining
   indicator is set iff some request was started before the response to an earlier request had begun *)

(* proved: the mechanism. A response is attached to the transaction at position out_next_tx_index -- the oldest request
   whose response has not started -- and that position advances by exactly one per response *)
Theorem C04_response_attaches_to_oldest_unanswered : forall cb g c t,
  rs_has_byte c = true -> nth_error (c_txs c) (c_out_next_tx_index c) = Some (Some t) ->
  exists c1, rs_RES_IDLE cb g c = tx_state_response_start cb (c_txs_shifted c + c_out_next_tx_index c) c1 /\
             c_out_tx c1 = Some (c_txs_shifted c + c_out_next_tx_index c)%nat /\
             c_out_next_tx_index c1 = S (c_out_next_tx_index c) /\ c_txs c1 = c_txs c /\ c_txs_shifted c1 = c_txs_shifted c.
Proof. exact res_idle_pairs. Qed.
Print Assumptions C04_response_attaches_to_oldest_unanswered.

(* the pipelining indicator is raised exactly when a transaction is created while an earlier one is still unanswered *)
Theorem C04_pipelined_flag : forall g c,
  c_conn_flags (snd (connp_tx_create g c)) =
    if (c_out_next_tx_index c <? length (c_txs c))%nat then flag_set (c_conn_flags c) c_HTP_CONN_PIPELINED else c_conn_flags c.
Proof. exact tx_create_pipelined. Qed.
Print Assumptions C04_pipelined_flag.

(* worked example on the model: two pipelined requests, then their two responses: two transactions, paired in order,
   PIPELINED set; the same exchanges one after the other: PIPELINED clear *)
Definition c04_rq (i : N) : bytes := [71;69;84;32;47;114]%N ++ [48 + i]%N ++ [32;72;84;84;80;47;49;46;49;13;10;72;111;115;116;58;32;97;13;10;13;10]%N.
Definition c04_rs (i : N) : bytes := [72;84;84;80;47;49;46;49;32;50;48;48;32;79;75;13;10;88;45;73;100;58;32]%N ++ [48 + i]%N ++ [13;10;67;111;110;116;101;110;116;45;76;101;110;103;116;104;58;32;48;13;10;13;10]%N.
Definition c04_g : cfg := cp_make_cfg 1 (Z.to_nat 18000) 512 false false 0.
Definition c04_pair (c : connp) : list (option (option bytes * list bytes)) :=
  map (option_map (fun t => (t_request_uri t, map h_value (filter (fun h => (length (h_name h) =? 4)%nat) (t_response_headers t))))) (c_txs c).
Example C04_example_pipelined :
  let c := fst (cp_run (fun _ _ => CB_OK) c04_g connp_new [OpOpen; OpReqData (c04_rq 0 ++ c04_rq 1); OpResData (c04_rs 0 ++ c04_rs 1)]) in
  c04_pair c = [Some (Some [47;114;48]%N, [[48]%N]); Some (Some [47;114;49]%N, [[49]%N])] /\
  flag_has (c_conn_flags c) c_HTP_CONN_PIPELINED = true.
Proof. vm_compute. split; reflexivity. Qed.
Example C04_example_sequential :
  let c := fst (cp_run (fun _ _ => CB_OK) c04_g connp_new [OpOpen; OpReqData (c04_rq 0); OpResData (c04_rs 0); OpReqData (c04_rq 1); OpResData (c04_rs 1)]) in
  c04_pair c = [Some (Some [47;114;48]%N, [[48]%N]); Some (Some [47;114;49]%N, [[49]%N])] /\
  flag_has (c_conn_flags c) c_HTP_CONN_PIPELINED = false.
Proof. vm_compute. split; reflexivity. Qed.

(* ---- history level, request direction: n pipelined requests of the wire grammar whose methods the library knows, delivered in ANY chunking (a chunk
        may span request boundaries anywhere): n transactions, the i-th reporting the i-th request, and the pipelining indicator is set exactly when
        there are at least two (no response is offered here, so every later request starts while an earlier one is unanswered). The known-method
        premise is needed: an extension method directly after another request in the same chunk is swallowed as body (listed finding) ---- *)
Require Import Htp.Spec.SWire Htp.Proof.PWireExch Htp.Proof.PSeg Htp.Proof.PSegRun Htp.Proof.PSegPipe.
Theorem C04_pipelined_requests : forall cb g (rs : list wr_request) (chunks : list bytes),
  wr_all_ok cb -> g_allow_space_uri g = false -> (g_max_tx g = 0 \/ length rs < g_max_tx g)%nat ->
  Forall (fun r => sg_req_ok g r = true) rs -> Forall (fun x => x <> []) chunks -> concat chunks = concat (map wr_request_wire rs) ->
  Forall2 (fun slot r => exists t, slot = Some t /\ wr_reported (sg_mask t) r)
          (c_txs (fst (cp_run cb g connp_new (OpOpen :: map OpReqData chunks)))) rs /\
  c_conn_flags (fst (cp_run cb g connp_new (OpOpen :: map OpReqData chunks))) = (if (2 <=? length rs)%nat then c_HTP_CONN_PIPELINED else 0%N).
Proof. exact sg_pipeline_fidelity. Qed.
Print Assumptions C04_pipelined_requests.

(* ---- history level, both directions: n exchanges of the wire grammar (request with a known method; response with status line, header fields in any
        folding, Content-Length body). ALL requests first, in ANY chunking of their concatenation, then ALL responses, in ANY chunking of THEIR
        concatenation (chunks span message boundaries on both sides): exactly n transactions, and the i-th reports request i AND response i
        (protocol, status, reason, header table, entity and message length, progress COMPLETE). The only premise beyond grammar and limits excludes
        exactly the chunkings on which the listed LF-CR finding F1 changes the parse (a response body starting with CR). ---- *)
Require Import Htp.Proof.PSegRes Htp.Proof.PSegResRun Htp.Proof.PSegResThm Htp.Proof.PSegResCanon.
Require Import Htp.Proof.PPair Htp.Proof.PPairThm Htp.Proof.PPairB Htp.Proof.PPairThmB.
Theorem C04_pairing_under_pipelining : forall cb g (xl : list pp_xc) (qchunks schunks : list bytes),
  wr_all_ok cb -> g_allow_space_uri g = false -> g_tx_auto_destroy g = false -> (g_max_tx g = 0 \/ length xl < g_max_tx g)%nat ->
  forallb (pp_xc_ok g) xl = true -> Forall pp_plain xl ->
  Forall (fun c => c <> []) qchunks -> concat qchunks = concat (map (fun x => wr_request_wire (xq x)) xl) ->
  Forall (fun c => c <> []) schunks -> concat schunks = concat (map pp_xwire xl) -> pp_f1_free xl schunks = true ->
  Forall2 (fun slot x => exists t, slot = Some t /\ wr_reported (sg_mask t) (xq x) /\ sr_reported t (xs x) (xbody x))
          (c_txs (fst (cp_run cb g connp_new (OpOpen :: map OpReqData qchunks ++ map OpResData schunks)))) xl.
Proof. exact pp_pairing_chunked_reported. Qed.
Print Assumptions C04_pairing_under_pipelining.

(* ---- INTERLEAVED delivery: the operation list is any mixture of request-data and response-data calls (non-empty chunks, chunks spanning message boundaries
        on both sides) whose request chunks concatenate to the n requests and whose response chunks concatenate to the n responses, and which is LEGAL at the
        level of BYTES: pk_blegal (a computable boolean) -- no byte of response i is offered before the last byte of request i. Then exactly n transactions,
        the i-th reporting request i and response i -- including the histories in which response i is parsed while request i still sits in REQ_FINALIZE
        with a fragment of the next request line buffered behind it. pk_noexp: no request carries an Expect field (the 4xx-after-Expect branch touches the
        request side: proof artefact). Legality cannot be dropped: Example pk_ex_illegal in PPairCb.v (a response before its request: four transactions,
        mis-paired). ---- *)
Require Import Htp.Proof.PPairCa Htp.Proof.PPairCb.
Theorem C04_pairing_interleaved : forall cb g (xl : list pp_xc) (ops : list cp_op),
  wr_all_ok cb -> g_allow_space_uri g = false -> g_tx_auto_destroy g = false -> (g_max_tx g = 0 \/ length xl < g_max_tx g)%nat ->
  forallb (pp_xc_ok g) xl = true -> forallb pk_noexp xl = true -> Forall pp_plain xl ->
  pk_data_ok ops = true -> concat (pk_reqs ops) = pp_ex_qwire xl -> concat (pk_ress ops) = pp_ex_swire xl ->
  pk_blegal xl ops = true -> pp_f1_free xl (pk_ress ops) = true ->
  Forall2 (fun slot x => exists t, slot = Some t /\ wr_reported (sg_mask t) (xq x) /\ sr_reported t (xs x) (xbody x))
          (c_txs (fst (cp_run cb g connp_new (OpOpen :: ops)))) xl.
Proof. exact pp_pairing_interleaved_bytes_reported. Qed.
Print Assumptions C04_pairing_interleaved.
(* strictly sequential delivery (request i complete in any chunking, then response i complete in any chunking, i = 0, 1, ...): always legal *)
Theorem C04_pairing_sequential : forall cb g (xl : list pp_xc) (chs : list (list bytes * list bytes)),
  wr_all_ok cb -> g_allow_space_uri g = false -> g_tx_auto_destroy g = false -> (g_max_tx g = 0 \/ length xl < g_max_tx g)%nat ->
  forallb (pp_xc_ok g) xl = true -> forallb pk_noexp xl = true -> Forall pp_plain xl ->
  Forall2 pk_seq_ok xl chs -> pp_f1_free xl (concat (map snd chs)) = true ->
  Forall2 (fun slot x => exists t, slot = Some t /\ wr_reported (sg_mask t) (xq x) /\ sr_reported t (xs x) (xbody x))
          (c_txs (fst (cp_run cb g connp_new (OpOpen :: pk_seq_ops chs)))) xl.
Proof. exact pp_pairing_sequential. Qed.
Print Assumptions C04_pairing_sequential.
Theorem C04_legal_is_byte_legal : forall xl ops, pk_legal xl ops = true -> pk_blegal xl ops = true.
Proof. exact pk_legal_blegal. Qed.

(* ==== ANSWERS WITHOUT A BODY, AND INTERIM RESPONSES (PSegResNb*.v, PSegRes100*.v), any chunking of both directions ====
   C04_no_body_answer_then_next: exchange 1 is answered without a body -- any answer to HEAD (whatever Content-Length / Transfer-Encoding it carries), or a 1xx
   (not an interim 100) / 204 / 304 answer without Content-Length and Transfer-Encoding --, exchange 2 has a Content-Length body; both requests pipelined, both
   answers in ANY chunking (chunks spanning the boundary): two transactions, the bytes after the empty line of answer 1 are the response of transaction 2, not a
   body of transaction 1. (204 / 304 / 1xx answers that DO carry Content-Length or Transfer-Encoding are given a body on purpose -- "browsers interpret content
   sent by the server as such", htp_response.c -- and are outside the premise; Examples nb_refuted_204_cl / nb_refuted_304 in PSegResNbThm.v record what happens.)
   C04_interim_100_then_final: k >= 0 interim "100 Continue" responses (with or without fields) followed by the final response with a Content-Length body, in ANY
   chunking of their concatenation: ONE transaction, reporting protocol, status, reason, header table and lengths of the FINAL response, COMPLETE. *)
Require Import Htp.Model.Base Htp.Model.MBstr Htp.Model.MConnTypes Htp.Model.MTxCommon Htp.Model.MResLine Htp.Model.MTxRes.
Require Import Htp.Model.MReq Htp.Model.MRes Htp.Model.MConnp.
Require Import Htp.Spec.SWire Htp.Proof.PWire Htp.Proof.PWireHdr Htp.Proof.PWireBlock Htp.Proof.PWireConn Htp.Proof.PWireExch.
Require Import Htp.Proof.PWireRun Htp.Proof.PWirePres Htp.Proof.PWireGlue Htp.Proof.PSeg Htp.Proof.PSegLine Htp.Proof.PSegHdr Htp.Proof.PSegGen Htp.Proof.PSegRun.
Require Import Htp.Proof.PSegFold Htp.Proof.PSegPipe Htp.Proof.PSegRes Htp.Proof.PSegResLine Htp.Proof.PSegResHdr Htp.Proof.PSegResGen Htp.Proof.PSegResRun Htp.Proof.PSegResReq Htp.Proof.PSegResThm Htp.Proof.PSegResCanon.
Require Import Htp.Proof.PPair Htp.Proof.PPairLine Htp.Proof.PPairHdr Htp.Proof.PPairRun Htp.Proof.PPairOne Htp.Proof.PPairFin Htp.Proof.PPairA Htp.Proof.PPairReq Htp.Proof.PPairB Htp.Proof.PPairThm Htp.Proof.PPairThmB.
Require Import Htp.Proof.PSegResNb Htp.Proof.PSegResNbThm Htp.Proof.PSegRes100.
Require Import Htp.Proof.PSegRes100Thm.
Theorem C04_no_body_answer_then_next : forall cb g x1 x2 (qchunks schunks : list bytes),
  wr_all_ok cb -> g_allow_space_uri g = false -> (g_max_tx g = 0 \/ 2 < g_max_tx g)%nat ->
  nb_xc_ok g x1 = true -> pp_xc_ok g x2 = true ->
  Forall (fun c => c <> []) qchunks -> concat qchunks = wr_request_wire (xq x1) ++ wr_request_wire (xq x2) ->
  Forall (fun c => c <> []) schunks -> concat schunks = nb_xwire x1 ++ pp_xwire x2 -> pp_f1_free [x2] schunks = true ->
  exists k1 fl1 k2 fl2, c_txs (fst (cp_run cb g connp_new (OpOpen :: map OpReqData qchunks ++ map OpResData schunks))) =
    [pr_slot g (nb_tfin (nb_ex_of g k1 fl1 x1)); pr_slot g (pp_tfin (pp_ex_of g k2 fl2 x2))].
Proof. exact nb_pairing. Qed.
Print Assumptions C04_no_body_answer_then_next.
Theorem C04_interim_100_then_final : forall cb g rq (sts : list i_stage) rF bodyF (qchunks schunks : list bytes),
  wr_all_ok cb -> g_allow_space_uri g = false -> g_tx_auto_destroy g = false -> (g_max_tx g = 0 \/ 1 < g_max_tx g)%nat -> sg_req_ok g rq = true ->
  i100_premise g rq sts rF (sr_cuts_whole rF) bodyF -> i100_clean rq sts -> wr_block_ok (wp_fields rF) = true ->
  Forall (fun c => c <> []) qchunks -> concat qchunks = wr_request_wire rq ->
  Forall (fun c => c <> []) schunks -> concat schunks = is_wires sts ++ wr_response_wire rF ++ bodyF ->
  pp_f1_free [mk_pp_xc rq rF (sr_cuts_whole rF) bodyF] schunks = true ->
  exists t, c_txs (fst (cp_run cb g connp_new (OpOpen :: map OpReqData qchunks ++ map OpResData schunks))) = [Some t] /\ sr_reported t rF bodyF.
Proof. exact i100_reported. Qed.
Print Assumptions C04_interim_100_then_final.
