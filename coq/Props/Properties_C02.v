(* C02 -- parse fidelity: what was sent is what is reported (well-formed messages).
   This file contains only statements closed by `exact`, their assumptions, and examples.
   Grammar and expected results: Htp.Spec.SWire.  Models: MReqLine (request line, request header line / processor, Host),
   MResLine (status line, response header line / processor), MReq (line assembly of REQ_HEADERS), MConnp (whole connection).
   NOT covered by this model (switched off in the modelled configuration, cp_make_cfg of harness/drv/drv_connp.h): cookies,
   credentials (authorization); query and body parameters are the subject of C15 / C14; the URI components of C13 / C12. *)
Require Import Htp.Model.Base Htp.Model.MBstr Htp.Model.MUri Htp.Model.MConnTypes Htp.Model.MTxCommon Htp.Model.MReqLine Htp.Model.MResLine.
Require Import Htp.Model.MTxReq Htp.Model.MReq Htp.Model.MRes Htp.Model.MConnp.
Require Import Htp.Spec.SWire Htp.Proof.PWire Htp.Proof.PWireHdr Htp.Proof.PWireBlock Htp.Proof.PWireConn Htp.Proof.PWireEx Htp.Proof.PWireExch.
Require Import Htp.Proof.PWireRun Htp.Proof.PWireGlue.

(* ---- (1) request line: m SP u SP p, both line modes (generic / Apache NUL-terminated), allow_space_uri off ---- *)
Theorem C02_reqline_roundtrip :
  forall nul_terminates ws_unwanted m u p, wr_wf_request_line m u p = true ->
    rq_parse_request_line nul_terminates false ws_unwanted (wr_ser_request_line m u p) =
    mk_rq_line m (htp_convert_method_to_number m) (Some u) (Some p) (Some (wr_protocol_number p)) false false.
Proof. exact wr_reqline_roundtrip. Qed.
Print Assumptions C02_reqline_roundtrip.

(* ... as written into the transaction by connp->cfg->parse_request_line: exactly these five fields change *)
Theorem C02_reqline_roundtrip_tx :
  forall g t m u p, g_allow_space_uri g = false -> wr_wf_request_line m u p = true ->
    t_request_line t = Some (wr_ser_request_line m u p) ->
    htp_parse_request_line g t =
    t <| t_request_method := Some m |> <| t_request_method_number := htp_convert_method_to_number m |>
      <| t_request_uri := Some u |> <| t_request_protocol := Some p |> <| t_request_protocol_number := wr_protocol_number p |>.
Proof. exact wr_reqline_tx. Qed.
Print Assumptions C02_reqline_roundtrip_tx.

(* the HTTP/0.9 form m SP u *)
Theorem C02_reqline09_roundtrip :
  forall nul_terminates ws_unwanted m u, wr_wf_request_line_09 m u = true ->
    rq_parse_request_line nul_terminates false ws_unwanted (wr_ser_request_line_09 m u) =
    mk_rq_line m (htp_convert_method_to_number m) (Some u) None (Some c_HTP_PROTOCOL_0_9) true false.
Proof. exact wr_reqline09_roundtrip. Qed.
Print Assumptions C02_reqline09_roundtrip.

(* ---- (2) status line: p SP d d d SP reason (the reason may contain spaces); and without a reason ---- *)
Theorem C02_statusline_roundtrip :
  forall p s r, wr_wf_status_line p s r = true ->
    rs_parse_response_line (wr_ser_status_line p s r) =
    mk_rs_line (Some p) (wr_protocol_number p) (Some s) (wr_status_value s) (Some r).
Proof. exact wr_statusline_roundtrip. Qed.
Print Assumptions C02_statusline_roundtrip.
Theorem C02_statusline_noreason :
  forall p s, wr_protocol_ok p = true -> wr_status_ok s = true ->
    rs_parse_response_line (p ++ [SP] ++ s) = mk_rs_line (Some p) (wr_protocol_number p) (Some s) (wr_status_value s) None.
Proof. exact wr_statusline_noreason. Qed.
Print Assumptions C02_statusline_noreason.

(* ---- (3) one header line n ":" lws1 v lws2 [line end]: name n, value v, no flag; request and response parsers ---- *)
Theorem C02_header_roundtrip :
  forall n lws1 v lws2 e, wr_wf_header n v = true -> wr_lws lws1 = true -> wr_lws lws2 = true -> wr_eol e = true ->
    htp_parse_request_header_generic (wr_ser_header n lws1 v lws2 ++ e) = (mkhdr n v 0%N, 0%N).
Proof. exact wr_req_header_roundtrip. Qed.
Print Assumptions C02_header_roundtrip.
Theorem C02_header_roundtrip_res :
  forall n lws1 v lws2 e txflags, wr_wf_header n v = true -> wr_lws lws1 = true -> wr_lws lws2 = true -> wr_eol e = true ->
    rs_parse_response_header (wr_ser_header n lws1 v lws2 ++ e) txflags = (mkhdr n v 0%N, txflags).
Proof. exact wr_res_header_roundtrip. Qed.
Print Assumptions C02_header_roundtrip_res.

(* ---- (4) a block: processing its lines in wire order from the empty table gives wr_table (SWire): the distinct names in
   order of first occurrence (case-insensitive), each with its values in wire order joined by ", " (Content-Length: the first),
   REPEATED iff sent more than once -- a function of the lines only. Premise wr_block_ok: well-formed fields and the
   repetition cap (at most HTP_MAX_HEADERS_REPETITIONS occurrences beyond the second of their name). ---- *)
Theorem C02_header_block :
  forall fs e t, wr_block_ok fs = true -> wr_eol e = true -> t_request_headers t = [] -> t_req_header_repetitions t = 0%nat ->
    let t' := fold_left (fun t l => htp_process_request_header_generic l t) (map (fun f => wr_field_line f ++ e) fs) t in
    t_request_headers t' = wr_table (map wr_field_nv fs) /\ t_req_header_repetitions t' = wr_excess (map wr_field_nv fs).
Proof. exact wr_req_header_block. Qed.
Print Assumptions C02_header_block.
Theorem C02_header_block_res :
  forall fs e t, wr_block_ok fs = true -> wr_eol e = true -> t_response_headers t = [] -> t_res_header_repetitions t = 0%nat ->
    let t' := fold_left (fun t l => rs_process_response_header l t) (map (fun f => wr_field_line f ++ e) fs) t in
    t_response_headers t' = wr_table (map wr_field_nv fs) /\ t_res_header_repetitions t' = wr_excess (map wr_field_nv fs) /\
    t_flags t' = t_flags t.
Proof. exact wr_res_header_block. Qed.
Print Assumptions C02_header_block_res.
(* the cap premise is needed: of 67 fields of one name the last value is dropped (a documented limit, not a finding) *)
Theorem C02_header_block_cap_refuted :
  forallb wr_field_ok (wr_ex_many 67) = true /\ wr_cap_ok (map wr_field_nv (wr_ex_many 67)) = false /\
  t_request_headers (fold_left (fun t l => htp_process_request_header_generic l t) (map wr_field_line (wr_ex_many 67)) (tx_new 0 0))
    <> wr_table (map wr_field_nv (wr_ex_many 67)) /\
  t_request_headers (fold_left (fun t l => htp_process_request_header_generic l t) (map wr_field_line (wr_ex_many 67)) (tx_new 0 0))
    = wr_table (map wr_field_nv (wr_ex_many 66)).
Proof. exact wr_cap_refuted. Qed.
(* the 64 of the property text *)
Example C02_cap_is_64 : c_HTP_MAX_HEADERS_REPETITIONS = 64%Z. Proof. reflexivity. Qed.

(* ---- (5) lookup by any casing of a name (htp_table_get_c: first match, case-insensitive, C17_cmp_nocasenorzero /
   C17_table_refines_multimap): the entry of the first field whose name is k in some casing, or nothing ---- *)
Theorem C02_lookup_nocase :
  forall hs k, forallb (fun h => wr_no_nul (fst h)) hs = true ->
    rq_hdr_get_c (wr_table hs) k = option_map (wr_entry hs) (wr_first_spelling hs k).
Proof. exact wr_lookup_nocase. Qed.
Print Assumptions C02_lookup_nocase.
Theorem C02_lookup_nocase_res :
  forall hs k, forallb (fun h => wr_no_nul (fst h)) hs = true ->
    rs_hdr_get_c (wr_table hs) k = option_map (wr_entry hs) (wr_first_spelling hs k).
Proof. exact wr_lookup_nocase_res. Qed.
(* well-formed names carry no NUL *)
Theorem C02_lookup_premise :
  forall fs, forallb wr_field_ok fs = true -> forallb (fun h => wr_no_nul (fst h)) (map wr_field_nv fs) = true.
Proof. exact wr_fields_no_nul. Qed.

(* ---- (6) folding. The line-assembly step of REQ_HEADERS: when the LF of a continuation line (starts with SP / HT, carries
   text) has just been copied, nothing is buffered and a header h is pending, the pending header becomes h ++ continuation:
   the continuation is kept VERBATIM (its leading white space included), only the line end is removed. ---- *)
Theorem C02_folding_join :
  forall cb g c d cont e h,
    k_buf (c_in c) = None -> k_data (c_in c) = Some d -> (k_read (c_in c) <= length d)%nat ->
    firstn (k_read (c_in c) - k_consume (c_in c)) (skipn (k_consume (c_in c)) d) = cont ++ e ->
    wr_eol e = true -> wr_cont_ok cont = true -> wr_has_text cont = true -> forallb wr_value_byte cont = true ->
    k_header (c_in c) = Some h -> (Z.of_nat (length h) < c_HTP_MAX_HEADER_FOLDED)%Z ->
    rq_header_line cb g c = (None, req_clear_buffer (rq_set_in (fun k => k <| k_header := Some (h ++ cont) |>) c)).
Proof. exact wr_req_fold_step. Qed.
Print Assumptions C02_folding_join.
(* hence the value of a folded field: when the bytes lws1 ++ v ++ lws2 after the colon are cut into pieces p0, p1, ... (first line
   n ":" p0, continuation lines p1, ...), joining the lines as the code does and parsing gives name n and value v: the value is
   the wire bytes of the field with the folds' line ends removed and the outer LWS trimmed (the inner LWS is NOT collapsed) *)
Theorem C02_folded_value :
  forall n lws1 v lws2 p0 rest,
    wr_wf_header n v = true -> wr_lws lws1 = true -> wr_lws lws2 = true -> concat (p0 :: rest) = lws1 ++ v ++ lws2 ->
    htp_parse_request_header_generic (fold_left (fun h c => h ++ c) rest (n ++ [58%N] ++ p0)) = (mkhdr n v 0%N, 0%N).
Proof. exact wr_folded_value_req. Qed.
Print Assumptions C02_folded_value.
Theorem C02_folded_value_res :
  forall n lws1 v lws2 p0 rest txflags,
    wr_wf_header n v = true -> wr_lws lws1 = true -> wr_lws lws2 = true -> concat (p0 :: rest) = lws1 ++ v ++ lws2 ->
    rs_parse_response_header (fold_left (fun h c => h ++ c) rest (n ++ [58%N] ++ p0)) txflags = (mkhdr n v 0%N, txflags).
Proof. exact wr_folded_value_res. Qed.
(* refuted for responses: under HTTP/1.1 a continuation line containing ':' after a pending header containing ':' is
   NOT joined but split off as a header of its own (htp_response.c, RES_HEADERS) -- known finding C02/K2 *)
Theorem C02_res_fold_colon_refuted :
  wr_wf_header wr_ex_XF wr_ex_abc = true /\
  concat [[SP; 97]; [SP; 98; 58; 99]]%N = [SP] ++ wr_ex_abc /\
  wr_response_headers_of [OpOpen; OpReqData wr_ex_request; OpResData wr_ex_response_fold; OpClose]
    = Some [mkhdr wr_ex_XF [97]%N 0; mkhdr [98]%N [99]%N 0; mkhdr wr_ex_CL [48]%N 0] /\
  wr_table [(wr_ex_XF, wr_ex_abc); (wr_ex_CL, [48]%N)] = [mkhdr wr_ex_XF wr_ex_abc 0; mkhdr wr_ex_CL [48]%N 0].
Proof. exact wr_res_fold_colon_refuted. Qed.
Print Assumptions C02_res_fold_colon_refuted.
(* a whitespace-only continuation line (well-formed obs-fold) ends the block under the IIS 5.1 personality only:
   the grammar of the generators gives every continuation line some text *)
Example C02_ws_continuation_iis51 :
  htp_is_line_terminator c_HTP_SERVER_IIS_5_1 [SP; CR; LF] false = true /\ htp_is_line_terminator (g_personality wr_cfg1) [SP; CR; LF] false = false.
Proof. exact wr_ws_line_iis51. Qed.

(* ---- (7) Host: h[:port]. The port number and its validity are those of C13_port (norm_port). Without a port the host is
   lower-cased, with a port it is reported as sent. ---- *)
Theorem C02_host_noport :
  forall h, wr_host_ok h = true ->
    htp_parse_header_hostport h = (Some (to_lowercase h), (-1)%Z, negb (htp_validate_hostname (to_lowercase h))).
Proof. exact wr_hostport_noport. Qed.
Theorem C02_host_port :
  forall h p, wr_host_ok h = true -> wr_port_ok p = true ->
    htp_parse_header_hostport (h ++ [58%N] ++ p) = (Some h, fst (norm_port p), snd (norm_port p) || negb (htp_validate_hostname h)).
Proof. exact wr_hostport_port. Qed.
Print Assumptions C02_host_port.
Theorem C02_host_tx :
  forall nu t hv hn port inv,
    u_host nu = None -> t_request_hostname t = None ->
    rq_hdr_get_c (t_request_headers t) rq_str_host = Some hv -> htp_parse_header_hostport (h_value hv) = (Some hn, port, inv) ->
    t_request_hostname (rq_host nu t) = Some hn /\ t_request_port_number (rq_host nu t) = port /\
    t_request_headers (rq_host nu t) = t_request_headers t.
Proof. exact wr_host_tx. Qed.
Print Assumptions C02_host_tx.

(* ---- (8) the whole exchange ---- *)
(* REQ_HEADERS over a block that lies in one chunk (one line per field): started at the first byte of the block with nothing
   buffered and no header pending (wr_hst), the state function hands exactly the lines of the block, in order and unmodified, to the
   header processor of transaction i (wr_block_tx = the fold of C02_header_block), consumes the block and its empty line, and
   then signals the end of the headers (htp_tx_state_request_headers) *)
Theorem C02_req_headers_run :
  forall cb g fs c d pos i t n,
    wr_hst c d pos i t -> forallb wr_field_ok fs = true -> wr_seg_at d pos (wr_block_wire fs ++ [CR; LF]) ->
    exists K, REQ_HEADERS_loop cb g (length (wr_block_wire fs) + S n) c =
              rq_with_tx (tx_state_request_headers cb) (rq_set_in K (tx_put c i (wr_block_tx fs t))) /\
              wr_hst (rq_set_in K (tx_put c i (wr_block_tx fs t))) d (pos + length (wr_block_wire fs) + 2) i (wr_block_tx fs t) /\
              (forall k, k_receiver_hook (K k) = k_receiver_hook k /\ k_receiver (K k) = k_receiver k).
Proof. exact wr_req_headers_run. Qed.
Print Assumptions C02_req_headers_run.

(* PROVED for one request in one chunk: for every configuration with allow_space_uri off (every personality, both request-line
   modes, any limits), every callback behaviour that answers HTP_OK, every well-formed request without body (wr_request_ok:
   request line and header block of the grammar, repetition cap, no Content-Length / Transfer-Encoding field, method not CONNECT;
   one line per field), htp_connp_open followed by ONE htp_connp_req_data call with the serialised request leaves exactly one
   transaction, and it reports (wr_reported) method, method number, URI, protocol and number, is_protocol_0_9 = 0, the header table
   wr_table of the fields (first-occurrence order, ", "-joined values, REPEATED flags) and request_progress = COMPLETE *)
Theorem C02_exchange_fidelity_partial :
  forall cb g r, wr_all_ok cb -> g_allow_space_uri g = false -> wr_request_ok r = true ->
    exists t, c_txs (fst (cp_run cb g connp_new [OpOpen; OpReqData (wr_request_wire r)])) = [Some t] /\ wr_reported t r.
Proof. exact wr_exchange_fidelity_partial. Qed.
Print Assumptions C02_exchange_fidelity_partial.
Example C02_exchange_premise_nonvacuous : wr_request_ok wr_ex_req = true.
Proof. exact wr_ex_req_ok. Qed.
Example C02_exchange_example :
  match c_txs (fst (cp_run (script_lookup []) (cp_make_cfg 1 (Z.to_nat 18000) 512 false false 0) connp_new [OpOpen; OpReqData (wr_request_wire wr_ex_req)])) with
  | [Some t] => t_request_headers t = [mkhdr [72;111;115;116]%N [97]%N 0; mkhdr [88;45;70;111;111]%N [97;32;98;44;32;99]%N c_HTP_FIELD_REPEATED]
                /\ t_request_hostname t = Some [97]%N /\ t_request_progress t = c_HTP_REQUEST_COMPLETE
  | _ => False
  end.
Proof. exact wr_ex_req_run. Qed.

(* full statement (not proved): n pipelined well-formed requests, any segmentation: n transactions, each reporting its own fields *)
Definition C02_exchange_fidelity_full : Prop := wr_exchange_fidelity_full.
(* refuted as it stands: a request with an extension method directly after another request in the same chunk is swallowed as
   body of the previous one (REQ_FINALIZE probes with htp_convert_method_to_number) -- known finding C02/K1 (= C03) *)
Theorem C02_two_requests_refuted :
  exists m1 u1 p1 fs1 m2 u2 p2 fs2,
    wr_wf_request_line m1 u1 p1 = true /\ wr_block_ok fs1 = true /\ wr_wf_request_line m2 u2 p2 = true /\ wr_block_ok fs2 = true /\
    htp_convert_method_to_number m2 = c_HTP_M_UNKNOWN /\
    length (c_txs (fst (cp_run wr_cb_ok wr_cfg1 connp_new
                          [OpOpen; OpReqData (wr_ser_request m1 u1 p1 fs1 ++ wr_ser_request m2 u2 p2 fs2); OpClose]))) = 1%nat.
Proof. exact wr_two_requests_refuted. Qed.
Print Assumptions C02_two_requests_refuted.
Example C02_two_requests_split_ok :
  length (c_txs (fst (cp_run wr_cb_ok wr_cfg1 connp_new
    [OpOpen; OpReqData (wr_ser_request wr_ex_GET wr_ex_u1 wr_http11 [wr_host_field wr_ex_a]);
     OpReqData (wr_ser_request wr_ex_PURGE wr_ex_u2 wr_http11 [wr_host_field wr_ex_a]); OpClose]))) = 2%nat.
Proof. exact wr_two_requests_split_ok. Qed.

(* ---- examples: the premises are satisfiable, the right-hand sides are what one expects ---- *)
Example C02_premises_nonvacuous :
  wr_wf_request_line wr_ex_GET wr_ex_u1 wr_http11 = true /\ wr_wf_request_line wr_ex_PURGE wr_ex_u2 wr_http10 = true /\
  wr_wf_request_line_09 wr_ex_GET wr_ex_u1 = true /\
  wr_wf_status_line wr_http11 wr_ex_404 wr_ex_reason = true /\
  wr_wf_header wr_ex_XFoo wr_ex_ab = true /\ wr_wf_header wr_ex_XFoo [] = true /\ wr_lws [SP; HT] = true /\ wr_eol [CR; LF] = true /\
  wr_block_ok [mk_wr_field wr_ex_XFoo [SP] wr_ex_a []; mk_wr_field wr_ex_CL [] wr_ex_12 [SP]; mk_wr_field wr_ex_xfoo [HT] wr_ex_c [];
               mk_wr_field wr_ex_CL [SP] wr_ex_13 []; mk_wr_field wr_ex_XFOO [] wr_ex_ab [HT; SP]] = true /\
  wr_host_ok wr_ex_host = true.
Proof. exact wr_ex_premises. Qed.
Example C02_results :
  rq_parse_request_line true false false (wr_ser_request_line wr_ex_GET wr_ex_u1 wr_http11)
    = mk_rq_line wr_ex_GET c_HTP_M_GET (Some wr_ex_u1) (Some wr_http11) (Some c_HTP_PROTOCOL_1_1) false false /\
  rs_parse_response_line (wr_ser_status_line wr_http11 wr_ex_404 wr_ex_reason)
    = mk_rs_line (Some wr_http11) c_HTP_PROTOCOL_1_1 (Some wr_ex_404) 404 (Some wr_ex_reason) /\
  htp_parse_request_header_generic (wr_ser_header wr_ex_XFoo [SP; SP] wr_ex_ab [SP; HT] ++ [CR; LF]) = (mkhdr wr_ex_XFoo wr_ex_ab 0, 0%N) /\
  wr_table [(wr_ex_XFoo, wr_ex_a); (wr_ex_CL, wr_ex_12); (wr_ex_xfoo, wr_ex_c); (wr_ex_CL, wr_ex_13); (wr_ex_XFOO, wr_ex_ab)]
    = [mkhdr wr_ex_XFoo [97;44;32;99;44;32;97;32;98]%N c_HTP_FIELD_REPEATED; mkhdr wr_ex_CL wr_ex_12 c_HTP_FIELD_REPEATED] /\
  wr_first_spelling [(wr_ex_XFoo, wr_ex_a); (wr_ex_xfoo, wr_ex_c)] wr_ex_XFOO = Some wr_ex_XFoo.
Proof. exact wr_ex_results. Qed.

(* ---- fidelity does not depend on how the request reaches the parser: every folding of the field values into continuation lines (cuts) and every
        chunking of the resulting wire into non-empty pieces reports the request that was sent (PSegFold.v; the limit premise sg_fold_fits is exact) ---- *)
Require Import Htp.Proof.PSeg Htp.Proof.PSegRun Htp.Proof.PSegFold.
Theorem C02_exchange_fidelity_any_folding_any_chunking : forall cb g r (cuts : list (list bytes)) (chunks : list bytes),
  wr_all_ok cb -> g_allow_space_uri g = false -> wr_request_ok r = true -> sg_cuts_ok r cuts = true -> sg_fold_fits g r cuts = true ->
  Forall (fun x => x <> []) chunks -> concat chunks = sg_fold_wire r cuts ->
  exists t, c_txs (fst (cp_run cb g connp_new (OpOpen :: map OpReqData chunks))) = [Some t] /\ wr_reported (sg_mask t) r.
Proof. exact sg_request_fold_chunking_reported. Qed.
Print Assumptions C02_exchange_fidelity_any_folding_any_chunking.

(* ---- ... and for n pipelined requests (known methods), any chunking, chunks spanning request boundaries: each transaction reports its own request
        (the statement wr_exchange_fidelity_full with the premise that excludes the listed extension-method finding and the per-request limit) ---- *)
Require Import Htp.Proof.PSegPipe.
Theorem C02_pipelined_fidelity : forall cb g (rs : list wr_request) (chunks : list bytes),
  wr_all_ok cb -> g_allow_space_uri g = false -> (g_max_tx g = 0 \/ length rs < g_max_tx g)%nat ->
  Forall (fun r => sg_req_ok g r = true) rs -> Forall (fun x => x <> []) chunks -> concat chunks = concat (map wr_request_wire rs) ->
  Forall2 (fun slot r => exists t, slot = Some t /\ wr_reported (sg_mask t) r)
          (c_txs (fst (cp_run cb g connp_new (OpOpen :: map OpReqData chunks)))) rs.
Proof. intros cb g rs chunks H1 H2 H3 H4 H5 H6. exact (proj1 (sg_pipeline_fidelity cb g rs chunks H1 H2 H3 H4 H5 H6)). Qed.
Print Assumptions C02_pipelined_fidelity.

(* ---- both directions at history level: n exchanges (request with a known method; response = status line, header fields one line each, Content-Length body),
        all requests in ANY chunking, then all responses in ANY chunking: transaction i reports request i (method, URI, protocol, header table) AND response i
        (protocol, status text and number, reason, header table, entity and message length, COMPLETE): what was sent is what is reported, and nothing is taken
        from a neighbouring message. (The statement of C04_pairing_under_pipelining, read as fidelity.) ---- *)
Require Import Htp.Proof.PSegRes Htp.Proof.PSegResRun Htp.Proof.PSegResThm Htp.Proof.PSegResCanon.
Require Import Htp.Proof.PPair Htp.Proof.PPairThm Htp.Proof.PPairB Htp.Proof.PPairThmB.
Theorem C02_exchange_fidelity_both_directions : forall cb g (xl : list pp_xc) (qchunks schunks : list bytes),
  wr_all_ok cb -> g_allow_space_uri g = false -> g_tx_auto_destroy g = false -> (g_max_tx g = 0 \/ length xl < g_max_tx g)%nat ->
  forallb (pp_xc_ok g) xl = true -> Forall pp_plain xl ->
  Forall (fun c => c <> []) qchunks -> concat qchunks = concat (map (fun x => wr_request_wire (xq x)) xl) ->
  Forall (fun c => c <> []) schunks -> concat schunks = concat (map pp_xwire xl) -> pp_f1_free xl schunks = true ->
  Forall2 (fun slot x => exists t, slot = Some t /\ wr_reported (sg_mask t) (xq x) /\ sr_reported t (xs x) (xbody x))
          (c_txs (fst (cp_run cb g connp_new (OpOpen :: map OpReqData qchunks ++ map OpResData schunks)))) xl.
Proof. exact pp_pairing_chunked_reported. Qed.
Print Assumptions C02_exchange_fidelity_both_directions.
