(* C19 -- parsers sharing one configuration are independent.
   Only statements closed by `exact`, their assumptions, and examples. *)
Require Import Htp.Model.MConnTypes Htp.Model.MConnp Htp.Model.MMulti Htp.Proof.PMulti.

(* In ANY interleaving (schedule) of the calls of n connection parsers created from one configuration, with any
   callback behaviour per connection, every connection observes exactly the return codes, consumed counts, stream
   states and callback events it observes when it is run alone on its own calls. *)
Theorem C19_noninterference :
  forall (g : cfg) (cbs : nat -> cb_oracle) (n : nat) (sched : list (nat * cp_op)) (i : nat),
    sched_ok n sched -> i < n ->
    results_of i (snd (ms_run g cbs (repeat connp_new n) sched)) = snd (cp_run (cbs i) g connp_new (ops_of i sched)).
Proof. exact noninterference. Qed.
Print Assumptions C19_noninterference.

(* ... and ends in the same state (so nothing leaks into what it does later) *)
Theorem C19_noninterference_state :
  forall (g : cfg) (cbs : nat -> cb_oracle) (sched : list (nat * cp_op)) (cs : list connp) (i : nat),
    sched_ok (length cs) sched -> i < length cs ->
    nth i (fst (ms_run g cbs cs sched)) connp_new = fst (cp_run (cbs i) g (nth i cs connp_new) (ops_of i sched)) /\
    results_of i (snd (ms_run g cbs cs sched)) = snd (cp_run (cbs i) g (nth i cs connp_new) (ops_of i sched)) /\
    length (fst (ms_run g cbs cs sched)) = length cs.
Proof. exact noninterference_gen. Qed.
Print Assumptions C19_noninterference_state.

(* non-vacuity: a schedule over two connections *)
Example C19_example_sched : sched_ok 2 [(0, OpOpen); (1, OpOpen); (0, OpReqData [71; 69; 84]%N); (1, OpClose)] /\
  ops_of 0 [(0, OpOpen); (1, OpOpen); (0, OpReqData [71; 69; 84]%N); (1, OpClose)] = [OpOpen; OpReqData [71; 69; 84]%N].
Proof. split; [repeat constructor|reflexivity]. Qed.
