(* C16 -- CONNECT, upgrade and tunnel handling never parses or drops the wrong bytes.
   Only statements closed by `exact`, their assumptions, and examples. Histories end at close (htp_connp_close
   deliberately turns TUNNEL into CLOSED to flush the pending CONNECT transaction). *)
Require Import Htp.Model.MConnTypes Htp.Model.MTxCommon Htp.Model.MTxRes Htp.Model.MReq Htp.Model.MRes Htp.Model.MConnp
               Htp.Spec.SConnp Htp.Proof.PReq Htp.Proof.PRes Htp.Proof.PConnp.
Local Open Scope Z_scope.

(* the full statement: in every history (ending at close) the tunnel oracle holds *)
Definition C16_tunnel_full : Prop := forall cb g ops, chk_C16 (obs_run cb g connp_new ops) = true.

(* after the CONNECT head the request direction consumes nothing until the response line has been seen *)
Theorem C16_connect_suspends : forall cb g i d c,
  c_in_state c = REQ_CONNECT_WAIT_RESPONSE -> c_in_tx c = Some i ->
  t_response_progress (tx_get c i) <= c_HTP_RESPONSE_LINE ->
  c_in_status c <> c_HTP_STREAM_STOP -> c_in_status c <> c_HTP_STREAM_ERROR -> c_in_status c <> c_HTP_STREAM_TUNNEL ->
  d <> [] ->
  let r := connp_req_data cb g (Some d) (length d) c in
  snd r = c_HTP_STREAM_DATA_OTHER /\ k_read (c_in (fst r)) = 0%nat /\ c_events (fst r) = c_events c /\ c_txs (fst r) = c_txs c /\
  c_in_state (fst r) = REQ_CONNECT_WAIT_RESPONSE.
Proof. exact connect_suspends. Qed.
Print Assumptions C16_connect_suspends.

(* once the answer has been seen: 2xx -> probe the tunnel payload, anything else -> resume normal parsing (REQ_FINALIZE);
   the decision itself consumes nothing, so no request byte is skipped or parsed twice by it *)
Theorem C16_connect_wait_decides : forall c,
  c_HTP_RESPONSE_LINE < t_response_progress (rq_tx c) ->
  REQ_CONNECT_WAIT_RESPONSE_fn c =
    (ST_OK, c <| c_in_state := if (200 <=? t_response_status_number (rq_tx c)) && (t_response_status_number (rq_tx c) <=? 299)
                               then REQ_CONNECT_PROBE_DATA else REQ_FINALIZE |>).
Proof. exact connect_wait_decides. Qed.
Print Assumptions C16_connect_wait_decides.

(* tunnel mode is absorbing for data calls: TUNNEL is returned, no callback runs, no transaction is created,
   no parser state other than the chunk cursor and byte counters changes *)
Theorem C16_tunnel_absorbing_req : forall cb g data len c,
  c_in_status c = c_HTP_STREAM_TUNNEL -> (0 < len)%nat ->
  snd (connp_req_data cb g data len c) = c_HTP_STREAM_TUNNEL /\ same_but_cursor_in c (fst (connp_req_data cb g data len c)).
Proof. exact tunnel_absorbing_req. Qed.
Theorem C16_tunnel_absorbing_res : forall cb g data len c,
  c_out_status c = c_HTP_STREAM_TUNNEL -> (c_out_tx c <> None \/ c_out_state c = RES_IDLE) -> (0 < len)%nat ->
  snd (connp_res_data cb g data len c) = c_HTP_STREAM_TUNNEL /\ same_but_cursor_out c (fst (connp_res_data cb g data len c)).
Proof. exact tunnel_absorbing_res. Qed.
Print Assumptions C16_tunnel_absorbing_req.
Print Assumptions C16_tunnel_absorbing_res.

(* non-vacuity / worked example: CONNECT, 200, non-HTTP bytes: both directions end in TUNNEL and stay there *)
Definition c16_connect : bytes := [67;79;78;78;69;67;84;32;97;58;52;52;51;32;72;84;84;80;47;49;46;49;13;10;72;111;115;116;58;32;97;13;10;13;10]%N.
Definition c16_ok : bytes := [72;84;84;80;47;49;46;49;32;50;48;48;32;79;75;13;10;13;10]%N.
Example C16_example :
  let obs := obs_run (fun _ _ => CB_OK) (cp_make_cfg 1 (Z.to_nat 18000) 512 false false 0) connp_new
               [OpOpen; OpReqData c16_connect; OpResData c16_ok; OpReqData [22;3;1;0;10]%N; OpResData [22;3;3]%N; OpReqData [1;2;3]%N] in
  chk_C16 obs = true /\
  map oc_rc obs = [-1; c_HTP_STREAM_DATA; c_HTP_STREAM_DATA; c_HTP_STREAM_TUNNEL; c_HTP_STREAM_TUNNEL; c_HTP_STREAM_TUNNEL] /\
  map oc_ntx obs = [0; 1; 1; 1; 1; 1]%nat.
Proof. vm_compute. repeat split. Qed.

(* ---- the former witness against the history-level statement (listed finding http09-then-tunnel-error, fixed in /repo: the entry guard of
        htp_connp_req_data lets tunnel mode through): junk after an Upgrade request is taken as an HTTP/0.9-style request, which leaves in_tx NULL in
        state REQ_IGNORE_DATA_AFTER_HTTP_0_9; once the 101 answer has put both directions into TUNNEL the next request data call used to return ERROR
        ("no inbound transaction outside IDLE" was tested before TUNNEL); it now returns TUNNEL and the oracle accepts the history ---- *)
Definition c16_w_ops : list cp_op := [OpOpen; OpReqData [71;69;84;32;47;117;112;32;72;84;84;80;47;49;46;49;13;10;72;111;115;116;58;32;97;13;10;85;112;103;114;97;100;101;58;32;119;101;98;115;111;99;107;101;116;13;10;67;111;110;110;101;99;116;105;111;110;58;32;85;112;103;114;97;100;101;13;10;13;10;65;22;1;65;10;10;128;10]%N; OpResData [72;84;84;80;47;49;46;49;32;49;48;49;32;88;13;10;13;10]%N; OpReqData [65]%N].
Example C16_http09_then_tunnel_fixed :
  chk_C16 (obs_run (fun _ _ => CB_OK) (cp_make_cfg 1 (Z.to_nat 18000) 512 false false 0) connp_new c16_w_ops) = true.
Proof. vm_compute. reflexivity. Qed.
Example C16_http09_then_tunnel_fixed_rc :
  map oc_rc (obs_run (fun _ _ => CB_OK) (cp_make_cfg 1 (Z.to_nat 18000) 512 false false 0) connp_new c16_w_ops) =
  [-1; c_HTP_STREAM_DATA; c_HTP_STREAM_TUNNEL; c_HTP_STREAM_TUNNEL].
Proof. vm_compute. reflexivity. Qed.

(* ---- the other listed finding (server-first-tunnel-data-parsed-as-response) is NOT a witness against C16_tunnel_full: the oracle only watches the
        calls after one that was answered with BOTH directions in TUNNEL, and here the response direction never gets there. What the model does:
        the CONNECT head alone, the 2xx answer, then the server speaks first: the banner is parsed as a new response, a second transaction is
        fabricated from tunnel payload and callbacks run on it (4 events); no call returns TUNNEL, neither then nor for the client bytes that
        follow (the fabricated transaction has moved the request side on), and chk_C16 accepts both histories.
        C16_tunnel_full_refuted (which rested on the http09 witness) is therefore gone: no listed finding refutes the statement any more. It is still
        not a theorem; C16_zero_length_chunk_in_tunnel below records the one rejected history known, a misuse of the API. ---- *)
Definition c16_connect25 : bytes := [67;79;78;78;69;67;84;32;104;58;50;53;32;72;84;84;80;47;49;46;49;13;10;72;111;115;116;58;32;104;58;50;53;13;10;13;10]%N.
Definition c16_banner : bytes := [50;50;48;32;114;101;97;100;121;13;10]%N.
Definition c16_sf_ops : list cp_op := [OpOpen; OpReqData c16_connect25; OpResData c16_ok; OpResData c16_banner].
Example C16_server_first_accepted_by_oracle :
  let obs := obs_run (fun _ _ => CB_OK) (cp_make_cfg 1 (Z.to_nat 18000) 512 false false 0) connp_new c16_sf_ops in
  chk_C16 obs = true /\
  map oc_rc obs = [-1; c_HTP_STREAM_DATA; c_HTP_STREAM_DATA; c_HTP_STREAM_DATA] /\
  map oc_out_status obs = [c_HTP_STREAM_OPEN; c_HTP_STREAM_OPEN; c_HTP_STREAM_DATA; c_HTP_STREAM_DATA] /\
  map oc_ntx obs = [0; 1; 1; 2]%nat /\
  map (fun o => length (oc_events o)) obs = [0; 5; 6; 4]%nat.
Proof. vm_compute. repeat split. Qed.
Example C16_server_first_then_client_accepted_by_oracle :
  let obs := obs_run (fun _ _ => CB_OK) (cp_make_cfg 1 (Z.to_nat 18000) 512 false false 0) connp_new (c16_sf_ops ++ [OpReqData [69;72;76;79;10]%N]) in
  chk_C16 obs = true /\
  map oc_rc obs = [-1; c_HTP_STREAM_DATA; c_HTP_STREAM_DATA; c_HTP_STREAM_DATA; c_HTP_STREAM_DATA] /\
  map oc_in_status obs = [c_HTP_STREAM_OPEN; c_HTP_STREAM_DATA; c_HTP_STREAM_DATA; c_HTP_STREAM_DATA; c_HTP_STREAM_DATA] /\
  map oc_ntx obs = [0; 1; 1; 2; 2]%nat.
Proof. vm_compute. repeat split. Qed.
(* a zero-length chunk in an established tunnel ("Zero-length data chunks are not allowed": the call returns CLOSED, not TUNNEL) is rejected by the
   oracle: the statement quantifies over ALL operation lists, this one is a misuse of the API and not a finding *)
Example C16_zero_length_chunk_in_tunnel :
  let obs := obs_run (fun _ _ => CB_OK) (cp_make_cfg 1 (Z.to_nat 18000) 512 false false 0) connp_new
               [OpOpen; OpReqData c16_connect; OpResData c16_ok; OpReqData [22;3;1;0;10]%N; OpReqData []] in
  chk_C16 obs = false /\
  map oc_rc obs = [-1; c_HTP_STREAM_DATA; c_HTP_STREAM_DATA; c_HTP_STREAM_TUNNEL; c_HTP_STREAM_CLOSED].
Proof. vm_compute. repeat split. Qed.

(* ==== HISTORY-LEVEL THEOREMS (PTun*.v), callbacks answering OK ====
   (T1) TUNNEL ESTABLISHED. History h: open; a CONNECT request of the wire grammar in ANY chunking (the last chunk may carry the first client bytes); a 2xx answer
   of the response grammar in ANY chunking, request calls allowed in between only while the status line is incomplete (they are refused: DATA_OTHER, consumed 0);
   client payload up to its first LF / NUL that the model's own probe does not take for HTTP; then ANY tail of data calls. Conclusions: the exact (return code,
   consumed) of EVERY call (tn_h1_expect); exactly one transaction, reporting the CONNECT request and the 2xx status; from the call that delivers the deciding
   byte on both directions are in TUNNEL and every later call is absorbed (TUNNEL, nothing consumed, no event, one transaction); chk_C16 accepts the run.
   The op-order premise inside tn_h1_ok (no response op between the 2xx head and the deciding request call) excludes exactly the listed server-first finding. *)
Require Import Htp.Model.Base Htp.Model.MBstr Htp.Spec.SWire Htp.Proof.PWire Htp.Proof.PWireHdr Htp.Proof.PWireBlock Htp.Proof.PWireConn Htp.Proof.PWireExch Htp.Proof.PWireRun.
Require Import Htp.Proof.PSeg Htp.Proof.PSegRun Htp.Proof.PSegFold Htp.Proof.PSegPipe Htp.Proof.PSegRes Htp.Proof.PSegResRun Htp.Proof.PSegResThm Htp.Proof.PSegResCanon Htp.Proof.PPairThm.
Require Import Htp.Proof.PTunBase Htp.Proof.PTunSeg Htp.Proof.PTunSegMid Htp.Proof.PTunRes Htp.Proof.PTunResTail Htp.Proof.PTunResFin Htp.Proof.PTunReq Htp.Proof.PTunProbe Htp.Proof.PTunConnR.
Require Import Htp.Proof.PTunThm1 Htp.Proof.PTunThm2.
Theorem C16_tunnel_established : forall cb g rq rsp cuts h,
  wr_all_ok cb -> g_allow_space_uri g = false ->
  tn_connect_ok g rq = true -> tn_rsp_ok g rsp cuts = true -> tn_2xx rsp = true -> tn_h1_ok g rq rsp cuts h ->
  let run := cp_run cb g connp_new (tn_h1_ops h) in
  (* (a), (b): what every call returns and consumes *)
  map tn_o (snd run) = tn_h1_expect h /\
  (* (c): exactly one transaction; it reports the CONNECT request and the 2xx status *)
  (exists t, c_txs (fst run) = [Some t] /\ tn_reported t rq /\ t_response_status_number t = wr_status_value (wp_status rsp) /\
             t_response_progress t = c_HTP_RESPONSE_COMPLETE) /\
  (* (b), (d): after the call that establishes the tunnel every call is absorbed: TUNNEL, nothing consumed, no event, one transaction *)
  (exists rs1 r rs2, snd run = rs1 ++ r :: rs2 /\ length rs1 = length (tn_h1_head h) /\ Forall tn_rquiet rs1 /\
     r_in_status r = c_HTP_STREAM_TUNNEL /\ r_out_status r = c_HTP_STREAM_TUNNEL /\ Forall (tn_absorbed 1) rs2) /\
  (* (e): the extracted tunnel oracle accepts the observations *)
  chk_C16 (obs_run cb g connp_new (tn_h1_ops h)) = true /\
  tn_tun (fst run).
Proof. exact tn_tunnel_established. Qed.
Print Assumptions C16_tunnel_established.
(* (T2) 101 SWITCHING PROTOCOLS: any request of the grammar in any chunking, a 101 answer without Content-Length / Transfer-Encoding in any chunking, any tail:
   the response call that delivers the last byte of the 101 head returns TUNNEL with both directions in TUNNEL; every later call is absorbed; one transaction.
   The op-order premise (no request byte between the request and the 101) excludes histories like the former listed finding http09-then-tunnel-error
   (fixed in /repo, see C16_http09_then_tunnel_fixed above); the theorem is unchanged. *)
Theorem C16_switching_protocols : forall cb g rq rsp cuts (qchunks spre : list bytes) (slast : bytes) (tail : list cp_op),
  wr_all_ok cb -> g_allow_space_uri g = false -> (g_max_tx g = 0 \/ 1 < g_max_tx g)%nat ->
  sg_req_ok g rq = true -> tn_rsp_ok g rsp cuts = true -> tu_101_ok rq rsp cuts = true ->
  Forall (fun x : bytes => x <> []) qchunks -> concat qchunks = wr_request_wire rq ->
  Forall (fun x : bytes => x <> []) spre -> slast <> [] -> concat spre ++ slast = sr_wire rsp cuts [] ->
  Forall tn_data_op tail ->
  let head := OpOpen :: map OpReqData qchunks ++ map OpResData spre in
  let ops := head ++ OpResData slast :: tail in
  let run := cp_run cb g connp_new ops in
  (* every call before the one that delivers the end of the 101 head leaves the request side out of tunnel mode; that call returns TUNNEL
     having consumed its chunk, with both directions in tunnel mode; every later call is absorbed (TUNNEL, nothing consumed, no event, one transaction) *)
  (exists rs1 rD rs2, snd run = rs1 ++ rD :: rs2 /\ length rs1 = length head /\ Forall tn_rquiet rs1 /\
     tn_o rD = (c_HTP_STREAM_TUNNEL, length slast) /\ r_in_status rD = c_HTP_STREAM_TUNNEL /\ r_out_status rD = c_HTP_STREAM_TUNNEL /\
     Forall (tn_absorbed 1) rs2) /\
  (* exactly one transaction: it reports the request, and the status 101 *)
  (exists t, c_txs (fst run) = [Some t] /\ wr_reported (sg_mask t) rq /\ t_response_status_number t = 101) /\
  chk_C16 (obs_run cb g connp_new ops) = true /\
  tn_tun (fst run).
Proof. exact tu_switching_protocols. Qed.
Print Assumptions C16_switching_protocols.

(* (T3) REFUSED CONNECT RESUMES: a CONNECT request (any chunking, following bytes possibly glued and refused: DATA_OTHER, consumed 0), a non-2xx answer with a
   Content-Length body (any chunking; 407 takes the same path), then n >= 1 pipelined requests of the grammar in any chunking, re-offered from their first byte:
   transaction 0 is the CONNECT transaction, complete in both directions (its slot empty under tx_auto_destroy), transactions 1..n report requests 1..n -- no
   request byte skipped or parsed twice --, the request side ends between two requests, no call ever returns TUNNEL, chk_C16 accepts the run.
   (T4) the same when the CONNECT is ACCEPTED (2xx) but the payload starts with a known method: REQ_CONNECT_PROBE_DATA completes the CONNECT transaction and
   normal parsing resumes, no tunnel. Both hold with and without tx_auto_destroy (since /repo 6d6bb7e). *)
Require Import Htp.Proof.PTunSegLine Htp.Proof.PTunRefR Htp.Proof.PTunSegPipeRun Htp.Proof.PTunResume Htp.Proof.PTunThm3 Htp.Proof.PTunThm4.
Theorem C16_refused_connect_resumes : forall cb g rq rsp cuts body rs h,
  wr_all_ok cb -> g_allow_space_uri g = false ->
  tn_connect_ok g rq = true -> tn_no_framing rq = true ->
  tn_rsp_ok g rsp cuts = true -> tn_refused_ok rq rsp cuts body = true ->
  rs <> [] -> Forall (fun r => sg_req_ok g r = true) rs -> (g_max_tx g = 0 \/ 1 + length rs < g_max_tx g)%nat ->
  tn_h3_ok rq rsp cuts body rs h ->
  let run := cp_run cb g connp_new (tn_h3_ops h) in
  (* what the calls up to the end of the answer return and consume; how many calls follow *)
  (exists rsH rsP, snd run = rsH ++ rsP /\ map tn_o rsH = tn_h3_expect h /\ length rsP = length (j_chunks h)) /\
  (* transaction 0 is the CONNECT transaction, complete in both directions (its slot is empty when tx_auto_destroy is set);
     transactions 1..n report requests 1..n *)
  (exists t dn, c_txs (fst run) = tn_done_slot g t :: dn /\ tn_reported t rq /\ t_response_status_number t = wr_status_value (wp_status rsp) /\
                t_response_progress t = c_HTP_RESPONSE_COMPLETE /\ sg_rep dn rs) /\
  (* the request side is between two requests; no call has returned TUNNEL; the extracted tunnel oracle accepts *)
  c_in_state (fst run) = REQ_IDLE /\ Forall tn_rquiet (snd run) /\
  chk_C16 (obs_run cb g connp_new (tn_h3_ops h)) = true.
Proof. exact tn_refused_connect_resumes. Qed.
Print Assumptions C16_refused_connect_resumes.
Theorem C16_accepted_connect_with_http_payload_resumes : forall cb g rq rsp cuts rs h,
  wr_all_ok cb -> g_allow_space_uri g = false ->
  tn_connect_ok g rq = true -> tn_no_framing rq = true ->
  tn_rsp_ok g rsp cuts = true -> tn_2xx rsp = true ->
  rs <> [] -> Forall (fun r => sg_req_ok g r = true) rs -> (g_max_tx g = 0 \/ 1 + length rs < g_max_tx g)%nat ->
  tn_h4_ok rq rsp cuts rs h ->
  let run := cp_run cb g connp_new (tn_h3_ops h) in
  (* what the calls up to the end of the answer return and consume; how many calls follow *)
  (exists rsH rsP, snd run = rsH ++ rsP /\ map tn_o rsH = tn_h3_expect h /\ length rsP = length (j_chunks h)) /\
  (* transaction 0 is the CONNECT transaction, complete in both directions (its slot is empty when tx_auto_destroy is set);
     transactions 1..n report requests 1..n *)
  (exists t dn, c_txs (fst run) = tn_done_slot g t :: dn /\ tn_reported t rq /\ t_response_status_number t = wr_status_value (wp_status rsp) /\
                t_response_progress t = c_HTP_RESPONSE_COMPLETE /\ sg_rep dn rs) /\
  (* the request side is between two requests; no call has returned TUNNEL; the extracted tunnel oracle accepts *)
  c_in_state (fst run) = REQ_IDLE /\ Forall tn_rquiet (snd run) /\
  chk_C16 (obs_run cb g connp_new (tn_h3_ops h)) = true.
Proof. exact tn_accepted_connect_http_resumes. Qed.
Print Assumptions C16_accepted_connect_with_http_payload_resumes.
