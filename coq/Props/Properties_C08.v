(* C08 -- work is linear in stream length: what is proved about the tick-instrumented model (Model/MCost.v).
   Only statements closed by `exact`, their assumptions, and examples. The full property is FALSE of the
   unchanged code for two constructs (known findings); for those the quadratic lower bound is the theorem. *)
Require Import Htp.Model.Base Htp.Model.MBstr Htp.Model.MTable Htp.Model.MCost Htp.Proof.PCost.

(* the full statement for the header-insertion construct: some linear function bounds the work of any k header lines *)
Definition C08_headers_linear_full : Prop :=
  exists a b, forall names, cs_header_cost names <= a * length names + b.

(* one table lookup is linear in the number of stored names *)
Theorem C08_lookup_linear : forall p l, cs_tscan_cost p l <= Nat.div2 (length l).
Proof. exact tscan_cost_le. Qed.
Print Assumptions C08_lookup_linear.

(* k header lines with pairwise different names cost exactly k(k-1)/2 name comparisons *)
Theorem C08_distinct_headers_quadratic : forall names, pairwise_distinct names ->
  cs_header_cost names = (length names * (length names - 1)) / 2.
Proof. exact distinct_headers_quadratic. Qed.
Print Assumptions C08_distinct_headers_quadratic.

(* ... so no linear bound holds for that construct: the full statement is refuted for every family of distinct names *)
Theorem C08_headers_linear_refuted : forall mk : nat -> list bytes,
  (forall k, length (mk k) = k /\ pairwise_distinct (mk k)) ->
  forall a b, exists k, cs_header_cost (mk k) > a * k + b.
Proof. exact distinct_headers_not_linear. Qed.
Print Assumptions C08_headers_linear_refuted.

(* repeating ONE field name k+1 times costs k comparisons: linear *)
Theorem C08_same_header_linear : forall n k, cs_name_eq n n = true -> cs_header_cost (repeat n (S k)) = k.
Proof. exact same_header_linear. Qed.
Print Assumptions C08_same_header_linear.

(* a chunk-length line of w >= 8 blanks and d digits in one piece costs d * (w + 1) probe steps *)
Theorem C08_chunk_line_probe_quadratic : forall w d, 8 <= w ->
  cs_chunk_line_cost (repeat 32%N w ++ repeat 48%N d) = d * S w.
Proof. exact chunk_line_probe_quadratic. Qed.
Print Assumptions C08_chunk_line_probe_quadratic.

(* the repetition cap the linear cases rely on is the regenerated constant *)
Lemma C08_repetition_cap : c_HTP_MAX_HEADERS_REPETITIONS = 64%Z. Proof. reflexivity. Qed.
Lemma C08_folded_cap : c_HTP_MAX_HEADER_FOLDED = 102400%Z. Proof. reflexivity. Qed.

Example C08_distinct_example :
  cs_header_cost [[97]; [98]; [99]; [100]; [101]]%N = 10 /\ cs_header_cost [[97]; [65]; [97]; [65]; [97]]%N = 4.
Proof. split; vm_compute; reflexivity. Qed.
Example C08_probe_example : cs_chunk_line_cost (repeat 32%N 10 ++ repeat 48%N 5 ++ [10]%N) = 55.
Proof. vm_compute. reflexivity. Qed.
