(* C08 -- work is linear in stream length: what is proved about the tick-instrumented model (Model/MCost.v).
   Only statements closed by `exact`, their assumptions, and examples. The full property is FALSE of the
   unchanged code for two constructs (known findings); for those the quadratic lower bound is the theorem. *)
Require Import Htp.Model.Base Htp.Model.MBstr Htp.Model.MTable Htp.Model.MCost Htp.Proof.PCost.

(* the full statement for the header-insertion construct: some linear function bounds the work of any k header lines *)
Definition C08_headers_linear_full : Prop :=
  exists a b, forall names, cs_header_cost names <= a * length names + b.

(* one table lookup is linear in the number of stored names *)
Theorem C08_lookup_linear : forall p l, cs_tscan_cost p l <= Nat.div2 (length l).
Proof. exact tscan_cost_le. Qed.
Print Assumptions C08_lookup_linear.

(* k header lines with pairwise different names cost exactly k(k-1)/2 name comparisons *)
Theorem C08_distinct_headers_quadratic : forall names, pairwise_distinct names ->
  cs_header_cost names = (length names * (length names - 1)) / 2.
Proof. exact distinct_headers_quadratic. Qed.
Print Assumptions C08_distinct_headers_quadratic.

(* ... so no linear bound holds for that construct: the full statement is refuted for every family of distinct names *)
Theorem C08_headers_linear_refuted : forall mk : nat -> list bytes,
  (forall k, length (mk k) = k /\ pairwise_distinct (mk k)) ->
  forall a b, exists k, cs_header_cost (mk k) > a * k + b.
Proof. exact distinct_headers_not_linear. Qed.
Print Assumptions C08_headers_linear_refuted.

(* repeating ONE field name k+1 times costs k comparisons: linear *)
Theorem C08_same_header_linear : forall n k, cs_name_eq n n = true -> cs_header_cost (repeat n (S k)) = k.
Proof. exact same_header_linear. Qed.
Print Assumptions C08_same_header_linear.

(* a chunk-length line of w >= 8 blanks and d digits in one piece costs d * (w + 1) probe steps *)
Theorem C08_chunk_line_probe_quadratic : forall w d, 8 <= w ->
  cs_chunk_line_cost (repeat 32%N w ++ repeat 48%N d) = d * S w.
Proof. exact chunk_line_probe_quadratic. Qed.
Print Assumptions C08_chunk_line_probe_quadratic.

(* the repetition cap the linear cases rely on is the regenerated constant *)
Lemma C08_repetition_cap : c_HTP_MAX_HEADERS_REPETITIONS = 64%Z. Proof. reflexivity. Qed.
Lemma C08_folded_cap : c_HTP_MAX_HEADER_FOLDED = 102400%Z. Proof. reflexivity. Qed.

Example C08_distinct_example :
  cs_header_cost [[97]; [98]; [99]; [100]; [101]]%N = 10 /\ cs_header_cost [[97]; [65]; [97]; [65]; [97]]%N = 4.
Proof. split; vm_compute; reflexivity. Qed.
Example C08_probe_example : cs_chunk_line_cost (repeat 32%N 10 ++ repeat 48%N 5 ++ [10]%N) = 55.
Proof. vm_compute. reflexivity. Qed.

(* ---- the outer loops of the two data entry points: the number of state-function passes of ONE data call is LINEAR in the length of the chunk.
        connp_*_data_opt is the entry point with the pass budget made explicit (None when the budget is exhausted); the budgets are
        16 * len + 16 passes (request direction) and 8 * len + 64 passes (response direction), and they are never exhausted. What one pass costs
        is what the per-construct theorems above are about. ---- *)
Require Import Htp.Model.MConnTypes Htp.Model.MReq Htp.Model.MRes Htp.Proof.PReq Htp.Proof.PTermReq Htp.Proof.PTermRes.
Theorem C08_request_pass_budget : forall len, rq_fuel len = 16 * len + 16.
Proof. reflexivity. Qed.
Theorem C08_request_passes_linear : forall cb g data len c,
  rq_inv c -> (forall d, data = Some d -> len <= length d) -> (c_in_status c = c_HTP_STREAM_CLOSED -> len = 0) ->
  connp_req_data_opt cb g data len c = Some (connp_req_data cb g data len c).
Proof. exact req_data_never_out_of_fuel. Qed.
Print Assumptions C08_request_passes_linear.
Theorem C08_response_pass_budget : forall len, rs_res_fuel len = 8 * len + 64.
Proof. reflexivity. Qed.
Theorem C08_response_passes_linear : forall cb g data len c,
  ts_entry_ok len c -> connp_res_data_opt cb g data len c = Some (connp_res_data cb g data len c).
Proof. exact res_data_never_out_of_fuel. Qed.
Print Assumptions C08_response_passes_linear.
