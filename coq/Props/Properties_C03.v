(* C03 -- segmentation invariance: TCP chunking does not change the parse.
   Only statements closed by `exact`, their assumptions, and examples. *)
Require Import Htp.Model.MConnTypes Htp.Model.MConnp Htp.Model.MUrlenc Htp.Model.MMultipart Htp.Spec.SMultipart
               Htp.Proof.PUrlenc Htp.Proof.PMultipartRef.
Local Open Scope Z_scope.

(* what a caller can see of the transactions at the end of a history, without the multi-packet-head indicator *)
Definition c03_mask (t : tx) : tx := t <| t_flags := N.ldiff (t_flags t) c_HTP_MULTI_PACKET_HEAD |>.
Definition c03_obs (cb : cb_oracle) (g : cfg) (ops : list cp_op) : list (option tx) :=
  map (option_map c03_mask) (c_txs (fst (cp_run cb g connp_new ops))).

(* the full statement, for one cut of the response stream (the property demands it for every chunking of both streams):
   cutting the response at any position does not change the reported transactions *)
Definition C03_single_cut_full : Prop :=
  forall cb g rq rs k, (0 < k < length rs)%nat ->
    c03_obs cb g [OpOpen; OpReqData rq; OpResData rs; OpClose] =
    c03_obs cb g [OpOpen; OpReqData rq; OpResData (firstn k rs); OpResData (skipn k rs); OpClose].

(* ---- layers that are chunking-invariant for ALL inputs and ALL chunkings (proved in their own files) ---- *)
(* urlencoded parameters: any two chunkings of the same bytes give the same parameters, flags and expected status *)
Theorem C03_layer_urlencoded : forall cfg c1 c2, concat c1 = concat c2 -> ue_run_full cfg c1 = ue_run_full cfg c2.
Proof. exact ue_split_invariant_full. Qed.
Print Assumptions C03_layer_urlencoded.
(* multipart bodies: chunked delivery = whole delivery (parts, all flags), under the executable premise that excludes
   exactly the listed multipart findings *)
Theorem C03_layer_multipart : forall boundary flags chunks,
  mp_premb boundary flags chunks = true ->
  mp_obs (mp_finalize (fold_left mp_parse chunks (mp_init_flags boundary flags))) =
  mp_obs (mp_finalize (mp_parse (mp_init_flags boundary flags) (concat chunks))).
Proof. exact mp_byte_refinement_partial. Qed.
Print Assumptions C03_layer_multipart.

(* ---- the full statement is false of the code (listed findings) ---- *)
Definition c03_f1_whole : list cp_op := [OpOpen;
   OpReqData [71;69;84;32;47;49;32;72;84;84;80;47;49;46;49;13;10;72;111;115;116;58;32;97;13;10;13;10]%N;
   OpResData [72;84;84;80;47;49;46;49;32;50;48;48;32;79;75;13;10;67;111;110;116;101;110;116;45;76;101;110;103;116;104;58;32;51;13;10;13;10;13;97;98]%N;
   OpClose].
Definition c03_f1_split : list cp_op := [OpOpen;
   OpReqData [71;69;84;32;47;49;32;72;84;84;80;47;49;46;49;13;10;72;111;115;116;58;32;97;13;10;13;10]%N;
   OpResData [72;84;84;80;47;49;46;49;32;50;48;48;32;79;75;13;10;67;111;110;116;101;110;116;45;76;101;110;103;116;104;58;32;51;13;10;13]%N;
   OpResData [10;13;97;98]%N;
   OpClose].
Definition c03_ext_whole : list cp_op := [OpOpen;
   OpReqData [71;69;84;32;47;49;32;72;84;84;80;47;49;46;49;13;10;72;111;115;116;58;32;97;13;10;13;10;80;85;82;71;69;32;47;50;32;72;84;84;80;47;49;46;49;13;10;72;111;115;116;58;32;97;13;10;13;10]%N;
   OpClose].
Definition c03_ext_split : list cp_op := [OpOpen;
   OpReqData [71;69;84;32;47;49;32;72;84;84;80;47;49;46;49;13;10;72;111;115;116;58;32;97;13;10;13;10]%N;
   OpReqData [80;85;82;71;69;32;47;50;32;72;84;84;80;47;49;46;49;13;10;72;111;115;116;58;32;97;13;10;13;10]%N;
   OpClose].
Definition c03_g : cfg := cp_make_cfg 1 (Z.to_nat 18000) 512 false false 0.
Definition c03_ok : cb_oracle := fun _ _ => CB_OK.

(* F1: a cut between the CR and LF that end the response header block, body starting with CR: the LF-CR line-ending
   heuristic fires only in the split run; the response stays in its headers *)
Theorem C03_refuted_F1 : ~ C03_single_cut_full.
Proof.
  intros H.
  specialize (H c03_ok c03_g
    [71;69;84;32;47;49;32;72;84;84;80;47;49;46;49;13;10;72;111;115;116;58;32;97;13;10;13;10]%N
    [72;84;84;80;47;49;46;49;32;50;48;48;32;79;75;13;10;67;111;110;116;101;110;116;45;76;101;110;103;116;104;58;32;51;13;10;13;10;13;97;98]%N
    37%nat).
  assert (L : (0 < 37 < 41)%nat) by lia. specialize (H L). vm_compute in H. discriminate.
Qed.
Print Assumptions C03_refuted_F1.
Example C03_F1_witness_runs :
  map (option_map t_response_progress) (c03_obs c03_ok c03_g c03_f1_whole) = [Some c_HTP_RESPONSE_COMPLETE] /\
  c03_obs c03_ok c03_g c03_f1_whole <> c03_obs c03_ok c03_g c03_f1_split.
Proof. split; [vm_compute; reflexivity|]. intros H. vm_compute in H. discriminate. Qed.

(* pipelined extension method: one chunk -> one transaction (second request swallowed as body), two chunks -> two *)
Example C03_refuted_ext_method :
  length (c03_obs c03_ok c03_g c03_ext_whole) = 1%nat /\ length (c03_obs c03_ok c03_g c03_ext_split) = 2%nat.
Proof. split; vm_compute; reflexivity. Qed.

(* ---- the REQUEST direction on the wire grammar (Spec/SWire.v: request line, header fields, no folding, no body), EVERY chunking:
        for every list of non-empty chunks whose concatenation is the request, the reported transaction is the one of the single-chunk delivery
        (up to the multi-packet-head indicator). The limit premise sg_fits is needed and is more than "every line fits": the hard limit is applied to
        the buffered bytes PLUS the header line that is still pending because its look-ahead byte fell at a chunk end (Example sg_limit_premise_needed:
        with limit 20 and lines of at most 17 bytes the single-chunk run completes, the run cut at 39 and 40 ends in STREAM_ERROR) ---- *)
Require Import Htp.Spec.SWire Htp.Proof.PWireExch Htp.Proof.PWireGlue Htp.Proof.PSeg Htp.Proof.PSegRun.
(* the proofs' observation function is this file's c03_obs (same body); stated once as an equation so that no proof below depends on the kernel
   unfolding cp_run to find that out *)
Lemma c03_obs_is_sg_obs : c03_obs = sg_obs.
Proof. reflexivity. Qed.
Theorem C03_request_chunking : forall cb g r (chunks : list bytes),
  wr_all_ok cb -> g_allow_space_uri g = false -> wr_request_ok r = true -> sg_fits g r = true ->
  Forall (fun x => x <> []) chunks -> concat chunks = wr_request_wire r ->
  c03_obs cb g (OpOpen :: map OpReqData chunks) = c03_obs cb g [OpOpen; OpReqData (wr_request_wire r)].
Proof. rewrite c03_obs_is_sg_obs. exact sg_request_chunking_obs. Qed.
Print Assumptions C03_request_chunking.
(* ... and what is reported is what was sent (with C02's fidelity theorem for the single-chunk delivery) *)
Theorem C03_request_chunking_reported : forall cb g r (chunks : list bytes),
  wr_all_ok cb -> g_allow_space_uri g = false -> wr_request_ok r = true -> sg_fits g r = true ->
  Forall (fun x => x <> []) chunks -> concat chunks = wr_request_wire r ->
  exists t, c_txs (fst (cp_run cb g connp_new (OpOpen :: map OpReqData chunks))) = [Some t] /\ wr_reported (c03_mask t) r.
Proof. exact sg_request_chunking_reported. Qed.
Print Assumptions C03_request_chunking_reported.

(* ---- folded header lines and Content-Length bodies: two foldings (every field value cut into continuation lines, cuts) and two chunkings of the
        same request give the same reported transactions; for the folded request they are what was sent ---- *)
Require Import Htp.Proof.PSegFold Htp.Proof.PSegBody.
Theorem C03_request_folding_and_chunking : forall cb g r (cuts1 : list (list bytes)) (chunks1 : list bytes) (cuts2 : list (list bytes)) (chunks2 : list bytes),
  wr_all_ok cb -> g_allow_space_uri g = false -> wr_request_ok r = true ->
  sg_cuts_ok r cuts1 = true -> sg_fold_fits g r cuts1 = true -> Forall (fun x => x <> []) chunks1 -> concat chunks1 = sg_fold_wire r cuts1 ->
  sg_cuts_ok r cuts2 = true -> sg_fold_fits g r cuts2 = true -> Forall (fun x => x <> []) chunks2 -> concat chunks2 = sg_fold_wire r cuts2 ->
  c03_obs cb g (OpOpen :: map OpReqData chunks1) = c03_obs cb g (OpOpen :: map OpReqData chunks2).
Proof. rewrite c03_obs_is_sg_obs. exact sg_request_fold_chunking_obs. Qed.
Print Assumptions C03_request_folding_and_chunking.
Theorem C03_request_folding_reported : forall cb g r (cuts : list (list bytes)) (chunks : list bytes),
  wr_all_ok cb -> g_allow_space_uri g = false -> wr_request_ok r = true -> sg_cuts_ok r cuts = true -> sg_fold_fits g r cuts = true ->
  Forall (fun x => x <> []) chunks -> concat chunks = sg_fold_wire r cuts ->
  exists t, c_txs (fst (cp_run cb g connp_new (OpOpen :: map OpReqData chunks))) = [Some t] /\ wr_reported (c03_mask t) r.
Proof. exact sg_request_fold_chunking_reported. Qed.
Print Assumptions C03_request_folding_reported.
(* a request with a Content-Length body (sg_body_ok: the model's end-of-headers decision is IDENTITY with content length |body|): all transaction
   fields, including entity and message length, are the same for every folding and chunking *)
Theorem C03_request_body_chunking : forall cb g r (body : bytes) (cuts1 : list (list bytes)) (chunks1 : list bytes) (cuts2 : list (list bytes)) (chunks2 : list bytes),
  wr_all_ok cb -> g_allow_space_uri g = false -> sg_body_ok g r body = true ->
  sg_cuts_ok r cuts1 = true -> sg_fold_fits g r cuts1 = true -> Forall (fun x => x <> []) chunks1 -> concat chunks1 = sg_fold_wire r cuts1 ++ body ->
  sg_cuts_ok r cuts2 = true -> sg_fold_fits g r cuts2 = true -> Forall (fun x => x <> []) chunks2 -> concat chunks2 = sg_fold_wire r cuts2 ++ body ->
  c03_obs cb g (OpOpen :: map OpReqData chunks1) = c03_obs cb g (OpOpen :: map OpReqData chunks2).
Proof. rewrite c03_obs_is_sg_obs. exact sg_request_body_chunking_obs. Qed.
Print Assumptions C03_request_body_chunking.

(* ---- the RESPONSE direction: after a grammar request, a grammar response (status line without CR/LF in the reason phrase, header fields in any
        folding `cuts`, a Content-Length body that may be empty) delivered in ANY chunking reports the same transactions as the single-chunk delivery.
        Premises, all executable: sr_framed (the model's own framing decision: Content-Length = |body|, no Transfer-Encoding, not an answer to HEAD /
        CONNECT, not an interim 100), sr_fits (the limit, pairwise with the pending header line, plus one byte for the last header line), and sr_f1_free,
        which excludes EXACTLY the chunkings on which the listed LF-CR finding F1 changes the parse (it only bites when the body starts with CR).
        The bare-CR finding F2 is excluded by sr_response_ok; the fold-with-colon finding K2 needs no premise (a folding, not a chunking, dependence). ---- *)
Require Import Htp.Proof.PSegRes Htp.Proof.PSegResHdr Htp.Proof.PSegResGen Htp.Proof.PSegResRun Htp.Proof.PSegResReq Htp.Proof.PSegResThm.
Theorem C03_response_chunking : forall cb g rq r (cuts : list (list bytes)) (body : bytes) (chunks : list bytes),
  wr_all_ok cb -> g_allow_space_uri g = false -> wr_request_ok rq = true ->
  sr_response_ok r = true -> sr_cuts_ok r cuts = true -> sr_framed cb g rq r cuts body = true -> sr_fits g r cuts = true ->
  Forall (fun x => x <> []) chunks -> concat chunks = sr_wire r cuts body ->
  sr_f1_free body (negb (sr_is_nil (sr_lines r cuts))) chunks = true ->
  c03_obs cb g (OpOpen :: OpReqData (wr_request_wire rq) :: map OpResData chunks) =
  c03_obs cb g [OpOpen; OpReqData (wr_request_wire rq); OpResData (sr_wire r cuts body)].
Proof. rewrite c03_obs_is_sg_obs. exact sr_response_chunking_obs. Qed.
Print Assumptions C03_response_chunking.

(* ---- chunk-coded request bodies: any size lines of SBody's format (zero-padded / upper-case sizes, extensions, bare-LF line ends), trailer fields,
        header and trailer fields in any folding, EVERY chunking: the same reported transaction (all fields), and the length fields are the decoded data
        length and the wire length of the coded body as the code counts it ---- *)
Require Import Htp.Spec.SBody Htp.Proof.PSegChunked Htp.Proof.PSegChunkedGen Htp.Proof.PSegChunkedRun Htp.Proof.PSegChunkedThm.
Theorem C03_request_chunked_body_chunking : forall cb g r (ks : list bd_chunk) (last : bytes) (tr : list wr_field)
    (cuts1 tcuts1 : list (list bytes)) (chunks1 : list bytes) (cuts2 tcuts2 : list (list bytes)) (chunks2 : list bytes),
  wr_all_ok cb -> g_allow_space_uri g = false -> sg_chunked_ok g r = true ->
  sg_cuts_ok r cuts1 = true -> sg_fold_fits g r cuts1 = true -> sg_cfbody_ok g ks last tr tcuts1 = true ->
  Forall (fun x => x <> []) chunks1 -> concat chunks1 = sg_fold_wire r cuts1 ++ sg_cfbody_wire ks last tr tcuts1 ->
  sg_cuts_ok r cuts2 = true -> sg_fold_fits g r cuts2 = true -> sg_cfbody_ok g ks last tr tcuts2 = true ->
  Forall (fun x => x <> []) chunks2 -> concat chunks2 = sg_fold_wire r cuts2 ++ sg_cfbody_wire ks last tr tcuts2 ->
  c03_obs cb g (OpOpen :: map OpReqData chunks1) = c03_obs cb g (OpOpen :: map OpReqData chunks2).
Proof. rewrite c03_obs_is_sg_obs. exact sg_request_chunked_fold_trailer_chunking_obs. Qed.
Print Assumptions C03_request_chunked_body_chunking.
Theorem C03_request_chunked_body_lengths : forall cb g r (cuts : list (list bytes)) (ks : list bd_chunk) (last : bytes) (tr : list wr_field)
    (tcuts : list (list bytes)) (chunks : list bytes),
  wr_all_ok cb -> g_allow_space_uri g = false -> sg_chunked_ok g r = true -> sg_cuts_ok r cuts = true -> sg_fold_fits g r cuts = true ->
  sg_cfbody_ok g ks last tr tcuts = true ->
  Forall (fun x => x <> []) chunks -> concat chunks = sg_fold_wire r cuts ++ sg_cfbody_wire ks last tr tcuts ->
  exists t, c_txs (fst (cp_run cb g connp_new (OpOpen :: map OpReqData chunks))) = [Some t] /\
    t_request_entity_len t = Z.of_nat (length (bd_chunks_data ks)) /\
    t_request_message_len t = Z.of_nat (length (bd_chunks_wire ks) + length last) /\ t_request_progress t = c_HTP_REQUEST_COMPLETE.
Proof. exact sg_request_chunked_counted. Qed.
Print Assumptions C03_request_chunked_body_lengths.

(* ---- RESPONSE direction, the framings other than Content-Length. (R1) chunk-coded bodies: size lines in SBody's general format (extensions, leading zeros and
        blanks, upper-case hex, bare-LF line ends), last-chunk line, trailer fields in any folding; (R2) close-delimited bodies: no Content-Length, no
        Transfer-Encoding, the body ends with the stream (OpClose). EVERY chunking of the response gives the same reported transaction (all fields); the one
        premise beyond grammar and limits (sr_f1_free) excludes exactly the cuts on which the listed LF-CR finding F1 changes the parse. The chunk-length
        look-ahead (buffered ++ unconsumed bytes, /repo d2483dd) never fires on a well-formed size line, wherever the cut falls. ---- *)
Require Import Htp.Proof.PSegResReq Htp.Proof.PSegResChGen Htp.Proof.PSegResCh Htp.Proof.PSegResChRun Htp.Proof.PSegResChThm Htp.Proof.PSegResClose Htp.Proof.PSegResCloseThm.
Theorem C03_response_chunked_body_chunking : forall cb g rq r (cuts : list (list bytes)) (ks : list bd_chunk) (last : bytes) (tr : list wr_field)
    (tcuts : list (list bytes)) (chunks1 chunks2 : list bytes),
  wr_all_ok cb -> g_allow_space_uri g = false -> wr_request_ok rq = true ->
  sr_response_ok r = true -> sr_cuts_ok r cuts = true -> sr_framed_ch cb g rq r cuts = true -> sr_fits g r cuts = true ->
  sr_cfbody_ok g r ks last tr tcuts = true ->
  Forall (fun x => x <> []) chunks1 -> concat chunks1 = sr_wire r cuts (sr_cfbody_wire ks last tr tcuts) ->
  sr_f1_free (sr_cfbody_wire ks last tr tcuts) (negb (sr_is_nil (sr_lines r cuts))) chunks1 = true ->
  Forall (fun x => x <> []) chunks2 -> concat chunks2 = sr_wire r cuts (sr_cfbody_wire ks last tr tcuts) ->
  sr_f1_free (sr_cfbody_wire ks last tr tcuts) (negb (sr_is_nil (sr_lines r cuts))) chunks2 = true ->
  c03_obs cb g (OpOpen :: OpReqData (wr_request_wire rq) :: map OpResData chunks1) =
  c03_obs cb g (OpOpen :: OpReqData (wr_request_wire rq) :: map OpResData chunks2).
Proof. rewrite c03_obs_is_sg_obs. exact sr_response_chunked_two_chunkings. Qed.
Print Assumptions C03_response_chunked_body_chunking.
Theorem C03_response_chunked_body_lengths : forall cb g rq r (cuts : list (list bytes)) (ks : list bd_chunk) (last : bytes) (tr : list wr_field)
    (tcuts : list (list bytes)) (chunks : list bytes),
  wr_all_ok cb -> g_allow_space_uri g = false -> wr_request_ok rq = true -> sg_fits g rq = true -> g_tx_auto_destroy g = false ->
  sr_response_ok r = true -> sr_cuts_ok r cuts = true -> sr_framed_ch cb g rq r cuts = true -> sr_fits g r cuts = true ->
  sr_cfbody_ok g r ks last tr tcuts = true ->
  Forall (fun x => x <> []) chunks -> concat chunks = sr_wire r cuts (sr_cfbody_wire ks last tr tcuts) ->
  sr_f1_free (sr_cfbody_wire ks last tr tcuts) (negb (sr_is_nil (sr_lines r cuts))) chunks = true ->
  exists t, c_txs (fst (cp_run cb g connp_new (OpOpen :: OpReqData (wr_request_wire rq) :: map OpResData chunks))) = [Some t] /\
    t_response_entity_len t = Z.of_nat (length (bd_chunks_data ks)) /\
    t_response_message_len t = Z.of_nat (length (bd_chunks_wire ks) + length last) /\
    t_response_progress t = c_HTP_RESPONSE_COMPLETE /\
    t_response_headers t = t_response_headers (sr_lrun (sr_trailer_lines tr tcuts) (None, sr_tend (sr_treq cb g rq) r cuts)).
Proof. exact sr_response_chunked_counted. Qed.
Print Assumptions C03_response_chunked_body_lengths.
Theorem C03_response_close_delimited_chunking : forall cb g rq r (cuts : list (list bytes)) (body : bytes) (chunks1 chunks2 : list bytes),
  wr_all_ok cb -> g_allow_space_uri g = false -> wr_request_ok rq = true ->
  sr_response_ok r = true -> sr_cuts_ok r cuts = true -> sr_framed_close cb g rq r cuts = true -> sr_fits g r cuts = true ->
  Forall (fun x => x <> []) chunks1 -> concat chunks1 = sr_wire r cuts body -> sr_f1_free body (negb (sr_is_nil (sr_lines r cuts))) chunks1 = true ->
  Forall (fun x => x <> []) chunks2 -> concat chunks2 = sr_wire r cuts body -> sr_f1_free body (negb (sr_is_nil (sr_lines r cuts))) chunks2 = true ->
  c03_obs cb g (OpOpen :: OpReqData (wr_request_wire rq) :: map OpResData chunks1 ++ [OpClose]) =
  c03_obs cb g (OpOpen :: OpReqData (wr_request_wire rq) :: map OpResData chunks2 ++ [OpClose]).
Proof. rewrite c03_obs_is_sg_obs. exact sr_response_close_two_chunkings. Qed.
Print Assumptions C03_response_close_delimited_chunking.
Theorem C03_response_close_delimited_lengths : forall cb g rq r (cuts : list (list bytes)) (body : bytes) (chunks : list bytes),
  wr_all_ok cb -> g_allow_space_uri g = false -> wr_request_ok rq = true -> sg_fits g rq = true -> g_tx_auto_destroy g = false ->
  sr_response_ok r = true -> sr_cuts_ok r cuts = true -> sr_framed_close cb g rq r cuts = true -> sr_fits g r cuts = true ->
  Forall (fun x => x <> []) chunks -> concat chunks = sr_wire r cuts body ->
  sr_f1_free body (negb (sr_is_nil (sr_lines r cuts))) chunks = true ->
  exists t, c_txs (fst (cp_run cb g connp_new (OpOpen :: OpReqData (wr_request_wire rq) :: map OpResData chunks ++ [OpClose]))) = [Some t] /\
    t_response_entity_len t = Z.of_nat (length body) /\ t_response_message_len t = Z.of_nat (length body) /\
    t_response_progress t = c_HTP_RESPONSE_COMPLETE.
Proof. exact sr_response_close_counted. Qed.
Print Assumptions C03_response_close_delimited_lengths.

(* ---- RESPONSE direction, answers without a body and interim responses: EVERY chunking of request and response gives the same transaction list (full equality
        with a reference transaction that does not depend on the chunking) ---- *)
Require Import Htp.Model.Base Htp.Model.MBstr Htp.Model.MConnTypes Htp.Model.MTxCommon Htp.Model.MResLine Htp.Model.MTxRes.
Require Import Htp.Model.MReq Htp.Model.MRes Htp.Model.MConnp.
Require Import Htp.Spec.SWire Htp.Proof.PWire Htp.Proof.PWireHdr Htp.Proof.PWireBlock Htp.Proof.PWireConn Htp.Proof.PWireExch.
Require Import Htp.Proof.PWireRun Htp.Proof.PWirePres Htp.Proof.PWireGlue Htp.Proof.PSeg Htp.Proof.PSegLine Htp.Proof.PSegHdr Htp.Proof.PSegGen Htp.Proof.PSegRun.
Require Import Htp.Proof.PSegFold Htp.Proof.PSegPipe Htp.Proof.PSegRes Htp.Proof.PSegResLine Htp.Proof.PSegResHdr Htp.Proof.PSegResGen Htp.Proof.PSegResRun Htp.Proof.PSegResReq Htp.Proof.PSegResThm Htp.Proof.PSegResCanon.
Require Import Htp.Proof.PPair Htp.Proof.PPairLine Htp.Proof.PPairHdr Htp.Proof.PPairRun Htp.Proof.PPairOne Htp.Proof.PPairFin Htp.Proof.PPairA Htp.Proof.PPairReq Htp.Proof.PPairB Htp.Proof.PPairThm Htp.Proof.PPairThmB.
Require Import Htp.Proof.PSegResNb Htp.Proof.PSegResNbThm Htp.Proof.PSegRes100.
Require Import Htp.Proof.PSegRes100Thm.
Theorem C03_no_body_answer_chunking : forall cb g x1 (qchunks schunks : list bytes),
  wr_all_ok cb -> g_allow_space_uri g = false -> (g_max_tx g = 0 \/ 2 < g_max_tx g)%nat -> nb_xc_ok g x1 = true ->
  Forall (fun c => c <> []) qchunks -> concat qchunks = wr_request_wire (xq x1) ->
  Forall (fun c => c <> []) schunks -> concat schunks = nb_xwire x1 ->
  exists k1 fl1, c_txs (fst (cp_run cb g connp_new (OpOpen :: map OpReqData qchunks ++ map OpResData schunks))) = [pr_slot g (nb_tfin (nb_ex_of g k1 fl1 x1))].
Proof. exact nb_response_chunking. Qed.
Theorem C03_interim_100_chunking : forall cb g rq (sts : list i_stage) rF cutsF bodyF (qchunks schunks : list bytes),
  wr_all_ok cb -> g_allow_space_uri g = false -> (g_max_tx g = 0 \/ 1 < g_max_tx g)%nat -> sg_req_ok g rq = true ->
  i100_premise g rq sts rF cutsF bodyF ->
  Forall (fun c => c <> []) qchunks -> concat qchunks = wr_request_wire rq ->
  Forall (fun c => c <> []) schunks -> concat schunks = is_wires sts ++ sr_wire rF cutsF bodyF ->
  pp_f1_free [mk_pp_xc rq rF cutsF bodyF] schunks = true ->
  exists k fl, c_txs (fst (cp_run cb g connp_new (OpOpen :: map OpReqData qchunks ++ map OpResData schunks))) =
               [pr_slot g (i100_tfin (sg_tfin_r g k rq fl) sts rF cutsF bodyF)].
Proof. exact i100_chunking. Qed.
Print Assumptions C03_no_body_answer_chunking.
Print Assumptions C03_interim_100_chunking.
