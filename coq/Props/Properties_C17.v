(* C17 -- containers and string/number primitives behave as their abstract types.
   This file contains only statements closed by `exact`, and their assumptions. *)
Require Import Htp.Model.Base Htp.Model.MList Htp.Proof.PList.

(* the list is a double-ended sequence: every operation sequence, every initial capacity *)
Theorem C17_list_refines_deque :
  forall (A : Type) (dflt : A) (n : nat) (ops : list (lop A)),
    0 < n -> observe A (lstep A dflt) (create A dflt n) ops = observe A (dstep A) [] ops.
Proof. exact list_refines_deque. Qed.
Print Assumptions C17_list_refines_deque.

(* ... and no checked array access of the ring buffer is ever out of range *)
Theorem C17_list_never_faults :
  forall (A : Type) (dflt : A) (n : nat) (ops : list (lop A)),
    0 < n -> ~ In RFault (observe A (lstep A dflt) (create A dflt n) ops).
Proof. exact list_never_faults. Qed.
Print Assumptions C17_list_never_faults.

(* non-vacuity: a wrapped, grown ring *)
Example C17_list_example :
  observe nat (lstep nat 0) (create nat 0 2) [Push 1; Push 2; Shift; Push 3; Push 4; Get 0; Get 2; Pop; Size]
  = [RSize 2; RVal (Some 4); RVal (Some 4); RVal (Some 2); ROk; ROk; RVal (Some 1); ROk; ROk].
Proof. vm_compute. reflexivity. Qed.
