(* C17 -- containers and string/number primitives behave as their abstract types.
   This file contains only statements closed by `exact`, and their assumptions. *)
Require Import Htp.Model.Base Htp.Model.MList Htp.Proof.PList.

(* the list is a double-ended sequence: every operation sequence, every initial capacity *)
Theorem C17_list_refines_deque :
  forall (A : Type) (dflt : A) (n : nat) (ops : list (lop A)),
    0 < n -> observe A (lstep A dflt) (create A dflt n) ops = observe A (dstep A) [] ops.
Proof. exact list_refines_deque. Qed.
Print Assumptions C17_list_refines_deque.

(* ... and no checked array access of the ring buffer is ever out of range *)
Theorem C17_list_never_faults :
  forall (A : Type) (dflt : A) (n : nat) (ops : list (lop A)),
    0 < n -> ~ In RFault (observe A (lstep A dflt) (create A dflt n) ops).
Proof. exact list_never_faults. Qed.
Print Assumptions C17_list_never_faults.

(* non-vacuity: a wrapped, grown ring *)
Example C17_list_example :
  observe nat (lstep nat 0) (create nat 0 2) [Push 1; Push 2; Shift; Push 3; Push 4; Get 0; Get 2; Pop; Size]
  = [RSize 2; RVal (Some 4); RVal (Some 4); RVal (Some 2); ROk; ROk; RVal (Some 1); ROk; ROk].
Proof. vm_compute. reflexivity. Qed.

(* ---- the table is an insertion-ordered multimap; lookups are case-insensitive, first match ---- *)
Require Import Htp.Model.MBstr Htp.Model.MTable Htp.Proof.PBstr Htp.Proof.PTable.

Theorem C17_table_refines_multimap :
  forall ops, forallb valid_op ops = true -> tobserve tstep tcreate ops = tobserve mstep (mkmm 0 []) ops.
Proof. exact table_refines_multimap. Qed.
Print Assumptions C17_table_refines_multimap.

Example C17_table_example :
  tobserve tstep tcreate [TAdd 1 [72; 111]%N 5; TAdd 1 [104; 79]%N 6; TGet [72; 79]%N; TGetC [104; 111]%N; TAdd 2 [65]%N 7; TGetIndex 1; TSize]
  = [TSz 2; TKeyVal (Some [104; 79]%N) (Some 6); TError; TVal (Some 5); TVal (Some 5); TOk; TOk].
Proof. vm_compute. reflexivity. Qed.

(* ---- byte-string primitives ---- *)
Local Open Scope Z_scope.
Theorem C17_cmp_mem_eq : forall a b, cmp_mem a b = 0 <-> a = b.
Proof. exact cmp_mem_eq. Qed.
Theorem C17_cmp_mem_lt : forall a b, cmp_mem a b = -1 <-> lex_lt a b.
Proof. exact cmp_mem_lt. Qed.
Theorem C17_cmp_mem_range : forall a b, cmp_mem a b = 0 \/ cmp_mem a b = -1 \/ cmp_mem a b = 1.
Proof. exact cmp_mem_range. Qed.
Theorem C17_cmp_mem_antisym : forall a b, cmp_mem b a = - cmp_mem a b.
Proof. exact cmp_mem_antisym. Qed.
Theorem C17_cmp_nocase : forall a b, cmp_mem_nocase a b = cmp_mem (map c_tolower a) (map c_tolower b).
Proof. exact cmp_mem_nocase_spec. Qed.
Theorem C17_cmp_nocasenorzero : forall a b, cmp_mem_nocasenorzero a b = cmp_mem_nocase (PBstr.nonzero a) b.
Proof. exact cmp_mem_nocasenorzero_spec. Qed.
Theorem C17_index_of_mem : forall h n,
  (index_of_mem h n = -1 /\ forall j, (j < length h)%nat -> ~ is_prefix n (skipn j h)) \/
  (exists i, (i < length h)%nat /\ index_of_mem h n = Z.of_nat i /\ is_prefix n (skipn i h) /\
             forall j, (j < i)%nat -> ~ is_prefix n (skipn j h)).
Proof. exact index_of_mem_spec. Qed.
Theorem C17_begins_with : forall h n, begins_with_mem h n = true <-> is_prefix n h.
Proof. exact begins_with_mem_spec. Qed.
Theorem C17_begins_with_nocase : forall h n,
  begins_with_mem_nocase h n = begins_with_mem (map c_tolower h) (map c_tolower n).
Proof. exact begins_with_mem_nocase_spec. Qed.
Theorem C17_chr : forall s c,
  (bstr_chr s c = -1 /\ ~ In c s) \/
  (exists i, bstr_chr s c = Z.of_nat i /\ nth_error s i = Some c /\ ~ In c (firstn i s)).
Proof. exact bstr_chr_spec. Qed.
Theorem C17_trim : forall s,
  exists l r, s = l ++ mem_trim s ++ r /\ forallb c_isspace l = true /\ forallb c_isspace r = true /\
    match mem_trim s with [] => True | x :: _ => c_isspace x = false end /\
    match rev (mem_trim s) with [] => True | x :: _ => c_isspace x = false end.
Proof. exact mem_trim_spec. Qed.
Theorem C17_add_noex : forall size d src, (length d <= size)%nat ->
  add_mem_noex size d src = d ++ firstn (size - length d) src /\ (length (add_mem_noex size d src) <= size)%nat.
Proof. exact add_mem_noex_spec. Qed.

(* ---- numbers: the mathematical value, or an error code; never a wrapped value ---- *)
Theorem C17_to_pint : forall s base, 2 <= base <= 36 -> s <> [] ->
  fst (mem_to_pint s base) =
    match digits base s with
    | [] => -1
    | ds => if value base ds <=? 2 ^ 63 - 1 then value base ds else -2
    end.
Proof. exact to_pint_spec. Qed.
Print Assumptions C17_to_pint.
Theorem C17_status_range : forall s, parse_status s = c_HTP_STATUS_INVALID \/ 100 <= parse_status s <= 999.
Proof. exact parse_status_range. Qed.
Theorem C17_chunk_length_range : forall s, fst (parse_chunked_length s) <= 2 ^ 31 - 1.
Proof. exact parse_chunked_length_range. Qed.
Example C17_to_pint_example :
  fst (mem_to_pint [57;50;50;51;51;55;50;48;51;54;56;53;52;55;55;53;56;48;55]%N 10) = 2 ^ 63 - 1 /\
  fst (mem_to_pint [57;50;50;51;51;55;50;48;51;54;56;53;52;55;55;53;56;48;56]%N 10) = -2.
Proof. split; vm_compute; reflexivity. Qed.
