(* C05 -- transaction lifecycle: callbacks follow the protocol, completion happens once.
   Only statements closed by `exact`, their assumptions, and examples. lc_step / lc_accepts (Spec/SConnp.v) is the
   per-transaction monitor automaton; it is extracted and run on the implementation's callback log. *)
Require Import Htp.Model.MConnTypes Htp.Model.MTxCommon Htp.Model.MConnp Htp.Spec.SConnp Htp.Proof.PConnp Htp.Proof.PLifecycle.

(* the full statement: every history of every transaction is accepted by the monitor *)
Definition C05_lifecycle_full : Prop := forall cb g ops, chk_C05 (obs_run cb g connp_new ops) = true.

(* ---- what acceptance by the monitor means (soundness of the oracle) ---- *)
(* progress indicators never move backwards, except RESPONSE_LINE again after an interim (100) response *)
Theorem C05_request_progress_monotone : forall s h s', lc_step s h = Some s' -> lc_rq s <= lc_rq s'.
Proof. exact lc_step_rq_mono. Qed.
Theorem C05_response_progress_monotone : forall s h s', lc_step s h = Some s' -> h <> 11 -> lc_rs s <= lc_rs s'.
Proof. exact lc_step_rs_mono. Qed.
(* request-complete, response-complete: at most once; transaction-complete: only when both sides are complete, and last *)
Theorem C05_request_complete_once : forall tr1 tr2, lc_accepts lc0 (tr1 ++ 9 :: tr2) = true -> ~ In 9 tr2.
Proof. exact lc_request_complete_once. Qed.
Theorem C05_response_complete_once : forall tr1 tr2, lc_accepts lc0 (tr1 ++ 17 :: tr2) = true -> ~ In 17 tr2.
Proof. exact lc_response_complete_once. Qed.
Theorem C05_tx_complete_needs_both : forall s s', lc_step s 18 = Some s' -> lc_rq s = 6 /\ lc_rs s = 6 /\ lc_fin s' = true.
Proof. exact lc_tx_complete_needs_both. Qed.
Theorem C05_nothing_after_tx_complete : forall tr1 tr2 s, lc_accepts s (tr1 ++ 18 :: tr2) = true -> tr2 = [].
Proof. exact lc_nothing_after_tx_complete. Qed.
Print Assumptions C05_request_complete_once.
Print Assumptions C05_nothing_after_tx_complete.

(* ---- the completion mechanisms of the model ---- *)
(* TRANSACTION_COMPLETE comes from htp_tx_finalize only, which is silent unless both sides are complete *)
Theorem C05_finalize_only_when_complete : forall cb g i c t,
  tx_slot c i = Some t -> tx_is_complete t = false -> tx_finalize cb g i c = (ST_OK, c).
Proof. exact tx_finalize_incomplete_silent. Qed.
(* completing an already complete request runs no callback while the response is open *)
Theorem C05_request_complete_idempotent : forall cb g i c t,
  tx_slot c i = Some t -> t_request_progress t = c_HTP_REQUEST_COMPLETE -> tx_is_complete t = false ->
  c_events (snd (tx_state_request_complete cb g i c)) = c_events c.
Proof. exact request_complete_idempotent. Qed.
Print Assumptions C05_finalize_only_when_complete.

(* ---- refused CONNECT (former finding F4): fixed ---- *)
(* CONNECT, a 403 answer, then the next exchange: htp_tx_state_response_complete_ex used to return DATA_OTHER before the
   transaction was detached, and the response side finalised it again later (TRANSACTION_COMPLETE twice for transaction 0).
   The response is now wrapped up (finalize, detach) before DATA_OTHER is returned: the history is accepted *)
Definition c05_w_ops : list cp_op := [OpOpen;
   OpReqData [67;79;78;78;69;67;84;32;97;58;52;52;51;32;72;84;84;80;47;49;46;49;13;10;72;111;115;116;58;32;97;13;10;13;10;71;69;84;32;47;49;32;72;84;84;80;47;49;46;49;13;10;72;111;115;116;58;32;97;13;10;13;10]%N;
   OpResData [72;84;84;80;47;49;46;49;32;52;48;51;32;70;111;114;98;105;100;100;101;110;13;10;67;111;110;116;101;110;116;45;76;101;110;103;116;104;58;32;48;13;10;13;10]%N;
   OpReqData [71;69;84;32;47;49;32;72;84;84;80;47;49;46;49;13;10;72;111;115;116;58;32;97;13;10;13;10]%N;
   OpResData [72;84;84;80;47;49;46;49;32;50;48;48;32;79;75;13;10;67;111;110;116;101;110;116;45;76;101;110;103;116;104;58;32;48;13;10;13;10]%N;
   OpClose].
Definition c05_w_g : cfg := cp_make_cfg 1 (Z.to_nat 18000) 512 false false 0.
Example C05_F4_fixed : chk_C05 (obs_run (fun _ _ => CB_OK) c05_w_g connp_new c05_w_ops) = true.
Proof. vm_compute. reflexivity. Qed.

(* ---- the full statement is false of the code: response-line-after-body (known finding) ---- *)
(* GET, then a response whose first line is not a status line ("junk-line", taken as a body without headers), more body,
   then a valid status line in the same data: RESPONSE_LINE (11) again for transaction 0 whose response progress is
   already BODY (4) *)
Definition c05_w2_ops : list cp_op := [OpOpen;
   OpReqData [71;69;84;32;47;49;32;72;84;84;80;47;49;46;49;13;10;72;111;115;116;58;32;97;13;10;13;10]%N;
   OpResData [106;117;110;107;45;108;105;110;101;13;10;120;120;45;109;111;114;101;13;10;72;84;84;80;47;49;46;49;32;52;48;55;32;80;114;111;120;121;13;10;67;111;110;116;101;110;116;45;76;101;110;103;116;104;58;32;48;13;10;13;10]%N;
   OpClose].
Theorem C05_lifecycle_full_refuted : ~ C05_lifecycle_full.
Proof. intros H. specialize (H (fun _ _ => CB_OK) c05_w_g c05_w2_ops). vm_compute in H. discriminate. Qed.
Print Assumptions C05_lifecycle_full_refuted.
Example C05_line_after_body_reject : C05_rejects (obs_run (fun _ _ => CB_OK) c05_w_g connp_new c05_w2_ops) = [(0%nat, (11%nat, mklc 6 4 false))].
Proof. vm_compute. reflexivity. Qed.

(* non-vacuity: a complete exchange is accepted *)
Example C05_example :
  chk_C05 (obs_run (fun _ _ => CB_OK) c05_w_g connp_new
            [OpOpen; OpReqData [71;69;84;32;47;32;72;84;84;80;47;49;46;49;13;10;13;10]%N;
             OpResData [72;84;84;80;47;49;46;49;32;50;48;48;32;79;75;13;10;67;111;110;116;101;110;116;45;76;101;110;103;116;104;58;32;49;13;10;13;10;120]%N; OpClose]) = true.
Proof. vm_compute. reflexivity. Qed.

(* ---- THE HISTORY-LEVEL THEOREM: for EVERY callback oracle (OK / DECLINED / STOP / ERROR / hook registration / destroy), every configuration and every
        operation list on which the computable premise run_lcb (Spec/SLife.v; extracted and evaluated on every generated history by ./check C05) holds,
        the monitor accepts the callback log of every transaction. run_lcb is a conjunction over the operations of conditions on the state BEFORE the
        operation, and excludes exactly the situations of the three listed findings:
          P1  no close while a direction is in STOP (finding 2: close revives STOP and the dangling request / response is finalised again);
          G4/G6  a data call of one direction does not turn the OTHER direction's status from STOP/ERROR into a live value (tunnel set-up, un-parking);
          G1  RES_IDLE is entered with data only when the request it answers exists (findings 2 and 4: unmatched response);
          G3  RES_LINE is not entered once a first line has already been handed out as body data (finding 3);
          G5  no response state function returns with the model's fault flag set (a callback destroyed the transaction under an armed receiver: C01 finding).
        There is no clause about CONNECT any more: the yield defect F4 is repaired (/repo 6d6bb7e). ---- *)
Require Import Htp.Spec.SLife Htp.Proof.PLifeRun.
Theorem C05_lifecycle : forall cb g ops, run_lcb cb g connp_new ops = true -> chk_C05 (obs_run cb g connp_new ops) = true.
Proof. exact lc_run_accepted. Qed.
Print Assumptions C05_lifecycle.
