(* C11 -- framing and host ambiguities are always flagged (anti-smuggling indicators).
   This file contains only statements closed by `exact`, their assumptions, and examples.
   Spec: Htp.Spec.SFraming (declarative decision table + the extracted checkers). Model: MReqLine (header parser, header
   table bookkeeping, htp_header_has_token, htp_validate_hostname), MTxReq (rq_te_cl, rq_host), MReqUri, MConnp. *)
Require Import Htp.Model.MConnTypes Htp.Model.MBstr Htp.Model.MUri Htp.Model.MReqLine Htp.Model.MTxReq Htp.Model.MReqUri Htp.Model.MConnp.
Require Import Htp.Spec.SFraming Htp.Proof.PFraming.
Local Open Scope Z_scope.

(* ---- (a) the token search: exactly "some comma-separated element, trimmed of htp_is_space, is the token" ---- *)
Theorem C11_has_token_spec :
  forall tok, fr_tok_ok tok = true -> forall v, htp_header_has_token v tok = true <-> fr_has_token v tok.
Proof. exact fr_has_token_spec. Qed.
Print Assumptions C11_has_token_spec.
Theorem C11_has_token_bool :
  forall tok, fr_tok_ok tok = true -> forall v, htp_header_has_token v tok = fr_has_tokenb v tok.
Proof. exact fr_has_token_bool. Qed.
Print Assumptions C11_has_token_bool.

(* ---- (b) the decision table. For EVERY transaction with an empty header table and EVERY list of header lines fed to
   htp_process_request_header_generic in order (repetition merging, the Content-Length special case and the
   HTP_MAX_HEADERS_REPETITIONS cap included), the T-E / C-L arbitration of htp_tx_process_request_headers produces exactly
   the coding of the table and ORs exactly the table's bits into the flags. ---- *)
Theorem C11_framing :
  forall lines t0,
    t_request_headers t0 = [] -> t_req_header_repetitions t0 = O ->
    let t := fr_process_all lines t0 in
    let v := fr_verdict (t_request_protocol_number t0) (fr_fields lines) in
    t_request_transfer_coding (rq_te_cl t) = fr_coding_num (frv_coding v) /\
    t_flags (rq_te_cl t) = N.lor (t_flags t) (fr_verdict_bits v).
Proof. exact fr_framing. Qed.
Print Assumptions C11_framing.

(* the header table is the merged view of the lines: each name once, first value with the later ones joined by ", "
   (Content-Length: the first value alone), REPEATED iff the name occurred more than once -- as checked on dumps *)
Theorem C11_table_view :
  forall lines t0, t_request_headers t0 = [] -> t_req_header_repetitions t0 = O ->
    fr_check_table (fr_fields lines) (map fr_hdr3 (t_request_headers (fr_process_all lines t0))) = true.
Proof. exact fr_check_table_holds. Qed.
Print Assumptions C11_table_view.

(* within the cap every field counts ... *)
Theorem C11_within_cap : forall hs, fr_within_cap hs = true -> fr_kept hs = hs.
Proof. exact fr_kept_within_cap. Qed.
Print Assumptions C11_within_cap.
(* ... and the verdict is a function of the Transfer-Encoding and Content-Length values alone: *)
Theorem C11_verdict_values :
  forall proto hs hs', fr_within_cap hs = true -> fr_within_cap hs' = true ->
    fr_values fr_TE hs = fr_values fr_TE hs' -> fr_values fr_CL hs = fr_values fr_CL hs' ->
    fr_verdict proto hs = fr_verdict proto hs'.
Proof. exact fr_verdict_values. Qed.
Print Assumptions C11_verdict_values.
(* independent of the order of fields with different names, *)
Theorem C11_order_invariance :
  forall k l1 a b l2, fr_eq_nocase (fst a) (fst b) = false -> fr_values k (l1 ++ a :: b :: l2) = fr_values k (l1 ++ b :: a :: l2).
Proof. exact fr_values_swap. Qed.
Print Assumptions C11_order_invariance.
(* of the letter case of the names, *)
Theorem C11_case_invariance :
  forall k (g : bytes -> bytes) hs, (forall n, fr_eq_nocase (g n) n = true) ->
    fr_values k (map (fun f => (g (fst f), snd f)) hs) = fr_values k hs.
Proof. exact fr_values_recase. Qed.
Print Assumptions C11_case_invariance.

(* and of the optional whitespace around the value / before the colon and of the line terminator: the header parser delivers
   (name, value) for every spelling  name LWS* ":" LWS* value LWS* (CRLF | LF | nothing) *)
Theorem C11_lws_invariance :
  forall name value pre ows1 ows2 eol,
    name <> [] -> forallb htp_is_token name = true -> fr_value_ok value ->
    forallb htp_is_lws pre = true -> forallb htp_is_lws ows1 = true -> forallb htp_is_lws ows2 = true -> fr_is_eol eol = true ->
    fr_field_of_line (name ++ pre ++ [58%N] ++ ows1 ++ value ++ ows2 ++ eol) = (name, value).
Proof. exact fr_header_roundtrip. Qed.
Print Assumptions C11_lws_invariance.

(* the extracted oracle accepts every run of the model (it is then run on the implementation's dump) *)
Theorem C11_checker_holds :
  forall lines t0, t_request_headers t0 = [] -> t_req_header_repetitions t0 = O -> fr_clean (t_flags t0) ->
    let t' := rq_te_cl (fr_process_all lines t0) in
    fr_check (t_request_protocol_number t0) (fr_fields lines) (t_flags t') (t_request_transfer_coding t') = true.
Proof. exact fr_check_holds. Qed.
Print Assumptions C11_checker_holds.

(* ---- (c) the property text's reading: every trigger is marked SMUGGLING ---- *)
Definition C11_smuggling_full : Prop := fr_smuggling_full.
Theorem C11_smuggling_full_refuted : ~ C11_smuggling_full.
Proof. exact fr_smuggling_full_refuted. Qed.
Print Assumptions C11_smuggling_full_refuted.
(* proved inside the domain fr_text_premise (within the cap; no folded Content-Length; not [several Content-Length fields
   next to a Transfer-Encoding without the chunked token]): triggers => SMUGGLING, invalid framing => REQUEST_INVALID,
   chunked token => chunked coding *)
Theorem C11_smuggling_partial :
  forall lines t0 cl_folded,
    t_request_headers t0 = [] -> t_req_header_repetitions t0 = O -> fr_clean (t_flags t0) ->
    fr_text_premise (fr_fields lines) cl_folded = true ->
    let t' := rq_te_cl (fr_process_all lines t0) in
    fr_check_text (t_request_protocol_number t0) (fr_fields lines) cl_folded (t_flags t') (t_request_transfer_coding t') = true.
Proof. exact fr_text_holds. Qed.
Print Assumptions C11_smuggling_partial.
Theorem C11_text_from_table :
  forall proto hs cl_folded flags coding,
    fr_text_premise hs cl_folded = true -> fr_check proto hs flags coding = true -> fr_check_text proto hs cl_folded flags coding = true.
Proof. exact fr_text_partial. Qed.
Print Assumptions C11_text_from_table.
(* HTP_FIELD_FOLDED is tested by the arbitration but no header ever carries it *)
Theorem C11_folded_never_set :
  forall lines t0, t_request_headers t0 = [] -> t_req_header_repetitions t0 = O ->
    Forall (fun h => flag_has (h_flags h) c_HTP_FIELD_FOLDED = false) (t_request_headers (fr_process_all lines t0)).
Proof. exact fr_never_folded. Qed.
Print Assumptions C11_folded_never_set.
Theorem C11_parser_never_folded :
  forall line, flag_has (h_flags (fst (htp_parse_request_header_generic line))) c_HTP_FIELD_FOLDED = false.
Proof. exact fr_parser_never_folded. Qed.
Print Assumptions C11_parser_never_folded.
(* the folded Content-Length through the whole connection parser: framed as identity/5, no indicator at all, same flags as unfolded *)
Theorem C11_folded_cl_refuted :
  let t := fr_run_request fr_w_folded_request in
  map (fun h => (h_name h, h_value h)) (t_request_headers t) = [([72;111;115;116]%N, [97%N]); ([67;111;110;116;101;110;116;45;76;101;110;103;116;104]%N, [53%N])] /\
  t_request_transfer_coding t = c_HTP_CODING_IDENTITY /\ t_request_content_length t = 5 /\ t_request_entity_len t = 5 /\
  flag_has (t_flags t) c_HTP_REQUEST_SMUGGLING = false /\ t_flags t = 0%N /\
  fr_smuggling_trigger (t_request_protocol_number t) (map (fun h => (h_name h, h_value h)) (t_request_headers t)) true = true /\
  t_flags (fr_run_request fr_w_unfolded_request) = t_flags t.
Proof. exact fr_w_folded_facts. Qed.
Print Assumptions C11_folded_cl_refuted.
(* several Content-Length fields next to an unsupported Transfer-Encoding: INVALID, not SMUGGLING *)
Theorem C11_cl_dup_te_unsupported_refuted :
  t_request_headers fr_tx0 = [] /\ t_req_header_repetitions fr_tx0 = O /\
  fr_within_cap (fr_fields fr_w_dup_cl_lines) = true /\
  fr_smuggling_trigger (t_request_protocol_number fr_tx0) (fr_fields fr_w_dup_cl_lines) false = true /\
  fr_text_premise (fr_fields fr_w_dup_cl_lines) false = false /\
  flag_has (t_flags (rq_te_cl (fr_process_all fr_w_dup_cl_lines fr_tx0))) c_HTP_REQUEST_SMUGGLING = false /\
  flag_has (t_flags (rq_te_cl (fr_process_all fr_w_dup_cl_lines fr_tx0))) c_HTP_REQUEST_INVALID = true /\
  t_request_transfer_coding (rq_te_cl (fr_process_all fr_w_dup_cl_lines fr_tx0)) = c_HTP_CODING_INVALID.
Proof. exact fr_w_dup_cl_facts. Qed.
Print Assumptions C11_cl_dup_te_unsupported_refuted.

(* ---- (d) hosts ---- *)
(* htp_validate_hostname is the declarative syntax: 1..255 bytes; labels of 1..63 bytes from [A-Za-z0-9_-] separated by
   single dots, one trailing dot allowed; or '[' + an inet_pton(AF_INET6) text shorter than INET6_ADDRSTRLEN + one byte *)
Theorem C11_validate_hostname : forall h, htp_validate_hostname h = fr_valid_hostnameb h.
Proof. exact fr_validate_hostname_spec. Qed.
Print Assumptions C11_validate_hostname.
(* host determination ORs exactly the bits of the declarative verdict: HOST_MISSING iff no Host field and protocol >= 1.1;
   HOST_AMBIGUOUS iff the target names a host and the Host field has no usable host, or one that differs (nocase), or both
   ports are known and differ; HOSTH_INVALID iff the Host field is malformed or its host is not a valid hostname *)
Theorem C11_host_flags :
  forall nu lines t0,
    t_request_headers t0 = [] -> t_req_header_repetitions t0 = O -> t_request_hostname t0 = None ->
    let t1 := rq_te_cl (fr_process_all lines t0) in
    t_flags (rq_host nu t1) =
    N.lor (t_flags t1) (fr_host_bits (fr_host_verdict (t_request_protocol_number t0) (u_host nu) (u_port_number nu)
                                                      (fr_host_value (fr_fields lines)))).
Proof. exact fr_host_flags_lines. Qed.
Print Assumptions C11_host_flags.
Theorem C11_host_flags_table :
  forall nu t hosth,
    t_request_hostname t = None -> option_map h_value (rq_hdr_get_c (t_request_headers t) rq_str_host) = hosth ->
    t_flags (rq_host nu t) =
    N.lor (t_flags t) (fr_host_bits (fr_host_verdict (t_request_protocol_number t) (u_host nu) (u_port_number nu) hosth)).
Proof. exact fr_host_flags. Qed.
Print Assumptions C11_host_flags_table.
(* the request target: after the URI stage of htp_tx_state_request_line an invalid host carries HOSTU_INVALID *)
Theorem C11_hostu_invalid :
  forall g is_connect uri t t', rq_uri_pipeline_opt g is_connect uri t = Some t' ->
    exists nu, t_parsed_uri t' = Some nu /\
      (forall h, u_host nu = Some h -> fr_valid_hostnameb h = false -> flag_has (t_flags t') c_HTP_HOSTU_INVALID = true).
Proof. exact fr_hostu_invalid. Qed.
Print Assumptions C11_hostu_invalid.
Theorem C11_host_checker_holds :
  forall nu lines t0,
    t_request_headers t0 = [] -> t_req_header_repetitions t0 = O -> t_request_hostname t0 = None -> fr_clean (t_flags t0) ->
    (forall uh, u_host nu = Some uh -> fr_valid_hostnameb uh = false -> fr_has (t_flags t0) c_HTP_HOSTU_INVALID = true) ->
    let t2 := rq_host nu (rq_te_cl (fr_process_all lines t0)) in
    fr_check_host (t_request_protocol_number t0) (u_host nu) (u_port_number nu) (fr_fields lines) (t_flags t2) = true.
Proof. exact fr_check_host_holds. Qed.
Print Assumptions C11_host_checker_holds.

(* the text's reading of "syntactically invalid host" (a bracketed host must end with ']') -- refuted for the request target *)
Definition C11_invalid_host_full : Prop :=
  forall req, let t := fr_run_request req in
    match t_parsed_uri t with
    | Some nu => fr_check_host_text (u_host nu) (t_flags t) = true
    | None => True
    end.
Theorem C11_invalid_host_refuted :
  let t := fr_run_request fr_w_bracket_request in
  option_map u_host (t_parsed_uri t) = Some (Some [91;58;58;49;120]%N) /\
  flag_has (t_flags t) c_HTP_HOSTU_INVALID = false /\
  fr_valid_hostname_strict [91;58;58;49;120]%N = false /\ htp_validate_hostname [91;58;58;49;120]%N = true /\
  fr_check_host_text (Some [91;58;58;49;120]%N) (t_flags t) = false.
Proof. exact fr_w_bracket_facts. Qed.
Print Assumptions C11_invalid_host_refuted.
Theorem C11_invalid_host_partial :
  forall proto uhost uport hs flags,
    fr_host_text_premise uhost = true -> fr_check_host proto uhost uport hs flags = true -> fr_check_host_text uhost flags = true.
Proof. exact fr_host_text_partial. Qed.
Print Assumptions C11_invalid_host_partial.
Example C11_host_text_premise_nonvacuous :
  fr_host_text_premise (Some [91;58;58;49;93]%N) = true /\ fr_host_text_premise (Some [97;46;46;98]%N) = true /\ fr_host_text_premise (Some [91;58;58;49;120]%N) = false.
Proof. vm_compute. repeat split; reflexivity. Qed.

(* ---- examples: non-vacuity of every premise, the quirks, the witnesses ---- *)
Example C11_tok_premise_nonvacuous : fr_tok_ok fr_CHUNKED = true.
Proof. reflexivity. Qed.
(* "chunked" " Chunked\t" "gzip ,\tCHUNKED , x" are found; "chunkedx" "xchunked" "chun ked" "chunked x" "chunked;q=1" "" are not *)
Example C11_has_token_examples :
  map (fun v => htp_header_has_token v fr_CHUNKED)
      [[99;104;117;110;107;101;100]%N; [32;67;104;117;110;107;101;100;9]%N; [103;122;105;112;32;44;9;67;72;85;78;75;69;68;32;44;32;120]%N; [99;104;117;110;107;101;100;120]%N; [120;99;104;117;110;107;101;100]%N; [99;104;117;110;32;107;101;100]%N; [99;104;117;110;107;101;100;32;120]%N; [99;104;117;110;107;101;100;59;113;61;49]%N; []]
  = [true; true; true; false; false; false; false; false; false].
Proof. vm_compute. reflexivity. Qed.
(* a fresh transaction satisfies the premises of the framing theorems *)
Example C11_fresh_tx_premises :
  t_request_headers (tx_new 0 0) = [] /\ t_req_header_repetitions (tx_new 0 0) = O /\ t_request_hostname (tx_new 0 0) = None /\
  fr_clean (t_flags (tx_new 0 0)).
Proof. vm_compute. repeat split; reflexivity. Qed.
Example C11_lws_premises_nonvacuous :
  forallb htp_is_token fr_TE = true /\ fr_value_ok fr_CHUNKED /\ fr_value_ok [] /\ forallb htp_is_lws [32; 9]%N = true /\
  fr_is_eol [13; 10]%N = true /\ fr_is_eol [10]%N = true.
Proof. vm_compute. repeat split; reflexivity. Qed.
(* the header parser strips the optional whitespace: five spellings of one field give the same (name, value) *)
Example C11_lws_examples :
  map fr_field_of_line [[84;114;97;110;115;102;101;114;45;69;110;99;111;100;105;110;103;58;32;99;104;117;110;107;101;100;13;10]%N; [84;114;97;110;115;102;101;114;45;69;110;99;111;100;105;110;103;58;99;104;117;110;107;101;100;10]%N; [84;114;97;110;115;102;101;114;45;69;110;99;111;100;105;110;103;58;9;32;99;104;117;110;107;101;100;32;9;13;10]%N; [84;114;97;110;115;102;101;114;45;69;110;99;111;100;105;110;103;32;58;32;32;99;104;117;110;107;101;100]%N; [84;114;97;110;115;102;101;114;45;69;110;99;111;100;105;110;103;58;32;99;104;117;110;107;101;100;32;32;13;10]%N] = repeat ([84;114;97;110;115;102;101;114;45;69;110;99;111;100;105;110;103]%N, fr_CHUNKED) 5.
Proof. vm_compute. reflexivity. Qed.
(* the decision table on the classic cases, HTTP/1.1 then HTTP/1.0 *)
Example C11_verdict_examples :
  let te := (fr_TE, fr_CHUNKED) in let cl := (fr_CL, [53%N]) in let gz := (fr_TE, [103;122;105;112]%N) in let bad := (fr_CL, [120%N]) in
  map (fun hs => fr_verdict c_HTP_PROTOCOL_1_1 hs) [[]; [cl]; [te]; [te; cl]; [cl; cl]; [gz]; [bad]; [cl; bad]] =
  [mk_frv FrNoBody false false false false; mk_frv FrIdentity false false false false; mk_frv FrChunked false false false false;
   mk_frv FrChunked true false false false; mk_frv FrIdentity true false false false; mk_frv FrInvalid false true false true;
   mk_frv FrInvalid false false true true; mk_frv FrIdentity true false false false] /\
  fr_verdict c_HTP_PROTOCOL_1_0 [te] = mk_frv FrChunked true true false false /\
  fr_verdict c_HTP_PROTOCOL_0_9 [te; cl] = mk_frv FrChunked true true false false.
Proof. vm_compute. repeat split; reflexivity. Qed.
(* the domain of the text's reading is not empty and contains triggers; the two witnesses are outside *)
Example C11_text_premise_nonvacuous :
  let hs := [(fr_CL, [53%N]); (fr_HOST, [97%N]); (fr_TE, fr_CHUNKED); (fr_CL, [54%N])] in
  fr_text_premise hs false = true /\ fr_within_cap hs = true /\ fr_smuggling_trigger c_HTP_PROTOCOL_1_1 hs false = true.
Proof. vm_compute. repeat split; reflexivity. Qed.
(* the cap is needed: 67 x "Transfer-Encoding: gzip" followed by "Transfer-Encoding: chunked" -- 66 fields are kept (two
   free occurrences + 64 excess), the chunked one is dropped, so the trigger of the text is not flagged *)
Example C11_cap_needed :
  fr_within_cap (fr_fields fr_w_cap_lines) = false /\
  fr_within_cap (fr_fields (firstn 66 fr_w_cap_lines)) = true /\ fr_within_cap (fr_fields (firstn 67 fr_w_cap_lines)) = false /\
  length (fr_kept (fr_fields fr_w_cap_lines)) = 66%nat /\
  fr_smuggling_trigger c_HTP_PROTOCOL_1_0 (fr_fields fr_w_cap_lines) false = true /\
  frv_smuggling (fr_verdict c_HTP_PROTOCOL_1_0 (fr_fields fr_w_cap_lines)) = false /\
  frv_coding (fr_verdict c_HTP_PROTOCOL_1_0 (fr_fields fr_w_cap_lines)) = FrInvalid.
Proof. exact fr_w_cap_facts. Qed.
Example C11_cap_is_64 : fr_cap = 64%nat.
Proof. reflexivity. Qed.
(* hostnames: valid "a" "Example.COM." "ex_ample-1.org" "[::1]" "[1:2::3]"; invalid "" "." "a..b" "a b" "[]" 64 x 'x';
   and the quirk: the LAST byte of a bracketed host is never looked at, so "[::1" (read as "::") and "[::1x" are accepted *)
Example C11_hostname_examples :
  map htp_validate_hostname [[97]%N; [69;120;97;109;112;108;101;46;67;79;77;46]%N; [101;120;95;97;109;112;108;101;45;49;46;111;114;103]%N; [91;58;58;49;93]%N; [91;49;58;50;58;58;51;93]%N; []; [46]%N; [97;46;46;98]%N; [97;32;98]%N; [91;58;58;49]%N; [91;93]%N; repeat 120%N 64; repeat 120%N 63; [91;58;58;49;120]%N] =
  [true; true; true; true; true; false; false; false; false; true; false; false; true; true].
Proof. vm_compute. reflexivity. Qed.
(* the host verdict: same host different case -> nothing; different host -> AMBIGUOUS; ports 80 vs 81 -> AMBIGUOUS; port only on
   one side -> nothing; no Host on 1.1 -> MISSING, on 1.0 -> nothing; "a b" -> HOSTH_INVALID (and AMBIGUOUS against a target host) *)
Example C11_host_verdict_examples :
  [fr_host_verdict 101 (Some [97%N]) (-1) (Some [65%N]); fr_host_verdict 101 (Some [97%N]) (-1) (Some [98%N]);
   fr_host_verdict 101 (Some [97%N]) 80 (Some [97;58;56;49]%N); fr_host_verdict 101 (Some [97%N]) 80 (Some [97%N]);
   fr_host_verdict 101 None (-1) None; fr_host_verdict 100 None (-1) None;
   fr_host_verdict 101 None (-1) (Some [97;32;98]%N); fr_host_verdict 101 (Some [97%N]) (-1) (Some [97;32;98]%N)] =
  [mk_frh false false false; mk_frh false true false; mk_frh false true false; mk_frh false false false;
   mk_frh true false false; mk_frh false false false; mk_frh false false true; mk_frh false true true].
Proof. vm_compute. reflexivity. Qed.

(* ==== HISTORY LEVEL (PFramingHist*.v): the indicators on the transaction the caller sees, however the request reaches the parser ====
   For EVERY request of the wire grammar -- well-formed request line, grammar fields with ANY combination of Content-Length / Transfer-Encoding / Host fields,
   CONNECT included, no repetition-cap premise --, every folding of the field values and EVERY non-empty chunking of the header part (request line, fields, empty
   line), callbacks answering OK: exactly one transaction, and each of SMUGGLING, INVALID_T_E, INVALID_C_L, REQUEST_INVALID, HOST_MISSING, HOST_AMBIGUOUS,
   HOSTH_INVALID is set on it EXACTLY when the table-level decision (fr_verdict / fr_host_verdict of the theorems above) says so; the transfer coding is the
   table's; the three extracted checkers accept. The request-line stage never raises any of these bits. With an identity or chunked body following, the
   same holds at REQUEST_COMPLETE in every chunking of the whole request. No chunking or folding changes an indicator. *)
Require Import Htp.Model.Base Htp.Model.MBstr Htp.Model.MUri Htp.Model.MPath Htp.Model.MUrlenc Htp.Model.MConnTypes Htp.Model.MTxCommon Htp.Model.MReqLine Htp.Model.MReqUri Htp.Model.MTxReq.
Require Import Htp.Model.MReq Htp.Model.MRes Htp.Model.MConnp.
Require Import Htp.Spec.SWire Htp.Spec.SBody Htp.Spec.SFraming Htp.Proof.PWire Htp.Proof.PWireHdr Htp.Proof.PWireBlock Htp.Proof.PWireConn Htp.Proof.PWireExch.
Require Import Htp.Proof.PWireRun Htp.Proof.PWirePres Htp.Proof.PWireGlue Htp.Proof.PSeg Htp.Proof.PSegLine Htp.Proof.PSegHdr Htp.Proof.PSegGen Htp.Proof.PSegRun.
Require Import Htp.Proof.PSegFold Htp.Proof.PSegPipe Htp.Proof.PBody Htp.Proof.PBodyReq Htp.Proof.PSegBody Htp.Proof.PSegChunked Htp.Proof.PSegChunkedGen Htp.Proof.PSegChunkedRun.
Require Import Htp.Proof.PFraming Htp.Proof.PFramingHist Htp.Proof.PFramingHistLine.
Require Import Htp.Proof.PFramingHistThm.
Theorem C11_indicators_any_chunking : forall cb g r (cuts : list (list bytes)) (chunks : list bytes),
  wr_all_ok cb -> g_allow_space_uri g = false -> fh_req_ok r = true -> sg_cuts_ok r cuts = true -> sg_fold_fits g r cuts = true ->
  Forall (fun x => x <> []) chunks -> concat chunks = sg_fold_wire r cuts ->
  exists t nu, c_txs (fst (cp_run cb g connp_new (OpOpen :: map OpReqData chunks))) = [Some t] /\ t_parsed_uri t = Some nu /\
    fh_ind_of (t_flags t) = fh_ind_tables (fh_verdict r) (fr_host_verdict (fh_proto r) (u_host nu) (u_port_number nu) (fr_host_value (fh_fields_of r))) /\
    t_request_transfer_coding t = fr_coding_num (frv_coding (fh_verdict r)) /\
    fr_check (fh_proto r) (fh_fields_of r) (t_flags t) (t_request_transfer_coding t) = true /\
    fr_check_host (fh_proto r) (u_host nu) (u_port_number nu) (fh_fields_of r) (t_flags t) = true /\
    fr_check_table (fh_fields_of r) (map fr_hdr3 (t_request_headers t)) = true.
Proof. exact fh_request_indicators. Qed.
Print Assumptions C11_indicators_any_chunking.
Theorem C11_indicators_with_identity_body : forall cb g r (cuts : list (list bytes)) (body : bytes) (chunks : list bytes),
  wr_all_ok cb -> g_allow_space_uri g = false -> sg_body_ok g r body = true -> sg_cuts_ok r cuts = true -> sg_fold_fits g r cuts = true ->
  Forall (fun x => x <> []) chunks -> concat chunks = sg_fold_wire r cuts ++ body ->
  exists t nu, c_txs (fst (cp_run cb g connp_new (OpOpen :: map OpReqData chunks))) = [Some t] /\ t_parsed_uri t = Some nu /\
    t_request_progress t = c_HTP_REQUEST_COMPLETE /\
    fh_ind_of (t_flags t) = fh_ind_tables (fh_verdict r) (fr_host_verdict (fh_proto r) (u_host nu) (u_port_number nu) (fr_host_value (fh_fields_of r))) /\
    t_request_transfer_coding t = c_HTP_CODING_IDENTITY /\
    fr_check (fh_proto r) (fh_fields_of r) (t_flags t) (t_request_transfer_coding t) = true /\
    fr_check_host (fh_proto r) (u_host nu) (u_port_number nu) (fh_fields_of r) (t_flags t) = true.
Proof. exact fh_request_body_indicators. Qed.
Theorem C11_indicators_with_chunked_body : forall cb g r (cuts : list (list bytes)) (ks : list bd_chunk) (last : bytes) (tr : list wr_field)
    (tcuts : list (list bytes)) (chunks : list bytes),
  wr_all_ok cb -> g_allow_space_uri g = false -> sg_chunked_ok g r = true -> sg_cuts_ok r cuts = true -> sg_fold_fits g r cuts = true ->
  sg_cfbody_ok g ks last tr tcuts = true ->
  Forall (fun x => x <> []) chunks -> concat chunks = sg_fold_wire r cuts ++ sg_cfbody_wire ks last tr tcuts ->
  exists t nu, c_txs (fst (cp_run cb g connp_new (OpOpen :: map OpReqData chunks))) = [Some t] /\ t_parsed_uri t = Some nu /\
    t_request_progress t = c_HTP_REQUEST_COMPLETE /\
    fh_ind_of (t_flags t) = fh_ind_tables (fh_verdict r) (fr_host_verdict (fh_proto r) (u_host nu) (u_port_number nu) (fr_host_value (fh_fields_of r))) /\
    t_request_transfer_coding t = c_HTP_CODING_CHUNKED /\
    fr_check (fh_proto r) (fh_fields_of r) (t_flags t) (t_request_transfer_coding t) = true /\
    fr_check_host (fh_proto r) (u_host nu) (u_port_number nu) (fh_fields_of r) (t_flags t) = true.
Proof. exact fh_request_chunked_indicators. Qed.
Print Assumptions C11_indicators_with_identity_body.
Print Assumptions C11_indicators_with_chunked_body.

(* RESPONSE direction at history level (PFramingHistRes.v): a grammar response (fields one line each) after a plain request, any chunking: a Content-Length framed
   response carries HTP_REQUEST_SMUGGLING exactly when it has two or more Content-Length fields; a chunk-coded response exactly when a Content-Length field stands
   next to the Transfer-Encoding. (The library has no INVALID_T_E / INVALID_C_L indicators on the response side; answers to HEAD are not examined.) *)
Require Import Htp.Model.Base Htp.Model.MBstr Htp.Model.MUri Htp.Model.MPath Htp.Model.MUrlenc Htp.Model.MConnTypes Htp.Model.MTxCommon.
Require Import Htp.Model.MReqLine Htp.Model.MReqUri Htp.Model.MTxReq Htp.Model.MResLine Htp.Model.MTxRes.
Require Import Htp.Model.MReq Htp.Model.MRes Htp.Model.MConnp.
Require Import Htp.Spec.SWire Htp.Spec.SBody Htp.Spec.SFraming Htp.Proof.PWire Htp.Proof.PWireHdr Htp.Proof.PWireBlock Htp.Proof.PWireConn Htp.Proof.PWireExch.
Require Import Htp.Proof.PWireRun Htp.Proof.PWirePres Htp.Proof.PWireGlue Htp.Proof.PSeg Htp.Proof.PSegLine Htp.Proof.PSegHdr Htp.Proof.PSegGen Htp.Proof.PSegRun.
Require Import Htp.Proof.PSegFold Htp.Proof.PSegRes Htp.Proof.PSegResLine Htp.Proof.PSegResHdr Htp.Proof.PSegResGen Htp.Proof.PSegResRun Htp.Proof.PSegResReq Htp.Proof.PSegResThm.
Require Import Htp.Proof.PSegResCanon Htp.Proof.PSegResCh Htp.Proof.PSegResChGen Htp.Proof.PSegResChRun.
Require Import Htp.Proof.PBody Htp.Proof.PBodyReq Htp.Proof.PSegBody Htp.Proof.PSegChunked Htp.Proof.PSegChunkedGen Htp.Proof.PSegChunkedRun.
Require Import Htp.Proof.PFraming Htp.Proof.PFramingHist Htp.Proof.PFramingHistLine Htp.Proof.PFramingHistThm.
Require Import Htp.Proof.PFramingHistRes.
Theorem C11_response_repeated_content_length : forall cb g rq r (body : bytes) (chunks : list bytes),
  wr_all_ok cb -> g_allow_space_uri g = false -> wr_request_ok rq = true -> sg_fits g rq = true ->
  sr_response_ok r = true -> wr_block_ok (wp_fields r) = true ->
  sr_framed cb g rq r (sr_cuts_whole r) body = true -> sr_fits g r (sr_cuts_whole r) = true ->
  Forall (fun x => x <> []) chunks -> concat chunks = wr_response_wire r ++ body ->
  sr_f1_free body (negb (sr_is_nil (sr_lines r (sr_cuts_whole r)))) chunks = true ->
  exists t, c_txs (fst (cp_run cb g connp_new (OpOpen :: OpReqData (wr_request_wire rq) :: map OpResData chunks))) = sr_final g t /\
    t_response_progress t = c_HTP_RESPONSE_COMPLETE /\ t_response_transfer_coding t = c_HTP_CODING_IDENTITY /\
    fr_has (t_flags t) c_HTP_REQUEST_SMUGGLING = (2 <=? length (wr_values_of rs_str_content_length (map wr_field_nv (wp_fields r))))%nat.
Proof. exact fhr_response_cl_repeated. Qed.
Theorem C11_response_chunked_with_content_length : forall cb g rq r (ks : list bd_chunk) (last : bytes) (chunks : list bytes),
  wr_all_ok cb -> g_allow_space_uri g = false -> wr_request_ok rq = true -> sg_fits g rq = true ->
  sr_response_ok r = true -> wr_block_ok (wp_fields r) = true ->
  sr_framed_ch cb g rq r (sr_cuts_whole r) = true -> sr_fits g r (sr_cuts_whole r) = true ->
  sr_cfbody_ok g r ks last [] [] = true ->
  Forall (fun x => x <> []) chunks -> concat chunks = wr_response_wire r ++ sr_cfbody_wire ks last [] [] ->
  sr_f1_free (sr_cfbody_wire ks last [] []) (negb (sr_is_nil (sr_lines r (sr_cuts_whole r)))) chunks = true ->
  exists t, c_txs (fst (cp_run cb g connp_new (OpOpen :: OpReqData (wr_request_wire rq) :: map OpResData chunks))) = sr_final g t /\
    t_response_progress t = c_HTP_RESPONSE_COMPLETE /\ t_response_transfer_coding t = c_HTP_CODING_CHUNKED /\
    fr_has (t_flags t) c_HTP_REQUEST_SMUGGLING = (1 <=? length (wr_values_of rs_str_content_length (map wr_field_nv (wp_fields r))))%nat.
Proof. exact fhr_response_chunked_cl. Qed.
Print Assumptions C11_response_repeated_content_length.
Print Assumptions C11_response_chunked_with_content_length.
