(* C01 -- memory safety and clean teardown: what the model can carry.
   Only statements closed by `exact`, their assumptions, and examples.
   The model's observable for an invalid access is the flag c_fault (MConnTypes): a read outside the caller's chunk or through
   a NULL / released chunk pointer, in_tx / out_tx dereferenced when NULL, a destroyed transaction used, loop fuel exhausted.
   Heap ownership (allocation, free, leak, double free under every allocation-failure schedule) is the separate model MOwn. *)
Require Import Htp.Model.MConnTypes Htp.Model.MTxCommon Htp.Model.MReq Htp.Model.MRes Htp.Model.MConnp.
Require Import Htp.Proof.PReq Htp.Proof.PRes Htp.Proof.PConnp.
Local Open Scope Z_scope.

(* the full statement at the level of the connection model: no history of stream-API calls sets the fault flag *)
Definition C01_no_fault_full : Prop := forall cb g ops, c_fault (fst (cp_run cb g connp_new ops)) = false.

(* ---- it is false of the code (known findings) ---- *)
(* (a) a TRANSACTION_COMPLETE callback destroys the transaction: htp_tx_finalize goes on reading tx->connp->cfg *)
Definition c01_wa_ops : list cp_op := [OpOpen; OpReqData [71;69;84;32;47;49;32;72;84;84;80;47;49;46;49;13;10;72;111;115;116;58;32;97;13;10;13;10]%N; OpResData [72;84;84;80;47;49;46;49;32;50;48;48;32;79;75;13;10;67;111;110;116;101;110;116;45;76;101;110;103;116;104;58;32;50;13;10;13;10;104;105]%N; OpClose].
Definition c01_w_g : cfg := cp_make_cfg 1 (Z.to_nat 18000) 512 false false 0.
Theorem C01_no_fault_full_refuted_destroy_in_callback : ~ C01_no_fault_full.
Proof. intros H. specialize (H (script_lookup [(18, 0, CB_DESTROY_TX)]%nat) c01_w_g c01_wa_ops). vm_compute in H. discriminate. Qed.
Print Assumptions C01_no_fault_full_refuted_destroy_in_callback.
(* (b) the request side is stopped inside a header block (REQUEST_HEADER_DATA callback answers ERROR) with the raw-data receiver
   armed; unmatched responses later make RES_IDLE complete the request and flush the receiver from the released chunk *)
Definition c01_wb_ops : list cp_op := [OpOpen; OpReqData [71;69;84;32;47;32;72;84;84;80;47;49;46;49;13;10;72]%N; OpResData [72;84;84;80;47;49;46;49;32;50;48;48;32;79;75;13;10;67;111;110;116;101;110;116;45;76;101;110;103;116;104;58;32;48;13;10;13;10]%N; OpResData [72;84;84;80;47;49;46;49;32;50;48;48;32;79;75;13;10;67;111;110;116;101;110;116;45;76;101;110;103;116;104;58;32;48;13;10;13;10]%N; OpResData [72;84;84;80;47;49;46;49;32;50;48;48;32;79;75;13;10;67;111;110;116;101;110;116;45;76;101;110;103;116;104;58;32;48;13;10;13;10]%N].
Definition c01_wb_g : cfg := cp_make_cfg 0 (Z.to_nat 18000) 512 false false 0.
Theorem C01_no_fault_full_refuted_stale_receiver : ~ C01_no_fault_full.
Proof. intros H. specialize (H (script_lookup [(3, 0, CB_ERROR)]%nat) c01_wb_g c01_wb_ops). vm_compute in H. discriminate. Qed.
Print Assumptions C01_no_fault_full_refuted_stale_receiver.

(* ---- cursors stay inside the chunk (htp_connp_req_data / htp_connp_res_data, every callback behaviour) ---- *)
Theorem C01_req_cursor_in_chunk : forall cb g data len c c' code,
  rq_inv c -> (forall d, data = Some d -> (len <= length d)%nat) ->
  connp_req_data cb g data len c = (c', code) ->
  rq_inv c' /\
  (code = c_HTP_STREAM_DATA -> k_read (c_in c') = len /\ k_len (c_in c') = len) /\
  (code = c_HTP_STREAM_DATA_OTHER -> (k_read (c_in c') < len)%nat /\ k_len (c_in c') = len).
Proof. exact req_data_consumption. Qed.
Print Assumptions C01_req_cursor_in_chunk.
Theorem C01_res_state_invariant : forall cb g data len c,
  rs_chunk_ok data len -> rs_S c -> rs_S (fst (connp_res_data cb g data len c)).
Proof. exact res_data_keeps_S. Qed.
Print Assumptions C01_res_state_invariant.

(* ---- the carried-over line buffers never exceed the hard limit ---- *)
Theorem C01_req_buffer_bounded : forall g c c',
  req_buffer g c = (ST_OK, c') -> k_data (c_in c) <> None -> (k_consume (c_in c) < k_read (c_in c))%nat ->
  (rq_buf_size c' + rq_header_len c' <= g_field_limit_hard g)%nat.
Proof. exact req_buffer_bounded. Qed.
Print Assumptions C01_req_buffer_bounded.
Theorem C01_res_buffer_bounded : forall g c c',
  rs_res_buffer g c = (ST_OK, c') -> k_data (c_out c) <> None -> (rs_blen c' + rs_hlen c' <= g_field_limit_hard g)%nat.
Proof. exact res_buffer_bounded. Qed.
Print Assumptions C01_res_buffer_bounded.

(* ---- the transaction list: htp_connp_tx_freed leaves no leading NULL slot ---- *)
Theorem C01_tx_freed_no_leading_null : forall c,
  match c_txs (fst (connp_tx_freed c)) with None :: _ => False | _ => True end.
Proof. exact tx_freed_no_leading_null. Qed.
Print Assumptions C01_tx_freed_no_leading_null.

(* non-vacuity: an ordinary exchange (default callbacks) does not fault, and the fresh parser meets the invariants *)
Example C01_example_no_fault : c_fault (fst (cp_run (fun _ _ => CB_OK) c01_w_g connp_new c01_wa_ops)) = false.
Proof. vm_compute. reflexivity. Qed.
Example C01_example_inv : rq_inv connp_new /\ rs_S connp_new.
Proof. split; [exact rq_inv_new|exact rs_S_new]. Qed.

(* ---- every call returns (request direction): the for(;;) of htp_connp_req_data is run by the model on explicit fuel 16*len+16;
        the out-of-fuel branch is never taken and more fuel never changes the result, for every chunk, configuration and callback
        behaviour. The measure is 16 * (bytes left) + rank(state); every pass that goes round again decreases it. ---- *)
Require Import Htp.Proof.PTermReq.
Theorem C01_req_pass_decreases : req_pass_decreases_full.
Proof. exact req_pass_decreases. Qed.
Print Assumptions C01_req_pass_decreases.
Theorem C01_req_call_returns : forall cb g data len c k,
  rq_inv c -> (forall d, data = Some d -> (len <= length d)%nat) -> (c_in_status c = c_HTP_STREAM_CLOSED -> len = 0%nat) ->
  connp_req_data_fuel cb g (rq_fuel len + k) data len c = connp_req_data cb g data len c.
Proof. exact req_data_fuel_sufficient. Qed.
Print Assumptions C01_req_call_returns.

(* ... and the response direction: measure 8 * (len - consume offset) + rank(state) (the read offset can move backwards there: invalid chunk length,
   un-read probe line). ts_entry_ok: a closed stream is only fed the empty chunk, and nothing is buffered in DETERMINE / CL_KNOWN (an invariant:
   true of the fresh parser and kept by every response data call) *)
Require Import Htp.Proof.PTermRes.
Theorem C01_res_call_returns : forall cb g data len c k,
  ts_entry_ok len c -> connp_res_data_fuel cb g (rs_res_fuel len + k) data len c = connp_res_data cb g data len c.
Proof. exact res_data_fuel_sufficient. Qed.
Print Assumptions C01_res_call_returns.
Theorem C01_res_entry_invariant : forall cb g data len c, ts_bufok c -> ts_bufok (fst (connp_res_data cb g data len c)).
Proof. exact res_data_keeps_bufok. Qed.
Print Assumptions C01_res_entry_invariant.
Example C01_res_entry_invariant_new : ts_bufok connp_new.
Proof. exact ts_bufok_new. Qed.

(* ---- ownership: create / open / destroy returns the heap it started from, under every allocation-failure schedule,
        with no double free, use after free or NULL dereference on the way (the weakest precondition excludes faults) ---- *)
Require Import Htp.Model.MOwn Htp.Proof.POwn.
Theorem C01_connp_lifecycle_clean : forall sched,
  ow_wp (p <- ow_connp_create ;; ow_connp_destroy_all p) (fun _ s' => oos_live s' = []) (ow_init sched).
Proof. exact ow_connp_lifecycle_from_init. Qed.
Print Assumptions C01_connp_lifecycle_clean.
Theorem C01_conn_lifecycle_clean : forall sched hc hs,
  ow_wp (c <- ow_conn_create ;;
         match c with
         | None => ow_ret tt
         | Some c => r <- ow_conn_open c hc hs ;; ow_conn_destroy (Some (snd r))
         end) (fun _ s' => oos_live s' = []) (ow_init sched).
Proof. exact ow_conn_lifecycle_from_init. Qed.
Print Assumptions C01_conn_lifecycle_clean.

(* ==================================================================================================================
   C01 at the level of the connection model, what is proved: the fault flag is never set
   - for every configuration g, every byte stream, chunking and interleaving of the two directions,
   - for every callback behaviour that does not destroy the transaction (premise (a)),
   - on every sequence of API calls that meets the computable run premise PSafeRun.run_okb (premise (b) and the
     STOP / ERROR premise, below),
   with no premise on loop fuel (discharged by PTermReq / PTermRes).
   Definitions used in the statements (Proof/PSafe.v, PSafeRes.v, PSafeRun.v):
     safe_inv c   := c_fault c = false /\ TI c /\ rq_inv c, TI = the coupling of in_tx / out_tx, the receiver hooks and the
                     transaction table (in_tx, out_tx NULL or live; in_tx not yet request-complete; an armed request receiver
                     means in_tx <> NULL in REQ_HEADERS / REQ_FINALIZE; an armed response receiver means out_tx <> NULL and not
                     response-complete; RES_IDLE means out_tx = NULL)
     in_sok c / out_sok c := the request / response stream status is neither STOP nor ERROR
     in_clean c   := request receiver armed -> k_read <= k_receiver (everything read was handed to the hook) or the chunk is
                     still readable up to k_read            [premise (b) as a predicate on the state]
     status_okb c := neither stream status is STOP or ERROR;  in_cleanb c := in_clean c as a boolean
     op_okb c o   := true for OpOpen / OpTxFreed / OpDestroyTx; status_okb c for OpReqData / OpReqGap / OpReqClose;
                     status_okb c && in_cleanb c for OpResData / OpResGap;
                     status_okb c && "the request half of htp_connp_close does not end in STOP / ERROR" for OpClose
     run_okb c ops := op_okb holds before every operation of the run
   ================================================================================================================== *)
Require Import Htp.Proof.PSafe Htp.Proof.PSafeRes Htp.Proof.PSafeRun.

(* ---- one call of htp_connp_req_data: from the invariant, no fault; and unless the call ends in STOP / ERROR the invariant
        again, with the response direction left as it was (out_kept) ---- *)
Theorem C01_req_data_no_fault : forall cb g, (forall h n, cb h n <> CB_DESTROY_TX) ->
  forall data len c c' code,
  safe_inv c -> (forall d, data = Some d -> (len <= length d)%nat) ->
  connp_req_data cb g data len c = (c', code) ->
  req_data_oof cb g data len c = false ->
  c_fault c' = false /\
  (in_sok c' -> safe_inv c' /\ out_kept c c' /\
                (len = O -> c_in_status c = c_HTP_STREAM_CLOSED -> k_read (c_in c') = O)).
Proof. exact connp_req_data_safe. Qed.
Print Assumptions C01_req_data_no_fault.
(* the fuel premise of the per-call statement is implied by the entry conditions of PTermReq *)
Theorem C01_req_data_fuel : forall cb g data len c,
  rq_inv c -> (forall d, data = Some d -> (len <= length d)%nat) -> (c_in_status c = c_HTP_STREAM_CLOSED -> len = O) ->
  req_data_oof cb g data len c = false.
Proof. exact req_data_oof_false. Qed.
Print Assumptions C01_req_data_fuel.

(* ---- one call of htp_connp_res_data. Extra premises: in_clean (b); the request stream is not CLOSED (htp_connp_close
        is the only caller with a closed request stream, and it runs the request half first, which re-opens it); a closed
        response stream is fed no byte; res_entry_ok: an armed response receiver means RES_LINE / RES_HEADERS, or no byte
        is fed ---- *)
Theorem C01_res_data_no_fault : forall cb g, (forall h n, cb h n <> CB_DESTROY_TX) ->
  forall data len c c' code,
  safe_inv c -> in_clean c -> c_in_status c <> c_HTP_STREAM_CLOSED ->
  (forall d, data = Some d -> (len <= length d)%nat) ->
  (c_out_status c = c_HTP_STREAM_CLOSED -> data = None /\ len = O) ->
  (c_out_status c <> c_HTP_STREAM_TUNNEL -> res_entry_ok len c) ->
  connp_res_data cb g data len c = (c', code) ->
  res_data_oof cb g data len c = false ->
  c_fault c' = false /\
  (out_sok c' -> safe_inv c' /\ in_clean c' /\ c_in_status c' <> c_HTP_STREAM_CLOSED /\ c_out_status c' <> c_HTP_STREAM_CLOSED /\
                 (ebx c' \/ out_same c c')).
Proof. exact connp_res_data_safe. Qed.
Print Assumptions C01_res_data_no_fault.
Theorem C01_res_data_fuel : forall cb g data len c, ts_entry_ok len c -> res_data_oof cb g data len c = false.
Proof. exact res_data_oof_false. Qed.
Print Assumptions C01_res_data_fuel.

(* ---- one API operation, and whole runs from the fresh parser ---- *)
Theorem C01_step_no_fault : forall cb g, (forall h n, cb h n <> CB_DESTROY_TX) ->
  forall c o, run_ok_inv c -> op_okb cb g c o = true -> run_ok_inv (fst (cp_step cb g c o)).
Proof. exact cp_step_safe. Qed.
Print Assumptions C01_step_no_fault.
Theorem C01_no_fault_partial : forall cb g, (forall h n, cb h n <> CB_DESTROY_TX) ->
  forall ops, run_okb cb g connp_new ops = true ->
  forall n, c_fault (fst (cp_run cb g connp_new (firstn n ops))) = false.
Proof. exact cp_run_no_fault. Qed.
Print Assumptions C01_no_fault_partial.
Theorem C01_run_invariant : forall cb g, (forall h n, cb h n <> CB_DESTROY_TX) ->
  forall ops, run_okb cb g connp_new ops = true ->
  let c := fst (cp_run cb g connp_new ops) in c_fault c = false /\ (status_okb c = true -> run_inv c).
Proof. exact cp_run_inv. Qed.
Print Assumptions C01_run_invariant.

(* ---- the premises exclude the two witnesses above, and none of them can be dropped ---- *)
(* (a): the oracle of c01_wa_ops destroys; (b): the run premise fails on c01_wb_ops (in_cleanb before the second response chunk) *)
Example C01_partial_excludes_wa : script_lookup [(18, 0, CB_DESTROY_TX)]%nat 18%nat 0%nat = CB_DESTROY_TX.
Proof. reflexivity. Qed.
Example C01_partial_excludes_wb : run_okb (script_lookup [(3, 0, CB_ERROR)]%nat) c01_wb_g connp_new c01_wb_ops = false.
Proof. vm_compute. reflexivity. Qed.
(* premise (a) alone is not enough, nor with "neither stream is STOP / ERROR before every call": the run (b) has both
   statuses DATA throughout (the refusal of the REQUEST_HEADER_DATA callback at the end of the chunk is ignored) *)
Theorem C01_no_fault_without_in_clean_refuted :
  ~ (forall cb g ops, (forall h n, cb h n <> CB_DESTROY_TX) ->
       (forall n, status_okb (fst (cp_run cb g connp_new (firstn n ops))) = true) ->
       c_fault (fst (cp_run cb g connp_new ops)) = false).
Proof.
  intros H. specialize (H (script_lookup [(3, 0, CB_ERROR)]%nat) c01_wb_g c01_wb_ops (script_nodestroy [(3, 0, CB_ERROR)]%nat eq_refl)
                          (prefixes_all status_okb (script_lookup [(3, 0, CB_ERROR)]%nat) c01_wb_g c01_wb_ops ltac:(vm_compute; reflexivity))).
  vm_compute in H. discriminate.
Qed.
Print Assumptions C01_no_fault_without_in_clean_refuted.
(* (c) nor is premise (a) with in_clean before every call: a RESPONSE_COMPLETE callback answers STOP to an interim 100 response,
   htp_connp_close overwrites the STOP status, the second close flushes the armed RESPONSE_HEADER_DATA receiver with out_tx = NULL
   (known finding null-tx-callback, the response-side twin) *)
Definition c01_wc_ops : list cp_op := [OpOpen; OpResData [72;84;84;80;47;49;46;49;32;49;48;48;32;67;111;110;116;105;110;117;101;13;10;13;10]%N; OpClose; OpClose].
Theorem C01_no_fault_without_status_refuted :
  ~ (forall cb g ops, (forall h n, cb h n <> CB_DESTROY_TX) ->
       (forall n, in_cleanb (fst (cp_run cb g connp_new (firstn n ops))) = true) ->
       c_fault (fst (cp_run cb g connp_new ops)) = false).
Proof.
  intros H. specialize (H (script_lookup [(17, 0, CB_STOP)]%nat) c01_wb_g c01_wc_ops (script_nodestroy [(17, 0, CB_STOP)]%nat eq_refl)
                          (prefixes_all in_cleanb (script_lookup [(17, 0, CB_STOP)]%nat) c01_wb_g c01_wc_ops ltac:(vm_compute; reflexivity))).
  vm_compute in H. discriminate.
Qed.
Print Assumptions C01_no_fault_without_status_refuted.
Example C01_partial_excludes_wc : run_okb (script_lookup [(17, 0, CB_STOP)]%nat) c01_wb_g connp_new c01_wc_ops = false.
Proof. vm_compute. reflexivity. Qed.

(* ---- non-vacuity of C01_no_fault_partial ---- *)
(* two pipelined requests (GET, POST with a chunked body) cut in three pieces inside the chunked body, the two responses
   (Content-Length, chunked) cut inside a header name and interleaved with the request pieces, tx_freed, close *)
Definition c01_ex_ops : list cp_op := [OpOpen; OpReqData [71;69;84;32;47;97;63;120;61;49;32;72;84;84;80;47;49;46;49;13;10;72;111;115;116;58;32;97;13;10;13;10;80;79;83;84;32;47;98;32;72;84;84;80;47;49;46;49;13;10;72;111;115;116;58;32;97;13;10;84;114;97;110;115;102;101;114;45;69;110;99;111;100;105;110;103;58;32;99;104;117;110;107;101;100;13;10;13;10;53;13;10;104;101;108]%N; OpResData [72;84;84;80;47;49;46;49;32;50;48;48;32;79;75;13;10;67;111;110;116;101;110;116;45;76;101;110;103;116;104;58;32;50;13;10;13;10;104;105;72;84;84;80;47;49;46;49;32;50;48;48;32;79;75;13;10;84;114;97;110;115;102;101;114;45;69;110;99]%N; OpReqData [108;111;13;10;51;13]%N; OpReqData [10;97;98;99;13;10;48;13;10;13;10]%N; OpResData [111;100;105;110;103;58;32;99;104;117;110;107;101;100;13;10;13;10;52;13;10;119;120;121;122;13;10;48;13;10;13;10]%N; OpTxFreed; OpClose].
Example C01_partial_example_pipelined : run_okb (fun _ _ => CB_OK) c01_w_g connp_new c01_ex_ops = true.
Proof. vm_compute. reflexivity. Qed.
Example C01_partial_example_pipelined_two_tx :
  let r := cp_run (fun _ _ => CB_OK) c01_w_g connp_new c01_ex_ops in
  c_fault (fst r) = false /\ map r_rc (snd r) = [-1; c_HTP_STREAM_DATA; c_HTP_STREAM_DATA; c_HTP_STREAM_DATA; c_HTP_STREAM_DATA; c_HTP_STREAM_DATA; 0; -1] /\
  map r_ntx (snd r) = [0; 2; 2; 2; 2; 2; 2; 2]%nat.
Proof. vm_compute. repeat split; reflexivity. Qed.
(* the same exchange with tx-level body-data callbacks registered from REQUEST_HEADERS / RESPONSE_HEADERS (they run: hooks 19, 20)
   and a REQUEST_COMPLETE callback that declines *)
Example C01_partial_example_callbacks :
  let cb := script_lookup [(4, 1, CB_REG_REQ_BODY); (13, 0, CB_REG_RES_BODY); (13, 1, CB_REG_RES_BODY); (9, 0, CB_DECLINED)]%nat in
  run_okb cb c01_w_g connp_new c01_ex_ops = true /\
  skipn 19%nat (c_hook_calls (fst (cp_run cb c01_w_g connp_new c01_ex_ops))) = [4; 5]%nat.
Proof. vm_compute. split; reflexivity. Qed.
(* a callback that answers STOP at the very end (TRANSACTION_COMPLETE of the second transaction): the run meets the premise,
   the response stream ends STOP, and calls that do not touch the streams may follow *)
Definition c01_stop_ops : list cp_op := [OpOpen; OpReqData [71;69;84;32;47;97;63;120;61;49;32;72;84;84;80;47;49;46;49;13;10;72;111;115;116;58;32;97;13;10;13;10;80;79;83;84;32;47;98;32;72;84;84;80;47;49;46;49;13;10;72;111;115;116;58;32;97;13;10;84;114;97;110;115;102;101;114;45;69;110;99;111;100;105;110;103;58;32;99;104;117;110;107;101;100;13;10;13;10;53;13;10;104;101;108]%N; OpResData [72;84;84;80;47;49;46;49;32;50;48;48;32;79;75;13;10;67;111;110;116;101;110;116;45;76;101;110;103;116;104;58;32;50;13;10;13;10;104;105;72;84;84;80;47;49;46;49;32;50;48;48;32;79;75;13;10;84;114;97;110;115;102;101;114;45;69;110;99]%N; OpReqData [108;111;13;10;51;13]%N; OpReqData [10;97;98;99;13;10;48;13;10;13;10]%N; OpResData [111;100;105;110;103;58;32;99;104;117;110;107;101;100;13;10;13;10;52;13;10;119;120;121;122;13;10;48;13;10;13;10]%N].
Example C01_partial_example_stop_at_end :
  let cb := script_lookup [(18, 1, CB_STOP)]%nat in
  run_okb cb c01_w_g connp_new (c01_stop_ops ++ [OpTxFreed; OpDestroyTx 0]) = true /\
  c_out_status (fst (cp_run cb c01_w_g connp_new c01_stop_ops)) = c_HTP_STREAM_STOP.
Proof. vm_compute. split; reflexivity. Qed.
(* the fresh parser satisfies the invariant of the runs *)
Example C01_partial_example_new : run_inv connp_new.
Proof. exact run_inv_new. Qed.

(* ---- the transaction list does not grow past the configured bound through htp_connp_tx_create ---- *)
Theorem C01_tx_create_bound : forall g c,
  (0 < g_max_tx g)%nat -> (length (c_txs c) <= S (g_max_tx g))%nat ->
  (length (c_txs (snd (connp_tx_create g c))) <= S (g_max_tx g))%nat.
Proof. exact connp_tx_create_bound. Qed.
Print Assumptions C01_tx_create_bound.
(* ---- HTP_STREAM_DATA from htp_connp_res_data means the whole chunk was consumed (twin of C01_req_cursor_in_chunk) ---- *)
Theorem C01_res_data_means_all : forall cb g data len c,
  rs_chunk_ok data len -> rs_S c ->
  snd (connp_res_data cb g data len c) = c_HTP_STREAM_DATA ->
  (k_len (c_out (fst (connp_res_data cb g data len c))) <= k_read (c_out (fst (connp_res_data cb g data len c))))%nat.
Proof. exact res_data_data_means_all. Qed.
Print Assumptions C01_res_data_means_all.

(* ---- leaf components reached from the connection parser, with their own index-checked models (MAuth: every data[pos], every ptr+off,len sub-block
        and every store is a checked access that sets a fault flag): htp_base64.c, htp_parse_authorization* (htp_parsers.c), htp_parse_cookies_v0 ---- *)
Require Import Htp.Model.MAuth Htp.Proof.PAuth.
Local Close Scope Z_scope.
(* the decoder as written (malloc(len), length_out = len) never writes outside its block, for every input *)
Theorem C01_base64_no_fault : forall data, b64_decode_mem_fault data = false.
Proof. exact b64_mem_no_fault. Qed.
Print Assumptions C01_base64_no_fault.
(* ... and the allocation size matters exactly: a block of cap bytes is safe for ALL inputs of length len iff len = 0 or 3*len/4 < cap *)
Theorem C01_base64_min_capacity : forall len cap,
  (forall data, length data = len -> b64_mem_fault cap data = false) <-> (len = 0 \/ 3 * len / 4 < cap).
Proof. exact b64_mem_min_capacity. Qed.
Print Assumptions C01_base64_min_capacity.
Theorem C01_base64_three_quarters_would_overflow : forall len, 1 <= len -> b64_mem_fault (3 * len / 4) (repeat b64_A len) = true.
Proof. exact b64_three_quarters_faults. Qed.
Theorem C01_base64_length : forall data o, b64_decode_mem data = Some o ->
  length o = 3 * length (b64_sextets data) / 4 /\ length o <= 3 * length data / 4 /\ length o < length data.
Proof. exact b64_mem_length. Qed.
Theorem C01_base64_roundtrip : forall s, all_byte s = true -> b64_decode_mem (b64_encode s) = match s with [] => None | _ => Some s end.
Proof. exact b64_roundtrip. Qed.
Print Assumptions C01_base64_roundtrip.
(* the Authorization parsers (Basic / Digest / Bearer dispatch, quoted-string extraction): no index leaves its block, for every header value *)
Theorem C01_authorization_no_fault : forall hdr, au_fault (au_parse_authorization hdr) = false.
Proof. exact au_no_fault. Qed.
Print Assumptions C01_authorization_no_fault.
(* the cookie parser: no out-of-range access, the loop terminates within its fuel, every name/value is a slice of the header in input order *)
Theorem C01_cookies_no_fault : forall hdr, ck_fault (ck_parse_cookies_v0 hdr) = false.
Proof. exact ck_no_fault. Qed.
Print Assumptions C01_cookies_no_fault.
Theorem C01_cookies_terminate : forall v, ck_entries v <> None.
Proof. exact ck_fuel_sufficient. Qed.
Theorem C01_cookies_are_slices : forall v tbl, ck_table (ck_parse_cookies_v0 (Some v)) = Some tbl ->
  forall name value, In (name, value) tbl ->
    name <> [] /\
    exists noff voff, name = ck_slice v noff (length name) /\ value = ck_slice v voff (length value) /\
                      noff + length name <= voff /\ voff + length value <= length v.
Proof. exact ck_pairs_are_slices. Qed.
Print Assumptions C01_cookies_are_slices.
