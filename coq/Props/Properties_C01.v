(* C01 -- memory safety and clean teardown: what the model can carry.
   Only statements closed by `exact`, their assumptions, and examples.
   The model's observable for an invalid access is the flag c_fault (MConnTypes): a read outside the caller's chunk or through
   a NULL / released chunk pointer, in_tx / out_tx dereferenced when NULL, a destroyed transaction used, loop fuel exhausted.
   Heap ownership (allocation, free, leak, double free under every allocation-failure schedule) is the separate model MOwn. *)
Require Import Htp.Model.MConnTypes Htp.Model.MTxCommon Htp.Model.MReq Htp.Model.MRes Htp.Model.MConnp.
Require Import Htp.Proof.PReq Htp.Proof.PRes Htp.Proof.PConnp.
Local Open Scope Z_scope.

(* the full statement at the level of the connection model: no history of stream-API calls sets the fault flag *)
Definition C01_no_fault_full : Prop := forall cb g ops, c_fault (fst (cp_run cb g connp_new ops)) = false.

(* ---- it is false of the code (known findings) ---- *)
(* (a) a TRANSACTION_COMPLETE callback destroys the transaction: htp_tx_finalize goes on reading tx->connp->cfg *)
Definition c01_wa_ops : list cp_op := [OpOpen; OpReqData [71;69;84;32;47;49;32;72;84;84;80;47;49;46;49;13;10;72;111;115;116;58;32;97;13;10;13;10]%N; OpResData [72;84;84;80;47;49;46;49;32;50;48;48;32;79;75;13;10;67;111;110;116;101;110;116;45;76;101;110;103;116;104;58;32;50;13;10;13;10;104;105]%N; OpClose].
Definition c01_w_g : cfg := cp_make_cfg 1 (Z.to_nat 18000) 512 false false 0.
Theorem C01_no_fault_full_refuted_destroy_in_callback : ~ C01_no_fault_full.
Proof. intros H. specialize (H (script_lookup [(18, 0, CB_DESTROY_TX)]%nat) c01_w_g c01_wa_ops). vm_compute in H. discriminate. Qed.
Print Assumptions C01_no_fault_full_refuted_destroy_in_callback.
(* (b) the request side is stopped inside a header block (REQUEST_HEADER_DATA callback answers ERROR) with the raw-data receiver
   armed; unmatched responses later make RES_IDLE complete the request and flush the receiver from the released chunk *)
Definition c01_wb_ops : list cp_op := [OpOpen; OpReqData [71;69;84;32;47;32;72;84;84;80;47;49;46;49;13;10;72]%N; OpResData [72;84;84;80;47;49;46;49;32;50;48;48;32;79;75;13;10;67;111;110;116;101;110;116;45;76;101;110;103;116;104;58;32;48;13;10;13;10]%N; OpResData [72;84;84;80;47;49;46;49;32;50;48;48;32;79;75;13;10;67;111;110;116;101;110;116;45;76;101;110;103;116;104;58;32;48;13;10;13;10]%N; OpResData [72;84;84;80;47;49;46;49;32;50;48;48;32;79;75;13;10;67;111;110;116;101;110;116;45;76;101;110;103;116;104;58;32;48;13;10;13;10]%N].
Definition c01_wb_g : cfg := cp_make_cfg 0 (Z.to_nat 18000) 512 false false 0.
Theorem C01_no_fault_full_refuted_stale_receiver : ~ C01_no_fault_full.
Proof. intros H. specialize (H (script_lookup [(3, 0, CB_ERROR)]%nat) c01_wb_g c01_wb_ops). vm_compute in H. discriminate. Qed.
Print Assumptions C01_no_fault_full_refuted_stale_receiver.

(* ---- cursors stay inside the chunk (htp_connp_req_data / htp_connp_res_data, every callback behaviour) ---- *)
Theorem C01_req_cursor_in_chunk : forall cb g data len c c' code,
  rq_inv c -> (forall d, data = Some d -> (len <= length d)%nat) ->
  connp_req_data cb g data len c = (c', code) ->
  rq_inv c' /\
  (code = c_HTP_STREAM_DATA -> k_read (c_in c') = len /\ k_len (c_in c') = len) /\
  (code = c_HTP_STREAM_DATA_OTHER -> (k_read (c_in c') < len)%nat /\ k_len (c_in c') = len).
Proof. exact req_data_consumption. Qed.
Print Assumptions C01_req_cursor_in_chunk.
Theorem C01_res_state_invariant : forall cb g data len c,
  rs_chunk_ok data len -> rs_S c -> rs_S (fst (connp_res_data cb g data len c)).
Proof. exact res_data_keeps_S. Qed.
Print Assumptions C01_res_state_invariant.

(* ---- the carried-over line buffers never exceed the hard limit ---- *)
Theorem C01_req_buffer_bounded : forall g c c',
  req_buffer g c = (ST_OK, c') -> k_data (c_in c) <> None -> (k_consume (c_in c) < k_read (c_in c))%nat ->
  (rq_buf_size c' + rq_header_len c' <= g_field_limit_hard g)%nat.
Proof. exact req_buffer_bounded. Qed.
Print Assumptions C01_req_buffer_bounded.
Theorem C01_res_buffer_bounded : forall g c c',
  rs_res_buffer g c = (ST_OK, c') -> k_data (c_out c) <> None -> (rs_blen c' + rs_hlen c' <= g_field_limit_hard g)%nat.
Proof. exact res_buffer_bounded. Qed.
Print Assumptions C01_res_buffer_bounded.

(* ---- the transaction list: htp_connp_tx_freed leaves no leading NULL slot ---- *)
Theorem C01_tx_freed_no_leading_null : forall c,
  match c_txs (fst (connp_tx_freed c)) with None :: _ => False | _ => True end.
Proof. exact tx_freed_no_leading_null. Qed.
Print Assumptions C01_tx_freed_no_leading_null.

(* non-vacuity: an ordinary exchange (default callbacks) does not fault, and the fresh parser meets the invariants *)
Example C01_example_no_fault : c_fault (fst (cp_run (fun _ _ => CB_OK) c01_w_g connp_new c01_wa_ops)) = false.
Proof. vm_compute. reflexivity. Qed.
Example C01_example_inv : rq_inv connp_new /\ rs_S connp_new.
Proof. split; [exact rq_inv_new|exact rs_S_new]. Qed.

(* ---- every call returns (request direction): the for(;;) of htp_connp_req_data is run by the model on explicit fuel 16*len+16;
        the out-of-fuel branch is never taken and more fuel never changes the result, for every chunk, configuration and callback
        behaviour. The measure is 16 * (bytes left) + rank(state); every pass that goes round again decreases it. ---- *)
Require Import Htp.Proof.PTermReq.
Theorem C01_req_pass_decreases : req_pass_decreases_full.
Proof. exact req_pass_decreases. Qed.
Print Assumptions C01_req_pass_decreases.
Theorem C01_req_call_returns : forall cb g data len c k,
  rq_inv c -> (forall d, data = Some d -> (len <= length d)%nat) -> (c_in_status c = c_HTP_STREAM_CLOSED -> len = 0%nat) ->
  connp_req_data_fuel cb g (rq_fuel len + k) data len c = connp_req_data cb g data len c.
Proof. exact req_data_fuel_sufficient. Qed.
Print Assumptions C01_req_call_returns.

(* ... and the response direction: measure 8 * (len - consume offset) + rank(state) (the read offset can move backwards there: invalid chunk length,
   un-read probe line). ts_entry_ok: a closed stream is only fed the empty chunk, and nothing is buffered in DETERMINE / CL_KNOWN (an invariant:
   true of the fresh parser and kept by every response data call) *)
Require Import Htp.Proof.PTermRes.
Theorem C01_res_call_returns : forall cb g data len c k,
  ts_entry_ok len c -> connp_res_data_fuel cb g (rs_res_fuel len + k) data len c = connp_res_data cb g data len c.
Proof. exact res_data_fuel_sufficient. Qed.
Print Assumptions C01_res_call_returns.
Theorem C01_res_entry_invariant : forall cb g data len c, ts_bufok c -> ts_bufok (fst (connp_res_data cb g data len c)).
Proof. exact res_data_keeps_bufok. Qed.
Print Assumptions C01_res_entry_invariant.
Example C01_res_entry_invariant_new : ts_bufok connp_new.
Proof. exact ts_bufok_new. Qed.

(* ---- ownership: create / open / destroy returns the heap it started from, under every allocation-failure schedule,
        with no double free, use after free or NULL dereference on the way (the weakest precondition excludes faults) ---- *)
Require Import Htp.Model.MOwn Htp.Proof.POwn.
Theorem C01_connp_lifecycle_clean : forall sched,
  ow_wp (p <- ow_connp_create ;; ow_connp_destroy_all p) (fun _ s' => oos_live s' = []) (ow_init sched).
Proof. exact ow_connp_lifecycle_from_init. Qed.
Print Assumptions C01_connp_lifecycle_clean.
Theorem C01_conn_lifecycle_clean : forall sched hc hs,
  ow_wp (c <- ow_conn_create ;;
         match c with
         | None => ow_ret tt
         | Some c => r <- ow_conn_open c hc hs ;; ow_conn_destroy (Some (snd r))
         end) (fun _ s' => oos_live s' = []) (ow_init sched).
Proof. exact ow_conn_lifecycle_from_init. Qed.
Print Assumptions C01_conn_lifecycle_clean.

