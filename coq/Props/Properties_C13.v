(* C13 -- URI splitting partitions the request target without inventing bytes.
   This file contains only statements closed by `exact`, their assumptions, and examples.
   Model: Htp.Model.MUri (htp_parse_uri, htp_parse_hostport, port conversion of htp_normalize_parsed_uri). *)
Require Import Htp.Model.Base Htp.Model.MBstr Htp.Model.MUri Htp.Spec.SUri Htp.Proof.PUri.
Local Open Scope N_scope.

(* ---- partition ---- *)
(* the full statement of the property text (DESIGN Appendix A): re-joining the raw components with their
   delimiters reproduces the target minus trailing spaces, for every byte string *)
Definition C13_partition_full : Prop := forall t, rejoin (parse_uri t) = strip_right (N.eqb SP) t.

(* the code-shaped model (which agrees with the library) refutes it *)
Theorem C13_partition_refuted : exists t, rejoin (parse_uri t) <> strip_right (N.eqb SP) t.
Proof. exact partition_refuted. Qed.
Print Assumptions C13_partition_refuted.

(* proved under the boolean premise: in the authority's host part, what follows a bracketed host is empty or a port *)
Theorem C13_partition_partial :
  forall t, no_junk_after_bracketb t = true -> rejoin (parse_uri t) = strip_right (N.eqb SP) t.
Proof. exact partition_partial. Qed.
Print Assumptions C13_partition_partial.

(* the premise excludes exactly the inputs on which the full statement fails *)
Theorem C13_partition_exact :
  forall t, rejoin (parse_uri t) = strip_right (N.eqb SP) t <-> no_junk_after_bracketb t = true.
Proof. exact partition_exact. Qed.
Print Assumptions C13_partition_exact.

(* total: for EVERY byte string the re-joined components are the target with one contiguous piece left out --
   no byte is invented, duplicated or reordered, components are contiguous and in order *)
Theorem C13_no_invented_bytes :
  forall t, exists A j B, strip_right (N.eqb SP) t = A ++ j ++ B /\ rejoin (parse_uri t) = A ++ B.
Proof. exact partition_no_invention. Qed.
Print Assumptions C13_no_invented_bytes.

(* ---- a target that starts with '/' is never given a scheme or an authority (total) ---- *)
Theorem C13_slash :
  forall r, let u := parse_uri (47 :: r) in uri_scheme u = None /\ uri_has_auth u = false.
Proof. exact slash_no_scheme_no_authority. Qed.
Print Assumptions C13_slash.

(* ---- the executable checker that is also run on the implementation's output ---- *)
Theorem C13_checker_holds : forall t, no_junk_after_bracketb t = true -> check_C13 t (parse_uri t) = true.
Proof. exact check_C13_holds. Qed.
Print Assumptions C13_checker_holds.
Theorem C13_checker_sound : forall t u, check_C13 t u = true ->
  rejoin u = strip_right (N.eqb SP) t /\
  (forall r, t = 47 :: r -> uri_scheme u = None /\ uri_has_auth u = false).
Proof. exact check_C13_sound. Qed.
Print Assumptions C13_checker_sound.
(* the oracle's domain is exactly the premise: outside it the checker rejects the model's own output *)
Theorem C13_checker_fails_outside : forall t, no_junk_after_bracketb t = false -> check_C13 t (parse_uri t) = false.
Proof. exact check_C13_fails_outside. Qed.
Print Assumptions C13_checker_fails_outside.

(* ---- port: the decimal value of the port text when it is in 1..65535, otherwise -1 and invalid (total) ---- *)
Theorem C13_port :
  forall p, let '(v, invalid) := norm_port p in
    ((1 <= v <= 65535)%Z /\ invalid = false /\ port_text p v) \/
    (v = (-1)%Z /\ invalid = true /\ ~ exists v', (1 <= v' <= 65535)%Z /\ port_text p v').
Proof. exact port_spec. Qed.
Print Assumptions C13_port.
Theorem C13_port_checker_holds : forall p, check_C13_port p (fst (norm_port p)) (snd (norm_port p)) = true.
Proof. exact norm_port_check. Qed.
Print Assumptions C13_port_checker_holds.
Theorem C13_port_checker_sound : forall p v i, check_C13_port p v i = true ->
  ((1 <= v <= 65535)%Z /\ i = false /\ port_text p v) \/
  (v = (-1)%Z /\ i = true /\ ~ exists v', (1 <= v' <= 65535)%Z /\ port_text p v').
Proof. exact check_C13_port_sound. Qed.
Print Assumptions C13_port_checker_sound.
(* htp_parse_hostport: whenever a port text is reported, number and invalid flag obey the same oracle *)
Theorem C13_hostport_port : forall hp hn p v i, parse_hostport hp = (hn, Some p, v, i) -> check_C13_port p v i = true.
Proof. exact hostport_port_check. Qed.
Print Assumptions C13_hostport_port.

(* ---- examples: non-vacuity of the premise, the witnesses, the port boundaries ---- *)
(* "http://u:p@[::1]:80/p?q#f  " : bracketed host followed by a port satisfies the premise; every component present *)
Example C13_premise_nonvacuous : no_junk_after_bracketb c13_ex1 = true.
Proof. vm_compute. reflexivity. Qed.
Example C13_example_parse :
  parse_uri c13_ex1 =
  mk_uri (Some [104;116;116;112]) (Some [117]) (Some [112]) (Some [91;58;58;49;93]) (Some [56;48])
         (Some [47;112]) (Some [113]) (Some [102]).
Proof. vm_compute. reflexivity. Qed.
(* the witnesses of the refutation are outside the premise; what is lost is the byte 'x' / 'a' after ']' *)
Example C13_witness_outside : no_junk_after_bracketb c13_witness = false /\ no_junk_after_bracketb c13_witness2 = false.
Proof. vm_compute. split; reflexivity. Qed.
Example C13_witness_parse :
  parse_uri c13_witness2 =
  mk_uri (Some [104;116;116;112]) None None (Some [91;58;58;49;93]) (Some [56;48]) (Some [47;112]) None None
  /\ rejoin (parse_uri c13_witness2) = [104;116;116;112;58;47;47;91;58;58;49;93;58;56;48;47;112].
Proof. vm_compute. split; reflexivity. Qed.
(* '/' targets: "//h:80/p" is a path, not an authority *)
Example C13_slash_example :
  parse_uri [47;47;104;58;56;48;47;112] = mk_uri None None None None None (Some [47;47;104;58;56;48;47;112]) None None.
Proof. vm_compute. reflexivity. Qed.
(* ports: " 80\t" = 80; "65535" valid; "65536", "0", "", "8 0", 2^63 invalid *)
Example C13_port_examples :
  norm_port [32;56;48;9] = (80%Z, false) /\ norm_port [54;53;53;51;53] = (65535%Z, false) /\
  norm_port [54;53;53;51;54] = ((-1)%Z, true) /\ norm_port [48] = ((-1)%Z, true) /\ norm_port [] = ((-1)%Z, true) /\
  norm_port [56;32;48] = ((-1)%Z, true) /\
  norm_port [57;50;50;51;51;55;50;48;51;54;56;53;52;55;55;53;56;48;56] = ((-1)%Z, true).
Proof. vm_compute. repeat split; reflexivity. Qed.

(* ==== HISTORY LEVEL (PUriHist*.v): for a request of the wire grammar whose target is u, delivered from a fresh connection in ANY chunking (and any folding of the header
   fields), callbacks answering OK: exactly one transaction t, and uh_c13 u t: t.request_uri = u; the raw parsed URI is parse_uri u (the function the theorems
   above are about); re-joining the reported components gives u exactly when no_junk_after_bracketb u (the listed finding F13 otherwise), and is always u with
   one contiguous piece removed (no invented bytes); a target starting with '/' has no scheme and no authority; the normalised port number is the decimal value
   of the port text when that is in 1..65535, and -1 with HTP_HOSTU_INVALID raised otherwise. uh_c12 g u t is the C12 half (see Properties_C12.v). ==== *)
Require Import Htp.Model.Base Htp.Model.MBstr Htp.Model.MConnTypes Htp.Model.MTxCommon Htp.Model.MReqLine Htp.Model.MReqUri Htp.Model.MTxReq.
Require Import Htp.Model.MReq Htp.Model.MRes Htp.Model.MConnp Htp.Model.MUri Htp.Model.MPath.
Require Import Htp.Spec.SWire Htp.Spec.SUri Htp.Spec.SPath Htp.Proof.PUri Htp.Proof.PPathDot Htp.Proof.PPathLen.
Require Import Htp.Proof.PWire Htp.Proof.PWireHdr Htp.Proof.PWireBlock Htp.Proof.PWireConn Htp.Proof.PWireExch.
Require Import Htp.Proof.PWireRun Htp.Proof.PWirePres Htp.Proof.PWireGlue Htp.Proof.PSeg Htp.Proof.PSegLine Htp.Proof.PSegHdr Htp.Proof.PSegGen Htp.Proof.PSegRun Htp.Proof.PSegFold Htp.Proof.PSegPipe.
Require Import Htp.Proof.PUriHist Htp.Proof.PUriHistTx.
Require Import Htp.Proof.PUriHistThm.
Theorem C13_at_history_level : forall cb g r (cuts : list (list bytes)) (chunks : list bytes),
  wr_all_ok cb -> g_allow_space_uri g = false -> wr_request_ok r = true -> sg_cuts_ok r cuts = true -> sg_fold_fits g r cuts = true ->
  Forall (fun x => x <> []) chunks -> concat chunks = sg_fold_wire r cuts ->
  exists t, c_txs (fst (cp_run cb g connp_new (OpOpen :: map OpReqData chunks))) = [Some t] /\
            uh_c13 (wq_uri r) t /\ uh_c12 g (wq_uri r) t.
Proof. exact uh_request_uri_fold_chunking. Qed.
Print Assumptions C13_at_history_level.

(* ... and for every transaction of n pipelined requests, in any chunking (chunks spanning request boundaries) *)
Require Import Htp.Model.Base Htp.Model.MBstr Htp.Model.MConnTypes Htp.Model.MTxCommon Htp.Model.MReqLine Htp.Model.MReqUri Htp.Model.MTxReq.
Require Import Htp.Model.MReq Htp.Model.MRes Htp.Model.MConnp Htp.Model.MUri Htp.Model.MPath.
Require Import Htp.Spec.SWire Htp.Proof.PWire Htp.Proof.PWireExch Htp.Proof.PWireGlue Htp.Proof.PSeg Htp.Proof.PSegLine Htp.Proof.PSegRun Htp.Proof.PSegFold Htp.Proof.PSegPipe.
Require Import Htp.Proof.PUriHist Htp.Proof.PUriHistTx Htp.Proof.PUriHistThm Htp.Proof.PUriHistPipe.
Require Import Htp.Proof.PUriHistPipeThm.
Theorem C13_C12_for_pipelined_requests : forall cb g (rs : list wr_request) (chunks : list bytes),
  wr_all_ok cb -> g_allow_space_uri g = false -> (g_max_tx g = 0 \/ length rs < g_max_tx g)%nat ->
  Forall (fun r => sg_req_ok g r = true) rs -> Forall (fun x => x <> []) chunks -> concat chunks = concat (map wr_request_wire rs) ->
  Forall2 (fun slot r => exists t, slot = Some t /\ uh_c13 (wq_uri r) t /\ uh_c12 g (wq_uri r) t)
          (c_txs (fst (cp_run cb g connp_new (OpOpen :: map OpReqData chunks)))) rs.
Proof. exact uh_pipeline_uri. Qed.
Print Assumptions C13_C12_for_pipelined_requests.
