(* C06 -- body bytes are delivered exactly once, in order, with correct length accounting.
   Model: Model/MReq.v, MRes.v, MTxCommon.v, MTxRes.v (the body states of the connection parser and the body-data
   dispatch); declarative side and executable premises: Spec/SBody.v; proofs: Proof/PBody*.v.
   The statements about a whole body quantify over EVERY TCP chunking: bd_rq_reach / bd_rs_reach iterate the REAL loop
   body of htp_connp_req_data / htp_connp_res_data (rq_iter / one unrolling of rs_res_loop) over the chunks, a call
   returning HTP_STREAM_DATA being followed by the next call (bd_req_begin = the prologue of htp_connp_req_data). *)
Require Import Htp.Model.MConnTypes Htp.Model.MBstr Htp.Model.MTxCommon Htp.Model.MReqLine Htp.Model.MTxReq Htp.Model.MReq.
Require Import Htp.Model.MResLine Htp.Model.MTxRes Htp.Model.MRes Htp.Model.MConnp.
Require Import Htp.Spec.SBody Htp.Proof.PBody Htp.Proof.PBodyReq Htp.Proof.PBodyReqRun Htp.Proof.PBodyReqLine Htp.Proof.PBodyReqChunked.
Require Import Htp.Proof.PBodyRes Htp.Proof.PBodyResRun Htp.Proof.PBodyResId Htp.Proof.PBodyResLine Htp.Proof.PBodyResChunked Htp.Proof.PBodyResChunked2.
Local Open Scope Z_scope.

(* ------------------------------------------------------------------ (5) accounting: EVERY input, EVERY callback behaviour *)
(* request_entity_len grows by exactly the payload handed to REQUEST_BODY_DATA (bd_pay = the bytes, or the gap length
   for a NULL chunk); request_message_len is not touched here; whatever the callbacks do (refuse, register hooks, destroy
   the transaction) *)
Theorem C06_accounting_req : forall cb i j data nlen c t,
  tx_slot c i = Some t -> c_in_tx c = Some j ->
  let c' := snd (tx_req_process_body_data_ex cb i data nlen c) in
  exists new, c_events c' = new ++ c_events c /\
    bd_sum H_REQUEST_BODY_DATA new = bd_pay_events data /\
    (forall t', tx_slot c' i = Some t' ->
       t_request_entity_len t' = t_request_entity_len t + bd_pay data nlen /\
       t_request_message_len t' = t_request_message_len t).
Proof. exact bd_req_accounting. Qed.
Print Assumptions C06_accounting_req.

(* response side (decompression off: response_content_encoding_processing = NONE is the only accepted value):
   response_entity_len and the delivered payload grow by len together, response_message_len by len *)
Theorem C06_accounting_res : forall cb i o data len c t,
  tx_slot c i = Some t -> c_out_tx c = Some o ->
  match data with Some d => length d = len | None => True end ->
  let c' := snd (tx_res_process_body_data_ex cb i data len c) in
  let on := t_res_cep t =? c_HTP_COMPRESSION_NONE in
  exists new, c_events c' = new ++ c_events c /\
    bd_sum H_RESPONSE_BODY_DATA new = (if on then bd_pay_events data else 0) /\
    (forall t', tx_slot c' i = Some t' ->
       t_response_entity_len t' = t_response_entity_len t + (if on then Z.of_nat len else 0) /\
       t_response_message_len t' = t_response_message_len t + Z.of_nat len).
Proof. exact bd_res_accounting. Qed.
Print Assumptions C06_accounting_res.

(* for a message that has a body, a NULL-data event precedes the completion callback (every callback behaviour) *)
Theorem C06_marker_req : forall cb i j c,
  c_in_tx c = Some j -> tx_req_has_body (tx_get c i) = true ->
  let c' := snd (tx_state_request_complete_partial cb i c) in
  exists new, c_events c' = new ++ c_events c /\
              bd_marker_ok H_REQUEST_BODY_DATA H_REQUEST_COMPLETE (rev new) false = true.
Proof. exact bd_req_marker. Qed.
Print Assumptions C06_marker_req.

Theorem C06_marker_res : forall cb g i o hybrid c t,
  tx_slot c i = Some t -> c_out_tx c = Some o ->
  t_res_cep t = c_HTP_COMPRESSION_NONE -> (t_response_transfer_coding t =? c_HTP_CODING_NO_BODY) = false ->
  let c' := snd (tx_state_response_complete_ex cb g i hybrid c) in
  exists new, c_events c' = new ++ c_events c /\
              bd_marker_ok H_RESPONSE_BODY_DATA H_RESPONSE_COMPLETE (rev new) false = true.
Proof. exact bd_res_marker. Qed.
Print Assumptions C06_marker_res.

(* ------------------------------------------------------------------ (1) one identity step, request side *)
(* bd_rq_deliver i t dd c = the parser after dd went to the callbacks: one REQUEST_BODY_DATA event with payload dd,
   read/consume offsets + |dd|, request_entity_len and request_message_len + |dd| *)
Theorem C06_identity_step_req : forall cb, (forall n, cb H_REQUEST_BODY_DATA n = CB_OK) -> forall i t c,
  bd_rq_inv i c -> tx_slot c i = Some t -> 0 < c_in_body_data_left c ->
  let n := c_in_body_data_left c in
  let dd := firstn (Z.to_nat n) (bd_rq_rest c) in          (* = the next min(n, len - read) bytes of the chunk *)
  REQ_BODY_IDENTITY_fn cb c =
    if (length dd =? 0)%nat then (ST_DATA, c)
    else let c' := (bd_rq_deliver i t dd c) <| c_in_body_data_left ::= (fun l => l - Z.of_nat (length dd)) |> in
         if n - Z.of_nat (length dd) =? 0 then (ST_OK, c' <| c_in_state := REQ_FINALIZE |>) else (ST_DATA, c').
Proof. exact bd_rq_identity_step. Qed.
Print Assumptions C06_identity_step_req.

Theorem C06_identity_step_req_effect : forall i t dd c, tx_slot c i = Some t ->
  c_events (bd_rq_deliver i t dd c) = mkev H_REQUEST_BODY_DATA i (Some dd) false None :: c_events c /\
  c_in (bd_rq_deliver i t dd c) = (c_in c) <| k_read ::= Nat.add (length dd) |> <| k_consume ::= Nat.add (length dd) |> /\
  tx_slot (bd_rq_deliver i t dd c) i =
    Some (t <| t_request_entity_len ::= Z.add (Z.of_nat (length dd)) |> <| t_request_message_len ::= Z.add (Z.of_nat (length dd)) |>).
Proof. intros i t dd c H. split; [reflexivity|split; [reflexivity|apply bd_rq_deliver_slot; exact H]]. Qed.

(* ------------------------------------------------------------------ (2) identity body, every chunking *)
Theorem C06_identity_body : forall cb g, (forall n, cb H_REQUEST_BODY_DATA n = CB_OK) -> forall i rem c body rest,
  bd_rq_inv i c -> bd_rq_clean c -> c_in_state c = REQ_BODY_IDENTITY ->
  c_in_body_data_left c = Z.of_nat (length body) -> body <> [] ->
  Forall (fun d => d <> []) rem ->
  bd_rq_rest c ++ concat rem = body ++ rest ->
  exists c' rem',
    bd_rq_seg cb g i c rem c' rem' body (Z.of_nat (length body)) /\
    c_in_state c' = REQ_FINALIZE /\ c_in_body_data_left c' = 0 /\
    bd_rq_rest c' ++ concat rem' = rest /\
    c_in_chunked_length c' = c_in_chunked_length c.
Proof. intros cb g H. exact (bd_rq_identity_seg cb g H). Qed.
Print Assumptions C06_identity_body.

(* ------------------------------------------------------------------ (3a) line assembly is chunking-invariant *)
Theorem C06_line_assembly : forall cb g i rem c lrest rest t,
  bd_rq_inv i c -> c_in_state c = REQ_BODY_CHUNKED_LENGTH -> k_consume (c_in c) = k_read (c_in c) ->
  bd_rq_rest c ++ concat rem = lrest ++ LF :: rest -> bd_no_lf lrest = true ->
  (length (bd_olist (k_buf (c_in c))) + length lrest + 1 <= g_field_limit_hard g)%nat ->
  Forall (fun d => d <> []) rem -> tx_slot c i = Some t ->
  let line := bd_olist (k_buf (c_in c)) ++ lrest ++ [LF] in
  let v := bd_rq_line_value line in
  exists c2 rem2 c',
    bd_rq_reach cb g c rem c2 rem2 /\
    rq_state_fn cb g (c_in_state c2) c2 = (bd_rq_line_rc v, c') /\
    c_in_chunked_length c' = v /\ c_in_state c' = bd_rq_line_state v /\
    bd_rq_rest c' ++ concat rem2 = rest /\ Forall (fun d => d <> []) rem2 /\
    c_events c' = c_events c /\ c_in_body_data_left c' = c_in_body_data_left c /\
    c_in_tx c' = Some i /\ c_in_status c' = c_in_status c2 /\ bd_rq_inv i c2 /\
    k_consume (c_in c') = k_read (c_in c') /\ k_buf (c_in c') = None /\ k_header (c_in c') = None /\ k_receiver_hook (c_in c') = None /\
    (exists d, k_data (c_in c') = Some d /\ k_len (c_in c') = length d /\ (k_read (c_in c') <= length d)%nat) /\
    exists t', tx_slot c' i = Some t' /\ t_hook_request_body t' = t_hook_request_body t /\
               t_request_entity_len t' = t_request_entity_len t /\
               t_request_message_len t' = t_request_message_len t + Z.of_nat (length line) /\
               (v = 0 -> t_request_progress t' = c_HTP_REQUEST_TRAILER).
Proof. exact bd_rq_line_assembly. Qed.
Print Assumptions C06_line_assembly.

(* ------------------------------------------------------------------ (3b) chunked decode(encode), request side *)
(* ks = the chunks as they are on the wire (size line incl. LF, data, line that ends the data incl. LF), last = the
   last-chunk line; premises (executable): every size line parses to the length of its data (> 0), the last one to 0,
   every line fits the hard limit. Conclusion: concatenation of the delivered payloads = concatenation of the chunk
   data, nothing else delivered, parser in REQ_HEADERS (trailer) positioned right after the last-chunk line,
   request_entity_len + |data|, request_message_len + the wire bytes up to and including the last-chunk line. *)
Theorem C06_chunked_decode_encode_partial : forall cb g, (forall n, cb H_REQUEST_BODY_DATA n = CB_OK) ->
  forall i ks rem c last rest t,
  bd_rq_inv i c -> bd_rq_clean c -> c_in_state c = REQ_BODY_CHUNKED_LENGTH ->
  Forall (fun k => bd_chunk_ok bd_rq_line_value k = true) ks -> bd_last_ok bd_rq_line_value last = true ->
  bd_lines_fit (g_field_limit_hard g) ks last = true ->
  bd_rq_rest c ++ concat rem = bd_chunks_wire ks ++ last ++ rest ->
  Forall (fun d => d <> []) rem -> tx_slot c i = Some t ->
  exists c' rem' t' evs,
    bd_rq_reach cb g c rem c' rem' /\ c_in_state c' = REQ_HEADERS /\
    bd_rq_rest c' ++ concat rem' = rest /\ Forall (fun d => d <> []) rem' /\
    c_events c' = evs ++ c_events c /\ bd_delivered H_REQUEST_BODY_DATA evs = bd_chunks_data ks /\
    bd_evs H_REQUEST_BODY_DATA evs = evs /\
    tx_slot c' i = Some t' /\ t_request_progress t' = c_HTP_REQUEST_TRAILER /\
    t_request_entity_len t' = t_request_entity_len t + Z.of_nat (length (bd_chunks_data ks)) /\
    t_request_message_len t' = t_request_message_len t + Z.of_nat (length (bd_chunks_wire ks) + length last).
Proof. intros cb g H. exact (bd_rq_chunked_body cb g H). Qed.
Print Assumptions C06_chunked_decode_encode_partial.

(* ------------------------------------------------------------------ response side *)
(* (1) twin: one step of RES_BODY_IDENTITY_CL_KNOWN; when the body completes the NULL end marker is delivered in the same
   call (bd_rs_deliver o t data len c = the parser after RESPONSE_BODY_DATA got (data, len): one event, response_message_len
   and response_entity_len + len) *)
Theorem C06_identity_step_res : forall cb, (forall n, cb H_RESPONSE_BODY_DATA n = CB_OK) -> forall o t c,
  bd_rs_inv o c -> tx_slot c o = Some t -> 0 < c_out_body_data_left c ->
  let n := c_out_body_data_left c in
  let dd := firstn (Z.to_nat n) (bd_rs_rest c) in
  rs_RES_BODY_IDENTITY_CL_KNOWN cb c =
    if (length dd =? 0)%nat then (ST_DATA, c)
    else let c1 := rs_advance (length dd) (bd_rs_deliver o t (Some dd) (length dd) c) in
         let c2 := c1 <| c_out_body_data_left := c_out_body_data_left c1 - Z.of_nat (length dd) |> in
         if n - Z.of_nat (length dd) =? 0
         then (ST_OK, bd_rs_deliver o (t <| t_response_message_len ::= Z.add (Z.of_nat (length dd)) |>
                                        <| t_response_entity_len ::= Z.add (Z.of_nat (length dd)) |>) None 0
                                    (rs_set_state RES_FINALIZE c2))
         else (ST_DATA, c2).
Proof. exact bd_rs_cl_known_step. Qed.
Print Assumptions C06_identity_step_res.

(* (2) twin: Content-Length body under every chunking; the last event is the NULL end marker *)
Theorem C06_identity_body_res : forall cb g, (forall n, cb H_RESPONSE_BODY_DATA n = CB_OK) -> forall o rem c body rest,
  bd_rs_inv o c -> bd_rs_clean c -> c_out_state c = RES_BODY_IDENTITY_CL_KNOWN ->
  c_out_body_data_left c = Z.of_nat (length body) -> body <> [] ->
  Forall (fun d => d <> []) rem ->
  bd_rs_rest c ++ concat rem = body ++ rest ->
  exists c' rem',
    bd_rs_seg cb g o c rem c' rem' body (Z.of_nat (length body)) /\
    c_out_state c' = RES_FINALIZE /\ c_out_body_data_left c' = 0 /\
    bd_rs_rest c' ++ concat rem' = rest /\
    c_out_chunked_length c' = c_out_chunked_length c /\
    (exists evs0, c_events c' = mkev H_RESPONSE_BODY_DATA o None false None :: evs0).
Proof. intros cb g H. exact (bd_rs_identity_seg cb g H). Qed.
Print Assumptions C06_identity_body_res.

(* (4) close-delimited body: every byte of every chunk is delivered, in order; c_last = the parser at the start of the
   last call, which returns HTP_DATA leaving c''; the close call itself only moves to RES_FINALIZE *)
Theorem C06_close_delimited : forall cb g, (forall n, cb H_RESPONSE_BODY_DATA n = CB_OK) -> forall o rem c,
  bd_rs_inv o c -> c_out_state c = RES_BODY_IDENTITY_STREAM_CLOSE -> Forall (fun d => d <> []) rem ->
  exists c_last c'' evs,
    bd_rs_reach cb g c rem c_last [] /\ rs_RES_BODY_IDENTITY_STREAM_CLOSE cb c_last = (ST_DATA, c'') /\
    bd_rs_inv o c'' /\ bd_rs_rest c'' = [] /\ c_out_state c'' = RES_BODY_IDENTITY_STREAM_CLOSE /\
    c_events c'' = evs ++ c_events c /\ bd_delivered H_RESPONSE_BODY_DATA evs = bd_rs_rest c ++ concat rem /\
    bd_evs H_RESPONSE_BODY_DATA evs = evs /\
    (forall t, tx_slot c o = Some t -> exists t', tx_slot c'' o = Some t' /\
       t_response_entity_len t' = t_response_entity_len t + Z.of_nat (length (bd_rs_rest c ++ concat rem)) /\
       t_response_message_len t' = t_response_message_len t + Z.of_nat (length (bd_rs_rest c ++ concat rem))).
Proof. intros cb g H. exact (bd_rs_close_delimited cb g H). Qed.
Print Assumptions C06_close_delimited.
Theorem C06_close_delimited_at_close : forall cb c,
  (c_out_status c =? c_HTP_STREAM_CLOSED) = true -> k_len (c_out c) = k_read (c_out c) ->
  rs_RES_BODY_IDENTITY_STREAM_CLOSE cb c = (ST_OK, rs_set_state RES_FINALIZE c).
Proof. exact bd_rs_stream_close_at_close. Qed.
(* bd_rs_reach unrolls the real for(;;) of htp_connp_res_data *)
Theorem C06_res_loop_unroll : forall cb g f c,
  rs_res_loop cb g (S f) false c = match bd_rs_iter cb g c with inl r => r | inr c' => rs_res_loop cb g f false c' end.
Proof. exact bd_rs_loop_unroll. Qed.

(* (3a) response twin of the line assembly. Since the repair of finding K1 the look-ahead data_probe_chunk_length scans
   out_buf ++ the unconsumed bytes, i.e. a prefix of the WHOLE line, so a line with a valid value passes it whatever the
   TCP cuts (PBodyResChunked.bd_value_scan): no premise about the cut positions or the extension is needed any more;
   0 <= v excludes the "-1004 empty line" and the invalid-length paths *)
Theorem C06_line_assembly_res : forall cb g o rem c lrest rest t,
  bd_rs_inv o c -> c_out_state c = RES_BODY_CHUNKED_LENGTH -> k_consume (c_out c) = k_read (c_out c) ->
  bd_rs_rest c ++ concat rem = lrest ++ LF :: rest -> bd_no_lf lrest = true ->
  (length (bd_rs_pending c) + length lrest + 1 <= g_field_limit_hard g)%nat ->
  Forall (fun d => d <> []) rem -> tx_slot c o = Some t ->
  let line := bd_rs_pending c ++ lrest ++ [LF] in
  let v := bd_rs_line_value line in
  0 <= v ->
  exists c2 rem2 c',
    bd_rs_reach cb g c rem c2 rem2 /\
    rs_state_fn cb g (c_out_state c2) c2 = (ST_OK, c') /\
    c_out_chunked_length c' = v /\ c_out_state c' = bd_rs_line_state v /\
    bd_rs_rest c' ++ concat rem2 = rest /\ Forall (fun d => d <> []) rem2 /\
    c_events c' = c_events c /\ c_out_body_data_left c' = c_out_body_data_left c /\
    c_out_tx c' = Some o /\ c_out_status c' = c_out_status c2 /\ bd_rs_inv o c2 /\
    k_consume (c_out c') = k_read (c_out c') /\ k_buf (c_out c') = None /\ k_header (c_out c') = None /\ k_receiver_hook (c_out c') = None /\
    (exists d, k_data (c_out c') = Some d /\ k_len (c_out c') = length d /\ (k_read (c_out c') <= length d)%nat) /\
    exists t', tx_slot c' o = Some t' /\ t_hook_response_body t' = t_hook_response_body t /\ t_res_cep t' = t_res_cep t /\
               t_response_entity_len t' = t_response_entity_len t /\
               t_response_message_len t' = t_response_message_len t + Z.of_nat (length line) /\
               (v = 0 -> t_response_progress t' = c_HTP_RESPONSE_TRAILER).
Proof. intros cb g. exact (bd_rs_line_assembly cb g). Qed.
Print Assumptions C06_line_assembly_res.

(* (3b) chunked decode(encode), response side: same premises as on the request side (the size lines are not chomped) *)
Theorem C06_chunked_decode_encode_res_partial : forall cb g, (forall n, cb H_RESPONSE_BODY_DATA n = CB_OK) ->
  forall o ks rem c last rest t,
  bd_rs_inv o c -> bd_rs_clean c -> c_out_state c = RES_BODY_CHUNKED_LENGTH ->
  Forall (fun k => bd_chunk_ok bd_rs_line_value k = true) ks ->
  bd_last_ok bd_rs_line_value last = true ->
  bd_lines_fit (g_field_limit_hard g) ks last = true ->
  bd_rs_rest c ++ concat rem = bd_chunks_wire ks ++ last ++ rest ->
  Forall (fun d => d <> []) rem -> tx_slot c o = Some t ->
  exists c' rem' t' evs,
    bd_rs_reach cb g c rem c' rem' /\ c_out_state c' = RES_HEADERS /\
    bd_rs_rest c' ++ concat rem' = rest /\ Forall (fun d => d <> []) rem' /\
    c_events c' = evs ++ c_events c /\ bd_delivered H_RESPONSE_BODY_DATA evs = bd_chunks_data ks /\
    bd_evs H_RESPONSE_BODY_DATA evs = evs /\
    tx_slot c' o = Some t' /\ t_response_progress t' = c_HTP_RESPONSE_TRAILER /\
    t_response_entity_len t' = t_response_entity_len t + Z.of_nat (length (bd_chunks_data ks)) /\
    t_response_message_len t' = t_response_message_len t + Z.of_nat (length (bd_chunks_wire ks) + length last).
Proof. intros cb g H. exact (bd_rs_chunked_body cb g H). Qed.
Print Assumptions C06_chunked_decode_encode_res_partial.

(* ------------------------------------------------------------------ Examples: the premises are reachable and satisfiable *)
Require Coq.Strings.String.
Import Coq.Strings.String.StringSyntax.
Local Open Scope string_scope.
Local Notation "a +++ b" := (@app N a b) (at level 60, right associativity).
Definition C06_ex_g : cfg := cp_make_cfg 1%nat 18000%nat 512%nat false false 0.
Definition C06_ex_cb : cb_oracle := script_lookup [].
Definition C06_ex_head : bytes := bd_lines ["POST /r0 HTTP/1.1"; "Host: a"; "Transfer-Encoding: chunked"; ""].
(* the parser after the header block of a chunked request: the state the chunked theorems start from *)
Definition C06_ex_c0 : connp := fst (connp_req_data C06_ex_cb C06_ex_g (Some C06_ex_head) (length C06_ex_head) (connp_open connp_new)).
Example C06_premises_reachable :
  bd_rq_invb 0 C06_ex_c0 = true /\ bd_rq_cleanb C06_ex_c0 = true /\ c_in_state C06_ex_c0 = REQ_BODY_CHUNKED_LENGTH /\ bd_rq_rest C06_ex_c0 = [].
Proof. vm_compute. repeat split. Qed.
(* wire chunks: upper-case / zero-padded sizes, an extension, data containing CR LF and a fake last chunk *)
Definition C06_ex_chunks : list bd_chunk :=
  [mk_bd_chunk (bd_lines ["3;x=y"]) (bd_str "abc") bd_CRLF;
   mk_bd_chunk (bd_lines ["00C"]) (bd_lines ["0"; ""; "GET /"]) bd_CRLF].
Example C06_chunk_premises_nonvacuous :
  forallb (bd_chunk_ok bd_rq_line_value) C06_ex_chunks = true /\ bd_last_ok bd_rq_line_value bd_last_line = true /\
  bd_lines_fit (g_field_limit_hard C06_ex_g) C06_ex_chunks bd_last_line = true /\
  forallb (bd_chunk_ok bd_rs_line_value) C06_ex_chunks = true.
Proof. vm_compute. repeat split. Qed.
(* the response parser after the header block of a chunked response: the state the response theorems start from *)
Definition C06_ex_c0_res : connp :=
  let rq := bd_lines ["GET /1 HTTP/1.1"; "Host: a"; ""] in
  let rs := bd_lines ["HTTP/1.1 200 OK"; "Transfer-Encoding: chunked"; ""] in
  fst (connp_res_data C06_ex_cb C06_ex_g (Some rs) (length rs)
         (fst (connp_req_data C06_ex_cb C06_ex_g (Some rq) (length rq) (connp_open connp_new)))).
Example C06_premises_reachable_res :
  bd_rs_invb 0 C06_ex_c0_res = true /\ bd_rs_cleanb C06_ex_c0_res = true /\ c_out_state C06_ex_c0_res = RES_BODY_CHUNKED_LENGTH /\
  bd_last_ok bd_rs_line_value bd_last_line = true.
Proof. vm_compute. repeat split. Qed.
(* the encoder of DESIGN Appendix A produces such chunks *)
Example C06_encoder_chunk_ok :
  let c := bd_lines ["hello"; "0"] in
  bd_chunk_ok bd_rq_line_value (mk_bd_chunk (bd_hexlen c +++ bd_str ";n=v" +++ bd_CRLF) c bd_CRLF) = true /\
  bd_enc_chunk c (bd_str ";n=v") = bd_chunk_wire (mk_bd_chunk (bd_hexlen c +++ bd_str ";n=v" +++ bd_CRLF) c bd_CRLF).
Proof. vm_compute. split; reflexivity. Qed.
(* the executable model on a whole connection: the same chunked body delivered in three cuts *)
Example C06_example_run :
  let wire := bd_chunks_wire C06_ex_chunks +++ bd_last_line +++ bd_CRLF in
  let ops := [OpOpen; OpReqData (C06_ex_head +++ firstn 2 wire); OpReqData (firstn 9 (skipn 2 wire)); OpReqData (skipn 11 wire); OpClose] in
  let '(c, rs) := cp_run C06_ex_cb C06_ex_g connp_new ops in
  bd_log_delivered H_REQUEST_BODY_DATA (map r_events rs) = bd_chunks_data C06_ex_chunks /\
  option_map t_request_entity_len (tx_slot c 0) = Some (Z.of_nat (length (bd_chunks_data C06_ex_chunks))) /\
  option_map t_request_message_len (tx_slot c 0) = Some (Z.of_nat (length (bd_chunks_wire C06_ex_chunks) + length bd_last_line)).
Proof. vm_compute. repeat split. Qed.

(* ------------------------------------------------------------------ refutations (faithful model = unchanged library) *)
Definition C06_ex_req : bytes := bd_lines ["GET /1 HTTP/1.1"; "Host: a"; ""].
Definition C06_ex_res_head : bytes := bd_lines ["HTTP/1.1 200 OK"; "Transfer-Encoding: chunked"; ""].
Definition C06_ex_res_body : bytes := bd_lines ["3;name=value12345"; "abc"; "0"; ""].
Definition C06_res_run (cuts : list bytes) : connp * list cp_result :=
  cp_run C06_ex_cb C06_ex_g connp_new ((OpOpen :: OpReqData C06_ex_req :: map OpResData cuts) ++ [OpClose])%list.
Definition C06_res_delivered (cuts : list bytes) : bytes :=
  bd_log_delivered H_RESPONSE_BODY_DATA (map r_events (snd (C06_res_run cuts))).
(* K2: response side, invalid chunk length (2^31): the parser falls back to a close-delimited body but has already
   added the line to response_message_len (13 wire bytes, 23 reported); when a piece of the line was buffered from an
   earlier call those bytes are delivered twice (19 bytes delivered for 13 on the wire) *)
Definition C06_res_lens (cuts : list bytes) : option (Z * Z) :=
  option_map (fun t => (t_response_message_len t, t_response_entity_len t)) (tx_slot (fst (C06_res_run cuts)) 0).
Example C06_msglen_invalid_chunk_length_refuted :
  let body := bd_lines ["80000000"] +++ bd_str "abc" in
  length body = 13%nat /\
  C06_res_lens [C06_ex_res_head +++ body] = Some (23, 13) /\
  C06_res_lens [C06_ex_res_head +++ firstn 4 body; skipn 4 body] = Some (29, 19).
Proof. vm_compute. repeat split. Qed.
(* regression of the repaired -1004 path (/repo 251ab86): empty chunk-length lines are counted once, whatever the cut *)
Example C06_msglen_empty_chunk_lines_fixed :
  let body := bd_lines [""; ""; "3"; "abc"; "0"; ""] in
  C06_res_lens [C06_ex_res_head +++ body] = Some (15, 3) /\
  C06_res_lens [C06_ex_res_head; body] = Some (15, 3) /\
  C06_res_lens [C06_ex_res_head +++ firstn 3 body; skipn 3 body] = Some (15, 3).
Proof. vm_compute. repeat split. Qed.
(* regression of the repaired finding K1 (response chunk-extension look-ahead): a TCP cut that leaves 8 or more extension
   bytes at the start of a segment used to end the size line early ('ue1' and '0 CR LF CR LF' delivered instead of 'abc');
   now every cut decodes to 'abc' with sel = 3, sml = 27 -- although the line violates the old premise bd_res_line_ok *)
Example C06_chunked_res_ext_fixed :
  C06_res_delivered [C06_ex_res_head +++ C06_ex_res_body] = bd_str "abc" /\
  C06_res_delivered [C06_ex_res_head +++ firstn 2 C06_ex_res_body; skipn 2 C06_ex_res_body] = bd_str "abc" /\
  C06_res_lens [C06_ex_res_head +++ firstn 2 C06_ex_res_body; skipn 2 C06_ex_res_body] = Some (27, 3) /\
  forallb (fun k => Z.eqb (Z.of_nat (length (C06_res_delivered [C06_ex_res_head +++ firstn k C06_ex_res_body; skipn k C06_ex_res_body]))) 3)
          (seq 1 (length C06_ex_res_body - 1)) = true /\
  bd_res_line_ok (bd_lines ["3;name=value12345"]) = false.
Proof. vm_compute. repeat split. Qed.

(* ==== HISTORY-LEVEL DELIVERY (PDeliv*.v): from a FRESH connection, through the API (cp_run), for EVERY chunking, callbacks answering OK ====
   dv_log = all callback events of the run, call by call; dv_selp keeps the body-data and completion events of one direction.
   dv_c06 h hc i last body evs: evs = data* ++ marker^k ++ [completion], k >= 1, the data payloads non-empty and concatenating to EXACTLY the body:
   every body byte delivered once, in order; at least one end-of-body marker (NULL data), all markers after the last data event; the completion callback
   after them, once (C06_delivery_meaning). The five framings: request Content-Length, request chunk-coded (payloads = decoded chunk data, marker after the
   trailer), response Content-Length, response chunk-coded, response close-delimited (marker and completion delivered by htp_connp_close). k = 1 everywhere
   except Content-Length responses with a non-empty body, which get TWO markers (C06_response_cl_two_markers: an observation about the unchanged library;
   the property asks for "an" end-of-body marker). Premises: those of the segmentation theorems of C03 (grammar, limits, the model's framing decision, F1). *)
Require Import Htp.Model.Base Htp.Model.MBstr Htp.Model.MConnTypes Htp.Model.MTxCommon Htp.Model.MReq Htp.Model.MRes Htp.Model.MConnp.
Require Import Htp.Spec.SWire Htp.Spec.SBody Htp.Proof.PBody Htp.Proof.PWireExch Htp.Proof.PWireGlue Htp.Proof.PSegRun Htp.Proof.PSegFold Htp.Proof.PSegBody.
Require Import Htp.Proof.PSegChunkedRun Htp.Proof.PSegRes Htp.Proof.PSegResRun Htp.Proof.PSegResThm Htp.Proof.PSegResChRun Htp.Proof.PSegResClose.
Require Import Htp.Proof.PDeliv Htp.Proof.PDelivReqBody Htp.Proof.PDelivReqChunked Htp.Proof.PDelivRes Htp.Proof.PDelivResBody Htp.Proof.PDelivResChunked.
Require Import Htp.Proof.PDelivResClose Htp.Proof.PDelivReqRs.
Require Import Htp.Proof.PDelivThm.
Theorem C06_delivery_meaning : forall h hc i last body evs, h <> hc -> dv_c06 h hc i last body evs ->
  concat (map bd_ev_bytes (dv_sel h evs)) = body /\
  (exists pre k, (1 <= k)%nat /\ dv_sel h evs = pre ++ repeat (dv_marker h i last) k /\ Forall (fun e => ev_data e <> None) pre) /\
  dv_sel hc evs = [dv_done hc i] /\ bd_marker_ok h hc evs false = true.
Proof. exact dv_c06_meaning. Qed.
Theorem C06_delivery_request_cl : forall cb g r (cuts : list (list bytes)) (body : bytes) (chunks : list bytes),
  wr_all_ok cb -> g_allow_space_uri g = false -> sg_body_ok g r body = true -> sg_cuts_ok r cuts = true -> sg_fold_fits g r cuts = true ->
  Forall (fun x => x <> []) chunks -> concat chunks = sg_fold_wire r cuts ++ body ->
  dv_c06 H_REQUEST_BODY_DATA H_REQUEST_COMPLETE 0 true body (dv_selp dv_rq_hook (dv_log cb g (OpOpen :: map OpReqData chunks))).
Proof. exact dv_c06_request_cl. Qed.
Print Assumptions C06_delivery_request_cl.
Theorem C06_delivery_request_chunked : forall cb g r (cuts : list (list bytes)) (ks : list bd_chunk) (last : bytes) (tr : list wr_field)
    (tcuts : list (list bytes)) (chunks : list bytes),
  wr_all_ok cb -> g_allow_space_uri g = false -> sg_chunked_ok g r = true -> sg_cuts_ok r cuts = true -> sg_fold_fits g r cuts = true ->
  sg_cfbody_ok g ks last tr tcuts = true ->
  Forall (fun x => x <> []) chunks -> concat chunks = sg_fold_wire r cuts ++ sg_cfbody_wire ks last tr tcuts ->
  dv_c06 H_REQUEST_BODY_DATA H_REQUEST_COMPLETE 0 true (bd_chunks_data ks) (dv_selp dv_rq_hook (dv_log cb g (OpOpen :: map OpReqData chunks))).
Proof. exact dv_c06_request_chunked. Qed.
Print Assumptions C06_delivery_request_chunked.
Theorem C06_delivery_response_cl : forall cb g rq r (cuts : list (list bytes)) (body : bytes) (chunks : list bytes),
  wr_all_ok cb -> g_allow_space_uri g = false -> wr_request_ok rq = true ->
  sr_response_ok r = true -> sr_cuts_ok r cuts = true -> sr_framed cb g rq r cuts body = true -> sr_fits g r cuts = true ->
  Forall (fun x => x <> []) chunks -> concat chunks = sr_wire r cuts body ->
  sr_f1_free body (negb (sr_is_nil (sr_lines r cuts))) chunks = true ->
  dv_c06 H_RESPONSE_BODY_DATA H_RESPONSE_COMPLETE 0 false body
    (dv_selp dv_rs_hook (dv_log cb g (OpOpen :: OpReqData (wr_request_wire rq) :: map OpResData chunks))).
Proof. exact dv_c06_response_cl. Qed.
Print Assumptions C06_delivery_response_cl.
Theorem C06_delivery_response_chunked : forall cb g rq r (cuts : list (list bytes)) (ks : list bd_chunk) (last : bytes) (tr : list wr_field)
    (tcuts : list (list bytes)) (chunks : list bytes),
  wr_all_ok cb -> g_allow_space_uri g = false -> wr_request_ok rq = true ->
  sr_response_ok r = true -> sr_cuts_ok r cuts = true -> sr_framed_ch cb g rq r cuts = true -> sr_fits g r cuts = true ->
  sr_cfbody_ok g r ks last tr tcuts = true ->
  Forall (fun x => x <> []) chunks -> concat chunks = sr_wire r cuts (sr_cfbody_wire ks last tr tcuts) ->
  sr_f1_free (sr_cfbody_wire ks last tr tcuts) (negb (sr_is_nil (sr_lines r cuts))) chunks = true ->
  dv_c06 H_RESPONSE_BODY_DATA H_RESPONSE_COMPLETE 0 false (bd_chunks_data ks)
    (dv_selp dv_rs_hook (dv_log cb g (OpOpen :: OpReqData (wr_request_wire rq) :: map OpResData chunks))).
Proof. exact dv_c06_response_chunked. Qed.
Print Assumptions C06_delivery_response_chunked.
Theorem C06_delivery_response_close : forall cb g rq r (cuts : list (list bytes)) (body : bytes) (chunks : list bytes),
  wr_all_ok cb -> g_allow_space_uri g = false -> wr_request_ok rq = true ->
  sr_response_ok r = true -> sr_cuts_ok r cuts = true -> sr_framed_close cb g rq r cuts = true -> sr_fits g r cuts = true ->
  Forall (fun x => x <> []) chunks -> concat chunks = sr_wire r cuts body ->
  sr_f1_free body (negb (sr_is_nil (sr_lines r cuts))) chunks = true ->
  dv_c06 H_RESPONSE_BODY_DATA H_RESPONSE_COMPLETE 0 false body
    (dv_selp dv_rs_hook (dv_log cb g (OpOpen :: OpReqData (wr_request_wire rq) :: map OpResData chunks ++ [OpClose]))).
Proof. exact dv_c06_response_close. Qed.
Print Assumptions C06_delivery_response_close.
(* the exact shapes: one marker, or two for Content-Length responses *)
Theorem C06_response_cl_exact : forall cb g rq r (cuts : list (list bytes)) (body : bytes) (chunks : list bytes),
  wr_all_ok cb -> g_allow_space_uri g = false -> wr_request_ok rq = true ->
  sr_response_ok r = true -> sr_cuts_ok r cuts = true -> sr_framed cb g rq r cuts body = true -> sr_fits g r cuts = true ->
  Forall (fun x => x <> []) chunks -> concat chunks = sr_wire r cuts body ->
  sr_f1_free body (negb (sr_is_nil (sr_lines r cuts))) chunks = true ->
  dv_delivered_k H_RESPONSE_BODY_DATA H_RESPONSE_COMPLETE 0 (dv_nmark body) body
    (dv_selp dv_rs_hook (dv_log cb g (OpOpen :: OpReqData (wr_request_wire rq) :: map OpResData chunks))).
Proof. exact dv_response_body_delivery_whole. Qed.
